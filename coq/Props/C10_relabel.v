(* C10 (part 4) — "all these values are unchanged, up to the relabelling itself, when the graph is
   relabelled": for every simple graph g and every permutation p of its vertices (inverse q) the
   relabelled graph relabel g p (vertex u of it is vertex p u of g, Invariants/Graph.v) has the
   reference values of g read through p.  Together with the model theorems (Props/C10.v,
   C10_cycles.v, C10_blocks.v: every Go function's model returns its reference on every simple
   graph) this gives the invariance of what the functions return.  Distances and components:
   C10_distance_relabel, C10_component_relabel in Props/C10.v.
   "Held in another representation": the models take the abstract graph (vertex count and
   adjacency) that a representation presents through the Graph interface, so on the model side
   there is nothing to prove; that the nine representations present the same abstract graph is
   C05/C06 and is tied here by running every case in all of them (correspondence). *)
From Coq Require Import List ZArith Arith Sorted Lia.
From Mamba Require Import Invariants.Graph Invariants.DistSpec Invariants.DistRef Invariants.ConnModel
  Invariants.BlockRefProofs Invariants.DistRelabel Invariants.DistRelabelAll.
Import ListNotations.

(* Eccentricity: entry u of the relabelled graph is entry p u of g; Diameter and Radius equal. *)
Theorem C10_eccentricity_relabel : forall g p q, wf g -> perm_on (gn g) p q ->
  (forall u, u < gn g -> nth u (ecc_ref (relabel g p)) 0%Z = nth (p u) (ecc_ref g) 0%Z) /\
  diam_ref (relabel g p) = diam_ref g /\ rad_ref (relabel g p) = rad_ref g.
Proof.
  intros g p q Hwf Hp. split; [apply (ecc_ref_relabel g Hwf p q Hp)|].
  split; [apply (diam_ref_relabel g Hwf p q Hp) | apply (rad_ref_relabel g Hwf p q Hp)].
Qed.
Print Assumptions C10_eccentricity_relabel.

(* Girth *)
Theorem C10_girth_relabel : forall g p q, wf g -> perm_on (gn g) p q ->
  girth_ref (relabel g p) = girth_ref g /\ zgirth (relabel g p) = zgirth g.
Proof.
  intros g p q Hwf Hp. split; [apply (girth_ref_relabel g Hwf p q Hp) | apply (zgirth_relabel g Hwf p q Hp)].
Qed.
Print Assumptions C10_girth_relabel.

(* NumberOfCycles / NumberOfInducedCycles / NumberOfInducedPaths: the vectors are equal, for every
   length bound *)
Theorem C10_counts_relabel : forall g p q, wf g -> perm_on (gn g) p q ->
  cycles_ref (relabel g p) = cycles_ref g /\
  icycles_ref (relabel g p) = icycles_ref g /\ ipaths_ref (relabel g p) = ipaths_ref g /\
  (forall k, icycles_bounded_ref (relabel g p) k = icycles_bounded_ref g k) /\
  (forall k, ipaths_bounded_ref (relabel g p) k = ipaths_bounded_ref g k).
Proof.
  intros g p q Hwf Hp.
  split; [apply (cycles_ref_relabel g Hwf p q Hp)|].
  split; [apply (icycles_ref_relabel g Hwf p q Hp)|].
  split; [apply (ipaths_ref_relabel g Hwf p q Hp)|].
  split; [apply (icycles_bounded_ref_relabel g Hwf p q Hp) | apply (ipaths_bounded_ref_relabel g Hwf p q Hp)].
Qed.
Print Assumptions C10_counts_relabel.

(* BiconnectedComponents: every block S of the relabelled graph is, read through p and sorted
   again, a block of g; every block T of g is obtained so (from isort (map q T)); a vertex v is an
   articulation vertex of the relabelled graph exactly when p v is one of g. *)
Theorem C10_blocks_relabel : forall g p q, wf g -> perm_on (gn g) p q ->
  (forall S, In S (blocks_ref (relabel g p)) -> In (isort (map p S)) (blocks_ref g)) /\
  (forall T, In T (blocks_ref g) ->
     In (isort (map q T)) (blocks_ref (relabel g p)) /\ isort (map p (isort (map q T))) = T) /\
  (forall v, v < gn g -> (In v (artic_ref (relabel g p)) <-> In (p v) (artic_ref g))).
Proof.
  intros g p q Hwf Hp. destruct (blocks_ref_relabel g Hwf p q Hp) as [H1 H2].
  split; [exact H1|]. split; [exact H2 | apply (artic_ref_relabel g Hwf p q Hp)].
Qed.
Print Assumptions C10_blocks_relabel.

(* Non-vacuity: the 5-cycle with a pendant vertex and a separate edge of Props/C10.v, vertices 0
   and 6 exchanged: the cut vertex 0 becomes 6, the blocks move with it, the numbers stay. *)
Definition rl_graph : graph := of_edges 8 [(0,1); (1,2); (2,3); (3,4); (4,0); (0,5); (6,7)].
Definition rl_swap (x : nat) : nat := if x =? 0 then 6 else if x =? 6 then 0 else x.
Example C10_relabel_nonvacuous :
  wf rl_graph /\ perm_on 8 rl_swap rl_swap /\
  artic_ref rl_graph = [0] /\ artic_ref (relabel rl_graph rl_swap) = [6] /\
  blocks_ref rl_graph = [[0; 1; 2; 3; 4]; [0; 5]; [6; 7]] /\
  blocks_ref (relabel rl_graph rl_swap) = [[0; 7]; [1; 2; 3; 4; 6]; [5; 6]] /\
  zgirth (relabel rl_graph rl_swap) = 5%Z /\
  cycles_ref (relabel rl_graph rl_swap) = cycles_ref rl_graph /\
  ipaths_ref (relabel rl_graph rl_swap) = ipaths_ref rl_graph.
Proof.
  split; [apply of_edges_wf|]. split.
  - split; intros x Hx; do 8 (destruct x as [|x]; [vm_compute; split; (lia || reflexivity)|]); lia.
  - vm_compute. repeat split.
Qed.
