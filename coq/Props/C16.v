(* C16 — binomials are exact or refuse; Rank/Unrank are inverse bijections (package comb).
   This file contains only the property theorems, closed by [exact], and their assumptions.

   [binomz n k] is Pascal's triangle (Comb/Spec.v: C(n,0) = 1, C(0,k+1) = 0,
   C(n+1,k+1) = C(n,k) + C(n,k+1); 0 for negative arguments).  The model (Comb/Model.v) works
   on Z with the wrap-around of uint64 / int written out after every operation; [Panic] is a
   Go panic, [OutOfFuel] the exhausted fuel of Unrank's walk.  The tables [smallEntries],
   [maxSizes] and the constants [largestK], [maxInt], [smallLimit] come from Gen/CombTables.v,
   regenerated from /repo/comb/comb.go on every run; two64 = 2^64, two63 = 2^63. *)
From Coq Require Import List ZArith.
From Mamba Require Import Gen.CombTables Comb.Model Comb.Spec Comb.Binom Comb.Tables
  Comb.CoeffProofs Comb.CoeffsProofs Comb.RankProofs Comb.UnrankProofs.
Import ListNotations.
Open Scope Z_scope.

(* ---------------------------------------------------------------- the tables *)

(* Every entry of the built-in table is the binomial coefficient: smallEntries[n][k] = C(n,k)
   for all n <= 32 (the bound of the table branch) and k <= n/2. *)
Theorem C16_small_entries_are_binomials : forall n k, 0 <= n <= smallLimit -> 0 <= k <= n / 2 ->
  exists row, idx smallEntries n = Ret row /\ idx row k = Ret (binomz n k).
Proof. exact small_entries_exact. Qed.
Print Assumptions C16_small_entries_are_binomials.

(* Every overflow threshold is tight: maxSizes[k] is the largest n for which the step-by-step
   product stays inside uint64: k*C(maxSizes[k],k) < 2^64 <= k*C(maxSizes[k]+1,k), k = 1..largestK. *)
Theorem C16_thresholds_tight : forall k, 1 <= k <= largestK ->
  exists t, idx maxSizes k = Ret t /\ 0 <= t < two64 /\
            k * binomz t k < two64 /\ two64 <= k * binomz (t + 1) k.
Proof. exact thresholds_tight. Qed.
Print Assumptions C16_thresholds_tight.

(* Beyond largestK nothing is lost by refusing: for k > largestK and n >= 2k the product
   k*C(n,k) is never below 2^64. *)
Theorem C16_beyond_largestK : forall n k, largestK < k -> 2 * k <= n -> two64 <= k * binomz n k.
Proof. exact beyond_largestK. Qed.
Print Assumptions C16_beyond_largestK.

(* ---------------------------------------------------------------- CoeffUint64, Coeff, Coeffs *)

(* CoeffUint64 on all of uint64 x uint64: it returns the exact binomial coefficient, or it
   panics and then C(n,k) * min(k, n-k) >= 2^64.  In particular a returned value is never a
   wrapped or otherwise wrong one, and the value is returned whenever C(n,k) * min(k, n-k) fits. *)
Theorem C16_coeff_u64_exact_or_panic : forall n k, 0 <= n < two64 -> 0 <= k < two64 ->
  coeff_u64 n k = Ret (binomz n k) \/
  (coeff_u64 n k = Panic /\ two64 <= binomz n k * Z.min k (n - k)).
Proof. exact coeff_u64_cases. Qed.
Print Assumptions C16_coeff_u64_exact_or_panic.

Theorem C16_coeff_u64_sound : forall n k v, 0 <= n < two64 -> 0 <= k < two64 ->
  coeff_u64 n k = Ret v -> v = binomz n k.
Proof. exact coeff_u64_sound. Qed.
Print Assumptions C16_coeff_u64_sound.

Theorem C16_coeff_u64_complete : forall n k, 0 <= n < two64 -> 0 <= k < two64 ->
  binomz n k * Z.min k (n - k) < two64 -> coeff_u64 n k = Ret (binomz n k).
Proof. exact coeff_u64_complete. Qed.
Print Assumptions C16_coeff_u64_complete.

(* Coeff on every int n >= 0 and every int k: the exact value (an int; 0 for k < 0 or k > n),
   or a panic and then C(n,k) * min(k, n-k) > MaxInt.  (n < 0 panics: coeff_neg.) *)
Theorem C16_coeff_exact_or_panic : forall n k, 0 <= n < two63 -> - two63 <= k < two63 ->
  (coeff n k = Ret (binomz n k) /\ 0 <= binomz n k <= maxInt) \/
  (coeff n k = Panic /\ maxInt < binomz n k * Z.min k (n - k)).
Proof. exact coeff_cases. Qed.
Print Assumptions C16_coeff_exact_or_panic.

(* Coeffs(n) for every int n >= 0 whose n+1 is an int: Pascal's triangle (rows 0..n, row i =
   C(i,0), ..., C(i,i/2)) when the largest entry C(n, n/2) fits an int, a panic otherwise. *)
Theorem C16_coeffs_pascal_or_panic : forall n, 0 <= n < two63 - 1 ->
  (binomz n (n / 2) <= maxInt -> coeffs n = Ret (pascal n)) /\
  (maxInt < binomz n (n / 2) -> coeffs n = Panic).
Proof. exact coeffs_iff_central. Qed.
Print Assumptions C16_coeffs_pascal_or_panic.

(* ---------------------------------------------------------------- Rank *)

(* Rank on every list of naturals (ints): the sum of C(c_i, i+1), or a panic; it returns
   whenever every term's product C(c_i,i+1)*min(i+1, c_i-i-1) and the sum fit an int. *)
Theorem C16_rank_exact_or_panic : forall c,
  Forall (fun v => 0 <= v < two63) c -> Z.of_nat (length c) < two63 ->
  (rank c = Ret (crank c) /\ crank c <= maxInt) \/
  (rank c = Panic /\ (~ rank_fits 0 c \/ maxInt < crank c)).
Proof. exact rank_cases. Qed.
Print Assumptions C16_rank_exact_or_panic.

(* The rank sum is strictly monotone from the colex order on increasing k-lists of naturals
   (the last position where two lists differ decides), hence injective, and order-reflecting. *)
Theorem C16_rank_strictly_monotone : forall c d, length c = length d -> subset_nat c ->
  colex_lt c d -> crank c < crank d.
Proof. exact crank_colex_lt. Qed.
Print Assumptions C16_rank_strictly_monotone.

Theorem C16_rank_injective : forall c d, length c = length d -> subset_nat c -> subset_nat d ->
  crank c = crank d -> c = d.
Proof. exact crank_inj. Qed.
Print Assumptions C16_rank_injective.

(* ---------------------------------------------------------------- Unrank *)

(* Unrank(r,k) for every rank r and size k an int can hold (k >= 1, or r = k = 0): the walk ends
   within the fuel r+2 (no OutOfFuel), nothing wraps or panics, and the result is the increasing
   k-list of naturals whose colex rank sum is r.  With injectivity: rank is a bijection from the
   k-subsets of the naturals onto the ranks, and unrank is its inverse on [0, MaxInt]. *)
Theorem C16_unrank_terminates_and_inverts : forall r k,
  0 <= r <= maxInt -> 0 <= k <= maxInt -> (k = 0 -> r = 0) ->
  exists c, unrank r k = Ret c /\ Z.of_nat (length c) = k /\ subset_nat c /\ crank c = r /\
            Forall (fun v => 0 <= v <= maxInt) c.
Proof. exact unrank_spec. Qed.
Print Assumptions C16_unrank_terminates_and_inverts.

(* Rank(Unrank(r,k)): if Rank returns (its overflow guard is conservative) it returns r. *)
Theorem C16_rank_of_unrank : forall r k c v,
  0 <= r <= maxInt -> 0 <= k <= maxInt -> (k = 0 -> r = 0) ->
  unrank r k = Ret c -> rank c = Ret v -> v = r.
Proof. exact rank_unrank. Qed.
Print Assumptions C16_rank_of_unrank.

(* Unrank(Rank(c), |c|) = c for every increasing list of naturals on which Rank returns. *)
Theorem C16_unrank_of_rank : forall c r, subset_nat c -> Forall (fun v => v < two63) c ->
  Z.of_nat (length c) < two63 -> rank c = Ret r -> unrank r (Z.of_nat (length c)) = Ret c.
Proof. exact unrank_rank. Qed.
Print Assumptions C16_unrank_of_rank.

(* Unrank lists the k-subsets in colex order. *)
Theorem C16_unrank_colex_order : forall r r' k c c', 0 <= r < r' -> r' <= maxInt -> 1 <= k <= maxInt ->
  unrank r k = Ret c -> unrank r' k = Ret c' -> colex_lt c c'.
Proof. exact unrank_colex. Qed.
Print Assumptions C16_unrank_colex_order.

(* Agreement with the order of itertools.CombinationsColex is NOT a theorem here: it is tied by
   correspondence only (harness stream X: every value i of CombinationsColex(n,k), n <= 12 (16 in
   the thorough tier), is compared with Unrank(i,k) of the model and Rank of it with i). *)

(* ---------------------------------------------------------------- non-vacuity *)

(* the tables are the ones of comb.go (33 rows, largestK = 31); row 32 ends in C(32,16) and
   column 3 has its threshold at 3329022 *)
Example C16_tables_nonvacuous :
  smallLimit = 32 /\ largestK = 31 /\ length smallEntries = 33%nat /\
  bind (idx smallEntries 32) (fun row => idx row 16) = Ret 601080390 /\
  idx maxSizes 3 = Ret 3329022.
Proof. vm_compute. repeat split. Qed.

(* both outcomes of CoeffUint64 and Coeff occur on either side of a threshold (loop branch,
   mirrored column), and far outside *)
Example C16_coeff_nonvacuous :
  coeff_u64 3329022 3 = Ret 6148913079097324540 /\ coeff_u64 3329023 3 = Panic /\
  coeff_u64 100 97 = Ret 161700 /\ coeff_u64 18446744073709551615 1 = Ret 18446744073709551615 /\
  coeff_u64 18446744073709551615 9223372036854775807 = Panic /\ coeff_u64 63 31 = Panic /\
  coeff 62 31 = Ret 465428353255261088 /\ coeff 67 33 = Panic /\ coeff 5 (-1) = Ret 0.
Proof. vm_compute. repeat split. Qed.

(* Coeffs returns for n = 66 and panics for n = 67 *)
Example C16_coeffs_nonvacuous :
  coeffs 4 = Ret [[1]; [1]; [1; 2]; [1; 3]; [1; 4; 6]] /\
  (exists rows, coeffs 66 = Ret rows /\ length rows = 67%nat) /\ coeffs 67 = Panic.
Proof.
  split; [vm_compute; reflexivity|]. split; [|vm_compute; reflexivity].
  eexists. split; [vm_compute; reflexivity|]. reflexivity.
Qed.

(* Rank / Unrank on MaxInt, on 2^62 and on a small rank *)
Example C16_rank_unrank_nonvacuous :
  unrank 1000000007 3 = Ret [626; 631; 1818] /\ rank [626; 631; 1818] = Ret 1000000007 /\
  subset_nat [626; 631; 1818] /\ colex_lt [0; 1; 3] [0; 2; 3] /\
  unrank 9223372036854775807 8 = Ret [222; 420; 440; 494; 554; 693; 702; 887] /\
  unrank 4611686018427387904 10 = Ret [0; 126; 135; 195; 202; 224; 237; 278; 308; 337] /\
  unrank 0 0 = Ret [] /\ rank [1; 2; 9223372036854775807] = Panic.
Proof. vm_compute. repeat split; try discriminate; auto. Qed.
