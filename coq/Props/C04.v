(* C04 — a saved search resumes with exactly the remaining graphs.
   Only the property theorems, closed by [exact], and their assumptions.

   The model is Search/Model.v: GraphIterator.Next as a machine over
   (n, a, m, first, graph with the invisible rest of its backing arrays, automorphism cache,
   options.ViableBits, choices, currentPath), Save as the projection [save] onto the `save`
   struct (what gob transports), Load as [load] (WithPruning, then overwrite and copy into the
   capacity-n arrays).  The canonical labelling [canon], the k-subset orbit representatives
   [ksub_reps], the pruning functions and the growth policy of append are arbitrary parameters.
   The only hypothesis on them: [canon] does not depend on ViableBits when CheckViability is
   false (graph/canonical.go reads ViableBits only under `if options.CheckViability`).

   [inv] is the invariant of the states between two calls of Next; it holds of
   WithPruning(n, a, m), is preserved by Next and re-established by Load (Save s)
   (C04_reachable_inv).  [advance fuel k s] is the list of what the caller sees in k calls of
   Next (None = false, Some g = true and Value() = g as NumberOfVertices, NumberOfEdges,
   DegreeSequence, Edges) together with the end point (a state, Panic, or Fuel); [trace_eq]
   says: same observations, same kind of end point, same saved projection of the end states.

   Not stated here because the model makes it true by construction: Save is a function of the
   state and returns the projection, so it cannot modify the iterator, and states are values,
   so a loaded iterator shares nothing with the original.  Those two clauses of the property
   (no disturbance, independence = no aliasing of slices) are checked on /repo by the harness
   only.  Termination of Next (the Fuel end point) is not proved here: the theorems say that
   the original and the resumed iterator run out of the same fuel together. *)
From Coq Require Import List NArith ZArith Arith Bool Lia.
From Mamba Require Import Disjoint.Model Search.Model Search.SaveModel Search.SaveProofs.
Import ListNotations.
Local Open Scope nat_scope.

(* Noninterference: between two calls of Next nothing but the saved projection
   (N, A, M, First, G, Choices, CurrentPath) matters.  Two states with the same projection —
   whatever their automorphism caches, ViableBits and hidden array contents — give the same
   answer and successors with the same projection, or both panic, or both run out of fuel. *)
Theorem C04_next_noninterference :
  forall grow canon ksub_reps preprune prune, canon_ignores_stale_bits canon ->
  forall fuel s1 s2, inv s1 -> inv s2 -> proj s1 = proj s2 ->
    res_rel (next grow canon ksub_reps preprune prune fuel s1)
            (next grow canon ksub_reps preprune prune fuel s2).
Proof. exact next_noninterference. Qed.
Print Assumptions C04_next_noninterference.

(* Load (Save s) succeeds, has the same saved projection — including the re-slicing of Edges /
   DegreeSequence into the capacity-n arrays of WithPruning — and satisfies the invariant. *)
Theorem C04_load_save : forall s, inv s ->
  exists s', load (save s) = Some s' /\ proj s' = proj s /\ inv s'.
Proof. exact load_save. Qed.
Print Assumptions C04_load_save.

(* Every state a program can reach between two calls of Next (from WithPruning, by Next and by
   Load after Save, in any order) satisfies the invariant. *)
Theorem C04_reachable_inv : forall grow canon ksub_reps preprune prune s,
  reachable grow canon ksub_reps preprune prune s -> inv s.
Proof. exact reachable_inv. Qed.
Print Assumptions C04_reachable_inv.

(* The property, one link: at every reachable point — before the first call, after any k-th,
   after exhaustion — Load (Save s) yields an iterator whose remaining observations, for any
   number of further calls, are exactly those the original would still have produced. *)
Theorem C04_resume_exact :
  forall grow canon ksub_reps preprune prune, canon_ignores_stale_bits canon ->
  forall s, reachable grow canon ksub_reps preprune prune s ->
  exists s', load (save s) = Some s' /\ reachable grow canon ksub_reps preprune prune s' /\
    forall fuel k, trace_eq (advance grow canon ksub_reps preprune prune fuel k s')
                            (advance grow canon ksub_reps preprune prune fuel k s).
Proof. exact resume_exact_reachable. Qed.
Print Assumptions C04_resume_exact.

(* The property, chains of any length: advance j1, save, load, advance j2, save, load, ...,
   then k more calls on the last loaded iterator: the observations are exactly those of
   j1 + j2 + ... + k calls on the original. *)
Theorem C04_chain_exact :
  forall grow canon ksub_reps preprune prune, canon_ignores_stale_bits canon ->
  forall fuel js k s, reachable grow canon ksub_reps preprune prune s ->
    trace_eq (chain_then grow canon ksub_reps preprune prune fuel js k s)
             (advance grow canon ksub_reps preprune prune fuel (list_sum js + k) s).
Proof. exact chain_exact_reachable. Qed.
Print Assumptions C04_chain_exact.

(* The test run by the model driver on every state dumped from /repo decides the invariant. *)
Theorem C04_inv_test : forall s, inv_b s = true <-> inv s.
Proof. exact inv_b_spec. Qed.
Print Assumptions C04_inv_test.

(* ---------------------------------------------------------------- non-vacuity *)

(* a labelling that accepts every augmentation (vertex n-1 first in the permutation, all orbits
   singletons, no generators): enough to drive the machine through real pushes and pops *)
Definition ex_canon (n : nat) (m : Z) (nb : list (list nat)) (cv : bool) (vb : N) : cache :=
  mkCache (Some (rev (seq 0 n))) (repeat (-1)%Z n) [].
Definition ex_ksub (n k : nat) (gens : list (list nat)) : list N := [].
Definition ex_np (g : vgraph) := false.
Definition ex_grow (n : nat) := n.
Definition ex_advance := advance ex_grow ex_canon ex_ksub ex_np ex_np.

Lemma ex_canon_ok : canon_ignores_stale_bits ex_canon.
Proof. intros n m nb vb vb'. reflexivity. Qed.

(* n = 3: after two graphs the original has a cached group, stale ViableBits and a full
   backing array; the loaded state differs from it, has the same projection, and both go on
   with the same two graphs and then false *)
Example C04_resume_nonvacuous :
  exists os s1 s2,
    ex_advance 200 2 (init 3 0 1) = (os, Ok s1) /\ length os = 2 /\
    reachable ex_grow ex_canon ex_ksub ex_np ex_np s1 /\
    CPerm (SCache s1) <> None /\ SVB s1 <> 0%N /\
    load (save s1) = Some s2 /\ s2 <> s1 /\ proj s2 = proj s1 /\
    fst (ex_advance 200 4 s2) = fst (ex_advance 200 4 s1) /\
    fst (ex_advance 200 4 s2) =
      [Some (3, 1%Z, [1%Z; 1%Z; 0%Z], [1%N; 0%N; 0%N]);
       Some (3, 0%Z, [0%Z; 0%Z; 0%Z], [0%N; 0%N; 0%N]); None; None].
Proof.
  destruct (ex_advance 200 2 (init 3 0 1)) as [os [s1| |]] eqn:E;
    vm_compute in E; try discriminate.
  injection E as <- <-.
  do 3 eexists. split; [reflexivity|]. split; [reflexivity|].
  split.
  { eapply r_next with (fuel := 200) (b := true).
    - eapply r_next with (fuel := 200) (b := true); [apply (r_init _ _ _ _ _ 3 0 1)|].
      vm_compute. reflexivity.
    - vm_compute. reflexivity. }
  split; [discriminate|]. split; [discriminate|].
  split; [vm_compute; reflexivity|]. split; [discriminate|].
  split; [reflexivity|]. split; vm_compute; reflexivity.
Qed.

Example C04_chain_nonvacuous :
  fst (chain_then ex_grow ex_canon ex_ksub ex_np ex_np 200 [1; 0; 2] 3 (init 3 0 1)) =
  fst (ex_advance 200 6 (init 3 0 1)) /\
  length (filter (fun o => match o with Some _ => true | None => false end)
                 (fst (ex_advance 200 6 (init 3 0 1)))) = 4.
Proof. split; vm_compute; reflexivity. Qed.

Example C04_inv_test_nonvacuous :
  inv_b (init 4 1 3) = true /\
  inv_b (mkState 3 0 1 false (mkDense 2 1 [1%Z; 1%Z] [7%Z] [1%N] [5%N; 5%N])
                 no_cache 0%N [2%N; 0%N] [1; 1]) = false.
Proof. split; vm_compute; reflexivity. Qed.

Example C04_load_save_nonvacuous :
  let s := mkState 3 0 1 false
             (mkDense 2 1 [1%Z; 1%Z] [7%Z] [1%N] [5%N; 5%N])
             (mkCache (Some [1; 0]) [(-1)%Z; 0%Z] [[1; 0]]) 3%N [2%N; 0%N] [1] in
  inv s /\
  exists s', load (save s) = Some s' /\ proj s' = proj s /\
             SCache s' = no_cache /\ EdgTail (SG s') = [0%N; 0%N] /\ s' <> s.
Proof.
  cbv zeta. split.
  - unfold inv, ginv. cbn. repeat split; auto; try lia; try discriminate.
  - eexists. split; [vm_compute; reflexivity|]. repeat split. discriminate.
Qed.
