(* C01 — canonical labelling is a complete isomorphism invariant.
   This file contains only the property theorems, closed by [exact], and their assumptions.

   Graphs are adjacency matrices ([Canon/Iso.v]); [relabel g p] is g.InducedSubgraph(p):
   vertex i of the result is vertex p_i of g; [iso g h] : h = relabel g p for a permutation p.

   What is proved here and what is not: see notes/C01.md.  The theorems below are about
   (a) any labelling function that returns permutations and is invariant under relabelling, and
   (b) the reference labelling [canon_ref] (unpruned individualisation-refinement tree).
   The pruned depth-first search of graph.CanonicalIsomorphAllocated is NOT modelled; it is tied
   to [canon_ref] only by the correspondence check (equal canonical graphs on every explored
   input) and explored directly by the oracles of harness/cmd/c01. *)
From Coq Require Import List Arith.
From Mamba Require Import Canon.Perm Canon.Iso Canon.Model Canon.Refine Canon.Sorted Canon.Tree Canon.Fuel.
Import ListNotations.

(* Relabelling by a permutation gives an isomorphic graph, in the usual sense: same order and an
   adjacency preserving bijection. *)
Theorem C01_relabel_iso : forall g p, wf_graph g -> is_perm (length g) p = true ->
  length (relabel g p) = length g /\ wf_graph (relabel g p) /\
  exists q, is_perm (length g) q = true /\
    forall i j, i < length g -> j < length g ->
      adjb (relabel g p) i j = adjb g (papp q i) (papp q j).
Proof. intros g p Hwf Hp. apply (iso_adj g (relabel g p) Hwf). exact (relabel_iso g p Hp). Qed.
Print Assumptions C01_relabel_iso.

(* The "hence" of the property, for ANY labelling function: if canon returns a permutation of
   0..n-1 on every graph of a class, and the canonical graphs of g and
   of every relabelling of g are identical, then two graphs of the class have the same canonical
   graph if and only if they are isomorphic. *)
Theorem C01_iso_iff_canon : forall (dom : graph -> Prop) (canon : graph -> list nat),
  (forall g, dom g -> wf_graph g) ->
  (forall g, dom g -> is_perm (length g) (canon g) = true) ->
  (forall g p, dom g -> is_perm (length g) p = true ->
     relabel (relabel g p) (canon (relabel g p)) = relabel g (canon g)) ->
  forall g h, dom g -> dom h ->
    (relabel g (canon g) = relabel h (canon h) <-> iso g h).
Proof. exact iso_iff_canon_gen. Qed.
Print Assumptions C01_iso_iff_canon.

(* ---- the reference labelling canon_ref (Canon/Model.v): model of equitableRefinementProcedure
   + the unpruned individualisation-refinement tree + least certificate ---- *)

(* The model of equitableRefinementProcedure only permutes [order]: the vertices of the refined
   partition are a permutation of those of the partition it started from (for any fuel). *)
Theorem C01_refine_permutes_order : forall g P Q, refine g P = Some Q ->
  Permutation.Permutation (verts Q) (verts P).
Proof. exact refine_verts. Qed.
Print Assumptions C01_refine_permutes_order.

(* The model keeps every cell ascending, as the Go code does (so a position inside a cell is a
   rank, the stable sort by count is a filter, and the shift of splitBin is a filter). *)
Theorem C01_refine_keeps_cells_ascending : forall g P Q, refine g P = Some Q ->
  Forall (fun c => Sorted.StronglySorted lt (snd c)) P ->
  Forall (fun c => Sorted.StronglySorted lt (snd c)) Q.
Proof. exact refine_asc. Qed.
Print Assumptions C01_refine_keeps_cells_ascending.

(* The refinement is equivariant: if f maps the vertices V of g to vertices of g' preserving
   adjacency, and P' is cell by cell (same binsToCheck flags) the image of P up to the order
   inside the cells, then refine fails on both or the results are again related in this way. *)
Theorem C01_refine_equivariant : forall (f : nat -> nat) (g g' : graph) (V : list nat),
  (forall u v, In u V -> In v V -> adjb g' (f u) (f v) = adjb g u v) ->
  forall P P', incl (verts P) V -> sim f P P' -> orel (sim f) (refine g P) (refine g' P').
Proof. exact refine_sim. Qed.
Print Assumptions C01_refine_equivariant.

(* Every leaf of the unpruned tree, in particular the one chosen, is a permutation of 0..n-1. *)
Theorem C01_canon_ref_perm : forall g p, canon_ref g = Some p -> is_perm (length g) p = true.
Proof. exact canon_ref_perm. Qed.
Print Assumptions C01_canon_ref_perm.

(* The canonical graph computed by the reference does not change when the input is relabelled by
   any permutation (equality of options: the fuel is a function of n only). *)
Theorem C01_canon_ref_invariant : forall g pi, is_perm (length g) pi = true ->
  canon_graph (relabel g pi) = canon_graph g.
Proof. exact canon_graph_invariant. Qed.
Print Assumptions C01_canon_ref_invariant.

(* The fuel of the model always suffices: the refinement of a partition without empty cells and
   the reference labelling of any graph are defined. *)
Theorem C01_refine_total : forall g P, Forall (fun c => snd c <> []) P ->
  exists Q, refine g P = Some Q /\ Forall (fun c => snd c <> []) Q /\ length P <= length Q.
Proof. exact refine_total. Qed.
Print Assumptions C01_refine_total.

Theorem C01_canon_ref_total : forall g, exists p, canon_ref g = Some p.
Proof. exact canon_ref_total. Qed.
Print Assumptions C01_canon_ref_total.

(* Hence the reference canonical graph is a complete isomorphism invariant: two graphs (square
   matrices, in particular simple graphs) have the same reference canonical graph if and only
   if they are isomorphic. *)
Theorem C01_canon_ref_iso_iff : forall g h, wf_graph g -> wf_graph h ->
  (canon_graph g = canon_graph h <-> iso g h).
Proof. exact canon_ref_iso_iff. Qed.
Print Assumptions C01_canon_ref_iso_iff.

(* Non-vacuity: the reference on the 6-cycle and on a relabelled copy; the tree has 12 leaves
   (one per automorphism), the refinement of the path on 4 vertices splits ends from middle. *)
Example C01_canon_ref_nonvacuous :
  let c6 := [[false;true;false;false;false;true];[true;false;true;false;false;false];
             [false;true;false;true;false;false];[false;false;true;false;true;false];
             [false;false;false;true;false;true];[true;false;false;false;true;false]] in
  let p4 := [[false;true;false;false];[true;false;true;false];[false;true;false;true];[false;false;true;false]] in
  simpleb c6 = true /\ is_perm 6 [3;0;5;1;4;2] = true /\
  relabel c6 [3;0;5;1;4;2] <> c6 /\
  option_map (@length _) (all_leaves c6) = Some 12 /\
  canon_ref c6 = Some [0;1;5;2;4;3] /\
  canon_graph (relabel c6 [3;0;5;1;4;2]) = canon_graph c6 /\
  refine p4 (init_part 4) = Some [(false,[0;3]);(false,[1;2])].
Proof. vm_compute. repeat split; try reflexivity. intros H; discriminate H. Qed.

(* Non-vacuity: on the one-element class {K2} the identity labelling meets all hypotheses. *)
Example C01_nonvacuous :
  let k2 := [[false;true];[true;false]] in
  simpleb k2 = true /\ is_perm 2 [1;0] = true /\ relabel k2 [1;0] = k2 /\
  relabel (relabel k2 [1;0]) (pid 2) = relabel k2 (pid 2).
Proof. vm_compute. repeat split. Qed.
