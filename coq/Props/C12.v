(* C12 — a built DAWG is an exact, minimal, rank-indexed index of its word set.
   Only the property theorems, closed by [exact], and their assumptions.

   Model: Dawg/Model.v (store of nodes keyed by id; add, finish, new_dawg, lookup,
   number_of_words).  Specification: Dawg/Spec.v ([increasing] = strictly increasing for
   bytes.Compare, [accepts] = the language of a node, [reach], [rank_of] = position in the
   list, [minimal_size] = number of distinct residual languages of prefixes). *)
From Coq Require Import List NArith ZArith.
From Mamba Require Import Dawg.Model Dawg.Tree Dawg.Spec Dawg.BuildProofs Dawg.BuildSeq Dawg.LangOrder Dawg.LangStore
  Dawg.MinimalStore Dawg.MinimalSpec Dawg.LangWords Dawg.BuildIds.
Import ListNotations.

Definition ex_ws : list word :=
  [[]; [1%N]; [1%N; 2%N]; [1%N; 2%N; 3%N]; [1%N; 3%N; 3%N]; [2%N; 2%N; 3%N]; [2%N; 3%N; 3%N]; [3%N]].

(* New succeeds (no panic, no error) on every strictly increasing list, [] and [""] included. *)
Theorem C12_new_succeeds : forall ws, increasing ws -> exists s, new_dawg ws = Ok (Some s).
Proof. exact new_dawg_total. Qed.
Print Assumptions C12_new_succeeds.

Example C12_new_succeeds_nonvacuous :
  increasing ex_ws /\ increasing [] /\ increasing [[]] /\
  (exists s, new_dawg [] = Ok (Some s)) /\ (exists s, new_dawg [[]] = Ok (Some s)).
Proof. vm_compute. repeat split; eexists; reflexivity. Qed.

(* The automaton accepts exactly the words of the list. *)
Theorem C12_language : forall ws s, increasing ws -> new_dawg ws = Ok (Some s) ->
  forall w, accepts s root w <-> In w ws.
Proof. exact dawg_language. Qed.
Print Assumptions C12_language.

(* NumberOfWords is the number of words. *)
Theorem C12_number_of_words : forall ws s, increasing ws -> new_dawg ws = Ok (Some s) ->
  number_of_words s root = Ok (Z.of_nat (length ws)).
Proof. exact dawg_number_of_words. Qed.
Print Assumptions C12_number_of_words.

(* numWords of every reachable node is the size of the node's right language. *)
Theorem C12_num_words_every_node : forall ws s, increasing ws -> new_dawg ws = Ok (Some s) ->
  forall j n, reach s root j -> sget s j = Some n ->
  exists l, NoDup l /\ (forall w, In w l <-> accepts s j w) /\ nwords n = Z.of_nat (length l).
Proof. exact dawg_num_words. Qed.
Print Assumptions C12_num_words_every_node.

(* Lookup w = (position of w in the list, true) for members, (0, false) — [None] in the model —
   for every other byte string ... *)
Theorem C12_lookup : forall ws s, increasing ws -> new_dawg ws = Ok (Some s) ->
  forall w, lookup s root w = Ok (option_map Z.of_nat (rank_of w ws)).
Proof. exact dawg_lookup. Qed.
Print Assumptions C12_lookup.

(* ... where [rank_of w ws] is defined exactly for the members, and is then the number of
   words of the list below w: the rank of w in lexicographic order. *)
Theorem C12_rank_of_members : forall w ws, rank_of w ws = None <-> ~ In w ws.
Proof. exact rank_of_none. Qed.
Print Assumptions C12_rank_of_members.

Theorem C12_rank_is_lexicographic : forall ws w r, increasing ws -> rank_of w ws = Some r ->
  r = length (filter (fun x => lex_ltb x w) ws).
Proof. exact rank_of_lex_rank. Qed.
Print Assumptions C12_rank_is_lexicographic.

Definition ex_s : store := match new_dawg ex_ws with Ok (Some s) => s | _ => sempty end.

Example C12_language_nonvacuous :
  new_dawg ex_ws = Ok (Some ex_s) /\ increasing ex_ws /\
  lookup ex_s root [2%N; 2%N; 3%N] = Ok (Some 5%Z) /\ lookup ex_s root [2%N; 2%N] = Ok None /\
  lookup ex_s root [] = Ok (Some 0%Z) /\ number_of_words ex_s root = Ok 8%Z /\
  number_of_nodes 100 ex_s root = Ok 6%nat.
Proof. vm_compute. repeat split. Qed.

(* Minimality: the automaton has exactly as many nodes (keys reachable from the root) as the
   minimal deterministic acyclic automaton of the set, i.e. as there are distinct residual
   languages u^-1 ws for u the empty word or a prefix of a word of ws. *)
Theorem C12_minimal : forall ws s, increasing ws -> new_dawg ws = Ok (Some s) ->
  exists L, NoDup L /\ (forall j, In j L <-> reach s root j) /\ length L = minimal_size ws.
Proof. exact dawg_minimal. Qed.
Print Assumptions C12_minimal.

Example C12_minimal_nonvacuous :
  minimal_size ex_ws = 6%nat /\ minimal_size [] = 1%nat /\ minimal_size [[]] = 1%nat /\
  length (flat_map (fun w => w) ex_ws) = 16%nat.
Proof. vm_compute. repeat split. Qed.

(* What minimal_size counts: its value is the length of a list of representatives, one for each
   class of prefixes of ws (the empty prefix included) with the same right language. *)
Theorem C12_minimal_size_is_myhill_nerode : forall ws, increasing ws ->
  exists us, length us = minimal_size ws /\
    (forall u, In u us -> is_prefix ws u) /\
    (forall u, is_prefix ws u -> exists u', In u' us /\ same_residual ws u u') /\
    (forall i j u u', nth_error us i = Some u -> nth_error us j = Some u' -> same_residual ws u u' -> i = j).
Proof. exact minimal_size_classes. Qed.
Print Assumptions C12_minimal_size_is_myhill_nerode.

(* Two facts that tie what the model driver prints to the theorems: the executable enumerator
   of the language returns ws itself, and every node is stored under its own id (for any
   argument of New, increasing or not). *)
Theorem C12_words_from : forall ws s fuel, increasing ws -> new_dawg ws = Ok (Some s) ->
  (2 <= fuel)%nat -> (forall w, In w ws -> (length w + 2 <= fuel)%nat) ->
  words_from fuel s root = Ok ws.
Proof. exact dawg_words_from. Qed.
Print Assumptions C12_words_from.

Theorem C12_node_ids : forall ws s, new_dawg ws = Ok (Some s) -> forall i n, sget s i = Some n -> nid n = i.
Proof. exact new_dawg_ids. Qed.
Print Assumptions C12_node_ids.

(* An Add that returns an error leaves the builder exactly as it was ... *)
Theorem C12_rejected_add_unchanged : forall b w b', add b w = Ok (b', false) -> b' = b.
Proof. exact add_rejected_unchanged. Qed.
Print Assumptions C12_rejected_add_unchanged.

(* ... and for every sequence of Add calls whatsoever on a fresh builder: no call panics, a call
   is rejected exactly when its word is not above the last accepted word, and the builder
   ends in the state reached by adding the accepted words alone (a strictly increasing list),
   so that Finish returns the automaton New builds from the accepted words. *)
Theorem C12_add_sequence : forall ws,
  exists b, add_seq initialise ws = Ok (b, accept_flags None ws) /\
            add_all initialise (kept None ws) = Ok (Some b) /\
            increasing (kept None ws).
Proof. exact add_seq_total. Qed.
Print Assumptions C12_add_sequence.

Theorem C12_finish_after_add_sequence : forall ws b oks, add_seq initialise ws = Ok (b, oks) ->
  finish b = new_dawg (kept None ws).
Proof. exact finish_after_add_seq. Qed.
Print Assumptions C12_finish_after_add_sequence.

Definition ex_b : builder :=
  match add_seq initialise [[1%N; 2%N]; [1%N; 3%N]] with Ok (b, _) => b | _ => initialise end.

Example C12_rejected_nonvacuous :
  add_seq initialise [[1%N; 2%N]; [1%N; 3%N]] = Ok (ex_b, [true; true]) /\
  add ex_b [1%N; 2%N] = Ok (ex_b, false) /\ add ex_b [1%N; 3%N] = Ok (ex_b, false) /\ add ex_b [] = Ok (ex_b, false).
Proof. vm_compute. repeat split. Qed.

Example C12_add_sequence_nonvacuous :
  accept_flags None [[2%N]; [1%N]; [2%N]; [2%N; 1%N]; []; [3%N]] = [true; false; false; true; false; true] /\
  kept None [[2%N]; [1%N]; [2%N]; [2%N; 1%N]; []; [3%N]] = [[2%N]; [2%N; 1%N]; [3%N]].
Proof. vm_compute. split; reflexivity. Qed.
