(* C12 — a built DAWG is an exact, minimal, rank-indexed index of its word set.
   Only the property theorems, closed by [exact], and their assumptions.

   Model: Dawg/Model.v (store of nodes keyed by id; add, finish, new_dawg, lookup,
   number_of_words).  Specification: Dawg/Spec.v ([increasing] = strictly increasing for
   bytes.Compare, [accepts] = the language of a node, [reach], [rank_of] = position in the
   list, [minimal_size] = number of distinct residual languages of prefixes). *)
From Coq Require Import List NArith ZArith.
From Mamba Require Import Dawg.Model Dawg.Tree Dawg.Spec Dawg.BuildProofs Dawg.BuildSeq Dawg.LangOrder Dawg.LangStore.
Import ListNotations.

Definition ex_ws : list word :=
  [[]; [1%N]; [1%N; 2%N]; [1%N; 2%N; 3%N]; [1%N; 3%N; 3%N]; [2%N; 2%N; 3%N]; [2%N; 3%N; 3%N]; [3%N]].

(* New succeeds (no panic, no error) on every strictly increasing list, [] and [""] included. *)
Theorem C12_new_succeeds : forall ws, increasing ws -> exists s, new_dawg ws = Ok (Some s).
Proof. exact new_dawg_total. Qed.
Print Assumptions C12_new_succeeds.

Example C12_new_succeeds_nonvacuous :
  increasing ex_ws /\ increasing [] /\ increasing [[]] /\
  (exists s, new_dawg [] = Ok (Some s)) /\ (exists s, new_dawg [[]] = Ok (Some s)).
Proof. vm_compute. repeat split; eexists; reflexivity. Qed.

(* The automaton accepts exactly the words of the list. *)
Theorem C12_language : forall ws s, increasing ws -> new_dawg ws = Ok (Some s) ->
  forall w, accepts s root w <-> In w ws.
Proof. exact dawg_language. Qed.
Print Assumptions C12_language.

(* NumberOfWords is the number of words. *)
Theorem C12_number_of_words : forall ws s, increasing ws -> new_dawg ws = Ok (Some s) ->
  number_of_words s root = Ok (Z.of_nat (length ws)).
Proof. exact dawg_number_of_words. Qed.
Print Assumptions C12_number_of_words.

(* numWords of every reachable node is the size of the node's right language. *)
Theorem C12_num_words_every_node : forall ws s, increasing ws -> new_dawg ws = Ok (Some s) ->
  forall j n, reach s root j -> sget s j = Some n ->
  exists l, NoDup l /\ (forall w, In w l <-> accepts s j w) /\ nwords n = Z.of_nat (length l).
Proof. exact dawg_num_words. Qed.
Print Assumptions C12_num_words_every_node.

(* Lookup w = (position of w in the list, true) for members, (0, false) — [None] in the model —
   for every other byte string ... *)
Theorem C12_lookup : forall ws s, increasing ws -> new_dawg ws = Ok (Some s) ->
  forall w, lookup s root w = Ok (option_map Z.of_nat (rank_of w ws)).
Proof. exact dawg_lookup. Qed.
Print Assumptions C12_lookup.

(* ... where [rank_of w ws] is defined exactly for the members, and is then the number of
   words of the list below w: the rank of w in lexicographic order. *)
Theorem C12_rank_of_members : forall w ws, rank_of w ws = None <-> ~ In w ws.
Proof. exact rank_of_none. Qed.
Print Assumptions C12_rank_of_members.

Theorem C12_rank_is_lexicographic : forall ws w r, increasing ws -> rank_of w ws = Some r ->
  r = length (filter (fun x => lex_ltb x w) ws).
Proof. exact rank_of_lex_rank. Qed.
Print Assumptions C12_rank_is_lexicographic.

Example C12_language_nonvacuous :
  exists s, new_dawg ex_ws = Ok (Some s) /\ increasing ex_ws /\
    lookup s root [2%N; 2%N; 3%N] = Ok (Some 5%Z) /\ lookup s root [2%N; 2%N] = Ok None /\
    lookup s root [] = Ok (Some 0%Z) /\ number_of_words s root = Ok 8%Z /\
    number_of_nodes 100 s root = Ok 6%nat.
Proof. eexists. vm_compute. repeat split. Qed.

(* An Add that returns an error leaves the builder exactly as it was ... *)
Theorem C12_rejected_add_unchanged : forall b w b', add b w = Ok (b', false) -> b' = b.
Proof. exact add_rejected_unchanged. Qed.
Print Assumptions C12_rejected_add_unchanged.

(* ... and for every sequence of Add calls whatsoever on a fresh builder: no call panics, a call
   is rejected exactly when its word is not above the last accepted word, and the builder
   ends in the state reached by adding the accepted words alone (a strictly increasing list),
   so that Finish returns the automaton New builds from the accepted words. *)
Theorem C12_add_sequence : forall ws,
  exists b, add_seq initialise ws = Ok (b, accept_flags None ws) /\
            add_all initialise (kept None ws) = Ok (Some b) /\
            increasing (kept None ws).
Proof. exact add_seq_total. Qed.
Print Assumptions C12_add_sequence.

Theorem C12_finish_after_add_sequence : forall ws b oks, add_seq initialise ws = Ok (b, oks) ->
  finish b = new_dawg (kept None ws).
Proof. exact finish_after_add_seq. Qed.
Print Assumptions C12_finish_after_add_sequence.

Example C12_rejected_nonvacuous :
  exists b b1, add_seq initialise [[1%N; 2%N]; [1%N; 3%N]] = Ok (b, [true; true]) /\
    add b [1%N; 2%N] = Ok (b1, false) /\ add b [1%N; 3%N] = Ok (b1, false) /\ add b [] = Ok (b1, false).
Proof. eexists. eexists. vm_compute. repeat split. Qed.

Example C12_add_sequence_nonvacuous :
  accept_flags None [[2%N]; [1%N]; [2%N]; [2%N; 1%N]; []; [3%N]] = [true; false; false; true; false; true] /\
  kept None [[2%N]; [1%N]; [2%N]; [2%N; 1%N]; []; [3%N]] = [[2%N]; [2%N; 1%N]; [3%N]].
Proof. vm_compute. split; reflexivity. Qed.
