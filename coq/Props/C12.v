(* C12 — a built DAWG is an exact, minimal, rank-indexed index of its word set.
   Only the property theorems, closed by [exact], and their assumptions. *)
From Coq Require Import List NArith ZArith.
From Mamba Require Import Dawg.Model Dawg.Tree Dawg.Spec Dawg.BuildProofs.
Import ListNotations.

(* An Add that returns an error leaves the builder exactly as it was, so whatever is added
   afterwards builds the same automaton as if the rejected call had not happened. *)
Theorem C12_rejected_add_unchanged : forall b w b', add b w = Ok (b', false) -> b' = b.
Proof. exact add_rejected_unchanged. Qed.
Print Assumptions C12_rejected_add_unchanged.

Example C12_rejected_nonvacuous :
  exists b b1, add_seq initialise [[1%N; 2%N]; [1%N; 3%N]] = Ok (b, [true; true]) /\
    add b [1%N; 2%N] = Ok (b1, false) /\ add b [1%N; 3%N] = Ok (b1, false) /\ add b [] = Ok (b1, false).
Proof. eexists. eexists. vm_compute. repeat split. Qed.
