(* C11 — IsPlanar never panics and terminates: TOTALITY of the executable model of graph.IsPlanar
   (Planar/DmpModel.v: every Go panic and every index error is [RPanic], every loop runs on the
   fuel fixed inside the model and running out of it is [RFuel]).  For EVERY value of type graph
   the model returns `true` or `false`.  This file is about the model only (the model is tied to
   the code by the correspondence check of C11, t / f / panic on every graph of every case); the
   other half of C11, "returns true exactly when the graph is planar", is NOT touched here. *)
From Coq Require Import List Arith Bool Lia.
From Mamba Require Import Planar.Model Planar.DmpModel Planar.DmpTotalBase Planar.DmpTotalCheck
  Planar.DmpTotalBic Planar.DmpTotalBdfs Planar.DmpTotal Planar.DmpTotalTop.
Import ListNotations.

(* ---- the whole model: no RPanic (neither panic("Oh dear") nor panic("This shouldn't happen...")
   nor any index out of range), no RFuel (the fuel the model gives to each of its loops is enough:
   S n for the lowpoint DFS, 2n+2 for the first cycle, 2m+2 iterations of the embedding loop,
   2n+2 / n+2 for the path search and extraction, n+1 / n+2 for the exploration of fragments). *)
Theorem C11_model_total : forall G, is_planar_model G = RT \/ is_planar_model G = RF.
Proof. exact model_total. Qed.
Print Assumptions C11_model_total.

Definition octahedron_t : graph := mkG 6 [(0,2);(0,3);(0,4);(0,5);(1,2);(1,3);(1,4);(1,5);(2,4);(2,5);(3,4);(3,5)].
(* K5 glued at vertex 4 to a 5-cycle with a chord, plus a pendant path and an isolated vertex *)
Definition K5_plus_t : graph :=
  mkG 12 [(0,1);(0,2);(0,3);(0,4);(1,2);(1,3);(1,4);(2,3);(2,4);(3,4);(4,5);(5,6);(6,7);(7,8);(8,4);(5,7);(8,9);(9,10)].
(* the Petersen graph: 15 edges <= 3*10-6, rejected inside the embedding loop *)
Definition petersen_t : graph :=
  mkG 10 [(0,1);(1,2);(2,3);(3,4);(4,0);(0,5);(1,6);(2,7);(3,8);(4,9);(5,7);(7,9);(9,6);(6,8);(8,5)].

Example C11_model_total_nonvacuous :
  is_planar_model octahedron_t = RT /\ is_planar_model K33 = RF /\ is_planar_model petersen_t = RF /\
  is_planar_model K5_plus_t = RF /\ is_planar_model (mkG 7 [(0,1);(5,5);(3,9)]) = RT.
Proof. repeat split; vm_compute; reflexivity. Qed.

(* ---- the embedding loop of one block: for every well-formed 2-connected graph with at least
   three vertices the DMP procedure of the model ends with `true` or `false` (measure of the
   embedding loop: the sum over the fragments of the degree sum of their inner vertices, 1 for a
   chord; it is < 2m+2 at the start and decreases in every iteration). *)
Theorem C11_block_total : forall h, wfb h -> biconn h -> 3 <= bn h -> dmp h = RT \/ dmp h = RF.
Proof. exact dmp_total. Qed.
Print Assumptions C11_block_total.

Example C11_block_total_nonvacuous :
  (wfb (blk_of K33) /\ biconn (blk_of K33) /\ 3 <= bn (blk_of K33) /\ dmp (blk_of K33) = RF) /\
  (wfb (blk_of octahedron_t) /\ biconn (blk_of octahedron_t) /\ dmp (blk_of octahedron_t) = RT).
Proof.
  assert (W1 : wfb (blk_of K33)) by (apply wfb_b_sound; vm_compute; reflexivity).
  assert (W2 : wfb (blk_of octahedron_t)) by (apply wfb_b_sound; vm_compute; reflexivity).
  split; [split; [exact W1|split; [|split]]|split; [exact W2|split]].
  - apply biconn_b_sound; [exact W1|vm_compute; reflexivity].
  - simpl. lia.
  - vm_compute. reflexivity.
  - apply biconn_b_sound; [exact W2|vm_compute; reflexivity].
  - vm_compute. reflexivity.
Qed.

(* ---- the lowpoint DFS of the model (it is NOT the model of graph.BiconnectedComponents proved
   for C10): it stays within its fuel, and every vertex set it returns is an increasing list of
   vertices that induces a 2-connected subgraph: after the removal of any vertex a, any two
   remaining vertices of the set are joined by a walk inside the set that avoids a. *)
Theorem C11_model_blocks_biconnected : forall h, wfb h ->
  b_fuel (blocks_st h) = false /\
  forall b, In b (blocks h) ->
    (exists p, b = filter p (seq 0 (bn h))) /\ bicS h (fun x => In x b).
Proof. exact blocks_biconnected. Qed.
Print Assumptions C11_model_blocks_biconnected.

Example C11_model_blocks_nonvacuous :
  wfb (blk_of K5_plus_t) /\
  blocks (blk_of K5_plus_t) = [[9;10]; [8;9]; [4;5;6;7;8]; [0;1;2;3;4]].
Proof. split; [apply blk_of_wfb|vm_compute; reflexivity]. Qed.
