(* C11 — IsPlanar never panics and terminates: TOTALITY of the executable model of graph.IsPlanar
   (Planar/DmpModel.v: every Go panic / index error is [RPanic], every loop runs on fuel and
   running out is [RFuel]).  This file is about the model only (tied to the code by the
   correspondence check); the "returns true exactly when planar" half of C11 is not touched. *)
From Coq Require Import List Arith Bool Lia.
From Mamba Require Import Planar.Model Planar.DmpModel Planar.DmpTotalBase Planar.DmpTotalCheck
  Planar.DmpTotal Planar.DmpTotalTop.
Import ListNotations.

(* ---- the embedding loop of one block: for every well-formed 2-connected graph with at least
   three vertices the DMP procedure of the model ends with `true` or `false`: neither of the two
   panic statements nor any index error is reachable, and the fuel of every loop suffices (the
   embedding loop makes at most 2m+1 iterations: the measure is the sum over the fragments of the
   degree sum of their inner vertices, 1 for a chord). *)
Theorem C11_block_total : forall h, wfb h -> biconn h -> 3 <= bn h -> dmp h = RT \/ dmp h = RF.
Proof. exact dmp_total. Qed.
Print Assumptions C11_block_total.

Definition octahedron_t : graph := mkG 6 [(0,2);(0,3);(0,4);(0,5);(1,2);(1,3);(1,4);(1,5);(2,4);(2,5);(3,4);(3,5)].

Example C11_block_total_nonvacuous :
  (wfb (blk_of K33) /\ biconn (blk_of K33) /\ 3 <= bn (blk_of K33) /\ dmp (blk_of K33) = RF) /\
  (wfb (blk_of octahedron_t) /\ biconn (blk_of octahedron_t) /\ dmp (blk_of octahedron_t) = RT).
Proof.
  assert (W1 : wfb (blk_of K33)) by (apply wfb_b_sound; vm_compute; reflexivity).
  assert (W2 : wfb (blk_of octahedron_t)) by (apply wfb_b_sound; vm_compute; reflexivity).
  split; [split; [exact W1|split; [|split]]|split; [exact W2|split]].
  - apply biconn_b_sound; [exact W1|vm_compute; reflexivity].
  - simpl. lia.
  - vm_compute. reflexivity.
  - apply biconn_b_sound; [exact W2|vm_compute; reflexivity].
  - vm_compute. reflexivity.
Qed.

(* ---- the whole model, PARTIAL: relative to the statement that the lowpoint DFS of the model
   does not run out of its fuel and returns, for every block with at least five vertices, a
   vertex set whose induced subgraph is well formed and 2-connected. *)
Theorem C11_model_total_partial : forall g, b_fuel (blocks_st (blk_of g)) = false ->
  (forall b, In b (blocks (blk_of g)) -> 5 <= length b ->
     wfb (induced (blk_of g) b) /\ biconn (induced (blk_of g) b)) ->
  is_planar_model g = RT \/ is_planar_model g = RF.
Proof. exact model_total_cond. Qed.
Print Assumptions C11_model_total_partial.
