(* C08 — the text decoders are total: malformed input gives an error, never a crash.
   This file contains only the property theorems, closed by [exact], and their assumptions.

   A string is a list of byte values; [strip hdr_graph6] removes the optional ">>graph6<<";
   [declared s] is the vertex count the format text reads from the size header of s.  The
   results Panic (index out of range, NewDense's length test) and OutOfFuel are constructors of
   the result type of the model, so "never panics, always terminates" is "the result is Err or
   Ok". *)
From Coq Require Import List ZArith Bool.
From Mamba Require Import Codec.Model Codec.Spec Codec.G6Header Codec.G6Proofs Codec.TotalG6
  Codec.S6Decode Codec.TotalS6 Codec.TotalS6Re.
Import ListNotations.
Open Scope Z_scope.

(* Graph6Decode, under the property's bound (declared n <= 4096): an error or a well-formed
   graph on the declared number of vertices. *)
Theorem C08_graph6_total : forall s0, let s := strip hdr_graph6 s0 in
  (forall n, declared s = Some n -> n <= 4096) ->
  graph6_decode s0 = Err \/
  exists n e, graph6_decode s0 = Ok (n, e) /\ wf_dense n e /\
    (s = [] /\ n = 0 \/ declared s = Some n).
Proof. exact graph6_decode_total. Qed.
Print Assumptions C08_graph6_total.
Example C08_graph6_total_nonvacuous :
  graph6_decode [126] = Err /\ graph6_decode [67] = Err /\ graph6_decode [67; 0] = Err /\
  graph6_decode [67; 103] = Ok (4, [true; false; true; false; false; false]) /\
  declared [67; 103] = Some 4.
Proof. vm_compute. repeat split; reflexivity. Qed.

(* The same without the bound on n, for every string of fewer than 2^59 bytes (no Go string is
   longer): the bound of the property is needed for bounded allocation only. *)
Theorem C08_graph6_total_any_n : forall s0, len s0 < 576460752303423488 ->
  let s := strip hdr_graph6 s0 in
  graph6_decode s0 = Err \/
  exists n e, graph6_decode s0 = Ok (n, e) /\ wf_dense n e /\
    (s = [] /\ n = 0 \/ declared s = Some n).
Proof. exact graph6_decode_total_len. Qed.
Print Assumptions C08_graph6_total_any_n.

Theorem C08_graph6_no_panic : forall s0, len s0 < 576460752303423488 ->
  graph6_decode s0 <> Panic /\ graph6_decode s0 <> OutOfFuel.
Proof. exact graph6_decode_no_panic. Qed.
Print Assumptions C08_graph6_no_panic.

(* Graph6Decode computes the reader of the format text on every string: same accepted strings,
   same graph (except that the empty string, which the format does not allow, decodes as the
   empty graph). *)
Theorem C08_graph6_decode_is_format : forall s0, let s := strip hdr_graph6 s0 in
  g6_nowrap s -> graph6_decode s0 = g6_result s.
Proof. exact graph6_decode_refines. Qed.
Print Assumptions C08_graph6_decode_is_format.

(* Whenever the decoder succeeds, re-encoding the result and decoding again gives the same graph. *)
Theorem C08_graph6_reencode : forall s0 n e, g6_nowrap (strip hdr_graph6 s0) ->
  graph6_decode s0 = Ok (n, e) ->
  exists s1, graph6_encode (graph_of_tri (Z.to_nat n) e) = Ok s1 /\ graph6_decode s1 = Ok (n, e).
Proof. exact graph6_reencode. Qed.
Print Assumptions C08_graph6_reencode.
Example C08_graph6_reencode_nonvacuous :
  graph6_decode [67; 103; 94] = Ok (4, [true; false; true; false; false; false]) /\
  graph6_encode (graph_of_tri 4 [true; false; true; false; false; false]) = Ok [67; 103].
Proof. vm_compute. split; reflexivity. Qed.

(* ------------------------------------------------------------------ sparse6 *)
(* Sparse6Decode, for every byte string: an error or a well-formed sparse graph (edges (v,x)
   with 0 <= x < v < n, strictly ascending: no loop, no repeated edge, no vertex >= n) on the
   declared number of vertices; never a panic (slice index, AddEdge out of range), and the loop
   ends within the fuel 6*len(s)+8.  No bound on n is needed on the model: the property's
   n <= 4096 bounds the allocation of NewSparse, which the model does not represent. *)
Theorem C08_sparse6_total : forall s0, let s := strip hdr_sparse6 s0 in
  sparse6_decode s0 = Err \/
  exists n el, sparse6_decode s0 = Ok (n, el) /\ wf_sparse n el /\ s6_declared s = Some n /\
               (length el <= 6 * length s0)%nat.
Proof. exact sparse6_decode_total. Qed.
Print Assumptions C08_sparse6_total.
Example C08_sparse6_total_nonvacuous :
  sparse6_decode [] = Err /\ sparse6_decode [58] = Err /\ sparse6_decode [58; 126] = Err /\
  sparse6_decode [58; 65; 110] = Ok (2, [(1, 0)]) /\
  (* pairs naming vertices >= n, a loop and a repeated edge are ignored *)
  sparse6_decode [58; 67; 111; 78; 111; 78] = Ok (4, [(2, 0); (2, 1)]) /\
  s6_declared [58; 67; 111; 78] = Some 4.
Proof. vm_compute. repeat split; reflexivity. Qed.

Theorem C08_sparse6_no_panic : forall s0,
  sparse6_decode s0 <> Panic /\ sparse6_decode s0 <> OutOfFuel.
Proof. exact sparse6_decode_no_panic. Qed.
Print Assumptions C08_sparse6_no_panic.

(* Sparse6Decode computes the reader of the format text on every string (loops and repeated
   edges, which a SparseGraph cannot hold, are dropped by AddEdge: [norm]). *)
Theorem C08_sparse6_decode_is_format : forall s0,
  sparse6_decode s0 = s6_result (strip hdr_sparse6 s0).
Proof. exact sparse6_decode_refines. Qed.
Print Assumptions C08_sparse6_decode_is_format.

(* Whenever Sparse6Decode succeeds, re-encoding the result and decoding again gives the same
   graph — for every string of fewer than 10^16 bytes (so that the int expression (k+1)*2*m in
   the encoder's capacity computation cannot wrap). *)
Theorem C08_sparse6_reencode : forall s0 n el, len s0 < 10000000000000000 ->
  sparse6_decode s0 = Ok (n, el) ->
  exists s1, sparse6_encode (graph_of_edges (Z.to_nat n) el) = Ok s1 /\ sparse6_decode s1 = Ok (n, el).
Proof. exact sparse6_reencode. Qed.
Print Assumptions C08_sparse6_reencode.
Example C08_sparse6_reencode_nonvacuous :
  sparse6_decode [58; 67; 111; 78; 111; 78] = Ok (4, [(2, 0); (2, 1)]) /\
  sparse6_encode (graph_of_edges 4 [(2, 0); (2, 1)]) = Ok [58; 67; 111; 74].
Proof. vm_compute. split; reflexivity. Qed.
