(* C04 — the theorems of Props/C04.v for the COMPOSED MODEL: the canonical labelling is no longer
   an arbitrary parameter with the hypothesis "it is a function of its arguments that ignores
   options.ViableBits when options.CheckViability is false", but [canon_real]
   (Search/ComposeModel.v): the model of the whole of graph.CanonicalIsomorphAllocated
   (Canon/SearchModel.v) as getAutomorphismGroup calls it, early viability exit included, and
   the k-subset representatives are [ksub_real_fn] (the loop of addAugmentations over the models
   of CombinationsColex / Rank / Sort / UnionBuffered).  [canon_real] is a Gallina function of
   (n, m, neighbours, CheckViability, ViableBits) and with CheckViability = false its value does
   not mention ViableBits: the hypothesis [canon_ignores_stale_bits] holds by reflexivity
   (C04_canon_real_ignores_stale_bits) — the branch of the model that reads ViableBits
   ([viab_check]) is reached only under CheckViability, as in graph/canonical.go:409.
   The pruning functions and append's growth stay arbitrary.

   What remains assumed for C04: encoding/gob round-trips the save struct; preprune / prune are
   pure and the same at Load; model = code (co-simulation of Next, state cases of Save / Load,
   C01's stream `search` for the labelling); the real labelling runs on REUSED storage
   (CanonicalStorage / CanonicalOrderedPartition live in the iterator and are not saved; Load
   builds fresh ones) — that its answers do not depend on what an earlier call left there is
   C02's reuse statement, not part of this model.  Termination and absence of panic of Next, open
   in Props/C04.v, are settled for the composed model by Props/C03_unconditional.v; with it the
   property reads as in its text: the resumed iterator yields exactly the remaining graphs and
   stops (C04_resume_remaining_real). *)
From Coq Require Import List NArith ZArith Arith Bool Lia.
From Mamba Require Import Disjoint.Model Search.Model Search.SaveModel Search.SaveProofs.
From Mamba Require Import Search.ShardModel Search.Prune Search.OrderlyTop.
From Mamba Require Import Search.OrderlyInstKsubModel Search.ComposeModel Search.Compose Search.ComposeResume.
From Mamba Require Canon.Iso Canon.SearchModel Canon.SearchReuseModel Canon.AutResetModel Canon.AutReset.
From Mamba Require Import Search.ComposeReuseModel Search.ComposeReuse.
Import ListNotations.
Local Open Scope nat_scope.

(* the former assumption *)
Theorem C04_canon_real_ignores_stale_bits : canon_ignores_stale_bits canon_real.
Proof. exact canon_real_novb. Qed.
Print Assumptions C04_canon_real_ignores_stale_bits.

(* Noninterference for the composed model: between two calls of Next only the saved projection
   matters. *)
Theorem C04_next_noninterference_real :
  forall grow preprune prune fuel s1 s2, inv s1 -> inv s2 -> proj s1 = proj s2 ->
    res_rel (next grow canon_real ksub_real_fn preprune prune fuel s1)
            (next grow canon_real ksub_real_fn preprune prune fuel s2).
Proof.
  intros grow preprune prune.
  exact (next_noninterference grow canon_real ksub_real_fn preprune prune canon_real_novb).
Qed.
Print Assumptions C04_next_noninterference_real.

(* The property, one link, no hypothesis on the labelling: at every reachable point of the
   composed model Load (Save s) yields an iterator whose remaining observations, for any number
   of further calls, are exactly those the original would still have produced. *)
Theorem C04_resume_exact_real :
  forall grow preprune prune s, reachable grow canon_real ksub_real_fn preprune prune s ->
  exists s', load (save s) = Some s' /\ reachable grow canon_real ksub_real_fn preprune prune s' /\
    forall fuel k, trace_eq (advance grow canon_real ksub_real_fn preprune prune fuel k s')
                            (advance grow canon_real ksub_real_fn preprune prune fuel k s).
Proof.
  intros grow preprune prune.
  exact (resume_exact_reachable grow canon_real ksub_real_fn preprune prune canon_real_novb).
Qed.
Print Assumptions C04_resume_exact_real.

(* Chains of any length. *)
Theorem C04_chain_exact_real :
  forall grow preprune prune fuel js k s, reachable grow canon_real ksub_real_fn preprune prune s ->
    trace_eq (chain_then grow canon_real ksub_real_fn preprune prune fuel js k s)
             (advance grow canon_real ksub_real_fn preprune prune fuel (list_sum js + k) s).
Proof.
  intros grow preprune prune.
  exact (chain_exact_reachable grow canon_real ksub_real_fn preprune prune canon_real_novb).
Qed.
Print Assumptions C04_chain_exact_real.

(* The property in terms of the caller's loop `for it.Next() { use(it.Value()) }` ([outputs],
   Search/ShardModel.v), for ANY labelling that ignores the stale ViableBits and any pruning: if the
   loop run from a state s (satisfying the between-calls invariant, e.g. WithPruning(n, a, m))
   collects the list L, then after k <= |L| calls the iterator has shown exactly the first k graphs
   of L, Save / Load there succeeds, and the loop run on the loaded iterator collects exactly the
   remaining graphs of L, in order, and ends (no panic, within the same number of calls and steps). *)
Theorem C04_resume_remaining :
  forall grow canon ksub_reps preprune prune, canon_ignores_stale_bits canon ->
  forall calls fuel s L, inv s ->
  outputs grow canon ksub_reps preprune prune calls fuel s = Ok L ->
  forall k, k <= length L ->
  exists s_k s', advance grow canon ksub_reps preprune prune fuel k s = (map Some (firstn k L), Ok s_k) /\
    load (save s_k) = Some s' /\
    outputs grow canon ksub_reps preprune prune (calls - k) fuel s' = Ok (skipn k L).
Proof. exact resume_remaining. Qed.
Print Assumptions C04_resume_remaining.

(* ... and for the composed model the premise holds (Props/C03_unconditional.v): for every
   n <= 63, every shard a < m, and every predicate P that stays true when a vertex is added,
   placed as preprune, prune or both (P := no_prune: the unpruned shards), the run from
   WithPruning(n, a, m) ends without panic with some list L, and a save made after any k <= |L|
   graphs resumes with exactly the remaining graphs of L.  No hypothesis on the labelling, no
   termination or no-panic assumption. *)
Theorem C04_resume_remaining_real :
  forall grow n, n <= 63 ->
  forall P pre post, grows_bad P ->
    (pre = P \/ pre = no_prune) -> (post = P \/ post = no_prune) -> (pre = P \/ post = P) ->
  forall m a, a < m ->
  exists L calls fuel,
    outputs grow canon_real ksub_real_fn pre post calls fuel (init n a m) = Ok L /\
    forall k, k <= length L ->
    exists s_k s', advance grow canon_real ksub_real_fn pre post fuel k (init n a m) =
                     (map Some (firstn k L), Ok s_k) /\
      load (save s_k) = Some s' /\
      outputs grow canon_real ksub_real_fn pre post (calls - k) fuel s' = Ok (skipn k L).
Proof. exact real_resume_full. Qed.
Print Assumptions C04_resume_remaining_real.

(* The loaded iterator owns a FRESH CanonicalStorage / CanonicalOrderedPartition, the original one
   DIRTY ones (they are not saved).  That makes no difference to what getAutomorphismGroup stores:
   [canon_real_reused st op ..] (Search/ComposeReuseModel.v) is the same call on the reuse model of
   Canon/SearchReuseModel.v — every array of the storage and of the partition holds ARBITRARY
   contents, only the capacities of WithPruning(N, ..) are known; op.Reset modelled on arrays — with
   the CheckViability exit added to it as in ComposeModel.v.  For every well-formed graph with at
   most N vertices, both values of CheckViability and every ViableBits it equals [canon_real], the
   run on fresh storage (for CheckViability = false this is C02's reuse theorem; the early exit is
   new: with currentBest empty the first refinement reads neither currentBest nor firstLeaf). *)
Theorem C04_labelling_ignores_reused_storage_real :
  forall N st op g nb cv vb,
  ShardModel.wfv g -> ShardModel.nv_of g <= N -> all_nbrs g = Some nb ->
  SearchReuseModel.storage_caps st N (tri N) -> AutReset.caps_ok op N (tri N) ->
  canon_real_reused st op (ShardModel.nv_of g) (ne_of g) nb cv vb =
  canon_real (ShardModel.nv_of g) (ne_of g) nb cv vb.
Proof. exact real_reused_on_search. Qed.
Print Assumptions C04_labelling_ignores_reused_storage_real.

(* ... on adjacency matrices: op.Reset(n, m, nil) on any old partition state, then
   CanonicalIsomorphAllocated with CheckViability = true on any storage contents, returns the
   permutation, orbit array and generators — or nil — of the call on fresh storage, and leaves
   the capacities of the storage intact. *)
Theorem C04_check_viability_reuse :
  forall G vb fuel st op,
  Iso.simple G -> SearchReuseModel.storage_caps st (length G) (SearchModel.num_edges G) ->
  AutReset.caps_ok op (length G) (SearchModel.num_edges G) ->
  SearchReuseModel.res_map fst (canon_alloc_reset_v fuel st op G vb) = canon_search_v fuel G vb /\
  forall r st' N M, SearchReuseModel.storage_caps st N M ->
    canon_alloc_reset_v fuel st op G vb = SearchModel.Ok (r, st') -> SearchReuseModel.storage_caps st' N M.
Proof.
  intros G vb fuel st op HG HS HO. split; [exact (canon_alloc_reset_v_noninterference G vb fuel st op HG HS HO)|].
  intros r st' N M HC H. exact (canon_alloc_reset_v_caps fuel st op G vb r st' N M HC H).
Qed.
Print Assumptions C04_check_viability_reuse.

(* Non-vacuity on the composed model, n = 4 (11 graphs): after five graphs the original holds a
   cached automorphism group computed by the labelling model; the loaded state is a different
   state with the same projection and an empty cache; both go on with the same six graphs and
   then false; the chain 2 / save / load / 0 / save / load / 3 / save / load + 7 calls shows
   what 12 calls of the original show: eleven graphs and false; the caller's loop on the loaded
   iterator collects graphs 6..11 of the run. *)
Definition np (g : vgraph) := false.
Definition real_advance := advance (fun k => k) canon_real ksub_real_fn np np.

Example C04_real_nonvacuous :
  exists os s1 s2,
    real_advance 100 5 (init 4 0 1) = (os, Ok s1) /\ length os = 5 /\
    CPerm (SCache s1) <> None /\
    load (save s1) = Some s2 /\ s2 <> s1 /\ proj s2 = proj s1 /\ SCache s2 = no_cache /\
    fst (real_advance 100 7 s2) = fst (real_advance 100 7 s1) /\
    length (filter (fun o => match o with Some _ => true | None => false end)
                   (fst (real_advance 100 7 s2))) = 6 /\
    fst (chain_then (fun k => k) canon_real ksub_real_fn np np 100 [2; 0; 3] 7 (init 4 0 1)) =
      fst (real_advance 100 12 (init 4 0 1)) /\
    length (filter (fun o => match o with Some _ => true | None => false end)
                   (fst (real_advance 100 12 (init 4 0 1)))) = 11 /\
    (* the caller's loop on the loaded iterator collects the remaining six of the eleven graphs *)
    match outputs (fun k => k) canon_real ksub_real_fn np np 12 100 (init 4 0 1) with
    | Ok L => length L = 11 /\
              outputs (fun k => k) canon_real ksub_real_fn np np 7 100 s2 = Ok (skipn 5 L)
    | _ => False
    end.
Proof.
  destruct (real_advance 100 5 (init 4 0 1)) as [os [s1| |]] eqn:E;
    vm_compute in E; try discriminate.
  injection E as <- <-.
  do 3 eexists. split; [reflexivity|]. split; [reflexivity|].
  split; [discriminate|]. split; [vm_compute; reflexivity|]. split; [discriminate|].
  split; [reflexivity|]. split; [reflexivity|].
  split; [vm_compute; reflexivity|]. split; [vm_compute; reflexivity|].
  split; [vm_compute; reflexivity|]. split; [vm_compute; reflexivity|].
  vm_compute. split; reflexivity.
Qed.

(* Non-vacuity of the reuse theorems: a storage and a partition of capacity 9 vertices / 36 edges
   filled with junk; the star with centre 2 and ViableBits = {0} (early exit), the same with
   ViableBits = {} and without CheckViability (full answer), and the 6-vertex graph of
   Props/C03_unconditional.v with the viable set 26 (early exit): the call on the junk gives what
   the call on fresh storage gives. *)
Definition ex_junk (k : nat) : list nat := map (fun i => Nat.modulo (i * 7 + 3) 5) (seq 0 k).
Definition ex_junkz (k : nat) : dset := map (fun i => Z.of_nat (Nat.modulo (i * 7 + 3) 5)) (seq 0 k).
Definition ex_dirty : SearchReuseModel.storage :=
  SearchReuseModel.mkSt (ex_junk 9) (ex_junk 9) (repeat (ex_junk 7) 8) (ex_junk 36) (ex_junk 9) (ex_junk 9) (ex_junk 9)
       (ex_junkz 9) (ex_junk 36) (ex_junk 9) (ex_junkz 9) (ex_junk 9)
       (ex_junk 9) (repeat (1, 1) 9) (ex_junk 9) (ex_junk 9) (ex_junk 9) (ex_junk 9).
Definition ex_op : AutResetModel.opst :=
  AutResetModel.mkop (AutResetModel.mk (ex_junk 9) 4) (AutResetModel.mk (ex_junk 9) 3) (AutResetModel.mk (ex_junk 9) 3)
                     (AutResetModel.mk (ex_junk 9) 2) (AutResetModel.mk (ex_junk 36) 5) (AutResetModel.mk (ex_junk 9) 4) 3 2.

Example C04_reuse_nonvacuous :
  let star := [[2]; [2]; [0; 1]] in
  let g6 := [[1; 3; 4; 5]; [0; 5]; [3; 4]; [0; 2]; [0; 2]; [0; 1]] in
  canon_real_reused ex_dirty ex_op 3 2%Z star true 1%N = no_cache /\
  canon_real 3 2%Z star true 1%N = no_cache /\
  canon_real_reused ex_dirty ex_op 3 2%Z star true 0%N = mkCache (Some [1; 0; 2]) [1; -2; -1]%Z [[1; 0; 2]] /\
  canon_real 3 2%Z star true 0%N = mkCache (Some [1; 0; 2]) [1; -2; -1]%Z [[1; 0; 2]] /\
  canon_real_reused ex_dirty ex_op 3 2%Z star false 5%N = canon_real 3 2%Z star false 0%N /\
  canon_real_reused ex_dirty ex_op 6 7%Z g6 true 26%N = no_cache /\
  canon_real 6 7%Z g6 true 26%N = no_cache /\
  canon_real_reused ex_dirty ex_op 6 7%Z g6 false 0%N = canon_real 6 7%Z g6 false 0%N /\
  CPerm (canon_real 6 7%Z g6 false 0%N) = Some [2; 4; 3; 5; 1; 0].
Proof. vm_compute. repeat split. Qed.

