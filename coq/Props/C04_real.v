(* C04 — the theorems of Props/C04.v for the COMPOSED MODEL: the canonical labelling is no longer
   an arbitrary parameter with the hypothesis "it is a function of its arguments that ignores
   options.ViableBits when options.CheckViability is false", but [canon_real]
   (Search/ComposeModel.v): the model of the whole of graph.CanonicalIsomorphAllocated
   (Canon/SearchModel.v) as getAutomorphismGroup calls it, early viability exit included, and
   the k-subset representatives are [ksub_real_fn] (the loop of addAugmentations over the models
   of CombinationsColex / Rank / Sort / UnionBuffered).  [canon_real] is a Gallina function of
   (n, m, neighbours, CheckViability, ViableBits) and with CheckViability = false its value does
   not mention ViableBits: the hypothesis [canon_ignores_stale_bits] holds by reflexivity
   (C04_canon_real_ignores_stale_bits) — the branch of the model that reads ViableBits
   ([viab_check]) is reached only under CheckViability, as in graph/canonical.go:409.
   The pruning functions and append's growth stay arbitrary.

   What remains assumed for C04: encoding/gob round-trips the save struct; preprune / prune are
   pure and the same at Load; model = code (co-simulation of Next, state cases of Save / Load,
   C01's stream `search` for the labelling); the real labelling runs on REUSED storage
   (CanonicalStorage / CanonicalOrderedPartition live in the iterator and are not saved; Load
   builds fresh ones) — that its answers do not depend on what an earlier call left there is
   C02's reuse statement, not part of this model.  Termination and absence of panic of Next, open
   in Props/C04.v, are settled for the composed model by Props/C03_unconditional.v; with it the
   property reads as in its text: the resumed iterator yields exactly the remaining graphs and
   stops (C04_resume_remaining_real). *)
From Coq Require Import List NArith ZArith Arith Bool Lia.
From Mamba Require Import Disjoint.Model Search.Model Search.SaveModel Search.SaveProofs.
From Mamba Require Import Search.ShardModel Search.Prune Search.OrderlyTop.
From Mamba Require Import Search.OrderlyInstKsubModel Search.ComposeModel Search.Compose Search.ComposeResume.
Import ListNotations.
Local Open Scope nat_scope.

(* the former assumption *)
Theorem C04_canon_real_ignores_stale_bits : canon_ignores_stale_bits canon_real.
Proof. exact canon_real_novb. Qed.
Print Assumptions C04_canon_real_ignores_stale_bits.

(* Noninterference for the composed model: between two calls of Next only the saved projection
   matters. *)
Theorem C04_next_noninterference_real :
  forall grow preprune prune fuel s1 s2, inv s1 -> inv s2 -> proj s1 = proj s2 ->
    res_rel (next grow canon_real ksub_real_fn preprune prune fuel s1)
            (next grow canon_real ksub_real_fn preprune prune fuel s2).
Proof.
  intros grow preprune prune.
  exact (next_noninterference grow canon_real ksub_real_fn preprune prune canon_real_novb).
Qed.
Print Assumptions C04_next_noninterference_real.

(* The property, one link, no hypothesis on the labelling: at every reachable point of the
   composed model Load (Save s) yields an iterator whose remaining observations, for any number
   of further calls, are exactly those the original would still have produced. *)
Theorem C04_resume_exact_real :
  forall grow preprune prune s, reachable grow canon_real ksub_real_fn preprune prune s ->
  exists s', load (save s) = Some s' /\ reachable grow canon_real ksub_real_fn preprune prune s' /\
    forall fuel k, trace_eq (advance grow canon_real ksub_real_fn preprune prune fuel k s')
                            (advance grow canon_real ksub_real_fn preprune prune fuel k s).
Proof.
  intros grow preprune prune.
  exact (resume_exact_reachable grow canon_real ksub_real_fn preprune prune canon_real_novb).
Qed.
Print Assumptions C04_resume_exact_real.

(* Chains of any length. *)
Theorem C04_chain_exact_real :
  forall grow preprune prune fuel js k s, reachable grow canon_real ksub_real_fn preprune prune s ->
    trace_eq (chain_then grow canon_real ksub_real_fn preprune prune fuel js k s)
             (advance grow canon_real ksub_real_fn preprune prune fuel (list_sum js + k) s).
Proof.
  intros grow preprune prune.
  exact (chain_exact_reachable grow canon_real ksub_real_fn preprune prune canon_real_novb).
Qed.
Print Assumptions C04_chain_exact_real.

(* The property in terms of the caller's loop `for it.Next() { use(it.Value()) }` ([outputs],
   Search/ShardModel.v), for ANY labelling that ignores the stale ViableBits and any pruning: if the
   loop run from a state s (satisfying the between-calls invariant, e.g. WithPruning(n, a, m))
   collects the list L, then after k <= |L| calls the iterator has shown exactly the first k graphs
   of L, Save / Load there succeeds, and the loop run on the loaded iterator collects exactly the
   remaining graphs of L, in order, and ends (no panic, within the same number of calls and steps). *)
Theorem C04_resume_remaining :
  forall grow canon ksub_reps preprune prune, canon_ignores_stale_bits canon ->
  forall calls fuel s L, inv s ->
  outputs grow canon ksub_reps preprune prune calls fuel s = Ok L ->
  forall k, k <= length L ->
  exists s_k s', advance grow canon ksub_reps preprune prune fuel k s = (map Some (firstn k L), Ok s_k) /\
    load (save s_k) = Some s' /\
    outputs grow canon ksub_reps preprune prune (calls - k) fuel s' = Ok (skipn k L).
Proof. exact resume_remaining. Qed.
Print Assumptions C04_resume_remaining.

(* ... and for the composed model the premise holds (Props/C03_unconditional.v): for every
   n <= 63, every shard a < m, and every predicate P that stays true when a vertex is added,
   placed as preprune, prune or both (P := no_prune: the unpruned shards), the run from
   WithPruning(n, a, m) ends without panic with some list L, and a save made after any k <= |L|
   graphs resumes with exactly the remaining graphs of L.  No hypothesis on the labelling, no
   termination or no-panic assumption. *)
Theorem C04_resume_remaining_real :
  forall grow n, n <= 63 ->
  forall P pre post, grows_bad P ->
    (pre = P \/ pre = no_prune) -> (post = P \/ post = no_prune) -> (pre = P \/ post = P) ->
  forall m a, a < m ->
  exists L calls fuel,
    outputs grow canon_real ksub_real_fn pre post calls fuel (init n a m) = Ok L /\
    forall k, k <= length L ->
    exists s_k s', advance grow canon_real ksub_real_fn pre post fuel k (init n a m) =
                     (map Some (firstn k L), Ok s_k) /\
      load (save s_k) = Some s' /\
      outputs grow canon_real ksub_real_fn pre post (calls - k) fuel s' = Ok (skipn k L).
Proof. exact real_resume_full. Qed.
Print Assumptions C04_resume_remaining_real.

(* Non-vacuity on the composed model, n = 4 (11 graphs): after five graphs the original holds a
   cached automorphism group computed by the labelling model; the loaded state is a different
   state with the same projection and an empty cache; both go on with the same six graphs and
   then false; the chain 2 / save / load / 0 / save / load / 3 / save / load + 7 calls shows
   what 12 calls of the original show: eleven graphs and false; the caller's loop on the loaded
   iterator collects graphs 6..11 of the run. *)
Definition np (g : vgraph) := false.
Definition real_advance := advance (fun k => k) canon_real ksub_real_fn np np.

Example C04_real_nonvacuous :
  exists os s1 s2,
    real_advance 100 5 (init 4 0 1) = (os, Ok s1) /\ length os = 5 /\
    CPerm (SCache s1) <> None /\
    load (save s1) = Some s2 /\ s2 <> s1 /\ proj s2 = proj s1 /\ SCache s2 = no_cache /\
    fst (real_advance 100 7 s2) = fst (real_advance 100 7 s1) /\
    length (filter (fun o => match o with Some _ => true | None => false end)
                   (fst (real_advance 100 7 s2))) = 6 /\
    fst (chain_then (fun k => k) canon_real ksub_real_fn np np 100 [2; 0; 3] 7 (init 4 0 1)) =
      fst (real_advance 100 12 (init 4 0 1)) /\
    length (filter (fun o => match o with Some _ => true | None => false end)
                   (fst (real_advance 100 12 (init 4 0 1)))) = 11 /\
    (* the caller's loop on the loaded iterator collects the remaining six of the eleven graphs *)
    match outputs (fun k => k) canon_real ksub_real_fn np np 12 100 (init 4 0 1) with
    | Ok L => length L = 11 /\
              outputs (fun k => k) canon_real ksub_real_fn np np 7 100 s2 = Ok (skipn 5 L)
    | _ => False
    end.
Proof.
  destruct (real_advance 100 5 (init 4 0 1)) as [os [s1| |]] eqn:E;
    vm_compute in E; try discriminate.
  injection E as <- <-.
  do 3 eexists. split; [reflexivity|]. split; [reflexivity|].
  split; [discriminate|]. split; [vm_compute; reflexivity|]. split; [discriminate|].
  split; [reflexivity|]. split; [reflexivity|].
  split; [vm_compute; reflexivity|]. split; [vm_compute; reflexivity|].
  split; [vm_compute; reflexivity|]. split; [vm_compute; reflexivity|].
  vm_compute. split; reflexivity.
Qed.
