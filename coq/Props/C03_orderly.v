(* C03 — orderly generation: the unsplit, unpruned search yields exactly one graph of every
   isomorphism class (McKay, "Isomorph-free exhaustive generation", J. Algorithms 26 (1998),
   Theorem 1), proved on the model of GraphIterator.Next (Search/Model.v) RELATIVE TO the
   specification [canon_spec] of the two Section variables of the model:

   [canon_spec canon ksub_reps n] (Search/OrderlySpec.v), for every well-formed visible graph g
   on k vertices, 1 <= k <= n, with c = the answer of the labelling for CheckViability = false:
     - CPerm c is a permutation of 0..k-1 and relabelling g by it gives the same labelled graph
       for isomorphic inputs (C01: canonical form);
     - COrb c is a union-find forest whose classes are exactly the orbits of Aut(g) (C02);
     - for 2 <= j <= k, ksub_reps k j (CGens c) holds one mask for every orbit of Aut(g) on the
       j-subsets of the vertices (C02 "generators generate Aut(g)" + the loop of
       addAugmentations over CombinationsColex/Rank/UnionBuffered: see
       C03_canon_spec_of_parts);
     - with CheckViability = true the answer is the same, or nil, and then the first vertex in
       canonical order that is the new vertex or a viable one is not in the orbit of the new
       vertex (soundness of the early viability exit of graph/canonical.go).

   What is proved: for every n the run of the model (a = 0, m = 1, no pruning) ENDS WITHOUT PANIC
   and its output list holds only well-formed graphs on n vertices, contains a graph isomorphic
   to every simple graph on n vertices, and no two entries are isomorphic
   (C03_all_exactly_one_per_class).  With the shard and prune theorems of Props/C03.v this gives
   the statement of C03 on the model (C03_full_relative_to_canon).  The degree / degree-sum /
   degree-square filters of isCanonical are part of the proof: the canonical deletion orbit is
   the orbit of the first vertex, in canonical order, among the vertices whose key
   (degree, -sum of neighbour degrees, -sum of squares) is least.

   The specification is satisfiable for every n: a brute-force labelling meets it
   (C03_canon_spec_satisfiable), so C03_reference_instance is an unconditional theorem about
   the search model run with that labelling.

   NOT proved here: that graph.CanonicalIsomorphAllocated and the k-subset loop of
   addAugmentations meet [canon_spec] (C01/C02 are tied to the code by correspondence only). *)
From Coq Require Import List NArith ZArith Arith Bool Permutation.
From Mamba Require Import Disjoint.Model Disjoint.Proofs Search.Model Search.SaveModel Search.ShardModel Search.Prune.
From Mamba Require Import Canon.AutBase Canon.Aut Canon.Group.
From Mamba Require Canon.Iso.
From Mamba Require Import Search.OrderlyBase Search.OrderlyGraph Search.OrderlySpec Search.OrderlyCanon.
From Mamba Require Import Search.OrderlyLevels Search.OrderlyMcKay Search.OrderlyTop.
From Mamba Require Import Search.OrderlyToyModel Search.OrderlyToy Search.OrderlyKsubModel Search.OrderlyKsub.
Import ListNotations.
Local Open Scope nat_scope.

(* [one_per_class n L] (OrderlyTop.v): every entry of L is a well-formed graph on n vertices;
   every simple graph H on n vertices (adjacency matrix, Canon/Iso.v) is isomorphic to the
   matrix of some entry; entries at different positions are not isomorphic. *)
Theorem C03_all_exactly_one_per_class :
  forall grow canon ksub_reps n,
  canon_ignores_stale_bits canon -> canon_spec canon ksub_reps n ->
  exists L,
    (exists calls fuel, outputs grow canon ksub_reps no_prune no_prune calls fuel (init n 0 1) = Ok L) /\
    Forall (wf_graph n) L /\
    (forall H, Iso.simple H -> length H = n -> exists g, In g L /\ Iso.iso (matrix_of g) H) /\
    ForallOrdPairs (fun g h => ~ Iso.iso (matrix_of g) (matrix_of h)) L.
Proof. intros grow canon ksub_reps n NV HC. exact (outputs_orderly canon ksub_reps grow NV n HC). Qed.
Print Assumptions C03_all_exactly_one_per_class.

(* The same on the recursive presentation (no hypothesis on stale bits needed). *)
Theorem C03_spec_exactly_one_per_class :
  forall canon ksub_reps n, canon_spec canon ksub_reps n ->
  exists L, spec canon ksub_reps no_prune no_prune n 0 1 = Some L /\ one_per_class n L.
Proof. exact spec_orderly. Qed.
Print Assumptions C03_spec_exactly_one_per_class.

(* The whole property on the model, relative to the specification: the unsplit unpruned run is
   one graph per class; for every m >= 1 the shards a = 0..m-1 end without panic and yield
   together a permutation of it; with a predicate P that stays true when a vertex is added
   (implied by hereditary), placed as preprune, as prune or both, every shard ends without
   panic and together they yield a permutation of the representatives not satisfying P. *)
Theorem C03_full_relative_to_canon :
  forall grow canon ksub_reps n,
  canon_ignores_stale_bits canon -> canon_spec canon ksub_reps n ->
  exists L, one_per_class n L /\
    (exists calls fuel, outputs grow canon ksub_reps no_prune no_prune calls fuel (init n 0 1) = Ok L) /\
    (forall m, 1 <= m -> exists Ls, length Ls = m /\ Permutation (concat Ls) L /\
       forall a, a < m -> exists calls fuel,
         outputs grow canon ksub_reps no_prune no_prune calls fuel (init n a m) = Ok (nth a Ls [])) /\
    (forall P pre post, grows_bad P ->
       (pre = P \/ pre = no_prune) -> (post = P \/ post = no_prune) -> (pre = P \/ post = P) ->
       forall m, 1 <= m -> exists Ls, length Ls = m /\
         Permutation (concat Ls) (filter (fun g => negb (P g)) L) /\
         forall a, a < m -> exists calls fuel,
           outputs grow canon ksub_reps pre post calls fuel (init n a m) = Ok (nth a Ls [])).
Proof. intros grow canon ksub_reps n NV HC. exact (search_full canon ksub_reps grow NV n HC). Qed.
Print Assumptions C03_full_relative_to_canon.

(* isCanonical decides membership of the new vertex in the canonical deletion orbit [cdel]:
   the orbit of the first vertex, in canonical order, among those with the best key; and
   isomorphisms map canonical deletion orbits to canonical deletion orbits. *)
Theorem C03_is_canonical_decides_canonical_deletion :
  forall canon ksub_reps n, canon_spec canon ksub_reps n ->
  forall g aug, wfv g -> 2 <= nv_of g <= n -> NoDup aug ->
  (forall j, In j aug <-> j < nv_of g - 1 /\ vadj g j (nv_of g - 1) = true) ->
  exists b c vb, is_canonical canon g aug no_cache 0%N = Some (b, c, vb) /\
    (b = true <-> cdel canon g (nv_of g - 1)).
Proof.
  intros canon ksub_reps n HC g aug W HN ND AUG.
  destruct (is_canonical_cdel canon ksub_reps n HC g aug W HN ND AUG) as (b & c & vb & H1 & H2 & _).
  exists b, c, vb. auto.
Qed.
Print Assumptions C03_is_canonical_decides_canonical_deletion.

Theorem C03_canonical_deletion_equivariant :
  forall canon ksub_reps n, canon_spec canon ksub_reps n ->
  forall g h q x, wfv g -> wfv h -> nv_of g = nv_of h -> 1 <= nv_of g <= n ->
  isoP (nv_of g) (vadj g) (vadj h) q -> cdel canon h x -> cdel canon g (app q x).
Proof. exact cdel_iso. Qed.
Print Assumptions C03_canonical_deletion_equivariant.

(* The specification split by responsibility: labelling / orbits / generators / early exit
   ([canon_parts_at]) and "ksub_reps is a transversal of the orbits of the group generated by
   the permutations it is given" ([ksub_ok]). *)
Theorem C03_canon_spec_of_parts :
  forall canon ksub_reps n,
  canon_label_ok canon n ->
  (forall g c, wfv g -> 1 <= nv_of g <= n -> answer canon g = Some c -> canon_parts_at canon g c) ->
  ksub_ok ksub_reps n -> canon_spec canon ksub_reps n.
Proof. exact canon_spec_of_parts. Qed.
Print Assumptions C03_canon_spec_of_parts.

(* Non-vacuity of the hypotheses, for every n: the brute-force labelling [toy_canon] with
   [toy_ksub] (Search/OrderlyToyModel.v) meets the specification. *)
Theorem C03_canon_spec_satisfiable :
  forall n, canon_spec toy_canon toy_ksub n /\ canon_ignores_stale_bits toy_canon.
Proof. intros n. split; [apply toy_canon_spec|exact toy_novb]. Qed.
Print Assumptions C03_canon_spec_satisfiable.

(* Hence, unconditionally: the search model run with the brute-force labelling ends without
   panic and yields exactly one graph of every isomorphism class, for every n. *)
Theorem C03_reference_instance :
  forall grow n, exists L,
    (exists calls fuel, outputs grow toy_canon toy_ksub no_prune no_prune calls fuel (init n 0 1) = Ok L) /\
    one_per_class n L.
Proof. intros grow n. exact (outputs_orderly toy_canon toy_ksub grow toy_novb n (toy_canon_spec n)). Qed.
Print Assumptions C03_reference_instance.

(* The k-subset orbit loop of addAugmentations (model Search/OrderlyKsubModel.v: for every
   combination c_i in colex order and every generator g, UnionBuffered(i, Rank(sort(g(c_i)))) on
   the verified union-find model of C18; then the masks of the combinations whose entry is
   negative) yields one representative per orbit of the generated group on the k-subsets of
   0..n-1, whenever [cs] lists exactly the ascending k-subsets once each (CombinationsColex,
   C15), [rk] maps the i-th of them to i (comb.Rank, C16) and [sortl] sorts duplicate-free lists
   (ints.Sort).  The loop never panics. *)
Theorem C03_ksub_loop_transversal :
  forall n k cs rk sortl,
  (forall c, In c cs <-> sorted_ksub n k c) -> NoDup cs ->
  (forall i, i < length cs -> rk (nth i cs []) = i) ->
  (forall l, NoDup l -> Sorted.StronglySorted lt (sortl l) /\ forall v, In v (sortl l) <-> In v l) ->
  forall gens, Forall (is_perm n) gens ->
  exists R, ksub_loop cs rk sortl gens = Some R /\ transversal_gen n gens k R.
Proof. exact ksub_loop_transversal. Qed.
Print Assumptions C03_ksub_loop_transversal.

(* ... and with brute-force instances of these three parameters it meets [ksub_ok]; together
   with the brute-force labelling: a second instance of the specification, built through
   C03_canon_spec_of_parts. *)
Theorem C03_ksub_loop_instance :
  forall n, ksub_ok ksub_ref n /\ canon_spec toy_canon ksub_ref n.
Proof. intros n. split; [apply ksub_ref_ok|apply toy_loop_canon_spec]. Qed.
Print Assumptions C03_ksub_loop_instance.

(* Non-vacuity by computation: the model with the brute-force labelling finds 1, 1, 2, 4, 11, 34
   graphs on 0..5 vertices; the four graphs on 3 vertices are K3, the path, an edge plus a
   vertex, the empty graph. *)
Definition toy_outs (n : nat) : res (list vgraph) :=
  outputs (fun k => k) toy_canon toy_ksub no_prune no_prune 200 3000 (init n 0 1).
Definition toy_count (n : nat) : option nat :=
  match toy_outs n with Ok l => Some (length l) | _ => None end.

Example C03_orderly_nonvacuous :
  map toy_count [0; 1; 2; 3; 4; 5] = [Some 1; Some 1; Some 2; Some 4; Some 11; Some 34] /\
  toy_outs 3 = Ok [(3, 3%Z, [2; 2; 2]%Z, [1; 1; 1]%N); (3, 2%Z, [1; 2; 1]%Z, [1; 0; 1]%N);
                   (3, 1%Z, [1; 1; 0]%Z, [1; 0; 0]%N); (3, 0%Z, [0; 0; 0]%Z, [0; 0; 0]%N)] /\
  spec toy_canon toy_ksub no_prune no_prune 4 0 1 =
    match toy_outs 4 with Ok l => Some l | _ => None end /\
  (* the loop model on the rotation of the 4-cycle: adjacent pairs and diagonals *)
  ksub_ref 4 2 [[1; 2; 3; 0]] = [6%N; 10%N] /\
  option_map (@length _) (spec toy_canon ksub_ref no_prune no_prune 5 0 1) = Some 34.
Proof. vm_compute. repeat split. Qed.
