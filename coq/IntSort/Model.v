(* Model of /repo/ints/int_sort.go as it is written now (definitions only).

   One Coq list stands for the slice [data]; indices are [Z]; every read and every swap is
   bounds-checked ([Panic] out of range).  Every loop runs on explicit fuel computed from its
   arguments; running out of fuel is the distinct result [OutOfFuel]. *)
From Coq Require Import List ZArith Bool.
From Mamba Require Import Sortints.Base.
Import ListNotations.
Open Scope Z_scope.

(* data[i], data[j] = data[j], data[i] *)
Definition swap (d : list Z) (i j : Z) : res (list Z) :=
  do x <- rd d i;
  do y <- rd d j;
  do d1 <- wr d i y;
  wr d1 j x.

(* ---------------------------------------------------------------- insertionSort *)
(* for j := i; j > a && data[j] < data[j-1]; j-- { swap(j, j-1) } *)
Fixpoint ins_inner (fuel : nat) (d : list Z) (a j : Z) : res (list Z) :=
  if j >? a then
    do x <- rd d j;
    do y <- rd d (j - 1);
    if x <? y then
      match fuel with
      | O => OutOfFuel
      | S f => do d' <- swap d j (j - 1); ins_inner f d' a (j - 1)
      end
    else Ret d
  else Ret d.

(* for i := a + 1; i < b; i++ *)
Fixpoint ins_outer (fuel : nat) (d : list Z) (a b i : Z) : res (list Z) :=
  if i <? b then
    match fuel with
    | O => OutOfFuel
    | S f => do d' <- ins_inner (Z.to_nat (i - a)) d a i; ins_outer f d' a b (i + 1)
    end
  else Ret d.

Definition insertion_sort (d : list Z) (a b : Z) : res (list Z) :=
  ins_outer (Z.to_nat (b - a)) d a b (a + 1).

(* ---------------------------------------------------------------- siftDown / heapSort *)
Fixpoint sift_down (fuel : nat) (d : list Z) (root hi first : Z) : res (list Z) :=
  let child := 2 * root + 1 in
  if child >=? hi then Ret d
  else
    do child' <-
      (if child + 1 <? hi then
         do c0 <- rd d (first + child);
         do c1 <- rd d (first + child + 1);
         Ret (if c0 <? c1 then child + 1 else child)
       else Ret child);
    do r <- rd d (first + root);
    do c <- rd d (first + child');
    if r >=? c then Ret d
    else
      match fuel with
      | O => OutOfFuel
      | S f => do d' <- swap d (first + root) (first + child'); sift_down f d' child' hi first
      end.

(* for i := (hi - 1) / 2; i >= 0; i-- { siftDown(data, i, hi, first) } *)
Fixpoint heap_build (fuel : nat) (d : list Z) (i hi first : Z) : res (list Z) :=
  if i >=? 0 then
    match fuel with
    | O => OutOfFuel
    | S f => do d' <- sift_down (Z.to_nat hi) d i hi first; heap_build f d' (i - 1) hi first
    end
  else Ret d.

(* for i := hi - 1; i >= 0; i-- { swap(first, first+i); siftDown(data, lo, i, first) } *)
Fixpoint heap_pop (fuel : nat) (d : list Z) (i first : Z) : res (list Z) :=
  if i >=? 0 then
    match fuel with
    | O => OutOfFuel
    | S f =>
      do d1 <- swap d first (first + i);
      do d2 <- sift_down (Z.to_nat i) d1 0 i first;
      heap_pop f d2 (i - 1) first
    end
  else Ret d.

Definition heap_sort (d : list Z) (a b : Z) : res (list Z) :=
  let first := a in
  let hi := b - a in
  do d1 <- heap_build (S (Z.to_nat hi)) d (Z.quot (hi - 1) 2) hi first;
  heap_pop (S (Z.to_nat hi)) d1 (hi - 1) first.

(* ---------------------------------------------------------------- medianOfThree / doPivot *)
Definition swap_if_less (d : list Z) (i j : Z) : res (list Z) :=   (* if data[i] < data[j] { swap } *)
  do x <- rd d i;
  do y <- rd d j;
  if x <? y then swap d i j else Ret d.

Definition median_of_three (d : list Z) (m1 m0 m2 : Z) : res (list Z) :=
  do d1 <- swap_if_less d m1 m0;
  do x <- rd d1 m2;
  do y <- rd d1 m1;
  if x <? y then
    do d2 <- swap d1 m2 m1;
    swap_if_less d2 m1 m0
  else Ret d1.

(* for ; a < c && data[a] < data[pivot]; a++ {} *)
Fixpoint scan_lt (fuel : nat) (d : list Z) (pivot a c : Z) : res Z :=
  if a <? c then
    do x <- rd d a; do p <- rd d pivot;
    if x <? p then match fuel with O => OutOfFuel | S f => scan_lt f d pivot (a + 1) c end
    else Ret a
  else Ret a.
(* for ; b < c && data[b] <= data[pivot]; b++ {}   (written !(data[pivot] < data[b])) *)
Fixpoint scan_le (fuel : nat) (d : list Z) (pivot b c : Z) : res Z :=
  if b <? c then
    do p <- rd d pivot; do x <- rd d b;
    if negb (p <? x) then match fuel with O => OutOfFuel | S f => scan_le f d pivot (b + 1) c end
    else Ret b
  else Ret b.
(* for ; b < c && data[pivot] < data[c-1]; c-- {} *)
Fixpoint scan_gt_down (fuel : nat) (d : list Z) (pivot b c : Z) : res Z :=
  if b <? c then
    do p <- rd d pivot; do x <- rd d (c - 1);
    if p <? x then match fuel with O => OutOfFuel | S f => scan_gt_down f d pivot b (c - 1) end
    else Ret c
  else Ret c.
(* for ; a < b && data[pivot] <= data[b-1]; b-- {}   (written !(data[b-1] < data[pivot])) *)
Fixpoint scan_ge_down (fuel : nat) (d : list Z) (pivot a b : Z) : res Z :=
  if a <? b then
    do x <- rd d (b - 1); do p <- rd d pivot;
    if negb (x <? p) then match fuel with O => OutOfFuel | S f => scan_ge_down f d pivot a (b - 1) end
    else Ret b
  else Ret b.

(* the main partition loop; returns (data, b, c) *)
Fixpoint part_loop (fuel : nat) (d : list Z) (pivot b c : Z) : res (list Z * Z * Z) :=
  let n := Z.to_nat (c - b) in
  do b1 <- scan_le n d pivot b c;
  do c1 <- scan_gt_down n d pivot b1 c;
  if b1 >=? c1 then Ret (d, b1, c1)
  else
    match fuel with
    | O => OutOfFuel
    | S f => do d' <- swap d b1 (c1 - 1); part_loop f d' pivot (b1 + 1) (c1 - 1)
    end.

(* the "protect against a lot of duplicates" loop; returns (data, a, b) *)
Fixpoint protect_loop (fuel : nat) (d : list Z) (pivot a b : Z) : res (list Z * Z * Z) :=
  let n := Z.to_nat (b - a) in
  do b1 <- scan_ge_down n d pivot a b;
  do a1 <- scan_lt n d pivot a b1;
  if a1 >=? b1 then Ret (d, a1, b1)
  else
    match fuel with
    | O => OutOfFuel
    | S f => do d' <- swap d a1 (b1 - 1); protect_loop f d' pivot (a1 + 1) (b1 - 1)
    end.

(* returns (data, midlo, midhi) *)
Definition do_pivot (d0 : list Z) (lo hi : Z) : res (list Z * Z * Z) :=
  let m := (lo + hi) / 2 in                    (* int(uint(lo+hi) >> 1) *)
  do d1 <-
    (if hi - lo >? 40 then
       let s := Z.quot (hi - lo) 8 in
       do e1 <- median_of_three d0 lo (lo + s) (lo + 2 * s);
       do e2 <- median_of_three e1 m (m - s) (m + s);
       median_of_three e2 (hi - 1) (hi - 1 - s) (hi - 1 - 2 * s)
     else Ret d0);
  do d2 <- median_of_three d1 lo m (hi - 1);
  let pivot := lo in
  let n := Z.to_nat (hi - lo) in
  do a <- scan_lt n d2 pivot (lo + 1) (hi - 1);
  do (st, c) <- part_loop n d2 pivot a (hi - 1);
  let '(d3, b) := st in
  let protect0 := hi - c <? 5 in
  do (st2, protect) <-
    (if negb protect0 && (hi - c <? Z.quot (hi - lo) 4) then
       (* test some points for equality to the pivot *)
       do x <- rd d3 (hi - 1); do p <- rd d3 pivot;
       do (dc, dups1) <- (if negb (p <? x)
                          then do e <- swap d3 c (hi - 1); Ret (e, c + 1, 1)
                          else Ret (d3, c, 0));
       let '(d4, c1) := dc in
       do p1 <- rd d4 pivot; do y <- rd d4 (b - 1);
       let '(b1, dups2) := if negb (y <? p1) then (b - 1, dups1 + 1) else (b, dups1) in
       do p2 <- rd d4 pivot; do z <- rd d4 m;
       do (db, dups3) <- (if negb (z <? p2)
                          then do e <- swap d4 m (b1 - 1); Ret (e, b1 - 1, dups2 + 1)
                          else Ret (d4, b1, dups2));
       let '(d5, b2) := db in
       Ret (d5, b2, c1, dups3 >? 1)
     else Ret (d3, b, c, protect0));
  let '(d6, b3, c2) := st2 in
  do (st3, b4) <-
    (if (protect : bool) then
       do (st4, b5) <- protect_loop n d6 pivot a b3;
       let '(d7, _) := st4 in Ret (d7, b5)
     else Ret (d6, b3));
  let d8 := st3 in
  do d9 <- swap d8 pivot (b4 - 1);
  Ret (d9, b4 - 1, c2).

(* ---------------------------------------------------------------- quickSort *)
Definition small_sort (d : list Z) (a b : Z) : res (list Z) :=
  if b - a >? 1 then
    (* ShellSort pass with gap 6: for i := a + 6; i < b; i++ *)
    do d1 <-
      (fix shell (fuel : nat) (d : list Z) (i : Z) : res (list Z) :=
         if i <? b then
           match fuel with
           | O => OutOfFuel
           | S f => do d' <- swap_if_less d i (i - 6); shell f d' (i + 1)
           end
         else Ret d) (Z.to_nat (b - a)) d (a + 6);
    insertion_sort d1 a b
  else Ret d.

(* The loop `for b-a > 12` continues on the larger part with the decremented maxDepth, which
   is the tail call written here. *)
Fixpoint quick_sort (fuel : nat) (d : list Z) (a b depth : Z) : res (list Z) :=
  if b - a >? 12 then
    match fuel with
    | O => OutOfFuel
    | S f =>
      if depth =? 0 then heap_sort d a b
      else
        do (st, mhi) <- do_pivot d a b;
        let '(d1, mlo) := st in
        if mlo - a <? b - mhi then
          do d2 <- quick_sort f d1 a mlo (depth - 1);
          quick_sort f d2 mhi b (depth - 1)
        else
          do d2 <- quick_sort f d1 mhi b (depth - 1);
          quick_sort f d2 a mlo (depth - 1)
    end
  else small_sort d a b.

(* for i := n; i > 0; i >>= 1 { depth++ }; return depth * 2 *)
Fixpoint max_depth_loop (fuel : nat) (i depth : Z) : res Z :=
  if i >? 0 then
    match fuel with
    | O => OutOfFuel
    | S f => max_depth_loop f (Z.shiftr i 1) (depth + 1)
    end
  else Ret (depth * 2).

Definition sort (d : list Z) : res (list Z) :=
  let n := len d in
  do md <- max_depth_loop (length d) n 0;
  quick_sort (length d) d 0 n md.
