(* Sortedness and totality of the small-slice path of ints.Sort.

   insertion_sort_ok   for 0 <= a <= b <= len d: insertionSort(data, a, b) returns (no panic, the
                       model's fuel suffices), the cells a..b-1 are weakly increasing afterwards,
                       the other cells and the length are unchanged
   small_sort_ok       the same for the final stage of quickSort (gap-6 pass + insertionSort)
   sort_small          len d <= 12 -> sort d = Ret (isort d)   (isort = the model of sort.Ints) *)
From Coq Require Import List ZArith Lia Bool Sorting.Permutation Sorting.Sorted.
From Mamba Require Import Sortints.Base Sortints.Spec Sortints.Simple IntSort.Model IntSort.Perm.
Import ListNotations.
Open Scope Z_scope.

Definition get (d : list Z) (i : Z) : Z := nth (Z.to_nat i) d 0.

Definition sorted_seg (d : list Z) (a b : Z) : Prop :=
  forall p q, a <= p -> p <= q -> q < b -> get d p <= get d q.

Definition same_out (d d' : list Z) (a b : Z) : Prop :=
  forall k, 0 <= k -> k < a \/ b <= k -> get d' k = get d k.

Lemma rd_ok : forall d i, 0 <= i < len d -> rd d i = Ret (get d i).
Proof.
  intros d i H. unfold rd, get.
  destruct (Z.leb_spec 0 i); [|lia]. destruct (Z.ltb_spec i (len d)); [|lia]. reflexivity.
Qed.

Lemma len_upd : forall (d : list Z) i v, len (upd d i v) = len d.
Proof. intros. unfold len. rewrite upd_length. reflexivity. Qed.

Lemma get_upd : forall d i v k, 0 <= i < len d -> 0 <= k ->
  get (upd d (Z.to_nat i) v) k = if k =? i then v else get d k.
Proof.
  intros d i v k Hi Hk. unfold get, len in *. destruct (Z.eqb_spec k i) as [E|N].
  - subst k. apply nth_upd_same. lia.
  - apply nth_upd_other. lia.
Qed.

Lemma wr_ok : forall d i v, 0 <= i < len d -> wr d i v = Ret (upd d (Z.to_nat i) v).
Proof.
  intros d i v H. unfold wr.
  destruct (Z.leb_spec 0 i); [|lia]. destruct (Z.ltb_spec i (len d)); [|lia]. reflexivity.
Qed.

Lemma swap_ok : forall d i j, 0 <= i < len d -> 0 <= j < len d ->
  exists d', swap d i j = Ret d' /\ len d' = len d /\
    forall k, 0 <= k -> get d' k = if k =? j then get d i else if k =? i then get d j else get d k.
Proof.
  intros d i j Hi Hj. unfold swap. rewrite (rd_ok d i Hi), (rd_ok d j Hj). cbn [bind].
  rewrite (wr_ok d i) by exact Hi. cbn [bind]. rewrite wr_ok by (rewrite len_upd; exact Hj).
  eexists. split; [reflexivity|]. split; [rewrite !len_upd; reflexivity|].
  intros k Hk. rewrite get_upd by (rewrite ?len_upd; lia).
  destruct (Z.eqb_spec k j); [reflexivity|]. apply get_upd; lia.
Qed.

Lemma swap_if_less_ok : forall d i j, 0 <= i < len d -> 0 <= j < len d ->
  exists d', swap_if_less d i j = Ret d' /\ len d' = len d /\
    forall k, 0 <= k -> k <> i -> k <> j -> get d' k = get d k.
Proof.
  intros d i j Hi Hj. unfold swap_if_less. rewrite (rd_ok d i Hi), (rd_ok d j Hj). cbn [bind].
  destruct (get d i <? get d j).
  - destruct (swap_ok d i j Hi Hj) as [d' [E [L G]]]. exists d'. split; [exact E|]. split; [exact L|].
    intros k Hk N1 N2. rewrite G by exact Hk.
    destruct (Z.eqb_spec k j); [lia|]. destruct (Z.eqb_spec k i); [lia|]. reflexivity.
  - exists d. split; [reflexivity|]. split; [reflexivity|]. intros; reflexivity.
Qed.

(* ---------------------------------------------------------------- insertionSort *)
Lemma ins_inner_eq : forall fuel d a j, ins_inner fuel d a j =
  if j >? a then
    do x <- rd d j;
    do y <- rd d (j - 1);
    if x <? y then
      match fuel with
      | O => OutOfFuel
      | S f => do d' <- swap d j (j - 1); ins_inner f d' a (j - 1)
      end
    else Ret d
  else Ret d.
Proof. intros [|f] d a j; reflexivity. Qed.

Lemma ins_inner_ok : forall fuel d a j i,
  0 <= a -> a <= j <= i -> i < len d -> (Z.to_nat (j - a) <= fuel)%nat ->
  (forall p q, a <= p -> p <= q -> q <= i -> p <> j -> q <> j -> get d p <= get d q) ->
  (forall q, j < q <= i -> get d j <= get d q) ->
  exists d', ins_inner fuel d a j = Ret d' /\ len d' = len d /\
             sorted_seg d' a (i + 1) /\ same_out d d' a (i + 1).
Proof.
  induction fuel as [|f IH]; intros d a j i Ha Hj Hi Hf H1 H2; rewrite ins_inner_eq.
  - destruct (Z.gtb_spec j a) as [G|G]; [lia|]. assert (j = a) by lia. subst j.
    exists d. split; [reflexivity|]. split; [reflexivity|]. split; [|intros k _ _; reflexivity].
    intros p q Hp Hpq Hq. destruct (Z.eq_dec p a) as [->|Np].
    + destruct (Z.eq_dec q a) as [->|Nq]; [lia|]. apply H2. lia.
    + apply H1; lia.
  - destruct (Z.gtb_spec j a) as [G|G].
    2:{ assert (j = a) by lia. subst j.
        exists d. split; [reflexivity|]. split; [reflexivity|]. split; [|intros k _ _; reflexivity].
        intros p q Hp Hpq Hq. destruct (Z.eq_dec p a) as [->|Np].
        + destruct (Z.eq_dec q a) as [->|Nq]; [lia|]. apply H2. lia.
        + apply H1; lia. }
    rewrite (rd_ok d j) by lia. rewrite (rd_ok d (j - 1)) by lia. cbn [bind].
    destruct (Z.ltb_spec (get d j) (get d (j - 1))) as [Lt|Ge].
    + destruct (swap_ok d j (j - 1)) as [d1 [E [L Gd]]]; [lia|lia|].
      rewrite E. cbn [bind].
      destruct (IH d1 a (j - 1) i Ha) as [d' [E' [L' [S' O']]]]; try lia.
      * intros p q Hp Hpq Hq Np Nq. rewrite (Gd p), (Gd q) by lia.
        destruct (Z.eqb_spec p (j - 1)); [lia|]. destruct (Z.eqb_spec q (j - 1)); [lia|].
        destruct (Z.eqb_spec p j) as [Ep|Np'], (Z.eqb_spec q j) as [Eq|Nq'].
        -- lia.
        -- subst p. apply H1; lia.
        -- subst q. apply H1; lia.
        -- apply H1; lia.
      * intros q Hq. rewrite (Gd (j - 1)), (Gd q) by lia.
        destruct (Z.eqb_spec (j - 1) (j - 1)); [|lia].
        destruct (Z.eqb_spec q (j - 1)); [lia|].
        destruct (Z.eqb_spec q j) as [Eq|Nq]; [lia|]. apply H2. lia.
      * exists d'. split; [exact E'|]. split; [lia|]. split; [exact S'|].
        intros k Hk Ho. rewrite (O' k Hk Ho). rewrite (Gd k Hk).
        destruct (Z.eqb_spec k (j - 1)); [lia|]. destruct (Z.eqb_spec k j); [lia|]. reflexivity.
    + exists d. split; [reflexivity|]. split; [reflexivity|]. split; [|intros k _ _; reflexivity].
      intros p q Hp Hpq Hq.
      destruct (Z.eq_dec p j) as [->|Np], (Z.eq_dec q j) as [->|Nq].
      * lia.
      * apply H2. lia.
      * assert (get d p <= get d (j - 1)) by (apply H1; lia). lia.
      * apply H1; lia.
Qed.

Lemma ins_outer_eq : forall fuel d a b i, ins_outer fuel d a b i =
  if i <? b then
    match fuel with
    | O => OutOfFuel
    | S f => do d' <- ins_inner (Z.to_nat (i - a)) d a i; ins_outer f d' a b (i + 1)
    end
  else Ret d.
Proof. intros [|f] d a b i; reflexivity. Qed.

Lemma ins_outer_ok : forall fuel d a b i,
  0 <= a -> a < i -> b <= len d -> (Z.to_nat (b - i) <= fuel)%nat -> sorted_seg d a i ->
  exists d', ins_outer fuel d a b i = Ret d' /\ len d' = len d /\
             sorted_seg d' a b /\ same_out d d' a b.
Proof.
  induction fuel as [|f IH]; intros d a b i Ha Hi Hb Hf Hs; rewrite ins_outer_eq.
  - destruct (Z.ltb_spec i b); [lia|].
    exists d. split; [reflexivity|]. split; [reflexivity|]. split; [|intros k _ _; reflexivity].
    intros p q Hp Hpq Hq. apply Hs; lia.
  - destruct (Z.ltb_spec i b) as [Lt|Ge].
    2:{ exists d. split; [reflexivity|]. split; [reflexivity|]. split; [|intros k _ _; reflexivity].
        intros p q Hp Hpq Hq. apply Hs; lia. }
    destruct (ins_inner_ok (Z.to_nat (i - a)) d a i i) as [d1 [E1 [L1 [S1 O1]]]]; try lia.
    + intros p q Hp Hpq Hq Np Nq. apply Hs; lia.
    + rewrite E1. cbn [bind].
      destruct (IH d1 a b (i + 1)) as [d' [E' [L' [S' O']]]]; try lia; [exact S1|].
      exists d'. split; [exact E'|]. split; [lia|]. split; [exact S'|].
      intros k Hk Ho. rewrite (O' k Hk Ho). apply O1; lia.
Qed.

Theorem insertion_sort_ok : forall d a b, 0 <= a <= b -> b <= len d ->
  exists d', insertion_sort d a b = Ret d' /\ len d' = len d /\
             sorted_seg d' a b /\ same_out d d' a b.
Proof.
  intros d a b Hab Hb. unfold insertion_sort. apply ins_outer_ok; try lia.
  intros p q Hp Hpq Hq. assert (p = q) by lia. subst. lia.
Qed.

(* ---------------------------------------------------------------- the final stage of quickSort *)
Lemma shell_loop_ok : forall b fuel d a i,
  0 <= a -> a + 6 <= i -> b <= len d -> (Z.to_nat (b - i) <= fuel)%nat ->
  exists d', shell_loop b fuel d i = Ret d' /\ len d' = len d /\ same_out d d' a b.
Proof.
  intros b. induction fuel as [|f IH]; intros d a i Ha Hi Hb Hf; rewrite shell_loop_eq.
  - destruct (Z.ltb_spec i b); [lia|].
    exists d. split; [reflexivity|]. split; [reflexivity|]. intros k _ _; reflexivity.
  - destruct (Z.ltb_spec i b) as [Lt|Ge].
    2:{ exists d. split; [reflexivity|]. split; [reflexivity|]. intros k _ _; reflexivity. }
    destruct (swap_if_less_ok d i (i - 6)) as [d1 [E1 [L1 G1]]]; try lia.
    rewrite E1. cbn [bind].
    destruct (IH d1 a (i + 1)) as [d' [E' [L' O']]]; try lia.
    exists d'. split; [exact E'|]. split; [lia|].
    intros k Hk Ho. rewrite (O' k Hk Ho). apply G1; lia.
Qed.

Theorem small_sort_ok : forall d a b, 0 <= a <= b -> b <= len d ->
  exists d', small_sort d a b = Ret d' /\ len d' = len d /\
             sorted_seg d' a b /\ same_out d d' a b.
Proof.
  intros d a b Hab Hb. rewrite small_sort_eq. destruct (Z.gtb_spec (b - a) 1) as [G|G].
  - destruct (shell_loop_ok b (Z.to_nat (b - a)) d a (a + 6)) as [d1 [E1 [L1 O1]]]; try lia.
    rewrite E1. cbn [bind].
    destruct (insertion_sort_ok d1 a b Hab ltac:(lia)) as [d' [E' [L' [S' O']]]].
    exists d'. split; [exact E'|]. split; [lia|]. split; [exact S'|].
    intros k Hk Ho. rewrite (O' k Hk Ho). apply O1; assumption.
  - exists d. split; [reflexivity|]. split; [reflexivity|]. split; [|intros k _ _; reflexivity].
    intros p q Hp Hpq Hq. assert (p = q) by lia. subst. lia.
Qed.

(* ---------------------------------------------------------------- from segments to lists *)
Lemma get_cons : forall h t k, 0 <= k -> get (h :: t) (k + 1) = get t k.
Proof.
  intros h t k Hk. unfold get. replace (Z.to_nat (k + 1)) with (S (Z.to_nat k)) by lia. reflexivity.
Qed.

Lemma sorted_seg_Inc : forall d, sorted_seg d 0 (len d) -> Inc d.
Proof.
  induction d as [|h t IH]; intros H; [constructor|].
  apply Inc_cons.
  - apply IH. intros p q Hp Hpq Hq. rewrite <- (get_cons h t p), <- (get_cons h t q) by lia.
    apply H; unfold len in *; cbn [length]; lia.
  - intros y Hy. destruct (In_nth t y 0 Hy) as [n [Hn En]].
    specialize (H 0 (Z.of_nat n + 1)). rewrite get_cons in H by lia.
    unfold get in H at 2. rewrite Nat2Z.id, En in H. change (get (h :: t) 0) with h in H.
    apply H; unfold len; cbn [length]; lia.
Qed.

(* ---------------------------------------------------------------- slices of at most 12 cells *)
Lemma max_depth_loop_eq : forall fuel i depth, max_depth_loop fuel i depth =
  if i >? 0 then
    match fuel with
    | O => OutOfFuel
    | S f => max_depth_loop f (Z.shiftr i 1) (depth + 1)
    end
  else Ret (depth * 2).
Proof. intros [|f] i depth; reflexivity. Qed.

Lemma max_depth_loop_ok : forall fuel i depth, 0 <= i <= Z.of_nat fuel ->
  exists r, max_depth_loop fuel i depth = Ret r.
Proof.
  induction fuel as [|f IH]; intros i depth H; rewrite max_depth_loop_eq.
  - destruct (Z.gtb_spec i 0); [lia|]. eexists. reflexivity.
  - destruct (Z.gtb_spec i 0) as [G|G]; [|eexists; reflexivity].
    apply IH. rewrite Z.shiftr_div_pow2 by lia. change (2 ^ 1) with 2.
    pose proof (Z.div_pos i 2). pose proof (Z.mul_div_le i 2).
    assert (i / 2 < i) by (apply Z.div_lt; lia). lia.
Qed.

Lemma quick_sort_small : forall fuel d a b depth, b - a <= 12 ->
  quick_sort fuel d a b depth = small_sort d a b.
Proof.
  intros [|f] d a b depth H; cbn [quick_sort]; destruct (Z.gtb_spec (b - a) 12); try lia; reflexivity.
Qed.

Theorem sort_small : forall d, len d <= 12 -> sort d = Ret (isort d).
Proof.
  intros d H. unfold sort. cbv zeta.
  destruct (max_depth_loop_ok (length d) (len d) 0) as [md E]; [unfold len; lia|].
  rewrite E. cbn [bind]. rewrite quick_sort_small by lia.
  destruct (small_sort_ok d 0 (len d)) as [d' [E' [L' [S' _]]]]; [unfold len; lia|lia|].
  rewrite E'. f_equal. rewrite <- L' in S'.
  apply Inc_perm_unique; [apply sorted_seg_Inc; exact S'|apply isort_Inc|].
  eapply Permutation_trans; [apply Permutation_sym; eapply small_sort_perm; exact E'|apply isort_perm].
Qed.
