(* heapSort (the depth-exhausted path of ints.Sort).

   sift_down_ok   siftDown restores "every node from lo on dominates its children" when only the
                  root may violate it; it stays inside data[first, first+hi) and preserves upper bounds
   heap_sort_ok   for 0 <= a <= b <= len d: heapSort(data, a, b) returns (no panic, fuel suffices),
                  the cells a..b-1 are weakly increasing, everything else is unchanged *)
From Coq Require Import List ZArith Lia Bool.
From Mamba Require Import Sortints.Base IntSort.Model IntSort.Perm IntSort.Sorted.
Import ListNotations.
Open Scope Z_scope.

Definition dom (d : list Z) (first hi r : Z) : Prop :=
  (2 * r + 1 < hi -> get d (first + r) >= get d (first + (2 * r + 1))) /\
  (2 * r + 2 < hi -> get d (first + r) >= get d (first + (2 * r + 2))).

Lemma sift_down_eq : forall fuel d root hi first, sift_down fuel d root hi first =
  if 2 * root + 1 >=? hi then Ret d
  else
    do child' <-
      (if 2 * root + 1 + 1 <? hi then
         do c0 <- rd d (first + (2 * root + 1));
         do c1 <- rd d (first + (2 * root + 1) + 1);
         Ret (if c0 <? c1 then 2 * root + 1 + 1 else 2 * root + 1)
       else Ret (2 * root + 1));
    do r <- rd d (first + root);
    do c <- rd d (first + child');
    if r >=? c then Ret d
    else
      match fuel with
      | O => OutOfFuel
      | S f => do d' <- swap d (first + root) (first + child'); sift_down f d' child' hi first
      end.
Proof. intros [|f] d root hi first; reflexivity. Qed.

Lemma sift_down_ok : forall fuel d root hi first lo,
  0 <= first -> first + hi <= len d -> 0 <= lo <= root ->
  (Z.to_nat (hi - root) <= fuel)%nat ->
  (forall r, lo <= r -> r <> root -> dom d first hi r) ->
  (forall r, lo <= r -> root = 2 * r + 1 \/ root = 2 * r + 2 ->
     (2 * root + 1 < hi -> get d (first + r) >= get d (first + (2 * root + 1))) /\
     (2 * root + 2 < hi -> get d (first + r) >= get d (first + (2 * root + 2)))) ->
  exists d', sift_down fuel d root hi first = Ret d' /\ len d' = len d /\
    (forall r, lo <= r -> dom d' first hi r) /\
    same_out d d' first (first + hi) /\
    (forall M, (forall c, 0 <= c < hi -> get d (first + c) <= M) ->
               forall c, 0 <= c < hi -> get d' (first + c) <= M).
Proof.
  induction fuel as [|f IH]; intros d root hi first lo Hf0 Hlen Hlo Hfuel H1 H2; rewrite sift_down_eq.
  - destruct (Z.geb_spec (2 * root + 1) hi) as [G|G]; [|lia].
    exists d. split; [reflexivity|]. split; [reflexivity|]. split; [|split; [intros k _ _; reflexivity|auto]].
    intros r Hr. destruct (Z.eq_dec r root) as [->|N]; [split; lia|apply H1; assumption].
  - destruct (Z.geb_spec (2 * root + 1) hi) as [G|G].
    { exists d. split; [reflexivity|]. split; [reflexivity|]. split; [|split; [intros k _ _; reflexivity|auto]].
      intros r Hr. destruct (Z.eq_dec r root) as [->|N]; [split; lia|apply H1; assumption]. }
    (* the larger child *)
    assert (Hch : exists ch,
      (if 2 * root + 1 + 1 <? hi then
         do c0 <- rd d (first + (2 * root + 1));
         do c1 <- rd d (first + (2 * root + 1) + 1);
         Ret (if c0 <? c1 then 2 * root + 1 + 1 else 2 * root + 1)
       else Ret (2 * root + 1)) = Ret ch /\
      (ch = 2 * root + 1 \/ ch = 2 * root + 2) /\ ch < hi /\
      (2 * root + 1 < hi -> get d (first + ch) >= get d (first + (2 * root + 1))) /\
      (2 * root + 2 < hi -> get d (first + ch) >= get d (first + (2 * root + 2)))).
    { destruct (Z.ltb_spec (2 * root + 1 + 1) hi) as [L2|L2].
      - rewrite !rd_ok by lia. cbn [bind].
        replace (first + (2 * root + 1) + 1) with (first + (2 * root + 2)) by lia.
        destruct (Z.ltb_spec (get d (first + (2 * root + 1))) (get d (first + (2 * root + 2)))) as [Lt|Ge].
        + exists (2 * root + 1 + 1). split; [reflexivity|]. split; [right; lia|]. split; [lia|].
          replace (first + (2 * root + 1 + 1)) with (first + (2 * root + 2)) by lia. split; lia.
        + exists (2 * root + 1). split; [reflexivity|]. split; [left; lia|]. split; [lia|]. split; lia.
      - exists (2 * root + 1). split; [reflexivity|]. split; [left; lia|]. split; [lia|]. split; lia. }
    destruct Hch as [ch [Ech [Hch [Hchhi [Hc1 Hc2]]]]]. rewrite Ech. cbn [bind].
    rewrite !rd_ok by lia. cbn [bind].
    destruct (Z.geb_spec (get d (first + root)) (get d (first + ch))) as [Ge|Lt].
    { exists d. split; [reflexivity|]. split; [reflexivity|]. split; [|split; [intros k _ _; reflexivity|auto]].
      intros r Hr. destruct (Z.eq_dec r root) as [->|N]; [split; lia|apply H1; assumption]. }
    destruct (swap_ok d (first + root) (first + ch)) as [d1 [E1 [L1 G1]]]; [lia|lia|].
    rewrite E1. cbn [bind].
    assert (Gc : forall c, 0 <= c -> get d1 (first + c) =
                 if c =? ch then get d (first + root) else if c =? root then get d (first + ch) else get d (first + c)).
    { intros c Hc. rewrite G1 by lia.
      destruct (Z.eqb_spec (first + c) (first + ch)), (Z.eqb_spec c ch); try lia; try reflexivity.
      destruct (Z.eqb_spec (first + c) (first + root)), (Z.eqb_spec c root); try lia; try reflexivity. }
    destruct (IH d1 ch hi first lo Hf0 ltac:(lia) ltac:(lia) ltac:(lia)) as [d' [E' [L' [D' [O' B']]]]].
    + (* every node but ch dominates its children in d1 *)
      intros r Hr Nr. destruct (Z.eq_dec r root) as [->|Nroot].
      * split; intros Hlt; rewrite !Gc by lia.
        -- destruct (Z.eqb_spec root ch); [lia|]. destruct (Z.eqb_spec root root); [|lia].
           destruct (Z.eqb_spec (2 * root + 1) ch).
           ++ lia.
           ++ destruct (Z.eqb_spec (2 * root + 1) root); [lia|]. apply Hc1. lia.
        -- destruct (Z.eqb_spec root ch); [lia|]. destruct (Z.eqb_spec root root); [|lia].
           destruct (Z.eqb_spec (2 * root + 2) ch).
           ++ lia.
           ++ destruct (Z.eqb_spec (2 * root + 2) root); [lia|]. apply Hc2. lia.
      * destruct (H1 r Hr Nroot) as [Da Db].
        split; intros Hlt; rewrite !Gc by lia.
        -- destruct (Z.eqb_spec r ch); [lia|]. destruct (Z.eqb_spec r root); [lia|].
           destruct (Z.eqb_spec (2 * r + 1) ch); [lia|].
           destruct (Z.eqb_spec (2 * r + 1) root) as [Er|Nr1]; [|apply Da; lia].
           destruct (H2 r Hr (or_introl (eq_sym Er))) as [Ga Gb]. destruct Hch as [->| ->]; [apply Ga|apply Gb]; lia.
        -- destruct (Z.eqb_spec r ch); [lia|]. destruct (Z.eqb_spec r root); [lia|].
           destruct (Z.eqb_spec (2 * r + 2) ch); [lia|].
           destruct (Z.eqb_spec (2 * r + 2) root) as [Er|Nr1]; [|apply Db; lia].
           destruct (H2 r Hr (or_intror (eq_sym Er))) as [Ga Gb]. destruct Hch as [->| ->]; [apply Ga|apply Gb]; lia.
    + (* the parent of ch (= root) dominates the children of ch in d1 *)
      intros r Hr Hp. assert (r = root) by lia. subst r.
      assert (Nch : ch <> root) by lia.
      destruct (H1 ch ltac:(lia) Nch) as [Da Db].
      split; intros Hlt; rewrite !Gc by lia.
      * destruct (Z.eqb_spec root ch); [lia|]. destruct (Z.eqb_spec root root); [|lia].
        destruct (Z.eqb_spec (2 * ch + 1) ch); [lia|]. destruct (Z.eqb_spec (2 * ch + 1) root); [lia|].
        apply Da. lia.
      * destruct (Z.eqb_spec root ch); [lia|]. destruct (Z.eqb_spec root root); [|lia].
        destruct (Z.eqb_spec (2 * ch + 2) ch); [lia|]. destruct (Z.eqb_spec (2 * ch + 2) root); [lia|].
        apply Db. lia.
    + exists d'. split; [exact E'|]. split; [lia|]. split; [exact D'|]. split.
      * intros k Hk Ho. rewrite (O' k Hk Ho). rewrite G1 by exact Hk.
        destruct (Z.eqb_spec k (first + ch)); [lia|]. destruct (Z.eqb_spec k (first + root)); [lia|]. reflexivity.
      * intros M HM. apply B'. intros c Hc. rewrite Gc by lia.
        destruct (Z.eqb_spec c ch); [apply HM; lia|]. destruct (Z.eqb_spec c root); apply HM; lia.
Qed.

(* ---------------------------------------------------------------- building the heap *)
Lemma heap_build_eq : forall fuel d i hi first, heap_build fuel d i hi first =
  if i >=? 0 then
    match fuel with
    | O => OutOfFuel
    | S f => do d' <- sift_down (Z.to_nat hi) d i hi first; heap_build f d' (i - 1) hi first
    end
  else Ret d.
Proof. intros [|f] d i hi first; reflexivity. Qed.

Lemma heap_build_ok : forall fuel d i hi first,
  0 <= first -> first + hi <= len d -> -1 <= i -> (Z.to_nat (i + 1) <= fuel)%nat ->
  (forall r, i + 1 <= r -> dom d first hi r) ->
  exists d', heap_build fuel d i hi first = Ret d' /\ len d' = len d /\
    (forall r, 0 <= r -> dom d' first hi r) /\ same_out d d' first (first + hi).
Proof.
  induction fuel as [|f IH]; intros d i hi first Hf0 Hlen Hi Hfuel H; rewrite heap_build_eq.
  - destruct (Z.geb_spec i 0); [lia|].
    exists d. split; [reflexivity|]. split; [reflexivity|]. split; [|intros k _ _; reflexivity].
    intros r Hr. apply H. lia.
  - destruct (Z.geb_spec i 0) as [G|G].
    2:{ exists d. split; [reflexivity|]. split; [reflexivity|]. split; [|intros k _ _; reflexivity].
        intros r Hr. apply H. lia. }
    destruct (sift_down_ok (Z.to_nat hi) d i hi first i) as [d1 [E1 [L1 [D1 [O1 _]]]]]; try lia.
    + intros r Hr Nr. apply H. lia.
    + rewrite E1. cbn [bind].
      destruct (IH d1 (i - 1) hi first) as [d' [E' [L' [D' O']]]]; try lia.
      * intros r Hr. apply D1. lia.
      * exists d'. split; [exact E'|]. split; [lia|]. split; [exact D'|].
        intros k Hk Ho. rewrite (O' k Hk Ho). apply O1; assumption.
Qed.

Lemma heap_root_max : forall d first hi, (forall r, 0 <= r -> dom d first hi r) ->
  forall c, 0 <= c -> c < hi -> get d (first + c) <= get d (first + 0).
Proof.
  intros d first hi H c Hc0 Hclt.
  refine (Z_lt_induction (fun c => 0 <= c -> c < hi -> get d (first + c) <= get d (first + 0)) _ c Hc0 Hc0 Hclt).
  clear c Hc0 Hclt. intros c IHc Pos Hc. destruct (Z.eq_dec c 0) as [->|N]; [lia|].
  assert (Hp : exists p, 0 <= p < c /\ (c = 2 * p + 1 \/ c = 2 * p + 2)).
  { exists ((c - 1) / 2). pose proof (Z.div_mod (c - 1) 2 ltac:(lia)).
    pose proof (Z.mod_pos_bound (c - 1) 2 ltac:(lia)). lia. }
  destruct Hp as [p [Bp Hp]]. destruct (H p ltac:(lia)) as [Da Db].
  specialize (IHc p Bp ltac:(lia) ltac:(lia)).
  destruct Hp as [->| ->]; [specialize (Da ltac:(lia))|specialize (Db ltac:(lia))]; lia.
Qed.

(* ---------------------------------------------------------------- popping *)
Lemma heap_pop_eq : forall fuel d i first, heap_pop fuel d i first =
  if i >=? 0 then
    match fuel with
    | O => OutOfFuel
    | S f =>
      do d1 <- swap d first (first + i);
      do d2 <- sift_down (Z.to_nat i) d1 0 i first;
      heap_pop f d2 (i - 1) first
    end
  else Ret d.
Proof. intros [|f] d i first; reflexivity. Qed.

Lemma heap_pop_ok : forall fuel d i first hi,
  0 <= first -> first + hi <= len d -> -1 <= i < hi -> (Z.to_nat (i + 1) <= fuel)%nat ->
  (forall r, 0 <= r -> dom d first (i + 1) r) ->
  sorted_seg d (first + i + 1) (first + hi) ->
  (forall c k, 0 <= c <= i -> i < k < hi -> get d (first + c) <= get d (first + k)) ->
  exists d', heap_pop fuel d i first = Ret d' /\ len d' = len d /\
    sorted_seg d' first (first + hi) /\ same_out d d' first (first + hi).
Proof.
  induction fuel as [|f IH]; intros d i first hi Hf0 Hlen Hi Hfuel Hd Hs H3; rewrite heap_pop_eq.
  - destruct (Z.geb_spec i 0); [lia|].
    exists d. split; [reflexivity|]. split; [reflexivity|]. split; [|intros k _ _; reflexivity].
    intros p q Hp Hpq Hq. apply Hs; lia.
  - destruct (Z.geb_spec i 0) as [G|G].
    2:{ exists d. split; [reflexivity|]. split; [reflexivity|]. split; [|intros k _ _; reflexivity].
        intros p q Hp Hpq Hq. apply Hs; lia. }
    destruct (swap_ok d first (first + i)) as [d1 [E1 [L1 G1]]]; [lia|lia|].
    rewrite E1. cbn [bind].
    pose proof (heap_root_max d first (i + 1) Hd) as Hmax. rewrite Z.add_0_r in Hmax.
    assert (Gc : forall c, 0 <= c -> get d1 (first + c) =
                 if c =? i then get d first else if c =? 0 then get d (first + i) else get d (first + c)).
    { intros c Hc. rewrite G1 by lia.
      destruct (Z.eqb_spec (first + c) (first + i)), (Z.eqb_spec c i); try lia; try reflexivity.
      destruct (Z.eqb_spec (first + c) first), (Z.eqb_spec c 0); try lia; try reflexivity. }
    destruct (sift_down_ok (Z.to_nat i) d1 0 i first 0) as [d2 [E2 [L2 [D2 [O2 B2]]]]]; try lia.
    + intros r Hr Nr. destruct (Hd r Hr) as [Da Db].
      split; intros Hlt; rewrite !Gc by lia.
      * destruct (Z.eqb_spec r i); [lia|]. destruct (Z.eqb_spec r 0); [lia|].
        destruct (Z.eqb_spec (2 * r + 1) i); [lia|]. destruct (Z.eqb_spec (2 * r + 1) 0); [lia|].
        apply Da. lia.
      * destruct (Z.eqb_spec r i); [lia|]. destruct (Z.eqb_spec r 0); [lia|].
        destruct (Z.eqb_spec (2 * r + 2) i); [lia|]. destruct (Z.eqb_spec (2 * r + 2) 0); [lia|].
        apply Db. lia.
    + rewrite E2. cbn [bind].
      (* d2 outside the heap [first, first+i) *)
      assert (Gk : forall k, i <= k -> get d2 (first + k) = if k =? i then get d first else get d (first + k)).
      { intros k Hk. rewrite (O2 (first + k)) by lia. rewrite Gc by lia.
        destruct (Z.eqb_spec k i); [reflexivity|]. destruct (Z.eqb_spec k 0); [lia|]. reflexivity. }
      destruct (IH d2 (i - 1) first hi) as [d' [E' [L' [S' O']]]]; try lia.
      * replace (i - 1 + 1) with i by lia. exact D2.
      * intros p q Hp Hpq Hq. destruct (Z.eq_dec p q) as [->|Npq]; [lia|].
        replace p with (first + (p - first)) by lia. replace q with (first + (q - first)) by lia.
        rewrite !Gk by lia.
        destruct (Z.eqb_spec (q - first) i); [lia|].
        destruct (Z.eqb_spec (p - first) i) as [Ep|Np].
        -- specialize (H3 0 (q - first) ltac:(lia) ltac:(lia)). rewrite Z.add_0_r in H3. exact H3.
        -- replace (first + (p - first)) with p by lia. replace (first + (q - first)) with q by lia.
           apply Hs; lia.
      * intros c k Hc Hk. rewrite (Gk k) by lia.
        apply B2; [|lia]. intros c' Hc'. rewrite Gc by lia.
        destruct (Z.eqb_spec c' i); [lia|].
        destruct (Z.eqb_spec k i) as [Ek|Nk].
        -- destruct (Z.eqb_spec c' 0); apply Hmax; lia.
        -- destruct (Z.eqb_spec c' 0); apply H3; lia.
      * exists d'. split; [exact E'|]. split; [lia|]. split; [exact S'|].
        intros k Hk Ho. rewrite (O' k Hk Ho). rewrite (O2 k Hk) by lia. rewrite G1 by exact Hk.
        destruct (Z.eqb_spec k (first + i)); [lia|]. destruct (Z.eqb_spec k first); [lia|]. reflexivity.
Qed.

(* ---------------------------------------------------------------- heapSort *)
Theorem heap_sort_ok : forall d a b, 0 <= a <= b -> b <= len d ->
  exists d', heap_sort d a b = Ret d' /\ len d' = len d /\
             sorted_seg d' a b /\ same_out d d' a b.
Proof.
  intros d a b Hab Hb. unfold heap_sort. cbv zeta.
  set (hi := b - a). assert (Hhi : 0 <= hi) by (unfold hi; lia).
  assert (Hq : -1 <= Z.quot (hi - 1) 2 /\ Z.quot (hi - 1) 2 + 1 <= hi + 1 /\
               hi < 2 * (Z.quot (hi - 1) 2 + 1) + 1).
  { destruct (Z.eq_dec hi 0) as [E0|N0].
    - rewrite E0. change (Z.quot (0 - 1) 2) with 0. lia.
    - rewrite Z.quot_div_nonneg by lia.
      pose proof (Z.div_mod (hi - 1) 2 ltac:(lia)). pose proof (Z.mod_pos_bound (hi - 1) 2 ltac:(lia)). lia. }
  destruct Hq as [Q1 [Q2 Q3]].
  destruct (heap_build_ok (S (Z.to_nat hi)) d (Z.quot (hi - 1) 2) hi a) as [d1 [E1 [L1 [D1 O1]]]];
    try (unfold hi in *; lia).
  { intros r Hr. split; intros; lia. }
  rewrite E1. cbn [bind].
  destruct (heap_pop_ok (S (Z.to_nat hi)) d1 (hi - 1) a hi) as [d' [E' [L' [S' O']]]];
    try (unfold hi in *; lia).
  - replace (hi - 1 + 1) with hi by lia. exact D1.
  - intros p q Hp Hpq Hq. lia.
  - exists d'. split; [exact E'|]. split; [lia|]. split.
    + intros p q Hp Hpq Hq. apply S'; unfold hi; lia.
    + intros k Hk Ho. rewrite (O' k Hk) by (unfold hi; lia). apply O1; unfold hi; lia.
Qed.
