(* doPivot: the four scans, the partition loop, the "protect against duplicates" loop,
   medianOfThree, and the postcondition of doPivot itself.

   do_pivot_ok   for 0 <= lo, hi <= len d, hi - lo > 12: doPivot(data, lo, hi) returns (no panic,
                 the model's fuel suffices) (d', midlo, midhi) with lo <= midlo < midhi <= hi, the
                 length and every cell outside lo..hi-1 unchanged, and a value pv such that
                 d'[lo..midlo) <= pv, d'[midlo..midhi) = pv, d'[midhi..hi) >= pv *)
From Coq Require Import List ZArith Lia Bool.
From Mamba Require Import Sortints.Base IntSort.Model IntSort.Perm IntSort.Sorted.
Import ListNotations.
Open Scope Z_scope.

(* ---------------------------------------------------------------- the four scans *)
Lemma scan_lt_eq : forall fuel d pivot a c, scan_lt fuel d pivot a c =
  if a <? c then
    do x <- rd d a; do p <- rd d pivot;
    if x <? p then match fuel with O => OutOfFuel | S f => scan_lt f d pivot (a + 1) c end
    else Ret a
  else Ret a.
Proof. intros [|f] d pivot a c; reflexivity. Qed.

Lemma scan_lt_ok : forall fuel d pivot a c,
  0 <= a <= c -> c <= len d -> 0 <= pivot < len d -> (Z.to_nat (c - a) <= fuel)%nat ->
  exists a', scan_lt fuel d pivot a c = Ret a' /\ a <= a' <= c /\
    (forall k, a <= k < a' -> get d k < get d pivot) /\
    (a' < c -> ~ get d a' < get d pivot).
Proof.
  induction fuel as [|f IH]; intros d pivot a c Ha Hc Hp Hf; rewrite scan_lt_eq.
  - destruct (Z.ltb_spec a c); [lia|]. exists a. split; [reflexivity|]. split; [lia|]. split; intros; lia.
  - destruct (Z.ltb_spec a c) as [Lt|Ge].
    2:{ exists a. split; [reflexivity|]. split; [lia|]. split; intros; lia. }
    rewrite (rd_ok d a) by lia. rewrite (rd_ok d pivot) by lia. cbn [bind].
    destruct (Z.ltb_spec (get d a) (get d pivot)) as [L|G].
    + destruct (IH d pivot (a + 1) c) as [a' [E [B [P1 P2]]]]; try lia.
      exists a'. split; [exact E|]. split; [lia|]. split; [|exact P2].
      intros k Hk. destruct (Z.eq_dec k a) as [->|N]; [exact L|apply P1; lia].
    + exists a. split; [reflexivity|]. split; [lia|]. split; intros; lia.
Qed.

Lemma scan_le_eq : forall fuel d pivot b c, scan_le fuel d pivot b c =
  if b <? c then
    do p <- rd d pivot; do x <- rd d b;
    if negb (p <? x) then match fuel with O => OutOfFuel | S f => scan_le f d pivot (b + 1) c end
    else Ret b
  else Ret b.
Proof. intros [|f] d pivot b c; reflexivity. Qed.

Lemma scan_le_ok : forall fuel d pivot b c,
  0 <= b <= c -> c <= len d -> 0 <= pivot < len d -> (Z.to_nat (c - b) <= fuel)%nat ->
  exists b', scan_le fuel d pivot b c = Ret b' /\ b <= b' <= c /\
    (forall k, b <= k < b' -> get d k <= get d pivot) /\
    (b' < c -> get d pivot < get d b').
Proof.
  induction fuel as [|f IH]; intros d pivot b c Hb Hc Hp Hf; rewrite scan_le_eq.
  - destruct (Z.ltb_spec b c); [lia|]. exists b. split; [reflexivity|]. split; [lia|]. split; intros; lia.
  - destruct (Z.ltb_spec b c) as [Lt|Ge].
    2:{ exists b. split; [reflexivity|]. split; [lia|]. split; intros; lia. }
    rewrite (rd_ok d pivot) by lia. rewrite (rd_ok d b) by lia. cbn [bind].
    destruct (Z.ltb_spec (get d pivot) (get d b)) as [L|G]; cbn [negb].
    + exists b. split; [reflexivity|]. split; [lia|]. split; intros; lia.
    + destruct (IH d pivot (b + 1) c) as [b' [E [B [P1 P2]]]]; try lia.
      exists b'. split; [exact E|]. split; [lia|]. split; [|exact P2].
      intros k Hk. destruct (Z.eq_dec k b) as [->|N]; [exact G|apply P1; lia].
Qed.

Lemma scan_gt_down_eq : forall fuel d pivot b c, scan_gt_down fuel d pivot b c =
  if b <? c then
    do p <- rd d pivot; do x <- rd d (c - 1);
    if p <? x then match fuel with O => OutOfFuel | S f => scan_gt_down f d pivot b (c - 1) end
    else Ret c
  else Ret c.
Proof. intros [|f] d pivot b c; reflexivity. Qed.

Lemma scan_gt_down_ok : forall fuel d pivot b c,
  0 <= b <= c -> c <= len d -> 0 <= pivot < len d -> (Z.to_nat (c - b) <= fuel)%nat ->
  exists c', scan_gt_down fuel d pivot b c = Ret c' /\ b <= c' <= c /\
    (forall k, c' <= k < c -> get d pivot < get d k) /\
    (b < c' -> get d (c' - 1) <= get d pivot).
Proof.
  induction fuel as [|f IH]; intros d pivot b c Hb Hc Hp Hf; rewrite scan_gt_down_eq.
  - destruct (Z.ltb_spec b c); [lia|]. exists c. split; [reflexivity|]. split; [lia|]. split; intros; lia.
  - destruct (Z.ltb_spec b c) as [Lt|Ge].
    2:{ exists c. split; [reflexivity|]. split; [lia|]. split; intros; lia. }
    rewrite (rd_ok d pivot) by lia. rewrite (rd_ok d (c - 1)) by lia. cbn [bind].
    destruct (Z.ltb_spec (get d pivot) (get d (c - 1))) as [L|G].
    + destruct (IH d pivot b (c - 1)) as [c' [E [B [P1 P2]]]]; try lia.
      exists c'. split; [exact E|]. split; [lia|]. split; [|exact P2].
      intros k Hk. destruct (Z.eq_dec k (c - 1)) as [->|N]; [exact L|apply P1; lia].
    + exists c. split; [reflexivity|]. split; [lia|]. split; intros; lia.
Qed.

Lemma scan_ge_down_eq : forall fuel d pivot a b, scan_ge_down fuel d pivot a b =
  if a <? b then
    do x <- rd d (b - 1); do p <- rd d pivot;
    if negb (x <? p) then match fuel with O => OutOfFuel | S f => scan_ge_down f d pivot a (b - 1) end
    else Ret b
  else Ret b.
Proof. intros [|f] d pivot a b; reflexivity. Qed.

Lemma scan_ge_down_ok : forall fuel d pivot a b,
  0 <= a <= b -> b <= len d -> 0 <= pivot < len d -> (Z.to_nat (b - a) <= fuel)%nat ->
  exists b', scan_ge_down fuel d pivot a b = Ret b' /\ a <= b' <= b /\
    (forall k, b' <= k < b -> get d pivot <= get d k) /\
    (a < b' -> get d (b' - 1) < get d pivot).
Proof.
  induction fuel as [|f IH]; intros d pivot a b Ha Hb Hp Hf; rewrite scan_ge_down_eq.
  - destruct (Z.ltb_spec a b); [lia|]. exists b. split; [reflexivity|]. split; [lia|]. split; intros; lia.
  - destruct (Z.ltb_spec a b) as [Lt|Ge].
    2:{ exists b. split; [reflexivity|]. split; [lia|]. split; intros; lia. }
    rewrite (rd_ok d (b - 1)) by lia. rewrite (rd_ok d pivot) by lia. cbn [bind].
    destruct (Z.ltb_spec (get d (b - 1)) (get d pivot)) as [L|G]; cbn [negb].
    + exists b. split; [reflexivity|]. split; [lia|]. split; intros; lia.
    + destruct (IH d pivot a (b - 1)) as [b' [E [B [P1 P2]]]]; try lia.
      exists b'. split; [exact E|]. split; [lia|]. split; [|exact P2].
      intros k Hk. destruct (Z.eq_dec k (b - 1)) as [->|N]; [exact G|apply P1; lia].
Qed.

(* ---------------------------------------------------------------- the partition loop *)
Lemma part_loop_eq : forall fuel d pivot b c, part_loop fuel d pivot b c =
  do b1 <- scan_le (Z.to_nat (c - b)) d pivot b c;
  do c1 <- scan_gt_down (Z.to_nat (c - b)) d pivot b1 c;
  if b1 >=? c1 then Ret (d, b1, c1)
  else
    match fuel with
    | O => OutOfFuel
    | S f => do d' <- swap d b1 (c1 - 1); part_loop f d' pivot (b1 + 1) (c1 - 1)
    end.
Proof. intros [|f] d pivot b c; reflexivity. Qed.

Lemma part_loop_ok : forall fuel d pivot b c,
  0 <= pivot < b -> b <= c -> c <= len d -> (Z.to_nat (c - b) <= fuel)%nat ->
  exists d' m, part_loop fuel d pivot b c = Ret (d', m, m) /\ len d' = len d /\ b <= m <= c /\
    same_out d d' b c /\
    (forall k, b <= k < m -> get d' k <= get d pivot) /\
    (forall k, m <= k < c -> get d pivot < get d' k).
Proof.
  induction fuel as [|f IH]; intros d pivot b c Hp Hb Hc Hf; rewrite part_loop_eq.
  - assert (b = c) by lia. subst c.
    destruct (scan_le_ok (Z.to_nat (b - b)) d pivot b b) as [b1 [E1 [B1 _]]]; try lia.
    rewrite E1. cbn [bind]. assert (b1 = b) by lia. subst b1.
    destruct (scan_gt_down_ok (Z.to_nat (b - b)) d pivot b b) as [c1 [E2 [B2 _]]]; try lia.
    rewrite E2. cbn [bind]. assert (c1 = b) by lia. subst c1.
    destruct (Z.geb_spec b b); [|lia].
    exists d, b. split; [reflexivity|]. split; [reflexivity|]. split; [lia|].
    split; [intros k _ _; reflexivity|]. split; intros; lia.
  - destruct (scan_le_ok (Z.to_nat (c - b)) d pivot b c) as [b1 [E1 [B1 [P1 Q1]]]]; try lia.
    rewrite E1. cbn [bind].
    destruct (scan_gt_down_ok (Z.to_nat (c - b)) d pivot b1 c) as [c1 [E2 [B2 [P2 Q2]]]]; try lia.
    rewrite E2. cbn [bind].
    destruct (Z.geb_spec b1 c1) as [G|L].
    + assert (c1 = b1) by lia. subst c1.
      exists d, b1. split; [reflexivity|]. split; [reflexivity|]. split; [lia|].
      split; [intros k _ _; reflexivity|]. split; assumption.
    + specialize (Q1 ltac:(lia)). specialize (Q2 ltac:(lia)).
      assert (Hne : b1 <> c1 - 1) by (intros Heq; rewrite <- Heq in Q2; lia).
      destruct (swap_ok d b1 (c1 - 1)) as [d1 [E3 [L3 G3]]]; [lia|lia|].
      rewrite E3. cbn [bind].
      assert (Hpv : get d1 pivot = get d pivot).
      { rewrite G3 by lia. destruct (Z.eqb_spec pivot (c1 - 1)); [lia|].
        destruct (Z.eqb_spec pivot b1); [lia|]. reflexivity. }
      destruct (IH d1 pivot (b1 + 1) (c1 - 1)) as [d' [m [E' [L' [B' [O' [P' Q']]]]]]]; try lia.
      exists d', m. split; [exact E'|]. split; [lia|]. split; [lia|]. rewrite Hpv in P', Q'. split; [|split].
      * intros k Hk Ho. rewrite (O' k Hk) by lia. rewrite G3 by exact Hk.
        destruct (Z.eqb_spec k (c1 - 1)); [lia|]. destruct (Z.eqb_spec k b1); [lia|]. reflexivity.
      * intros k Hk. destruct (Z_lt_le_dec k (b1 + 1)) as [Lk|Gk]; [|apply P'; lia].
        rewrite (O' k) by lia. rewrite G3 by lia.
        destruct (Z.eqb_spec k (c1 - 1)); [lia|].
        destruct (Z.eqb_spec k b1) as [->|N]; [exact Q2|apply P1; lia].
      * intros k Hk. destruct (Z_lt_le_dec k (c1 - 1)) as [Lk|Gk]; [apply Q'; lia|].
        rewrite (O' k) by lia. rewrite G3 by lia.
        destruct (Z.eqb_spec k (c1 - 1)) as [->|N]; [exact Q1|].
        destruct (Z.eqb_spec k b1); [lia|]. apply P2; lia.
Qed.

(* ---------------------------------------------------------------- the protect loop *)
Lemma protect_loop_eq : forall fuel d pivot a b, protect_loop fuel d pivot a b =
  do b1 <- scan_ge_down (Z.to_nat (b - a)) d pivot a b;
  do a1 <- scan_lt (Z.to_nat (b - a)) d pivot a b1;
  if a1 >=? b1 then Ret (d, a1, b1)
  else
    match fuel with
    | O => OutOfFuel
    | S f => do d' <- swap d a1 (b1 - 1); protect_loop f d' pivot (a1 + 1) (b1 - 1)
    end.
Proof. intros [|f] d pivot a b; reflexivity. Qed.

Lemma protect_loop_ok : forall fuel d pivot a b,
  0 <= pivot < a -> a <= b -> b <= len d -> (Z.to_nat (b - a) <= fuel)%nat ->
  exists d' m, protect_loop fuel d pivot a b = Ret (d', m, m) /\ len d' = len d /\ a <= m <= b /\
    same_out d d' a b /\
    (forall k, a <= k < m -> get d' k < get d pivot) /\
    (forall k, m <= k < b -> get d pivot <= get d' k) /\
    (forall M, (forall k, a <= k < b -> get d k <= M) -> forall k, a <= k < b -> get d' k <= M).
Proof.
  induction fuel as [|f IH]; intros d pivot a b Hp Ha Hb Hf; rewrite protect_loop_eq.
  - assert (a = b) by lia. subst b.
    destruct (scan_ge_down_ok (Z.to_nat (a - a)) d pivot a a) as [b1 [E1 [B1 _]]]; try lia.
    rewrite E1. cbn [bind]. assert (b1 = a) by lia. subst b1.
    destruct (scan_lt_ok (Z.to_nat (a - a)) d pivot a a) as [a1 [E2 [B2 _]]]; try lia.
    rewrite E2. cbn [bind]. assert (a1 = a) by lia. subst a1.
    destruct (Z.geb_spec a a); [|lia].
    exists d, a. split; [reflexivity|]. split; [reflexivity|]. split; [lia|].
    split; [intros k _ _; reflexivity|]. split; [intros; lia|]. split; [intros; lia|auto].
  - destruct (scan_ge_down_ok (Z.to_nat (b - a)) d pivot a b) as [b1 [E1 [B1 [P1 Q1]]]]; try lia.
    rewrite E1. cbn [bind].
    destruct (scan_lt_ok (Z.to_nat (b - a)) d pivot a b1) as [a1 [E2 [B2 [P2 Q2]]]]; try lia.
    rewrite E2. cbn [bind].
    destruct (Z.geb_spec a1 b1) as [G|L].
    + assert (a1 = b1) by lia. subst a1.
      exists d, b1. split; [reflexivity|]. split; [reflexivity|]. split; [lia|].
      split; [intros k _ _; reflexivity|]. split; [assumption|]. split; [assumption|auto].
    + specialize (Q1 ltac:(lia)). specialize (Q2 ltac:(lia)).
      assert (Hne : a1 <> b1 - 1) by (intros Heq; rewrite <- Heq in Q1; lia).
      destruct (swap_ok d a1 (b1 - 1)) as [d1 [E3 [L3 G3]]]; [lia|lia|].
      rewrite E3. cbn [bind].
      assert (Hpv : get d1 pivot = get d pivot).
      { rewrite G3 by lia. destruct (Z.eqb_spec pivot (b1 - 1)); [lia|].
        destruct (Z.eqb_spec pivot a1); [lia|]. reflexivity. }
      destruct (IH d1 pivot (a1 + 1) (b1 - 1)) as [d' [m [E' [L' [B' [O' [P' [Q' R']]]]]]]]; try lia.
      exists d', m. split; [exact E'|]. split; [lia|]. split; [lia|]. rewrite Hpv in P', Q'.
      split; [|split; [|split]].
      * intros k Hk Ho. rewrite (O' k Hk) by lia. rewrite G3 by exact Hk.
        destruct (Z.eqb_spec k (b1 - 1)); [lia|]. destruct (Z.eqb_spec k a1); [lia|]. reflexivity.
      * intros k Hk. destruct (Z_lt_le_dec k (a1 + 1)) as [Lk|Gk]; [|apply P'; lia].
        rewrite (O' k) by lia. rewrite G3 by lia.
        destruct (Z.eqb_spec k (b1 - 1)); [lia|].
        destruct (Z.eqb_spec k a1) as [->|N]; [exact Q1|apply P2; lia].
      * intros k Hk. destruct (Z_lt_le_dec k (b1 - 1)) as [Lk|Gk]; [apply Q'; lia|].
        rewrite (O' k) by lia. rewrite G3 by lia.
        destruct (Z.eqb_spec k (b1 - 1)) as [->|N]; [lia|].
        destruct (Z.eqb_spec k a1); [lia|]. apply P1; lia.
      * intros M HM k Hk.
        assert (HM1 : forall j, a <= j < b -> get d1 j <= M).
        { intros j Hj. rewrite G3 by lia. destruct (Z.eqb_spec j (b1 - 1)); [apply HM; lia|].
          destruct (Z.eqb_spec j a1); apply HM; lia. }
        destruct (Z_lt_le_dec k (a1 + 1)) as [Lk|Gk]; [rewrite (O' k) by lia; apply HM1; lia|].
        destruct (Z_lt_le_dec k (b1 - 1)) as [Lk2|Gk2]; [|rewrite (O' k) by lia; apply HM1; lia].
        apply (R' M); [|lia]. intros j Hj. apply HM1. lia.
Qed.
