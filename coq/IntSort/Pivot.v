(* doPivot: the four scans, the partition loop, the "protect against duplicates" loop,
   medianOfThree, and the postcondition of doPivot itself.

   do_pivot_ok   for 0 <= lo, hi <= len d, hi - lo > 12: doPivot(data, lo, hi) returns (no panic,
                 the model's fuel suffices) (d', midlo, midhi) with lo <= midlo < midhi <= hi, the
                 length and every cell outside lo..hi-1 unchanged, and a value pv such that
                 d'[lo..midlo) <= pv, d'[midlo..midhi) = pv, d'[midhi..hi) >= pv *)
From Coq Require Import List ZArith Lia Bool.
From Mamba Require Import Sortints.Base IntSort.Model IntSort.Perm IntSort.Sorted.
Import ListNotations.
Open Scope Z_scope.

(* ---------------------------------------------------------------- the four scans *)
Lemma scan_lt_eq : forall fuel d pivot a c, scan_lt fuel d pivot a c =
  if a <? c then
    do x <- rd d a; do p <- rd d pivot;
    if x <? p then match fuel with O => OutOfFuel | S f => scan_lt f d pivot (a + 1) c end
    else Ret a
  else Ret a.
Proof. intros [|f] d pivot a c; reflexivity. Qed.

Lemma scan_lt_ok : forall fuel d pivot a c,
  0 <= a <= c -> c <= len d -> 0 <= pivot < len d -> (Z.to_nat (c - a) <= fuel)%nat ->
  exists a', scan_lt fuel d pivot a c = Ret a' /\ a <= a' <= c /\
    (forall k, a <= k < a' -> get d k < get d pivot) /\
    (a' < c -> ~ get d a' < get d pivot).
Proof.
  induction fuel as [|f IH]; intros d pivot a c Ha Hc Hp Hf; rewrite scan_lt_eq.
  - destruct (Z.ltb_spec a c); [lia|]. exists a. split; [reflexivity|]. split; [lia|]. split; intros; lia.
  - destruct (Z.ltb_spec a c) as [Lt|Ge].
    2:{ exists a. split; [reflexivity|]. split; [lia|]. split; intros; lia. }
    rewrite (rd_ok d a) by lia. rewrite (rd_ok d pivot) by lia. cbn [bind].
    destruct (Z.ltb_spec (get d a) (get d pivot)) as [L|G].
    + destruct (IH d pivot (a + 1) c) as [a' [E [B [P1 P2]]]]; try lia.
      exists a'. split; [exact E|]. split; [lia|]. split; [|exact P2].
      intros k Hk. destruct (Z.eq_dec k a) as [->|N]; [exact L|apply P1; lia].
    + exists a. split; [reflexivity|]. split; [lia|]. split; intros; lia.
Qed.

Lemma scan_le_eq : forall fuel d pivot b c, scan_le fuel d pivot b c =
  if b <? c then
    do p <- rd d pivot; do x <- rd d b;
    if negb (p <? x) then match fuel with O => OutOfFuel | S f => scan_le f d pivot (b + 1) c end
    else Ret b
  else Ret b.
Proof. intros [|f] d pivot b c; reflexivity. Qed.

Lemma scan_le_ok : forall fuel d pivot b c,
  0 <= b <= c -> c <= len d -> 0 <= pivot < len d -> (Z.to_nat (c - b) <= fuel)%nat ->
  exists b', scan_le fuel d pivot b c = Ret b' /\ b <= b' <= c /\
    (forall k, b <= k < b' -> get d k <= get d pivot) /\
    (b' < c -> get d pivot < get d b').
Proof.
  induction fuel as [|f IH]; intros d pivot b c Hb Hc Hp Hf; rewrite scan_le_eq.
  - destruct (Z.ltb_spec b c); [lia|]. exists b. split; [reflexivity|]. split; [lia|]. split; intros; lia.
  - destruct (Z.ltb_spec b c) as [Lt|Ge].
    2:{ exists b. split; [reflexivity|]. split; [lia|]. split; intros; lia. }
    rewrite (rd_ok d pivot) by lia. rewrite (rd_ok d b) by lia. cbn [bind].
    destruct (Z.ltb_spec (get d pivot) (get d b)) as [L|G]; cbn [negb].
    + exists b. split; [reflexivity|]. split; [lia|]. split; intros; lia.
    + destruct (IH d pivot (b + 1) c) as [b' [E [B [P1 P2]]]]; try lia.
      exists b'. split; [exact E|]. split; [lia|]. split; [|exact P2].
      intros k Hk. destruct (Z.eq_dec k b) as [->|N]; [exact G|apply P1; lia].
Qed.

Lemma scan_gt_down_eq : forall fuel d pivot b c, scan_gt_down fuel d pivot b c =
  if b <? c then
    do p <- rd d pivot; do x <- rd d (c - 1);
    if p <? x then match fuel with O => OutOfFuel | S f => scan_gt_down f d pivot b (c - 1) end
    else Ret c
  else Ret c.
Proof. intros [|f] d pivot b c; reflexivity. Qed.

Lemma scan_gt_down_ok : forall fuel d pivot b c,
  0 <= b <= c -> c <= len d -> 0 <= pivot < len d -> (Z.to_nat (c - b) <= fuel)%nat ->
  exists c', scan_gt_down fuel d pivot b c = Ret c' /\ b <= c' <= c /\
    (forall k, c' <= k < c -> get d pivot < get d k) /\
    (b < c' -> get d (c' - 1) <= get d pivot).
Proof.
  induction fuel as [|f IH]; intros d pivot b c Hb Hc Hp Hf; rewrite scan_gt_down_eq.
  - destruct (Z.ltb_spec b c); [lia|]. exists c. split; [reflexivity|]. split; [lia|]. split; intros; lia.
  - destruct (Z.ltb_spec b c) as [Lt|Ge].
    2:{ exists c. split; [reflexivity|]. split; [lia|]. split; intros; lia. }
    rewrite (rd_ok d pivot) by lia. rewrite (rd_ok d (c - 1)) by lia. cbn [bind].
    destruct (Z.ltb_spec (get d pivot) (get d (c - 1))) as [L|G].
    + destruct (IH d pivot b (c - 1)) as [c' [E [B [P1 P2]]]]; try lia.
      exists c'. split; [exact E|]. split; [lia|]. split; [|exact P2].
      intros k Hk. destruct (Z.eq_dec k (c - 1)) as [->|N]; [exact L|apply P1; lia].
    + exists c. split; [reflexivity|]. split; [lia|]. split; intros; lia.
Qed.

Lemma scan_ge_down_eq : forall fuel d pivot a b, scan_ge_down fuel d pivot a b =
  if a <? b then
    do x <- rd d (b - 1); do p <- rd d pivot;
    if negb (x <? p) then match fuel with O => OutOfFuel | S f => scan_ge_down f d pivot a (b - 1) end
    else Ret b
  else Ret b.
Proof. intros [|f] d pivot a b; reflexivity. Qed.

Lemma scan_ge_down_ok : forall fuel d pivot a b,
  0 <= a <= b -> b <= len d -> 0 <= pivot < len d -> (Z.to_nat (b - a) <= fuel)%nat ->
  exists b', scan_ge_down fuel d pivot a b = Ret b' /\ a <= b' <= b /\
    (forall k, b' <= k < b -> get d pivot <= get d k) /\
    (a < b' -> get d (b' - 1) < get d pivot).
Proof.
  induction fuel as [|f IH]; intros d pivot a b Ha Hb Hp Hf; rewrite scan_ge_down_eq.
  - destruct (Z.ltb_spec a b); [lia|]. exists b. split; [reflexivity|]. split; [lia|]. split; intros; lia.
  - destruct (Z.ltb_spec a b) as [Lt|Ge].
    2:{ exists b. split; [reflexivity|]. split; [lia|]. split; intros; lia. }
    rewrite (rd_ok d (b - 1)) by lia. rewrite (rd_ok d pivot) by lia. cbn [bind].
    destruct (Z.ltb_spec (get d (b - 1)) (get d pivot)) as [L|G]; cbn [negb].
    + exists b. split; [reflexivity|]. split; [lia|]. split; intros; lia.
    + destruct (IH d pivot a (b - 1)) as [b' [E [B [P1 P2]]]]; try lia.
      exists b'. split; [exact E|]. split; [lia|]. split; [|exact P2].
      intros k Hk. destruct (Z.eq_dec k (b - 1)) as [->|N]; [exact G|apply P1; lia].
Qed.

(* ---------------------------------------------------------------- the partition loop *)
Lemma part_loop_eq : forall fuel d pivot b c, part_loop fuel d pivot b c =
  do b1 <- scan_le (Z.to_nat (c - b)) d pivot b c;
  do c1 <- scan_gt_down (Z.to_nat (c - b)) d pivot b1 c;
  if b1 >=? c1 then Ret (d, b1, c1)
  else
    match fuel with
    | O => OutOfFuel
    | S f => do d' <- swap d b1 (c1 - 1); part_loop f d' pivot (b1 + 1) (c1 - 1)
    end.
Proof. intros [|f] d pivot b c; reflexivity. Qed.

Lemma part_loop_ok : forall fuel d pivot b c,
  0 <= pivot < b -> b <= c -> c <= len d -> (Z.to_nat (c - b) <= fuel)%nat ->
  exists d' m, part_loop fuel d pivot b c = Ret (d', m, m) /\ len d' = len d /\ b <= m <= c /\
    same_out d d' b c /\
    (forall k, b <= k < m -> get d' k <= get d pivot) /\
    (forall k, m <= k < c -> get d pivot < get d' k).
Proof.
  induction fuel as [|f IH]; intros d pivot b c Hp Hb Hc Hf; rewrite part_loop_eq.
  - assert (b = c) by lia. subst c.
    destruct (scan_le_ok (Z.to_nat (b - b)) d pivot b b) as [b1 [E1 [B1 _]]]; try lia.
    rewrite E1. cbn [bind]. assert (b1 = b) by lia. subst b1.
    destruct (scan_gt_down_ok (Z.to_nat (b - b)) d pivot b b) as [c1 [E2 [B2 _]]]; try lia.
    rewrite E2. cbn [bind]. assert (c1 = b) by lia. subst c1.
    destruct (Z.geb_spec b b); [|lia].
    exists d, b. split; [reflexivity|]. split; [reflexivity|]. split; [lia|].
    split; [intros k _ _; reflexivity|]. split; intros; lia.
  - destruct (scan_le_ok (Z.to_nat (c - b)) d pivot b c) as [b1 [E1 [B1 [P1 Q1]]]]; try lia.
    rewrite E1. cbn [bind].
    destruct (scan_gt_down_ok (Z.to_nat (c - b)) d pivot b1 c) as [c1 [E2 [B2 [P2 Q2]]]]; try lia.
    rewrite E2. cbn [bind].
    destruct (Z.geb_spec b1 c1) as [G|L].
    + assert (c1 = b1) by lia. subst c1.
      exists d, b1. split; [reflexivity|]. split; [reflexivity|]. split; [lia|].
      split; [intros k _ _; reflexivity|]. split; assumption.
    + specialize (Q1 ltac:(lia)). specialize (Q2 ltac:(lia)).
      assert (Hne : b1 <> c1 - 1) by (intros Heq; rewrite <- Heq in Q2; lia).
      destruct (swap_ok d b1 (c1 - 1)) as [d1 [E3 [L3 G3]]]; [lia|lia|].
      rewrite E3. cbn [bind].
      assert (Hpv : get d1 pivot = get d pivot).
      { rewrite G3 by lia. destruct (Z.eqb_spec pivot (c1 - 1)); [lia|].
        destruct (Z.eqb_spec pivot b1); [lia|]. reflexivity. }
      destruct (IH d1 pivot (b1 + 1) (c1 - 1)) as [d' [m [E' [L' [B' [O' [P' Q']]]]]]]; try lia.
      exists d', m. split; [exact E'|]. split; [lia|]. split; [lia|]. rewrite Hpv in P', Q'. split; [|split].
      * intros k Hk Ho. rewrite (O' k Hk) by lia. rewrite G3 by exact Hk.
        destruct (Z.eqb_spec k (c1 - 1)); [lia|]. destruct (Z.eqb_spec k b1); [lia|]. reflexivity.
      * intros k Hk. destruct (Z_lt_le_dec k (b1 + 1)) as [Lk|Gk]; [|apply P'; lia].
        rewrite (O' k) by lia. rewrite G3 by lia.
        destruct (Z.eqb_spec k (c1 - 1)); [lia|].
        destruct (Z.eqb_spec k b1) as [->|N]; [exact Q2|apply P1; lia].
      * intros k Hk. destruct (Z_lt_le_dec k (c1 - 1)) as [Lk|Gk]; [apply Q'; lia|].
        rewrite (O' k) by lia. rewrite G3 by lia.
        destruct (Z.eqb_spec k (c1 - 1)) as [->|N]; [exact Q1|].
        destruct (Z.eqb_spec k b1); [lia|]. apply P2; lia.
Qed.

(* ---------------------------------------------------------------- the protect loop *)
Lemma protect_loop_eq : forall fuel d pivot a b, protect_loop fuel d pivot a b =
  do b1 <- scan_ge_down (Z.to_nat (b - a)) d pivot a b;
  do a1 <- scan_lt (Z.to_nat (b - a)) d pivot a b1;
  if a1 >=? b1 then Ret (d, a1, b1)
  else
    match fuel with
    | O => OutOfFuel
    | S f => do d' <- swap d a1 (b1 - 1); protect_loop f d' pivot (a1 + 1) (b1 - 1)
    end.
Proof. intros [|f] d pivot a b; reflexivity. Qed.

Lemma protect_loop_ok : forall fuel d pivot a b,
  0 <= pivot < a -> a <= b -> b <= len d -> (Z.to_nat (b - a) <= fuel)%nat ->
  exists d' m, protect_loop fuel d pivot a b = Ret (d', m, m) /\ len d' = len d /\ a <= m <= b /\
    same_out d d' a b /\
    (forall k, a <= k < m -> get d' k < get d pivot) /\
    (forall k, m <= k < b -> get d pivot <= get d' k) /\
    (forall M, (forall k, a <= k < b -> get d k <= M) -> forall k, a <= k < b -> get d' k <= M).
Proof.
  induction fuel as [|f IH]; intros d pivot a b Hp Ha Hb Hf; rewrite protect_loop_eq.
  - assert (a = b) by lia. subst b.
    destruct (scan_ge_down_ok (Z.to_nat (a - a)) d pivot a a) as [b1 [E1 [B1 _]]]; try lia.
    rewrite E1. cbn [bind]. assert (b1 = a) by lia. subst b1.
    destruct (scan_lt_ok (Z.to_nat (a - a)) d pivot a a) as [a1 [E2 [B2 _]]]; try lia.
    rewrite E2. cbn [bind]. assert (a1 = a) by lia. subst a1.
    destruct (Z.geb_spec a a); [|lia].
    exists d, a. split; [reflexivity|]. split; [reflexivity|]. split; [lia|].
    split; [intros k _ _; reflexivity|]. split; [intros; lia|]. split; [intros; lia|auto].
  - destruct (scan_ge_down_ok (Z.to_nat (b - a)) d pivot a b) as [b1 [E1 [B1 [P1 Q1]]]]; try lia.
    rewrite E1. cbn [bind].
    destruct (scan_lt_ok (Z.to_nat (b - a)) d pivot a b1) as [a1 [E2 [B2 [P2 Q2]]]]; try lia.
    rewrite E2. cbn [bind].
    destruct (Z.geb_spec a1 b1) as [G|L].
    + assert (a1 = b1) by lia. subst a1.
      exists d, b1. split; [reflexivity|]. split; [reflexivity|]. split; [lia|].
      split; [intros k _ _; reflexivity|]. split; [assumption|]. split; [assumption|auto].
    + specialize (Q1 ltac:(lia)). specialize (Q2 ltac:(lia)).
      assert (Hne : a1 <> b1 - 1) by (intros Heq; rewrite <- Heq in Q1; lia).
      destruct (swap_ok d a1 (b1 - 1)) as [d1 [E3 [L3 G3]]]; [lia|lia|].
      rewrite E3. cbn [bind].
      assert (Hpv : get d1 pivot = get d pivot).
      { rewrite G3 by lia. destruct (Z.eqb_spec pivot (b1 - 1)); [lia|].
        destruct (Z.eqb_spec pivot a1); [lia|]. reflexivity. }
      destruct (IH d1 pivot (a1 + 1) (b1 - 1)) as [d' [m [E' [L' [B' [O' [P' [Q' R']]]]]]]]; try lia.
      exists d', m. split; [exact E'|]. split; [lia|]. split; [lia|]. rewrite Hpv in P', Q'.
      split; [|split; [|split]].
      * intros k Hk Ho. rewrite (O' k Hk) by lia. rewrite G3 by exact Hk.
        destruct (Z.eqb_spec k (b1 - 1)); [lia|]. destruct (Z.eqb_spec k a1); [lia|]. reflexivity.
      * intros k Hk. destruct (Z_lt_le_dec k (a1 + 1)) as [Lk|Gk]; [|apply P'; lia].
        rewrite (O' k) by lia. rewrite G3 by lia.
        destruct (Z.eqb_spec k (b1 - 1)); [lia|].
        destruct (Z.eqb_spec k a1) as [->|N]; [exact Q1|apply P2; lia].
      * intros k Hk. destruct (Z_lt_le_dec k (b1 - 1)) as [Lk|Gk]; [apply Q'; lia|].
        rewrite (O' k) by lia. rewrite G3 by lia.
        destruct (Z.eqb_spec k (b1 - 1)) as [->|N]; [lia|].
        destruct (Z.eqb_spec k a1); [lia|]. apply P1; lia.
      * intros M HM k Hk.
        assert (HM1 : forall j, a <= j < b -> get d1 j <= M).
        { intros j Hj. rewrite G3 by lia. destruct (Z.eqb_spec j (b1 - 1)); [apply HM; lia|].
          destruct (Z.eqb_spec j a1); apply HM; lia. }
        destruct (Z_lt_le_dec k (a1 + 1)) as [Lk|Gk]; [rewrite (O' k) by lia; apply HM1; lia|].
        destruct (Z_lt_le_dec k (b1 - 1)) as [Lk2|Gk2]; [|rewrite (O' k) by lia; apply HM1; lia].
        apply (R' M); [|lia]. intros j Hj. apply HM1. lia.
Qed.

(* ---------------------------------------------------------------- medianOfThree *)
Lemma swap_if_less_ok2 : forall d i j, 0 <= i < len d -> 0 <= j < len d ->
  exists d', swap_if_less d i j = Ret d' /\ len d' = len d /\
    (forall k, 0 <= k -> k <> i -> k <> j -> get d' k = get d k) /\
    get d' j <= get d' i /\
    ((get d' i = get d i /\ get d' j = get d j) \/ (get d' i = get d j /\ get d' j = get d i)).
Proof.
  intros d i j Hi Hj. unfold swap_if_less. rewrite (rd_ok d i Hi), (rd_ok d j Hj). cbn [bind].
  destruct (Z.ltb_spec (get d i) (get d j)) as [L|G].
  - assert (Nij : i <> j) by (intros ->; lia).
    destruct (swap_ok d i j Hi Hj) as [d' [E [Ln Gd]]]. exists d'. split; [exact E|]. split; [exact Ln|].
    assert (Gi : get d' i = get d j).
    { rewrite Gd by lia. destruct (Z.eqb_spec i j); [lia|]. destruct (Z.eqb_spec i i); [reflexivity|lia]. }
    assert (Gj : get d' j = get d i).
    { rewrite Gd by lia. destruct (Z.eqb_spec j j); [reflexivity|lia]. }
    split; [|split; [lia|right; split; assumption]].
    intros k Hk N1 N2. rewrite Gd by exact Hk.
    destruct (Z.eqb_spec k j); [lia|]. destruct (Z.eqb_spec k i); [lia|]. reflexivity.
  - exists d. split; [reflexivity|]. split; [reflexivity|]. split; [intros; reflexivity|].
    split; [lia|left; split; reflexivity].
Qed.

Lemma median_of_three_ok : forall d m1 m0 m2,
  0 <= m1 < len d -> 0 <= m0 < len d -> 0 <= m2 < len d ->
  exists d', median_of_three d m1 m0 m2 = Ret d' /\ len d' = len d /\
    (forall k, 0 <= k -> k <> m0 -> k <> m1 -> k <> m2 -> get d' k = get d k) /\
    (m0 <> m1 -> m1 <> m2 -> m0 <> m2 -> get d' m0 <= get d' m1 <= get d' m2).
Proof.
  intros d m1 m0 m2 H1 H0 H2. unfold median_of_three.
  destruct (swap_if_less_ok2 d m1 m0 H1 H0) as [d1 [E1 [L1 [F1 [O1 _]]]]].
  rewrite E1. cbn [bind]. rewrite (rd_ok d1 m2) by lia. rewrite (rd_ok d1 m1) by lia. cbn [bind].
  destruct (Z.ltb_spec (get d1 m2) (get d1 m1)) as [L|G].
  - destruct (swap_ok d1 m2 m1) as [d2 [E2 [L2 G2]]]; [lia|lia|].
    rewrite E2. cbn [bind].
    destruct (swap_if_less_ok2 d2 m1 m0) as [d3 [E3 [L3 [F3 [O3 V3]]]]]; [lia|lia|].
    exists d3. split; [exact E3|]. split; [lia|]. split.
    + intros k Hk N0 N1 N2. rewrite F3 by assumption. rewrite G2 by exact Hk.
      destruct (Z.eqb_spec k m1); [lia|]. destruct (Z.eqb_spec k m2); [lia|]. apply F1; assumption.
    + intros D01 D12 D02. split; [exact O3|].
      assert (A2 : get d3 m2 = get d1 m1).
      { rewrite F3 by lia. rewrite G2 by lia.
        destruct (Z.eqb_spec m2 m1); [lia|]. destruct (Z.eqb_spec m2 m2); [reflexivity|lia]. }
      assert (A1 : get d2 m1 = get d1 m2).
      { rewrite G2 by lia. destruct (Z.eqb_spec m1 m1); [reflexivity|lia]. }
      assert (A0 : get d2 m0 = get d1 m0).
      { rewrite G2 by lia. destruct (Z.eqb_spec m0 m1); [lia|]. destruct (Z.eqb_spec m0 m2); [lia|]. reflexivity. }
      destruct V3 as [[V _]|[V _]]; lia.
  - exists d1. split; [reflexivity|]. split; [exact L1|]. split.
    + intros k Hk N0 N1 N2. apply F1; assumption.
    + intros D01 D12 D02. lia.
Qed.

(* ---------------------------------------------------------------- doPivot in stages *)
Definition ninther (d0 : list Z) (lo hi : Z) : res (list Z) :=
  let m := (lo + hi) / 2 in
  if hi - lo >? 40 then
    let s := Z.quot (hi - lo) 8 in
    do e1 <- median_of_three d0 lo (lo + s) (lo + 2 * s);
    do e2 <- median_of_three e1 m (m - s) (m + s);
    median_of_three e2 (hi - 1) (hi - 1 - s) (hi - 1 - 2 * s)
  else Ret d0.

Definition dups_block (lo hi m : Z) (d3 : list Z) (b c : Z) : res (list Z * Z * Z * bool) :=
  let pivot := lo in
  do x <- rd d3 (hi - 1); do p <- rd d3 pivot;
  do (dc, dups1) <- (if negb (p <? x)
                     then do e <- swap d3 c (hi - 1); Ret (e, c + 1, 1)
                     else Ret (d3, c, 0));
  let '(d4, c1) := dc in
  do p1 <- rd d4 pivot; do y <- rd d4 (b - 1);
  let '(b1, dups2) := if negb (y <? p1) then (b - 1, dups1 + 1) else (b, dups1) in
  do p2 <- rd d4 pivot; do z <- rd d4 m;
  do (db, dups3) <- (if negb (z <? p2)
                     then do e <- swap d4 m (b1 - 1); Ret (e, b1 - 1, dups2 + 1)
                     else Ret (d4, b1, dups2));
  let '(d5, b2) := db in
  Ret (d5, b2, c1, dups3 >? 1).

Definition stage4 (lo hi m : Z) (d3 : list Z) (b c : Z) : res (list Z * Z * Z * bool) :=
  let protect0 := hi - c <? 5 in
  if negb protect0 && (hi - c <? Z.quot (hi - lo) 4) then dups_block lo hi m d3 b c
  else Ret (d3, b, c, protect0).

Definition stage5 (lo hi a : Z) (r : list Z * Z * Z * bool) : res (list Z * Z * Z) :=
  let '(st2, protect) := r in
  let '(d6, b3, c2) := st2 in
  do (st3, b4) <-
    (if (protect : bool) then
       do (st4, b5) <- protect_loop (Z.to_nat (hi - lo)) d6 lo a b3;
       let '(d7, _) := st4 in Ret (d7, b5)
     else Ret (d6, b3));
  do d9 <- swap st3 lo (b4 - 1);
  Ret (d9, b4 - 1, c2).

Lemma do_pivot_eq : forall d0 lo hi, do_pivot d0 lo hi =
  let m := (lo + hi) / 2 in
  do d1 <- ninther d0 lo hi;
  do d2 <- median_of_three d1 lo m (hi - 1);
  do a <- scan_lt (Z.to_nat (hi - lo)) d2 lo (lo + 1) (hi - 1);
  do (st, c) <- part_loop (Z.to_nat (hi - lo)) d2 lo a (hi - 1);
  let '(d3, b) := st in
  do r <- stage4 lo hi m d3 b c;
  stage5 lo hi a r.
Proof. reflexivity. Qed.

Lemma ninther_ok : forall d lo hi, 0 <= lo -> hi <= len d -> hi - lo > 12 ->
  exists d1, ninther d lo hi = Ret d1 /\ len d1 = len d /\ same_out d d1 lo hi.
Proof.
  intros d lo hi Hlo Hhi Hsz. unfold ninther. cbv zeta.
  destruct (Z.gtb_spec (hi - lo) 40) as [G|G].
  2:{ exists d. split; [reflexivity|]. split; [reflexivity|]. intros k _ _; reflexivity. }
  rewrite Z.quot_div_nonneg by lia.
  pose proof (Z.div_mod (hi - lo) 8 ltac:(lia)) as Hs. pose proof (Z.mod_pos_bound (hi - lo) 8 ltac:(lia)) as Hs'.
  pose proof (Z.div_mod (lo + hi) 2 ltac:(lia)) as Hm. pose proof (Z.mod_pos_bound (lo + hi) 2 ltac:(lia)) as Hm'.
  set (s := (hi - lo) / 8) in *. set (m := (lo + hi) / 2) in *.
  destruct (median_of_three_ok d lo (lo + s) (lo + 2 * s)) as [e1 [E1 [L1 [F1 _]]]]; try lia.
  rewrite E1. cbn [bind].
  destruct (median_of_three_ok e1 m (m - s) (m + s)) as [e2 [E2 [L2 [F2 _]]]]; try lia.
  rewrite E2. cbn [bind].
  destruct (median_of_three_ok e2 (hi - 1) (hi - 1 - s) (hi - 1 - 2 * s)) as [e3 [E3 [L3 [F3 _]]]]; try lia.
  exists e3. split; [exact E3|]. split; [lia|].
  intros k Hk Ho. rewrite F3 by lia. rewrite F2 by lia. apply F1; lia.
Qed.

(* the state after the partition loop and after the optional "duplicates" block:
   cells lo+1..a-1 < pv, a..b-1 <= pv, b..c-1 = pv, c..hi-1 >= pv, data[lo] = pv *)
Definition pstate (d : list Z) (lo hi a b c pv : Z) : Prop :=
  lo + 1 <= a /\ a <= b /\ b <= c /\ c <= hi /\ get d lo = pv /\
  (forall k, lo + 1 <= k < a -> get d k < pv) /\
  (forall k, a <= k < b -> get d k <= pv) /\
  (forall k, b <= k < c -> get d k = pv) /\
  (forall k, c <= k < hi -> pv <= get d k).

Lemma dups_block_ok : forall lo hi m d3 a c pv,
  0 <= lo -> hi <= len d3 -> 2 * m <= lo + hi < 2 * m + 2 ->
  5 <= hi - c -> hi - c < (hi - lo) / 4 -> c <= hi - 1 ->
  pstate d3 lo hi a c c pv ->
  exists d6 b3 c2 protect, dups_block lo hi m d3 c c = Ret (d6, b3, c2, protect) /\
    len d6 = len d3 /\ same_out d3 d6 lo hi /\ pstate d6 lo hi a b3 c2 pv.
Proof.
  intros lo hi m d3 a c pv Hlo Hhi Hm H5 Hq Hc1 [Pa [Pab [_ [_ [Plo [Plt [Ple [_ Pge]]]]]]]].
  pose proof (Z.div_mod (hi - lo) 4 ltac:(lia)) as Hq4. pose proof (Z.mod_pos_bound (hi - lo) 4 ltac:(lia)) as Hq4'.
  set (q := (hi - lo) / 4) in *.
  unfold dups_block. cbv zeta. rewrite (rd_ok d3 (hi - 1)) by lia. rewrite (rd_ok d3 lo) by lia. cbn [bind].
  rewrite Plo.
  (* step A: an element equal to the pivot at the right end moves next to the middle *)
  assert (HA : exists d4 c1 dups1,
    (if negb (pv <? get d3 (hi - 1)) then do e <- swap d3 c (hi - 1); Ret (e, c + 1, 1) else Ret (d3, c, 0))
    = Ret (d4, c1, dups1) /\ len d4 = len d3 /\ c <= c1 <= c + 1 /\
    (forall k, 0 <= k -> k < c \/ hi <= k -> get d4 k = get d3 k) /\
    (forall k, c <= k < c1 -> get d4 k = pv) /\ (forall k, c1 <= k < hi -> pv <= get d4 k)).
  { destruct (Z.ltb_spec pv (get d3 (hi - 1))) as [L|G]; cbn [negb].
    - exists d3, c, 0. split; [reflexivity|]. split; [reflexivity|]. split; [lia|].
      split; [intros; reflexivity|]. split; [intros; lia|exact Pge].
    - assert (Ehi : get d3 (hi - 1) = pv) by (specialize (Pge (hi - 1) ltac:(lia)); lia).
      destruct (swap_ok d3 c (hi - 1)) as [e [Ee [Le Ge]]]; [lia|lia|].
      rewrite Ee. cbn [bind]. exists e, (c + 1), 1. split; [reflexivity|]. split; [exact Le|]. split; [lia|].
      split; [|split].
      + intros k Hk Ho. rewrite Ge by exact Hk.
        destruct (Z.eqb_spec k (hi - 1)); [lia|]. destruct (Z.eqb_spec k c); [lia|]. reflexivity.
      + intros k Hk. assert (k = c) by lia. subst k. rewrite Ge by lia.
        destruct (Z.eqb_spec c (hi - 1)); [lia|]. destruct (Z.eqb_spec c c); [exact Ehi|lia].
      + intros k Hk. rewrite Ge by lia.
        destruct (Z.eqb_spec k (hi - 1)); [apply Pge; lia|]. destruct (Z.eqb_spec k c); [lia|]. apply Pge; lia. }
  destruct HA as [d4 [c1 [dups1 [EA [L4 [Bc1 [F4 [Eq4 Ge4]]]]]]]]. rewrite EA. cbn [bind].
  rewrite (rd_ok d4 lo) by lia. rewrite (rd_ok d4 (c - 1)) by lia. cbn [bind].
  rewrite (F4 lo) by lia. rewrite (F4 (c - 1)) by lia. rewrite Plo.
  (* step B: the last cell of the left part *)
  assert (HB : exists b1 dups2,
    (if negb (get d3 (c - 1) <? pv) then (c - 1, dups1 + 1) else (c, dups1)) = (b1, dups2) /\
    a <= b1 <= c /\ c - 1 <= b1 /\ (forall k, b1 <= k < c -> get d3 k = pv)).
  { destruct (Z.ltb_spec (get d3 (c - 1)) pv) as [L|G]; cbn [negb].
    - exists c, dups1. split; [reflexivity|]. split; [lia|]. split; [lia|]. intros; lia.
    - assert (a <= c - 1).
      { destruct (Z_lt_le_dec (c - 1) a) as [Lt|]; [|assumption]. exfalso.
        destruct (Z.eq_dec (c - 1) lo) as [El|Nl]; [lia|].
        specialize (Plt (c - 1) ltac:(lia)). lia. }
      exists (c - 1), (dups1 + 1). split; [reflexivity|]. split; [lia|]. split; [lia|].
      intros k Hk. assert (k = c - 1) by lia. subst k. specialize (Ple (c - 1) ltac:(lia)). lia. }
  destruct HB as [b1 [dups2 [EB [Bb1 [Bb1' Eq3]]]]]. rewrite EB. cbv beta iota.
  rewrite (rd_ok d4 m) by lia. cbn [bind]. rewrite (F4 m) by lia.
  (* step C: the middle cell *)
  destruct (Z.ltb_spec (get d3 m) pv) as [L|G]; cbn [negb bind].
  - exists d4, b1, c1, (dups2 >? 1). split; [reflexivity|]. split; [exact L4|]. split.
    + intros k Hk Ho. apply F4; lia.
    + unfold pstate. split; [lia|]. split; [lia|]. split; [lia|]. split; [lia|].
      split; [rewrite F4 by lia; exact Plo|].
      split; [intros k Hk; rewrite F4 by lia; apply Plt; lia|].
      split; [intros k Hk; rewrite F4 by lia; apply Ple; lia|].
      split; [|exact Ge4].
      intros k Hk. destruct (Z_lt_le_dec k c); [rewrite F4 by lia; apply Eq3; lia|apply Eq4; lia].
  - assert (Hma : a <= m).
    { destruct (Z_lt_le_dec m a) as [Lt|]; [|assumption]. exfalso. specialize (Plt m ltac:(lia)). lia. }
    assert (Hmb : m <= b1 - 1) by lia.
    assert (Em : get d3 m = pv) by (specialize (Ple m ltac:(lia)); lia).
    destruct (swap_ok d4 m (b1 - 1)) as [e [Ee [Le Ge]]]; [lia|lia|].
    rewrite Ee. cbn [bind].
    exists e, (b1 - 1), c1, (dups2 + 1 >? 1). split; [reflexivity|]. split; [lia|]. split.
    + intros k Hk Ho. rewrite Ge by exact Hk.
      destruct (Z.eqb_spec k (b1 - 1)); [lia|]. destruct (Z.eqb_spec k m); [lia|]. apply F4; lia.
    + assert (Gk : forall k, 0 <= k -> k <> m -> k <> b1 - 1 -> get e k = get d4 k).
      { intros k Hk N1 N2. rewrite Ge by exact Hk.
        destruct (Z.eqb_spec k (b1 - 1)); [lia|]. destruct (Z.eqb_spec k m); [lia|]. reflexivity. }
      assert (Gb : get e (b1 - 1) = pv).
      { rewrite Ge by lia. destruct (Z.eqb_spec (b1 - 1) (b1 - 1)); [|lia]. rewrite F4 by lia. exact Em. }
      assert (Gm : get e m <= pv).
      { destruct (Z.eq_dec m (b1 - 1)) as [->|N]; [lia|]. rewrite Ge by lia.
        destruct (Z.eqb_spec m (b1 - 1)); [lia|]. destruct (Z.eqb_spec m m); [|lia].
        rewrite F4 by lia. apply Ple. lia. }
      unfold pstate. split; [lia|]. split; [lia|]. split; [lia|]. split; [lia|].
      split; [rewrite Gk by lia; rewrite F4 by lia; exact Plo|].
      split; [intros k Hk; rewrite Gk by lia; rewrite F4 by lia; apply Plt; lia|].
      split; [|split].
      * intros k Hk. destruct (Z.eq_dec k m) as [->|N]; [exact Gm|].
        rewrite Gk by lia. rewrite F4 by lia. apply Ple. lia.
      * intros k Hk. destruct (Z.eq_dec k (b1 - 1)) as [->|N]; [exact Gb|].
        rewrite Gk by lia.
        destruct (Z_lt_le_dec k c); [rewrite F4 by lia; apply Eq3; lia|apply Eq4; lia].
      * intros k Hk. rewrite Gk by lia. apply Ge4. lia.
Qed.

Lemma stage4_ok : forall lo hi m d3 a c pv,
  0 <= lo -> hi <= len d3 -> hi - lo > 12 -> 2 * m <= lo + hi < 2 * m + 2 -> c <= hi - 1 ->
  pstate d3 lo hi a c c pv ->
  exists d6 b3 c2 protect, stage4 lo hi m d3 c c = Ret (d6, b3, c2, protect) /\
    len d6 = len d3 /\ same_out d3 d6 lo hi /\ pstate d6 lo hi a b3 c2 pv.
Proof.
  intros lo hi m d3 a c pv Hlo Hhi Hsz Hm Hc1 P. unfold stage4. cbv zeta.
  destruct (Z.ltb_spec (hi - c) 5) as [L5|G5]; cbn [negb andb].
  - exists d3, c, c, true. split; [reflexivity|]. split; [reflexivity|]. split; [intros k _ _; reflexivity|exact P].
  - rewrite Z.quot_div_nonneg by lia.
    destruct (Z.ltb_spec (hi - c) ((hi - lo) / 4)) as [Lq|Gq].
    + apply dups_block_ok; assumption || lia.
    + exists d3, c, c, false. split; [reflexivity|]. split; [reflexivity|]. split; [intros k _ _; reflexivity|exact P].
Qed.

Lemma stage5_ok : forall lo hi a d6 b3 c2 protect pv,
  0 <= lo -> hi <= len d6 -> pstate d6 lo hi a b3 c2 pv ->
  exists d9 mlo, stage5 lo hi a (d6, b3, c2, protect) = Ret (d9, mlo, c2) /\
    len d9 = len d6 /\ same_out d6 d9 lo hi /\ lo <= mlo < c2 /\ c2 <= hi /\
    (forall k, lo <= k < mlo -> get d9 k <= pv) /\
    (forall k, mlo <= k < c2 -> get d9 k = pv) /\
    (forall k, c2 <= k < hi -> pv <= get d9 k).
Proof.
  intros lo hi a d6 b3 c2 protect pv Hlo Hhi [Pa [Pab [Pbc [Pc [Plo [Plt [Ple [Peq Pge]]]]]]]].
  unfold stage5. cbv beta iota.
  (* the optional protect loop *)
  assert (H5 : exists d8 b4,
    (if protect then
       do (st4, b5) <- protect_loop (Z.to_nat (hi - lo)) d6 lo a b3;
       let '(d7, _) := st4 in Ret (d7, b5)
     else Ret (d6, b3)) = Ret (d8, b4) /\ len d8 = len d6 /\ same_out d6 d8 lo hi /\
    pstate d8 lo hi a b4 c2 pv).
  { destruct protect.
    - destruct (protect_loop_ok (Z.to_nat (hi - lo)) d6 lo a b3) as [d7 [mm [E7 [L7 [B7 [O7 [P7 [Q7 R7]]]]]]]]; try lia.
      rewrite E7. cbn [bind]. exists d7, mm. split; [reflexivity|]. split; [exact L7|]. split.
      + intros k Hk Ho. apply O7; lia.
      + rewrite Plo in P7, Q7. unfold pstate. split; [lia|]. split; [lia|]. split; [lia|]. split; [lia|].
        split; [rewrite O7 by lia; exact Plo|].
        split; [intros k Hk; rewrite O7 by lia; apply Plt; lia|].
        split; [intros k Hk; specialize (P7 k Hk); lia|].
        split.
        * intros k Hk. destruct (Z_lt_le_dec k b3) as [Lk|Gk].
          -- specialize (Q7 k ltac:(lia)). specialize (R7 pv Ple k ltac:(lia)). lia.
          -- rewrite O7 by lia. apply Peq. lia.
        * intros k Hk. rewrite O7 by lia. apply Pge. lia.
    - exists d6, b3. split; [reflexivity|]. split; [reflexivity|]. split; [intros k _ _; reflexivity|].
      unfold pstate. tauto. }
  destruct H5 as [d8 [b4 [E5 [L8 [O8 [Qa [Qab [Qbc [Qc [Qlo [Qlt [Qle [Qeq Qge]]]]]]]]]]]]].
  rewrite E5. cbn [bind].
  destruct (swap_ok d8 lo (b4 - 1)) as [d9 [E9 [L9 G9]]]; [lia|lia|].
  rewrite E9. cbn [bind]. exists d9, (b4 - 1). split; [reflexivity|]. split; [lia|]. split.
  - intros k Hk Ho. rewrite G9 by exact Hk.
    destruct (Z.eqb_spec k (b4 - 1)); [lia|]. destruct (Z.eqb_spec k lo); [lia|]. apply O8; assumption.
  - split; [lia|]. split; [lia|].
    assert (Hb : get d8 (b4 - 1) <= pv).
    { destruct (Z.eq_dec (b4 - 1) lo) as [->|N]; [lia|].
      destruct (Z_lt_le_dec (b4 - 1) a); [specialize (Qlt (b4 - 1) ltac:(lia)); lia|apply Qle; lia]. }
    split; [|split].
    + intros k Hk. rewrite G9 by lia. destruct (Z.eqb_spec k (b4 - 1)); [lia|].
      destruct (Z.eqb_spec k lo); [exact Hb|].
      destruct (Z_lt_le_dec k a); [specialize (Qlt k ltac:(lia)); lia|apply Qle; lia].
    + intros k Hk. rewrite G9 by lia. destruct (Z.eqb_spec k (b4 - 1)); [exact Qlo|].
      destruct (Z.eqb_spec k lo); [lia|]. apply Qeq. lia.
    + intros k Hk. rewrite G9 by lia. destruct (Z.eqb_spec k (b4 - 1)); [lia|].
      destruct (Z.eqb_spec k lo); [lia|]. apply Qge. lia.
Qed.

Theorem do_pivot_ok : forall d lo hi, 0 <= lo -> hi <= len d -> hi - lo > 12 ->
  exists d' mlo mhi pv, do_pivot d lo hi = Ret (d', mlo, mhi) /\
    len d' = len d /\ same_out d d' lo hi /\ lo <= mlo < mhi /\ mhi <= hi /\
    (forall k, lo <= k < mlo -> get d' k <= pv) /\
    (forall k, mlo <= k < mhi -> get d' k = pv) /\
    (forall k, mhi <= k < hi -> pv <= get d' k).
Proof.
  intros d lo hi Hlo Hhi Hsz. rewrite do_pivot_eq. cbv zeta.
  pose proof (Z.div_mod (lo + hi) 2 ltac:(lia)) as Hm. pose proof (Z.mod_pos_bound (lo + hi) 2 ltac:(lia)) as Hm'.
  set (m := (lo + hi) / 2) in *.
  destruct (ninther_ok d lo hi Hlo Hhi Hsz) as [d1 [E1 [L1 O1]]]. rewrite E1. cbn [bind].
  destruct (median_of_three_ok d1 lo m (hi - 1)) as [d2 [E2 [L2 [F2 S2]]]]; try lia.
  rewrite E2. cbn [bind]. specialize (S2 ltac:(lia) ltac:(lia) ltac:(lia)).
  set (pv := get d2 lo) in *.
  destruct (scan_lt_ok (Z.to_nat (hi - lo)) d2 lo (lo + 1) (hi - 1)) as [a [Ea [Ba [Pa _]]]]; try lia.
  rewrite Ea. cbn [bind].
  destruct (part_loop_ok (Z.to_nat (hi - lo)) d2 lo a (hi - 1)) as [d3 [c [E3 [L3 [Bc [O3 [P3 Q3]]]]]]]; try lia.
  rewrite E3. cbn [bind]. fold pv in Pa, P3, Q3.
  assert (PS : pstate d3 lo hi a c c pv).
  { unfold pstate. split; [lia|]. split; [lia|]. split; [lia|]. split; [lia|].
    split; [rewrite O3 by lia; reflexivity|].
    split; [intros k Hk; rewrite O3 by lia; apply Pa; lia|].
    split; [exact P3|]. split; [intros; lia|].
    intros k Hk. destruct (Z.eq_dec k (hi - 1)) as [->|N].
    - rewrite O3 by lia. lia.
    - specialize (Q3 k ltac:(lia)). lia. }
  destruct (stage4_ok lo hi m d3 a c pv) as [d6 [b3 [c2 [protect [E4 [L4 [O4 PS4]]]]]]]; try lia; [exact PS|].
  rewrite E4. cbn [bind].
  destruct (stage5_ok lo hi a d6 b3 c2 protect pv) as [d9 [mlo [E5 [L5 [O5 [B5 [C5 [R1 [R2 R3]]]]]]]]]; try lia; [exact PS4|].
  rewrite E5. exists d9, mlo, c2, pv. split; [reflexivity|]. split; [lia|]. split.
  - intros k Hk Ho. rewrite O5 by assumption. rewrite O4 by assumption.
    rewrite O3 by lia. rewrite F2 by lia. apply O1; assumption.
  - split; [lia|]. split; [lia|]. split; [exact R1|]. split; [exact R2|exact R3].
Qed.
