(* ints.Sort only permutes: every write of the model goes through [swap].

   swap_perm      swap d i j = Ret d' -> Permutation d d'
   ..._perm       the same for insertionSort, siftDown, heapSort, medianOfThree, the partition and
                  "protect" loops, doPivot, the gap-6 pass, quickSort (any fuel, any depth)
   sort_perm      sort d = Ret d' -> Permutation d d' *)
From Coq Require Import List ZArith Lia Bool Sorting.Permutation.
From Mamba Require Import Sortints.Base IntSort.Model.
Import ListNotations.
Open Scope Z_scope.

Lemma bind_ret : forall (A B : Type) (m : res A) (f : A -> res B) r,
  bind m f = Ret r -> exists a, m = Ret a /\ f a = Ret r.
Proof. intros A B [a| |] f r H; try discriminate. exists a. split; [reflexivity|exact H]. Qed.

Lemma upd_move_perm : forall (d : list Z) j a, (j < length d)%nat ->
  Permutation (a :: d) (nth j d 0 :: upd d j a).
Proof.
  induction d as [|b d IH]; intros [|j] a H; simpl in *; try (exfalso; lia).
  - apply perm_swap.
  - eapply Permutation_trans; [apply perm_swap|].
    eapply Permutation_trans; [apply perm_skip; apply (IH j a); lia|]. apply perm_swap.
Qed.

Lemma upd_swap_perm : forall (d : list Z) i j, (i < length d)%nat -> (j < length d)%nat ->
  Permutation d (upd (upd d i (nth j d 0)) j (nth i d 0)).
Proof.
  induction d as [|a d IH]; intros [|i] [|j] Hi Hj; simpl in *; try (exfalso; lia).
  - apply Permutation_refl.
  - apply upd_move_perm. lia.
  - apply upd_move_perm. lia.
  - apply perm_skip. apply IH; lia.
Qed.

Lemma rd_inv : forall d i x, rd d i = Ret x ->
  0 <= i < len d /\ x = nth (Z.to_nat i) d 0.
Proof.
  intros d i x H. unfold rd in H.
  destruct (Z.leb_spec 0 i); [|discriminate]. destruct (Z.ltb_spec i (len d)); [|discriminate].
  cbn [andb] in H. inversion H. split; [lia|reflexivity].
Qed.

Lemma wr_inv : forall d i v d', wr d i v = Ret d' -> 0 <= i < len d /\ d' = upd d (Z.to_nat i) v.
Proof.
  intros d i v d' H. unfold wr in H.
  destruct (Z.leb_spec 0 i); [|discriminate]. destruct (Z.ltb_spec i (len d)); [|discriminate].
  cbn [andb] in H. inversion H. split; [lia|reflexivity].
Qed.

Lemma swap_perm : forall d i j d', swap d i j = Ret d' -> Permutation d d'.
Proof.
  intros d i j d' H. unfold swap in H.
  apply bind_ret in H. destruct H as [x [Ex H]]. apply bind_ret in H. destruct H as [y [Ey H]].
  apply bind_ret in H. destruct H as [d1 [E1 H]].
  apply rd_inv in Ex. apply rd_inv in Ey. apply wr_inv in E1. apply wr_inv in H.
  destruct Ex as [Bi ->]. destruct Ey as [Bj ->]. destruct E1 as [_ ->]. destruct H as [_ ->].
  unfold len in *. apply upd_swap_perm; lia.
Qed.

(* destructs the binds, conditionals and pattern-lets of a hypothesis [... = Ret _] *)
Ltac inv_ret :=
  repeat match goal with
  | H : Ret _ = Ret _ |- _ => inversion H; subst; clear H
  | H : Panic = Ret _ |- _ => discriminate H
  | H : OutOfFuel = Ret _ |- _ => discriminate H
  | H : bind ?m _ = Ret _ |- _ =>
      let E := fresh "E" in destruct m eqn:E; cbn [bind] in H; try discriminate H
  | H : (if ?c then _ else _) = Ret _ |- _ => destruct c eqn:?
  | H : (let '(_, _) := ?p in _) = Ret _ |- _ => destruct p
  end.

Ltac fwd lem := repeat match goal with E : _ = Ret _ |- _ => apply lem in E end.

Ltac chain :=
  repeat (eapply Permutation_trans; [eassumption|]); try apply Permutation_refl; try eassumption.

Lemma swap_if_less_perm : forall d i j d', swap_if_less d i j = Ret d' -> Permutation d d'.
Proof. intros d i j d' H. unfold swap_if_less in H. inv_ret; fwd swap_perm; chain. Qed.

Lemma median_of_three_perm : forall d a b c d', median_of_three d a b c = Ret d' -> Permutation d d'.
Proof.
  intros d a b c d' H. unfold median_of_three in H. inv_ret; fwd swap_if_less_perm; fwd swap_perm; chain.
Qed.

Lemma ins_inner_perm : forall fuel d a j d', ins_inner fuel d a j = Ret d' -> Permutation d d'.
Proof.
  induction fuel as [|f IH]; intros d a j d' H; cbn [ins_inner] in H; inv_ret; try apply Permutation_refl.
  apply IH in H. fwd swap_perm. chain.
Qed.

Lemma ins_outer_perm : forall fuel d a b i d', ins_outer fuel d a b i = Ret d' -> Permutation d d'.
Proof.
  induction fuel as [|f IH]; intros d a b i d' H; cbn [ins_outer] in H; inv_ret; try apply Permutation_refl.
  apply IH in H. fwd ins_inner_perm. chain.
Qed.

Lemma insertion_sort_perm : forall d a b d', insertion_sort d a b = Ret d' -> Permutation d d'.
Proof. intros d a b d' H. unfold insertion_sort in H. apply ins_outer_perm in H. exact H. Qed.

Lemma sift_down_perm : forall fuel d root hi first d', sift_down fuel d root hi first = Ret d' -> Permutation d d'.
Proof.
  induction fuel as [|f IH]; intros d root hi first d' H; cbn [sift_down] in H; cbv zeta in H;
    inv_ret; try apply Permutation_refl; apply IH in H; fwd swap_perm; chain.
Qed.

Lemma heap_build_perm : forall fuel d i hi first d', heap_build fuel d i hi first = Ret d' -> Permutation d d'.
Proof.
  induction fuel as [|f IH]; intros d i hi first d' H; cbn [heap_build] in H; inv_ret; try apply Permutation_refl.
  apply IH in H. fwd sift_down_perm. chain.
Qed.

Lemma heap_pop_perm : forall fuel d i first d', heap_pop fuel d i first = Ret d' -> Permutation d d'.
Proof.
  induction fuel as [|f IH]; intros d i first d' H; cbn [heap_pop] in H; inv_ret; try apply Permutation_refl.
  apply IH in H. fwd sift_down_perm. fwd swap_perm. chain.
Qed.

Lemma heap_sort_perm : forall d a b d', heap_sort d a b = Ret d' -> Permutation d d'.
Proof.
  intros d a b d' H. unfold heap_sort in H. cbv zeta in H. inv_ret.
  fwd heap_build_perm. fwd heap_pop_perm. chain.
Qed.

Lemma part_loop_perm : forall fuel d pivot b c d' b' c',
  part_loop fuel d pivot b c = Ret (d', b', c') -> Permutation d d'.
Proof.
  induction fuel as [|f IH]; intros d pivot b c d' b' c' H; cbn [part_loop] in H; cbv zeta in H;
    inv_ret; try apply Permutation_refl.
  apply IH in H. fwd swap_perm. chain.
Qed.

Lemma protect_loop_perm : forall fuel d pivot a b d' a' b',
  protect_loop fuel d pivot a b = Ret (d', a', b') -> Permutation d d'.
Proof.
  induction fuel as [|f IH]; intros d pivot a b d' a' b' H; cbn [protect_loop] in H; cbv zeta in H;
    inv_ret; try apply Permutation_refl.
  apply IH in H. fwd swap_perm. chain.
Qed.

Lemma do_pivot_perm : forall d lo hi d' mlo mhi, do_pivot d lo hi = Ret (d', mlo, mhi) -> Permutation d d'.
Proof.
  intros d lo hi d' mlo mhi H. unfold do_pivot in H. cbv zeta in H.
  inv_ret; fwd median_of_three_perm; fwd part_loop_perm; fwd protect_loop_perm; fwd swap_perm; chain.
Qed.

(* the gap-6 pass of quickSort's final stage, named *)
Definition shell_loop (b : Z) : nat -> list Z -> Z -> res (list Z) :=
  fix shell (fuel : nat) (d : list Z) (i : Z) : res (list Z) :=
    if i <? b then
      match fuel with
      | O => OutOfFuel
      | S f => do d' <- swap_if_less d i (i - 6); shell f d' (i + 1)
      end
    else Ret d.

Lemma shell_loop_eq : forall b fuel d i, shell_loop b fuel d i =
  if i <? b then
    match fuel with
    | O => OutOfFuel
    | S f => do d' <- swap_if_less d i (i - 6); shell_loop b f d' (i + 1)
    end
  else Ret d.
Proof. intros b [|f] d i; reflexivity. Qed.

Lemma small_sort_eq : forall d a b, small_sort d a b =
  if b - a >? 1 then do d1 <- shell_loop b (Z.to_nat (b - a)) d (a + 6); insertion_sort d1 a b
  else Ret d.
Proof. reflexivity. Qed.

Lemma shell_loop_perm : forall b fuel d i d', shell_loop b fuel d i = Ret d' -> Permutation d d'.
Proof.
  intros b. induction fuel as [|f IH]; intros d i d' H; rewrite shell_loop_eq in H; inv_ret; try apply Permutation_refl.
  apply IH in H. fwd swap_if_less_perm. chain.
Qed.

Lemma small_sort_perm : forall d a b d', small_sort d a b = Ret d' -> Permutation d d'.
Proof.
  intros d a b d' H. rewrite small_sort_eq in H. inv_ret; try apply Permutation_refl.
  fwd shell_loop_perm. fwd insertion_sort_perm. chain.
Qed.

Lemma quick_sort_perm : forall fuel d a b depth d', quick_sort fuel d a b depth = Ret d' -> Permutation d d'.
Proof.
  induction fuel as [|f IH]; intros d a b depth d' H; cbn [quick_sort] in H.
  - inv_ret. apply small_sort_perm in H. exact H.
  - inv_ret; try (apply small_sort_perm in H; exact H); try (apply heap_sort_perm in H; exact H);
      apply IH in H; fwd IH; fwd do_pivot_perm; chain.
Qed.

Theorem sort_perm : forall d d', sort d = Ret d' -> Permutation d d'.
Proof. intros d d' H. unfold sort in H. cbv zeta in H. inv_ret. apply quick_sort_perm in H. exact H. Qed.
