(* quickSort and ints.Sort.

   quick_sort_ok   for 0 <= a <= b <= len d and fuel >= b - a (the model passes len d), every
                   depth: quickSort(data, a, b, depth) returns (no panic, no fuel exhaustion), the
                   cells a..b-1 are weakly increasing, everything else is unchanged
   sort_ok         sort d = Ret (isort d) for every d: ints.Sort orders any slice like sort.Ints *)
From Coq Require Import List ZArith Lia Bool Sorting.Permutation.
From Mamba Require Import Sortints.Base Sortints.Spec Sortints.Simple
  IntSort.Model IntSort.Perm IntSort.Sorted IntSort.Heap IntSort.Pivot.
Import ListNotations.
Open Scope Z_scope.

(* ---------------------------------------------------------------- the cells of a segment as a list *)
Definition mid (d : list Z) (a b : Z) : list Z :=
  firstn (Z.to_nat (b - a)) (skipn (Z.to_nat a) d).

Lemma nth_firstn_lt : forall (l : list Z) k n, (n < k)%nat -> nth n (firstn k l) 0 = nth n l 0.
Proof.
  induction l as [|h t IH]; intros [|k] [|n] H; simpl; try reflexivity; try lia. apply IH. lia.
Qed.

Lemma nth_skipn' : forall (l : list Z) k n, nth n (skipn k l) 0 = nth (k + n) l 0.
Proof.
  induction l as [|h t IH]; intros [|k] n; simpl; try reflexivity.
  - destruct n; reflexivity.
  - apply IH.
Qed.

Lemma get_of_nat : forall d n, get d (Z.of_nat n) = nth n d 0.
Proof. intros d n. unfold get. rewrite Nat2Z.id. reflexivity. Qed.

Lemma split3 : forall d a b, 0 <= a <= b -> b <= len d ->
  d = firstn (Z.to_nat a) d ++ mid d a b ++ skipn (Z.to_nat b) d.
Proof.
  intros d a b Hab Hb. rewrite <- (firstn_skipn (Z.to_nat a) d) at 1. f_equal.
  unfold mid. rewrite <- (firstn_skipn (Z.to_nat (b - a)) (skipn (Z.to_nat a) d)) at 1. f_equal.
  rewrite skipn_skipn'. f_equal. lia.
Qed.

Lemma same_out_ends : forall d d' a b, len d' = len d -> same_out d d' a b -> 0 <= a <= b -> b <= len d ->
  firstn (Z.to_nat a) d' = firstn (Z.to_nat a) d /\ skipn (Z.to_nat b) d' = skipn (Z.to_nat b) d.
Proof.
  intros d d' a b Hl Ho Hab Hb. unfold len in *. split.
  - apply (nth_ext _ _ 0 0).
    + rewrite !firstn_length. lia.
    + intros n Hn. rewrite firstn_length in Hn. rewrite !nth_firstn_lt by lia.
      rewrite <- !get_of_nat. apply Ho; lia.
  - apply (nth_ext _ _ 0 0).
    + rewrite !skipn_length. lia.
    + intros n Hn. rewrite !nth_skipn'. rewrite <- !get_of_nat. apply Ho; lia.
Qed.

Lemma seg_perm : forall d d' a b, Permutation d d' -> len d' = len d -> same_out d d' a b ->
  0 <= a <= b -> b <= len d -> Permutation (mid d a b) (mid d' a b).
Proof.
  intros d d' a b HP Hl Ho Hab Hb.
  destruct (same_out_ends d d' a b Hl Ho Hab Hb) as [E1 E2].
  pose proof (split3 d a b Hab Hb) as S1. pose proof (split3 d' a b Hab ltac:(lia)) as S2.
  rewrite E1, E2 in S2.
  assert (HP' : Permutation (firstn (Z.to_nat a) d ++ mid d a b ++ skipn (Z.to_nat b) d)
                            (firstn (Z.to_nat a) d ++ mid d' a b ++ skipn (Z.to_nat b) d)).
  { rewrite <- S1, <- S2. exact HP. }
  apply Permutation_app_inv_l in HP'. apply Permutation_app_inv_r in HP'. exact HP'.
Qed.

Lemma In_mid : forall d a b x, 0 <= a <= b -> b <= len d ->
  (In x (mid d a b) <-> exists k, a <= k < b /\ get d k = x).
Proof.
  intros d a b x Hab Hb. unfold len in Hb.
  assert (Hlen : length (mid d a b) = Z.to_nat (b - a)).
  { unfold mid. rewrite firstn_length, skipn_length. lia. }
  split.
  - intros Hin. destruct (In_nth _ _ 0 Hin) as [n [Hn En]]. rewrite Hlen in Hn.
    exists (a + Z.of_nat n). split; [lia|]. rewrite <- En. unfold mid, get.
    rewrite nth_firstn_lt by lia. rewrite nth_skipn'. f_equal. lia.
  - intros [k [Hk Ek]]. rewrite <- Ek.
    replace (get d k) with (nth (Z.to_nat (k - a)) (mid d a b) 0).
    + apply nth_In. rewrite Hlen. lia.
    + unfold mid, get. rewrite nth_firstn_lt by lia. rewrite nth_skipn'. f_equal. lia.
Qed.

(* every cell of the segment of d' holds the value of some cell of the segment of d *)
Lemma seg_from : forall d d' a b, Permutation d d' -> len d' = len d -> same_out d d' a b ->
  0 <= a <= b -> b <= len d ->
  forall k, a <= k < b -> exists k', a <= k' < b /\ get d' k = get d k'.
Proof.
  intros d d' a b HP Hl Ho Hab Hb k Hk.
  assert (Hin : In (get d' k) (mid d' a b)) by (apply In_mid; [lia|lia|exists k; split; [lia|reflexivity]]).
  apply (Permutation_in _ (Permutation_sym (seg_perm d d' a b HP Hl Ho Hab Hb))) in Hin.
  apply In_mid in Hin; [|lia|lia]. destruct Hin as [k' [Hk' E]]. exists k'. split; [exact Hk'|symmetry; exact E].
Qed.

(* ---------------------------------------------------------------- two sorts on disjoint segments *)
Lemma two_steps : forall d1 d2 d3 x1 y1 x2 y2,
  0 <= x1 <= y1 -> y1 <= len d1 -> 0 <= x2 <= y2 -> y2 <= len d1 -> y1 <= x2 \/ y2 <= x1 ->
  Permutation d1 d2 -> len d2 = len d1 -> same_out d1 d2 x1 y1 -> sorted_seg d2 x1 y1 ->
  Permutation d2 d3 -> len d3 = len d2 -> same_out d2 d3 x2 y2 -> sorted_seg d3 x2 y2 ->
  sorted_seg d3 x1 y1 /\
  (forall k, x1 <= k < y1 -> exists k', x1 <= k' < y1 /\ get d3 k = get d1 k') /\
  (forall k, x2 <= k < y2 -> exists k', x2 <= k' < y2 /\ get d3 k = get d1 k') /\
  (forall k, 0 <= k -> k < x1 \/ y1 <= k -> k < x2 \/ y2 <= k -> get d3 k = get d1 k).
Proof.
  intros d1 d2 d3 x1 y1 x2 y2 H1 L1 H2 L2 Dj P12 E12 O12 S12 P23 E23 O23 S23.
  split; [|split; [|split]].
  - intros p q Hp Hpq Hq. rewrite (O23 p), (O23 q) by lia. apply S12; lia.
  - intros k Hk. destruct (seg_from d1 d2 x1 y1 P12 E12 O12 H1 L1 k Hk) as [k' [Hk' E]].
    exists k'. split; [exact Hk'|]. rewrite (O23 k) by lia. exact E.
  - intros k Hk. destruct (seg_from d2 d3 x2 y2 P23 E23 O23 H2 ltac:(lia) k Hk) as [k' [Hk' E]].
    exists k'. split; [exact Hk'|]. rewrite E. apply O12; lia.
  - intros k Hk Ho1 Ho2. rewrite (O23 k) by lia. apply O12; lia.
Qed.

Lemma qs_combine : forall d1 d3 a mlo mhi b pv, a <= mlo < mhi -> mhi <= b ->
  (forall k, a <= k < mlo -> get d1 k <= pv) ->
  (forall k, mlo <= k < mhi -> get d1 k = pv) ->
  (forall k, mhi <= k < b -> pv <= get d1 k) ->
  sorted_seg d3 a mlo -> sorted_seg d3 mhi b ->
  (forall k, a <= k < mlo -> exists k', a <= k' < mlo /\ get d3 k = get d1 k') ->
  (forall k, mhi <= k < b -> exists k', mhi <= k' < b /\ get d3 k = get d1 k') ->
  (forall k, mlo <= k < mhi -> get d3 k = get d1 k) ->
  sorted_seg d3 a b.
Proof.
  intros d1 d3 a mlo mhi b pv Hm Hb PL PM PR SL SR FL FR FM.
  assert (VL : forall k, a <= k < mlo -> get d3 k <= pv).
  { intros k Hk. destruct (FL k Hk) as [k' [Hk' E]]. rewrite E. apply PL. exact Hk'. }
  assert (VM : forall k, mlo <= k < mhi -> get d3 k = pv).
  { intros k Hk. rewrite FM by exact Hk. apply PM. exact Hk. }
  assert (VR : forall k, mhi <= k < b -> pv <= get d3 k).
  { intros k Hk. destruct (FR k Hk) as [k' [Hk' E]]. rewrite E. apply PR. exact Hk'. }
  intros p q Hp Hpq Hq.
  destruct (Z_lt_le_dec q mlo) as [QL|QL]; [apply SL; lia|].
  destruct (Z_lt_le_dec p mhi) as [PR'|PR']; [|apply SR; lia].
  assert (get d3 p <= pv).
  { destruct (Z_lt_le_dec p mlo); [apply VL; lia|]. rewrite VM by lia. lia. }
  assert (pv <= get d3 q).
  { destruct (Z_lt_le_dec q mhi); [rewrite VM by lia; lia|apply VR; lia]. }
  lia.
Qed.

(* ---------------------------------------------------------------- quickSort *)
Lemma quick_sort_eq : forall fuel d a b depth, quick_sort fuel d a b depth =
  if b - a >? 12 then
    match fuel with
    | O => OutOfFuel
    | S f =>
      if depth =? 0 then heap_sort d a b
      else
        do (st, mhi) <- do_pivot d a b;
        let '(d1, mlo) := st in
        if mlo - a <? b - mhi then
          do d2 <- quick_sort f d1 a mlo (depth - 1);
          quick_sort f d2 mhi b (depth - 1)
        else
          do d2 <- quick_sort f d1 mhi b (depth - 1);
          quick_sort f d2 a mlo (depth - 1)
    end
  else small_sort d a b.
Proof. intros [|f] d a b depth; reflexivity. Qed.

Theorem quick_sort_ok : forall fuel d a b depth,
  0 <= a <= b -> b <= len d -> (Z.to_nat (b - a) <= fuel)%nat ->
  exists d', quick_sort fuel d a b depth = Ret d' /\ len d' = len d /\
             sorted_seg d' a b /\ same_out d d' a b.
Proof.
  induction fuel as [|f IH]; intros d a b depth Hab Hb Hf; rewrite quick_sort_eq.
  - destruct (Z.gtb_spec (b - a) 12); [lia|]. apply small_sort_ok; assumption.
  - destruct (Z.gtb_spec (b - a) 12) as [G|G]; [|apply small_sort_ok; assumption].
    destruct (Z.eqb_spec depth 0); [apply heap_sort_ok; assumption|].
    destruct (do_pivot_ok d a b ltac:(lia) Hb ltac:(lia)) as [d1 [mlo [mhi [pv [E1 [L1 [O1 [B1 [B2 [PL [PM PR]]]]]]]]]]].
    rewrite E1. cbn [bind]. pose proof (do_pivot_perm _ _ _ _ _ _ E1) as P1.
    destruct (Z.ltb_spec (mlo - a) (b - mhi)) as [Lt|Ge].
    + destruct (IH d1 a mlo (depth - 1)) as [d2 [E2 [L2 [S2 O2]]]]; try lia.
      rewrite E2. cbn [bind]. pose proof (quick_sort_perm _ _ _ _ _ _ E2) as P2.
      destruct (IH d2 mhi b (depth - 1)) as [d3 [E3 [L3 [S3 O3]]]]; try lia.
      pose proof (quick_sort_perm _ _ _ _ _ _ E3) as P3.
      destruct (two_steps d1 d2 d3 a mlo mhi b) as [T1 [T2 [T3 T4]]]; try assumption; try lia.
      exists d3. split; [exact E3|]. split; [lia|]. split.
      * apply (qs_combine d1 d3 a mlo mhi b pv); try assumption; try lia.
        intros k Hk. apply T4; lia.
      * intros k Hk Ho. rewrite T4 by lia. apply O1; assumption.
    + destruct (IH d1 mhi b (depth - 1)) as [d2 [E2 [L2 [S2 O2]]]]; try lia.
      rewrite E2. cbn [bind]. pose proof (quick_sort_perm _ _ _ _ _ _ E2) as P2.
      destruct (IH d2 a mlo (depth - 1)) as [d3 [E3 [L3 [S3 O3]]]]; try lia.
      pose proof (quick_sort_perm _ _ _ _ _ _ E3) as P3.
      destruct (two_steps d1 d2 d3 mhi b a mlo) as [T1 [T2 [T3 T4]]]; try assumption; try lia.
      exists d3. split; [exact E3|]. split; [lia|]. split.
      * apply (qs_combine d1 d3 a mlo mhi b pv); try assumption; try lia.
        intros k Hk. apply T4; lia.
      * intros k Hk Ho. rewrite T4 by lia. apply O1; assumption.
Qed.

(* ---------------------------------------------------------------- ints.Sort *)
Theorem sort_ok : forall d, sort d = Ret (isort d).
Proof.
  intros d. unfold sort. cbv zeta.
  destruct (max_depth_loop_ok (length d) (len d) 0) as [md E]; [unfold len; lia|].
  rewrite E. cbn [bind].
  destruct (quick_sort_ok (length d) d 0 (len d) md) as [d' [E' [L' [S' _]]]]; try (unfold len; lia).
  rewrite E'. f_equal. rewrite <- L' in S'.
  apply Inc_perm_unique; [apply sorted_seg_Inc; exact S'|apply isort_Inc|].
  eapply Permutation_trans; [apply Permutation_sym; eapply quick_sort_perm; exact E'|apply isort_perm].
Qed.
