(* Canon/SearchNoPanic3.v — under the invariant of the search (Canon/SearchInvP.v) and the bound on the number of
   generators, every primitive step of the main loop returns: the model of CanonicalIsomorphAllocated never
   returns Panic. *)
From Coq Require Import List Arith Bool ZArith Lia Permutation Sorted.
From Mamba Require Import Canon.Perm Canon.Iso Canon.Model Canon.Refine Canon.Sorted Canon.Tree Canon.Fuel
  Disjoint.Model Disjoint.Proofs Canon.SearchModel Canon.SearchHoare Canon.SearchCells Canon.SearchTarget
  Canon.SearchDeage Canon.SearchRefine Canon.SearchExec Canon.SearchValue Canon.SearchExpand Canon.SearchCert
  Canon.SearchOrder Canon.SearchEquiv Canon.SearchWalk Canon.SearchEquit Canon.SearchCut Canon.SearchSibling
  Canon.SearchLink Canon.SearchInvT Canon.SearchVCT Canon.SearchInvV Canon.SearchVCV Canon.SearchPrune
  Canon.SearchGroup Canon.SearchCutW Canon.SearchInvP Canon.SearchVCP1 Canon.SearchVCP2 Canon.SearchVCP3
  Canon.SearchVCP4 Canon.SearchRoots Canon.SearchNoPanic1 Canon.SearchNoPanic2.
Import ListNotations.
Open Scope nat_scope.

Lemma nroots_new : forall n, nroots (new n) = n.
Proof.
  intros n. unfold nroots, new. rewrite repeat_length. rewrite filter_all; [apply seq_length|].
  intros i Hi. apply in_seq in Hi. unfold isroot. fold (new n). rewrite get_new by lia. reflexivity.
Qed.

Section NoPanic3.
Variable g : graph.
Variables n m : nat.
Variable clsf : nat -> nat.
Variable order0 : list nat.
Variable root : part.
Hypothesis Hg : simple g.
Hypothesis Hn : length g = n.
Hypothesis Hm : m = num_edges g.
Hypothesis Hm0 : 0 < m.
Hypothesis Hroot_eq : equitable g root.
Hypothesis Hroot_fl : forall c, In c root -> fst c = false.

Notation Xc := (Kc clsf order0).
Notation stack_ok := (stack_ok g n root Xc).
Notation cur_ok := (cur_ok n Xc).
Notation node_ok := (node_ok g n root Xc).
Notation PPstep := (PPstep g n m clsf order0 root).
Notation PPtop := (PPtop g n m clsf order0 root).
Notation PPj := (PPj g n m clsf order0 root).
Notation PPref := (PPref g n m clsf order0 root).

(* at most n - 1 generators *)
Definition Gn (st : sstate) : Prop := length (s_gens st) + nroots (s_flOrb st) <= n.

(* ---------------------------------------------------------------- deage, undo *)

Lemma undo_total : forall st anc, stack_ok anc (s_path st) (s_choices st) ->
  cur_ok anc (length (s_path st)) (s_skip st) (s_ps st) -> s_path st <> [] -> exists st1, undo st = Ok st1.
Proof.
  intros st anc HS HC Hne. unfold undo. destruct (s_skip st) eqn:Esk; [eauto|].
  destruct HS as (HL1 & HL2 & HNo & _).
  assert (HL : 1 <= length (s_path st)) by (destruct (s_path st); [congruence|simpl; lia]).
  destruct (last_opt anc) as [P|] eqn:EP; [|apply last_opt_none in EP; subst anc; simpl in HL1; lia].
  assert (HN : node_ok (length (s_path st) - 1) P) by (rewrite <- HL1; apply HNo; rewrite <- last_opt_nth; exact EP).
  rewrite (deage_T g n root Xc anc _ _ P HL HC EP HN). simpl. eauto.
Qed.

Lemma deage_n_total : forall d anc path choices ps, stack_ok anc path choices -> cur_ok anc (length path) false ps ->
  d <= length path -> exists ps', deage_n d ps = Ok ps'.
Proof.
  induction d as [|d IH]; intros anc path choices ps HS HC Hd; simpl; [eauto|].
  assert (HL : 1 <= length path) by lia.
  pose proof (stack_ok_lengths g n root Xc _ _ _ HS) as [HL1 HL2].
  destruct (last_opt anc) as [P|] eqn:EP; [|apply last_opt_none in EP; subst anc; simpl in HL1; lia].
  assert (HN : node_ok (length path - 1) P).
  { destruct HS as (_ & _ & HNo & _). rewrite <- HL1. apply HNo. rewrite <- last_opt_nth. exact EP. }
  rewrite (deage_T g n root Xc anc _ _ P HL HC EP HN). cbn [bind].
  pose proof (stack_pop g n root Xc _ _ _ HS) as HS'.
  pose proof (cur_pop g n root Xc anc path choices P (snd (deage_sv (fns P) (p_spl ps) (p_value ps)))
                (fst (deage_sv (fns P) (p_spl ps) (p_value ps))) HS EP) as HC'.
  assert (HLr : length (removelast path) = length path - 1) by apply removelast_length.
  rewrite <- HLr in HC'. apply (IH _ _ _ _ HS' HC'). lia.
Qed.

Lemma path_le_n : forall anc path choices, stack_ok anc path choices -> length path <= n.
Proof.
  intros anc path choices HS. pose proof (stack_ok_lengths g n root Xc _ _ _ HS) as [HLen _].
  destruct (last_opt anc) as [P|] eqn:EP; [|apply last_opt_none in EP; subst anc; simpl in HLen; lia].
  assert (HP : nth_error anc (length anc - 1) = Some P) by (rewrite <- last_opt_nth; exact EP).
  assert (Hdepth : forall k P0, nth_error anc k = Some P0 -> k <= fns P0).
  { destruct HS as (_ & _ & _ & HCn & _). induction k as [|k IHk]; intros P0 HP0; [lia|].
    destruct (nth_error anc k) as [Pk|] eqn:Ek; [|apply nth_error_None in Ek; pose proof (anc_lt _ _ _ HP0); lia].
    pose proof (chain_fns _ _ _ (HCn k Pk P0 Ek HP0)). specialize (IHk Pk eq_refl). lia. }
  pose proof (Hdepth _ _ HP). destruct HS as (_ & _ & HNo & _). pose proof (HNo _ _ HP) as HN.
  pose proof (fns_le P). pose proof (nonempty_length _ (no_ne _ _ _ _ _ _ HN)).
  rewrite (Permutation_length (no_perm _ _ _ _ _ _ HN)), seq_length in H1.
  destruct (no_big _ _ _ _ _ _ HN) as (e & sz & HB).
  destruct (first_big_spec _ _ _ _ (no_ne _ _ _ _ _ _ HN) HB) as (b0 & c0 & a0 & EP0 & _ & _ & _ & _ & Hb0).
  assert (length P = length b0 + S (length a0)) by (rewrite EP0, app_length; reflexivity). lia.
Qed.

Lemma back_jump_total : forall anc st bp, stack_ok anc (s_path st) (s_choices st) ->
  cur_ok anc (length (s_path st)) false (s_ps st) -> length bp = n -> exists st', back_jump st bp = Ok st'.
Proof.
  intros anc st bp HS HC Hbp. unfold back_jump.
  destruct (h1_keep_total (s_path st) bp ltac:(rewrite Hbp; eapply path_le_n; exact HS)) as [keep EK]. rewrite EK. cbn [of_opt bind].
  destruct (deage_n_total (length (s_path st) - keep) anc _ _ (s_ps st) HS HC ltac:(lia)) as [ps' ED]. rewrite ED. cbn [bind]. eauto.
Qed.

(* ---------------------------------------------------------------- generators *)

Lemma record_gen_total : forall st gam, WF (s_flOrb st) -> length (s_flOrb st) = n -> 1 <= n -> gam_ok n gam -> Gn st ->
  exists st', record_gen n st gam = Ok st'.
Proof.
  intros st gam W HL Hn1 [HG1 HG2] HGn. unfold record_gen.
  assert (Hseq : forall i, In i (seq 0 n) -> i < length (s_flOrb st)) by (intros i Hi; apply in_seq in Hi; lia).
  destruct (orb_loop_total (seq 0 n) gam (s_flOrb st) false W Hseq ltac:(lia) ltac:(rewrite HL; exact HG2)) as [[d b] EO].
  rewrite EO. cbn [of_opt bind fst snd].
  destruct (orb_loop_nroots _ _ _ _ _ _ W Hseq ltac:(rewrite HL; exact HG2) EO) as (Wd & Ld & Nd & Ns).
  destruct b; [|eauto].
  specialize (Ns eq_refl eq_refl). pose proof (nroots_pos d Wd ltac:(lia)). unfold Gn in HGn.
  replace (n - 1 <? length (s_gens st) + 1) with false by (symmetry; apply Nat.ltb_ge; lia). eauto.
Qed.

Lemma record_gen_Gn : forall st gam st', WF (s_flOrb st) -> length (s_flOrb st) = n -> gam_ok n gam -> Gn st ->
  record_gen n st gam = Ok st' -> Gn st'.
Proof.
  intros st gam st' W HL [HG1 HG2] HGn H.
  assert (Hseq : forall i, In i (seq 0 n) -> i < length (s_flOrb st)) by (intros i Hi; apply in_seq in Hi; lia).
  destruct (record_gen_cases _ _ _ _ H) as (d & b & EO & Hcase).
  destruct (orb_loop_nroots _ _ _ _ _ _ W Hseq ltac:(rewrite HL; exact HG2) EO) as (Wd & Ld & Nd & Ns).
  unfold Gn in *. destruct Hcase as [(-> & _ & ->)|(-> & ->)]; cbn [set_gens set_flOrb s_gens s_flOrb].
  - specialize (Ns eq_refl eq_refl). rewrite app_length. simpl. lia.
  - lia.
Qed.

(* ---------------------------------------------------------------- the steps *)

Lemma NP_refine : forall st, PPref st -> refine_s g n m (s_cb st) (s_fl st) (s_ps st) <> Panic.
Proof.
  intros st (anc & HT & HV & _). destruct HT as ((_ & HC & _) & Hsk & _). rewrite Hsk in HC. destruct HC as (K1 & K2 & _).
  destruct HV as (_ & _ & _ & [HCl _]). apply (refine_s_np g n m Hg Hn Hm); assumption.
Qed.

Lemma NP_jexit : forall st, PPj st 0 -> undo st <> Panic.
Proof.
  intros st (anc & (HS & HC & Hne & _) & _). destruct (undo_total st anc HS HC Hne) as [st1 E]. rewrite E. discriminate.
Qed.

Lemma h2_total : forall count lpath path ds order pos j v, j <= pos -> (0 < count -> WF ds /\ length ds = n) ->
  v < n -> (forall u, In u order -> u < n) -> exists r, h2 count lpath path ds order pos j v = Ok r.
Proof.
  intros count lpath path ds order pos j v Hj HW Hv HO. unfold h2.
  destruct (0 <? count) eqn:Ec; cbn [andb]; [|eauto].
  destruct (has_prefix lpath (removelast path)); [|eauto].
  replace (pos <? j) with false by (symmetry; apply Nat.ltb_ge; exact Hj).
  apply Nat.ltb_lt in Ec. destruct (HW Ec) as [W L].
  destruct (has_earlier_mate_total (firstn j (skipn (pos - j) order)) ds v W ltac:(lia)) as [x Ex].
  - intros u Hu. rewrite L. apply HO. apply in_firstn in Hu. apply in_skipn in Hu. exact Hu.
  - rewrite Ex. simpl. eauto.
Qed.

Lemma NP_jbody : forall st j, PPj st (S j) -> jbody g n m j st <> Panic.
Proof.
  intros st j (anc & HT & HV & HPi & HCW & Hpl).
  pose proof HT as (HS & HC & Hne & HTop & _). pose proof HV as (_ & HVst & HR & Hcbz).
  destruct (undo_total st anc HS HC Hne) as [st1 HU].
  destruct (undo_V g n m clsf order0 root Hn Hm Hm0 _ _ _ HS HC Hne HVst HU) as (P & EP & HN & Est1 & HUi).
  set (L := length (s_path st)) in *.
  assert (HL : 1 <= L) by (unfold L; destruct (s_path st); [congruence|simpl; lia]).
  unfold top_ok in HTop. rewrite EP in HTop. destruct HTop as (e & sz & HB & HLch & Hjs & _).
  destruct (node_target g n root Xc _ _ HN) as (b0 & c0 & a0 & e' & sz' & EPd & HSb & Hb0 & Hsz & H2 & HB' & He & HTg & HLoc).
  rewrite HB in HB'. injection HB' as E1 E2.
  pose proof (no_perm _ _ _ _ _ _ HN) as HPm. pose proof (no_ne _ _ _ _ _ _ HN) as HNe.
  set (v1 := snd (undo_sv (s_skip st) (fns P) (p_spl (s_ps st)) (p_value (s_ps st)))) in *.
  set (s1 := fst (undo_sv (s_skip st) (fns P) (p_spl (s_ps st)) (p_value (s_ps st)))) in *.
  assert (HOrd : forall u, In u (order_of P) -> u < n) by (intros u Hu; apply (Permutation_in _ HPm) in Hu; apply in_seq in Hu; lia).
  assert (Hlb : length (order_of b0) = fns P) by (rewrite (singles_order_length _ HSb); exact Hb0).
  destruct (nth_error (order_of P) (fns P + j)) as [v|] eqn:Ev.
  2:{ apply nth_error_None in Ev. pose proof (f_equal (fun l => length (order_of l)) EPd) as HLen. cbn beta in HLen.
      rewrite order_of_app, order_of_cons, !app_length in HLen. lia. }
  assert (Hvn : v < n) by (apply HOrd; eapply nth_error_In; exact Ev).
  destruct (r_orb _ _ _ _ _ _ HR) as (psF & (WF1 & LF1 & _) & _).
  destruct (h2_total (s_count st) (s_flPath st) (s_path st) (s_flOrb st) (order_of P) (fns P + j) j v ltac:(lia)
              ltac:(intros _; split; assumption) Hvn HOrd) as [[fo b1] Eh1].
  assert (Hcnt : 0 < s_count st -> WF (s_cbOrb st) /\ length (s_cbOrb st) = n).
  { intros Hc.
    assert (Hcb : s_cb st <> []).
    { intros E. destruct (r_zero _ _ _ _ _ _ HR) as [[Hc0 _] _]. rewrite (Hc0 E) in Hc. lia. }
    destruct HPi as (_ & _ & _ & HRc). destruct (HRc Hcb) as (lenB & lenF & permF & gsC & _ & _ & _ & _ & _ & _ & _ & _ & _ & R10 & _).
    destruct R10 as (_ & psC & (WC & LC & _) & _). split; assumption. }
  destruct (h2_total (s_count st) (s_cbPath st) (s_path st) (s_cbOrb st) (order_of P) (fns P + j) j v ltac:(lia) Hcnt Hvn HOrd)
    as [[co b2] Eh2].
  pose proof (split_bin_np g n m Hg Hn Hm P (zl L - 1)%Z v1 s1 (s_cb st) (s_fl st) b0 c0 j a0 HUi EPd Hb0 HSb ltac:(lia) ltac:(lia) HNe HPm
                (HLoc j ltac:(lia))) as HSp.
  unfold jbody. rewrite HU. subst st1.
  cbn [bind set_skip set_ps set_stack set_flOrb set_cbOrb s_ps s_path s_choices s_skip s_count s_cb s_cbPath s_cbOrb s_fl s_flPath
       s_flOrb s_gens p_cells p_value p_spl p_age].
  rewrite HLch. replace (e - sz + S j) with (S (fns P + j)) by lia.
  fold L v1 s1. rewrite Ev. cbn [of_opt bind]. rewrite Eh1. cbn [bind fst snd].
  destruct b1; [discriminate|]. rewrite Eh2. cbn [bind fst snd]. destruct b2; [discriminate|].
  destruct (split_bin g n m (s_cb st) (s_fl st) (mkP P (zl L - 1)%Z v1 s1) (fns P + j)) as [[w ps']| |]; [discriminate|congruence|discriminate].
Qed.

Lemma NP_leaf : forall st, PPtop st false -> Gn st -> length (p_cells (s_ps st)) = n -> leaf_step n m st <> Panic.
Proof.
  intros st (anc & HT & HV & HPi & HSpl & Hpl & Hnil & _) HGn Hlen.
  destruct (leaf_facts g n m clsf order0 root Hg Hn Hm Hm0 st HV Hlen) as (HLp & HKc & Hval & Hvm & HLcp).
  pose proof HT as ((HS & HC & _) & Hsk & _). rewrite Hsk in HC.
  pose proof HV as (_ & _ & HR & _). pose proof HPi as (_ & _ & _ & HRc).
  destruct (r_lens _ _ _ _ _ _ HR) as (LcI & LfI & Lfl & LfO).
  destruct (r_orb _ _ _ _ _ _ HR) as (psF & (WF1 & _ & _) & _).
  destruct (leafp_length _ _ HLp) as (_ & Lord & _).
  assert (Hn1 : 1 <= n).
  { destruct n; [|lia]. exfalso. rewrite Hm in Hm0. unfold num_edges in Hm0. rewrite Hn in Hm0. simpl in Hm0. lia. }
  assert (Hordn : forall v, In v (order_of (p_cells (s_ps st))) -> v < n).
  { intros v Hv. apply (Permutation_in _ (proj2 HLp)) in Hv. apply in_seq in Hv. lia. }
  assert (Hseqn : forall i, In i (seq 0 n) -> i < n) by (intros i Hi; apply in_seq in Hi; lia).
  (* what follows a leaf with the certificate of a recorded leaf *)
  assert (Tail : forall gam (st0 : sstate), isaut g n clsf gam ->
            s_flOrb st0 = s_flOrb st -> s_gens st0 = s_gens st -> s_ps st0 = s_ps st -> s_path st0 = s_path st ->
            s_choices st0 = s_choices st -> s_cbPath st0 = s_cbPath st -> s_flPath st0 = s_flPath st ->
            forall which : bool,
            (do st1 <- record_gen n st0 gam; back_jump st1 (if which then s_cbPath st1 else s_flPath st1)) <> Panic).
  { intros gam st0 HA F1 F2 F3 F4 F5 F6 F7 which.
    destruct (record_gen_total st0 gam ltac:(rewrite F1; exact WF1) ltac:(rewrite F1; exact LfO) Hn1 (isaut_gam_ok g n clsf _ HA)
                ltac:(unfold Gn; rewrite F1, F2; exact HGn)) as [st1 E1].
    rewrite E1. cbn [bind].
    destruct (record_gen_fields n _ _ _ E1) as (G1 & G2 & G3 & G4 & G5 & G6 & G7 & G8).
    destruct (back_jump_total anc st1 (if which then s_cbPath st1 else s_flPath st1)) as [st' E2].
    - rewrite G2, G3, F4, F5. exact HS.
    - rewrite G2, G1, F4, F3. exact HC.
    - destruct which; [rewrite G7, F6; exact (proj1 Hpl)|rewrite G8, F7; exact (proj2 Hpl)].
    - rewrite E2. discriminate. }
  unfold leaf_step. cbn [bump s_ps s_cb s_fl s_cbInv s_flInv s_cbOrb].
  destruct (cmp_list (p_value (s_ps st)) (s_cb st)) eqn:HCm.
  - (* same certificate as the best leaf *)
    assert (Ecb : s_cb st <> []).
    { intros E. rewrite E in HCm. apply cmp_nil_r in HCm. rewrite HCm in Hvm. simpl in Hvm. lia. }
    apply cmp_list_eq in HCm.
    destruct (r_best _ _ _ _ _ _ HR Ecb) as (csb & HLb & HKb & Ecp & Ecbv & HIb).
    destruct (HRc Ecb) as (lenB & lenF & permF & gsC & _ & _ & _ & R4 & _ & _ & R7 & _ & _ & R10 & _).
    destruct (gamma_of_total (order_of (p_cells (s_ps st))) (s_cbInv st) (seq 0 n)) as [gam EG].
    { intros i Hi. rewrite Lord. apply (inverse_entries n (s_cbPerm st) (s_cbInv st) i R7 R4). apply Hseqn. exact Hi. }
    rewrite EG. cbn [of_opt bind].
    assert (HA : isaut g n clsf gam).
    { eapply (gam_aut g n clsf order0 (p_cells (s_ps st)) csb); try eassumption. rewrite <- Hval, <- Ecbv. exact HCm. }
    destruct R10 as (_ & psC & (WC & LC & _) & _).
    destruct (isaut_gam_ok g n clsf _ HA) as [HG1 HG2].
    destruct (orb_loop_total (seq 0 n) gam (s_cbOrb st) false WC ltac:(rewrite LC; exact Hseqn) ltac:(lia) ltac:(rewrite LC; exact HG2)) as [[d b] EO].
    rewrite EO. cbn [of_opt bind fst].
    apply (Tail gam (set_cbOrb (bump st) d) HA eq_refl eq_refl eq_refl eq_refl eq_refl eq_refl eq_refl true).
  - (* below the best *)
    assert (Ecb : s_cb st <> []) by (eapply cmp_lt_nonnil; exact HCm).
    destruct (cmp_list (p_value (s_ps st)) (s_fl st)) eqn:HC2; try discriminate.
    apply cmp_list_eq in HC2.
    destruct (r_first _ _ _ _ _ _ HR Ecb) as (csf & HLb & HKb & Eflv & HIb).
    destruct (HRc Ecb) as (lenB & lenF & permF & gsC & _ & _ & _ & _ & _ & R6 & _ & R8 & _).
    destruct (gamma_of_total (order_of (p_cells (s_ps st))) (s_flInv st) (seq 0 n)) as [gam EG].
    { intros i Hi. rewrite Lord. apply (inverse_entries n permF (s_flInv st) i R8 R6). apply Hseqn. exact Hi. }
    rewrite EG. cbn [of_opt bind].
    assert (HA : isaut g n clsf gam).
    { eapply (gam_aut g n clsf order0 (p_cells (s_ps st)) csf); try eassumption. rewrite <- Hval, <- Eflv. exact HC2. }
    apply (Tail gam (bump st) HA eq_refl eq_refl eq_refl eq_refl eq_refl eq_refl eq_refl false).
  - (* a better leaf *)
    destruct (inv_into_total (order_of (p_cells (s_ps st))) (s_cbInv st) 0 ltac:(rewrite LcI; exact Hordn)) as [q Eq].
    rewrite Eq. discriminate.
Qed.

(* ---------------------------------------------------------------- the bound on the generators is kept *)

Lemma h2_nroots : forall count lpath path ds order pos j v d b, h2 count lpath path ds order pos j v = Ok (d, b) ->
  WF ds -> length ds = n -> v < n -> (forall u, In u order -> u < n) -> nroots d = nroots ds.
Proof.
  intros count lpath path ds order pos j v d b H W L Hv HO.
  destruct (h2_cases _ _ _ _ _ _ _ _ _ _ H) as [[-> _]|[_ HM]]; [reflexivity|].
  apply (has_earlier_mate_nroots (firstn j (skipn (pos - j) order)) ds v d b W ltac:(lia)); [|exact HM].
  intros u Hu. rewrite L. apply HO. apply in_firstn in Hu. apply in_skipn in Hu. exact Hu.
Qed.

Lemma Gn_jbody : forall st j st' ok, PPj st (S j) -> Gn st -> jbody g n m j st = Ok (st', ok) -> Gn st'.
Proof.
  intros st j st' ok (anc & HT & HV & _) HGn HJ.
  pose proof HT as (HS & HC & Hne & _). pose proof HV as (_ & HVst & HR & _).
  destruct (jbody_cases _ _ _ _ _ _ _ HJ) as (st1 & pos & v & fo & b1 & HU & HLc & Hv & Hh1 & Hrest).
  destruct (undo_V g n m clsf order0 root Hn Hm Hm0 _ _ _ HS HC Hne HVst HU) as (P & EP & HN & Est1 & _).
  pose proof (no_perm _ _ _ _ _ _ HN) as HPm.
  assert (HOrd : forall u, In u (order_of (p_cells (s_ps st1))) -> u < n).
  { rewrite Est1. cbn. intros u Hu. apply (Permutation_in _ HPm) in Hu. apply in_seq in Hu. lia. }
  assert (Hvn : v < n) by (apply HOrd; eapply nth_error_In; exact Hv).
  destruct (r_orb _ _ _ _ _ _ HR) as (psF & (WF1 & LF1 & _) & _).
  assert (Efl : s_flOrb st1 = s_flOrb st) by (rewrite Est1; reflexivity).
  assert (Egens : s_gens st1 = s_gens st) by (rewrite Est1; reflexivity).
  pose proof (h2_nroots _ _ _ _ _ _ _ _ _ _ Hh1 ltac:(rewrite Efl; exact WF1) ltac:(rewrite Efl; exact LF1) Hvn HOrd) as HNr.
  rewrite Efl in HNr.
  assert (Gfo : forall st2, s_flOrb st2 = fo -> s_gens st2 = s_gens st -> Gn st2).
  { intros st2 F1 F2. unfold Gn in *. rewrite F1, F2, HNr. exact HGn. }
  cbv zeta in Hrest. destruct Hrest as [(_ & _ & ->)|(_ & co & b2 & _ & [(_ & _ & ->)|(_ & w & ps' & _ & _ & ->)])];
    apply Gfo; cbn; try reflexivity; exact Egens.
Qed.

Lemma Gn_leaf : forall st st', PPtop st false -> Gn st -> length (p_cells (s_ps st)) = n -> leaf_step n m st = Ok st' -> Gn st'.
Proof.
  intros st st' (anc & HT & HV & HPi & _) HGn Hlen HLf.
  destruct (leaf_facts g n m clsf order0 root Hg Hn Hm Hm0 st HV Hlen) as (HLp & HKc & Hval & Hvm & HLcp).
  pose proof HV as (_ & _ & HR & _).
  destruct (r_lens _ _ _ _ _ _ HR) as (LcI & LfI & Lfl & LfO).
  destruct (r_orb _ _ _ _ _ _ HR) as (psF & (WF1 & _ & _) & _).
  assert (Hvne : p_value (s_ps st) <> []) by (intros E; rewrite E in Hvm; simpl in Hvm; lia).
  assert (Tail : forall gam st0 st1 bp, isaut g n clsf gam -> s_flOrb st0 = s_flOrb st -> s_gens st0 = s_gens st ->
            record_gen n st0 gam = Ok st1 -> back_jump st1 bp = Ok st' -> Gn st').
  { intros gam st0 st1 bp HA F1 F2 HRg HBj.
    pose proof (record_gen_Gn st0 gam st1 ltac:(rewrite F1; exact WF1) ltac:(rewrite F1; exact LfO) (isaut_gam_ok g n clsf _ HA)
                  ltac:(unfold Gn; rewrite F1, F2; exact HGn) HRg) as HG1.
    destruct (back_jump_cases _ _ _ HBj) as (keep & ps' & _ & _ & ->). exact HG1. }
  destruct (leaf_step_cases _ _ _ _ HLf) as [(HCm & cbInv & HI & ->)|[(HCm & gam & d & b & st1 & HG & HO & HRg & HBj)|
    [(HCm & HC2 & gam & st1 & HG & HRg & HBj)|(HCm & HC2 & ->)]]].
  - destruct (new_best_fields n m (bump st) cbInv) as (_ & _ & _ & _ & _ & F6 & _).
    destruct (new_best_first n m (bump st) cbInv) as (_ & _ & N3).
    cbn [bump s_count s_gens s_flOrb] in F6, N3. unfold Gn. rewrite F6, N3.
    destruct (S (s_count st) =? 1) eqn:Ec; [|exact HGn].
    apply Nat.eqb_eq in Ec. destruct (r_zero _ _ _ _ _ _ HR) as [[_ Hz] Hg0].
    rewrite (Hg0 (Hz ltac:(lia))). rewrite copy_into_same_length by (unfold new; rewrite repeat_length; lia).
    rewrite nroots_new. simpl. lia.
  - assert (Ecb : s_cb st <> []).
    { intros E. rewrite E in HCm. apply cmp_nil_r in HCm. contradiction. }
    apply cmp_list_eq in HCm.
    destruct (r_best _ _ _ _ _ _ HR Ecb) as (csb & HLb & HKb & Ecp & Ecbv & HIb).
    assert (HA : isaut g n clsf gam).
    { eapply (gam_aut g n clsf order0 (p_cells (s_ps st)) csb); try eassumption. rewrite <- Hval, <- Ecbv. exact HCm. }
    apply (Tail gam (set_cbOrb (bump st) d) st1 _ HA eq_refl eq_refl HRg HBj).
  - assert (Ecb : s_cb st <> []) by (eapply cmp_lt_nonnil; exact HCm).
    apply cmp_list_eq in HC2.
    destruct (r_first _ _ _ _ _ _ HR Ecb) as (csf & HLb & HKb & Eflv & HIb).
    assert (HA : isaut g n clsf gam).
    { eapply (gam_aut g n clsf order0 (p_cells (s_ps st)) csf); try eassumption. rewrite <- Hval, <- Eflv. exact HC2. }
    apply (Tail gam (bump st) st1 _ HA eq_refl eq_refl HRg HBj).
  - exact HGn.
Qed.

(* ---------------------------------------------------------------- the main loop never panics *)

Theorem search_np : forall fuel st w, PPtop st w -> Gn st -> main_loop g n m fuel st w <> Panic.
Proof.
  intros fuel st w HT HG0.
  apply (main_loop_np g n m (fun st w => PPtop st w /\ Gn st) (fun st => PPstep st /\ Gn st)
           (fun st j => PPj st j /\ Gn st) (fun st => PPref st /\ Gn st)).
  - intros s s' [H1 H2] Hl HL. split; [eapply VCP_leaf; eassumption|eapply Gn_leaf; eassumption].
  - intros s [H1 H2] Hl. split; [eapply VCP_push; eassumption|].
    unfold push_step. destruct (first_big (p_cells (s_ps s)) 0) as [[e sz]|]; exact H2.
  - intros s [H1 H2]. split; [eapply VCP_worse; eassumption|exact H2].
  - intros s top [H1 H2] E. split; [eapply VCP_jstart; eassumption|exact H2].
  - intros s s1 [H1 H2] HU. split; [eapply VCP_jexit; eassumption|].
    destruct (undo_cases _ _ HU) as [[_ ->]|[_ (ps' & _ & ->)]]; exact H2.
  - intros s j s' [H1 H2] HJ. split; [eapply VCP_jcont; eassumption|eapply Gn_jbody; eassumption].
  - intros s j s' [H1 H2] HJ. split; [eapply VCP_jstep; eassumption|eapply Gn_jbody; eassumption].
  - intros s w0 ps' [H1 H2] HR. split; [eapply VCP_refine; eassumption|exact H2].
  - intros s [H1 H2] Hl. apply NP_leaf; assumption.
  - intros s j [H1 H2]. apply NP_jbody; assumption.
  - intros s [H1 H2]. apply NP_jexit; assumption.
  - intros s [H1 H2]. apply NP_refine; assumption.
  - split; assumption.
Qed.

End NoPanic3.
