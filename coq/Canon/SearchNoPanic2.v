(* Canon/SearchNoPanic2.v — the search never panics: totality of the index computations of the main loop
   (inverse permutation, automorphism from two leaves, Heuristic 1, deage) and the control structure of
   Canon/SearchHoare.v traversed once more: under the invariant every primitive step returns. *)
From Coq Require Import List Arith Bool ZArith Lia Permutation Sorted.
From Mamba Require Import Canon.Perm Canon.Iso Canon.Model Canon.Refine Canon.Sorted Canon.Tree Canon.Fuel
  Disjoint.Model Disjoint.Proofs Canon.SearchModel Canon.SearchHoare Canon.SearchCells Canon.SearchTarget
  Canon.SearchDeage Canon.SearchRefine Canon.SearchExec Canon.SearchValue Canon.SearchExpand Canon.SearchCert
  Canon.SearchInvT Canon.SearchVCT Canon.SearchInvV Canon.SearchVCV Canon.SearchRoots Canon.SearchNoPanic1.
Import ListNotations.
Open Scope nat_scope.

(* ---------------------------------------------------------------- the control structure *)

Section OutlineNP.
Variable g : graph.
Variables n m : nat.

Variable Ptop : sstate -> bool -> Prop.
Variable Pstep : sstate -> Prop.
Variable Pj : sstate -> nat -> Prop.
Variable Pref : sstate -> Prop.

Hypothesis VC_leaf : forall st st', Ptop st false -> length (p_cells (s_ps st)) = n ->
  leaf_step n m st = Ok st' -> Pstep st'.
Hypothesis VC_push : forall st, Ptop st false -> length (p_cells (s_ps st)) <> n -> Pstep (push_step st).
Hypothesis VC_worse : forall st, Ptop st true -> Pstep st.
Hypothesis VC_jstart : forall st top, Pstep st -> last_opt (s_path st) = Some top -> Pj st top.
Hypothesis VC_jexit : forall st st1, Pj st 0 -> undo st = Ok st1 -> Pstep (pop st1).
Hypothesis VC_jcont : forall st j st', Pj st (S j) -> jbody g n m j st = Ok (st', false) -> Pj st' j.
Hypothesis VC_jstep : forall st j st', Pj st (S j) -> jbody g n m j st = Ok (st', true) -> Pref st'.
Hypothesis VC_refine : forall st w ps', Pref st ->
  refine_s g n m (s_cb st) (s_fl st) (s_ps st) = Ok (w, ps') -> Ptop (set_ps st ps') w.

Hypothesis NP_leaf : forall st, Ptop st false -> length (p_cells (s_ps st)) = n -> leaf_step n m st <> Panic.
Hypothesis NP_jbody : forall st j, Pj st (S j) -> jbody g n m j st <> Panic.
Hypothesis NP_jexit : forall st, Pj st 0 -> undo st <> Panic.
Hypothesis NP_refine : forall st, Pref st -> refine_s g n m (s_cb st) (s_fl st) (s_ps st) <> Panic.

Lemma jloop_np : forall jj st, Pj st jj ->
  jloop g n m jj st <> Panic /\ forall st' ok, jloop g n m jj st = Ok (st', ok) -> if ok then Pref st' else Pj st' 0.
Proof.
  induction jj as [|j IH]; intros st HP; simpl.
  - split; [discriminate|]. intros st' ok H. inversion H; subst. exact HP.
  - destruct (jbody g n m j st) as [[st1 b]| |] eqn:E; simpl.
    + destruct b.
      * split; [discriminate|]. intros st' ok H. inversion H; subst. eapply VC_jstep; eassumption.
      * apply IH. eapply VC_jcont; eassumption.
    + exfalso. eapply NP_jbody; eassumption.
    + split; [discriminate|]. intros st' ok H; discriminate H.
Qed.

Lemma steploop_np : forall k st, Pstep st ->
  steploop g n m k st <> Panic /\ forall st', steploop g n m k st = Ok (Stepped st') -> Pref st'.
Proof.
  induction k as [|k IH]; intros st HP; simpl.
  - destruct (last_opt (s_path st)); (split; [discriminate|intros st' H; discriminate H]).
  - destruct (last_opt (s_path st)) as [top|] eqn:E; [|split; [discriminate|intros st' H; discriminate H]].
    destruct (jloop_np top st (VC_jstart _ _ HP E)) as [HN HJ].
    destruct (jloop g n m top st) as [[st1 b]| |] eqn:EJ; simpl; [|congruence|split; [discriminate|intros st' H; discriminate H]].
    specialize (HJ st1 b eq_refl). destruct b.
    + split; [discriminate|]. intros st' H. inversion H; subst. exact HJ.
    + destruct (undo st1) as [st2| |] eqn:EU; simpl.
      * apply IH. eapply VC_jexit; eassumption.
      * exfalso. eapply NP_jexit; eassumption.
      * split; [discriminate|intros st' H; discriminate H].
Qed.

Theorem main_loop_np : forall fuel st w, Ptop st w -> main_loop g n m fuel st w <> Panic.
Proof.
  induction fuel as [|f IH]; intros st w HP; [discriminate|].
  cbn -[steploop refine_s leaf_step push_step].
  assert (HS : match (if w then Ok st else if length (p_cells (s_ps st)) =? n then leaf_step n m st else Ok (push_step st)) with
               | Ok st1 => Pstep st1 | Panic => False | Fuel => True end).
  { destruct w; [apply VC_worse; exact HP|]. destruct (length (p_cells (s_ps st)) =? n) eqn:EL.
    - apply Nat.eqb_eq in EL. destruct (leaf_step n m st) as [st1| |] eqn:E; [eapply VC_leaf; eassumption| |exact I].
      eapply NP_leaf; eassumption.
    - apply Nat.eqb_neq in EL. apply VC_push; assumption. }
  destruct (if w then Ok st else if length (p_cells (s_ps st)) =? n then leaf_step n m st else Ok (push_step st)) as [st1| |];
    cbn [bind]; [|contradiction|discriminate].
  destruct (steploop_np (S (length (s_path st1))) st1 HS) as [HN HR].
  destruct (steploop g n m (S (length (s_path st1))) st1) as [[st2|p o gs]| |] eqn:ES; cbn [bind]; [|discriminate|congruence|discriminate].
  specialize (HR st2 eq_refl).
  destruct (refine_s g n m (s_cb st2) (s_fl st2) (s_ps st2)) as [[w' ps']| |] eqn:ER; cbn [bind fst snd].
  - apply IH. eapply VC_refine; eassumption.
  - exfalso. eapply NP_refine; eassumption.
  - discriminate.
Qed.

End OutlineNP.

(* ---------------------------------------------------------------- index computations *)

Lemma inv_into_total : forall order arr i, (forall v, In v order -> v < length arr) -> exists q, inv_into arr order i = Some q.
Proof.
  induction order as [|v order IH]; intros arr i H; simpl; [eauto|].
  unfold upd_chk. assert (Hv : v < length arr) by (apply H; left; reflexivity).
  apply Nat.ltb_lt in Hv. rewrite Hv. apply IH. intros u Hu. rewrite upd_length. apply H. right. exact Hu.
Qed.

Lemma gamma_of_total : forall order inv is, (forall i, In i is -> exists k, nth_error inv i = Some k /\ k < length order) ->
  exists gam, gamma_of order inv is = Some gam.
Proof.
  intros order inv. induction is as [|i is IH]; intros H; simpl; [eauto|].
  destruct (H i (or_introl eq_refl)) as (k & E & Hk). rewrite E.
  destruct (nth_error order k) as [v|] eqn:Ev; [|apply nth_error_None in Ev; lia].
  destruct (IH ltac:(intros j Hj; apply H; right; exact Hj)) as [t Et]. rewrite Et. eauto.
Qed.

Lemma inverse_entries : forall n p q i, inverse n p q -> Permutation p (seq 0 n) -> i < n ->
  exists k, nth_error q i = Some k /\ k < n.
Proof.
  intros n p q i [HL HI] HP Hi.
  assert (Hin : In i p) by (apply (Permutation_in _ (Permutation_sym HP)); apply in_seq; lia).
  apply In_nth with (d := 0) in Hin. destruct Hin as (a & Ha & E).
  rewrite (Permutation_length HP), seq_length in Ha. exists a. split; [rewrite <- E; apply HI; exact Ha|exact Ha].
Qed.

Lemma first_diff_total : forall k i path bp, i + k <= length path -> i + k <= length bp ->
  exists r, first_diff k i path bp = Some r.
Proof.
  induction k as [|k IH]; intros i path bp H1 H2; simpl; [eauto|].
  destruct (nth_error path i) as [a|] eqn:Ea; [|apply nth_error_None in Ea; lia].
  destruct (nth_error bp i) as [b|] eqn:Eb; [|apply nth_error_None in Eb; lia].
  destruct (a =? b); [apply IH; lia|eauto].
Qed.

Lemma h1_keep_total : forall path bp, length path <= length bp -> exists keep, h1_keep path bp = Some keep.
Proof.
  intros path bp H. unfold h1_keep. destruct (first_diff_total (length path - 1) 0 path bp ltac:(lia) ltac:(lia)) as [r E].
  rewrite E. destruct r; eauto.
Qed.
