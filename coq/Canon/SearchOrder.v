(* Canon/SearchOrder.v — certificates of the leaves of the unpruned tree as lists ordered by
   ints.Compare; a node "dominated" by a certificate; descendants keep the singleton prefix of a
   node, so a partial certificate that already lost against the best one loses below the node. *)
From Coq Require Import List Arith Bool ZArith Lia Permutation Sorted.
From Mamba Require Import Canon.Perm Canon.Iso Canon.Model Canon.Refine Canon.Sorted Canon.Tree Canon.Fuel
  Disjoint.Model Canon.SearchModel Canon.SearchCells Canon.SearchTarget Canon.SearchDeage
  Canon.SearchValue Canon.SearchExpand Canon.SearchCert.
Import ListNotations.
Open Scope nat_scope.

(* ---------------------------------------------------------------- ints.Compare as an order *)

Definition cle (a b : list nat) : Prop := cmp_list a b <> Gt.

Lemma cmp_list_swap : forall a b, cmp_list b a = CompOpp (cmp_list a b).
Proof.
  induction a as [|x a IH]; intros [|y b]; simpl; try reflexivity.
  rewrite (Nat.compare_antisym x y). destruct (Nat.compare x y); simpl; [apply IH|reflexivity|reflexivity].
Qed.

Lemma cle_refl : forall a, cle a a.
Proof. intros a. unfold cle. rewrite cmp_list_refl. discriminate. Qed.

Lemma cmp_list_trans_lt : forall a b c, cmp_list a b = Lt -> cmp_list b c = Lt -> cmp_list a c = Lt.
Proof.
  induction a as [|x a IH]; intros [|y b] [|z c] H1 H2; simpl in *; try discriminate; try reflexivity.
  destruct (Nat.compare x y) eqn:E1; try discriminate; destruct (Nat.compare y z) eqn:E2; try discriminate.
  - apply Nat.compare_eq in E1. apply Nat.compare_eq in E2. subst. rewrite Nat.compare_refl. eapply IH; eassumption.
  - apply Nat.compare_eq in E1. subst. rewrite E2. reflexivity.
  - apply Nat.compare_eq in E2. subst. rewrite E1. reflexivity.
  - apply Nat.compare_lt_iff in E1. apply Nat.compare_lt_iff in E2.
    assert (E : Nat.compare x z = Lt) by (apply Nat.compare_lt_iff; lia). rewrite E. reflexivity.
Qed.

Lemma cle_trans : forall a b c, cle a b -> cle b c -> cle a c.
Proof.
  intros a b c H1 H2. unfold cle in *.
  destruct (cmp_list a b) eqn:E1; [|clear H1|congruence].
  - apply cmp_list_eq in E1. subst. exact H2.
  - destruct (cmp_list b c) eqn:E2; [|clear H2|congruence].
    + apply cmp_list_eq in E2. subst. rewrite E1. discriminate.
    + rewrite (cmp_list_trans_lt _ _ _ E1 E2). discriminate.
Qed.

Lemma cle_total : forall a b, cle a b \/ cle b a.
Proof.
  intros a b. unfold cle. rewrite (cmp_list_swap a b). destruct (cmp_list a b); simpl; [left|left|right]; discriminate.
Qed.

Lemma cle_antisym : forall a b, cle a b -> cle b a -> a = b.
Proof.
  intros a b H1 H2. unfold cle in *. rewrite (cmp_list_swap a b) in H2.
  destruct (cmp_list a b) eqn:E; simpl in H2; try congruence. apply cmp_list_eq. exact E.
Qed.

(* a proper prefix that is already smaller stays smaller: the cut-off of expandValue *)
Lemma cmp_prefix_lt : forall v e c, length (v ++ e) = length c -> cmp_list v (firstn (length v) c) = Lt ->
  cmp_list (v ++ e) c = Lt.
Proof.
  intros v e c HL H. pose proof (cmp_app_lt v e c H) as H1. rewrite HL, firstn_all in H1. exact H1.
Qed.

(* ---------------------------------------------------------------- certificates do not look at ages and flags *)

Section Order.
Variable g : graph.
Variable n : nat.

Notation good := (good g n).
Notation ent := (ent g n).

Definition strip (c : acell) : acell := (0%Z, (false, cverts c)).

Lemma in_cell_strip : forall cs v, in_cell (map strip cs) v = in_cell cs v.
Proof. induction cs as [|c cs IH]; intros v; simpl; [reflexivity|]. rewrite IH. reflexivity. Qed.

Lemma entries_strip : forall cs j u, entries g (map strip cs) n j u = entries g cs n j u.
Proof.
  intros cs j u. unfold entries. f_equal.
  rewrite (filter_ext (fun v => adjb g u v && (in_cell (map strip cs) v <? j)) (fun v => adjb g u v && (in_cell cs v <? j)))
    by (intros v; rewrite in_cell_strip; reflexivity).
  apply map_ext. intros v. rewrite in_cell_strip. reflexivity.
Qed.

Lemma good_strip : forall cs s, good (map strip cs) s = good cs s.
Proof.
  intros cs s. unfold SearchValue.good. apply flat_map_ext_in'. intros j _. unfold SearchValue.ent.
  rewrite nth_error_map. destruct (nth_error cs j) as [c|]; [|reflexivity]. simpl.
  change (cverts (strip c)) with (cverts c).
  destruct (cverts c) as [|u [|u' t]]; try reflexivity. apply entries_strip.
Qed.

Lemma good_same_verts : forall cs cs' s, map cverts cs = map cverts cs' -> good cs s = good cs' s.
Proof.
  intros cs cs' s H. rewrite <- (good_strip cs), <- (good_strip cs'). f_equal.
  assert (E : forall l : list acell, map strip l = map (fun v => (0%Z, (false, v))) (map cverts l)).
  { intros l. rewrite map_map. reflexivity. }
  rewrite (E cs), (E cs'), H. reflexivity.
Qed.

(* the certificate of a labelling (a leaf of the tree) *)
Definition lcells (p : list nat) : list acell := map (fun v => (0%Z, (false, [v]))) p.
Definition certp (p : list nat) : list nat := good (lcells p) n.

Lemma lcells_order : forall p, order_of (lcells p) = p.
Proof. induction p as [|v p IH]; [reflexivity|]. simpl. rewrite order_of_cons, IH. reflexivity. Qed.

Lemma lcells_leafp : forall p, Permutation p (seq 0 n) -> leafp n (lcells p).
Proof.
  intros p HP. split; [|rewrite lcells_order; exact HP]. apply Forall_forall. intros c Hc.
  apply in_map_iff in Hc. destruct Hc as (v & <- & _). exists v. reflexivity.
Qed.

Lemma leaf_cert : forall cs, Forall single cs -> good cs n = certp (order_of cs).
Proof.
  intros cs HS. unfold certp. apply good_same_verts. unfold lcells. rewrite map_map. simpl.
  induction HS as [|c cs [x Hx] _ IH]; [reflexivity|]. rewrite order_of_cons, Hx. simpl. rewrite Hx, IH. reflexivity.
Qed.

End Order.
