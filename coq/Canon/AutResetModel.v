(* C02 — executable definitions only: array-level model of CanonicalOrderedPartition.Reset and
   NewOrderedPartition of graph/canonical.go (proofs: Canon/AutReset.v).

   A Go slice is (backing array, len); cap = length of the backing array.  [None] = Go panic
   (slice bounds out of range, index out of range, or the explicit panics of Reset). *)
From Coq Require Import List Arith Bool.
Import ListNotations.

Record slice := mk { arr : list nat; len : nat }.

Definition vis (s : slice) : list nat := firstn (len s) (arr s).

Fixpoint upd (l : list nat) (i v : nat) : list nat :=
  match l, i with
  | [], _ => []
  | _ :: t, O => v :: t
  | h :: t, S j => h :: upd t j v
  end.

(* s[:k] *)
Definition reslice (s : slice) (k : nat) : option slice :=
  if k <=? length (arr s) then Some (mk (arr s) k) else None.

(* s[i] = v *)
Definition wr (s : slice) (i v : nat) : option slice :=
  if i <? len s then Some (mk (upd (arr s) i v) (len s)) else None.

(* for j := i; j < i+k; j++ { s[j] = f(j) } *)
Fixpoint fill (s : slice) (f : nat -> nat) (i k : nat) : option slice :=
  match k with
  | 0 => Some s
  | S k' => match wr s i (f i) with None => None | Some s' => fill s' f (S i) k' end
  end.

Section WithSort.
(* ints.Sort on a sub-slice (the proofs only use that it keeps the length) *)
Variable sort : list nat -> list nat.

(* ints.Sort(s[start:stop]) *)
Definition sort_seg (s : slice) (start stop : nat) : option slice :=
  if (start <=? stop) && (stop <=? length (arr s)) then
    Some (mk (firstn start (arr s) ++ sort (skipn start (firstn stop (arr s))) ++ skipn stop (arr s)) (len s))
  else None.

(* for j := range c { v := c[j]; order[index] = v; inCell[v] = i; index++ } *)
Fixpoint fill_class (c : list nat) (i : nat) (order inCell : slice) (index : nat)
  : option (slice * slice * nat) :=
  match c with
  | [] => Some (order, inCell, index)
  | v :: t =>
    match wr order index v with None => None | Some o1 =>
    match wr inCell v i with None => None | Some ic1 => fill_class t i o1 ic1 (S index) end end
  end.

(* for i := range vertexClasses { start := index; <fill_class>; ints.Sort(order[start:index]);
   binDividers[i] = index } *)
Fixpoint fill_classes (cls : list (list nat)) (i : nat) (order inCell bd : slice) (index : nat)
  : option (slice * slice * slice) :=
  match cls with
  | [] => Some (order, inCell, bd)
  | c :: rest =>
    match fill_class c i order inCell index with None => None | Some (o1, ic1, idx1) =>
    match sort_seg o1 index idx1 with None => None | Some o2 =>
    match wr bd i idx1 with None => None | Some bd1 =>
      fill_classes rest (S i) o2 ic1 bd1 idx1 end end end
  end.

Record opst := mkop {
  order : slice; binDividers : slice; binAges : slice; binsToCheck : slice;
  value : slice; inCell : slice; age : nat; spl : nat }.

(* the tail common to Reset and NewOrderedPartition once binDividers is set *)
Definition ages_and_checks (bd ba btc : slice) : option (slice * slice) :=
  match reslice ba (len bd) with None => None | Some ba1 =>
  match fill ba1 (fun _ => 0) 0 (len ba1) with None => None | Some ba2 =>
  match reslice btc (len bd) with None => None | Some btc1 =>
  match fill btc1 (fun i => i) 0 (len btc1) with None => None | Some btc2 => Some (ba2, btc2) end end end end.

(* CanonicalOrderedPartition.Reset(n, m, vertexClasses) *)
Definition reset (op : opst) (n m : nat) (classes : option (list (list nat))) : option opst :=
  if length (arr (order op)) <? n then None else
  if length (arr (value op)) <? m then None else
  match reslice (order op) n with None => None | Some o0 =>
  match reslice (inCell op) n with None => None | Some ic0 =>
  match
    match classes with
    | None =>
      match fill o0 (fun i => i) 0 n with None => None | Some o1 =>
      match (if 0 <? n
             then match reslice (binDividers op) 1 with None => None | Some b => wr b 0 n end
             else Some (binDividers op)) with None => None | Some bd1 =>
      match fill ic0 (fun _ => 0) 0 (len ic0) with None => None | Some ic1 => Some (o1, ic1, bd1) end end end
    | Some cl =>
      match reslice (binDividers op) (length cl) with None => None | Some bd0 =>
        fill_classes cl 0 o0 ic0 bd0 0 end
    end
  with None => None | Some (o1, ic1, bd1) =>
  match ages_and_checks bd1 (binAges op) (binsToCheck op) with None => None | Some (ba, btc) =>
  match reslice (value op) 0 with None => None | Some v =>
    Some (mkop o1 bd1 ba btc v ic1 0 0) end end end end end.

(* NewOrderedPartition(n, m, vertexClasses), n > 0 (it returns nil for n = 0: None here) *)
Definition new_op (n m : nat) (classes : option (list (list nat))) : option opst :=
  if n =? 0 then None else
  let o0 := mk (repeat 0 n) n in
  let bdm := mk (repeat 0 n) n in
  let ic0 := mk (repeat 0 n) n in
  match
    match classes with
    | None =>
      match fill o0 (fun i => i) 0 n with None => None | Some o1 =>
      match reslice bdm 1 with None => None | Some b =>
      match wr b 0 n with None => None | Some bd1 => Some (o1, ic0, bd1) end end end
    | Some cl =>
      match reslice bdm (length cl) with None => None | Some bd0 =>
        fill_classes cl 0 o0 ic0 bd0 0 end
    end
  with None => None | Some (o1, ic1, bd1) =>
  (* binAges := make([]int, len(binDividers), n); binsToCheck likewise; both loops as in Reset *)
  match ages_and_checks bd1 (mk (repeat 0 n) n) (mk (repeat 0 n) n) with None => None | Some (ba, btc) =>
    Some (mkop o1 bd1 ba btc (mk (repeat 0 m) 0) ic1 0 0) end end.

(* the state the algorithm can read *)
Definition visible (op : opst) : list (list nat) * (nat * nat) :=
  ([vis (order op); vis (binDividers op); vis (binAges op); vis (binsToCheck op);
    vis (value op); vis (inCell op)], (age op, spl op)).

End WithSort.

(* a concrete sort for the extracted model (ints.Sort sorts ascending) *)
Fixpoint insert_sorted (x : nat) (l : list nat) : list nat :=
  match l with [] => [x] | y :: t => if x <=? y then x :: l else y :: insert_sorted x t end.
Definition isort (l : list nat) : list nat := fold_right insert_sorted [] l.

