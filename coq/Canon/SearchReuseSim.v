(* Canon/SearchReuseSim.v — second half of the noninterference proof for a reused CanonicalStorage:
   contents.  [Sim st sr]: the state [sr] of the run on a reused storage agrees with the state [st]
   of the run on a fresh one in everything the search can still look at:
   * the partition, the stacks, count, currentBest, the generators, skipDeage are equal;
   * before the first leaf (currentBest empty, count = 0) the records currentBestPath/Perm/PermInv,
     firstLeaf, firstLeafPath/PermInv/Orbits of [sr] hold arbitrary (stale) data of the right length;
     they are not read before the first leaf overwrites them (completely, because a leaf certificate
     has exactly m entries and op.order is a permutation of 0..n-1);
   * from the first leaf on they are equal, except the tails of the two recorded paths beyond the
     length of the recorded leaf ([PathSim], Canon/SearchReusePath.v).
   Every step of the search preserves [Sim]; the facts about the fresh run that are needed (a leaf
   certificate has m entries, the stack nodes are inner nodes of the tree reached by the prefixes of
   the path, lengths of the records) come from the invariant [PP...] of Canon/SearchInvP.v. *)
From Coq Require Import List Arith Bool ZArith Lia Permutation Sorted.
From Mamba Require Import Canon.Perm Canon.Iso Canon.Model Canon.Refine Canon.Sorted Canon.Tree Canon.Fuel
  Disjoint.Model Disjoint.Proofs Canon.SearchModel Canon.SearchHoare Canon.SearchCells Canon.SearchTarget
  Canon.SearchDeage Canon.SearchRefine Canon.SearchExec Canon.SearchValue Canon.SearchExpand Canon.SearchCert
  Canon.SearchOrder Canon.SearchEquiv Canon.SearchWalk Canon.SearchEquit Canon.SearchCut Canon.SearchSibling
  Canon.SearchLink Canon.SearchInvT Canon.SearchVCT Canon.SearchInvV Canon.SearchVCV Canon.SearchPrune
  Canon.SearchGroup Canon.SearchCutW Canon.SearchInvP Canon.SearchTerm
  Canon.SearchReuseModel Canon.SearchReuseCap Canon.SearchReusePath.
Import ListNotations.
Open Scope nat_scope.

(* ---------------------------------------------------------------- currentBestPermInv *)

Lemma list_ext_nth_error : forall (A : Type) (l l' : list A), (forall i, nth_error l i = nth_error l' i) -> l = l'.
Proof.
  intros A. induction l as [|x l IH]; intros [|y l'] H.
  - reflexivity.
  - specialize (H 0). discriminate.
  - specialize (H 0). discriminate.
  - pose proof (H 0) as H0. simpl in H0. inversion H0; subst. f_equal. apply IH. intros i. exact (H (S i)).
Qed.

(* "for i := range op.order { currentBestPermInv[op.order[i]] = i }" on two arrays of the same length:
   the cells named by op.order end up equal, the others keep what they had *)
Lemma inv_into_agree : forall order arr arr' i q, length arr' = length arr -> inv_into arr order i = Some q ->
  exists q', inv_into arr' order i = Some q' /\ length q' = length q /\
    forall v, In v order \/ nth_error arr' v = nth_error arr v -> nth_error q' v = nth_error q v.
Proof.
  induction order as [|x order IH]; intros arr arr' i q HL H; simpl in H.
  - inversion H; subst. exists arr'. split; [reflexivity|]. split; [exact HL|]. intros v [[]|E]. exact E.
  - destruct (upd_chk arr x i) as [arr1|] eqn:EU; [|discriminate].
    destruct (upd_chk_spec _ _ _ _ EU) as (U1 & U2 & U3 & U4).
    assert (EU' : upd_chk arr' x i = Some (Disjoint.Model.upd arr' x i)).
    { unfold upd_chk. assert (E : x <? length arr' = true) by (apply Nat.ltb_lt; lia). rewrite E. reflexivity. }
    destruct (upd_chk_spec _ _ _ _ EU') as (V1 & V2 & V3 & V4).
    destruct (IH arr1 (Disjoint.Model.upd arr' x i) (S i) q ltac:(lia) H) as (q' & Q1 & Q2 & Q3).
    exists q'. simpl. rewrite EU'. split; [exact Q1|]. split; [exact Q2|].
    intros v Hv. apply Q3. destruct (Nat.eq_dec v x) as [->|Hne].
    + right. rewrite U3, V3. reflexivity.
    + destruct Hv as [[E|Hin]|E]; [congruence|left; exact Hin|right]. rewrite U4, V4 by exact Hne. exact E.
Qed.

Lemma inv_into_full : forall n order arr arr' q, Permutation order (seq 0 n) -> length arr = n -> length arr' = n ->
  inv_into arr order 0 = Some q -> inv_into arr' order 0 = Some q.
Proof.
  intros n order arr arr' q HP HL HL' H.
  destruct (inv_into_agree order arr arr' 0 q ltac:(lia) H) as (q' & Q1 & Q2 & Q3).
  rewrite Q1. f_equal. apply list_ext_nth_error. intros v.
  assert (HLq : length q = n).
  { assert (G : forall o a i r, inv_into a o i = Some r -> length r = length a).
    { induction o as [|x o IHo]; intros a i r Hr; simpl in Hr; [inversion Hr; reflexivity|].
      destruct (upd_chk a x i) as [a1|] eqn:EU; [|discriminate]. destruct (upd_chk_spec _ _ _ _ EU) as (_ & U2 & _).
      rewrite (IHo _ _ _ Hr). exact U2. }
    rewrite (G _ _ _ _ H). exact HL. }
  destruct (Nat.lt_ge_cases v n) as [Hlt|Hge].
  - apply Q3. left. apply (Permutation_in _ (Permutation_sym HP)). apply in_seq. lia.
  - rewrite (proj2 (nth_error_None q' v)) by lia. rewrite (proj2 (nth_error_None q v)) by lia. reflexivity.
Qed.

(* ---------------------------------------------------------------- the simulation relation *)

Section Sim.
Variable g : graph.
Variables n m : nat.
Variable clsf : nat -> nat.
Variable order0 : list nat.
Variable root : part.
Variables cbB flB : list nat.
Variable gcap : nat.
Hypothesis Hg : simple g.
Hypothesis Hn : length g = n.
Hypothesis Hm : m = num_edges g.
Hypothesis Hm0 : 0 < m.
Hypothesis HcbB : m <= length cbB.
Hypothesis HflB : m <= length flB.
Hypothesis Hgcap : n - 1 <= gcap.

Notation Xc := (Kc clsf order0).
Notation PPstep := (PPstep g n m clsf order0 root).
Notation PPtop := (PPtop g n m clsf order0 root).
Notation PPj := (PPj g n m clsf order0 root).
Notation PPref := (PPref g n m clsf order0 root).
Notation PPdone := (PPdone g n m clsf order0 root).
Notation recs := (recs g n m clsf order0).
Notation tree_ok := (tree_ok g n root Xc).
Notation PathSim := (PathSim g root).

(* the stale records before the first leaf: lengths only *)
Definition lens (sr : sstate) : Prop :=
  length (s_cbPath sr) = n /\ length (s_cbPerm sr) = n /\ length (s_cbInv sr) = n /\
  length (s_fl sr) = m /\ length (s_flPath sr) = n /\ length (s_flInv sr) = n /\ length (s_flOrb sr) = n.

Record Sim (st sr : sstate) : Prop := mkSim {
  sim_ps : s_ps sr = s_ps st;
  sim_path : s_path sr = s_path st;
  sim_choices : s_choices sr = s_choices st;
  sim_count : s_count sr = s_count st;
  sim_cb : s_cb sr = s_cb st;
  sim_gens : s_gens sr = s_gens st;
  sim_skip : s_skip sr = s_skip st;
  sim_pre : s_cb st = [] -> lens sr;
  sim_post : s_cb st <> [] ->
    s_cbPerm sr = s_cbPerm st /\ s_cbInv sr = s_cbInv st /\ s_cbOrb sr = s_cbOrb st /\
    s_fl sr = s_fl st /\ s_flInv sr = s_flInv st /\ s_flOrb sr = s_flOrb st /\
    PathSim (s_cbPath st) (s_cbPath sr) /\ PathSim (s_flPath st) (s_flPath sr) }.

(* what is used of the invariant of the fresh run *)
Definition Fr (st : sstate) : Prop :=
  recs st /\ plens n st /\ length (s_cbPerm st) = n /\
  exists anc, tree_ok anc (s_path st) /\ stack_ok g n root Xc anc (s_path st) (s_choices st).

Lemma PPtop_Fr : forall st w, PPtop st w -> Fr st.
Proof.
  intros st w (anc & HT & HV & HPi & _ & Hpl & _).
  destruct HT as ((HS & _ & _ & [HCb _]) & _). destruct HV as (_ & _ & HR & _). destruct HPi as (HL & HW & _).
  split; [exact HR|]. split; [exact Hpl|]. split; [exact HCb|]. exists anc. split; [|exact HS].
  split; [exact HL|]. split; [exact HW|]. destruct HS as (_ & _ & HNo & _). exact HNo.
Qed.

Lemma PPj_Fr : forall st j, PPj st j -> Fr st /\ s_path st <> [].
Proof.
  intros st j (anc & HT & HV & HPi & _ & Hpl).
  destruct HT as (HS & _ & Hne & _ & [HCb _]). destruct HV as (_ & _ & HR & _). destruct HPi as (HL & HW & _).
  split; [|exact Hne]. split; [exact HR|]. split; [exact Hpl|]. split; [exact HCb|]. exists anc. split; [|exact HS].
  split; [exact HL|]. split; [exact HW|]. destruct HS as (_ & _ & HNo & _). exact HNo.
Qed.

Lemma Fr_cb_length : forall st, Fr st -> s_cb st <> [] -> length (s_cb st) = m.
Proof.
  intros st (HR & _) Hcb. destruct (r_best _ _ _ _ _ _ HR Hcb) as (csb & HLb & _ & _ & -> & _).
  rewrite Hm. apply cert_length; assumption.
Qed.

Lemma Fr_fl_length : forall st, Fr st -> length (s_fl st) = m.
Proof. intros st (HR & _). destruct (r_lens _ _ _ _ _ _ HR) as (_ & _ & H & _). exact H. Qed.

Lemma Fr_count : forall st, Fr st -> (s_cb st = [] <-> s_count st = 0).
Proof. intros st (HR & _). exact (proj1 (r_zero _ _ _ _ _ _ HR)). Qed.

Lemma sim_cbfl : forall st sr, Fr st -> Sim st sr -> cbfl_ok m (s_cb st) (s_fl st) (s_fl sr).
Proof.
  intros st sr HF HS. destruct (s_cb st) as [|x c] eqn:E; [left; reflexivity|right].
  assert (Hcb : s_cb st <> []) by (rewrite E; discriminate).
  destruct (sim_post _ _ HS Hcb) as (_ & _ & _ & E4 & _). split; [exact E4|]. split.
  - rewrite <- E. apply Fr_cb_length; assumption.
  - apply Fr_fl_length. exact HF.
Qed.

(* ---------------------------------------------------------------- changes of the state that keep Sim *)

Lemma Sim_core : forall st sr ps path choices skip, Sim st sr ->
  Sim (mkS ps path choices (s_count st) (s_cb st) (s_cbPath st) (s_cbPerm st) (s_cbInv st) (s_cbOrb st)
           (s_fl st) (s_flPath st) (s_flInv st) (s_flOrb st) (s_gens st) skip)
      (mkS ps path choices (s_count sr) (s_cb sr) (s_cbPath sr) (s_cbPerm sr) (s_cbInv sr) (s_cbOrb sr)
           (s_fl sr) (s_flPath sr) (s_flInv sr) (s_flOrb sr) (s_gens sr) skip).
Proof.
  intros st sr ps path choices skip [S1 S2 S3 S4 S5 S6 S7 S8 S9].
  constructor; cbn [s_ps s_path s_choices s_count s_cb s_gens s_skip s_cbPerm s_cbInv s_cbOrb s_fl s_flInv s_flOrb s_cbPath s_flPath];
    try reflexivity; try assumption.
Qed.

Lemma Sim_set_ps : forall st sr ps, Sim st sr -> Sim (set_ps st ps) (set_ps sr ps).
Proof. intros st sr ps H. unfold set_ps. rewrite (sim_path _ _ H), (sim_choices _ _ H), (sim_skip _ _ H). apply Sim_core. exact H. Qed.

Lemma Sim_set_stack : forall st sr path choices, Sim st sr -> Sim (set_stack st path choices) (set_stack sr path choices).
Proof. intros st sr p c H. unfold set_stack. rewrite (sim_ps _ _ H), (sim_skip _ _ H). apply Sim_core. exact H. Qed.

Lemma Sim_set_skip : forall st sr b, Sim st sr -> Sim (set_skip st b) (set_skip sr b).
Proof. intros st sr b H. unfold set_skip. rewrite (sim_ps _ _ H), (sim_path _ _ H), (sim_choices _ _ H). apply Sim_core. exact H. Qed.

Lemma Sim_bump : forall st sr, Sim st sr -> s_cb st <> [] -> Sim (bump st) (bump sr).
Proof.
  intros st sr [S1 S2 S3 S4 S5 S6 S7 S8 S9] Hcb.
  constructor; cbn [bump s_ps s_path s_choices s_count s_cb s_gens s_skip s_cbPerm s_cbInv s_cbOrb s_fl s_flInv s_flOrb s_cbPath s_flPath];
    try assumption. f_equal. exact S4.
Qed.

Lemma Sim_set_flOrb : forall st sr d d', Sim st sr -> (s_cb st = [] -> length d' = n) -> (s_cb st <> [] -> d' = d) ->
  Sim (set_flOrb st d) (set_flOrb sr d').
Proof.
  intros st sr d d' [S1 S2 S3 S4 S5 S6 S7 S8 S9] H1 H2.
  constructor; cbn [set_flOrb s_ps s_path s_choices s_count s_cb s_gens s_skip s_cbPerm s_cbInv s_cbOrb s_fl s_flInv s_flOrb s_cbPath s_flPath];
    try assumption.
  - intros E. destruct (S8 E) as (L1 & L2 & L3 & L4 & L5 & L6 & L7). unfold lens.
    cbn [s_cbPerm s_cbInv s_fl s_flInv s_flOrb s_cbPath s_flPath]. repeat split; try assumption. apply H1. exact E.
  - intros E. destruct (S9 E) as (E1 & E2 & E3 & E4 & E5 & E6 & E7 & E8).
    split; [exact E1|]. split; [exact E2|]. split; [exact E3|]. split; [exact E4|]. split; [exact E5|].
    split; [apply H2; exact E|]. split; assumption.
Qed.

Lemma Sim_set_cbOrb : forall st sr d d', Sim st sr -> (s_cb st <> [] -> d' = d) ->
  Sim (set_cbOrb st d) (set_cbOrb sr d').
Proof.
  intros st sr d d' [S1 S2 S3 S4 S5 S6 S7 S8 S9] H2.
  constructor; cbn [set_cbOrb s_ps s_path s_choices s_count s_cb s_gens s_skip s_cbPerm s_cbInv s_cbOrb s_fl s_flInv s_flOrb s_cbPath s_flPath];
    try assumption.
  intros E. destruct (S9 E) as (E1 & E2 & E3 & E4 & E5 & E6 & E7 & E8).
  split; [exact E1|]. split; [exact E2|]. split; [apply H2; exact E|]. split; [exact E4|]. split; [exact E5|].
  split; [exact E6|]. split; assumption.
Qed.

Lemma Sim_set_gens : forall st sr gs, Sim st sr -> Sim (set_gens st gs) (set_gens sr gs).
Proof.
  intros st sr gs [S1 S2 S3 S4 S5 S6 S7 S8 S9].
  constructor; cbn [set_gens s_ps s_path s_choices s_count s_cb s_gens s_skip s_cbPerm s_cbInv s_cbOrb s_fl s_flInv s_flOrb s_cbPath s_flPath];
    try assumption. reflexivity.
Qed.

(* ---------------------------------------------------------------- undo, push, pop *)

Lemma undo_sim : forall st sr, Sim st sr -> rel_res Sim (undo st) (undo sr).
Proof.
  intros st sr HS. unfold undo. rewrite (sim_skip _ _ HS), (sim_ps _ _ HS). destruct (s_skip st).
  - simpl. eexists. split; [reflexivity|]. apply Sim_set_skip. exact HS.
  - destruct (deage (s_ps st)) as [ps'| |]; simpl; auto. eexists. split; [reflexivity|]. apply Sim_set_ps. exact HS.
Qed.

Lemma undo_fields : forall st st1, undo st = Ok st1 ->
  s_path st1 = s_path st /\ s_choices st1 = s_choices st /\ s_count st1 = s_count st /\ s_cb st1 = s_cb st /\
  s_cbPath st1 = s_cbPath st /\ s_flPath st1 = s_flPath st /\ s_cbOrb st1 = s_cbOrb st /\ s_flOrb st1 = s_flOrb st /\
  s_fl st1 = s_fl st.
Proof.
  intros st st1 H. destruct (undo_cases _ _ H) as [(_ & ->)|(_ & ps' & _ & ->)]; repeat split.
Qed.

Lemma push_sim : forall st sr, Sim st sr -> Sim (push_step st) (push_step sr).
Proof.
  intros st sr HS. unfold push_step. rewrite (sim_ps _ _ HS). destruct (first_big (p_cells (s_ps st)) 0) as [[e sz]|]; [|exact HS].
  rewrite (sim_path _ _ HS), (sim_choices _ _ HS). apply Sim_set_skip. apply Sim_set_stack. exact HS.
Qed.

Lemma pop_sim : forall st sr, Sim st sr -> Sim (pop st) (pop sr).
Proof. intros st sr HS. unfold pop. rewrite (sim_path _ _ HS), (sim_choices _ _ HS). apply Sim_set_stack. exact HS. Qed.

(* ---------------------------------------------------------------- one iteration of jLoop *)

Lemma h2_sim : forall anc count lp lp' path ds ds' order pos j v d b,
  tree_ok anc path -> path <> [] ->
  (count = 0 \/ (ds' = ds /\ PathSim lp lp')) ->
  h2 count lp path ds order pos j v = Ok (d, b) ->
  exists d', h2 count lp' path ds' order pos j v = Ok (d', b) /\
    ((count = 0 /\ d = ds /\ d' = ds') \/ (0 < count /\ d' = d)).
Proof.
  intros anc count lp lp' path ds ds' order pos j v d b HT Hne Hc H. unfold h2 in *.
  destruct count as [|c].
  - simpl in *. inversion H; subst. exists ds'. split; [reflexivity|]. left. auto.
  - destruct Hc as [Hc|[-> HP]]; [discriminate|].
    rewrite (has_prefix_sim g n root Xc anc path lp lp' HT HP Hne).
    exists d. split; [exact H|]. right. split; [lia|reflexivity].
Qed.

Lemma jbody_sim : forall j st sr, PPj st (S j) -> Sim st sr ->
  rel_res (fun a b => snd b = snd a /\ Sim (fst a) (fst b)) (jbody g n m j st) (jbody_r g n cbB flB j sr).
Proof.
  intros j st sr HP HS. destruct (PPj_Fr _ _ HP) as [HF Hne].
  destruct (jbody g n m j st) as [[st' ok]| |] eqn:EJ; simpl; [|exact I|exfalso; exact (nofuel_jbody g n m j st EJ)].
  destruct (jbody_cases g n m j st st' ok EJ) as (st1 & pos & v & fo & b1 & HU & HL & Hv & H2a & Hrest).
  pose proof (undo_sim st sr HS) as HUs. rewrite HU in HUs. simpl in HUs. destruct HUs as (sr1 & HUr & HS1).
  destruct (undo_fields _ _ HU) as (F1 & F2 & F3 & F4 & F5 & F6 & F7 & F8 & F9).
  pose proof HF as (HR & _ & _ & anc & HT & _).
  assert (HT1 : tree_ok anc (s_path st1)) by (rewrite F1; exact HT).
  assert (Hne1 : s_path st1 <> []) by (rewrite F1; exact Hne).
  assert (Hcnt : s_cb st1 = [] <-> s_count st1 = 0) by (rewrite F3, F4; apply Fr_count; exact HF).
  (* the state of the reuse run with the fields that are equal rewritten *)
  unfold jbody_r. rewrite HUr. cbn [bind].
  rewrite (sim_choices _ _ HS1), HL.
  cbn [set_stack set_flOrb set_cbOrb set_ps s_ps s_count s_flPath s_cbPath s_path s_flOrb s_cbOrb s_choices s_cb s_fl].
  rewrite (sim_ps _ _ HS1), Hv. cbn [of_opt bind].
  rewrite (sim_count _ _ HS1), (sim_path _ _ HS1).
  (* Heuristic 2 with firstLeafPath / firstLeafOrbits *)
  destruct (h2_sim anc (s_count st1) (s_flPath st1) (s_flPath sr1) (s_path st1) (s_flOrb st1) (s_flOrb sr1)
              (order_of (p_cells (s_ps st1))) pos j v fo b1 HT1 Hne1) as (fo' & H2r & Hfo); [|exact H2a|].
  { destruct (s_cb st1) as [|x c] eqn:Ecb; [left; apply Hcnt; reflexivity|right].
    assert (Hcb : s_cb st1 <> []) by (rewrite Ecb; discriminate).
    destruct (sim_post _ _ HS1 Hcb) as (_ & _ & _ & _ & _ & E6 & _ & E8). split; assumption. }
  rewrite H2r. cbn [bind fst snd].
  set (st2 := set_stack st1 (s_path st1) (set_last (s_choices st1) pos)) in *.
  set (sr2 := set_stack sr1 (s_path st1) (set_last (s_choices st1) pos)).
  assert (HS2 : Sim st2 sr2) by (apply Sim_set_stack; exact HS1).
  assert (HS3 : Sim (set_flOrb st2 fo) (set_flOrb sr2 fo')).
  { apply Sim_set_flOrb; [exact HS2| |].
    - intros E. destruct Hfo as [(_ & _ & ->)|(Hc & _)].
      + destruct (sim_pre _ _ HS1 E) as (_ & _ & _ & _ & _ & _ & L7). exact L7.
      + apply Hcnt in E. lia.
    - intros E. destruct Hfo as [(Hc & _)|(_ & ->)]; [|reflexivity]. apply Hcnt in Hc. contradiction. }
  destruct Hrest as [(-> & -> & ->)|(-> & co & b2 & H2b & Hrest)].
  { eexists. split; [reflexivity|]. cbn [fst snd]. split; [reflexivity|]. apply Sim_set_skip. exact HS3. }
  (* Heuristic 2 with currentBestPath / currentBestOrbits *)
  destruct (h2_sim anc (s_count st1) (s_cbPath st1) (s_cbPath sr1) (s_path st1) (s_cbOrb st1) (s_cbOrb sr1)
              (order_of (p_cells (s_ps st1))) pos j v co b2 HT1 Hne1) as (co' & H2r' & Hco); [|exact H2b|].
  { destruct (s_cb st1) as [|x c] eqn:Ecb; [left; apply Hcnt; reflexivity|right].
    assert (Hcb : s_cb st1 <> []) by (rewrite Ecb; discriminate).
    destruct (sim_post _ _ HS1 Hcb) as (_ & _ & E3 & _ & _ & _ & E7 & _). split; assumption. }
  rewrite H2r'. cbn [bind fst snd].
  assert (HS4 : Sim (set_cbOrb (set_flOrb st2 fo) co) (set_cbOrb (set_flOrb sr2 fo') co')).
  { apply Sim_set_cbOrb; [exact HS3|]. intros E. destruct Hco as [(Hc & _)|(_ & ->)]; [|reflexivity].
    apply Hcnt in Hc. contradiction. }
  destruct Hrest as [(-> & -> & ->)|(-> & w & ps' & HSp & -> & ->)].
  { eexists. split; [reflexivity|]. cbn [fst snd]. split; [reflexivity|]. apply Sim_set_skip. exact HS4. }
  (* splitBin *)
  assert (HSp' : split_bin_r g n cbB flB (s_cb sr1) (s_fl sr1) (s_ps st1) pos = Ok (w, ps')).
  { rewrite (sim_cb _ _ HS1). rewrite (split_bin_sim g n m cbB flB HcbB HflB (s_cb st1) (s_fl st1) (s_fl sr1)); [exact HSp| |rewrite HSp; discriminate].
    destruct (s_cb st1) as [|x c] eqn:Ecb; [left; reflexivity|right].
    assert (Hcb : s_cb st1 <> []) by (rewrite Ecb; discriminate).
    destruct (sim_post _ _ HS1 Hcb) as (_ & _ & _ & E4 & _). split; [exact E4|]. split.
    - rewrite F4. apply Fr_cb_length; [exact HF|]. rewrite <- F4. discriminate.
    - rewrite F9. apply Fr_fl_length. exact HF. }
  rewrite HSp'. cbn [bind fst snd].
  eexists. split; [reflexivity|]. cbn [fst snd]. split; [reflexivity|].
  apply Sim_set_stack. apply Sim_set_ps. exact HS4.
Qed.

(* ---------------------------------------------------------------- a leaf *)

Lemma record_gen_sim : forall st sr gam st1, Sim st sr -> s_cb st <> [] ->
  record_gen n st gam = Ok st1 -> exists sr1, record_gen_r n gcap sr gam = Ok sr1 /\ Sim st1 sr1.
Proof.
  intros st sr gam st1 HS Hcb H.
  destruct (record_gen_cases n _ _ _ H) as (d & b & HO & Hcase).
  destruct (sim_post _ _ HS Hcb) as (_ & _ & _ & _ & _ & E6 & _).
  unfold record_gen_r. rewrite E6, HO. cbn [of_opt bind fst snd].
  destruct Hcase as [(-> & HL & ->)|(-> & ->)].
  - rewrite (sim_gens _ _ HS).
    assert (E : gcap <? length (s_gens st) + 1 = false) by (apply Nat.ltb_ge; lia). rewrite E.
    eexists. split; [reflexivity|]. apply Sim_set_gens. apply Sim_set_flOrb; [exact HS|intros; contradiction|reflexivity].
  - eexists. split; [reflexivity|]. apply Sim_set_flOrb; [exact HS|intros; contradiction|reflexivity].
Qed.

Lemma back_jump_sim : forall anc st sr bp bp' st', tree_ok anc (s_path st) -> Sim st sr -> PathSim bp bp' ->
  back_jump st bp = Ok st' -> exists sr', back_jump sr bp' = Ok sr' /\ Sim st' sr'.
Proof.
  intros anc st sr bp bp' st' HT HS HP H.
  destruct (back_jump_cases _ _ _ H) as (keep & ps' & HK & HD & ->).
  unfold back_jump. rewrite (sim_path _ _ HS), (h1_keep_sim g n root Xc anc _ bp bp' HT HP), HK. cbn [of_opt bind].
  rewrite (sim_ps _ _ HS), HD. cbn [bind]. rewrite (sim_choices _ _ HS).
  eexists. split; [reflexivity|]. apply Sim_set_stack. apply Sim_set_ps. exact HS.
Qed.

Lemma leaf_step_sim : forall st sr, PPtop st false -> length (p_cells (s_ps st)) = n -> Sim st sr ->
  rel_res Sim (leaf_step n m st) (leaf_step_r n m cbB gcap sr).
Proof.
  intros st sr HP Hlen HS. pose proof (PPtop_Fr _ _ HP) as HF.
  destruct (leaf_step n m st) as [st'| |] eqn:EL; simpl; [|exact I|exfalso; exact (nofuel_leaf_step n m st EL)].
  pose proof HP as (anc0 & _ & HV & _ & _ & Hpl & _ & Hwalk & _). specialize (Hwalk eq_refl).
  destruct (leaf_facts g n m clsf order0 root Hg Hn Hm Hm0 st HV Hlen) as (HLp & _ & _ & Hvm & HLcp).
  pose proof HF as (HR & _ & _ & anc & HT & HSt).
  destruct (r_lens _ _ _ _ _ _ HR) as (LcbInv & LflInv & Lfl & LflOrb).
  destruct Hpl as [LcbPath LflPath].
  destruct (leafp_length _ _ HLp) as (_ & Lord & _).
  assert (Htl : target (erase (p_cells (s_ps st))) = None) by (apply target_singles; exact (proj1 HLp)).
  assert (HLn : length (s_path st) <= n) by (eapply tree_depth; exact HSt).
  assert (Hvne : p_value (s_ps st) <> []) by (intros E; rewrite E in Hvm; simpl in Hvm; lia).
  unfold leaf_step_r. cbn [bump s_ps s_cb s_cbInv s_cbOrb s_fl s_flInv].
  rewrite (sim_ps _ _ HS), (sim_cb _ _ HS).
  destruct (leaf_step_cases _ _ _ _ EL) as [(HCm & cbInv & HI & ->)|[(HCm & gam & d & b & st1 & HG & HO & HRg & HBj)|
    [(HCm & HC2 & gam & st1 & HG & HRg & HBj)|(HCm & HC2 & ->)]]]; rewrite HCm.
  - (* a better leaf: every record is overwritten completely *)
    assert (HIr : inv_into (s_cbInv sr) (order_of (p_cells (s_ps st))) 0 = Some cbInv).
    { apply (inv_into_full n _ (s_cbInv st)); [exact (proj2 HLp)|exact LcbInv| |exact HI].
      destruct (s_cb st) as [|x c] eqn:Ecb.
      - destruct (sim_pre _ _ HS Ecb) as (_ & _ & L3 & _). exact L3.
      - assert (Hcb : s_cb st <> []) by (rewrite Ecb; discriminate).
        destruct (sim_post _ _ HS Hcb) as (_ & -> & _). exact LcbInv. }
    rewrite HIr. cbn [of_opt bind]. unfold new_best_r, new_best.
    cbn [bump s_ps s_path s_choices s_count s_cb s_cbPath s_cbPerm s_cbInv s_cbOrb s_fl s_flPath s_flInv s_flOrb s_gens s_skip].
    rewrite (sim_ps _ _ HS), (sim_cb _ _ HS), (sim_path _ _ HS), (sim_choices _ _ HS), (sim_count _ _ HS), (sim_gens _ _ HS), (sim_skip _ _ HS).
    (* currentBest[:m] has m cells in both runs *)
    assert (Hsl : exists cbm, slice_to cbB (s_cb st) m = Some cbm /\ length cbm = m).
    { destruct (s_cb st) as [|x c] eqn:Ecb.
      - rewrite slice_to_nil by exact HcbB. eexists. split; [reflexivity|]. rewrite firstn_length. lia.
      - assert (Lcb : length (x :: c) = m) by (rewrite <- Ecb; apply Fr_cb_length; [exact HF|rewrite Ecb; discriminate]).
        rewrite slice_to_live by lia. eexists. split; [reflexivity|]. rewrite firstn_length. lia. }
    destruct Hsl as (cbm & -> & Lcbm). cbn [of_opt bind].
    assert (Ecbf : copy_into (firstn m (s_cb st ++ repeat 0 (m - length (s_cb st)))) (p_value (s_ps st)) = p_value (s_ps st)).
    { apply copy_into_same_length. rewrite firstn_length, app_length, repeat_length. lia. }
    rewrite Ecbf, (copy_into_same_length _ cbm (p_value (s_ps st))) by lia.
    (* the lengths of the stale records of the reuse run *)
    assert (Lr : lens sr).
    { destruct (s_cb st) as [|x c] eqn:Ecb; [apply (sim_pre _ _ HS Ecb)|].
      assert (Hcb : s_cb st <> []) by (rewrite Ecb; discriminate).
      destruct (sim_post _ _ HS Hcb) as (E1 & E2 & _ & E4 & E5 & E6 & (L7 & _) & (L8 & _)).
      unfold lens. rewrite E1, E2, E4, E5, E6, L7, L8. repeat split; assumption. }
    destruct Lr as (R1 & R2 & R3 & R4 & R5 & R6 & R7).
    rewrite (copy_into_same_length _ (s_cbPerm st)) by lia. rewrite (copy_into_same_length _ (s_cbPerm sr)) by lia.
    assert (PB : PathSim (copy_into (s_cbPath st) (s_path st)) (copy_into (s_cbPath sr) (s_path st))).
    { eapply PathSim_record; [lia|lia|exact Hwalk|exact Htl]. }
    destruct (S (s_count st) =? 1) eqn:Ec.
    + (* the first leaf *)
      assert (LcI : length cbInv = n).
      { destruct (inv_into_spec _ _ _ _ HI ltac:(apply (Permutation_NoDup (Permutation_sym (proj2 HLp))), seq_NoDup)) as (L & _). lia. }
      rewrite (copy_into_same_length _ (s_fl st)) by lia. rewrite (copy_into_same_length _ (s_fl sr)) by lia.
      rewrite (copy_into_same_length _ (s_flInv st)) by lia. rewrite (copy_into_same_length _ (s_flInv sr)) by lia.
      rewrite (copy_into_same_length _ (s_flOrb st)) by (unfold new; rewrite repeat_length; lia).
      rewrite (copy_into_same_length _ (s_flOrb sr)) by (unfold new; rewrite repeat_length; lia).
      eexists. split; [reflexivity|].
      constructor; cbn [s_ps s_path s_choices s_count s_cb s_gens s_skip s_cbPerm s_cbInv s_cbOrb s_fl s_flInv s_flOrb s_cbPath s_flPath];
        try reflexivity; [intros E; contradiction|].
      intros _. repeat (split; [reflexivity|]). split; [exact PB|].
      eapply PathSim_record; [lia|lia|exact Hwalk|exact Htl].
    + (* a later leaf: the records of the first leaf stay *)
      apply Nat.eqb_neq in Ec. assert (Hcb : s_cb st <> []) by (intros E; apply (Fr_count _ HF) in E; lia).
      destruct (sim_post _ _ HS Hcb) as (E1 & E2 & E3 & E4 & E5 & E6 & E7 & E8).
      eexists. split; [reflexivity|].
      constructor; cbn [s_ps s_path s_choices s_count s_cb s_gens s_skip s_cbPerm s_cbInv s_cbOrb s_fl s_flInv s_flOrb s_cbPath s_flPath];
        try reflexivity; [intros E; contradiction|].
      intros _. repeat (split; [reflexivity|]). split; [exact E4|]. split; [exact E5|]. split; [exact E6|]. split; [exact PB|exact E8].
  - (* the certificate of the best leaf *)
    assert (Hcb : s_cb st <> []).
    { intros E. rewrite E in HCm. apply cmp_nil_r in HCm. contradiction. }
    destruct (sim_post _ _ HS Hcb) as (E1 & E2 & E3 & E4 & E5 & E6 & E7 & E8).
    rewrite E2, HG. cbn [of_opt bind]. rewrite E3, HO. cbn [of_opt bind fst snd].
    destruct (record_gen_sim (set_cbOrb (bump st) d) (set_cbOrb (bump sr) d) gam st1) as (sr1 & HRr & HS1);
      [apply Sim_set_cbOrb; [apply Sim_bump; assumption|reflexivity]|exact Hcb|exact HRg|].
    rewrite HRr. cbn [bind].
    destruct (record_gen_fields n _ _ _ HRg) as (G1 & G2 & G3 & G4 & G5 & G6 & G7 & G8).
    cbn [set_cbOrb bump s_ps s_path s_choices s_skip s_cb s_cbPerm s_cbPath s_flPath] in G1, G2, G3, G4, G5, G6, G7, G8.
    assert (Hcb1 : s_cb st1 <> []) by (rewrite G5; exact Hcb).
    destruct (sim_post _ _ HS1 Hcb1) as (_ & _ & _ & _ & _ & _ & P7 & _).
    destruct (back_jump_sim anc st1 sr1 (s_cbPath st1) (s_cbPath sr1) st') as (sr' & HBr & HS'); [rewrite G2; exact HT|exact HS1|exact P7|exact HBj|].
    rewrite HBr. eexists. split; [reflexivity|exact HS'].
  - (* the certificate of the first leaf *)
    assert (Hcb : s_cb st <> []) by (eapply cmp_lt_nonnil; exact HCm).
    destruct (sim_post _ _ HS Hcb) as (E1 & E2 & E3 & E4 & E5 & E6 & E7 & E8).
    rewrite E4, HC2, E5, HG. cbn [of_opt bind].
    destruct (record_gen_sim (bump st) (bump sr) gam st1) as (sr1 & HRr & HS1);
      [apply Sim_bump; assumption|exact Hcb|exact HRg|].
    rewrite HRr. cbn [bind].
    destruct (record_gen_fields n _ _ _ HRg) as (G1 & G2 & G3 & G4 & G5 & G6 & G7 & G8).
    cbn [bump s_ps s_path s_choices s_skip s_cb s_cbPerm s_cbPath s_flPath] in G1, G2, G3, G4, G5, G6, G7, G8.
    assert (Hcb1 : s_cb st1 <> []) by (rewrite G5; exact Hcb).
    destruct (sim_post _ _ HS1 Hcb1) as (_ & _ & _ & _ & _ & _ & _ & P8).
    destruct (back_jump_sim anc st1 sr1 (s_flPath st1) (s_flPath sr1) st') as (sr' & HBr & HS'); [rewrite G2; exact HT|exact HS1|exact P8|exact HBj|].
    rewrite HBr. eexists. split; [reflexivity|exact HS'].
  - (* worse than both *)
    assert (Hcb : s_cb st <> []) by (eapply cmp_lt_nonnil; exact HCm).
    destruct (sim_post _ _ HS Hcb) as (_ & _ & _ & E4 & _). rewrite E4.
    destruct (cmp_list (p_value (s_ps st)) (s_fl st)); [congruence| |]; (eexists; split; [reflexivity|apply Sim_bump; assumption]).
Qed.

End Sim.
