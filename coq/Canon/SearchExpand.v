(* Canon/SearchExpand.v — the invariant of op.value / op.singletonPrefixLength:
   value = entries of the singleton prefix (+ what an aborted expandValue left behind, in which
   case value is already known to lose against the best certificate), through expandValue, one
   round of the refinement, and deage. *)
From Coq Require Import List Arith Bool ZArith Lia Permutation Sorted.
From Mamba Require Import Canon.Perm Canon.Iso Canon.Model Canon.Refine Canon.Sorted Canon.Tree Canon.Fuel
  Disjoint.Model Canon.SearchModel Canon.SearchCells Canon.SearchTarget Canon.SearchDeage
  Canon.SearchRefine Canon.SearchValue.
Import ListNotations.
Open Scope nat_scope.

Section Expand.
Variable g : graph.
Variables n m : nat.

Notation good := (good g n).
Notation ent := (ent g n).

Definition junk_ok (s : nat) (junk : list nat) : Prop := Forall (fun x => tri s <= x) junk.

Definition dirty (cb fl value : list nat) : Prop :=
  cb <> [] /\ cmp_list value (firstn (length value) cb) = Lt /\
  cmp_list value (firstn (length value) fl) <> Eq.

Definition clean (cs : list acell) (value : list nat) (spl : nat) : Prop :=
  value = good cs spl /\ prefix_single cs spl /\ spl = fns cs.

(* op.value is always exactly the entries of the first singletonPrefixLength positions, which are singleton
   bins; the prefix is the whole singleton prefix unless the value has just lost (since commit a4bdb37 of
   the code a cut-off sets singletonPrefixLength to the position where it lost, plus one) *)
Definition vinv (cs : list acell) (value : list nat) (spl : nat) (cb fl : list nat) : Prop :=
  value = good cs spl /\ prefix_single cs spl /\ (spl = fns cs \/ dirty cb fl value).

(* after undo: the partition is the node P on top of the stack *)
Definition uinv (P : list acell) (value : list nat) (spl : nat) (cb fl : list nat) : Prop :=
  spl = fns P /\ value = good P spl.

(* cut off: the value has lost *)
Definition dform (cs : list acell) (value : list nat) (spl : nat) (cb fl : list nat) : Prop :=
  value = good cs spl /\ prefix_single cs spl /\ dirty cb fl value.

Lemma clean_vinv : forall cs value spl cb fl, clean cs value spl -> vinv cs value spl cb fl.
Proof. intros cs value spl cb fl (H1 & H2 & H3). split; [exact H1|]. split; [exact H2|left; exact H3]. Qed.

Lemma fns_prefix_single : forall cs, prefix_single cs (fns cs).
Proof. intros cs k c Hk Hc. eapply fns_prefix; eassumption. Qed.

Lemma uinv_vinv : forall P value spl cb fl, uinv P value spl cb fl -> vinv P value spl cb fl.
Proof.
  intros P value spl cb fl (H1 & H2). split; [exact H2|]. split; [rewrite H1; apply fns_prefix_single|left; exact H1].
Qed.

(* ---------------------------------------------------------------- positions and bins *)

Lemma order_nth_single : forall j cs c u t, prefix_single cs j -> nth_error cs j = Some c -> cverts c = u :: t ->
  nth_error (order_of cs) j = Some u.
Proof.
  induction j as [|j IH]; intros cs c u t HP Hc Hu; destruct cs as [|c0 cs]; try discriminate; simpl in Hc.
  - inversion Hc; subst c0. rewrite order_of_cons, Hu. reflexivity.
  - destruct (HP 0 c0 ltac:(lia) eq_refl) as [x Hx]. rewrite order_of_cons, Hx. simpl.
    eapply IH; [|exact Hc|exact Hu]. intros k d Hk Hd. apply (HP (S k) d); [lia|exact Hd].
Qed.

Lemma fns_char : forall cs s c, prefix_single cs s -> nth_error cs s = Some c -> length (cverts c) <> 1 -> fns cs = s.
Proof.
  induction cs as [|c0 cs IH]; intros s c HP Hc Hn; [destruct s; discriminate|].
  destruct s as [|s]; simpl in *.
  - inversion Hc; subst c0. apply Nat.eqb_neq in Hn. rewrite Hn. reflexivity.
  - destruct (HP 0 c0 ltac:(lia) eq_refl) as [x Hx]. rewrite Hx. simpl. f_equal.
    eapply IH; [|exact Hc|exact Hn]. intros k d Hk Hd. apply (HP (S k) d); [lia|exact Hd].
Qed.

Lemma prefix_all : forall cs, prefix_single cs (length cs) -> Forall single cs.
Proof.
  induction cs as [|c cs IH]; intros H; constructor.
  - apply (H 0 c); [simpl; lia|reflexivity].
  - apply IH. intros k d Hk Hd. apply (H (S k) d); [simpl; lia|exact Hd].
Qed.

(* n singleton bins in front of a partition of n vertices into non-empty bins: there is nothing else *)
Lemma prefix_full : forall cs, prefix_single cs n -> n <= length cs -> nonempty cs -> length (order_of cs) = n ->
  length cs = n.
Proof.
  intros cs HP HL HN HO.
  assert (HS : Forall single (firstn n cs)).
  { apply prefix_all. rewrite firstn_length. replace (Nat.min n (length cs)) with n by lia.
    intros k c Hk Hc. rewrite nth_firstn_lt in Hc by assumption. eapply HP; eassumption. }
  rewrite <- (firstn_skipn n cs) in HO, HN. rewrite order_of_app, app_length in HO.
  rewrite (singles_order_length _ HS), firstn_length in HO.
  apply Forall_app in HN. destruct HN as [_ HN]. pose proof (nonempty_length _ HN) as HG.
  rewrite skipn_length in HG. lia.
Qed.

(* ---------------------------------------------------------------- expandValue *)

Lemma expand_loop_spec : forall cs cb fl, nonempty cs -> length (order_of cs) = n ->
  forall k j value, j + k = n -> j <= length cs -> prefix_single cs j -> value = good cs j ->
  match expand_loop k g cs n m cb fl value j with
  | EvPanic => True
  | EvOk v s => clean cs v s /\ j <= s
  | EvWorse v s => exists j', j <= j' /\ j' < n /\ s = S j' /\ v = good cs (S j') /\ prefix_single cs (S j') /\
                     S j' <= length cs /\ dirty cb fl v
  end.
Proof.
  intros cs cb fl HN HO. induction k as [|k IH]; intros j value Hjk Hj HP Hv; simpl.
  - assert (j = n) by lia. subst j. split; [|lia]. split; [exact Hv|]. split; [exact HP|].
    pose proof (prefix_full cs HP Hj HN HO) as HL. rewrite <- HL in HP.
    rewrite (fns_all_single _ (prefix_all _ HP)). symmetry. exact HL.
  - destruct (nth_error cs j) as [c|] eqn:Ec; [|exact I].
    destruct (length (cverts c) =? 1) eqn:E1.
    + apply Nat.eqb_eq in E1. destruct (proj2 (single_length c) E1) as [u Hu].
      rewrite (order_nth_single j cs c u [] HP Ec Hu).
      assert (Eent : entries g cs n j u = ent cs j) by (unfold SearchValue.ent; rewrite Ec, Hu; reflexivity).
      rewrite Eent.
      assert (Hv' : value ++ ent cs j = good cs (S j)) by (rewrite good_S, Hv; reflexivity).
      assert (HP' : prefix_single cs (S j)).
      { intros k0 d Hk Hd. destruct (Nat.eq_dec k0 j) as [->|]; [rewrite Ec in Hd; inversion Hd; subst; exists u; exact Hu|].
        apply (HP k0 d); [lia|exact Hd]. }
      assert (Hj' : S j <= length cs) by (apply nth_error_Some; rewrite Ec; discriminate).
      assert (Rec : match expand_loop k g cs n m cb fl (value ++ ent cs j) (S j) with
                    | EvPanic => True
                    | EvOk v s => clean cs v s /\ j <= s
                    | EvWorse v s => exists j', j <= j' /\ j' < n /\ s = S j' /\ v = good cs (S j') /\ prefix_single cs (S j') /\
                                       S j' <= length cs /\ dirty cb fl v
                    end).
      { specialize (IH (S j) (value ++ ent cs j) ltac:(lia) Hj' HP' Hv').
        destruct (expand_loop k g cs n m cb fl (value ++ ent cs j) (S j)) as [|v s0|v s]; [exact I| |].
        - destruct IH as (j' & A & B & C & D & E & F & G0). exists j'.
          split; [lia|]. split; [exact B|]. split; [exact C|]. split; [exact D|]. split; [exact E|]. split; [exact F|exact G0].
        - destruct IH as [IH1 IH2]. split; [exact IH1|lia]. }
      assert (Here : forall (HD : dirty cb fl (value ++ ent cs j)),
                exists j', j <= j' /\ j' < n /\ S j = S j' /\ value ++ ent cs j = good cs (S j') /\ prefix_single cs (S j') /\
                  S j' <= length cs /\ dirty cb fl (value ++ ent cs j)).
      { intros HD. exists j. split; [lia|]. split; [lia|]. split; [reflexivity|]. split; [exact Hv'|]. split; [exact HP'|]. split; [exact Hj'|exact HD]. }
      destruct cb as [|cb0 cbt]; [exact Rec|].
      destruct (m <? length (value ++ ent cs j)); [exact I|].
      destruct (cmp_list (value ++ ent cs j) (firstn (length (value ++ ent cs j)) (cb0 :: cbt))) eqn:EC; try exact Rec.
      destruct (cmp_list (value ++ ent cs j) (firstn (length (value ++ ent cs j)) fl)) eqn:EF; try exact Rec.
      * apply Here. split; [discriminate|]. split; [exact EC|]. rewrite EF. discriminate.
      * apply Here. split; [discriminate|]. split; [exact EC|]. rewrite EF. discriminate.
    + apply Nat.eqb_neq in E1. split; [|lia]. split; [exact Hv|]. split; [exact HP|].
      symmetry. eapply fns_char; eassumption.
Qed.

(* the exact form of the value at a cut-off: all the entries up to the position where it lost *)
Lemma expand_loop_worse : forall cs cb fl, nonempty cs -> length (order_of cs) = n ->
  forall k j value v s, j + k = n -> j <= length cs -> prefix_single cs j -> value = good cs j ->
  expand_loop k g cs n m cb fl value j = EvWorse v s ->
  exists j', j <= j' /\ j' < n /\ v = good cs (S j') /\ prefix_single cs (S j') /\ S j' <= length cs /\ s = S j' /\ dirty cb fl v.
Proof.
  intros cs cb fl HN HO k j value v s Hjk Hj HP Hv H.
  pose proof (expand_loop_spec cs cb fl HN HO k j value Hjk Hj HP Hv) as HE. rewrite H in HE.
  destruct HE as (j' & A & B & C & D & E & F & G0). exists j'.
  split; [exact A|]. split; [exact B|]. split; [exact D|]. split; [exact E|]. split; [exact F|]. split; [exact C|exact G0].
Qed.

(* ---------------------------------------------------------------- the child of a node in progress *)

(* b = index of the bin of the parent that was split *)
Definition cinv (b : nat) (cs : list acell) (value : list nat) (spl : nat) (cb fl : list nat) : Prop :=
  value = good cs spl /\ prefix_single cs spl /\ b < spl /\ (spl = fns cs \/ dirty cb fl value).

Lemma cinv_vinv : forall b cs value spl cb fl, cinv b cs value spl cb fl -> vinv cs value spl cb fl.
Proof. intros b cs value spl cb fl (H1 & H2 & H3 & H4). split; [exact H1|]. split; [exact H2|exact H4]. Qed.

Lemma firstn_app_le : forall (A : Type) (l r : list A) k, k <= length l -> firstn k (l ++ r) = firstn k l.
Proof. intros. rewrite firstn_app. replace (k - length l) with 0 by lia. simpl. apply app_nil_r. Qed.

Lemma same_cell_refl' : forall l, Forall2 same_cell l l.
Proof. induction l; constructor; [split; reflexivity|assumption]. Qed.

Lemma good_app_prefix : forall l r r' s, s <= length l -> good (l ++ r) s = good (l ++ r') s.
Proof. intros l r r' s H. apply good_prefix. rewrite !firstn_app_le by assumption. apply same_cell_refl'. Qed.

Lemma prefix_single_app : forall l r r' s, s <= length l -> prefix_single (l ++ r) s -> prefix_single (l ++ r') s.
Proof.
  intros l r r' s H HP k c Hk Hc. rewrite nth_error_app1 in Hc by lia. apply (HP k c Hk). rewrite nth_error_app1 by lia. exact Hc.
Qed.

Lemma uniform_single : forall w x, uniform g w [x] = true.
Proof. reflexivity. Qed.

(* splitBin on a node left by undo *)
Lemma split_bin_V : forall P age v s cb fl b c j a w ps',
  uinv P v s cb fl -> P = b ++ c :: a -> length b = fns P -> 2 <= length (cverts c) -> j < length (cverts c) ->
  nonempty P -> length (order_of P) = n ->
  locate P (fns P + j) = Some (b, c, j, a) ->
  split_bin g n m cb fl (mkP P age v s) (fns P + j) = Ok (w, ps') ->
  cinv (fns P) (p_cells ps') (p_value ps') (p_spl ps') cb fl /\
  (w = false -> clean (p_cells ps') (p_value ps') (p_spl ps') /\ fns P < p_spl ps').
Proof.
  intros P age v s cb fl b c j a w ps' (Hs & Hv) EP Hb H2 Hj HN HO HLoc HSp.
  destruct (split_bin_spec _ _ _ _ _ _ _ _ _ _ _ _ _ HSp HLoc H2) as (x & Hx & Hcs & _ & HV).
  cbn [p_cells p_age] in *.
  assert (HN' : nonempty (p_cells ps')) by (eapply V_nonempty; eassumption).
  assert (HO' : length (order_of (p_cells ps')) = n) by (rewrite (Permutation_length (V_order _ _ _ HV)); exact HO).
  unfold split_bin in HSp. cbn [p_cells p_age p_value p_spl] in HSp. rewrite HLoc, Hx in HSp.
  rewrite Hb, <- Hs, Nat.eqb_refl in HSp.
  set (cs' := b ++ ((age + 1)%Z, (true, [x])) :: (cage c, (true, firstn j (cverts c) ++ skipn (S j) (cverts c))) :: a) in *.
  assert (Hsb : s = length b) by lia.
  assert (HPS : prefix_single cs' s).
  { unfold cs'. apply (prefix_single_app b (c :: a) _ s); [lia|].
    rewrite <- EP, Hs. apply fns_prefix_single. }
  assert (HG : good cs' s = good P s) by (unfold cs'; rewrite EP; apply good_app_prefix; lia).
  assert (Hcell : nth_error cs' s = Some ((age + 1)%Z, (true, [x]))) by (unfold cs'; rewrite Hsb; apply nth_error_app_exact).
  assert (Hsn : s < n).
  { rewrite <- HO, EP, order_of_app, app_length, order_of_cons, app_length.
    assert (Forall single b).
    { apply prefix_all. rewrite <- Hsb. intros k d Hk Hd. apply (fns_prefix P k d); [lia|]. rewrite EP, nth_error_app1 by lia. exact Hd. }
    rewrite (singles_order_length _ H). lia. }
  assert (Hsl : s <= length cs') by (apply Nat.lt_le_incl, nth_error_Some; rewrite Hcell; discriminate).
  pose proof (expand_loop_spec cs' cb fl ltac:(rewrite <- Hcs; exact HN') ltac:(rewrite <- Hcs; exact HO')
                (n - s) s v ltac:(lia) Hsl HPS ltac:(rewrite HG; exact Hv)) as HE.
  unfold expand_value in HSp.
  destruct (expand_loop (n - s) g cs' n m cb fl v s) as [|v' s'|v' s'] eqn:EE; [discriminate| |].
  - inversion HSp; subst w ps'. cbn [p_cells p_value p_spl]. split; [|discriminate].
    destruct HE as (j' & A & B & C & D & E & F & G0). subst s'. split; [exact D|]. split; [exact E|]. split; [lia|right; exact G0].
  - inversion HSp; subst w ps'. cbn [p_cells p_value p_spl]. destruct HE as [(E1 & E2 & E3) E4].
    assert (s < s').
    { rewrite E3. unfold cs'. rewrite fns_app_singles.
      - simpl. lia.
      - apply prefix_all. rewrite <- Hsb. intros k d Hk Hd. apply (HPS k d Hk). unfold cs'. rewrite nth_error_app1 by lia. exact Hd. }
    split; [|intros _; split; [repeat split; assumption|lia]].
    split; [exact E1|]. split; [exact E2|]. split; [lia|left; exact E3].
Qed.

(* ---------------------------------------------------------------- one round of the refinement *)

Lemma nonuniform_not_single : forall w c, uniform g w (cverts c) = false -> length (cverts c) <> 1.
Proof. intros w c H E. apply single_length in E. destruct E as [x Hx]. rewrite Hx in H. discriminate. Qed.

Lemma fns_app : forall l r, fns (l ++ r) = if fns l =? length l then length l + fns r else fns l.
Proof.
  induction l as [|c l IH]; intros r; [reflexivity|]. simpl.
  destruct (length (cverts c) =? 1); [|reflexivity]. rewrite IH.
  change (S (fns l) =? S (length l)) with (fns l =? length l). destruct (fns l =? length l); reflexivity.
Qed.

Lemma fns_app_lt : forall l r r', fns (l ++ r) < length l -> fns (l ++ r') = fns (l ++ r).
Proof.
  intros l r r' H. rewrite (fns_app l r) in H. rewrite (fns_app l r), (fns_app l r').
  destruct (fns l =? length l); [lia|reflexivity].
Qed.

Lemma round_loop_V : forall cb fl w age pre_rev post value spl,
  nonempty (rev pre_rev ++ post) -> length (order_of (rev pre_rev ++ post)) = n ->
  clean (rev pre_rev ++ post) value spl ->
  match round_loop g n m cb fl w age pre_rev post value spl with
  | RrPanic => True
  | RrOk ps' => clean (p_cells ps') (p_value ps') (p_spl ps') /\ spl <= p_spl ps'
  | RrWorse ps' => spl < p_spl ps' /\ dform (p_cells ps') (p_value ps') (p_spl ps') cb fl
  end.
Proof.
  intros cb fl w age. induction pre_rev as [|c pre IH]; intros post value spl HN HO HC; simpl.
  - split; [exact HC|lia].
  - simpl in HN, HO, HC. rewrite <- app_assoc in HN, HO, HC. simpl in HN, HO, HC.
    destruct (uniform g w (cverts c)) eqn:HU; [apply IH; assumption|].
    set (wa := with_ages age (cage c) (fragments g w (cverts c))) in *.
    assert (HVc : V age (rev pre ++ c :: post) (rev pre ++ wa ++ post)).
    { apply V_app; [apply V_refl|]. apply (V_app age [c] wa post post); [|apply V_refl]. apply V_one, with_ages_vrep. exact HU. }
    assert (HN' : nonempty (rev pre ++ wa ++ post)) by (eapply V_nonempty; eassumption).
    assert (HO' : length (order_of (rev pre ++ wa ++ post)) = n) by (rewrite (Permutation_length (V_order _ _ _ HVc)); exact HO).
    destruct HC as (Hv & HP & Hs).
    assert (Hc : nth_error (rev pre ++ c :: post) (length pre) = Some c).
    { rewrite <- (rev_length pre). apply nth_error_app_exact. }
    assert (Hle : spl <= length pre).
    { destruct (Nat.lt_ge_cases (length pre) spl) as [Hlt|]; [|assumption]. exfalso.
      apply (nonuniform_not_single _ _ HU). apply single_length. apply (HP _ _ Hlt Hc). }
    assert (HG : good (rev pre ++ wa ++ post) spl = good (rev pre ++ c :: post) spl)
      by (apply good_app_prefix; rewrite rev_length; exact Hle).
    assert (HP' : prefix_single (rev pre ++ wa ++ post) spl)
      by (eapply prefix_single_app; [rewrite rev_length; exact Hle|exact HP]).
    destruct (length pre =? spl) eqn:EJ.
    + apply Nat.eqb_eq in EJ.
      assert (Hsl : spl <= length (rev pre ++ wa ++ post)) by (rewrite app_length, rev_length; lia).
      assert (Hsn : spl <= n).
      { rewrite <- HO'. pose proof (nonempty_length _ HN'). lia. }
      pose proof (expand_loop_spec (rev pre ++ wa ++ post) cb fl HN' HO' (n - spl) spl value ltac:(lia) Hsl HP'
                    ltac:(rewrite HG; exact Hv)) as HE.
      unfold expand_value.
      destruct (expand_loop (n - spl) g (rev pre ++ wa ++ post) n m cb fl value spl) as [|v' s'|v' s'] eqn:EE; [exact I| |].
      * cbn [p_spl p_value p_cells]. destruct HE as (j' & A & B & C & D & E & F & G0). subst s'. split; [lia|].
        split; [exact D|]. split; [exact E|exact G0].
      * destruct HE as [HE1 HE2]. specialize (IH (wa ++ post) v' s' HN' HO' HE1).
        destruct (round_loop g n m cb fl w age pre (wa ++ post) v' s') as [|ps1|ps1]; [exact I| |].
        -- destruct IH as (I1 & I2). split; [lia|exact I2].
        -- destruct IH as [I1 I2]. split; [exact I1|lia].
    + apply Nat.eqb_neq in EJ.
      assert (HC' : clean (rev pre ++ wa ++ post) value spl).
      { split; [rewrite HG; exact Hv|]. split; [exact HP'|].
        rewrite Hs. symmetry. apply fns_app_lt. rewrite rev_length. lia. }
      apply IH; assumption.
Qed.

(* ---------------------------------------------------------------- the whole refinement *)

Lemma pick_a_same : forall P P' w, pick_a P = Some (P', w) -> Forall2 same_cell P P'.
Proof.
  induction P as [|c P IH]; intros P' w H; simpl in H; [discriminate|].
  destruct (pick_a P) as [[P1 w1]|] eqn:E.
  - inversion H; subst. constructor; [split; reflexivity|]. eapply IH. reflexivity.
  - destruct (cflag c); [|discriminate]. inversion H; subst. constructor; [split; reflexivity|apply same_cell_refl'].
Qed.

Lemma fns_same : forall cs cs', Forall2 same_cell cs cs' -> fns cs = fns cs'.
Proof.
  intros cs cs' H. induction H as [|c c' cs cs' [_ Hv] _ IH]; [reflexivity|]. simpl. rewrite Hv, IH. reflexivity.
Qed.

Lemma Forall2_firstn : forall (A B : Type) (Rel : A -> B -> Prop) k l l', Forall2 Rel l l' ->
  Forall2 Rel (firstn k l) (firstn k l').
Proof.
  intros A B Rel k. induction k as [|k IH]; intros l l' H; [constructor|]. destruct H; simpl; constructor; auto.
Qed.

Lemma same_order : forall cs cs', Forall2 same_cell cs cs' -> order_of cs = order_of cs'.
Proof.
  intros cs cs' H. induction H as [|c c' cs cs' [_ Hv] _ IH]; [reflexivity|]. rewrite !order_of_cons, Hv, IH. reflexivity.
Qed.

Lemma same_nonempty : forall cs cs', Forall2 same_cell cs cs' -> nonempty cs -> nonempty cs'.
Proof.
  intros cs cs' H. induction H as [|c c' cs cs' [_ Hv] _ IH]; intros HN; [constructor|].
  inversion HN; subst. constructor; [rewrite <- Hv; assumption|apply IH; assumption].
Qed.

Lemma clean_same : forall cs cs' value spl, Forall2 same_cell cs cs' -> clean cs value spl -> clean cs' value spl.
Proof.
  intros cs cs' value spl H (H1 & H2 & H3). split; [|split].
  - rewrite H1. apply good_prefix. apply Forall2_firstn. exact H.
  - eapply prefix_single_same; [apply Forall2_firstn; exact H|exact H2].
  - rewrite H3. apply fns_same. exact H.
Qed.

Lemma refine_loop_V : forall cb fl k ps w ps', nonempty (p_cells ps) -> length (order_of (p_cells ps)) = n ->
  clean (p_cells ps) (p_value ps) (p_spl ps) ->
  refine_loop k g n m cb fl ps = Ok (w, ps') ->
  p_spl ps <= p_spl ps' /\
  if w then dform (p_cells ps') (p_value ps') (p_spl ps') cb fl
  else clean (p_cells ps') (p_value ps') (p_spl ps').
Proof.
  intros cb fl. induction k as [|k IH]; intros ps w ps' HN HO HC H; simpl in H.
  - destruct (pick_a (p_cells ps)) as [[P' w0]|]; [discriminate|]. inversion H; subst. split; [lia|exact HC].
  - destruct (pick_a (p_cells ps)) as [[P' w0]|] eqn:EP; [|inversion H; subst; split; [lia|exact HC]].
    pose proof (pick_a_same _ _ _ EP) as HS.
    pose proof (round_loop_V cb fl w0 (p_age ps) (rev P') [] (p_value ps) (p_spl ps)) as HR.
    rewrite rev_involutive, app_nil_r in HR.
    specialize (HR (same_nonempty _ _ HS HN) ltac:(rewrite <- (same_order _ _ HS); exact HO) (clean_same _ _ _ _ HS HC)).
    destruct (round_loop g n m cb fl w0 (p_age ps) (rev P') [] (p_value ps) (p_spl ps)) as [|ps1|ps1] eqn:ER; [discriminate| |].
    + inversion H; subst. destruct HR as [HR1 HR2]. split; [lia|exact HR2].
    + destruct HR as [HR1 HR2].
      destruct (round_loop_spec g n m cb fl w0 (p_age ps) (rev P') [] (p_value ps) (p_spl ps) false ps1)
        as (mid & HV & HCs & _); [rewrite ER; reflexivity|].
      rewrite app_nil_r in HCs. rewrite rev_involutive in HV. subst mid.
      assert (HN1 : nonempty (p_cells ps1)) by (eapply V_nonempty; [exact HV|exact (same_nonempty _ _ HS HN)]).
      assert (HO1 : length (order_of (p_cells ps1)) = n).
      { rewrite (Permutation_length (V_order _ _ _ HV)), <- (same_order _ _ HS). exact HO. }
      destruct (IH _ _ _ HN1 HO1 HR1 H) as [I1 I2]. split; [lia|exact I2].
Qed.

(* ---------------------------------------------------------------- deage *)

Lemma deage_V : forall b child P value spl cb fl, cinv b child value spl cb fl ->
  Forall2 same_cell (firstn b P) (firstn b child) -> b = fns P ->
  uinv P (snd (deage_sv b spl value)) (fst (deage_sv b spl value)) cb fl.
Proof.
  intros b child P value spl cb fl (Hv & HP & Hb & HD) HF Eb.
  pose proof (good_prefix g n b P child HF) as HG.
  unfold deage_sv. pose proof Hb as E. apply Nat.ltb_lt in E. rewrite E. cbn [fst snd]. split; [exact Eb|].
  rewrite Hv, (good_split g n child b spl) by lia. rewrite <- HG.
  apply strip_ge_app.
  - apply Forall_forall. intros x Hx. eapply good_lt. exact Hx.
  - apply Forall_forall. intros x Hx. eapply ents_ge. exact Hx.
Qed.

(* ---------------------------------------------------------------- without a best leaf nothing is cut off *)

Lemma expand_loop_nil : forall k cs fl value j v s, expand_loop k g cs n m [] fl value j <> EvWorse v s.
Proof.
  induction k as [|k IH]; intros cs fl value j v s; simpl; [discriminate|].
  destruct (nth_error cs j); [|discriminate]. destruct (length (cverts a) =? 1); [|discriminate].
  destruct (nth_error (order_of cs) j); [|discriminate]. apply IH.
Qed.

Lemma round_loop_nil : forall fl w age pre_rev post value spl ps', round_loop g n m [] fl w age pre_rev post value spl <> RrWorse ps'.
Proof.
  intros fl w age. induction pre_rev as [|c pre IH]; intros post value spl ps'; simpl; [discriminate|].
  destruct (uniform g w (cverts c)); [apply IH|]. destruct (length pre =? spl); [|apply IH].
  unfold expand_value. destruct (expand_loop (n - spl) g _ n m [] fl value spl) eqn:E; [discriminate| |apply IH].
  exfalso. eapply expand_loop_nil. exact E.
Qed.

Lemma refine_loop_nil : forall fl k ps w ps', refine_loop k g n m [] fl ps = Ok (w, ps') -> w = false.
Proof.
  intros fl. induction k as [|k IH]; intros ps w ps' H; simpl in H.
  - destruct (pick_a (p_cells ps)) as [[P' w0]|]; [discriminate|]. inversion H. reflexivity.
  - destruct (pick_a (p_cells ps)) as [[P' w0]|]; [|inversion H; reflexivity].
    destruct (round_loop g n m [] fl w0 (p_age ps) (rev P') [] (p_value ps) (p_spl ps)) eqn:E; [discriminate| |eapply IH; exact H].
    exfalso. eapply round_loop_nil. exact E.
Qed.

Lemma split_bin_nil : forall fl ps i w ps', split_bin g n m [] fl ps i = Ok (w, ps') -> w = false.
Proof.
  intros fl ps i w ps' H. unfold split_bin in H. destruct (locate (p_cells ps) i) as [[[[b c] k] a]|]; [|discriminate].
  destruct (nth_error (cverts c) k); [|discriminate]. destruct (length b =? p_spl ps); [|inversion H; reflexivity].
  unfold expand_value in H. destruct (expand_loop _ g _ n m [] fl (p_value ps) (p_spl ps)) eqn:E; [discriminate| |inversion H; reflexivity].
  exfalso. eapply expand_loop_nil. exact E.
Qed.

Lemma uinv_cinv : forall b P v s cb fl, uinv P v s cb fl -> b < fns P -> cinv b P v s cb fl.
Proof.
  intros b P v s cb fl (Hs & Hv) Hb. split; [exact Hv|]. split; [rewrite Hs; apply fns_prefix_single|]. split; [lia|left; exact Hs].
Qed.

Lemma dform_cinv : forall b cs v s cb fl, dform cs v s cb fl -> b < s -> cinv b cs v s cb fl.
Proof. intros b cs v s cb fl (H1 & H2 & H3) Hb. split; [exact H1|]. split; [exact H2|]. split; [exact Hb|right; exact H3]. Qed.

Lemma clean_cinv : forall b cs v s cb fl, clean cs v s -> b < s -> cinv b cs v s cb fl.
Proof. intros b cs v s cb fl (H1 & H2 & H3) Hb. split; [exact H1|]. split; [exact H2|]. split; [exact Hb|left; exact H3]. Qed.

Lemma dform_vinv : forall cs v s cb fl, dform cs v s cb fl -> vinv cs v s cb fl.
Proof. intros cs v s cb fl (H1 & H2 & H3). split; [exact H1|]. split; [exact H2|right; exact H3]. Qed.

End Expand.
