(* Canon/SearchVCP2.v — verification conditions for the third layer of the invariant: one iteration of
   jLoop.  A child skipped by Heuristic 2 owes its domination to an earlier child of the same orbit;
   a child cut off inside splitBin is dominated by the best certificate, as are all its siblings. *)
From Coq Require Import List Arith Bool ZArith Lia Permutation Sorted.
From Mamba Require Import Canon.Perm Canon.Iso Canon.Model Canon.Refine Canon.Sorted Canon.Tree Canon.Fuel
  Disjoint.Model Disjoint.Proofs Canon.SearchModel Canon.SearchHoare Canon.SearchCells Canon.SearchTarget
  Canon.SearchDeage Canon.SearchRefine Canon.SearchExec Canon.SearchValue Canon.SearchExpand Canon.SearchCert
  Canon.SearchOrder Canon.SearchEquiv Canon.SearchWalk Canon.SearchEquit Canon.SearchCut Canon.SearchSibling
  Canon.SearchLink Canon.SearchInvT Canon.SearchVCT Canon.SearchInvV Canon.SearchVCV Canon.SearchPrune
  Canon.SearchGroup Canon.SearchCutW Canon.SearchInvP Canon.SearchVCP1.
Import ListNotations.
Open Scope nat_scope.

Lemma h2_true : forall count lpath path ds order pos j v d,
  h2 count lpath path ds order pos j v = Ok (d, true) ->
  firstn (length path - 1) lpath = removelast path /\ j <= pos /\
  has_earlier_mate ds (firstn j (skipn (pos - j) order)) v = Some (d, true).
Proof.
  intros count lpath path ds order pos j v d H. unfold h2 in H.
  destruct ((0 <? count) && has_prefix lpath (removelast path)) eqn:E; [|discriminate].
  apply andb_true_iff in E. destruct E as [_ E]. unfold has_prefix in E. apply andb_true_iff in E. destruct E as [_ E].
  unfold list_eqb in E. destruct (cmp_list (firstn (length (removelast path)) lpath) (removelast path)) eqn:EC; try discriminate.
  apply cmp_list_eq in EC. rewrite removelast_length in EC.
  destruct (pos <? j) eqn:Ej; [discriminate|]. apply Nat.ltb_ge in Ej.
  split; [exact EC|]. split; [exact Ej|]. apply of_opt_ok. exact H.
Qed.

Lemma in_firstn_nth : forall (l : list nat) j u, In u (firstn j l) -> exists i, i < j /\ nth_error l i = Some u.
Proof.
  intros l j u H. apply In_nth_error in H. destruct H as [i Hi].
  assert (i < length (firstn j l)) by (apply nth_error_Some; rewrite Hi; discriminate).
  rewrite firstn_length in H. exists i. split; [lia|]. rewrite nth_error_firstn in Hi by lia. exact Hi.
Qed.

Section VCP2.
Variable g : graph.
Variables n m : nat.
Variable clsf : nat -> nat.
Variable order0 : list nat.
Variable root : part.
Hypothesis Hg : simple g.
Hypothesis Hn : length g = n.
Hypothesis Hm : m = num_edges g.
Hypothesis Hm0 : 0 < m.
Hypothesis Hroot_eq : equitable g root.
Hypothesis Hroot_fl : forall c, In c root -> fst c = false.

Notation Xc := (Kc clsf order0).
Notation PPstep := (PPstep g n m clsf order0 root).
Notation PPtop := (PPtop g n m clsf order0 root).
Notation PPj := (PPj g n m clsf order0 root).
Notation PPref := (PPref g n m clsf order0 root).
Notation PinvA := (PinvA g n clsf root).
Notation CWI := (CWI g n).

(* a child skipped by Heuristic 2 *)
Lemma h2_debt : forall cb (gs : list (list nat)) ps ds d P b c a j v,
  Rep n ds ps ->
  (forall x y, In (x, y) ps -> exists gam, In gam gs /\ x < n /\ y = nth x gam 0) ->
  (forall gam, In gam gs -> isaut g n clsf gam /\ sim (gfun gam) (erase P) (erase P)) ->
  Permutation (order_of P) (seq 0 n) -> P = b ++ c :: a -> Forall single b -> 2 <= length (cverts c) ->
  nth_error (cverts c) j = Some v ->
  has_earlier_mate ds (firstn j (cverts c)) v = Some (d, true) ->
  Dom1 g n cb (erase P) j.
Proof.
  intros cb gs ps ds d P b c a j v HR Hps Hgs HPm EP HSb H2 Hv HM.
  assert (Hc : forall u, In u (cverts c) -> u < n).
  { intros u Hu. assert (In u (seq 0 n)).
    { apply (Permutation_in _ HPm). rewrite EP, order_of_app, order_of_cons. apply in_or_app. right. apply in_or_app. left. exact Hu. }
    apply in_seq in H. lia. }
  assert (Hvn : v < n) by (apply Hc; eapply nth_error_In; exact Hv).
  destruct (has_earlier_mate_true n _ _ _ _ ps HR Hvn ltac:(intros u Hu; apply Hc; eapply in_firstn; exact Hu) HM) as (u & Hu & Hconn).
  destruct (conn_aut g n clsf gs ps (erase P) ltac:(intros x Hx; apply (Permutation_in _ HPm); exact Hx) Hps Hgs v u Hconn)
    as (f & Hf & Hs & Efv & _ & _).
  destruct (in_firstn_nth _ _ _ Hu) as (i' & Hi' & Hui').
  assert (HTg : target (erase P) = Some (erase b, cverts c, erase a)) by (rewrite EP; apply target_erase; assumption).
  intros Q HQ. right.
  destruct (child_sim g n f (erase P) j i' v Q Hf Hs HPm (erase b) (cverts c) (erase a) HTg Hv ltac:(rewrite Efv; exact Hui') HQ)
    as (Q' & HQ' & HSQ).
  exists i', Q'. split; [exact Hi'|]. split; [exact HQ'|]. intros cb' HD.
  apply (sim_dom g n f Q Q' cb' Hf HSQ); [|exact HD]. eapply child_verts; [exact HQ|exact HPm].
Qed.

(* the value that undo restores *)
Lemma post_undo : forall anc st P, TPjA g n root Xc anc st (S 0) \/ True -> stack_ok g n root Xc anc (s_path st) (s_choices st) ->
  cur_ok n Xc anc (length (s_path st)) (s_skip st) (s_ps st) -> s_path st <> [] -> vst g n st ->
  last_opt anc = Some P -> node_ok g n root Xc (length (s_path st) - 1) P -> CWI anc st ->
  snd (undo_sv (s_skip st) (fns P) (p_spl (s_ps st)) (p_value (s_ps st))) = good g n P (fns P) \/ Wit g n P (s_cb st).
Proof.
  intros anc st P _ HS HC Hne HV EP HN HCW. destruct (HCW P EP) as [HL|HWit]; [left|right; exact HWit].
  unfold undo_sv. destruct (s_skip st) eqn:Esk; [exact HL|].
  unfold SearchInvV.vst in HV. rewrite Esk in HV. destruct (s_path st) as [|p0 pr] eqn:Epath; [congruence|].
  rewrite <- Epath in *. destruct HC as (_ & _ & _ & _ & Hage & _ & HCh). rewrite EP in HCh.
  assert (HL1 : 1 <= length (s_path st)) by (rewrite Epath; simpl; lia).
  replace (length (s_path st)) with (S (length (s_path st) - 1)) in HCh, Hage by lia.
  rewrite Hage, (fage_child _ _ _ HCh (no_ages _ _ _ _ _ _ HN)) in HV.
  pose proof HCh as (_ & HF & _).
  rewrite (deage_sv_clean g n Hn (fns P) (p_cells (s_ps st)) P _ _ _ _ HV HF HL). reflexivity.
Qed.

Lemma node_equitable : forall k P, node_ok g n root Xc k P -> equitable g (erase P).
Proof. intros k P HN. apply (rdesc_equitable g root (erase P) (no_desc _ _ _ _ _ _ HN) Hroot_eq Hroot_fl). Qed.

Theorem jbody_P : forall st j st' ok, PPj st (S j) -> jbody g n m j st = Ok (st', ok) ->
  if ok then PPref st' else PPj st' j.
Proof.
  intros st j st' ok (anc & HT & HV & HPi & HCW & Hpl) HJ.
  pose proof (jbody_TA g n m root Xc (Kc_V clsf order0) anc st j st' ok HT HJ) as HTres.
  pose proof (jbody_V g n m clsf order0 root Hn Hm Hm0 st j st' ok HV HJ) as HVres.
  pose proof HT as (HS & HC & Hne & HTop & _). pose proof HV as (_ & HVst & HR & Hcbz).
  destruct (jbody_cases _ _ _ _ _ _ _ HJ) as (st1 & pos & v & fo & b1 & HU & HLc & Hv & Hh1 & Hrest).
  destruct (undo_V g n m clsf order0 root Hn Hm Hm0 _ _ _ HS HC Hne HVst HU) as (P & EP & HN & Est1 & HUi).
  pose proof (post_undo anc st P (or_intror I) HS HC Hne HVst EP HN HCW) as HPU.
  set (L := length (s_path st)) in *.
  assert (HL : 1 <= L) by (unfold L; destruct (s_path st); [congruence|simpl; lia]).
  unfold top_ok in HTop. rewrite EP in HTop. destruct HTop as (e & sz & HB & HLch & Hjs & _).
  assert (Ech : s_choices st1 = s_choices st) by (rewrite Est1; reflexivity).
  rewrite Ech, HLch in HLc. inversion HLc as [Epos].
  destruct (node_target g n root Xc _ _ HN) as (b0 & c0 & a0 & e' & sz' & EPd & HSb & Hb0 & Hsz & H2 & HB' & He & HTg & HLoc).
  rewrite HB in HB'. injection HB' as E1 E2.
  assert (Epos' : pos = fns P + j) by lia.
  set (v1 := snd (undo_sv (s_skip st) (fns P) (p_spl (s_ps st)) (p_value (s_ps st)))) in *.
  set (s1 := fst (undo_sv (s_skip st) (fns P) (p_spl (s_ps st)) (p_value (s_ps st)))) in *.
  set (ps1 := mkP P (zl L - 1)%Z v1 s1) in *.
  assert (Eps1 : s_ps st1 = ps1) by (rewrite Est1; reflexivity).
  pose proof (no_perm _ _ _ _ _ _ HN) as HPm. pose proof (no_ne _ _ _ _ _ _ HN) as HNe.
  assert (HOrd : forall u, In u (order_of (p_cells (s_ps st1))) -> u < n).
  { rewrite Eps1. cbn [p_cells]. intros u Hu. apply (Permutation_in _ HPm) in Hu. apply in_seq in Hu. lia. }
  assert (Hvn : v < n) by (apply HOrd; eapply nth_error_In; exact Hv).
  assert (Ecnt : s_count st1 = s_count st) by (rewrite Est1; reflexivity).
  assert (Hb1z : s_cb st = [] -> b1 = false).
  { intros E. destruct (r_zero _ _ _ _ _ _ HR) as [[Hc0 _] _]. rewrite Ecnt, (Hc0 E) in Hh1. eapply h2_zero. exact Hh1. }
  (* the vertex chosen and the vertices before it in the bin *)
  assert (Eord : order_of (p_cells (s_ps st1)) = order_of b0 ++ cverts c0 ++ order_of a0).
  { rewrite Eps1. unfold ps1. cbn [p_cells]. rewrite EPd, order_of_app, order_of_cons. reflexivity. }
  assert (Hlb : length (order_of b0) = fns P) by (rewrite (singles_order_length _ HSb); exact Hb0).
  assert (Hvc : nth_error (cverts c0) j = Some v).
  { rewrite Eord, Epos', nth_error_app2 in Hv by lia. replace (fns P + j - length (order_of b0)) with j in Hv by lia.
    rewrite nth_error_app1 in Hv by lia. exact Hv. }
  assert (Eearlier : firstn j (skipn (pos - j) (order_of (p_cells (s_ps st1)))) = firstn j (cverts c0)).
  { rewrite Eord, Epos'. replace (fns P + j - j) with (length (order_of b0)) by lia.
    rewrite skipn_app, skipn_all, Nat.sub_diag. simpl. rewrite firstn_app_le' by lia. reflexivity. }
  pose proof HPi as (HLen & HW & HD & HRc).
  assert (HPk : nth_error anc (L - 1) = Some P) by (unfold L; rewrite <- HLen, <- last_opt_nth; exact EP).
  assert (Epath1 : s_path st1 = s_path st) by (rewrite Est1; reflexivity).
  assert (Hskip_inv : forall st2, s_path st2 = s_path st -> s_cb st2 = s_cb st -> s_cbPath st2 = s_cbPath st ->
            s_cbPerm st2 = s_cbPerm st -> s_cbInv st2 = s_cbInv st -> s_fl st2 = s_fl st -> s_flPath st2 = s_flPath st ->
            s_flInv st2 = s_flInv st -> s_gens st2 = s_gens st ->
            (forall gsC, OrbC g n clsf (s_cbOrb st) gsC -> OrbC g n clsf (s_cbOrb st2) gsC) ->
            Dom1 g n (s_cb st) (erase P) j -> PinvA anc st2 j).
  { intros st2 F1 F2 F3 F4 F5 F6 F7 F8 F9 F10 HD1.
    apply (PinvA_ext g n clsf root anc st st2 j); try assumption; try (rewrite F1; reflexivity).
    apply (PinvA_lower g n clsf root anc st (S j) j P EP ltac:(lia) HPi).
    intros i Hi1 Hi2. assert (i = j) by lia. subst i. exact HD1. }
  assert (HCW_skip : forall st2, s_skip st2 = true -> s_ps st2 = ps1 -> s_cb st2 = s_cb st -> CWI anc st2).
  { intros st2 F1 F2 F3 P' HP'. rewrite EP in HP'. inversion HP'; subst P'. rewrite F1, F2, F3. exact HPU. }
  cbv zeta in Hrest. destruct Hrest as [(-> & -> & ->)|(-> & co & b2 & Hh2 & Hrest)].
  { (* skipped by the first-leaf orbits *)
    assert (Hcb : s_cb st <> []) by (intros E; specialize (Hb1z E); discriminate).
    destruct (HRc Hcb) as (lenB & lenF & permF & gsC & R1 & R2 & R3 & R4 & R5 & R6 & R7 & R8 & R9 & R10 & R11).
    destruct (h2_true _ _ _ _ _ _ _ _ _ Hh1) as (Hpre & _ & HM). rewrite Eearlier in HM.
    destruct (r_orb _ _ _ _ _ _ HR) as (psF & HRF & HpsF & _).
    assert (HD1 : Dom1 g n (s_cb st) (erase P) j).
    { apply (h2_debt (s_cb st) (s_gens st) psF (s_flOrb st1) fo P b0 c0 a0 j v); try assumption; try lia.
      - rewrite Est1. exact HRF.
      - intros gam Hgam. split; [exact (proj1 (Forall_forall _ _) (r_gens _ _ _ _ _ _ HR) gam Hgam)|].
        apply (R9 gam (L - 1) P Hgam HPk). unfold shared.
        replace (s_flPath st1) with (s_flPath st) in Hpre by (rewrite Est1; reflexivity).
        rewrite Epath1 in Hpre. fold L in Hpre. rewrite Hpre.
        apply removelast_firstn_len'. }
    exists anc. split; [exact HTres|]. split; [exact HVres|]. split; [|split].
    - apply Hskip_inv; try (rewrite Est1; reflexivity); [intros gsC0 HO; rewrite Est1; exact HO|exact HD1].
    - apply HCW_skip; rewrite Est1; reflexivity.
    - rewrite Est1. exact Hpl. }
  assert (Hb2z : s_cb st = [] -> b2 = false).
  { intros E. destruct (r_zero _ _ _ _ _ _ HR) as [[Hc0 _] _]. rewrite Ecnt, (Hc0 E) in Hh2. eapply h2_zero. exact Hh2. }
  assert (HOrbco : forall gsC, OrbC g n clsf (s_cbOrb st) gsC -> OrbC g n clsf co gsC).
  { intros gsC (HA & psC & HRC & HpC & HcC). split; [exact HA|]. exists psC. split; [|split; assumption].
    eapply h2_Rep; [exact Hh2| |exact HOrd|exact Hvn]. rewrite Est1. exact HRC. }
  destruct Hrest as [(-> & -> & ->)|(-> & w & ps' & HSp & -> & ->)].
  { (* skipped by the orbits of the best leaf *)
    assert (Hcb : s_cb st <> []) by (intros E; specialize (Hb2z E); discriminate).
    destruct (HRc Hcb) as (lenB & lenF & permF & gsC & R1 & R2 & R3 & R4 & R5 & R6 & R7 & R8 & R9 & R10 & R11).
    destruct (h2_true _ _ _ _ _ _ _ _ _ Hh2) as (Hpre & _ & HM). rewrite Eearlier in HM.
    destruct R10 as (HAC & psC & HRC & HpC & _).
    assert (HD1 : Dom1 g n (s_cb st) (erase P) j).
    { apply (h2_debt (s_cb st) gsC psC (s_cbOrb st1) co P b0 c0 a0 j v); try assumption; try lia.
      - rewrite Est1. exact HRC.
      - intros gam Hgam. split; [exact (proj1 (Forall_forall _ _) HAC gam Hgam)|].
        apply (R11 gam (L - 1) P Hgam HPk). unfold shared.
        replace (s_cbPath st1) with (s_cbPath st) in Hpre by (rewrite Est1; reflexivity).
        rewrite Epath1 in Hpre. fold L in Hpre. rewrite Hpre.
        apply removelast_firstn_len'. }
    exists anc. split; [exact HTres|]. split; [exact HVres|]. split; [|split].
    - apply Hskip_inv; try (rewrite Est1; reflexivity); [exact HOrbco|exact HD1].
    - apply HCW_skip; rewrite Est1; reflexivity.
    - rewrite Est1. exact Hpl. }
  (* splitBin *)
  assert (Ecb1 : s_cb st1 = s_cb st) by (rewrite Est1; reflexivity).
  assert (Efl1 : s_fl st1 = s_fl st) by (rewrite Est1; reflexivity).
  rewrite Eps1, Epos', Ecb1, Efl1 in HSp. unfold ps1 in HSp.
  assert (Hj' : j < length (cverts c0)) by lia.
  assert (HO : length (order_of P) = n) by (rewrite (Permutation_length HPm); apply seq_length).
  destruct (split_bin_V g n m P _ v1 s1 _ _ b0 c0 j a0 w ps' HUi EPd Hb0 ltac:(lia) Hj' HNe HO (HLoc j ltac:(lia)) HSp) as [HCi HCl].
  set (st5 := set_stack (set_ps (set_cbOrb (set_flOrb (set_stack st1 (s_path st1) (set_last (s_choices st1) pos)) fo) co) ps')
                   (set_last (s_path st1) j) (set_last (s_choices st1) pos)) in *.
  assert (Epath5 : s_path st5 = set_last (s_path st) j) by (unfold st5; rewrite Est1; reflexivity).
  assert (Hrl : removelast (set_last (s_path st) j) = removelast (s_path st)).
  { destruct (s_path st) as [|p0 pr] eqn:Epath; [reflexivity|]. unfold set_last. rewrite removelast_last. reflexivity. }
  assert (HPi5 : forall jt, PinvA anc st jt -> PinvA anc st5 jt).
  { intros jt H. apply (PinvA_ext g n clsf root anc st st5 jt); try (unfold st5; rewrite Est1; reflexivity); try assumption.
    - rewrite Epath5. exact Hrl.
    - rewrite Epath5. apply set_last_length. }
  assert (Hltop5 : ltop (s_path st5) = j).
  { apply ltop_last. rewrite Epath5. apply set_last_last. exact Hne. }
  destruct w; cbn [negb] in *.
  - (* cut off inside splitBin: a witness for all the children *)
    assert (Hcb : s_cb st <> []).
    { intros E. rewrite E in HSp. apply split_bin_nil in HSp. discriminate. }
    assert (HWit : Wit g n P (s_cb st)).
    { destruct HPU as [Hcl|HWit]; [|exact HWit].
      destruct HUi as [Es1 _]. rewrite Hcl, Es1 in HSp.
      apply (split_bin_cut g n m Hn P _ _ _ _ b0 c0 j a0 ps' eq_refl EPd Hb0 HSb ltac:(lia) Hj' HNe HPm (HLoc j ltac:(lia)) HSp). }
    exists anc. split; [exact HTres|]. split; [exact HVres|]. split; [|split].
    + apply HPi5. apply (PinvA_lower g n clsf root anc st (S j) j P EP ltac:(lia) HPi).
      intros i Hi1 Hi2. assert (i = j) by lia. subst i. intros Q HQ. left.
      apply (wit_dom g n Hg Hn P (s_cb st) HWit HPm HNe (node_equitable _ _ HN) (cb_length g n m clsf order0 Hg Hn st HR Hcb) j Q HQ).
    + intros P' HP'. rewrite EP in HP'. inversion HP'; subst P'. right. unfold st5. rewrite Est1. exact HWit.
    + unfold st5. rewrite Est1. exact Hpl.
  - exists anc. split; [exact HTres|]. split; [exact HVres|]. split; [|split].
    + rewrite Hltop5. apply HPi5. exact HPi.
    + intros P' HP'. rewrite EP in HP'. inversion HP'; subst P'. destruct (HCl eq_refl) as [_ Hlt].
      unfold st5. cbn [set_stack set_ps s_ps]. exact Hlt.
    + unfold st5. rewrite Est1. exact Hpl.
Qed.

Lemma VCP_jcont : forall st j st', PPj st (S j) -> jbody g n m j st = Ok (st', false) -> PPj st' j.
Proof. intros st j st' H HJ. apply (jbody_P st j st' false H HJ). Qed.

Lemma VCP_jstep : forall st j st', PPj st (S j) -> jbody g n m j st = Ok (st', true) -> PPref st'.
Proof. intros st j st' H HJ. apply (jbody_P st j st' true H HJ). Qed.

End VCP2.
