(* Canon/SearchTotal.v — the model of CanonicalIsomorphAllocated (after commit a4bdb37 of the code) never returns
   Panic: for every simple graph and all admissible vertex classes every slice bound and index of the search
   is in range.  With the fuel theorem: for every fuel >= search_fuel n the model returns Ok. *)
From Coq Require Import List Arith Bool ZArith Lia Permutation Sorted.
From Mamba Require Import Canon.Perm Canon.Iso Canon.Model Canon.Refine Canon.Sorted Canon.Tree Canon.Fuel
  Disjoint.Model Disjoint.Proofs Canon.SearchModel Canon.SearchHoare Canon.SearchCells Canon.SearchTarget
  Canon.SearchDeage Canon.SearchRefine Canon.SearchExec Canon.SearchValue Canon.SearchExpand Canon.SearchCert
  Canon.SearchInvT Canon.SearchVCT Canon.SearchInvV Canon.SearchVCV Canon.SearchInvP Canon.SearchInit Canon.SearchProofs
  Canon.SearchMax Canon.SearchRoots Canon.SearchNoPanic1 Canon.SearchNoPanic2 Canon.SearchNoPanic3.
Import ListNotations.
Open Scope nat_scope.

Section Total.
Variable g : graph.
Variable cls : option (list (list nat)).
Hypothesis Hg : simple g.

Let n := length g.
Let m := num_edges g.
Let cs0 := init_cells n cls.

Hypothesis Hcls : cls_ok n cls.

Theorem canon_search_total : forall fuel, canon_search fuel g cls <> Panic.
Proof.
  intros fuel. destruct (Nat.eq_dec n 0) as [E0|E0].
  { unfold canon_search. fold n. rewrite E0. simpl. discriminate. }
  destruct (Nat.eq_dec m 0) as [Em|Em].
  { unfold canon_search. fold n m. assert (En : n =? 0 = false) by (apply Nat.eqb_neq; lia). rewrite En, Em. simpl. discriminate. }
  assert (Hn0 : 0 < n) by lia. assert (Hm0 : 0 < m) by lia.
  destruct (canon_search_init_P g cls Hcls Hn0 Hm0) as [HP|(ps0 & root & HE & HRf & HTop)].
  - (* what precedes the main loop does not panic *)
    exfalso. specialize (HP 0). revert HP. unfold canon_search. fold n m cs0.
    assert (En : n =? 0 = false) by (apply Nat.eqb_neq; lia). assert (Em' : m =? 0 = false) by (apply Nat.eqb_neq; lia).
    rewrite En, Em'.
    destruct (init_cells_ok n cls Hn0 Hcls) as (HP0 & HN0 & _). fold cs0 in HP0, HN0.
    assert (HO0 : length (order_of cs0) = n) by (rewrite (Permutation_length HP0); apply seq_length).
    pose proof (expand_loop_np g n m Hg eq_refl eq_refl cs0 [] (repeat 0 m) HN0 HP0 (n - 0) 0 [] ltac:(lia) ltac:(lia)
                  ltac:(intros k c Hk; lia) eq_refl) as HNP.
    pose proof (expand_loop_spec g n m cs0 [] (repeat 0 m) HN0 HO0 (n - 0) 0 [] ltac:(lia) ltac:(lia)
                  ltac:(intros k c Hk; lia) eq_refl) as HEs.
    unfold expand_value.
    destruct (expand_loop (n - 0) g cs0 n m [] (repeat 0 m) [] 0) as [|v s|v s] eqn:EE; [congruence| |].
    + exfalso. eapply expand_loop_nil. exact EE.
    + destruct HEs as [HC0 _].
      pose proof (refine_s_np g n m Hg eq_refl eq_refl [] (repeat 0 m) (mkP cs0 0%Z v s) HN0 HP0 HC0) as HR.
      destruct (refine_s g n m [] (repeat 0 m) (mkP cs0 0%Z v s)) as [[w ps1]| |]; [|congruence|]; simpl; discriminate.
  - rewrite HE. destruct (root_equitable g cls Hcls root HRf) as [Heq Hfl].
    apply (search_np g n m (in_cell cs0) (order_of cs0) root Hg eq_refl eq_refl Hm0 Heq Hfl); [exact HTop|].
    unfold Gn, init_state. cbn [s_gens s_flOrb]. rewrite nroots_new. simpl. lia.
Qed.

(* with enough fuel the model returns *)
Theorem canon_search_returns : forall fuel, search_fuel n <= fuel -> exists r, canon_search fuel g cls = Ok r.
Proof.
  intros fuel Hf. destruct (search_terminates g cls Hcls fuel Hf) as [HF _]. pose proof (canon_search_total fuel) as HP.
  destruct (canon_search fuel g cls) as [r| |]; [eauto|congruence|congruence].
Qed.

End Total.
