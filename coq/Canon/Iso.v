(* Canon/Iso.v — labelled graphs, relabelling, isomorphism (owner: C01; imported read-only by C02).

   A labelled graph on n vertices is its n x n adjacency matrix [list (list bool)], so that
   "identical as labelled graphs" is Leibniz equality.  [adjb g u v] is the adjacency function
   (false outside the matrix).  [relabel g p] is the graph whose vertex i is vertex p_i of g:
   (relabel g p)(i,j) = g(p_i,p_j) — this is what g.InducedSubgraph(p) returns in the library.
   [iso g h] : h is a relabelling of g by a permutation of 0..n-1. *)
From Coq Require Import List Arith Lia Permutation Bool.
From Mamba Require Import Canon.Perm.
Import ListNotations.

Definition graph := list (list bool).

Definition adjb (g : graph) (u v : nat) : bool := nth v (nth u g []) false.

Definition relabel (g : graph) (p : list nat) : graph :=
  map (fun u => map (fun v => adjb g u v) p) p.

(* square matrix *)
Definition wf_graphb (g : graph) : bool := forallb (fun r => length r =? length g) g.
Definition wf_graph (g : graph) : Prop := forall r, In r g -> length r = length g.

(* simple graph: square, symmetric, no loops *)
Definition simpleb (g : graph) : bool :=
  wf_graphb g &&
  forallb (fun u => negb (adjb g u u) &&
                    forallb (fun v => Bool.eqb (adjb g u v) (adjb g v u)) (seq 0 (length g)))
          (seq 0 (length g)).

Definition simple (g : graph) : Prop :=
  wf_graph g /\ (forall u, adjb g u u = false) /\ (forall u v, adjb g u v = adjb g v u).

Definition iso (g h : graph) : Prop :=
  exists p, is_perm (length g) p = true /\ h = relabel g p.

(* ------------------------------------------------------------------ basic facts *)

Lemma wf_graphb_spec : forall g, wf_graphb g = true <-> wf_graph g.
Proof.
  intros g. unfold wf_graphb, wf_graph. rewrite forallb_forall.
  split; intros H r Hr; specialize (H r Hr); apply Nat.eqb_eq; exact H.
Qed.

Lemma relabel_length : forall g p, length (relabel g p) = length p.
Proof. intros. unfold relabel. apply map_length. Qed.

Lemma relabel_wf : forall g p, wf_graph (relabel g p).
Proof.
  intros g p r Hr. rewrite relabel_length. unfold relabel in Hr.
  apply in_map_iff in Hr. destruct Hr as [u [Hu _]]. subst r. apply map_length.
Qed.

Lemma adjb_out_l : forall g u v, length g <= u -> adjb g u v = false.
Proof. intros g u v H. unfold adjb. rewrite (nth_overflow g) by exact H. destruct v; reflexivity. Qed.

Lemma adjb_out_r : forall g u v, wf_graph g -> length g <= v -> adjb g u v = false.
Proof.
  intros g u v Hwf H. destruct (Nat.lt_ge_cases u (length g)) as [Hu|Hu].
  - unfold adjb. apply nth_overflow. rewrite (Hwf (nth u g [])) by (apply nth_In; exact Hu). exact H.
  - apply adjb_out_l. exact Hu.
Qed.

Lemma adjb_relabel : forall g p i j, i < length p -> j < length p ->
  adjb (relabel g p) i j = adjb g (papp p i) (papp p j).
Proof.
  intros g p i j Hi Hj. unfold adjb at 1. unfold relabel.
  rewrite (nth_map_lt _ _ _ _ _ _ i) by exact Hi.
  rewrite (nth_map_lt _ _ _ _ _ _ j) by exact Hj. reflexivity.
Qed.

Lemma relabel_relabel : forall g p q, (forall x, In x q -> x < length p) ->
  relabel (relabel g p) q = relabel g (pcomp p q).
Proof.
  intros g p q H. unfold relabel at 1 3. unfold pcomp. rewrite map_map.
  apply map_ext_in. intros u Hu. rewrite map_map. apply map_ext_in. intros v Hv.
  apply adjb_relabel; apply H; assumption.
Qed.

Lemma relabel_id : forall g, wf_graph g -> relabel g (pid (length g)) = g.
Proof.
  intros g Hwf. unfold relabel, pid.
  transitivity (map (fun u => nth u g []) (seq 0 (length g))); [|apply map_nth_seq].
  apply map_ext_in. intros u Hu. apply in_seq in Hu.
  assert (HL : length (nth u g []) = length g) by (apply Hwf, nth_In; lia).
  rewrite <- HL. unfold adjb. apply map_nth_seq.
Qed.

(* relabelling only looks at the entries named by p *)
Lemma relabel_ext : forall g h p, (forall u v, In u p -> In v p -> adjb g u v = adjb h u v) ->
  relabel g p = relabel h p.
Proof.
  intros g h p H. unfold relabel. apply map_ext_in. intros u Hu.
  apply map_ext_in. intros v Hv. apply H; assumption.
Qed.

(* a square matrix is determined by its adjacency function *)
Lemma graph_ext : forall g h, wf_graph g -> wf_graph h -> length g = length h ->
  (forall u v, u < length g -> v < length g -> adjb g u v = adjb h u v) -> g = h.
Proof.
  intros g h Hg Hh HL H. rewrite <- (relabel_id g Hg), <- (relabel_id h Hh), <- HL.
  apply relabel_ext. intros u v Hu Hv. unfold pid in *. apply in_seq in Hu. apply in_seq in Hv.
  apply H; lia.
Qed.

(* ------------------------------------------------------------------ isomorphism *)

(* "relabelling by a permutation gives an isomorphic graph" is the definition; the usual
   formulation through adjacency is equivalent: *)
Lemma iso_adj : forall g h, wf_graph g ->
  (iso g h <->
   length h = length g /\ wf_graph h /\
   exists p, is_perm (length g) p = true /\
     forall i j, i < length g -> j < length g -> adjb h i j = adjb g (papp p i) (papp p j)).
Proof.
  intros g h Hg. split.
  - intros [p [Hp Hh]]. subst h. pose proof (is_perm_length _ _ Hp) as HL.
    rewrite relabel_length. split; [exact HL|]. split; [apply relabel_wf|].
    exists p. split; [exact Hp|]. intros i j Hi Hj. apply adjb_relabel; lia.
  - intros [HL [Hh [p [Hp Hadj]]]]. exists p. split; [exact Hp|].
    pose proof (is_perm_length _ _ Hp) as HLp.
    apply graph_ext; auto.
    + apply relabel_wf.
    + rewrite relabel_length. lia.
    + intros u v Hu Hv. rewrite adjb_relabel by lia. apply Hadj; lia.
Qed.

Lemma relabel_iso : forall g p, is_perm (length g) p = true -> iso g (relabel g p).
Proof. intros g p H. exists p. split; [exact H|reflexivity]. Qed.

Lemma iso_length : forall g h, iso g h -> length h = length g.
Proof.
  intros g h [p [Hp Hh]]. subst h. rewrite relabel_length. apply (is_perm_length _ _ Hp).
Qed.

Lemma iso_wf : forall g h, iso g h -> wf_graph h.
Proof. intros g h [p [_ Hh]]. subst h. apply relabel_wf. Qed.

Lemma iso_refl : forall g, wf_graph g -> iso g g.
Proof.
  intros g Hwf. exists (pid (length g)). split; [apply pid_perm|].
  symmetry. apply relabel_id. exact Hwf.
Qed.

Lemma iso_trans : forall g h k, iso g h -> iso h k -> iso g k.
Proof.
  intros g h k [p [Hp Hh]] [q [Hq Hk]]. subst h.
  rewrite relabel_length, (is_perm_length _ _ Hp) in Hq.
  exists (pcomp p q). split; [apply pcomp_perm; assumption|].
  subst k. apply relabel_relabel. intros x Hx.
  rewrite (is_perm_length _ _ Hp). apply (is_perm_lt _ _ _ Hq Hx).
Qed.

Lemma iso_sym : forall g h, wf_graph g -> iso g h -> iso h g.
Proof.
  intros g h Hwf [p [Hp Hh]]. subst h.
  pose proof (is_perm_length _ _ Hp) as HL.
  exists (pinv p). rewrite relabel_length, HL. split; [apply pinv_perm; exact Hp|].
  rewrite relabel_relabel.
  - rewrite (pcomp_pinv_r _ _ Hp). symmetry. apply relabel_id. exact Hwf.
  - intros x Hx. rewrite HL. apply (is_perm_lt _ _ _ (pinv_perm _ _ Hp) Hx).
Qed.

(* relabelling a simple graph by a permutation gives a simple graph *)
Lemma relabel_simple : forall g p, simple g -> is_perm (length g) p = true -> simple (relabel g p).
Proof.
  intros g p [Hwf [Hirr Hsym]] Hp. pose proof (is_perm_length _ _ Hp) as HL.
  split; [apply relabel_wf|]. split.
  - intros u. destruct (Nat.lt_ge_cases u (length p)) as [Hu|Hu].
    + rewrite adjb_relabel by assumption. apply Hirr.
    + apply adjb_out_l. rewrite relabel_length. exact Hu.
  - intros u v.
    destruct (Nat.lt_ge_cases u (length p)) as [Hu|Hu];
    destruct (Nat.lt_ge_cases v (length p)) as [Hv|Hv].
    + rewrite !adjb_relabel by assumption. apply Hsym.
    + rewrite (adjb_out_r _ u v) by (try apply relabel_wf; rewrite relabel_length; exact Hv).
      rewrite adjb_out_l by (rewrite relabel_length; exact Hv). reflexivity.
    + rewrite (adjb_out_r _ v u) by (try apply relabel_wf; rewrite relabel_length; exact Hu).
      rewrite adjb_out_l by (rewrite relabel_length; exact Hu). reflexivity.
    + rewrite !adjb_out_l by (rewrite relabel_length; assumption). reflexivity.
Qed.

(* ------------------------------------------------------------------ complete invariants *)

(* Any function returning permutations whose canonical graph does not change when the input is
   relabelled is a complete isomorphism invariant.  [dom] is the class of graphs considered
   (all square matrices, or the simple graphs). *)
Section CompleteInvariant.
  Variable dom : graph -> Prop.
  Variable canon : graph -> list nat.
  Hypothesis dom_wf : forall g, dom g -> wf_graph g.
  Hypothesis canon_perm : forall g, dom g -> is_perm (length g) (canon g) = true.
  Hypothesis canon_invariant : forall g p, dom g -> is_perm (length g) p = true ->
    relabel (relabel g p) (canon (relabel g p)) = relabel g (canon g).

  Lemma canon_iso : forall g, dom g -> iso g (relabel g (canon g)).
  Proof. intros g Hg. apply relabel_iso, canon_perm, Hg. Qed.

  Lemma iso_iff_canon_gen : forall g h, dom g -> dom h ->
    (relabel g (canon g) = relabel h (canon h) <-> iso g h).
  Proof.
    intros g h Hg Hh. split.
    - intros E. apply iso_trans with (relabel g (canon g)); [apply canon_iso; exact Hg|].
      rewrite E. apply iso_sym; [apply dom_wf; exact Hh|]. apply canon_iso. exact Hh.
    - intros [p [Hp E]]. subst h. symmetry. apply canon_invariant; assumption.
  Qed.
End CompleteInvariant.

(* non-vacuity: the path 0-1-2 relabelled by [2;0;1] is the path 1-2-0 *)
Example iso_example :
  let g := [[false;true;false];[true;false;true];[false;true;false]] in
  simpleb g = true /\
  relabel g [2;0;1] = [[false;false;true];[false;false;true];[true;true;false]] /\
  relabel (relabel g [2;0;1]) (pinv [2;0;1]) = g.
Proof. vm_compute. repeat split. Qed.
