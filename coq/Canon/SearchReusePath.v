(* Canon/SearchReusePath.v — the recorded paths (currentBestPath, firstLeafPath) under reuse.

   copy(currentBestPath, path) overwrites only the first len(path) entries: the tail of the
   recorded path is whatever the array held — zeros or older, deeper leaves of the same run in a
   fresh storage, leaves of OTHER graphs in a reused one.  Heuristic 1 (the loop comparing path[i]
   with the recorded path) and Heuristic 2 (ints.HasPrefix(recorded, path[:len(path)-1])) read
   recorded entries up to len(path)-2, which may lie in that tail.  This is a read of stale cells;
   it cannot influence the result: the first [lb] entries of the recorded path lead to a LEAF of
   the search tree, every node on the stack is an inner node reached by the corresponding prefix of
   the current path, so the current path differs from the recorded one among the first [lb]
   entries whenever it is longer than [lb] — the comparison is decided before the tail is
   reached. *)
From Coq Require Import List Arith Bool ZArith Lia Permutation.
From Mamba Require Import Canon.Perm Canon.Iso Canon.Model Disjoint.Model Canon.SearchModel Canon.SearchHoare
  Canon.SearchCells Canon.SearchTarget Canon.SearchValue Canon.SearchWalk Canon.SearchInvT Canon.SearchVCT
  Canon.SearchInvV Canon.SearchVCV Canon.SearchInvP.
Import ListNotations.
Open Scope nat_scope.

(* ---------------------------------------------------------------- lists *)

Lemma firstn_firstn_min : forall (A : Type) (l : list A) a b, a <= b -> firstn a (firstn b l) = firstn a l.
Proof. intros A l a b H. rewrite firstn_firstn. f_equal. lia. Qed.

Lemma firstn_agree_le : forall (A : Type) (l l' : list A) a b, a <= b -> firstn b l = firstn b l' -> firstn a l = firstn a l'.
Proof.
  intros A l l' a b H E. rewrite <- (firstn_firstn_min A l a b H), <- (firstn_firstn_min A l' a b H), E. reflexivity.
Qed.

Lemma list_eqb_true : forall a b, list_eqb a b = true <-> a = b.
Proof.
  intros a b. unfold list_eqb. split.
  - destruct (cmp_list a b) eqn:E; try discriminate. intros _. apply cmp_list_eq. exact E.
  - intros ->. rewrite cmp_list_refl. reflexivity.
Qed.

Lemma has_prefix_true : forall s p, has_prefix s p = true <-> length p <= length s /\ firstn (length p) s = p.
Proof.
  intros s p. unfold has_prefix. rewrite andb_true_iff, Nat.leb_le, list_eqb_true. reflexivity.
Qed.

(* HasPrefix looks at the first len(p) entries of s only *)
Lemma has_prefix_firstn : forall s s' p, length s' = length s -> firstn (length p) s' = firstn (length p) s ->
  has_prefix s' p = has_prefix s p.
Proof. intros s s' p HL HE. unfold has_prefix. rewrite HL, HE. reflexivity. Qed.

(* the loop of Heuristic 1 looks at entries i .. i+k-1 *)
Lemma first_diff_firstn : forall k i path bp bp', firstn (i + k) bp' = firstn (i + k) bp ->
  first_diff k i path bp' = first_diff k i path bp.
Proof.
  induction k as [|k IH]; intros i path bp bp' HE; [reflexivity|]. simpl.
  assert (E1 : nth_error bp' i = nth_error bp i).
  { rewrite <- (nth_error_firstn _ bp' (i + S k) i) by lia. rewrite <- (nth_error_firstn _ bp (i + S k) i) by lia.
    rewrite HE. reflexivity. }
  rewrite E1. destruct (nth_error path i); [|reflexivity]. destruct (nth_error bp i); [|reflexivity].
  destruct (n =? n0); [|reflexivity]. apply IH. replace (S i + k) with (i + S k) by lia. exact HE.
Qed.

(* once a difference (or an index out of range) is found, more iterations change nothing *)
Lemma first_diff_more : forall k1 k2 i path bp, first_diff k1 i path bp <> Some None ->
  first_diff (k1 + k2) i path bp = first_diff k1 i path bp.
Proof.
  induction k1 as [|k1 IH]; intros k2 i path bp H; [simpl in H; congruence|]. simpl in *.
  destruct (nth_error path i); [|reflexivity]. destruct (nth_error bp i); [|reflexivity].
  destruct (n =? n0); [|reflexivity]. apply IH. exact H.
Qed.

Lemma skipn_nth_cons : forall (l : list nat) i x, nth_error l i = Some x -> skipn i l = x :: skipn (S i) l.
Proof.
  intros l i. revert l. induction i as [|i IHi]; intros [|y l] x Hx; simpl in *; try discriminate.
  - inversion Hx. reflexivity.
  - apply IHi. exact Hx.
Qed.

(* no difference found: the entries are equal *)
Lemma first_diff_none : forall k i path bp, first_diff k i path bp = Some None ->
  firstn k (skipn i path) = firstn k (skipn i bp).
Proof.
  induction k as [|k IH]; intros i path bp H; [reflexivity|]. simpl in H.
  destruct (nth_error path i) as [a|] eqn:Ea; [|discriminate]. destruct (nth_error bp i) as [b|] eqn:Eb; [|discriminate].
  destruct (a =? b) eqn:E; [|discriminate]. apply Nat.eqb_eq in E. subst b.
  rewrite (skipn_nth_cons _ _ _ Ea), (skipn_nth_cons _ _ _ Eb). cbn [firstn]. f_equal. apply IH. exact H.
Qed.

(* ---------------------------------------------------------------- the tree *)

Section Path.
Variable g : graph.
Variable n : nat.
Variable root : part.
Variable Xc : list acell -> Prop.

(* what the invariant of the fresh run says about the stack *)
Definition tree_ok (anc : list (list acell)) (path : list nat) : Prop :=
  length anc = length path /\ WalkI g root anc path /\
  forall k P, nth_error anc k = Some P -> node_ok g n root Xc k P.

Lemma node_not_leaf : forall k P, node_ok g n root Xc k P -> target (erase P) <> None.
Proof.
  intros k P HN. destruct (no_big _ _ _ _ _ _ HN) as (e & sz & HB).
  destruct (first_big_spec _ _ _ _ (no_ne _ _ _ _ _ _ HN) HB) as (b & c & a & -> & HS & Hsz & H2 & _).
  rewrite (target_erase b c a HS ltac:(lia)). discriminate.
Qed.

(* a prefix of the current path that is shorter than the path does not lead to a leaf *)
Lemma prefix_not_leaf : forall anc path lb q leaf, tree_ok anc path -> lb < length path ->
  walk g root (firstn lb q) = Some leaf -> target leaf = None -> firstn lb q <> firstn lb path.
Proof.
  intros anc path lb q leaf (HL & HW & HN) Hlb Hq Ht E.
  destruct (nth_error anc lb) as [P|] eqn:EP; [|apply nth_error_None in EP; lia].
  rewrite E, (HW lb P EP) in Hq. inversion Hq; subst leaf.
  exact (node_not_leaf lb P (HN lb P EP) Ht).
Qed.

(* the recorded path in the two runs: the same first lb entries, which lead to a leaf *)
Definition PathSim (rp rp' : list nat) : Prop :=
  length rp' = length rp /\
  exists lb leaf, firstn lb rp' = firstn lb rp /\ walk g root (firstn lb rp) = Some leaf /\ target leaf = None.

Lemma has_prefix_sim : forall anc path rp rp', tree_ok anc path -> PathSim rp rp' -> path <> [] ->
  has_prefix rp' (removelast path) = has_prefix rp (removelast path).
Proof.
  intros anc path rp rp' HT (HL & lb & leaf & HE & HW & Ht) Hne.
  assert (HLp : length (removelast path) = length path - 1) by apply removelast_length.
  assert (Hp1 : 1 <= length path) by (destruct path; [congruence|simpl; lia]).
  destruct (Nat.le_gt_cases (length path - 1) lb) as [Hle|Hgt].
  - apply has_prefix_firstn; [exact HL|]. rewrite HLp. eapply firstn_agree_le; [exact Hle|exact HE].
  - (* the path is longer: neither matches *)
    assert (F : forall x, firstn lb x = firstn lb rp -> has_prefix x (removelast path) = false).
    { intros x Hx. destruct (has_prefix x (removelast path)) eqn:EH; [|reflexivity]. exfalso.
      apply has_prefix_true in EH. destruct EH as [_ EH]. rewrite HLp in EH.
      apply (prefix_not_leaf anc path lb rp leaf HT ltac:(lia) HW Ht).
      rewrite <- Hx. rewrite <- (firstn_firstn_min _ x lb (length path - 1)) by lia. rewrite EH.
      rewrite removelast_firstn_len'. apply firstn_firstn_min. lia. }
    rewrite (F rp' HE), (F rp eq_refl). reflexivity.
Qed.

Lemma h1_keep_sim : forall anc path rp rp', tree_ok anc path -> PathSim rp rp' ->
  h1_keep path rp' = h1_keep path rp.
Proof.
  intros anc path rp rp' HT (HL & lb & leaf & HE & HW & Ht). unfold h1_keep.
  destruct (Nat.le_gt_cases (length path - 1) lb) as [Hle|Hgt].
  - rewrite (first_diff_firstn (length path - 1) 0 path rp rp'); [reflexivity|].
    simpl. eapply firstn_agree_le; [exact Hle|exact HE].
  - replace (length path - 1) with (lb + (length path - 1 - lb)) by lia.
    assert (E0 : first_diff lb 0 path rp' = first_diff lb 0 path rp) by (apply first_diff_firstn; exact HE).
    assert (HN : first_diff lb 0 path rp <> Some None).
    { intros E. apply first_diff_none in E. simpl in E.
      apply (prefix_not_leaf anc path lb rp leaf HT ltac:(lia) HW Ht). symmetry. exact E. }
    rewrite (first_diff_more lb _ 0 path rp' ltac:(rewrite E0; exact HN)).
    rewrite (first_diff_more lb _ 0 path rp HN). rewrite E0. reflexivity.
Qed.

(* the stack is never deeper than n *)
Lemma tree_depth : forall anc path choices, stack_ok g n root Xc anc path choices -> length path <= n.
Proof.
  intros anc path choices HS. pose proof HS as (HLen & _ & HNo & HCn & _).
  destruct (last_opt anc) as [P|] eqn:EP; [|apply last_opt_none in EP; subst anc; simpl in HLen; lia].
  assert (HP : nth_error anc (length anc - 1) = Some P) by (rewrite <- last_opt_nth; exact EP).
  assert (Hdepth : forall k P0, nth_error anc k = Some P0 -> k <= fns P0).
  { induction k as [|k IHk]; intros P0 HP0; [lia|].
    destruct (nth_error anc k) as [Pk|] eqn:Ek; [|apply nth_error_None in Ek; pose proof (anc_lt _ _ _ HP0); lia].
    pose proof (chain_fns _ _ _ (HCn k Pk P0 Ek HP0)). specialize (IHk Pk eq_refl). lia. }
  pose proof (Hdepth _ _ HP). pose proof (HNo _ _ HP) as HN.
  pose proof (fns_le P). pose proof (nonempty_length _ (no_ne _ _ _ _ _ _ HN)).
  rewrite (Permutation_length (no_perm _ _ _ _ _ _ HN)), seq_length in H1.
  destruct (no_big _ _ _ _ _ _ HN) as (e & sz & HB).
  destruct (first_big_spec _ _ _ _ (no_ne _ _ _ _ _ _ HN) HB) as (b0 & c0 & a0 & EP0 & _ & _ & _ & _ & Hb0).
  assert (length P = length b0 + S (length a0)) by (rewrite EP0, app_length; reflexivity). lia.
Qed.

(* copy(recorded, path) at a leaf reached by [path] *)
Lemma PathSim_record : forall rp rp' path leaf, length rp' = length rp -> length path <= length rp ->
  walk g root path = Some leaf -> target leaf = None ->
  PathSim (copy_into rp path) (copy_into rp' path).
Proof.
  intros rp rp' path leaf HL Hp HW Ht. split; [rewrite !copy_into_length; exact HL|].
  assert (F : forall dst : list nat, length path <= length dst -> firstn (length path) (copy_into dst path) = path).
  { intros dst Hd. unfold copy_into. rewrite (firstn_all2 path) by lia.
    rewrite firstn_app. replace (length path - length path) with 0 by lia. simpl. rewrite app_nil_r. apply firstn_all. }
  exists (length path), leaf. rewrite !F by lia. split; [reflexivity|]. split; assumption.
Qed.

End Path.
