(* Canon/Fuel.v — the fuel of Canon/Model.v always suffices: [refine] and [canon_ref] never
   return None ([refine_total], [canon_ref_total]). *)
From Coq Require Import List Arith Lia Permutation Bool.
From Mamba Require Import Canon.Perm Canon.Iso Canon.Model Canon.Refine Canon.Tree.
Import ListNotations.

Definition ne (P : part) : Prop := Forall (fun c => snd c <> []) P.
Definition b2n (b : bool) : nat := if b then 1 else 0.
Definition cw (c : cell) : nat := 2 * (length (snd c) - 1) + b2n (fst c).
Definition wt (P : part) : nat := list_sum (map cw P).

Lemma wt_app : forall P Q, wt (P ++ Q) = wt P + wt Q.
Proof. intros. unfold wt. rewrite map_app, list_sum_app. reflexivity. Qed.

Lemma ne_app : forall P Q, ne P -> ne Q -> ne (P ++ Q).
Proof. intros. apply Forall_app. split; assumption. Qed.

Lemma pick_wt : forall P P' w, pick P = Some (P', w) -> wt P' + 1 = wt P /\ (ne P -> ne P').
Proof.
  induction P as [|c r IH]; simpl; intros P' w H; [discriminate|].
  destruct (pick r) as [[r' w']|] eqn:E.
  - inversion H; subst. destruct (IH _ _ eq_refl) as [I1 I2]. split.
    + unfold wt in *. simpl. lia.
    + intros Hn. inversion Hn; subst. constructor; [assumption|]. apply I2. assumption.
  - destruct c as [fl vs]. simpl in *. destruct fl; [|discriminate]. inversion H; subst. split.
    + unfold wt, cw. simpl. lia.
    + intros Hn. inversion Hn; subst. constructor; assumption.
Qed.

Lemma verts_length_app : forall P Q, length (verts (P ++ Q)) = length (verts P) + length (verts Q).
Proof. intros. rewrite verts_app, app_length. reflexivity. Qed.

(* for flagged non-empty cells the weight is 2|c| - 1 *)
Lemma wt_flagged : forall Q : part, Forall (fun c => fst c = true /\ snd c <> []) Q ->
  wt Q + length Q = 2 * length (verts Q).
Proof.
  induction Q as [|[fl vs] Q IH]; intros H; [reflexivity|]. inversion H; subst.
  destruct H2 as [Hf Hn]. simpl in Hf, Hn. subst fl. specialize (IH H3).
  rewrite verts_cons, app_length. unfold wt in *. simpl. unfold cw at 1. simpl.
  destruct vs as [|x vs]; [congruence|]. simpl. lia.
Qed.

Lemma fragment_flagged : forall g w c k, Forall (fun c => fst c = true /\ snd c <> []) (fragment g w c k).
Proof.
  intros. unfold fragment. destruct (filter _ c) eqn:E; constructor; [|constructor].
  simpl. split; [reflexivity|discriminate].
Qed.

Lemma fragments_flagged : forall g w c, Forall (fun c => fst c = true /\ snd c <> []) (fragments g w c).
Proof.
  intros g w c. unfold fragments. induction (seq 0 (S (length w))) as [|k ks IH]; simpl; [constructor|].
  apply Forall_app. split; [apply fragment_flagged|exact IH].
Qed.

Lemma forallb_false : forall (A : Type) (p : A -> bool) l, forallb p l = false -> exists x, In x l /\ p x = false.
Proof.
  induction l as [|x r IH]; simpl; intros H; [discriminate|].
  destruct (p x) eqn:E; simpl in H.
  - destruct (IH H) as [y [Hy Py]]. exists y. auto.
  - exists x. auto.
Qed.

Lemma flat_map_len1 : forall (A B : Type) (F : A -> list B) ks k, In k ks -> F k <> [] -> 1 <= length (flat_map F ks).
Proof.
  induction ks as [|x ks IH]; simpl; intros k Hin Hne; [contradiction|]. rewrite app_length.
  destruct Hin as [E|Hin].
  - subst. destruct (F k); [congruence|simpl; lia].
  - specialize (IH k Hin Hne). lia.
Qed.

Lemma flat_map_len2 : forall (A B : Type) (F : A -> list B) ks k1 k2, In k1 ks -> In k2 ks -> k1 <> k2 ->
  F k1 <> [] -> F k2 <> [] -> 2 <= length (flat_map F ks).
Proof.
  induction ks as [|x ks IH]; simpl; intros k1 k2 H1 H2 Hd N1 N2; [contradiction|]. rewrite app_length.
  destruct H1 as [E1|H1]; destruct H2 as [E2|H2].
  - congruence.
  - subst. pose proof (flat_map_len1 _ _ F ks k2 H2 N2). destruct (F k1); [congruence|simpl; lia].
  - subst. pose proof (flat_map_len1 _ _ F ks k1 H1 N1). destruct (F k2); [congruence|simpl; lia].
  - specialize (IH k1 k2 H1 H2 Hd N1 N2). lia.
Qed.

Lemma fragment_nonempty : forall g w c v, In v c -> fragment g w c (cnt g w v) <> [].
Proof.
  intros g w c v Hv. unfold fragment.
  destruct (filter (fun u => cnt g w u =? cnt g w v) c) eqn:E; [|discriminate].
  assert (In v (filter (fun u => cnt g w u =? cnt g w v) c)) by (apply filter_In; split; [exact Hv|apply Nat.eqb_refl]).
  rewrite E in H. contradiction.
Qed.

Lemma fragments_two : forall g w c, uniform g w c = false -> 2 <= length (fragments g w c).
Proof.
  intros g w c H. destruct c as [|x r]; simpl in H; [discriminate|].
  apply forallb_false in H. destruct H as [v [Hv Hc]]. apply Nat.eqb_neq in Hc.
  unfold fragments. apply (flat_map_len2 _ _ _ _ (cnt g w v) (cnt g w x)).
  - apply in_seq. pose proof (cnt_le g w v). lia.
  - apply in_seq. pose proof (cnt_le g w x). lia.
  - exact Hc.
  - apply fragment_nonempty. simpl. auto.
  - apply fragment_nonempty. simpl. auto.
Qed.

Lemma flagged_ne : forall Q, Forall (fun c : cell => fst c = true /\ snd c <> []) Q -> ne Q.
Proof. intros Q H. eapply Forall_impl; [|exact H]. simpl. tauto. Qed.

Lemma split_cell_wt : forall g w c, snd c <> [] ->
  wt (split_cell g w c) <= cw c /\ ne (split_cell g w c) /\ 1 <= length (split_cell g w c).
Proof.
  intros g w c Hn. unfold split_cell. destruct (uniform g w (snd c)) eqn:E.
  - split; [unfold wt; simpl; lia|]. split; [constructor; [exact Hn|constructor]|simpl; lia].
  - pose proof (wt_flagged _ (fragments_flagged g w (snd c))) as HW.
    pose proof (fragments_two _ _ _ E) as H2.
    rewrite (Permutation_length (fragments_verts g w (snd c))) in HW.
    split; [unfold cw; lia|]. split; [apply flagged_ne, fragments_flagged|lia].
Qed.

Lemma step_wt : forall g w P, ne P ->
  wt (flat_map (split_cell g w) P) <= wt P /\ ne (flat_map (split_cell g w) P) /\
  length P <= length (flat_map (split_cell g w) P).
Proof.
  intros g w P H. induction H as [|c P Hc HP IH]; simpl; [unfold wt; simpl; split; [lia|split; [constructor|lia]]|].
  destruct IH as [I1 [I2 I3]]. destruct (split_cell_wt g w c Hc) as [S1 [S2 S3]].
  rewrite wt_app, app_length. split; [unfold wt in *; simpl; lia|]. split; [apply ne_app; assumption|lia].
Qed.

Lemma refine_fuel_enough : forall k g P, ne P -> wt P <= k ->
  exists Q, refine_fuel k g P = Some Q /\ ne Q /\ length P <= length Q.
Proof.
  induction k as [|k IH]; intros g P Hn Hw; simpl.
  - destruct (pick P) as [[P' w]|] eqn:E.
    + destruct (pick_wt _ _ _ E) as [H1 _]. lia.
    + exists P. auto.
  - destruct (pick P) as [[P' w]|] eqn:E.
    + destruct (pick_wt _ _ _ E) as [H1 H2]. specialize (H2 Hn).
      destruct (step_wt g w P' H2) as [S1 [S2 S3]].
      destruct (IH g (flat_map (split_cell g w) P') S2) as [Q [EQ [NQ LQ]]]; [lia|].
      exists Q. split; [exact EQ|]. split; [exact NQ|].
      rewrite <- (pick_length _ _ _ E). lia.
    + exists P. auto.
Qed.

Lemma ne_len : forall P, ne P -> length P <= length (verts P).
Proof.
  intros P H. induction H as [|[fl vs] P Hc _ IH]; [simpl; lia|].
  rewrite verts_cons, app_length. simpl in *. destruct vs; [congruence|simpl; lia].
Qed.

Lemma wt_bound : forall P, wt P <= 2 * length (verts P) + length P.
Proof.
  induction P as [|[fl vs] P IH]; [unfold wt; simpl; lia|].
  rewrite verts_cons, app_length. unfold wt in *. simpl. unfold cw at 1. simpl.
  destruct fl; simpl; lia.
Qed.

(* the refinement never runs out of fuel on a partition without empty cells *)
Theorem refine_total : forall g P, ne P -> exists Q, refine g P = Some Q /\ ne Q /\ length P <= length Q.
Proof. intros g P H. apply refine_fuel_enough; [exact H|apply wt_bound]. Qed.

Lemma leaves_nonempty : forall d g P, leaves d g P <> [].
Proof.
  induction d as [|d IH]; intros g P; simpl.
  - destruct (target P) as [[[b c] a]|]; discriminate.
  - destruct (target P) as [[[b c] a]|] eqn:E; [|discriminate].
    destruct (target_spec _ _ _ _ E) as [fl [_ Hc]].
    destruct c as [|x r]; [simpl in Hc; lia|]. simpl.
    destruct (refine g (indiv b (x :: r) a x)) as [Q|].
    + specialize (IH g Q). destruct (leaves d g Q); [congruence|discriminate].
    + discriminate.
Qed.

Lemma leaves_total : forall d g P, ne P -> NoDup (verts P) -> length (verts P) <= length P + d ->
  ~ In None (leaves d g P).
Proof.
  induction d as [|d IH]; intros g P Hn Hnd HL; simpl.
  - destruct (target P) as [[[b c] a]|] eqn:E.
    + exfalso. destruct (target_spec _ _ _ _ E) as [fl [EP Hc]]. subst P.
      apply Forall_app in Hn. destruct Hn as [Hb Ha]. inversion Ha; subst.
      pose proof (ne_len _ Hb). pose proof (ne_len _ H2).
      rewrite verts_app, verts_cons in HL. repeat rewrite app_length in HL. simpl in HL. lia.
    + simpl. intros [H|[]]. discriminate.
  - destruct (target P) as [[[b c] a]|] eqn:E; [|simpl; intros [H|[]]; discriminate].
    destruct (target_spec _ _ _ _ E) as [fl [EP Hc]].
    intros Hin. apply in_flat_map in Hin. destruct Hin as [v [Hv Hin]].
    assert (Hcnd : NoDup c).
    { subst P. rewrite verts_app, verts_cons in Hnd. simpl in Hnd.
      apply NoDup_app_r in Hnd. apply NoDup_app_l in Hnd. exact Hnd. }
    pose proof (indiv_verts b c a fl v Hcnd Hv) as HIV. rewrite <- EP in HIV.
    assert (HIn : ne (indiv b c a v)).
    { subst P. apply Forall_app in Hn. destruct Hn as [Hb Ha]. inversion Ha; subst.
      unfold indiv. apply ne_app; [exact Hb|]. constructor; [simpl; discriminate|].
      constructor; [|exact H2]. simpl.
      pose proof (Permutation_length HIV) as HLen. unfold indiv in HLen.
      rewrite !verts_app, !verts_cons in HLen. repeat rewrite app_length in HLen. simpl in HLen.
      repeat rewrite app_length in HLen.
      destruct (filter (fun u => negb (u =? v)) c); [simpl in HLen; lia|discriminate]. }
    destruct (refine_total g _ HIn) as [Q [EQ [NQ LQ]]]. rewrite EQ in Hin.
    pose proof (refine_verts _ _ _ EQ) as HQ.
    revert Hin. apply IH.
    + exact NQ.
    + apply (Permutation_NoDup (Permutation_sym (Permutation_trans HQ HIV))). exact Hnd.
    + rewrite (Permutation_length (Permutation_trans HQ HIV)).
      assert (length (indiv b c a v) = S (length P)).
      { subst P. unfold indiv. rewrite !app_length. simpl. lia. }
      lia.
Qed.

Lemma init_part_ne : forall n, ne (init_part n).
Proof. intros [|n]; [constructor|]. constructor; [simpl; discriminate|constructor]. Qed.

(* the reference labelling is defined on every graph *)
Theorem canon_ref_total : forall g, exists p, canon_ref g = Some p.
Proof.
  intros g. unfold canon_ref, all_leaves.
  destruct (refine_total g (init_part (length g)) (init_part_ne _)) as [Q [EQ [NQ LQ]]]. rewrite EQ.
  pose proof (refine_verts _ _ _ EQ) as HQ. rewrite init_part_verts in HQ.
  assert (HT : ~ In None (leaves (length g) g Q)).
  { apply leaves_total; [exact NQ| |].
    - apply (Permutation_NoDup (Permutation_sym HQ)), seq_NoDup.
    - rewrite (Permutation_length HQ), seq_length. lia. }
  destruct (all_some (leaves (length g) g Q)) as [l|] eqn:E.
  - destruct l as [|p r].
    + apply all_some_map_Some in E. simpl in E. exfalso. apply (leaves_nonempty _ _ _ E).
    + eexists. reflexivity.
  - apply all_some_none in E. contradiction.
Qed.

Corollary canon_graph_total : forall g, exists cg, canon_graph g = Some cg.
Proof. intros g. destruct (canon_ref_total g) as [p E]. unfold canon_graph. rewrite E. eexists. reflexivity. Qed.

(* unconditional form of [canon_ref_complete] *)
Theorem canon_ref_iso_iff : forall g h, wf_graph g -> wf_graph h ->
  (canon_graph g = canon_graph h <-> iso g h).
Proof.
  intros g h Hg Hh. destruct (canon_graph_total g) as [cg Eg]. destruct (canon_graph_total h) as [ch Eh].
  rewrite <- (canon_ref_complete g h cg ch Hg Hh Eg Eh). rewrite Eg, Eh.
  split; [intros H; inversion H; reflexivity|intros H; subst; reflexivity].
Qed.
