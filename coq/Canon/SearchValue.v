(* Canon/SearchValue.v — op.value: the entries of the singleton prefix, their ranges, the
   comparison with the best certificate, truncation by deage, and expandValue. *)
From Coq Require Import List Arith Bool ZArith Lia Permutation Sorted.
From Mamba Require Import Canon.Perm Canon.Iso Canon.Model Canon.Refine Canon.Sorted Canon.Tree Canon.Fuel
  Disjoint.Model Canon.SearchModel Canon.SearchCells Canon.SearchTarget Canon.SearchDeage.
Import ListNotations.
Open Scope nat_scope.

(* ---------------------------------------------------------------- triangular numbers *)

Lemma tri_S : forall j, tri (S j) = tri j + j.
Proof.
  intros j. unfold tri. replace (S j - 1) with j by lia.
  replace (j * S j) with ((j - 1) * j + j * 2) by (destruct j; simpl; lia).
  apply Nat.div_add. discriminate.
Qed.

Lemma tri_mono : forall a b, a <= b -> tri a <= tri b.
Proof. intros a b H. induction H; [lia|]. rewrite tri_S. lia. Qed.

Lemma tri_model : forall j, (j * (j - 1)) / 2 = tri j.
Proof. intros j. unfold tri. rewrite Nat.mul_comm. reflexivity. Qed.

(* ---------------------------------------------------------------- ints.Compare *)

Lemma cmp_list_refl : forall a, cmp_list a a = Eq.
Proof. induction a as [|x a IH]; simpl; [reflexivity|]. rewrite Nat.compare_refl. exact IH. Qed.

Lemma cmp_list_eq : forall a b, cmp_list a b = Eq -> a = b.
Proof.
  induction a as [|x a IH]; intros [|y b] H; simpl in H; try discriminate; [reflexivity|].
  destruct (Nat.compare x y) eqn:E; try discriminate. apply Nat.compare_eq in E. subst. f_equal. apply IH. exact H.
Qed.

Lemma cmp_nil_r : forall a, cmp_list a [] = Eq -> a = [].
Proof. intros [|x a] H; [reflexivity|discriminate]. Qed.

(* a prefix that already lost against c loses whatever is appended *)
Lemma cmp_app_lt : forall v e c, cmp_list v (firstn (length v) c) = Lt ->
  cmp_list (v ++ e) (firstn (length (v ++ e)) c) = Lt.
Proof.
  induction v as [|x v IH]; intros e c H; simpl in H.
  - destruct (firstn 0 c) eqn:E; [discriminate|]. simpl in E. discriminate.
  - destruct c as [|y c]; simpl in *; [discriminate|].
    destruct (Nat.compare x y); [apply IH; exact H|reflexivity|discriminate].
Qed.

Lemma cmp_app_ne : forall v e c, cmp_list v (firstn (length v) c) <> Eq ->
  cmp_list (v ++ e) (firstn (length (v ++ e)) c) <> Eq.
Proof.
  induction v as [|x v IH]; intros e c H; simpl in H.
  - exfalso. apply H. reflexivity.
  - destruct c as [|y c]; simpl in *; [discriminate|].
    destruct (Nat.compare x y); [apply IH; exact H|discriminate|discriminate].
Qed.

(* ---------------------------------------------------------------- truncation *)

Lemma drop_while_all : forall f a b, Forall (fun x => f x = true) a -> drop_while f (a ++ b) = drop_while f b.
Proof. induction a as [|x a IH]; intros b H; [reflexivity|]. inversion H; subst. simpl. rewrite H2. apply IH. assumption. Qed.

Lemma drop_while_stop : forall f l, (match l with [] => True | x :: _ => f x = false end) -> drop_while f l = l.
Proof. intros f [|x l] H; [reflexivity|]. simpl. rewrite H. reflexivity. Qed.

Lemma strip_ge_app : forall t pre rest, Forall (fun x => x < t) pre -> Forall (fun x => t <= x) rest ->
  strip_ge t (pre ++ rest) = pre.
Proof.
  intros t pre rest Hp Hr. unfold strip_ge. rewrite rev_app_distr, drop_while_all.
  - rewrite drop_while_stop; [apply rev_involutive|].
    destruct (rev pre) as [|x l] eqn:E; [exact I|].
    assert (In x pre) by (apply in_rev; rewrite E; left; reflexivity).
    rewrite Forall_forall in Hp. apply Nat.leb_gt. apply Hp. assumption.
  - apply Forall_rev. eapply Forall_impl; [|exact Hr]. intros x Hx. apply Nat.leb_le. exact Hx.
Qed.

(* ---------------------------------------------------------------- entries *)

Section Value.
Variable g : graph.
Variable n : nat.

Definition ent (cs : list acell) (j : nat) : list nat :=
  match nth_error cs j with
  | Some c => match cverts c with [u] => entries g cs n j u | _ => [] end
  | None => []
  end.

Definition good (cs : list acell) (s : nat) : list nat := flat_map (ent cs) (seq 0 s).

Definition prefix_single (cs : list acell) (s : nat) : Prop :=
  forall k c, k < s -> nth_error cs k = Some c -> single c.

Lemma isort_In : forall x l, In x (isort l) <-> In x l.
Proof.
  intros x l. split; intros H.
  - apply (Permutation_in _ (isort_perm l)). exact H.
  - apply (Permutation_in _ (Permutation_sym (isort_perm l))). exact H.
Qed.

Lemma entries_range : forall cs j u x, In x (entries g cs n j u) -> tri j <= x < tri j + j.
Proof.
  intros cs j u x H. unfold entries in H. apply (proj1 (isort_In _ _)) in H. apply in_map_iff in H.
  destruct H as (v & <- & Hv). apply filter_In in Hv. destruct Hv as [_ Hv].
  apply andb_true_iff in Hv. destruct Hv as [_ Hv]. apply Nat.ltb_lt in Hv. rewrite tri_model. lia.
Qed.

Lemma ent_range : forall cs j x, In x (ent cs j) -> tri j <= x < tri (S j).
Proof.
  intros cs j x H. unfold ent in H. rewrite tri_S.
  destruct (nth_error cs j) as [c|]; [|contradiction]. destruct (cverts c) as [|u [|u' t]]; try contradiction.
  eapply entries_range. exact H.
Qed.

Lemma good_S : forall cs s, good cs (S s) = good cs s ++ ent cs s.
Proof. intros. unfold good. rewrite seq_S, flat_map_app. simpl. rewrite app_nil_r. reflexivity. Qed.

Lemma good_split : forall cs a b, a <= b -> good cs b = good cs a ++ flat_map (ent cs) (seq a (b - a)).
Proof.
  intros cs a b H. unfold good. replace b with (a + (b - a)) at 1 by lia.
  rewrite seq_app, flat_map_app. reflexivity.
Qed.

Lemma good_lt : forall cs s x, In x (good cs s) -> x < tri s.
Proof.
  intros cs s x H. unfold good in H. apply in_flat_map in H. destruct H as (j & Hj & Hx).
  apply in_seq in Hj. apply ent_range in Hx. pose proof (tri_mono (S j) s ltac:(lia)). lia.
Qed.

Lemma ents_ge : forall cs a k x, In x (flat_map (ent cs) (seq a k)) -> tri a <= x.
Proof.
  intros cs a k x H. apply in_flat_map in H. destruct H as (j & Hj & Hx).
  apply in_seq in Hj. apply ent_range in Hx. pose proof (tri_mono a j ltac:(lia)). lia.
Qed.

(* the bins in front decide *)
Lemma in_cell_prefix : forall j cs cs', Forall2 same_cell (firstn j cs) (firstn j cs') ->
  forall v, (in_cell cs v < j -> in_cell cs' v = in_cell cs v) /\ (in_cell cs' v < j -> in_cell cs v < j).
Proof.
  induction j as [|j IH]; intros cs cs' H v; [split; intros; lia|].
  destruct cs as [|c cs]; destruct cs' as [|c' cs']; simpl in H; inversion H; subst.
  - split; intros; simpl in *; lia.
  - destruct H3 as [_ Hv]. simpl. rewrite Hv. destruct (Canon.Perm.memb v (cverts c')); [split; intros; lia|].
    destruct (IH cs cs' H5 v) as [I1 I2]. split; intros; [rewrite I1; lia|].
    assert (in_cell cs v < j) by (apply I2; lia). lia.
Qed.

Lemma entries_prefix : forall j cs cs' u, Forall2 same_cell (firstn j cs) (firstn j cs') ->
  entries g cs n j u = entries g cs' n j u.
Proof.
  intros j cs cs' u H. unfold entries. f_equal.
  assert (HF : forall v, (in_cell cs v <? j) = (in_cell cs' v <? j)).
  { intros v. destruct (in_cell_prefix j cs cs' H v) as [I1 I2].
    destruct (in_cell cs v <? j) eqn:E1.
    - apply Nat.ltb_lt in E1. symmetry. apply Nat.ltb_lt. rewrite I1; assumption.
    - apply Nat.ltb_ge in E1. symmetry. apply Nat.ltb_ge. destruct (Nat.lt_ge_cases (in_cell cs' v) j); [|assumption].
      specialize (I2 H0). lia. }
  rewrite (filter_ext _ (fun v => adjb g u v && (in_cell cs' v <? j))) by (intros v; rewrite HF; reflexivity).
  apply map_ext_in. intros v Hv. apply filter_In in Hv. destruct Hv as [_ Hv].
  apply andb_true_iff in Hv. destruct Hv as [_ Hv]. apply Nat.ltb_lt in Hv.
  destruct (in_cell_prefix j cs cs' H v) as [I1 I2]. rewrite (I1 (I2 Hv)). reflexivity.
Qed.

Lemma Forall2_firstn_le : forall (A B : Type) (Rel : A -> B -> Prop) k j l l', k <= j ->
  Forall2 Rel (firstn j l) (firstn j l') -> Forall2 Rel (firstn k l) (firstn k l').
Proof.
  intros A B Rel k. induction k as [|k IH]; intros j l l' Hk H; [constructor|].
  destruct j; [lia|]. destruct l; destruct l'; simpl in *; inversion H; subst; constructor; try assumption.
  apply (IH j); [lia|assumption].
Qed.

Lemma ent_prefix : forall j cs cs', Forall2 same_cell (firstn (S j) cs) (firstn (S j) cs') -> ent cs j = ent cs' j.
Proof.
  intros j cs cs' H. unfold ent.
  assert (HN : forall k (l l' : list acell), Forall2 same_cell (firstn (S k) l) (firstn (S k) l') ->
           match nth_error l k, nth_error l' k with
           | Some c, Some c' => cverts c = cverts c'
           | None, None => True
           | _, _ => False
           end).
  { induction k as [|k IHk]; intros l l' HF; destruct l; destruct l'; simpl in *; inversion HF; subst; try exact I.
    - destruct H3. assumption.
    - apply IHk. assumption. }
  specialize (HN j cs cs' H). destruct (nth_error cs j) as [c|]; destruct (nth_error cs' j) as [c'|]; try contradiction; [|reflexivity].
  rewrite <- HN. destruct (cverts c) as [|u [|u' t]]; try reflexivity.
  apply entries_prefix. eapply Forall2_firstn_le; [|exact H]. lia.
Qed.

Lemma good_prefix : forall s cs cs', Forall2 same_cell (firstn s cs) (firstn s cs') -> good cs s = good cs' s.
Proof.
  intros s cs cs' H. unfold good. apply flat_map_ext_in'. intros j Hj. apply in_seq in Hj.
  apply ent_prefix. eapply Forall2_firstn_le; [|exact H]. lia.
Qed.

Lemma prefix_single_same : forall s cs cs', Forall2 same_cell (firstn s cs) (firstn s cs') ->
  prefix_single cs s -> prefix_single cs' s.
Proof.
  intros s cs cs' H HP k c' Hk Hc'.
  assert (HN : nth_error (firstn s cs') k = Some c') by (rewrite nth_firstn_lt; assumption).
  destruct (F2_nth_r _ _ _ _ _ H _ _ HN) as (c & Hc & [_ Hv]). rewrite nth_firstn_lt in Hc by assumption.
  destruct (HP k c Hk Hc) as [x Hx]. exists x. rewrite <- Hv. exact Hx.
Qed.

End Value.
