(* Canon/SearchExec.v — what a successful run of each step of the search consists of
   (decomposition of the monadic definitions of Canon/SearchModel.v, used by every invariant). *)
From Coq Require Import List Arith Bool ZArith Lia.
From Mamba Require Import Canon.Perm Canon.Iso Canon.Model Disjoint.Model Canon.SearchModel Canon.SearchHoare.
Import ListNotations.
Open Scope nat_scope.

Section Exec.
Variable g : graph.
Variables n m : nat.

Lemma undo_cases : forall st st1, undo st = Ok st1 ->
  (s_skip st = true /\ st1 = set_skip st false) \/
  (s_skip st = false /\ exists ps', deage (s_ps st) = Ok ps' /\ st1 = set_ps st ps').
Proof.
  intros st st1 H. unfold undo in H. destruct (s_skip st).
  - left. inversion H. auto.
  - right. split; [reflexivity|]. bind_inv H. inversion H; subst. eauto.
Qed.

Lemma record_gen_cases : forall st gam st', record_gen n st gam = Ok st' ->
  exists d b, orb_loop (seq 0 n) gam (s_flOrb st) false = Some (d, b) /\
    ((b = true /\ length (s_gens st) + 1 <= n - 1 /\ st' = set_gens (set_flOrb st d) (s_gens st ++ [gam])) \/
     (b = false /\ st' = set_flOrb st d)).
Proof.
  intros st gam st' H. unfold record_gen in H. bind_inv H. apply of_opt_ok in E. destruct r as [d b].
  exists d, b. split; [exact E|]. simpl in H. destruct b.
  - left. destruct (n - 1 <? length (s_gens st) + 1) eqn:EL; [discriminate|]. apply Nat.ltb_ge in EL.
    inversion H. auto.
  - right. inversion H. auto.
Qed.

Lemma back_jump_cases : forall st bp st', back_jump st bp = Ok st' ->
  exists keep ps', h1_keep (s_path st) bp = Some keep /\
    deage_n (length (s_path st) - keep) (s_ps st) = Ok ps' /\
    st' = set_stack (set_ps st ps') (firstn keep (s_path st)) (firstn keep (s_choices st)).
Proof.
  intros st bp st' H. unfold back_jump in H. bind_inv H. apply of_opt_ok in E. bind_inv H.
  inversion H; subst. eauto.
Qed.

Lemma h1_keep_bounds : forall path bp keep, h1_keep path bp = Some keep ->
  keep <= length path /\ (path <> [] -> 1 <= keep).
Proof.
  intros path bp keep H. unfold h1_keep in H.
  assert (G : forall k i r, first_diff k i path bp = Some (Some r) -> i <= r < i + k).
  { induction k as [|k IH]; intros i r Hr; simpl in Hr; [discriminate|].
    destruct (nth_error path i); [|discriminate]. destruct (nth_error bp i); [|discriminate].
    destruct (n0 =? n1).
    - apply IH in Hr. lia.
    - inversion Hr; subst. lia. }
  destruct (first_diff (length path - 1) 0 path bp) as [[r|]|] eqn:E; [| |discriminate].
  - inversion H; subst. apply G in E. split; [lia|]. intros _. lia.
  - inversion H; subst. split; [lia|]. intros HN. destruct path; [congruence|simpl; lia].
Qed.

Lemma leaf_step_cases : forall st st', leaf_step n m st = Ok st' ->
  let st0 := bump st in
  let order := order_of (p_cells (s_ps st)) in
  (cmp_list (p_value (s_ps st)) (s_cb st) = Gt /\
   exists cbInv, inv_into (s_cbInv st) order 0 = Some cbInv /\ st' = new_best n m st0 cbInv) \/
  (cmp_list (p_value (s_ps st)) (s_cb st) = Eq /\
   exists gam d b st1, gamma_of order (s_cbInv st) (seq 0 n) = Some gam /\
     orb_loop (seq 0 n) gam (s_cbOrb st) false = Some (d, b) /\
     record_gen n (set_cbOrb st0 d) gam = Ok st1 /\ back_jump st1 (s_cbPath st1) = Ok st') \/
  (cmp_list (p_value (s_ps st)) (s_cb st) = Lt /\ cmp_list (p_value (s_ps st)) (s_fl st) = Eq /\
   exists gam st1, gamma_of order (s_flInv st) (seq 0 n) = Some gam /\
     record_gen n st0 gam = Ok st1 /\ back_jump st1 (s_flPath st1) = Ok st') \/
  (cmp_list (p_value (s_ps st)) (s_cb st) = Lt /\ cmp_list (p_value (s_ps st)) (s_fl st) <> Eq /\ st' = st0).
Proof.
  intros st st' H. unfold leaf_step in H. cbn [bump s_ps s_cb s_cbInv s_cbOrb s_fl s_flInv] in H.
  destruct (cmp_list (p_value (s_ps st)) (s_cb st)) eqn:EC.
  - right. left. split; [reflexivity|]. bind_inv H. apply of_opt_ok in E. bind_inv H. apply of_opt_ok in E0.
    destruct r0 as [d b]. bind_inv H. simpl in E1. exists r, d, b, r0. auto.
  - right. right. destruct (cmp_list (p_value (s_ps st)) (s_fl st)) eqn:EF.
    + left. split; [reflexivity|]. split; [reflexivity|]. bind_inv H. apply of_opt_ok in E. bind_inv H.
      exists r, r0. auto.
    + right. split; [reflexivity|]. split; [discriminate|]. inversion H. reflexivity.
    + right. split; [reflexivity|]. split; [discriminate|]. inversion H. reflexivity.
  - left. split; [reflexivity|]. bind_inv H. apply of_opt_ok in E. inversion H. eauto.
Qed.

Lemma h2_cases : forall count lpath path ds order pos j v d b,
  h2 count lpath path ds order pos j v = Ok (d, b) ->
  (d = ds /\ b = false) \/
  (j <= pos /\ has_earlier_mate ds (firstn j (skipn (pos - j) order)) v = Some (d, b)).
Proof.
  intros count lpath path ds order pos j v d b H. unfold h2 in H.
  destruct ((0 <? count) && has_prefix lpath (removelast path)).
  - right. destruct (pos <? j) eqn:E; [discriminate|]. apply Nat.ltb_ge in E. apply of_opt_ok in H. auto.
  - left. inversion H. auto.
Qed.

(* one iteration of jLoop *)
Lemma jbody_cases : forall j st st' ok, jbody g n m j st = Ok (st', ok) ->
  exists st1 pos v fo b1,
    undo st = Ok st1 /\ last_opt (s_choices st1) = Some (S pos) /\
    nth_error (order_of (p_cells (s_ps st1))) pos = Some v /\
    h2 (s_count st1) (s_flPath st1) (s_path st1) (s_flOrb st1) (order_of (p_cells (s_ps st1))) pos j v = Ok (fo, b1) /\
    let st2 := set_stack st1 (s_path st1) (set_last (s_choices st1) pos) in
    let st3 := set_flOrb st2 fo in
    ((b1 = true /\ ok = false /\ st' = set_skip st3 true) \/
     (b1 = false /\ exists co b2,
        h2 (s_count st1) (s_cbPath st1) (s_path st1) (s_cbOrb st1) (order_of (p_cells (s_ps st1))) pos j v = Ok (co, b2) /\
        let st4 := set_cbOrb st3 co in
        ((b2 = true /\ ok = false /\ st' = set_skip st4 true) \/
         (b2 = false /\ exists w ps', split_bin g n m (s_cb st1) (s_fl st1) (s_ps st1) pos = Ok (w, ps') /\
            ok = negb w /\
            st' = set_stack (set_ps st4 ps') (set_last (s_path st1) j) (set_last (s_choices st1) pos))))).
Proof.
  intros j st st' ok H. unfold jbody in H. bind_inv H. rename r into st1.
  destruct (last_opt (s_choices st1)) as [[|pos]|] eqn:EL; try discriminate.
  cbn [set_stack set_flOrb set_cbOrb set_ps s_ps s_count s_flPath s_cbPath s_path s_flOrb s_cbOrb s_choices s_cb s_fl] in H.
  bind_inv H. apply of_opt_ok in E0. rename r into v. bind_inv H. destruct r as [fo b1].
  cbn [fst snd] in H.
  exists st1, pos, v, fo, b1. split; [exact E|]. split; [exact EL|]. split; [exact E0|]. split; [exact E1|].
  cbv zeta. destruct b1.
  - left. inversion H. auto.
  - right. split; [reflexivity|].
    bind_inv H. destruct r as [co b2]. cbn [fst snd] in H. exists co, b2. split; [exact E2|].
    destruct b2.
    + left. inversion H. auto.
    + right. split; [reflexivity|].
      bind_inv H. destruct r as [w ps']. exists w, ps'. split; [exact E3|]. inversion H. auto.
Qed.

End Exec.
