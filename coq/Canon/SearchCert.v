(* Canon/SearchCert.v — op.value at a leaf is a certificate of the relabelled graph: equal
   certificates of two leaves mean equal relabelled graphs (for simple graphs), and every
   certificate has exactly g.M() entries. *)
From Coq Require Import List Arith Bool ZArith Lia Permutation Sorted.
From Mamba Require Import Canon.Perm Canon.Iso Canon.Model Canon.Refine Canon.Sorted Canon.Tree Canon.Fuel
  Disjoint.Model Canon.SearchModel Canon.SearchCells Canon.SearchTarget Canon.SearchDeage
  Canon.SearchValue Canon.SearchExpand.
Import ListNotations.
Open Scope nat_scope.

Lemma tri_inj : forall j k j' k', k < j -> k' < j' -> tri j + k = tri j' + k' -> j = j' /\ k = k'.
Proof.
  intros j k j' k' Hk Hk' E.
  destruct (Nat.lt_trichotomy j j') as [H|[H|H]].
  - pose proof (tri_mono (S j) j' ltac:(lia)). rewrite tri_S in H0. lia.
  - subst. split; [reflexivity|lia].
  - pose proof (tri_mono (S j') j ltac:(lia)). rewrite tri_S in H0. lia.
Qed.

Lemma in_cell_discrete : forall cs v, Forall single cs -> in_cell cs v = index_of v (order_of cs).
Proof.
  induction cs as [|c cs IH]; intros v H; [reflexivity|]. inversion H; subst. destruct H2 as [x Hx].
  simpl. rewrite order_of_cons, Hx. simpl. rewrite Nat.eqb_sym, orb_false_r.
  destruct (x =? v); [reflexivity|]. rewrite IH by assumption. reflexivity.
Qed.

Section Cert.
Variable g : graph.
Variable n : nat.

Notation good := (good g n).
Notation ent := (ent g n).

(* the bins of a leaf *)
Definition leafp (cs : list acell) : Prop :=
  Forall single cs /\ Permutation (order_of cs) (seq 0 n).

Lemma leafp_length : forall cs, leafp cs -> length cs = n /\ length (order_of cs) = n /\ NoDup (order_of cs).
Proof.
  intros cs [HS HP]. pose proof (Permutation_length HP) as HL. rewrite seq_length in HL.
  split; [rewrite <- (singles_order_length _ HS); exact HL|]. split; [exact HL|].
  apply (Permutation_NoDup (Permutation_sym HP)). apply seq_NoDup.
Qed.

Lemma leafp_prefix : forall cs s, leafp cs -> prefix_single cs s.
Proof. intros cs s [HS _] k c _ Hc. rewrite Forall_forall in HS. apply HS. eapply nth_error_In. exact Hc. Qed.

Lemma ent_discrete : forall cs j x, leafp cs -> j < n ->
  (In x (ent cs j) <->
   exists k, k < j /\ x = tri j + k /\ adjb g (nth j (order_of cs) 0) (nth k (order_of cs) 0) = true).
Proof.
  intros cs j x HL Hj. destruct (leafp_length _ HL) as (L1 & L2 & Hnd). destruct HL as [HS HP].
  set (p := order_of cs) in *.
  destruct (nth_error cs j) as [c|] eqn:Ec; [|apply nth_error_None in Ec; lia].
  assert (Hc : single c) by (rewrite Forall_forall in HS; apply HS; eapply nth_error_In; exact Ec).
  destruct Hc as [u Hu].
  assert (Eu : nth j p 0 = u).
  { apply nth_error_nth. eapply order_nth_single; [|exact Ec|exact Hu]. apply leafp_prefix. split; assumption. }
  unfold SearchValue.ent. rewrite Ec, Hu. unfold entries. rewrite isort_In, in_map_iff. split.
  - intros (v & <- & Hv). apply filter_In in Hv. destruct Hv as [Hvn Hv]. apply in_seq in Hvn.
    apply andb_true_iff in Hv. destruct Hv as [Ha Hlt]. apply Nat.ltb_lt in Hlt.
    rewrite in_cell_discrete in * by assumption. fold p in Hlt |- *.
    assert (Hin : In v p) by (apply (Permutation_in _ (Permutation_sym HP)); apply in_seq; lia).
    exists (index_of v p). split; [exact Hlt|]. split; [rewrite tri_model; reflexivity|].
    rewrite Eu, (nth_index_of v p 0 Hin). exact Ha.
  - intros (k & Hk & -> & Ha). exists (nth k p 0).
    assert (Hkp : index_of (nth k p 0) p = k) by (apply index_of_nth; [exact Hnd|lia]).
    assert (Hic : in_cell cs (nth k p 0) = k) by (rewrite in_cell_discrete by assumption; exact Hkp).
    rewrite Hic. split; [rewrite tri_model; reflexivity|].
    apply filter_In. split.
    + apply (Permutation_in _ HP). apply nth_In. lia.
    + rewrite Hic, <- Eu, Ha. simpl. apply Nat.ltb_lt. exact Hk.
Qed.

Lemma cert_In : forall cs x, leafp cs ->
  (In x (good cs n) <->
   exists j k, k < j /\ j < n /\ x = tri j + k /\ adjb g (nth j (order_of cs) 0) (nth k (order_of cs) 0) = true).
Proof.
  intros cs x HL. unfold SearchValue.good. rewrite in_flat_map. split.
  - intros (j & Hj & Hx). apply in_seq in Hj. apply (ent_discrete cs j x HL) in Hx; [|lia].
    destruct Hx as (k & H1 & H2 & H3). exists j, k. repeat split; try assumption; lia.
  - intros (j & k & H1 & H2 & H3 & H4). exists j. split; [apply in_seq; lia|].
    apply (ent_discrete cs j x HL H2). exists k. repeat split; assumption.
Qed.

(* equal certificates: equal adjacency below the diagonal *)
Lemma cert_eq_adj : forall cs cs', leafp cs -> leafp cs' -> good cs n = good cs' n ->
  forall j k, k < j -> j < n ->
    adjb g (nth j (order_of cs) 0) (nth k (order_of cs) 0) = adjb g (nth j (order_of cs') 0) (nth k (order_of cs') 0).
Proof.
  intros cs cs' HL HL' E j k Hk Hj.
  assert (G : forall a b, leafp a -> leafp b -> good a n = good b n ->
            adjb g (nth j (order_of a) 0) (nth k (order_of a) 0) = true ->
            adjb g (nth j (order_of b) 0) (nth k (order_of b) 0) = true).
  { intros a b La Lb Eab Ha.
    assert (Hin : In (tri j + k) (good a n)) by (apply (cert_In a _ La); exists j, k; repeat split; assumption).
    rewrite Eab in Hin. apply (cert_In b _ Lb) in Hin. destruct Hin as (j' & k' & H1 & H2 & H3 & H4).
    destruct (tri_inj _ _ _ _ Hk H1 H3) as [-> ->]. exact H4. }
  destruct (adjb g (nth j (order_of cs) 0) (nth k (order_of cs) 0)) eqn:E1.
  - symmetry. apply (G cs cs'); assumption.
  - destruct (adjb g (nth j (order_of cs') 0) (nth k (order_of cs') 0)) eqn:E2; [|reflexivity].
    assert (HT := G cs' cs HL' HL (eq_sym E) E2). congruence.
Qed.

(* ... hence equal relabelled graphs, for a simple graph *)
Theorem cert_eq_relabel : forall cs cs', simple g -> length g = n -> leafp cs -> leafp cs' ->
  good cs n = good cs' n -> relabel g (order_of cs) = relabel g (order_of cs').
Proof.
  intros cs cs' (Hwf & Hirr & Hsym) Hn HL HL' E.
  destruct (leafp_length _ HL) as (_ & L2 & _). destruct (leafp_length _ HL') as (_ & L2' & _).
  apply graph_ext; [apply relabel_wf|apply relabel_wf|rewrite !relabel_length; lia|].
  intros i j Hi Hj. rewrite relabel_length in Hi, Hj.
  rewrite !adjb_relabel by lia. rewrite !(papp_nth _ _ 0) by lia.
  destruct (Nat.lt_trichotomy i j) as [H|[H|H]].
  - rewrite (Hsym (nth i (order_of cs) 0)), (Hsym (nth i (order_of cs') 0)). apply cert_eq_adj; try assumption; lia.
  - subst. rewrite !Hirr. reflexivity.
  - apply cert_eq_adj; try assumption; lia.
Qed.

(* ---------------------------------------------------------------- the number of entries *)

Definition b2n (b : bool) : nat := if b then 1 else 0.

Lemma filter_length_sum : forall (A : Type) (f : A -> bool) l, length (filter f l) = list_sum (map (fun x => b2n (f x)) l).
Proof. induction l as [|x l IH]; simpl; [reflexivity|]. destruct (f x); simpl; rewrite IH; reflexivity. Qed.

Lemma filter_seq_S : forall f k, length (filter f (seq 0 (S k))) = length (filter f (seq 0 k)) + b2n (f k).
Proof. intros f k. rewrite seq_S, filter_app, app_length. simpl. destruct (f k); reflexivity. Qed.

Definition rowc (h : graph) (k u : nat) : nat := length (filter (fun v => adjb h u v) (seq 0 k)).
Definition total (h : graph) (k : nat) : nat := list_sum (map (rowc h k) (seq 0 k)).
Definition upper_c (h : graph) (k : nat) : nat :=
  list_sum (map (fun j => length (filter (fun i => adjb h j i) (seq 0 j))) (seq 0 k)).

Lemma list_sum_map_add : forall (A : Type) (f f' : A -> nat) l,
  list_sum (map (fun x => f x + f' x) l) = list_sum (map f l) + list_sum (map f' l).
Proof. induction l as [|x l IH]; simpl; [reflexivity|]. rewrite IH. lia. Qed.

Lemma total_upper : forall h, (forall u, adjb h u u = false) -> (forall u v, adjb h u v = adjb h v u) ->
  forall k, total h k = 2 * upper_c h k.
Proof.
  intros h Hirr Hsym. induction k as [|k IH]; [reflexivity|].
  unfold total, upper_c in *. rewrite !seq_S, !map_app, !list_sum_app. simpl. rewrite !Nat.add_0_r.
  assert (E1 : map (rowc h (S k)) (seq 0 k) = map (fun u => rowc h k u + b2n (adjb h u k)) (seq 0 k)).
  { apply map_ext. intros u. unfold rowc. apply filter_seq_S. }
  rewrite E1, list_sum_map_add, IH.
  unfold rowc. rewrite filter_seq_S, Hirr. simpl b2n.
  rewrite <- filter_length_sum.
  rewrite (filter_ext (fun u => adjb h u k) (fun i => adjb h k i)) by (intros; apply Hsym). lia.
Qed.

Lemma list_sum_perm : forall l l', Permutation l l' -> list_sum l = list_sum l'.
Proof. intros l l' H. induction H; simpl; lia. Qed.

Lemma filter_length_perm : forall (f : nat -> bool) l l', Permutation l l' -> length (filter f l) = length (filter f l').
Proof. intros f l l' H. apply Permutation_length. apply filter_perm. exact H. Qed.

Lemma map_nth_seq_len : forall (p : list nat), map (fun i => nth i p 0) (seq 0 (length p)) = p.
Proof. intros p. apply map_nth_seq. Qed.

Lemma total_relabel : forall p, length g = n -> wf_graph g -> Permutation p (seq 0 n) -> total (relabel g p) n = total g n.
Proof.
  intros p Hn Hwf HP. pose proof (Permutation_length HP) as HL. rewrite seq_length in HL. unfold total.
  assert (E : map (rowc (relabel g p) n) (seq 0 n) = map (fun i => rowc g n (nth i p 0)) (seq 0 n)).
  { apply map_ext_in. intros i Hi. apply in_seq in Hi. unfold rowc.
    rewrite (filter_ext_in (fun v => adjb (relabel g p) i v) (fun v => adjb g (nth i p 0) (nth v p 0))).
    - transitivity (length (filter (fun w => adjb g (nth i p 0) w) (map (fun v => nth v p 0) (seq 0 n)))).
      + rewrite filter_map_comm, map_length. reflexivity.
      + replace (map (fun v => nth v p 0) (seq 0 n)) with p by (rewrite <- HL; symmetry; apply map_nth_seq_len).
        apply filter_length_perm. exact HP.
    - intros v Hv. apply in_seq in Hv. rewrite adjb_relabel by lia. rewrite !(papp_nth _ _ 0) by lia. reflexivity. }
  rewrite E. rewrite <- (map_map (fun i => nth i p 0) (rowc g n)).
  replace (map (fun i => nth i p 0) (seq 0 n)) with p by (rewrite <- HL; symmetry; apply map_nth_seq_len).
  apply list_sum_perm. apply Permutation_map. exact HP.
Qed.

Lemma length_flat_map : forall (A B : Type) (f : A -> list B) l, length (flat_map f l) = list_sum (map (fun x => length (f x)) l).
Proof. induction l as [|x l IH]; simpl; [reflexivity|]. rewrite app_length, IH. reflexivity. Qed.

Lemma filter_flat_map : forall (A B : Type) (p : B -> bool) (f : A -> list B) l,
  filter p (flat_map f l) = flat_map (fun x => filter p (f x)) l.
Proof. induction l as [|x l IH]; simpl; [reflexivity|]. rewrite filter_app, IH. reflexivity. Qed.

Lemma num_edges_upper : forall h, (forall u v, adjb h u v = adjb h v u) -> num_edges h = upper_c h (length h).
Proof.
  intros h Hsym. unfold num_edges, upper_c. rewrite filter_flat_map, length_flat_map. f_equal.
  apply map_ext. intros j. rewrite filter_map_comm, map_length. simpl.
  apply f_equal. apply filter_ext. intros i. apply Hsym.
Qed.

Lemma filter_lt_seq : forall (f : nat -> bool) j k, j <= k ->
  length (filter (fun i => f i && (i <? j)) (seq 0 k)) = length (filter f (seq 0 j)).
Proof.
  intros f j k H. replace k with (j + (k - j)) by lia. rewrite seq_app, filter_app, app_length.
  rewrite (filter_ext_in (fun i => f i && (i <? j)) f (seq 0 j)).
  - rewrite (filter_ext_in (fun i => f i && (i <? j)) (fun _ => false) (seq (0 + j) (k - j))).
    + assert (forall (l : list nat), filter (fun _ => false) l = []) by (induction l; auto). rewrite H0. simpl. lia.
    + intros i Hi. apply in_seq in Hi. assert (i <? j = false) by (apply Nat.ltb_ge; lia). rewrite H0. apply andb_false_r.
  - intros i Hi. apply in_seq in Hi. assert (i <? j = true) by (apply Nat.ltb_lt; lia). rewrite H0. apply andb_true_r.
Qed.

Lemma ent_length : forall cs j, leafp cs -> j < n -> length g = n ->
  length (ent cs j) = length (filter (fun i => adjb (relabel g (order_of cs)) j i) (seq 0 j)).
Proof.
  intros cs j HL Hj Hn. destruct (leafp_length _ HL) as (L1 & L2 & Hnd). pose proof HL as [HS HP].
  set (p := order_of cs) in *.
  destruct (nth_error cs j) as [c|] eqn:Ec; [|apply nth_error_None in Ec; lia].
  assert (Hc : single c) by (rewrite Forall_forall in HS; apply HS; eapply nth_error_In; exact Ec).
  destruct Hc as [u Hu].
  assert (Eu : nth j p 0 = u).
  { apply nth_error_nth. eapply order_nth_single; [|exact Ec|exact Hu]. apply leafp_prefix. exact HL. }
  unfold SearchValue.ent. rewrite Ec, Hu. unfold entries.
  rewrite (Permutation_length (isort_perm _)), map_length.
  rewrite (filter_length_perm _ _ _ (Permutation_sym HP)).
  transitivity (length (filter (fun k => adjb g u (nth k p 0) && (k <? j)) (seq 0 n))).
  - transitivity (length (filter (fun v => adjb g u v && (in_cell cs v <? j)) (map (fun k => nth k p 0) (seq 0 n)))).
    + replace (map (fun k => nth k p 0) (seq 0 n)) with p by (rewrite <- L2; symmetry; apply map_nth_seq_len). reflexivity.
    + rewrite filter_map_comm, map_length. apply f_equal. apply filter_ext_in. intros k Hk. apply in_seq in Hk.
      rewrite in_cell_discrete by assumption. fold p. rewrite index_of_nth by (try assumption; lia). reflexivity.
  - rewrite filter_lt_seq by lia. apply f_equal. apply filter_ext_in. intros k Hk. apply in_seq in Hk.
    rewrite adjb_relabel by (fold p; lia). fold p. rewrite !(papp_nth _ _ 0) by lia. rewrite Eu. reflexivity.
Qed.

(* every certificate lists all the edges *)
Theorem cert_length : forall cs, simple g -> length g = n -> leafp cs -> length (good cs n) = num_edges g.
Proof.
  intros cs Hg Hn HL. destruct (leafp_length _ HL) as (L1 & L2 & Hnd). pose proof HL as [HS HP].
  pose proof Hg as (Hwf & Hirr & Hsym).
  assert (Hperm : is_perm (length g) (order_of cs) = true) by (apply is_perm_Permutation; rewrite Hn; exact HP).
  pose proof (relabel_simple g _ Hg Hperm) as (Hwf' & Hirr' & Hsym').
  assert (E1 : length (good cs n) = upper_c (relabel g (order_of cs)) n).
  { unfold SearchValue.good, upper_c. rewrite length_flat_map. f_equal. apply map_ext_in. intros j Hj. apply in_seq in Hj.
    apply ent_length; [exact HL|lia|exact Hn]. }
  rewrite E1. rewrite (num_edges_upper g Hsym), Hn.
  pose proof (total_upper _ Hirr' Hsym' n). pose proof (total_upper _ Hirr Hsym n).
  pose proof (total_relabel _ Hn Hwf HP). lia.
Qed.

End Cert.
