(* Canon/SearchCompleteVC2.v — verification conditions for the fourth layer of the invariant: one iteration of jLoop.
   A child skipped by Heuristic 2 is the image, under an element of the group generated so far that fixes the
   node, of a child of smaller rank; a child cut off inside splitBin has no leaf with the certificate of
   the first leaf. *)
From Coq Require Import List Arith Bool ZArith Lia Permutation Sorted.
From Mamba Require Canon.AutModel Canon.AutBase Canon.Aut Canon.Group Canon.Orbit.
From Mamba Require Import Canon.Perm Canon.Iso Canon.Model Canon.Refine Canon.Sorted Canon.Tree Canon.Fuel
  Disjoint.Model Disjoint.Proofs Canon.SearchModel Canon.SearchHoare Canon.SearchCells Canon.SearchTarget
  Canon.SearchDeage Canon.SearchRefine Canon.SearchExec Canon.SearchValue Canon.SearchExpand Canon.SearchCert
  Canon.SearchOrder Canon.SearchEquiv Canon.SearchWalk Canon.SearchEquit Canon.SearchCut Canon.SearchSibling
  Canon.SearchLink Canon.SearchInvT Canon.SearchVCT Canon.SearchInvV Canon.SearchVCV Canon.SearchPrune
  Canon.SearchGroup Canon.SearchCutW Canon.SearchInvP Canon.SearchVCP1 Canon.SearchVCP2 Canon.SearchVCP3
  Canon.SearchCompleteBase Canon.SearchCompleteCut Canon.SearchCompleteInv Canon.SearchCompleteVC1.
Import ListNotations.
Open Scope nat_scope.

Lemma h2_count0 : forall lpath path ds order pos j v d b, h2 0 lpath path ds order pos j v = Ok (d, b) -> d = ds.
Proof. intros. unfold h2 in H. simpl in H. inversion H. reflexivity. Qed.

Section VCC2.
Variable g : graph.
Variables n m : nat.
Variable clsf : nat -> nat.
Variable order0 : list nat.
Variable root : part.
Hypothesis Hg : simple g.
Hypothesis Hn : length g = n.
Hypothesis Hm : m = num_edges g.
Hypothesis Hm0 : 0 < m.
Hypothesis Hroot_eq : equitable g root.
Hypothesis Hroot_fl : forall c, In c root -> fst c = false.

Notation Xc := (Kc clsf order0).
Notation PPj := (PPj g n m clsf order0 root).
Notation PPref := (PPref g n m clsf order0 root).
Notation CPj := (CPj g n m clsf order0 root).
Notation CPref := (CPref g n m clsf order0 root).
Notation Cinv := (Cinv g n clsf root).
Notation CinvC := (CinvC g n clsf root).
Notation nodeat := (nodeat g root).
Notation Cov := (Cov g n).
Notation Cov1 := (Cov1 g n clsf).

(* two arrays representing the same pairs have the same classes *)
Lemma Rep_same : forall d d' ps x y, Rep n d ps -> Rep n d' ps -> same d' x y -> same d x y.
Proof.
  intros d d' ps x y (W & L & S) (W' & L' & S') H. pose proof (same_dom _ _ _ H) as [Hx Hy]. rewrite L' in Hx, Hy.
  apply (S x y Hx Hy). apply (S' x y Hx Hy). exact H.
Qed.

Theorem jbody_C : forall st j st' ok, CPj st (S j) -> jbody g n m j st = Ok (st', ok) ->
  if ok then CPref st' else CPj st' j.
Proof.
  intros st j st' ok (HP & HC) HJ.
  pose proof (jbody_P g n m clsf order0 root Hg Hn Hm Hm0 Hroot_eq Hroot_fl st j st' ok HP HJ) as HPres.
  destruct HP as (anc & HT & HV & HPi & HCW & Hpl).
  pose proof HT as (HS & HCu & Hne & HTop & _). pose proof HV as (_ & HVst & HR & Hcbz).
  destruct (jbody_cases _ _ _ _ _ _ _ HJ) as (st1 & pos & v & fo & b1 & HU & HLc & Hv & Hh1 & Hrest).
  destruct (undo_V g n m clsf order0 root Hn Hm Hm0 _ _ _ HS HCu Hne HVst HU) as (P & EP & HN & Est1 & HUi).
  set (L := length (s_path st)) in *.
  assert (HL : 1 <= L) by (unfold L; destruct (s_path st); [congruence|simpl; lia]).
  unfold top_ok in HTop. rewrite EP in HTop. destruct HTop as (e & sz & HB & HLch & Hjs & _).
  assert (Ech : s_choices st1 = s_choices st) by (rewrite Est1; reflexivity).
  rewrite Ech, HLch in HLc. inversion HLc as [Epos].
  destruct (node_target g n root Xc _ _ HN) as (b0 & c0 & a0 & e' & sz' & EPd & HSb & Hb0 & Hsz & H2 & HB' & He & HTg & HLoc).
  rewrite HB in HB'. injection HB' as E1 E2.
  assert (Epos' : pos = fns P + j) by lia.
  set (v1 := snd (undo_sv (s_skip st) (fns P) (p_spl (s_ps st)) (p_value (s_ps st)))) in *.
  set (s1 := fst (undo_sv (s_skip st) (fns P) (p_spl (s_ps st)) (p_value (s_ps st)))) in *.
  set (ps1 := mkP P (zl L - 1)%Z v1 s1) in *.
  assert (Eps1 : s_ps st1 = ps1) by (rewrite Est1; reflexivity).
  pose proof (no_perm _ _ _ _ _ _ HN) as HPm. pose proof (no_ne _ _ _ _ _ _ HN) as HNe.
  assert (HOrd : forall u, In u (order_of (p_cells (s_ps st1))) -> u < n).
  { rewrite Eps1. cbn [p_cells]. intros u Hu. apply (Permutation_in _ HPm) in Hu. apply in_seq in Hu. lia. }
  assert (Hvn : v < n) by (apply HOrd; eapply nth_error_In; exact Hv).
  assert (Ecnt : s_count st1 = s_count st) by (rewrite Est1; reflexivity).
  assert (Eord : order_of (p_cells (s_ps st1)) = order_of b0 ++ cverts c0 ++ order_of a0).
  { rewrite Eps1. unfold ps1. cbn [p_cells]. rewrite EPd, order_of_app, order_of_cons. reflexivity. }
  assert (Hlb : length (order_of b0) = fns P) by (rewrite (singles_order_length _ HSb); exact Hb0).
  assert (Hvc : nth_error (cverts c0) j = Some v).
  { rewrite Eord, Epos', nth_error_app2 in Hv by lia. replace (fns P + j - length (order_of b0)) with j in Hv by lia.
    rewrite nth_error_app1 in Hv by lia. exact Hv. }
  assert (Eearlier : firstn j (skipn (pos - j) (order_of (p_cells (s_ps st1)))) = firstn j (cverts c0)).
  { rewrite Eord, Epos'. replace (fns P + j - j) with (length (order_of b0)) by lia.
    rewrite skipn_app, skipn_all, Nat.sub_diag. simpl. rewrite firstn_app_le2 by lia. reflexivity. }
  pose proof HPi as (HLen & HW & HD & HRc).
  assert (HPk : nth_error anc (L - 1) = Some P) by (unfold L; rewrite <- HLen, <- last_opt_nth; exact EP).
  assert (HNd : nodeat (s_path st) (L - 1) (erase P)) by (split; [unfold L in *; lia|apply HW; exact HPk]).
  assert (HPmv : Permutation (verts (erase P)) (seq 0 n)) by exact HPm.
  assert (Epath1 : s_path st1 = s_path st) by (rewrite Est1; reflexivity).
  assert (HFg : Forall (isaut g n clsf) (s_gens st)) by exact (r_gens _ _ _ _ _ _ HR).
  assert (Hcnt : s_cb st = [] -> s_count st = 0) by (intros E; apply (proj1 (proj1 (r_zero _ _ _ _ _ _ HR))); exact E).
  (* no recorded path goes through the child of rank j *)
  assert (Hnorec : s_cb st <> [] -> forall rp, rp = s_flPath st \/ rp = s_cbPath st -> shared rp (s_path st) (L - 1) ->
                     j <= nth (L - 1) rp 0 -> nth (L - 1) rp 0 < S j -> False).
  { intros Hcb rp Hrp HSh H1 H2'. destruct (PinvA_low g n clsf root anc st _ HPi Hcb (L - 1) ltac:(unfold L in *; lia)) as [Lf Lc].
    assert (Hlow : low (s_path st) (S j) (L - 1) <= nth (L - 1) rp 0) by (destruct Hrp as [-> | ->]; [apply Lf|apply Lc]; exact HSh).
    rewrite low_top in Hlow by (unfold L in *; lia). lia. }
  (* the step from threshold S j to threshold j when the child of rank j is dismissed *)
  assert (Hlower : s_cb st <> [] -> Cov1 (s_fl st) (s_flInv st) (s_gens st) (erase P) j ->
            (forall Q, (exists rp, (rp = s_flPath st \/ rp = s_cbPath st) /\ shared rp (s_path st) (L - 1) /\ nth (L - 1) rp 0 = j) ->
                       child g (erase P) j = Some Q -> Cov (s_fl st) (s_flInv st) (s_gens st) Q) ->
            Cinv st j).
  { intros Hcb H1 H2'. apply (CinvC_lower g n clsf root _ _ _ _ _ _ (S j) j _ _ _ Hcb ltac:(lia) HC).
    - intros P0 i HN0 Hi1 Hi2. assert (i = j) by lia. subst i. rewrite (nodeat_fun g root _ _ _ _ HN0 HNd). exact H1.
    - intros rp P0 Q Hrp HN0 HSh Hi1 Hi2 HQ. fold L in HN0, HSh, Hi1, Hi2, HQ.
      assert (Ej : nth (L - 1) rp 0 = j) by lia. rewrite Ej in HQ. rewrite (nodeat_fun g root _ _ _ _ HN0 HNd) in HQ.
      apply (H2' Q); [exists rp; repeat split; assumption|exact HQ]. }
  cbv zeta in Hrest. destruct Hrest as [(-> & -> & ->)|(-> & co & b2 & Hh2 & Hrest)].
  { (* skipped by the first-leaf orbits *)
    split; [exact HPres|].
    assert (Hcb : s_cb st <> []).
    { intros E. rewrite Ecnt, (Hcnt E) in Hh1. apply h2_zero in Hh1. discriminate. }
    destruct (HRc Hcb) as (lenB & lenF & permF & gsC & R1 & R2 & R3 & R4 & R5 & R6 & R7 & R8 & R9 & R10 & R11).
    destruct (h2_true _ _ _ _ _ _ _ _ _ Hh1) as (Hpre & _ & HM). rewrite Eearlier in HM.
    destruct (r_orb _ _ _ _ _ _ HR) as (psF & HRF & HpsF & _).
    assert (HSh : shared (s_flPath st) (s_path st) (L - 1)).
    { unfold shared. replace (s_flPath st1) with (s_flPath st) in Hpre by (rewrite Est1; reflexivity).
      rewrite Epath1 in Hpre. fold L in Hpre. rewrite Hpre. apply removelast_firstn_len'. }
    assert (Hc : forall u, In u (cverts c0) -> u < n).
    { intros u Hu. apply HOrd. rewrite Eord. apply in_or_app. right. apply in_or_app. left. exact Hu. }
    assert (HRF1 : Rep n (s_flOrb st1) psF) by (rewrite Est1; exact HRF).
    destruct (has_earlier_mate_true n _ _ _ _ psF HRF1 Hvn
                ltac:(intros u Hu; apply Hc; eapply in_firstn; exact Hu) HM) as (u & Hu & Hconn).
    destruct (conn_Gam g n clsf Hn (s_gens st) psF HFg HpsF v u Hconn) as (_ & _ & a & Ha & Ea).
    destruct (in_firstn_nth _ _ _ Hu) as (i' & Hi' & Hui').
    assert (Hsim : sim (gfun a) (erase P) (erase P)).
    { apply (Gam_sim g n clsf Hn (s_gens st)); [exact HFg|intros x Hx; apply (Permutation_in _ HPmv); exact Hx| |exact Ha].
      intros gam Hgam. apply (R9 gam (L - 1) P Hgam HPk HSh). }
    assert (HC' : Cinv st j).
    { apply Hlower; [exact Hcb| |].
      - apply (mate_cov g n clsf Hn _ _ permF _ _ _ _ _ a j i' v u HFg Ha Hsim HPmv HTg Hvc Hui' Hi' Ea R8 R6).
      - intros Q (rp & Hrp & HShr & Ej) _. exfalso. apply (Hnorec Hcb rp Hrp HShr); lia. }
    rewrite Est1. exact HC'. }
  assert (Hsame : forall x y, same co x y -> same (s_cbOrb st) x y).
  { intros x y HSm. destruct (s_cb st) as [|c1 cr] eqn:Ecb.
    - rewrite Ecnt, (Hcnt eq_refl) in Hh2. apply h2_count0 in Hh2. rewrite Hh2 in HSm. rewrite Est1 in HSm. exact HSm.
    - assert (Hcb : s_cb st <> []) by (rewrite Ecb; discriminate).
      destruct (HRc ltac:(congruence)) as (lenB & lenF & permF & gsC & _ & _ & _ & _ & _ & _ & _ & _ & _ & (_ & psC & HRC & _) & _).
      apply (Rep_same (s_cbOrb st) co psC x y HRC); [|exact HSm].
      eapply h2_Rep; [exact Hh2| |exact HOrd|exact Hvn]. rewrite Est1. exact HRC. }
  destruct Hrest as [(-> & -> & ->)|(-> & w & ps' & HSp & -> & ->)].
  { (* skipped by the orbits of the best leaf *)
    split; [exact HPres|].
    assert (Hcb : s_cb st <> []).
    { intros E. rewrite Ecnt, (Hcnt E) in Hh2. apply h2_zero in Hh2. discriminate. }
    destruct (HRc Hcb) as (lenB & lenF & permF & gsC & R1 & R2 & R3 & R4 & R5 & R6 & R7 & R8 & R9 & R10 & R11).
    destruct (h2_true _ _ _ _ _ _ _ _ _ Hh2) as (Hpre & _ & HM). rewrite Eearlier in HM.
    destruct R10 as (HAC & psC & HRC & HpC & _).
    assert (HSh : shared (s_cbPath st) (s_path st) (L - 1)).
    { unfold shared. replace (s_cbPath st1) with (s_cbPath st) in Hpre by (rewrite Est1; reflexivity).
      rewrite Epath1 in Hpre. fold L in Hpre. rewrite Hpre. apply removelast_firstn_len'. }
    assert (Hc : forall u, In u (cverts c0) -> u < n).
    { intros u Hu. apply HOrd. rewrite Eord. apply in_or_app. right. apply in_or_app. left. exact Hu. }
    assert (HRC1 : Rep n (s_cbOrb st1) psC) by (rewrite Est1; exact HRC).
    destruct (has_earlier_mate_true n _ _ _ _ psC HRC1 Hvn
                ltac:(intros u Hu; apply Hc; eapply in_firstn; exact Hu) HM) as (u & Hu & Hconn).
    destruct (in_firstn_nth _ _ _ Hu) as (i' & Hi' & Hui').
    assert (Hun : u < n) by (apply Hc; eapply nth_error_In; exact Hui').
    pose proof HC as [_ HC1]. destruct (HC1 Hcb) as (C1 & C2 & C3 & C4 & C5 & C6 & C7).
    destruct HRC as (WC & LC & SC).
    destruct (C5 v u Hvn Hun (proj2 (SC v u Hvn Hun) Hconn)) as (a & Ha & HFx & Ea).
    assert (Hsim : sim (gfun a) (erase P) (erase P)) by (apply (HFx (L - 1) (erase P) HNd HSh)).
    assert (HC' : Cinv st j).
    { apply Hlower; [exact Hcb| |].
      - apply (mate_cov g n clsf Hn _ _ permF _ _ _ _ _ a j i' v u HFg Ha Hsim HPmv HTg Hvc Hui' Hi' Ea R8 R6).
      - intros Q (rp & Hrp & HShr & Ej) _. exfalso. apply (Hnorec Hcb rp Hrp HShr); lia. }
    unfold SearchCompleteInv.Cinv in *.
    cbn [set_skip set_cbOrb set_flOrb set_stack s_path s_choices s_skip s_ps s_cb s_cbPath s_cbPerm s_cbInv s_cbOrb s_fl s_flPath s_flInv s_gens].
    rewrite Est1.
    cbn [set_skip set_ps s_path s_choices s_skip s_ps s_cb s_cbPath s_cbPerm s_cbInv s_cbOrb s_fl s_flPath s_flInv s_gens].
    eapply CinvC_ext; [reflexivity|reflexivity|exact Hsame|exact HC']. }
  (* splitBin *)
  assert (Ecb1 : s_cb st1 = s_cb st) by (rewrite Est1; reflexivity).
  assert (Efl1 : s_fl st1 = s_fl st) by (rewrite Est1; reflexivity).
  rewrite Eps1, Epos', Ecb1, Efl1 in HSp. unfold ps1 in HSp.
  assert (Hj' : j < length (cverts c0)) by lia.
  assert (Hrl : removelast (set_last (s_path st) j) = removelast (s_path st)).
  { destruct (s_path st) as [|p0 pr] eqn:Epath; [reflexivity|]. unfold set_last. rewrite removelast_last. reflexivity. }
  assert (Hext : forall jt, Cinv st jt ->
            Cinv (set_stack (set_ps (set_cbOrb (set_flOrb (set_stack st1 (s_path st1) (set_last (s_choices st1) pos)) fo) co) ps')
                            (set_last (s_path st1) j) (set_last (s_choices st1) pos)) jt).
  { intros jt H. unfold SearchCompleteInv.Cinv in *.
    cbn [set_skip set_ps set_cbOrb set_flOrb set_stack s_path s_choices s_skip s_ps s_cb s_cbPath s_cbPerm s_cbInv s_cbOrb s_fl s_flPath s_flInv s_gens].
    rewrite Est1.
    cbn [set_skip set_ps s_path s_choices s_skip s_ps s_cb s_cbPath s_cbPerm s_cbInv s_cbOrb s_fl s_flPath s_flInv s_gens].
    eapply CinvC_ext; [exact Hrl|apply set_last_length|exact Hsame|exact H]. }
  destruct w; cbn [negb] in *.
  - (* cut off inside splitBin *)
    split; [exact HPres|]. apply Hext.
    assert (Hcb : s_cb st <> []).
    { intros E. rewrite E in HSp. apply split_bin_nil in HSp. discriminate. }
    destruct HUi as [Es1 Ev1]. fold s1 v1 in Es1, Ev1. rewrite Ev1, Es1 in HSp.
    destruct (split_bin_cut_fl g n m Hn P _ _ _ _ b0 c0 j a0 ps' eq_refl EPd Hb0 HSb ltac:(lia) Hj' HNe HPm (HLoc j ltac:(lia)) HSp)
      as (x & s & Hx & Hsn & Hsl & Hps & HNeq).
    assert (Hno : forall Q, child g (erase P) j = Some Q -> Cov (s_fl st) (s_flInv st) (s_gens st) Q).
    { intros Q HQ Lf HRd HTl HCe. exfalso.
      apply (split_cut_nofl g n Hn P (s_fl st) b0 c0 a0 x s j Q EPd HSb ltac:(lia) Hx Hsn Hsl Hps HNeq HPm HNe HQ Lf HRd HTl HCe). }
    apply Hlower; [exact Hcb|apply Cov1_direct; exact Hno|]. intros Q _ HQ. apply Hno. exact HQ.
  - split; [exact HPres|].
    assert (Hltop5 : ltop (set_last (s_path st1) j) = j).
    { apply ltop_last. rewrite Epath1. apply set_last_last. exact Hne. }
    cbn [set_stack s_path]. rewrite Hltop5. apply Hext. exact HC.
Qed.

Lemma VCC_jcont : forall st j st', CPj st (S j) -> jbody g n m j st = Ok (st', false) -> CPj st' j.
Proof. intros st j st' H HJ. apply (jbody_C st j st' false H HJ). Qed.

Lemma VCC_jstep : forall st j st', CPj st (S j) -> jbody g n m j st = Ok (st', true) -> CPref st'.
Proof. intros st j st' H HJ. apply (jbody_C st j st' true H HJ). Qed.

End VCC2.
