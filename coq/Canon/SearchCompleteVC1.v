(* Canon/SearchCompleteVC1.v — verification conditions of Canon/SearchHoare.v for the fourth layer of the invariant
   (Canon/SearchCompleteInv.v): the steps that move along the stack (worse, push, start and exit of jLoop,
   refinement, termination). *)
From Coq Require Import List Arith Bool ZArith Lia Permutation Sorted.
From Mamba Require Canon.AutModel Canon.AutBase Canon.Aut Canon.Group Canon.Orbit.
From Mamba Require Import Canon.Perm Canon.Iso Canon.Model Canon.Refine Canon.Sorted Canon.Tree Canon.Fuel
  Disjoint.Model Disjoint.Proofs Canon.SearchModel Canon.SearchHoare Canon.SearchCells Canon.SearchTarget
  Canon.SearchDeage Canon.SearchRefine Canon.SearchExec Canon.SearchValue Canon.SearchExpand Canon.SearchCert
  Canon.SearchOrder Canon.SearchEquiv Canon.SearchWalk Canon.SearchEquit Canon.SearchCut Canon.SearchSibling
  Canon.SearchLink Canon.SearchInvT Canon.SearchVCT Canon.SearchInvV Canon.SearchVCV Canon.SearchPrune
  Canon.SearchGroup Canon.SearchCutW Canon.SearchInvP Canon.SearchVCP1 Canon.SearchVCP2 Canon.SearchVCP3
  Canon.SearchCompleteBase Canon.SearchCompleteCut Canon.SearchCompleteInv.
Import ListNotations.
Open Scope nat_scope.

Lemma path_snoc : forall path : list nat, 1 <= length path ->
  path = firstn (length path - 1) path ++ [ltop path].
Proof.
  intros path HL. unfold ltop. rewrite <- firstn_S_nth by lia.
  replace (S (length path - 1)) with (length path) by lia. symmetry. apply firstn_all.
Qed.

Section VCC1.
Variable g : graph.
Variables n m : nat.
Variable clsf : nat -> nat.
Variable order0 : list nat.
Variable root : part.
Hypothesis Hg : simple g.
Hypothesis Hn : length g = n.
Hypothesis Hm : m = num_edges g.
Hypothesis Hm0 : 0 < m.

Notation Xc := (Kc clsf order0).
Notation PPstep := (PPstep g n m clsf order0 root).
Notation PPtop := (PPtop g n m clsf order0 root).
Notation PPj := (PPj g n m clsf order0 root).
Notation PPref := (PPref g n m clsf order0 root).
Notation CPstep := (CPstep g n m clsf order0 root).
Notation CPtop := (CPtop g n m clsf order0 root).
Notation CPj := (CPj g n m clsf order0 root).
Notation CPref := (CPref g n m clsf order0 root).
Notation CPdone := (CPdone g n m clsf order0 root).
Notation Cinv := (Cinv g n clsf root).
Notation CinvC := (CinvC g n clsf root).
Notation nodeat := (nodeat g root).
Notation covst := (covst g n).
Notation Cov := (Cov g n).

(* ---------------------------------------------------------------- start of jLoop, termination *)

Lemma VCC_jstart : forall st top, CPstep st -> last_opt (s_path st) = Some top -> CPj st top.
Proof.
  intros st top (HP & HC & _) E. split; [eapply VCP_jstart; eassumption|].
  rewrite (ltop_last _ _ E) in HC. exact HC.
Qed.

Lemma VCC_done : forall st, CPstep st -> last_opt (s_path st) = None -> CPdone st.
Proof.
  intros st (HP & _ & HR) E.
  assert (HPd : PPdone g n m clsf order0 root st) by (eapply VCP_done; eassumption).
  split; [exact HPd|]. split; [apply HR; apply last_opt_none; exact E|].
  destruct HPd as ((_ & _ & Hcb) & _).
  destruct HP as (anc & _ & _ & (_ & _ & _ & HRc) & _).
  destruct (HRc Hcb) as (lenB & lenF & permF & gsC & _ & ((lf & Hwlf & Htlf & Hvlf) & _) & _ & _ & R5 & R6 & _ & R8 & _).
  exists lf. split; [eapply walk_rdesc; exact Hwlf|]. split; [exact Htlf|]. rewrite Hvlf. split; [exact R6|]. split; [exact R8|exact R5].
Qed.

(* ---------------------------------------------------------------- worse *)

Lemma VCC_worse : forall st, CPtop st true -> CPstep st.
Proof.
  intros st (HP & HC & HW). specialize (HW eq_refl).
  pose proof (VCP_worse g n m clsf order0 root Hn Hm Hm0 st HP) as HP'.
  destruct HP as (anc & HT & HV & HPi & HSpl & Hpl & Hnil & _ & _).
  pose proof HV as (_ & _ & _ & _ & Hcbw).
  assert (Hcb : s_cb st <> []) by (intros E; specialize (Hcbw E); discriminate).
  assert (Hne : s_path st <> []) by (intros E; apply Hcb; apply Hnil; exact E).
  split; [exact HP'|]. split; [|intros E; contradiction].
  apply (CinvC_lower g n clsf root _ _ _ _ _ _ (S (ltop (s_path st))) (ltop (s_path st)) _ _ _ Hcb ltac:(lia) HC).
  - intros P i HN H1 H2. assert (i = ltop (s_path st)) by lia. subst i. apply Cov1_direct. intros Q HQ. apply (HW P Q HN HQ).
  - intros rp P Q _ HN _ H1 H2 HQ. assert (E : nth (length (s_path st) - 1) rp 0 = ltop (s_path st)) by lia.
    rewrite E in HQ. apply (HW P Q HN HQ).
Qed.

(* ---------------------------------------------------------------- push *)

Lemma VCC_push : forall st, CPtop st false -> length (p_cells (s_ps st)) <> n -> CPstep (push_step st).
Proof.
  intros st (HP & HC & _) Hlen.
  pose proof (VCP_push g n m clsf order0 root Hn Hm Hm0 st HP Hlen) as HP'.
  destruct HP as (anc & HT & HV & HPi & HSpl & Hpl & Hnil & Hwalk & _). specialize (Hwalk eq_refl).
  pose proof HT as ((HS & HCu & _) & Hsk & _). rewrite Hsk in HCu. destruct HCu as (HPm & HN & _).
  split; [exact HP'|].
  unfold push_step in *. destruct (first_big (p_cells (s_ps st)) 0) as [[e sz]|] eqn:EB.
  2:{ exfalso. apply Hlen. pose proof (first_big_none _ _ HN EB) as Hs.
      rewrite <- (singles_order_length _ Hs), (Permutation_length HPm). apply seq_length. }
  destruct (first_big_spec _ _ _ _ HN EB) as (b & c & a & Ecs & HSb & Hsz & H2 & He & Hb).
  unfold SearchCompleteInv.Cinv.
  cbn [set_skip set_stack s_path s_choices s_skip s_ps s_cb s_cbPath s_cbPerm s_cbInv s_cbOrb s_fl s_flPath s_flInv s_gens].
  rewrite ltop_app. split; [|intros E; destruct (s_path st); discriminate].
  apply (CinvC_push g n clsf root _ _ _ _ _ _ sz _ _ _ (erase (p_cells (s_ps st))) Hwalk).
  - intros i Hi. unfold child. rewrite Ecs, (target_erase b c a HSb ltac:(lia)).
    destruct (nth_error (cverts c) i) eqn:Ei; [|reflexivity].
    assert (i < length (cverts c)) by (apply nth_error_Some; rewrite Ei; discriminate). lia.
  - intros Hcb.
    assert (HL1 : 1 <= length (s_path st)).
    { destruct (s_path st) eqn:Ep; [exfalso; apply Hcb; apply Hnil; reflexivity|simpl; lia]. }
    split; [exact HL1|].
    assert (G : forall rp, (shared rp (s_path st) (length (s_path st) - 1) ->
                 low (s_path st) (S (ltop (s_path st))) (length (s_path st) - 1) <= nth (length (s_path st) - 1) rp 0) ->
               ~ shared rp (s_path st ++ [sz]) (length (s_path st))).
    { intros rp Hlow HSh. unfold shared in HSh. rewrite firstn_app_le2, firstn_all in HSh by lia.
      assert (HS1 : shared rp (s_path st) (length (s_path st) - 1)).
      { unfold shared. transitivity (firstn (length (s_path st) - 1) (firstn (length (s_path st)) rp)).
        - rewrite firstn_firstn. f_equal. lia.
        - rewrite HSh. reflexivity. }
      specialize (Hlow HS1). rewrite low_top in Hlow by lia.
      assert (nth (length (s_path st) - 1) rp 0 = ltop (s_path st)).
      { unfold ltop. transitivity (nth (length (s_path st) - 1) (firstn (length (s_path st)) rp) 0).
        - rewrite nth_firstn' by lia. reflexivity.
        - rewrite HSh. reflexivity. }
      lia. }
    destruct (PinvA_low g n clsf root anc st _ HPi Hcb (length (s_path st) - 1) ltac:(lia)) as [Lf Lc].
    split; apply G; assumption.
  - exact HC.
Qed.

(* ---------------------------------------------------------------- refinement *)

Lemma VCC_refine : forall st w ps', CPref st ->
  refine_s g n m (s_cb st) (s_fl st) (s_ps st) = Ok (w, ps') -> CPtop (set_ps st ps') w.
Proof.
  intros st w ps' (HP & HC) HRf.
  pose proof (VCP_refine g n m clsf order0 root Hg Hn Hm Hm0 st w ps' HP HRf) as HP'.
  split; [exact HP'|]. split; [exact HC|].
  intros -> P Q HNd HQ. cbn [set_ps s_path s_ps s_cb] in *.
  destruct HP as (anc & HT & HV & HPi & HSpl & Hpl).
  pose proof HT as ((HS & HCu & _) & Hsk & Pn & b & c & a & x & j & HlP & HTg & Hlj & Hx & HE).
  rewrite Hsk in HCu. destruct HCu as (K1 & K2 & _).
  pose proof HV as (_ & _ & HRc & [HCl _]).
  assert (HO : length (order_of (p_cells (s_ps st))) = n) by (rewrite (Permutation_length K1); apply seq_length).
  pose proof HRf as HRf'. unfold refine_s in HRf'.
  pose proof HPi as (HLen & HW & _).
  assert (Hne : s_path st <> []) by (intros E; rewrite E in Hlj; discriminate).
  assert (HL1 : 1 <= length (s_path st)) by (destruct (s_path st); [congruence|simpl; lia]).
  assert (HPn : nth_error anc (length (s_path st) - 1) = Some Pn) by (rewrite <- HLen, <- last_opt_nth; exact HlP).
  assert (EP : P = erase Pn).
  { destruct HNd as [_ HWk]. rewrite (HW _ _ HPn) in HWk. inversion HWk. reflexivity. }
  subst P. rewrite (ltop_last _ _ Hlj) in HQ. unfold child in HQ. rewrite HTg, Hx, <- HE in HQ.
  destruct (refine_loop_cut_fl g n m _ _ _ _ _ K2 HO HCl HRf') as ((j' & Hj' & Ev & Hps & Hsl & (_ & _ & HNe)) & Hfuel).
  unfold refine in HQ. change (verts (erase (p_cells (s_ps st)))) with (order_of (p_cells (s_ps st))) in HQ.
  rewrite erase_length in HQ. destruct (Hfuel Q HQ) as [k' Hk'].
  destruct (refine_s_spec _ _ _ _ _ _ _ _ HRf) as (HVs & _ & _).
  intros L HRd HTl HCe. exfalso.
  apply (cut_nofl g n Hn (p_cells ps') (S j') (s_fl st) Q ltac:(lia) Hsl Hps) with (L := L); try assumption.
  - rewrite <- Ev. exact HNe.
  - eapply refine_fuel_wrefp. exact Hk'.
  - eapply perm_trans; [eapply refine_fuel_verts; exact Hk'|]. change (verts (erase (p_cells ps'))) with (order_of (p_cells ps')).
    eapply perm_trans; [eapply V_order; exact HVs|exact K1].
  - assert (HIn : ne (erase (p_cells (s_ps st)))) by (apply nonempty_ne; exact K2).
    destruct (refine_total g _ HIn) as (Q0 & EQ & NQ & _). unfold refine in EQ.
    change (verts (erase (p_cells (s_ps st)))) with (order_of (p_cells (s_ps st))) in EQ. rewrite erase_length in EQ.
    rewrite HQ in EQ. inversion EQ; subst Q0. exact NQ.
Qed.

(* ---------------------------------------------------------------- exit of jLoop: all the children dismissed *)

Lemma VCC_jexit : forall st st1, CPj st 0 -> undo st = Ok st1 -> CPstep (pop st1).
Proof.
  intros st st1 (HP & HC) HU.
  pose proof (VCP_jexit g n m clsf order0 root Hn Hm Hm0 st st1 HP HU) as HP'.
  split; [exact HP'|].
  destruct HP as (anc & HT & HV & HPi & HCW & Hpl).
  pose proof HT as (HS & HCu & Hne & _). pose proof HV as (_ & HVst & _ & Hcbz).
  assert (Hcb : s_cb st <> []) by (intros E; destruct (Hcbz E); lia).
  destruct (undo_V g n m clsf order0 root Hn Hm Hm0 _ _ _ HS HCu Hne HVst HU) as (P & EP & HN & Est1 & HUi).
  destruct HPi as (HLen & HW & _).
  destruct (node_target g n root Xc _ _ HN) as (b & c & a & e & sz & EPc & HSb & Hb & Hsz & H2 & HB & He & HTg & _).
  assert (HL1 : 1 <= length (s_path st)) by (destruct (s_path st); [congruence|simpl; lia]).
  assert (HPk : nth_error anc (length (s_path st) - 1) = Some P) by (rewrite <- HLen, <- last_opt_nth; exact EP).
  assert (HNd : nodeat (s_path st) (length (s_path st) - 1) (erase P)) by (split; [lia|apply HW; exact HPk]).
  pose proof HC as [_ HC1]. destruct (HC1 Hcb) as (C1 & C2 & C3 & C4 & C5 & C6 & C7).
  (* everything below the node on top of the stack is covered *)
  assert (HDl : Cov (s_fl st) (s_flInv st) (s_gens st) (erase P)).
  { apply (Cov_resolve g n clsf); [destruct HV as (_ & _ & HRc & _); exact (r_gens _ _ _ _ _ _ HRc)|rewrite HTg; discriminate|]. intros i. apply (C1 _ (erase P) i HNd). rewrite thr_top; lia. }
  subst st1. unfold pop, SearchCompleteInv.Cinv, SearchCompleteInv.covst.
  cbn [set_skip set_ps set_stack s_path s_choices s_skip s_ps s_cb s_cbPath s_cbPerm s_cbInv s_cbOrb s_fl s_flPath s_flInv s_gens].
  destruct (Nat.eq_dec (length (s_path st)) 1) as [E1|E1].
  - (* the root is popped *)
    assert (Erl : removelast (s_path st) = []).
    { destruct (s_path st) as [|x [|y r]]; simpl in E1; try lia. reflexivity. }
    rewrite Erl. destruct HNd as [_ HWk]. rewrite E1 in HWk. simpl in HWk. injection HWk as Er.
    split; [|intros _; rewrite Er; exact HDl].
    eapply CinvC_nil; [exact Hcb|apply incl_refl|exact HC].
  - split; [|intros E; pose proof (removelast_length _ (s_path st)) as HRl; rewrite E in HRl; simpl in HRl; lia].
    rewrite removelast_firstn_len'.
    apply (CinvC_cut g n clsf root _ _ _ _ (s_gens st) (s_gens st) (s_path st) 0 (length (s_path st) - 1) _ _ (s_cbOrb st) (s_cbOrb st) Hcb
             ltac:(lia) ltac:(intros; lia) (incl_refl _) HC).
    + intros P' Q [_ HW'] HQ.
      replace (length (s_path st) - 1 - 1) with (length (s_path st) - 2) in * by lia.
      assert (EQ : Some Q = Some (erase P)).
      { rewrite <- HQ. apply (walk_snoc_inv g root (firstn (length (s_path st) - 2) (s_path st))); [exact HW'|].
        rewrite <- firstn_S_nth by lia. replace (S (length (s_path st) - 2)) with (length (s_path st) - 1) by lia.
        apply HW. exact HPk. }
      inversion EQ. exact HDl.
    + intros x y Hx Hy HSm. destruct (C5 x y Hx Hy HSm) as (a0 & Ha & HF & Ea). exists a0. split; [exact Ha|]. split; [|exact Ea].
      apply FixS_cut; [lia|exact HF].
Qed.

End VCC1.
