(* Canon/SearchCompleteCut.v — the partial-certificate cut-offs once more, keeping what the code compares with the
   FIRST leaf: a value that is cut off differs from the corresponding prefix of the certificate of the first
   leaf, so no leaf below the node that is abandoned has the certificate of the first leaf (copies of
   round_loop_cut / refine_loop_cut of Canon/SearchLink.v and split_bin_cut of Canon/SearchCutW.v with the
   stronger conclusion [dirty]). *)
From Coq Require Import List Arith Bool ZArith Lia Permutation Sorted.
From Mamba Require Import Canon.Perm Canon.Iso Canon.Model Canon.Refine Canon.Sorted Canon.Tree Canon.Fuel
  Disjoint.Model Canon.SearchModel Canon.SearchCells Canon.SearchTarget Canon.SearchDeage Canon.SearchRefine
  Canon.SearchValue Canon.SearchExpand Canon.SearchCert Canon.SearchOrder Canon.SearchEquiv Canon.SearchWalk
  Canon.SearchEquit Canon.SearchCut Canon.SearchSibling Canon.SearchLink Canon.SearchCutW Canon.SearchCompleteBase.
Import ListNotations.
Open Scope nat_scope.

Section CutFl.
Variable g : graph.
Variables n m : nat.

Notation good := (good g n).
Notation clean := (clean g n).

Lemma round_loop_cut_fl : forall cb fl w age pre_rev post value spl ps',
  nonempty (rev pre_rev ++ post) -> length (order_of (rev pre_rev ++ post)) = n ->
  clean (rev pre_rev ++ post) value spl ->
  round_loop g n m cb fl w age pre_rev post value spl = RrWorse ps' ->
  (exists j', j' < n /\ p_value ps' = good (p_cells ps') (S j') /\ prefix_single (p_cells ps') (S j') /\
      S j' <= length (p_cells ps') /\ dirty cb fl (p_value ps')) /\
  erase (p_cells ps') = flat_map (split_cell g w) (erase (rev pre_rev)) ++ erase post.
Proof.
  intros cb fl w age. induction pre_rev as [|c pre IH]; intros post value spl ps' HN HO HC H; simpl in H; [discriminate|].
  simpl in HN, HO, HC. rewrite <- app_assoc in HN, HO, HC. simpl in HN, HO, HC.
  destruct (uniform g w (cverts c)) eqn:HU.
  - destruct (IH _ _ _ _ HN HO HC H) as (I1 & I2). split; [exact I1|].
    rewrite I2. simpl. rewrite erase_app, flat_map_app. simpl. rewrite (split_cell_uniform _ _ _ HU), <- app_assoc. reflexivity.
  - set (wa := with_ages age (cage c) (fragments g w (cverts c))) in *.
    assert (HVc : V age (rev pre ++ c :: post) (rev pre ++ wa ++ post)).
    { apply V_app; [apply V_refl|]. apply (V_app age [c] wa post post); [|apply V_refl]. apply V_one, with_ages_vrep. exact HU. }
    assert (HN' : nonempty (rev pre ++ wa ++ post)) by (eapply V_nonempty; eassumption).
    assert (HO' : length (order_of (rev pre ++ wa ++ post)) = n) by (rewrite (Permutation_length (V_order _ _ _ HVc)); exact HO).
    destruct HC as (Hv & HP & Hs).
    assert (Hc : nth_error (rev pre ++ c :: post) (length pre) = Some c).
    { rewrite <- (rev_length pre). apply nth_error_app_exact. }
    assert (Hle : spl <= length pre).
    { destruct (Nat.lt_ge_cases (length pre) spl) as [Hlt|]; [|assumption]. exfalso.
      apply (nonuniform_not_single g _ _ HU). apply single_length. apply (HP _ _ Hlt Hc). }
    assert (HG : good (rev pre ++ wa ++ post) spl = good (rev pre ++ c :: post) spl)
      by (apply good_app_prefix; rewrite rev_length; exact Hle).
    assert (HP' : prefix_single (rev pre ++ wa ++ post) spl)
      by (eapply prefix_single_app; [rewrite rev_length; exact Hle|exact HP]).
    assert (Erase : erase (rev pre ++ wa ++ post) =
                    flat_map (split_cell g w) (erase (rev pre)) ++ flat_map (split_cell g w) (erase [c]) ++ erase post ->
                    erase (rev pre ++ wa ++ post) = flat_map (split_cell g w) (erase (rev (c :: pre))) ++ erase post).
    { intros E. rewrite E. change (rev (c :: pre)) with (rev pre ++ [c]). rewrite erase_app, flat_map_app, <- app_assoc. reflexivity. }
    destruct (length pre =? spl) eqn:EJ.
    + apply Nat.eqb_eq in EJ.
      assert (Hsl : spl <= length (rev pre ++ wa ++ post)) by (rewrite app_length, rev_length; lia).
      assert (Hsn : spl <= n) by (rewrite <- HO'; pose proof (nonempty_length _ HN'); lia).
      unfold expand_value in H.
      destruct (expand_loop (n - spl) g (rev pre ++ wa ++ post) n m cb fl value spl) as [|v' s'|v' s'] eqn:EE; [discriminate| |].
      * inversion H; subst ps'. cbn [p_cells p_value].
        destruct (expand_loop_worse g n m _ cb fl HN' HO' (n - spl) spl value v' s' ltac:(lia) Hsl HP' ltac:(rewrite HG; exact Hv) EE)
          as (j' & A & B & C & D & E & _ & HLt).
        split; [exists j'; split; [exact B|]; split; [exact C|]; split; [exact D|]; split; [exact E|exact HLt]|].
        apply Erase. rewrite !erase_app. f_equal.
        -- symmetry. apply split_singles. apply Forall_forall. intros d Hd. apply In_nth_error in Hd. destruct Hd as (k & Hk).
           assert (k < length (rev pre)) by (apply nth_error_Some; rewrite Hk; discriminate). rewrite rev_length in H0.
           apply (HP k d); [lia|]. rewrite nth_error_app1 by (rewrite rev_length; lia). exact Hk.
        -- f_equal. simpl. rewrite app_nil_r. unfold wa. rewrite (split_acell_erase _ _ _ _ HU). reflexivity.
      * pose proof (expand_loop_spec g n m _ cb fl HN' HO' (n - spl) spl value ltac:(lia) Hsl HP' ltac:(rewrite HG; exact Hv)) as HE.
        rewrite EE in HE. destruct HE as [HE1 _].
        destruct (IH _ _ _ _ HN' HO' HE1 H) as (I1 & I2). split; [exact I1|].
        rewrite I2. simpl. rewrite !erase_app, flat_map_app. simpl. rewrite app_nil_r.
        unfold wa. rewrite (split_acell_erase _ _ _ _ HU), <- !app_assoc. reflexivity.
    + apply Nat.eqb_neq in EJ.
      assert (HC' : clean (rev pre ++ wa ++ post) value spl).
      { split; [rewrite HG; exact Hv|]. split; [exact HP'|]. rewrite Hs. symmetry. apply fns_app_lt. rewrite rev_length. lia. }
      destruct (IH _ _ _ _ HN' HO' HC' H) as (I1 & I2). split; [exact I1|].
      rewrite I2. simpl. rewrite !erase_app, flat_map_app. simpl. rewrite app_nil_r.
      unfold wa. rewrite (split_acell_erase _ _ _ _ HU), <- !app_assoc. reflexivity.
Qed.

(* the refinement as a whole *)
Lemma refine_loop_cut_fl : forall cb fl k ps ps', nonempty (p_cells ps) -> length (order_of (p_cells ps)) = n ->
  clean (p_cells ps) (p_value ps) (p_spl ps) ->
  refine_loop k g n m cb fl ps = Ok (true, ps') ->
  (exists j', j' < n /\ p_value ps' = good (p_cells ps') (S j') /\ prefix_single (p_cells ps') (S j') /\
      S j' <= length (p_cells ps') /\ dirty cb fl (p_value ps')) /\
  (forall Q, refine_fuel k g (erase (p_cells ps)) = Some Q -> exists k', refine_fuel k' g (erase (p_cells ps')) = Some Q).
Proof.
  intros cb fl. induction k as [|k IH]; intros ps ps' HN HO HC H; simpl in H.
  - destruct (pick_a (p_cells ps)) as [[P' w0]|]; discriminate.
  - pose proof (pick_a_erase (p_cells ps)) as HPk.
    destruct (pick_a (p_cells ps)) as [[P' w0]|] eqn:EP; [|discriminate].
    pose proof (pick_a_same _ _ _ EP) as HS.
    assert (HN' : nonempty P') by (eapply same_nonempty; eassumption).
    assert (HO' : length (order_of P') = n) by (rewrite <- (same_order _ _ HS); exact HO).
    assert (HC' : clean P' (p_value ps) (p_spl ps)) by (eapply clean_same; eassumption).
    destruct (round_loop g n m cb fl w0 (p_age ps) (rev P') [] (p_value ps) (p_spl ps)) as [|ps1|ps1] eqn:ER; [discriminate| |].
    + inversion H; subst ps1.
      destruct (round_loop_cut_fl cb fl w0 (p_age ps) (rev P') [] (p_value ps) (p_spl ps) ps'
                  ltac:(rewrite rev_involutive, app_nil_r; exact HN') ltac:(rewrite rev_involutive, app_nil_r; exact HO')
                  ltac:(rewrite rev_involutive, app_nil_r; exact HC') ER) as (I1 & I2).
      split; [exact I1|]. intros Q HQ. simpl in HQ. rewrite HPk in HQ.
      rewrite rev_involutive, app_nil_r in I2. rewrite <- I2 in HQ. exists k. exact HQ.
    + pose proof (round_loop_V g n m cb fl w0 (p_age ps) (rev P') [] (p_value ps) (p_spl ps)) as HR.
      rewrite rev_involutive, app_nil_r in HR. specialize (HR HN' HO' HC'). rewrite ER in HR. destruct HR as [HR1 _].
      destruct (round_loop_spec g n m cb fl w0 (p_age ps) (rev P') [] (p_value ps) (p_spl ps) false ps1)
        as (mid & HV & HCs & _ & HE); [rewrite ER; reflexivity|].
      rewrite app_nil_r in HCs. rewrite rev_involutive in HV, HE. subst mid.
      assert (HN1 : nonempty (p_cells ps1)) by (eapply V_nonempty; eassumption).
      assert (HO1 : length (order_of (p_cells ps1)) = n) by (rewrite (Permutation_length (V_order _ _ _ HV)); exact HO').
      destruct (IH _ _ HN1 HO1 HR1 H) as (I1 & I2). split; [exact I1|].
      intros Q HQ. simpl in HQ. rewrite HPk in HQ. rewrite <- (HE eq_refl) in HQ. apply I2. exact HQ.
Qed.


(* ---------------------------------------------------------------- a cut-off inside splitBin *)

Section SplitCut.
Hypothesis Hg : simple g.
Hypothesis Hn : length g = n.

(* a cut-off inside splitBin from a clean state: the entries that lost differ from the first leaf's *)
Lemma split_bin_cut_fl : forall P age v cb fl b c j a ps',
  v = good P (fns P) -> P = b ++ c :: a -> length b = fns P -> Forall single b -> 2 <= length (cverts c) ->
  j < length (cverts c) -> nonempty P -> Permutation (order_of P) (seq 0 n) ->
  locate P (fns P + j) = Some (b, c, j, a) ->
  split_bin g n m cb fl (mkP P age v (fns P)) (fns P + j) = Ok (true, ps') ->
  exists x s, nth_error (cverts c) j = Some x /\ s <= n /\ s <= length (spl_cells b c a x) /\
    prefix_single (spl_cells b c a x) s /\
    cmp_list (good (spl_cells b c a x) s) (firstn (length (good (spl_cells b c a x) s)) fl) <> Eq.
Proof.
  intros P age v cb fl b c j a ps' Hv EP Hb HbS H2 Hj HN HPm HLoc HSp.
  assert (HO : length (order_of P) = n) by (rewrite (Permutation_length HPm); apply seq_length).
  destruct (split_bin_spec _ _ _ _ _ _ _ _ _ _ _ _ _ HSp HLoc H2) as (x & Hx & Hcs & _ & HV).
  cbn [p_cells p_age] in *.
  assert (HN' : nonempty (p_cells ps')) by (eapply V_nonempty; eassumption).
  assert (HO' : length (order_of (p_cells ps')) = n) by (rewrite (Permutation_length (V_order _ _ _ HV)); exact HO).
  unfold split_bin in HSp. cbn [p_cells p_age p_value p_spl] in HSp. rewrite HLoc, Hx in HSp.
  rewrite Hb, Nat.eqb_refl in HSp.
  set (s := fns P) in *.
  set (cs' := b ++ ((age + 1)%Z, (true, [x])) :: (cage c, (true, firstn j (cverts c) ++ skipn (S j) (cverts c))) :: a) in *.
  assert (HPS : prefix_single cs' s).
  { unfold cs'. apply (prefix_single_app b (c :: a) _ s); [lia|]. rewrite <- EP. apply fns_prefix_single. }
  assert (HG : good cs' s = good P s) by (unfold cs'; rewrite EP; apply good_app_prefix; lia).
  assert (Hcell : nth_error cs' s = Some ((age + 1)%Z, (true, [x]))) by (unfold cs'; rewrite <- Hb; apply nth_error_app_exact).
  assert (Hsn : s < n).
  { rewrite <- HO, EP, order_of_app, app_length, order_of_cons, app_length. rewrite (singles_order_length _ HbS). lia. }
  assert (Hsl : s <= length cs') by (apply Nat.lt_le_incl, nth_error_Some; rewrite Hcell; discriminate).
  unfold expand_value in HSp.
  destruct (expand_loop (n - s) g cs' n m cb fl v s) as [|v' s'|v' s'] eqn:EE; [discriminate| |discriminate].
  destruct (expand_loop_worse g n m cs' cb fl ltac:(rewrite <- Hcs; exact HN') ltac:(rewrite <- Hcs; exact HO')
              (n - s) s v v' s' ltac:(lia) Hsl HPS ltac:(rewrite HG; exact Hv) EE) as (j' & A & B & C & D & E & _ & (_ & _ & HNe)).
  assert (Hnd : NoDup (order_of P)) by (apply (Permutation_NoDup (Permutation_sym HPm)), seq_NoDup).
  assert (Hcnd : NoDup (cverts c)).
  { rewrite EP, order_of_app, order_of_cons in Hnd. apply NoDup_app_r in Hnd. apply NoDup_app_l in Hnd. exact Hnd. }
  assert (EM : map cverts cs' = map cverts (spl_cells b c a x)).
  { unfold cs', spl_cells. rewrite !map_app. f_equal. cbn [map]. f_equal. f_equal. exact (remove_at_filter _ _ _ Hcnd Hx). }
  exists x, (S j'). split; [exact Hx|]. split; [lia|].
  split; [rewrite <- (map_length cverts), <- EM, map_length; exact E|].
  split; [eapply prefix_single_verts; [exact EM|exact D]|].
  rewrite <- (good_same_verts g n _ _ (S j') EM), <- C. exact HNe.
Qed.

(* no leaf below the child that was cut off has the certificate of the first leaf *)
Theorem split_cut_nofl : forall P fl b c a x s j Q, P = b ++ c :: a -> Forall single b -> 2 <= length (cverts c) ->
  nth_error (cverts c) j = Some x -> s <= n -> s <= length (spl_cells b c a x) -> prefix_single (spl_cells b c a x) s ->
  cmp_list (good (spl_cells b c a x) s) (firstn (length (good (spl_cells b c a x) s)) fl) <> Eq ->
  Permutation (order_of P) (seq 0 n) -> nonempty P -> child g (erase P) j = Some Q ->
  forall L, rdesc g Q L -> target L = None -> certp g n (verts L) <> fl.
Proof.
  intros P fl b c a x s j Q EP Hb H2 Hx Hsn Hsl Hps HNe HPm HNe0 HC.
  unfold child in HC. rewrite EP, (target_erase b c a Hb H2), Hx in HC.
  assert (Hy : In x (cverts c)) by (eapply nth_error_In; exact Hx).
  assert (Hnd : NoDup (order_of P)) by (apply (Permutation_NoDup (Permutation_sym HPm)), seq_NoDup).
  assert (Hcnd : NoDup (cverts c)).
  { rewrite EP, order_of_app, order_of_cons in Hnd. apply NoDup_app_r in Hnd. apply NoDup_app_l in Hnd. exact Hnd. }
  pose proof (indiv_verts (erase b) (cverts c) (erase a) false x Hcnd Hy) as HIV.
  assert (HPv : Permutation (verts (indiv (erase b) (cverts c) (erase a) x)) (seq 0 n)).
  { eapply perm_trans; [exact HIV|]. eapply perm_trans; [|exact HPm]. rewrite EP, <- verts_erase, erase_app.
    rewrite !verts_app. change (erase (c :: a)) with (snd c :: erase a). rewrite !verts_cons. apply Permutation_refl. }
  assert (HIn : ne (indiv (erase b) (cverts c) (erase a) x)).
  { rewrite EP in HNe0. apply nonempty_ne in HNe0. rewrite erase_app in HNe0. apply Forall_app in HNe0. destruct HNe0 as [Nb Na].
    simpl in Na. inversion Na; subst. unfold indiv. apply ne_app; [exact Nb|]. constructor; [simpl; discriminate|].
    constructor; [|assumption]. simpl.
    pose proof (Permutation_length (perm_filter_ne (cverts c) x Hcnd Hy)) as HL. simpl in HL.
    destruct (filter (fun u => negb (u =? x)) (cverts c)); [simpl in HL; lia|discriminate]. }
  destruct (refine_total g _ HIn) as (Q0 & EQ & NQ & _). rewrite HC in EQ. inversion EQ; subst Q0.
  apply (cut_nofl g n Hn (spl_cells b c a x) s fl Q Hsn Hsl Hps HNe).
  - rewrite erase_spl_cells. eapply refine_fuel_wrefp. exact HC.
  - eapply perm_trans; [eapply refine_verts; exact HC|exact HPv].
  - exact NQ.
Qed.

End SplitCut.

End CutFl.
