(* Canon/SearchComplete.v — completeness of the generators and orbits returned by the pruned search
   (the McKay theorem for the model of CanonicalIsomorphAllocated): the four layers of the invariant
   hold along the whole search; at the end the root of the tree is covered, i.e. every leaf with the
   certificate of the first leaf is the image of the first leaf under an element of the group generated
   by the returned generators; every class-preserving automorphism takes the first leaf to such a leaf,
   hence belongs to that group.  With Canon/SearchAut.v (soundness): the returned generators generate
   exactly Aut(g, classes) and the returned union-find array represents exactly its orbits. *)
From Coq Require Import List Arith Bool ZArith Lia Permutation Sorted.
From Mamba Require Canon.AutModel Canon.AutBase Canon.Aut Canon.Group Canon.Orbit Canon.GroupEdgeless.
From Mamba Require Import Canon.Perm Canon.Iso Canon.Model Canon.Refine Canon.Sorted Canon.Tree Canon.Fuel
  Disjoint.Model Disjoint.Proofs Canon.SearchModel Canon.SearchHoare Canon.SearchCells Canon.SearchTarget
  Canon.SearchDeage Canon.SearchRefine Canon.SearchExec Canon.SearchValue Canon.SearchExpand Canon.SearchCert
  Canon.SearchOrder Canon.SearchEquiv Canon.SearchWalk Canon.SearchEquit Canon.SearchCut Canon.SearchSibling
  Canon.SearchLink Canon.SearchInvT Canon.SearchVCT Canon.SearchInvV Canon.SearchVCV Canon.SearchPrune
  Canon.SearchGroup Canon.SearchCutW Canon.SearchInvP Canon.SearchVCP1 Canon.SearchVCP2 Canon.SearchVCP3
  Canon.SearchVCP4 Canon.SearchInit Canon.SearchProofs Canon.SearchMax Canon.SearchAut
  Canon.SearchCompleteBase Canon.SearchCompleteCut Canon.SearchCompleteInv Canon.SearchCompleteVC1
  Canon.SearchCompleteVC2 Canon.SearchCompleteLeaf Canon.SearchCompleteVC3.
Import ListNotations.
Open Scope nat_scope.

Section All.
Variable g : graph.
Variables n m : nat.
Variable clsf : nat -> nat.
Variable order0 : list nat.
Variable root : part.
Hypothesis Hg : simple g.
Hypothesis Hn : length g = n.
Hypothesis Hm : m = num_edges g.
Hypothesis Hm0 : 0 < m.
Hypothesis Hroot_eq : equitable g root.
Hypothesis Hroot_fl : forall c, In c root -> fst c = false.

Theorem search_C : forall fuel st w p o gs, CPtop g n m clsf order0 root st w ->
  main_loop g n m fuel st w = Ok (p, o, gs) ->
  exists st', CPdone g n m clsf order0 root st' /\ p = s_cbPerm st' /\ o = s_flOrb st' /\ gs = s_gens st'.
Proof.
  intros fuel st w p o gs HT HM.
  eapply (main_loop_outline g n m (CPtop g n m clsf order0 root) (CPstep g n m clsf order0 root)
            (CPj g n m clsf order0 root) (CPref g n m clsf order0 root) (CPdone g n m clsf order0 root)); try eassumption.
  - apply VCC_leaf; assumption.
  - apply VCC_push; assumption.
  - apply VCC_worse; assumption.
  - apply VCC_done; assumption.
  - apply VCC_jstart; assumption.
  - apply VCC_jexit; assumption.
  - apply VCC_jcont; assumption.
  - apply VCC_jstep; assumption.
  - apply VCC_refine; assumption.
Qed.

End All.

(* ---------------------------------------------------------------- class-preserving automorphisms fix the initial partition *)

Lemma sim_diag : forall f (P : part), (forall c, In c P -> csim f c c) -> sim f P P.
Proof. intros f P H. induction P as [|c P IH]; constructor; [apply H; left; reflexivity|apply IH; intros d Hd; apply H; right; exact Hd]. Qed.

Lemma class_sim : forall g n cs a, length g = n -> Permutation (order_of cs) (seq 0 n) ->
  isaut g n (in_cell cs) a -> sim (gfun a) (erase cs) (erase cs).
Proof.
  intros g n cs a Hn HP Ia. pose proof (isaut_autf' g n (in_cell cs) a Ia) as Hf.
  assert (Hnd : NoDup (order_of cs)) by (apply (Permutation_NoDup (Permutation_sym HP)), seq_NoDup).
  apply sim_diag. intros c Hc. unfold erase in Hc. apply in_map_iff in Hc. destruct Hc as (c' & <- & Hc').
  split; [reflexivity|]. change (snd (snd c')) with (cverts c').
  destruct (in_split _ _ Hc') as (pre & post & Ecs).
  assert (Hcin : forall v, In v (cverts c') -> In v (order_of cs)).
  { intros v Hv. rewrite Ecs, order_of_app, order_of_cons. apply in_or_app. right. apply in_or_app. left. exact Hv. }
  assert (Hclt : forall v, In v (cverts c') -> v < n).
  { intros v Hv. apply Hcin in Hv. apply (Permutation_in _ HP) in Hv. apply in_seq in Hv. lia. }
  assert (Hcnd : NoDup (cverts c')).
  { rewrite Ecs, order_of_app, order_of_cons in Hnd. apply NoDup_app_r in Hnd. apply NoDup_app_l in Hnd. exact Hnd. }
  apply NoDup_Permutation_bis.
  - apply NoDup_map_inj_in; [|exact Hcnd]. intros u v Hu Hv E. apply (autf_inj g g n (gfun a) u v Hf); auto.
  - rewrite map_length. lia.
  - intros y Hy. apply in_map_iff in Hy. destruct Hy as (v & <- & Hv).
    assert (Hfv : gfun a v < n) by (apply (autf_lt g g n (gfun a) v Hf); apply Hclt; exact Hv).
    assert (Hin : In (gfun a v) (order_of cs)) by (apply (Permutation_in _ (Permutation_sym HP)); apply in_seq; lia).
    destruct (in_cell_spec cs (gfun a v) Hin) as (c2 & Hc2 & Hfc2).
    destruct Ia as (_ & _ & HCl). unfold gfun in *. rewrite (HCl v (Hclt v Hv)) in Hc2.
    rewrite (in_cell_index cs pre c' post v Ecs Hnd Hv) in Hc2.
    rewrite Ecs, nth_error_app_exact in Hc2. inversion Hc2; subst c2. exact Hfc2.
Qed.

(* ---------------------------------------------------------------- the theorem *)

Section Final.
Variable g : graph.
Variable cls : option (list (list nat)).
Hypothesis Hg : simple g.

Let n := length g.
Let m := num_edges g.
Let cs0 := init_cells n cls.
Let clsf := in_cell cs0.
Let order0 := order_of cs0.

Hypothesis Hcls : cls_ok n cls.

(* every class-preserving automorphism is a product of the returned generators and their inverses *)
Theorem search_gens_complete : forall fuel p o gs, canon_search fuel g cls = Ok (p, o, gs) ->
  forall a, Aut.Aut n (adjb g) clsf a -> Group.generated n gs a.
Proof.
  intros fuel p o gs H a HAa. destruct (Nat.eq_dec n 0) as [E0|E0].
  - (* no vertex *)
    unfold canon_search in H. fold n in H. rewrite E0 in H. simpl in H. inversion H.
    destruct HAa as ((HL & _) & _). rewrite E0 in HL. destruct a; [|discriminate].
    rewrite E0. apply Group.gen_id.
  - destruct (Nat.eq_dec m 0) as [Em|Em].
    + (* no edge: the shortcut *)
      unfold canon_search in H. fold n m cs0 in H.
      assert (En : n =? 0 = false) by (apply Nat.eqb_neq; lia). rewrite En, Em in H. simpl in H. inversion H.
      destruct (cells0_ok g cls Hcls ltac:(fold n; lia)) as [HCk HCl]. fold n cs0 clsf in HCk, HCl.
      destruct (GroupEdgeless.edgeless_shortcut n (map cverts cs0) clsf (new n) HCk ltac:(unfold new; apply repeat_length) HCl)
        as (_ & HGen & _).
      apply HGen. destruct HAa as (A1 & A2 & A3). split; [exact A1|]. split; [intros i j _ _; reflexivity|exact A3].
    + assert (Hn0 : 0 < n) by lia. assert (Hm0 : 0 < m) by lia.
      destruct (canon_search_init_P g cls Hcls Hn0 Hm0) as [HP|(ps0 & root & HE & HRf & HTop)]; [rewrite HP in H; discriminate|].
      fold n m cs0 clsf order0 in HE, HRf, HTop.
      rewrite HE in H. destruct (root_equitable g cls Hcls root HRf) as [Heq Hfl].
      assert (HCT : CPtop g n m clsf order0 root (init_state n m ps0) false).
      { split; [exact HTop|]. split; [|discriminate]. split.
        - intros _ k P i [Hk _]. simpl in Hk. lia.
        - intros Hc. cbn in Hc. congruence. }
      destruct (search_C g n m clsf order0 root Hg eq_refl eq_refl Hm0 Heq Hfl fuel _ _ p o gs HCT H)
        as (st' & (HPd & Hcov & (leafF & HRd & HTl & HPF & HInv & Efl)) & _ & _ & ->).
      destruct HPd as ((_ & HR & _) & _).
      assert (HFg : Forall (isaut g n clsf) (s_gens st')) by exact (r_gens _ _ _ _ _ _ HR).
      pose proof (Aut_isaut g n clsf a HAa) as Ia. pose proof (isaut_autf' g n clsf a Ia) as Hf.
      destruct (init_cells_ok n cls Hn0 Hcls) as (HP0 & _). fold cs0 in HP0.
      assert (HSr : sim (gfun a) root root).
      { pose proof (refine_sim (gfun a) g g (seq 0 n)
                      ltac:(intros u v Hu Hv; apply in_seq in Hu; apply in_seq in Hv; apply (proj1 Hf); lia)
                      (erase cs0) (erase cs0) ltac:(intros x Hx; apply (Permutation_in _ HP0); exact Hx)
                      (class_sim g n cs0 a eq_refl HP0 Ia)) as HRs.
        rewrite HRf in HRs. exact HRs. }
      assert (HPr : Permutation (verts root) (seq 0 n)) by (eapply perm_trans; [eapply refine_verts; exact HRf|exact HP0]).
      destruct (rdesc_sim g g n (gfun a) Hf root leafF HRd root HSr
                  ltac:(apply (Permutation_NoDup (Permutation_sym HPr)), seq_NoDup)
                  ltac:(intros x Hx; apply (Permutation_in _ HPr); exact Hx) HTl) as (L' & R' & T' & E').
      assert (HCe : certp g n (verts L') = s_fl st').
      { rewrite E', Efl. apply (certp_map g g n (gfun a) (verts leafF) Hf HPF). }
      destruct (Hcov L' R' T' HCe) as (a' & Ha' & HL1 & HL2).
      assert (Ea : a' = a).
      { apply (list_ext_n g n eq_refl); [exact HL1|apply (isaut_length g n clsf); exact Ia|]. intros v Hv.
        rewrite (HL2 v Hv), E'.
        pose proof (inverse_lt g n eq_refl (verts leafF) (s_flInv st') v HInv HPF Hv) as Hk.
        assert (HLp : length (verts leafF) = n) by (rewrite (Permutation_length HPF); apply seq_length).
        rewrite (nth_indep (map (gfun a) (verts leafF)) 0 (gfun a 0)) by (rewrite map_length; lia). rewrite map_nth.
        rewrite (inverse_r g n m eq_refl eq_refl Hm0 (verts leafF) (s_flInv st') v HInv HPF Hv). reflexivity. }
      subst a'. exact Ha'.
Qed.

(* the group generated by the returned generators is exactly Aut(g, classes) *)
Theorem search_gens_generate_aut : forall fuel p o gs, canon_search fuel g cls = Ok (p, o, gs) ->
  forall a, Group.generated n gs a <-> Aut.Aut n (adjb g) clsf a.
Proof.
  intros fuel p o gs H a. split.
  - intros Ha. eapply generated_Aut; [eapply search_gens_aut; eassumption|exact Ha].
  - apply (search_gens_complete fuel p o gs H).
Qed.

(* the returned array is a well-formed forest whose classes are exactly the orbits of Aut(g, classes) *)
Theorem search_orbits_exact : forall fuel p o gs, canon_search fuel g cls = Ok (p, o, gs) ->
  length o = n /\ WF o /\
  forall x y, x < n -> y < n -> (same o x y <-> exists a, Aut.Aut n (adjb g) clsf a /\ AutModel.app a x = y).
Proof.
  intros fuel p o gs H. destruct (search_orbits g cls Hg Hcls fuel p o gs H) as (HL & HW & HO). fold n in HL, HO.
  split; [exact HL|]. split; [exact HW|]. intros x y Hx Hy. split.
  - intros HS. apply (search_orbits_sound g cls Hg Hcls fuel p o gs H x y Hx Hy HS).
  - intros (a & Ha & Eax). apply (HO x y Hx Hy). exists a. split; [|exact Eax]. apply (search_gens_complete fuel p o gs H a Ha).
Qed.

End Final.
