(* Canon/SearchInvar.v — the canonical graph computed by the pruned search does not depend on the labelling
   of the input: an isomorphism f from g to g' (vertex classes mapped by f) carries the unpruned tree
   of g onto that of g' with equal certificates, the search returns a leaf with the greatest
   certificate on either side, and equal certificates give equal relabelled graphs. *)
From Coq Require Import List Arith Bool ZArith Lia Permutation Sorted.
From Mamba Require Import Canon.Perm Canon.Iso Canon.Model Canon.Refine Canon.Sorted Canon.Tree Canon.Fuel
  Disjoint.Model Canon.SearchModel Canon.SearchCells Canon.SearchTarget Canon.SearchValue Canon.SearchCert
  Canon.SearchOrder Canon.SearchEquiv Canon.SearchWalk Canon.SearchPrune Canon.SearchInit Canon.SearchProofs
  Canon.SearchMax.
Import ListNotations.
Open Scope nat_scope.

(* ---------------------------------------------------------------- inverse of an isomorphism *)

Section Inv2.
Variables g g' : graph.
Variable n : nat.

Lemma finv_spec2 : forall f, Permutation (map f (seq 0 n)) (seq 0 n) ->
  forall u, u < n -> finv n f (f u) = u /\ f (finv n f u) = u /\ finv n f u < n.
Proof.
  intros f HP u Hu.
  assert (Hnd : NoDup (map f (seq 0 n))) by (apply (Permutation_NoDup (Permutation_sym HP)), seq_NoDup).
  assert (HL : length (map f (seq 0 n)) = n) by (rewrite map_length; apply seq_length).
  unfold finv. split; [|split].
  - replace (f u) with (nth u (map f (seq 0 n)) 0).
    + apply index_of_nth; [exact Hnd|lia].
    + rewrite (nth_indep _ 0 (f 0)) by lia. rewrite map_nth, seq_nth by lia. reflexivity.
  - assert (Hin : In u (map f (seq 0 n))) by (apply (Permutation_in _ (Permutation_sym HP)); apply in_seq; lia).
    pose proof (nth_index_of u _ 0 Hin) as E. pose proof (index_of_lt u _ Hin) as HLt. rewrite HL in HLt.
    rewrite (nth_indep _ 0 (f 0)) in E by lia. rewrite map_nth, seq_nth in E by lia. exact E.
  - assert (Hin : In u (map f (seq 0 n))) by (apply (Permutation_in _ (Permutation_sym HP)); apply in_seq; lia).
    pose proof (index_of_lt u _ Hin) as HLt. rewrite HL in HLt. exact HLt.
Qed.

Lemma autf_inv2 : forall f, autf g g' n f -> autf g' g n (finv n f).
Proof.
  intros f [Hadj HP]. split.
  - intros u v Hu Hv. destruct (finv_spec2 f HP u Hu) as (_ & E1 & L1). destruct (finv_spec2 f HP v Hv) as (_ & E2 & L2).
    rewrite <- (Hadj (finv n f u) (finv n f v) L1 L2), E1, E2. reflexivity.
  - apply NoDup_Permutation_bis.
    + apply NoDup_map_inj_in; [|apply seq_NoDup]. intros a b Ha Hb E. apply in_seq in Ha. apply in_seq in Hb.
      destruct (finv_spec2 f HP a ltac:(lia)) as (_ & E1 & _). destruct (finv_spec2 f HP b ltac:(lia)) as (_ & E2 & _).
      rewrite <- E1, <- E2, E. reflexivity.
    + rewrite map_length. lia.
    + intros x Hx. apply in_map_iff in Hx. destruct Hx as (u & <- & Hu). apply in_seq in Hu.
      apply in_seq. destruct (finv_spec2 f HP u ltac:(lia)) as (_ & _ & L). lia.
Qed.

Lemma sim_inv2 : forall f P P', Permutation (map f (seq 0 n)) (seq 0 n) -> incl (verts P) (seq 0 n) ->
  sim f P P' -> sim (finv n f) P' P.
Proof.
  intros f P P' HP Hinc HS. revert Hinc. induction HS as [|c c' P P' [Hfl Hc] _ IH]; intros Hi; [constructor|].
  rewrite verts_cons in Hi. constructor.
  - split; [symmetry; exact Hfl|]. eapply perm_trans; [apply Permutation_map; apply Permutation_sym; exact Hc|].
    rewrite map_map. rewrite (map_ext_in _ (fun x => x)); [rewrite map_id; apply Permutation_refl|].
    intros u Hu. assert (Hun : In u (seq 0 n)) by (apply Hi; apply in_or_app; left; exact Hu). apply in_seq in Hun.
    apply (finv_spec2 f HP u). lia.
  - apply IH. intros u Hu. apply Hi. apply in_or_app. right. exact Hu.
Qed.

(* the leaves of two related nodes have the same certificates *)
Lemma dom_leaf_transfer : forall f root root' c' Q, autf g g' n f -> sim f root root' ->
  Permutation (verts root) (seq 0 n) -> dom g' n c' root' -> rdesc g root Q -> target Q = None ->
  cle (certp g n (verts Q)) c'.
Proof.
  intros f root root' c' Q Hf HS HP HD HR HT.
  assert (Hnd : NoDup (verts root)) by (apply (Permutation_NoDup (Permutation_sym HP)), seq_NoDup).
  destruct (rdesc_sim g g' n f Hf root Q HR root' HS Hnd ltac:(intros x Hx; apply (Permutation_in _ HP); exact Hx) HT)
    as (Q' & HR' & HT' & HV').
  pose proof (HD Q' HR' HT') as Hle. rewrite HV' in Hle.
  rewrite (certp_map g g' n f (verts Q) Hf) in Hle; [exact Hle|].
  eapply perm_trans; [apply (rdesc_verts g root Q HR Hnd)|exact HP].
Qed.

End Inv2.

(* ---------------------------------------------------------------- graphs without edges *)

Lemma num_edges_zero : forall g, (forall u v, adjb g u v = adjb g v u) -> num_edges g = 0 ->
  forall u v, u < length g -> v < length g -> u <> v -> adjb g u v = false.
Proof.
  intros g Hsym H0 u v Hu Hv Hne. unfold num_edges in H0. apply length_zero_iff_nil in H0.
  assert (K : forall i j, i < j -> j < length g -> adjb g i j = false).
  { intros i j Hij Hj. destruct (adjb g i j) eqn:E; [|reflexivity]. exfalso.
    assert (Hin : In (i, j) (filter (fun p => adjb g (fst p) (snd p))
                    (flat_map (fun j0 => map (fun i0 => (i0, j0)) (seq 0 j0)) (seq 0 (length g))))).
    { apply filter_In. split; [|exact E]. apply in_flat_map. exists j. split; [apply in_seq; lia|].
      apply in_map_iff. exists i. split; [reflexivity|apply in_seq; lia]. }
    rewrite H0 in Hin. contradiction. }
  destruct (Nat.lt_ge_cases u v) as [Hlt|Hge]; [apply K; assumption|]. rewrite Hsym. apply K; lia.
Qed.

Lemma relabel_edgeless : forall g p, (forall u v, In u p -> In v p -> adjb g u v = false) ->
  relabel g p = map (fun _ => map (fun _ => false) p) p.
Proof. intros g p H. unfold relabel. apply map_ext_in. intros u Hu. apply map_ext_in. intros v Hv. apply H; assumption. Qed.

Lemma map_const_length : forall (A B : Type) (x : B) (l l' : list A), length l = length l' -> map (fun _ => x) l = map (fun _ => x) l'.
Proof. intros A B x l. induction l as [|a l IH]; intros [|a' l'] H; simpl in *; try discriminate; [reflexivity|]. f_equal. apply IH. lia. Qed.

(* ---------------------------------------------------------------- the theorem *)

Section Invariance.
Variables g g' : graph.
Variable f : nat -> nat.
Variable cls : option (list (list nat)).
Hypothesis Hg : simple g.
Hypothesis Hg' : simple g'.
Hypothesis HLg : length g' = length g.

Let n := length g.
Hypothesis Hf : autf g g' n f.
Hypothesis Hcls : cls_ok n cls.

Let cls' := option_map (map (map f)) cls.

Lemma cls_ok_map : cls_ok n cls'.
Proof.
  unfold cls'. destruct cls as [c|]; [|exact I]. destruct Hcls as [HP HN]. simpl. split.
  - rewrite <- concat_map. eapply perm_trans; [apply Permutation_map; exact HP|exact (proj2 Hf)].
  - apply Forall_forall. intros x Hx. apply in_map_iff in Hx. destruct Hx as (y & <- & Hy).
    rewrite Forall_forall in HN. specialize (HN y Hy). destruct y; [congruence|discriminate].
Qed.

Lemma init_sim : sim f (erase (init_cells n cls)) (erase (init_cells n cls')).
Proof.
  unfold init_cells, erase, cls'. rewrite !map_map. simpl. destruct cls as [c|]; simpl.
  - unfold init_classes. rewrite !map_map. simpl.
    assert (G : forall c0 : list (list nat), sim f (map (fun x => (true, isort x)) c0) (map (fun x => (true, isort (map f x))) c0)).
    { induction c0 as [|x c0 IH]; [constructor|]. simpl. constructor; [|exact IH].
      split; [reflexivity|]. simpl. eapply perm_trans; [apply Permutation_map; apply isort_perm|].
      apply Permutation_sym. apply isort_perm. }
    apply G.
  - unfold init_part. destruct n; [constructor|]. constructor; [|constructor].
    split; [reflexivity|]. simpl. exact (proj2 Hf).
Qed.

Theorem search_invariant : forall fuel fuel' p o gs p' o' gs',
  canon_search fuel g cls = Ok (p, o, gs) -> canon_search fuel' g' cls' = Ok (p', o', gs') ->
  relabel g p = relabel g' p'.
Proof.
  intros fuel fuel' p o gs p' o' gs' H H'.
  pose proof (search_perm g cls Hg Hcls fuel p o gs H) as HP. fold n in HP.
  assert (Hcls' : cls_ok (length g') cls') by (rewrite HLg; exact cls_ok_map).
  pose proof (search_perm g' cls' Hg' Hcls' fuel' p' o' gs' H') as HP'. rewrite HLg in HP'. fold n in HP'.
  pose proof Hg as (Hwf & Hirr & Hsym). pose proof Hg' as (Hwf' & Hirr' & Hsym').
  assert (Hlt : forall q x, Permutation q (seq 0 n) -> In x q -> x < n).
  { intros q x Hq Hx. apply (Permutation_in _ Hq) in Hx. apply in_seq in Hx. lia. }
  assert (HFP : Permutation (map f (seq 0 n)) (seq 0 n)) by exact (proj2 Hf).
  pose proof (autf_inv2 g g' n f Hf) as Hfi.
  (* an edge of one graph is an edge of the other *)
  assert (Hedge : num_edges g = 0 <-> num_edges g' = 0).
  { assert (K : forall (h h' : graph) e, simple h -> simple h' -> length h = n -> length h' = n -> autf h h' n e ->
               num_edges h' = 0 -> num_edges h = 0).
    { intros h h' e (_ & Hi & Hs) (_ & Hi' & Hs') L L' He Z'.
      unfold num_edges. apply length_zero_iff_nil. rewrite L.
      destruct (filter _ _) as [|[i j] r] eqn:EF; [reflexivity|]. exfalso.
      assert (Hin : In (i, j) (filter (fun p0 => adjb h (fst p0) (snd p0))
                (flat_map (fun j0 => map (fun i0 => (i0, j0)) (seq 0 j0)) (seq 0 n)))) by (rewrite EF; left; reflexivity).
      apply filter_In in Hin. destruct Hin as [Hin Hadj]. simpl in Hadj. apply in_flat_map in Hin.
      destruct Hin as (j0 & Hj0 & Hin). apply in_map_iff in Hin. destruct Hin as (i0 & Epair & Hi0). inversion Epair; subst i0 j0.
      apply in_seq in Hj0. apply in_seq in Hi0.
      rewrite <- (proj1 He i j ltac:(lia) ltac:(lia)) in Hadj.
      rewrite (num_edges_zero h' Hs' Z' (e i) (e j)) in Hadj; [discriminate| | |].
      - rewrite L'. apply (autf_lt h h' n e i He). lia.
      - rewrite L'. apply (autf_lt h h' n e j He). lia.
      - intros E. apply (autf_inj h h' n e i j He) in E; lia. }
    split; [apply (K g' g (finv n f) Hg' Hg HLg eq_refl Hfi)|apply (K g g' f Hg Hg' eq_refl HLg Hf)]. }
  destruct (Nat.eq_dec (num_edges g) 0) as [Hz|Hnz].
  - (* no edge at all *)
    pose proof (proj1 Hedge Hz) as Hz'.
    rewrite (relabel_edgeless g p), (relabel_edgeless g' p').
    + pose proof (Permutation_length HP) as L1. pose proof (Permutation_length HP') as L2. rewrite seq_length in L1, L2.
      rewrite (map_const_length _ _ (map (fun _ : nat => false) p) p p') by lia.
      apply map_ext. intros _. apply map_const_length. lia.
    + intros u v Hu Hv. destruct (Nat.eq_dec u v) as [->|Hne]; [apply Hirr'|].
      apply (num_edges_zero g' Hsym' Hz'); [rewrite HLg; exact (Hlt p' u HP' Hu)|rewrite HLg; exact (Hlt p' v HP' Hv)|exact Hne].
    + intros u v Hu Hv. destruct (Nat.eq_dec u v) as [->|Hne]; [apply Hirr|].
      apply (num_edges_zero g Hsym Hz); [exact (Hlt p u HP Hu)|exact (Hlt p v HP Hv)|exact Hne].
  - assert (Hm0 : 0 < num_edges g) by lia.
    assert (Hm0' : 0 < num_edges g') by (destruct (Nat.eq_dec (num_edges g') 0) as [E|]; [apply Hedge in E; lia|lia]).
    destruct (search_max g cls Hg Hcls fuel p o gs Hm0 H) as (root & HRf & _ & _ & HD & Q & HQ1 & HQ2 & HQ3).
    destruct (search_max g' cls' Hg' Hcls' fuel' p' o' gs' Hm0' H') as (root' & HRf' & _ & _ & HD' & Q' & HQ1' & HQ2' & HQ3').
    rewrite HLg in HRf', HD'. fold n in HRf, HD, HRf', HD'.
    (* the roots are related by f *)
    destruct (init_cells_ok n cls ltac:(unfold n; destruct g; [simpl in Hm0; unfold num_edges in Hm0; simpl in Hm0; lia|simpl; lia]) Hcls) as (HP0 & _).
    assert (HSr : sim f root root').
    { pose proof (refine_sim f g g' (seq 0 n) ltac:(intros u v Hu Hv; apply in_seq in Hu; apply in_seq in Hv; apply (proj1 Hf); lia)
                    _ _ ltac:(intros x Hx; apply (Permutation_in _ HP0); exact Hx) init_sim) as HRs.
      rewrite HRf, HRf' in HRs. exact HRs. }
    assert (HPr : Permutation (verts root) (seq 0 n)) by (eapply perm_trans; [eapply refine_verts; exact HRf|exact HP0]).
    assert (HPr' : Permutation (verts root') (seq 0 n)).
    { destruct (init_cells_ok n cls' ltac:(unfold n; destruct g; [simpl in Hm0; unfold num_edges in Hm0; simpl in Hm0; lia|simpl; lia]) cls_ok_map) as (HP0' & _).
      eapply perm_trans; [eapply refine_verts; exact HRf'|exact HP0']. }
    assert (HSr' : sim (finv n f) root' root).
    { apply sim_inv2; [exact HFP| |exact HSr]. intros x Hx. apply (Permutation_in _ HPr). exact Hx. }
    pose proof (dom_leaf_transfer g g' n f root root' _ Q Hf HSr HPr HD' HQ1 HQ2) as Le1. rewrite HQ3 in Le1.
    pose proof (dom_leaf_transfer g' g n (finv n f) root' root _ Q' Hfi HSr' HPr' HD HQ1' HQ2') as Le2. rewrite HQ3' in Le2.
    pose proof (cle_antisym _ _ Le1 Le2) as Ecert.
    (* p' = map f p'' *)
    set (p'' := map (finv n f) p').
    assert (Ep' : map f p'' = p').
    { unfold p''. rewrite map_map. rewrite (map_ext_in _ (fun x => x)); [apply map_id|].
      intros x Hx. apply (finv_spec2 n f HFP x). exact (Hlt p' x HP' Hx). }
    assert (HP'' : Permutation p'' (seq 0 n)).
    { unfold p''. eapply perm_trans; [apply Permutation_map; exact HP'|exact (proj2 Hfi)]. }
    rewrite <- Ep' in Ecert. rewrite (certp_map g g' n f p'' Hf HP'') in Ecert.
    pose proof (cert_eq_relabel g n (lcells p) (lcells p'') Hg eq_refl (lcells_leafp n p HP) (lcells_leafp n p'' HP'') Ecert) as ER.
    rewrite !lcells_order in ER. rewrite ER, <- Ep'.
    unfold relabel. rewrite map_map. apply map_ext_in. intros u Hu. rewrite map_map. apply map_ext_in. intros v Hv.
    symmetry. apply (proj1 Hf); [exact (Hlt p'' u HP'' Hu)|exact (Hlt p'' v HP'' Hv)].
Qed.

End Invariance.

(* relabelling the input by a permutation (no vertex classes) *)
Theorem search_canon_graph_invariant :
  forall (g : graph) (sigma : list nat) fuel fuel' h h',
    simple g -> is_perm (length g) sigma = true ->
    search_canon_graph fuel (relabel g sigma) None = Ok h ->
    search_canon_graph fuel' g None = Ok h' ->
    h = h'.
Proof.
  intros g sigma fuel fuel' h h' Hg Hs H H'.
  unfold search_canon_graph in H, H'.
  destruct (canon_search fuel (relabel g sigma) None) as [[[p1 o1] gs1]| |] eqn:E1; simpl in H; try discriminate.
  destruct (canon_search fuel' g None) as [[[p o] gs]| |] eqn:E2; simpl in H'; try discriminate.
  inversion H; inversion H'; subst h h'. clear H H'.
  pose proof (is_perm_length _ _ Hs) as HLs.
  assert (HL1 : length (relabel g sigma) = length g) by (rewrite relabel_length; exact HLs).
  apply (search_invariant (relabel g sigma) g (papp sigma) None (relabel_simple g sigma Hg Hs) Hg (eq_sym HL1)) with
    (fuel := fuel) (fuel' := fuel') (o := o1) (gs := gs1) (o' := o) (gs' := gs); [|exact I|exact E1|exact E2].
  rewrite HL1. split.
  - intros u v Hu Hv. symmetry. apply adjb_relabel; lia.
  - replace (map (papp sigma) (seq 0 (length g))) with sigma; [apply is_perm_Permutation; exact Hs|].
    rewrite <- HLs. rewrite <- (map_nth_seq _ sigma 0) at 1. apply map_ext_in. intros i Hi. apply in_seq in Hi.
    unfold papp. apply nth_indep. lia.
Qed.
