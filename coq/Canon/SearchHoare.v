(* Canon/SearchHoare.v — the control structure of the search (main_loop / steploop / jloop of
   Canon/SearchModel.v) traversed once: a proof outline with one predicate per program point
   and one verification condition per primitive step gives a postcondition for every result
   of [main_loop], whatever the fuel. *)
From Coq Require Import List Arith Bool ZArith Lia.
From Mamba Require Import Canon.Perm Canon.Iso Canon.Model Disjoint.Model Canon.SearchModel.
Import ListNotations.
Open Scope nat_scope.

Lemma bind_ok : forall (A B : Type) (x : res A) (f : A -> res B) (b : B),
  bind x f = Ok b -> exists a, x = Ok a /\ f a = Ok b.
Proof. intros A B [a| |] f b H; simpl in H; try discriminate. exists a. auto. Qed.

Lemma of_opt_ok : forall (A : Type) (o : option A) (a : A), of_opt o = Ok a -> o = Some a.
Proof. intros A [x|] a H; simpl in H; [inversion H; reflexivity|discriminate]. Qed.

Ltac bind_inv H :=
  let a := fresh "r" in let E := fresh "E" in
  apply bind_ok in H; destruct H as [a [E H]].

Definition pop (st : sstate) : sstate :=
  set_stack st (removelast (s_path st)) (removelast (s_choices st)).

Section Outline.
Variable g : graph.
Variables n m : nat.

Variable Ptop : sstate -> bool -> Prop.     (* entry of the main loop, with the flag worse *)
Variable Pstep : sstate -> Prop.            (* entry of stepLoop *)
Variable Pj : sstate -> nat -> Prop.        (* entry of jLoop with jj iterations to go *)
Variable Pref : sstate -> Prop.             (* after a successful step, before the refinement *)
Variable Pdone : sstate -> Prop.                (* the state stepLoop returns from *)

Hypothesis VC_leaf : forall st st', Ptop st false -> length (p_cells (s_ps st)) = n ->
  leaf_step n m st = Ok st' -> Pstep st'.
Hypothesis VC_push : forall st, Ptop st false -> length (p_cells (s_ps st)) <> n -> Pstep (push_step st).
Hypothesis VC_worse : forall st, Ptop st true -> Pstep st.
Hypothesis VC_done : forall st, Pstep st -> last_opt (s_path st) = None -> Pdone st.
Hypothesis VC_jstart : forall st top, Pstep st -> last_opt (s_path st) = Some top -> Pj st top.
Hypothesis VC_jexit : forall st st1, Pj st 0 -> undo st = Ok st1 -> Pstep (pop st1).
Hypothesis VC_jcont : forall st j st', Pj st (S j) -> jbody g n m j st = Ok (st', false) -> Pj st' j.
Hypothesis VC_jstep : forall st j st', Pj st (S j) -> jbody g n m j st = Ok (st', true) -> Pref st'.
Hypothesis VC_refine : forall st w ps', Pref st ->
  refine_s g n m (s_cb st) (s_fl st) (s_ps st) = Ok (w, ps') -> Ptop (set_ps st ps') w.

Lemma jloop_outline : forall jj st st' ok, Pj st jj -> jloop g n m jj st = Ok (st', ok) ->
  if ok then Pref st' else Pj st' 0.
Proof.
  induction jj as [|j IH]; intros st st' ok HP H; simpl in H.
  - inversion H; subst. exact HP.
  - bind_inv H. destruct r as [st1 b]. simpl in H. destruct b.
    + inversion H; subst. eapply VC_jstep; eassumption.
    + eapply IH; [|exact H]. eapply VC_jcont; eassumption.
Qed.

Lemma steploop_outline : forall k st r, Pstep st -> steploop g n m k st = Ok r ->
  match r with
  | Stepped st' => Pref st'
  | Done p o gs => exists st', Pdone st' /\ p = s_cbPerm st' /\ o = s_flOrb st' /\ gs = s_gens st'
  end.
Proof.
  induction k as [|k IH]; intros st r HP H; simpl in H.
  - destruct (last_opt (s_path st)) as [top|] eqn:E; [discriminate|].
    inversion H; subst. exists st. repeat split. apply VC_done; assumption.
  - destruct (last_opt (s_path st)) as [top|] eqn:E.
    + bind_inv H. destruct r0 as [st1 b]. simpl in H.
      pose proof (jloop_outline top st st1 b (VC_jstart _ _ HP E) E0) as HJ.
      destruct b.
      * inversion H; subst. exact HJ.
      * bind_inv H. eapply IH; [|exact H]. eapply VC_jexit; eassumption.
    + inversion H; subst. exists st. repeat split. apply VC_done; assumption.
Qed.

Theorem main_loop_outline : forall fuel st w p o gs, Ptop st w ->
  main_loop g n m fuel st w = Ok (p, o, gs) ->
  exists st', Pdone st' /\ p = s_cbPerm st' /\ o = s_flOrb st' /\ gs = s_gens st'.
Proof.
  induction fuel as [|f IH]; intros st w p o gs HP H; [discriminate|].
  cbn -[steploop refine_s leaf_step push_step] in H.
  bind_inv H. bind_inv H.
  assert (HS : Pstep r).
  { destruct w.
    - inversion E; subst. apply VC_worse; assumption.
    - destruct (length (p_cells (s_ps st)) =? n) eqn:EL.
      + apply Nat.eqb_eq in EL. eapply VC_leaf; eassumption.
      + apply Nat.eqb_neq in EL. inversion E; subst. apply VC_push; assumption. }
  pose proof (steploop_outline _ _ _ HS E0) as HR.
  destruct r0 as [st2|p' o' gs'].
  - bind_inv H. destruct r0 as [w' ps']. simpl in H.
    eapply IH; [|exact H]. eapply VC_refine; eassumption.
  - inversion H; subst. exact HR.
Qed.

End Outline.
