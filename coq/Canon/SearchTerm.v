(* Canon/SearchTerm.v — the fuel of the model suffices: the refinement and stepLoop never exhaust the
   fuel they are given, and every iteration of the main loop moves the path forward in the
   depth-first order of a tree of depth at most n and degree at most n, so that a fuel bounded by
   a function of n alone excludes the result [Fuel].  (A Go panic, [Panic], is a result.) *)
From Coq Require Import List Arith Bool ZArith Lia Permutation Sorted.
From Mamba Require Import Canon.Perm Canon.Iso Canon.Model Canon.Refine Canon.Sorted Canon.Tree Canon.Fuel
  Disjoint.Model Canon.SearchModel Canon.SearchHoare Canon.SearchCells Canon.SearchTarget
  Canon.SearchDeage Canon.SearchRefine Canon.SearchExec Canon.SearchValue Canon.SearchExpand Canon.SearchCert
  Canon.SearchInvT Canon.SearchVCT Canon.SearchInvV Canon.SearchVCV.
Import ListNotations.
Open Scope nat_scope.

(* ---------------------------------------------------------------- steps that cannot run out of fuel *)

Definition nofuel {A : Type} (x : res A) : Prop := x <> Fuel.

Lemma nofuel_ok : forall (A : Type) (a : A), nofuel (Ok a).
Proof. intros A a H. discriminate. Qed.

Lemma nofuel_panic : forall (A : Type), nofuel (@Panic A).
Proof. intros A H. discriminate. Qed.

Lemma nofuel_bind : forall (A B : Type) (x : res A) (f : A -> res B), nofuel x -> (forall a, x = Ok a -> nofuel (f a)) ->
  nofuel (bind x f).
Proof. intros A B [a| |] f Hx Hf; simpl; [apply Hf; reflexivity|apply nofuel_panic|exfalso; apply Hx; reflexivity]. Qed.

Lemma nofuel_of_opt : forall (A : Type) (o : option A), nofuel (of_opt o).
Proof. intros A [a|]; [apply nofuel_ok|apply nofuel_panic]. Qed.

Lemma nofuel_deage : forall ps, nofuel (deage ps).
Proof.
  intros ps. unfold deage. destruct (deage_loop _ _ _ _ _ _) as [[[cs pend] spl] v].
  destruct pend as [[|x t]|]; try apply nofuel_ok. apply nofuel_panic.
Qed.

Lemma nofuel_deage_n : forall k ps, nofuel (deage_n k ps).
Proof. induction k as [|k IH]; intros ps; simpl; [apply nofuel_ok|]. apply nofuel_bind; [apply nofuel_deage|intros; apply IH]. Qed.

Lemma nofuel_undo : forall st, nofuel (undo st).
Proof. intros st. unfold undo. destruct (s_skip st); [apply nofuel_ok|]. apply nofuel_bind; [apply nofuel_deage|intros; apply nofuel_ok]. Qed.

Lemma nofuel_split_bin : forall g n m cb fl ps i, nofuel (split_bin g n m cb fl ps i).
Proof.
  intros. unfold split_bin. destruct (locate _ _) as [[[[b c] k] a]|]; [|apply nofuel_panic].
  destruct (nth_error _ _); [|apply nofuel_panic]. destruct (_ =? _); [|apply nofuel_ok].
  destruct (expand_value _ _ _ _ _ _ _ _); [apply nofuel_panic|apply nofuel_ok|apply nofuel_ok].
Qed.

Lemma nofuel_h2 : forall count lpath path ds order pos j v, nofuel (h2 count lpath path ds order pos j v).
Proof. intros. unfold h2. destruct (_ && _); [|apply nofuel_ok]. destruct (_ <? _); [apply nofuel_panic|apply nofuel_of_opt]. Qed.

Lemma nofuel_jbody : forall g n m j st, nofuel (jbody g n m j st).
Proof.
  intros. unfold jbody. apply nofuel_bind; [apply nofuel_undo|]. intros st1 _.
  destruct (last_opt _) as [[|pos]|]; try apply nofuel_panic.
  apply nofuel_bind; [apply nofuel_of_opt|]. intros v _.
  apply nofuel_bind; [apply nofuel_h2|]. intros r1 _. destruct (snd r1); [apply nofuel_ok|].
  apply nofuel_bind; [apply nofuel_h2|]. intros r2 _. destruct (snd r2); [apply nofuel_ok|].
  apply nofuel_bind; [apply nofuel_split_bin|]. intros r3 _. apply nofuel_ok.
Qed.

Lemma nofuel_jloop : forall g n m jj st, nofuel (jloop g n m jj st).
Proof.
  intros g n m. induction jj as [|j IH]; intros st; simpl; [apply nofuel_ok|].
  apply nofuel_bind; [apply nofuel_jbody|]. intros r _. destruct (snd r); [apply nofuel_ok|apply IH].
Qed.

Lemma nofuel_record_gen : forall n st gam, nofuel (record_gen n st gam).
Proof.
  intros. unfold record_gen. apply nofuel_bind; [apply nofuel_of_opt|]. intros r _.
  destruct (snd r); [|apply nofuel_ok]. destruct (_ <? _); [apply nofuel_panic|apply nofuel_ok].
Qed.

Lemma nofuel_back_jump : forall st bp, nofuel (back_jump st bp).
Proof.
  intros. unfold back_jump. apply nofuel_bind; [apply nofuel_of_opt|]. intros keep _.
  apply nofuel_bind; [apply nofuel_deage_n|]. intros; apply nofuel_ok.
Qed.

Lemma nofuel_leaf_step : forall n m st, nofuel (leaf_step n m st).
Proof.
  intros. unfold leaf_step. destruct (cmp_list _ _).
  - apply nofuel_bind; [apply nofuel_of_opt|]. intros gam _. apply nofuel_bind; [apply nofuel_of_opt|]. intros r _.
    apply nofuel_bind; [apply nofuel_record_gen|]. intros; apply nofuel_back_jump.
  - destruct (cmp_list _ _); try apply nofuel_ok.
    apply nofuel_bind; [apply nofuel_of_opt|]. intros gam _.
    apply nofuel_bind; [apply nofuel_record_gen|]. intros; apply nofuel_back_jump.
  - apply nofuel_bind; [apply nofuel_of_opt|]. intros; apply nofuel_ok.
Qed.

(* stepLoop: every failed iteration pops the path *)
Lemma jloop_path_length : forall g n m jj st st' ok, jloop g n m jj st = Ok (st', ok) ->
  length (s_path st') = length (s_path st).
Proof.
  intros g n m. induction jj as [|j IH]; intros st st' ok H; simpl in H; [inversion H; reflexivity|].
  bind_inv H. destruct r as [st1 b].
  assert (HL : length (s_path st1) = length (s_path st)).
  { destruct (jbody_cases _ _ _ _ _ _ _ E) as (s1 & pos & v & fo & b1 & HU & _ & _ & _ & Hrest).
    assert (Ep : s_path s1 = s_path st).
    { destruct (undo_cases _ _ HU) as [[_ ->]|[_ (ps' & _ & ->)]]; reflexivity. }
    cbv zeta in Hrest. destruct Hrest as [(_ & _ & ->)|(_ & co & b2 & _ & [(_ & _ & ->)|(_ & w & ps' & _ & _ & ->)])]; cbn; rewrite ?Ep; try reflexivity.
    apply set_last_length. }
  simpl in H. destruct b; [inversion H; subst; exact HL|]. rewrite (IH _ _ _ H). exact HL.
Qed.

Lemma undo_path : forall st st1, undo st = Ok st1 -> s_path st1 = s_path st.
Proof. intros st st1 H. destruct (undo_cases _ _ H) as [[_ ->]|[_ (ps' & _ & ->)]]; reflexivity. Qed.

Lemma nofuel_steploop : forall g n m k st, length (s_path st) < k -> nofuel (steploop g n m k st).
Proof.
  intros g n m. induction k as [|k IH]; intros st Hk; [lia|]. simpl.
  destruct (last_opt (s_path st)) as [top|] eqn:ET; [|apply nofuel_ok].
  apply last_opt_some_length in ET.
  apply nofuel_bind; [apply nofuel_jloop|]. intros [st1 b] E. simpl. destruct b; [apply nofuel_ok|].
  apply nofuel_bind; [apply nofuel_undo|]. intros st2 E2. apply IH. cbn.
  rewrite removelast_length, (undo_path _ _ E2), (jloop_path_length _ _ _ _ _ _ _ E). lia.
Qed.

(* the refinement never exhausts its fuel (as refine_fuel_enough of Canon/Fuel.v) *)
Lemma nofuel_refine_loop : forall g n m cb fl k ps, ne (erase (p_cells ps)) -> wt (erase (p_cells ps)) <= k ->
  nofuel (refine_loop k g n m cb fl ps).
Proof.
  intros g n m cb fl. induction k as [|k IH]; intros ps Hne Hw; simpl.
  - pose proof (pick_a_erase (p_cells ps)) as HPk. destruct (pick_a (p_cells ps)) as [[P' w]|]; [|apply nofuel_ok].
    destruct (pick_wt _ _ _ HPk) as [HW _]. lia.
  - pose proof (pick_a_erase (p_cells ps)) as HPk. destruct (pick_a (p_cells ps)) as [[P' w]|] eqn:EP; [|apply nofuel_ok].
    destruct (pick_wt _ _ _ HPk) as [HW HN]. specialize (HN Hne).
    destruct (round_loop g n m cb fl w (p_age ps) (rev P') [] (p_value ps) (p_spl ps)) as [|ps1|ps1] eqn:ER;
      [apply nofuel_panic|apply nofuel_ok|].
    destruct (round_loop_spec g n m cb fl w (p_age ps) (rev P') [] (p_value ps) (p_spl ps) false ps1)
      as (mid & _ & HC & _ & HE); [rewrite ER; reflexivity|].
    rewrite app_nil_r in HC. rewrite rev_involutive in HE. subst mid. specialize (HE eq_refl).
    destruct (step_wt g w (erase P') HN) as (S1 & S2 & _).
    apply IH; rewrite HE; [exact S2|lia].
Qed.

Lemma nofuel_refine_s : forall g n m cb fl ps, nonempty (p_cells ps) -> nofuel (refine_s g n m cb fl ps).
Proof.
  intros g n m cb fl ps HN. unfold refine_s. apply nofuel_refine_loop; [apply nonempty_ne; exact HN|].
  pose proof (wt_bound (erase (p_cells ps))) as HB. unfold order_of. rewrite erase_length in HB. exact HB.
Qed.

(* ---------------------------------------------------------------- the path moves forward *)

Lemma set_last_set_last : forall (A : Type) (l : list A) a b, set_last (set_last l a) b = set_last l b.
Proof.
  intros A l a b. destruct l as [|x l]; [reflexivity|]. unfold set_last at 2.
  destruct (removelast (x :: l) ++ [a]) eqn:E; [destruct (removelast (x :: l)); discriminate|]. rewrite <- E.
  unfold set_last. destruct (removelast (x :: l) ++ [a]) eqn:E2; [destruct (removelast (x :: l)); discriminate|].
  rewrite <- E2. rewrite removelast_last. reflexivity.
Qed.

Lemma removelast_set_last : forall (A : Type) (l : list A) a, removelast (set_last l a) = removelast l.
Proof. intros A [|x l] a; [reflexivity|]. unfold set_last. apply removelast_last. Qed.

Lemma jbody_path : forall g n m j st st' ok, jbody g n m j st = Ok (st', ok) ->
  (s_path st' = s_path st /\ ok = false) \/ s_path st' = set_last (s_path st) j.
Proof.
  intros g n m j st st' ok H.
  destruct (jbody_cases _ _ _ _ _ _ _ H) as (s1 & pos & v & fo & b1 & HU & _ & _ & _ & Hrest).
  pose proof (undo_path _ _ HU) as Ep. cbv zeta in Hrest.
  destruct Hrest as [(_ & -> & ->)|(_ & co & b2 & _ & [(_ & -> & ->)|(_ & w & ps' & _ & _ & ->)])]; cbn; rewrite ?Ep; auto.
Qed.

Lemma jloop_path : forall g n m jj st st' ok, s_path st <> [] -> jloop g n m jj st = Ok (st', ok) ->
  removelast (s_path st') = removelast (s_path st) /\ s_path st' <> [] /\
  (ok = true -> exists j, j < jj /\ s_path st' = set_last (s_path st) j).
Proof.
  intros g n m. induction jj as [|j IH]; intros st st' ok Hne H; simpl in H.
  - inversion H; subst. split; [reflexivity|]. split; [exact Hne|discriminate].
  - bind_inv H. destruct r as [st1 b]. simpl in H.
    assert (Hne1 : s_path st1 <> [] /\ removelast (s_path st1) = removelast (s_path st)).
    { destruct (jbody_path _ _ _ _ _ _ _ E) as [[-> _]| ->]; [split; [exact Hne|reflexivity]|].
      split; [|apply removelast_set_last]. intros E0. apply (f_equal (@length nat)) in E0. rewrite set_last_length in E0.
      destruct (s_path st); [congruence|discriminate]. }
    destruct Hne1 as [Hne1 Hrl]. destruct b.
    + inversion H; subst. split; [exact Hrl|]. split; [exact Hne1|]. intros _.
      destruct (jbody_path _ _ _ _ _ _ _ E) as [[_ Hf]|Hp]; [discriminate|]. exists j. split; [lia|exact Hp].
    + destruct (IH _ _ _ Hne1 H) as (I1 & I2 & I3). split; [rewrite I1; exact Hrl|]. split; [exact I2|].
      intros Hok. destruct (I3 Hok) as (j' & Hj' & Hp). exists j'. split; [lia|].
      rewrite Hp. destruct (jbody_path _ _ _ _ _ _ _ E) as [[-> _]| ->]; [reflexivity|apply set_last_set_last].
Qed.

(* p2 is p with the entry at some index decreased and everything behind it dropped *)
Definition pdec (p2 p : list nat) : Prop :=
  exists i j, i < length p /\ p2 = firstn i p ++ [j] /\ j < nth i p 0.

Lemma set_last_firstn : forall (p : list nat) j, p <> [] -> set_last p j = firstn (length p - 1) p ++ [j].
Proof. intros [|x p] j H; [congruence|]. unfold set_last. rewrite removelast_firstn_len'. reflexivity. Qed.

Lemma last_opt_nth0 : forall (p : list nat) top, last_opt p = Some top -> nth (length p - 1) p 0 = top.
Proof. intros p top H. rewrite last_opt_nth in H. apply nth_error_nth. exact H. Qed.

Lemma steploop_path : forall g n m k st st', steploop g n m k st = Ok (Stepped st') -> pdec (s_path st') (s_path st).
Proof.
  intros g n m. induction k as [|k IH]; intros st st' H; simpl in H.
  - destruct (last_opt (s_path st)); discriminate.
  - destruct (last_opt (s_path st)) as [top|] eqn:ET; [|discriminate].
    assert (Hne : s_path st <> []) by (intros E; rewrite E in ET; discriminate).
    pose proof (last_opt_some_length _ _ _ ET) as HL.
    bind_inv H. destruct r as [st1 b]. simpl in H.
    destruct (jloop_path _ _ _ _ _ _ _ Hne E) as (J1 & J2 & J3). destruct b.
    + inversion H; subst st'. destruct (J3 eq_refl) as (j & Hj & Hp).
      exists (length (s_path st) - 1), j. split; [lia|]. split; [rewrite Hp; apply set_last_firstn; exact Hne|].
      rewrite (last_opt_nth0 _ _ ET). exact Hj.
    + bind_inv H. rename r into st2. apply IH in H. cbn in H. rewrite (undo_path _ _ E0), J1 in H.
      destruct H as (i & j & Hi & Hp & Hj). rewrite removelast_length in Hi.
      exists i, j. split; [lia|]. rewrite removelast_firstn_len' in Hp, Hj. rewrite firstn_firstn in Hp.
      replace (Nat.min i (length (s_path st) - 1)) with i in Hp by lia. split; [exact Hp|].
      rewrite <- (firstn_skipn (length (s_path st) - 1) (s_path st)) at 1.
      rewrite app_nth1 by (rewrite firstn_length; lia). exact Hj.
Qed.

(* ---------------------------------------------------------------- a measure on paths *)

Fixpoint Nn (B d : nat) : nat := match d with 0 => 1 | S d' => 1 + B * Nn B d' end.

Fixpoint mu (B d : nat) (p : list nat) : nat :=
  match p, d with
  | [], _ => Nn B d
  | x :: r, S d' => x * Nn B d' + mu B d' r
  | _ :: _, 0 => 0
  end.

Lemma mu_nil : forall B d, mu B d [] = Nn B d.
Proof. intros B [|d]; reflexivity. Qed.

Lemma Nn_pos : forall B d, 1 <= Nn B d.
Proof. intros B [|d]; simpl; lia. Qed.

Lemma mu_pos : forall B d p, length p <= d -> 1 <= mu B d p.
Proof.
  intros B. induction d as [|d IH]; intros [|x r] H; simpl in *; try lia.
  specialize (IH r ltac:(lia)). lia.
Qed.

Lemma mu_single : forall B d j, j < B -> mu B (S d) [j] < Nn B (S d).
Proof.
  intros B d j Hj. simpl. destruct d; simpl.
  - nia.
  - assert (j * (1 + B * Nn B d) + (1 + B * Nn B d) <= B * (1 + B * Nn B d)) by nia. lia.
Qed.

Lemma mu_prefix : forall B a d s s2, length a <= d -> mu B (d - length a) s2 < mu B (d - length a) s ->
  mu B d (a ++ s2) < mu B d (a ++ s).
Proof.
  intros B. induction a as [|x a IH]; intros d s s2 HL H; simpl in *.
  - rewrite Nat.sub_0_r in H. exact H.
  - destruct d as [|d]; [lia|]. simpl in H. specialize (IH d s s2 ltac:(lia) H). simpl. lia.
Qed.

(* extension by one entry, or decrease of an entry dropping the rest: the measure decreases *)
Lemma mu_ext : forall B d p j, length p < d -> j < B -> mu B d (p ++ [j]) < mu B d p.
Proof.
  intros B d p j HL Hj. rewrite <- (app_nil_r p) at 2. apply mu_prefix; [lia|].
  destruct (d - length p) as [|d'] eqn:E; [lia|]. apply mu_single. exact Hj.
Qed.

Lemma mu_dec : forall B d p p2, length p <= d -> pdec p2 p -> mu B d p2 < mu B d p.
Proof.
  intros B d p p2 HL (i & j & Hi & -> & Hj).
  rewrite <- (firstn_skipn i p) at 2. 
  assert (HLi : length (firstn i p) = i) by (rewrite firstn_length; lia).
  apply mu_prefix; [lia|]. rewrite HLi.
  destruct (skipn i p) as [|x r] eqn:ES.
  - exfalso. assert (length (skipn i p) = length p - i) by apply skipn_length. rewrite ES in H. simpl in H. lia.
  - assert (Ex : nth i p 0 = x).
    { rewrite <- (firstn_skipn i p) at 1. rewrite app_nth2 by lia. rewrite HLi, Nat.sub_diag, ES. reflexivity. }
    rewrite Ex in Hj. destruct (d - i) as [|d'] eqn:Ed; [lia|]. simpl.
    assert (HLr : length r <= d').
    { assert (length (skipn i p) = length p - i) by apply skipn_length. rewrite ES in H. simpl in H. lia. }
    pose proof (mu_pos B d' r HLr). pose proof (Nn_pos B d').
    destruct d' as [|d'']; simpl in *; nia.
Qed.

(* ---------------------------------------------------------------- the main loop *)

Section MainTerm.
Variable g : graph.
Variables n m : nat.
Variable root : part.
Variable Xc : list acell -> Prop.
Hypothesis Xc_V : forall a cs cs', V a cs cs' -> Xc cs -> Xc cs'.

Notation TPstep := (TPstep g n root Xc).
Notation TPtop := (TPtop g n root Xc).
Notation TPj := (TPj g n root Xc).
Notation TPref := (TPref g n root Xc).

Lemma node_size : forall k P e sz, node_ok g n root Xc k P -> first_big P 0 = Some (e, sz) -> sz <= n /\ fns P < n.
Proof.
  intros k P e sz HN HB.
  destruct (first_big_spec _ _ _ _ (no_ne _ _ _ _ _ _ HN) HB) as (b & c & a & EP & HS & Hsz & H2 & He & Hb).
  pose proof (Permutation_length (no_perm _ _ _ _ _ _ HN)) as HL. rewrite seq_length in HL.
  rewrite EP, order_of_app, order_of_cons, !app_length, (singles_order_length _ HS) in HL. lia.
Qed.

Lemma anc_fns_lower : forall anc path choices, stack_ok g n root Xc anc path choices ->
  forall k P, nth_error anc k = Some P -> k <= fns P.
Proof.
  intros anc path choices (_ & _ & HNo & HCn & _). induction k as [|k IH]; intros P HP; [lia|].
  destruct (nth_error anc k) as [P0|] eqn:E0.
  - pose proof (chain_fns _ _ _ (HCn _ _ _ E0 HP)). specialize (IH P0 eq_refl). lia.
  - apply nth_error_None in E0. assert (S k < length anc) by (apply nth_error_Some; rewrite HP; discriminate). lia.
Qed.

Lemma path_valid : forall st, TPstep st -> length (s_path st) <= n /\ Forall (fun x => x < S n) (s_path st).
Proof.
  intros st (anc & HS & HC & HT & _). pose proof HS as (HL1 & HL2 & HNo & HCn & HCo). split.
  - destruct (last_opt anc) as [P|] eqn:EP.
    + rewrite last_opt_nth in EP. pose proof (anc_fns_lower _ _ _ HS _ _ EP) as HF.
      destruct (no_big _ _ _ _ _ _ (HNo _ _ EP)) as (e & sz & HB).
      destruct (node_size _ _ _ _ (HNo _ _ EP) HB) as [_ HF2].
      pose proof (last_opt_some_length _ _ _ (eq_trans (last_opt_nth _ anc) EP)). lia.
    + apply last_opt_none in EP. subst anc. simpl in HL1. lia.
  - apply Forall_forall. intros x Hx. apply In_nth_error in Hx. destruct Hx as (k & Hk).
    assert (HkL : k < length (s_path st)) by (apply nth_error_Some; rewrite Hk; discriminate).
    destruct (nth_error anc k) as [P|] eqn:EP; [|apply nth_error_None in EP; lia].
    destruct (Nat.lt_ge_cases (S k) (length (s_path st))) as [Hlt|Hge].
    + destruct (HCo k P Hlt EP) as (e & sz & pj & HB & Hpj & _ & Hlt2). rewrite Hk in Hpj. inversion Hpj; subst pj.
      destruct (node_size _ _ _ _ (HNo _ _ EP) HB). lia.
    + assert (Ek : k = length (s_path st) - 1) by lia.
      assert (Hlast : last_opt (s_path st) = Some x) by (rewrite last_opt_nth, <- Ek; exact Hk).
      specialize (HT x Hlast). unfold top_ok in HT.
      assert (EPl : last_opt anc = Some P) by (rewrite last_opt_nth, HL1, <- Ek; exact EP).
      rewrite EPl in HT. destruct HT as (e & sz & HB & _ & Hle & _).
      destruct (node_size _ _ _ _ (HNo _ _ EP) HB). lia.
Qed.

Lemma leaf_step_path : forall st st1, leaf_step n m st = Ok st1 ->
  exists keep, keep <= length (s_path st) /\ s_path st1 = firstn keep (s_path st).
Proof.
  intros st st1 H.
  destruct (leaf_step_cases _ _ _ _ H) as [(_ & cbInv & _ & ->)|[(_ & gam & d & b & st0 & _ & _ & HRg & HBj)|
    [(_ & _ & gam & st0 & _ & HRg & HBj)|(_ & _ & ->)]]].
  - exists (length (s_path st)). split; [lia|]. rewrite firstn_all. unfold new_best. destruct (_ =? _); reflexivity.
  - destruct (record_gen_fields n _ _ _ HRg) as (_ & E2 & _). destruct (back_jump_cases _ _ _ HBj) as (keep & ps' & HK & _ & ->).
    destruct (h1_keep_bounds _ _ _ HK) as [Hk _]. exists keep. rewrite E2 in *. split; [exact Hk|reflexivity].
  - destruct (record_gen_fields n _ _ _ HRg) as (_ & E2 & _). destruct (back_jump_cases _ _ _ HBj) as (keep & ps' & HK & _ & ->).
    destruct (h1_keep_bounds _ _ _ HK) as [Hk _]. exists keep. rewrite E2 in *. split; [exact Hk|reflexivity].
  - exists (length (s_path st)). split; [lia|]. rewrite firstn_all. reflexivity.
Qed.

Lemma pdec_firstn : forall p2 p keep, keep <= length p -> pdec p2 (firstn keep p) -> pdec p2 p.
Proof.
  intros p2 p keep Hk (i & j & Hi & -> & Hj). rewrite firstn_length in Hi.
  exists i, j. split; [lia|]. rewrite firstn_firstn in *. replace (Nat.min i keep) with i by lia. split; [reflexivity|].
  rewrite <- (firstn_skipn keep p) at 1. rewrite app_nth1 by (rewrite firstn_length; lia). exact Hj.
Qed.

Theorem main_nofuel : forall fuel st w, TPtop st w -> mu (S n) n (s_path st) < fuel -> nofuel (main_loop g n m fuel st w).
Proof.
  induction fuel as [|f IH]; intros st w HT Hmu; [lia|].
  cbn -[steploop refine_s leaf_step push_step].
  pose proof (path_valid st (proj1 HT)) as [HLp _].
  (* the state handed to stepLoop, and how its path relates to the path at the top of the loop *)
  assert (Hfirst : forall st1,
    (if w then Ok st else if length (p_cells (s_ps st)) =? n then leaf_step n m st else Ok (push_step st)) = Ok st1 ->
    TPstep st1 /\ ((exists keep, keep <= length (s_path st) /\ s_path st1 = firstn keep (s_path st)) \/
                    (exists sz, sz <= n /\ s_path st1 = s_path st ++ [sz]))).
  { intros st1 E. destruct w.
    - inversion E; subst st1. split; [apply (VCT_worse g n root Xc); exact HT|]. left.
      exists (length (s_path st)). split; [lia|]. rewrite firstn_all. reflexivity.
    - destruct (length (p_cells (s_ps st)) =? n) eqn:EL.
      + apply Nat.eqb_eq in EL. split; [eapply VCT_leaf; eassumption|]. left. apply leaf_step_path. exact E.
      + inversion E; subst st1. split; [apply (VCT_push g n root Xc); exact HT|].
        unfold push_step. destruct (first_big (p_cells (s_ps st)) 0) as [[e sz]|] eqn:EB.
        * right. exists sz. split; [|reflexivity].
          destruct HT as [(anc & _ & HC & _) [Hsk _]]. rewrite Hsk in HC. destruct HC as (K1 & K2 & _).
          destruct (first_big_spec _ _ _ _ K2 EB) as (b & c & a & EP & _ & Hsz & _).
          pose proof (Permutation_length K1) as HL. rewrite seq_length, EP, order_of_app, order_of_cons, !app_length in HL. lia.
        * left. exists (length (s_path st)). split; [lia|]. rewrite firstn_all. reflexivity. }
  apply nofuel_bind.
  { destruct w; [apply nofuel_ok|]. destruct (_ =? _); [apply nofuel_leaf_step|apply nofuel_ok]. }
  intros st1 E1. destruct (Hfirst st1 E1) as [HS1 Hrel].
  apply nofuel_bind; [apply nofuel_steploop; lia|].
  intros r Er. destruct r as [st2|p o gs]; [|apply nofuel_ok].
  pose proof (steploop_outline g n m TPstep TPj TPref (cb_ok g n root)
                (VCT_done g n root Xc) (VCT_jstart g n root Xc) (VCT_jexit g n root Xc)
                (VCT_jcont g n m root Xc Xc_V) (VCT_jstep g n m root Xc Xc_V) _ _ _ HS1 Er) as HR2. cbn in HR2.
  pose proof (steploop_path _ _ _ _ _ _ Er) as HD.
  apply nofuel_bind.
  { apply nofuel_refine_s. destruct HR2 as [(anc & _ & HC & _) _]. destruct HC as (_ & K2 & _). exact K2. }
  intros [w' ps'] Eref. cbn [fst snd].
  pose proof (VCT_refine g n m root Xc Xc_V _ _ _ HR2 Eref) as HT'.
  apply IH; [exact HT'|]. cbn [set_ps s_path].
  pose proof (path_valid _ (proj1 HT')) as [HLp2 HB2]. cbn [set_ps s_path] in HLp2, HB2.
  assert (mu (S n) n (s_path st2) < mu (S n) n (s_path st)); [|lia].
  destruct Hrel as [(keep & Hk & Ep1)|(sz & Hsz & Ep1)].
  - apply mu_dec; [exact HLp|]. rewrite Ep1 in HD. eapply pdec_firstn; eassumption.
  - rewrite Ep1 in HD. destruct HD as (i & j & Hi & Ep2 & Hj). rewrite app_length in Hi. simpl in Hi.
    destruct (Nat.eq_dec i (length (s_path st))) as [->|Hne].
    + rewrite firstn_app, Nat.sub_diag, firstn_all in Ep2. simpl in Ep2. rewrite app_nil_r in Ep2.
      rewrite app_nth2, Nat.sub_diag in Hj by lia. simpl in Hj.
      rewrite Ep2. apply mu_ext; [|lia]. rewrite Ep2, app_length in HLp2. simpl in HLp2. lia.
    + apply mu_dec; [exact HLp|]. exists i, j. split; [lia|]. split.
      * rewrite Ep2, firstn_app. replace (i - length (s_path st)) with 0 by lia. simpl. rewrite app_nil_r. reflexivity.
      * rewrite app_nth1 in Hj by lia. exact Hj.
Qed.

End MainTerm.

(* more fuel does not change a result that is not [Fuel] *)
Lemma main_loop_S : forall g n m f st w, main_loop g n m (S f) st w =
  bind (if w then Ok st else if length (p_cells (s_ps st)) =? n then leaf_step n m st else Ok (push_step st))
    (fun st1 => bind (steploop g n m (S (length (s_path st1))) st1)
      (fun r => match r with
                | Done p o gs => Ok (p, o, gs)
                | Stepped st2 => bind (refine_s g n m (s_cb st2) (s_fl st2) (s_ps st2))
                                   (fun w' => main_loop g n m f (set_ps st2 (snd w')) (fst w'))
                end)).
Proof. reflexivity. Qed.

Lemma main_loop_mono : forall g n m f st w, nofuel (main_loop g n m f st w) ->
  main_loop g n m (S f) st w = main_loop g n m f st w.
Proof.
  intros g n m. induction f as [|f IH]; intros st w H; [exfalso; apply H; reflexivity|].
  rewrite (main_loop_S g n m (S f)), (main_loop_S g n m f). rewrite (main_loop_S g n m f) in H.
  destruct (if w then Ok st else if length (p_cells (s_ps st)) =? n then leaf_step n m st else Ok (push_step st)) as [st1| |]; try reflexivity.
  cbn [bind] in *. destruct (steploop g n m (S (length (s_path st1))) st1) as [[st2|p o gs]| |]; try reflexivity.
  cbn [bind] in *. destruct (refine_s g n m (s_cb st2) (s_fl st2) (s_ps st2)) as [[w' ps']| |]; try reflexivity.
  cbn [bind fst snd] in *. apply IH. exact H.
Qed.

Lemma main_loop_mono_le : forall g n m f f' st w, f <= f' -> nofuel (main_loop g n m f st w) ->
  main_loop g n m f' st w = main_loop g n m f st w.
Proof.
  intros g n m f f' st w Hle H. induction Hle as [|f' Hle IH]; [reflexivity|].
  rewrite main_loop_mono; [exact IH|]. rewrite IH. exact H.
Qed.
