(* Canon/SearchReuseReset.v — the reused partition and sequences of calls.

   (1) The bins read off the arrays that CanonicalOrderedPartition.Reset leaves (array-level model
       Canon/AutResetModel.v, theorem [reset_spec] of Canon/AutReset.v: whatever the arrays held) are the
       bins [init_cells n cls] from which the search model starts.
   (2) Hence the whole reuse protocol "op.Reset(n, m, classes); CanonicalIsomorphAllocated(n, m, nbrs,
       op, storage, options)" on ANY old partition state and ANY storage contents of sufficient
       capacity returns what CanonicalIsomorphFull returns ([canon_alloc_reset_noninterference]).
   (3) The call leaves a storage of (at least) the same capacities, so the statement holds for every
       call of a sequence through one storage ([run_seq_fresh]). *)
From Coq Require Import List Arith Bool ZArith Lia Permutation.
From Mamba Require Import Canon.Perm Canon.Iso Canon.Model Disjoint.Model Canon.AutModel Canon.SearchModel
  Canon.SearchInit Canon.SearchCells Canon.SearchProofs Canon.SearchTotal Canon.SearchReuseModel Canon.SearchReuseCap Canon.SearchReuse.
From Mamba Require Canon.AutReset.
Import ListNotations.
Open Scope nat_scope.

Module R := Canon.AutReset.
Module RM := Canon.AutResetModel.

Lemma model_isort_length : forall l, length (Canon.Model.isort l) = length l.
Proof. intros l. apply Permutation_length. apply isort_perm. Qed.

(* ---------------------------------------------------------------- (1) the bins after Reset *)

Lemma cut_bins_concat : forall (cl : list (list nat)) start,
  cut_bins (concat (map Canon.Model.isort cl)) start
           (map (fun k => start + length (concat (firstn (S k) cl))) (seq 0 (length cl)))
  = map Canon.Model.isort cl.
Proof.
  induction cl as [|c r IH]; intros start; [reflexivity|].
  assert (E1 : concat (firstn 1 (c :: r)) = c) by (simpl; apply app_nil_r).
  cbn [length seq map concat cut_bins]. rewrite E1.
  replace (start + length c - start) with (length (Canon.Model.isort c)) by (rewrite model_isort_length; lia).
  rewrite firstn_app, Nat.sub_diag, firstn_all. cbn [firstn]. rewrite app_nil_r. f_equal.
  rewrite skipn_app, Nat.sub_diag, skipn_all. cbn [skipn app].
  rewrite <- seq_shift, map_map.
  etransitivity; [|apply (IH (start + length c))]. f_equal.
  apply map_ext. intros k. cbn [firstn concat]. rewrite app_length. lia.
Qed.

Lemma cut_bins_concat0 : forall (cl : list (list nat)),
  cut_bins (concat (map Canon.Model.isort cl)) 0
           (map (fun k => length (concat (firstn (S k) cl))) (seq 0 (length cl)))
  = map Canon.Model.isort cl.
Proof. intros cl. exact (cut_bins_concat cl 0). Qed.

Lemma existsb_seq : forall i k, i < k -> existsb (Nat.eqb i) (seq 0 k) = true.
Proof.
  intros i k H. apply existsb_exists. exists i. split; [apply in_seq; lia|apply Nat.eqb_refl].
Qed.

Lemma zip_cells_init : forall bins i k, i + length bins <= k ->
  zip_cells i bins (repeat 0 k) (seq 0 k) = map (fun b => (0%Z, (true, b))) bins.
Proof.
  induction bins as [|b bins IH]; intros i k H; [reflexivity|]. simpl in H. cbn [zip_cells map].
  rewrite (existsb_seq i k) by lia.
  replace (nth i (repeat 0 k) 0) with 0 by (symmetry; apply nth_repeat).
  f_equal. apply IH. lia.
Qed.

Lemma cells_of_state_spec : forall n cls op, 0 < n -> R.classes_ok n cls ->
  R.state_spec Canon.Model.isort n cls op -> cells_of_op op = init_cells n cls.
Proof.
  intros n cls op Hn Hok (_ & _ & _ & _ & _ & HS). unfold cells_of_op, init_cells. destruct cls as [cl|].
  - destruct HS as (-> & -> & -> & -> & _).
    rewrite (cut_bins_concat0 cl).
    rewrite zip_cells_init by (rewrite map_length; lia).
    unfold init_classes. rewrite !map_map. reflexivity.
  - destruct HS as (-> & -> & -> & -> & _). cbn [cut_bins zip_cells]. rewrite Nat.sub_0_r, firstn_all2 by (rewrite seq_length; lia).
    unfold init_part. destruct n; [lia|]. reflexivity.
Qed.

Lemma cls_ok_classes_ok : forall n cls, cls_ok n cls -> R.classes_ok n cls.
Proof.
  intros n [cl|] H; [|exact I]. destruct H as [HP HF]. split; [|split].
  - apply (Permutation_NoDup (Permutation_sym HP)), seq_NoDup.
  - intros v. split; intros Hv.
    + apply (Permutation_in _ HP) in Hv. apply in_seq in Hv. lia.
    + apply (Permutation_in _ (Permutation_sym HP)). apply in_seq. lia.
  - intros Hin. rewrite Forall_forall in HF. exact (HF [] Hin eq_refl).
Qed.

(* ---------------------------------------------------------------- (2) Reset, then the call *)

Theorem canon_alloc_reset_noninterference : forall (g : graph) cls fuel st op,
  simple g -> cls_ok (length g) cls ->
  storage_caps st (length g) (num_edges g) -> R.caps_ok op (length g) (num_edges g) ->
  res_map fst (canon_alloc_reset fuel st op g cls) = canon_search fuel g cls.
Proof.
  intros g cls fuel st op Hg Hc HS HO. unfold canon_alloc_reset.
  destruct (length g =? 0) eqn:En.
  - unfold canon_search. rewrite En. reflexivity.
  - apply Nat.eqb_neq in En.
    destruct (R.reset_spec Canon.Model.isort model_isort_length op (length g) (num_edges g) cls ltac:(lia) HO
                (cls_ok_classes_ok _ _ Hc)) as (op' & -> & Hspec).
    rewrite (cells_of_state_spec (length g) cls op' ltac:(lia) (cls_ok_classes_ok _ _ Hc) Hspec).
    exact (reuse_noninterference g cls Hg Hc fuel st HS).
Qed.

(* ---------------------------------------------------------------- (3) sequences through one storage *)

Lemma storage_caps_mono : forall st N M n m, storage_caps st N M -> n <= N -> m <= M -> storage_caps st n m.
Proof.
  intros st N M n m (C0 & C1 & C2 & C3 & C4 & C5 & C6 & C7 & C8 & C9 & C10 & C11 & C12 & C13 & C14 & C15) Hn Hm.
  unfold storage_caps. repeat split; lia.
Qed.

Lemma write_back_caps : forall st n f N M, storage_caps st N M -> storage_caps (write_back st n f) N M.
Proof.
  intros st n f N M (C0 & C1 & C2 & C3 & C4 & C5 & C6 & C7 & C8 & C9 & C10 & C11 & C12 & C13 & C14 & C15).
  unfold storage_caps, write_back.
  cbn [st_gens st_cb st_cbPath st_cbPerm st_cbInv st_cbOrb st_fl st_flInv st_flOrb st_flPath st_space st_dws st_nbs
       st_timesSeen st_maxCell st_numberOfMax].
  rewrite wb_gens_length.
  pose proof (wb_length _ (st_cb st) (s_cb f)). pose proof (wb_length _ (st_cbPath st) (s_cbPath f)).
  pose proof (wb_length _ (st_cbPerm st) (s_cbPerm f)). pose proof (wb_length _ (st_cbInv st) (s_cbInv f)).
  pose proof (wb_length _ (st_cbOrb st) (s_cbOrb f)). pose proof (wb_length _ (st_fl st) (s_fl f)).
  pose proof (wb_length _ (st_flInv st) (s_flInv f)). pose proof (wb_length _ (st_flOrb st) (s_flOrb f)).
  pose proof (wb_length _ (st_flPath st) (s_flPath f)).
  repeat split; lia.
Qed.

(* whatever the call returns, the storage keeps its capacities (the slice headers of the struct are
   never reassigned) *)
Lemma canon_alloc_cells_caps : forall fuel st g cs r st' N M, storage_caps st N M ->
  canon_alloc_cells fuel st g cs = Ok (r, st') -> storage_caps st' N M.
Proof.
  intros fuel st g cs r st' N M HC H. unfold canon_alloc_cells in H.
  destruct (length g =? 0); [inversion H; subst; exact HC|].
  destruct (num_edges g =? 0).
  - destruct (reslice (st_cbPerm st) (length g)) as [perm|]; [|discriminate].
    destruct (reslice (st_flOrb st) (length g)) as [ds|]; [|discriminate]. cbn [of_opt bind] in H.
    destruct (length (st_gens st) <? length (edgeless_gens (length g) (map cverts cs))); [discriminate|].
    inversion H; subst. clear H.
    destruct HC as (C0 & C1 & C2 & C3 & C4 & C5 & C6 & C7 & C8 & C9 & C10 & C11 & C12 & C13 & C14 & C15).
    unfold storage_caps.
    cbn [st_gens st_cb st_cbPath st_cbPerm st_cbInv st_cbOrb st_fl st_flInv st_flOrb st_flPath st_space st_dws st_nbs
         st_timesSeen st_maxCell st_numberOfMax].
    rewrite wb_gens_length.
    match goal with |- context [wb (st_cbPerm st) ?x] => pose proof (wb_length _ (st_cbPerm st) x) end.
    match goal with |- context [wb (st_flOrb st) ?x] => pose proof (wb_length _ (st_flOrb st) x) end.
    repeat split; lia.
  - destruct (alloc_state st (length g) (num_edges g) (mkP cs 0%Z [] 0)) as [s0|]; [|discriminate]. cbn [of_opt bind] in H.
    destruct (expand_value_r g (length g) (st_cb st) (st_fl st) cs [] (s_fl s0) [] 0) as [|v s|v s]; [discriminate| |].
    + destruct (refine_s_r g (length g) (st_cb st) (st_fl st) [] (s_fl s0) (mkP cs 0%Z v s)) as [w| |]; try discriminate.
      cbn [bind] in H.
      destruct (main_loop_r g (length g) (num_edges g) (st_cb st) (st_fl st) (length (st_gens st)) fuel (set_ps s0 (snd w)) (fst w))
        as [f| |]; try discriminate.
      cbn [bind] in H. inversion H; subst. apply write_back_caps. exact HC.
    + destruct (refine_s_r g (length g) (st_cb st) (st_fl st) [] (s_fl s0) (mkP cs 0%Z v s)) as [w| |]; try discriminate.
      cbn [bind] in H.
      destruct (main_loop_r g (length g) (num_edges g) (st_cb st) (st_fl st) (length (st_gens st)) fuel (set_ps s0 (snd w)) (fst w))
        as [f| |]; try discriminate.
      cbn [bind] in H. inversion H; subst. apply write_back_caps. exact HC.
Qed.

Lemma canon_alloc_reset_caps : forall fuel st op g cls r st' N M, storage_caps st N M ->
  canon_alloc_reset fuel st op g cls = Ok (r, st') -> storage_caps st' N M.
Proof.
  intros fuel st op g cls r st' N M HC H. unfold canon_alloc_reset in H.
  destruct (length g =? 0); [inversion H; subst; exact HC|].
  destruct (RM.reset Canon.Model.isort op (length g) (num_edges g) cls) as [op'|]; [|discriminate].
  eapply canon_alloc_cells_caps; eassumption.
Qed.

(* an item of a sequence: the graph is simple, its classes admissible, it fits the capacities N, M,
   and the partition handed to Reset (in whatever state) is large enough *)
Definition item_ok (N M : nat) (it : RM.opst * (graph * option (list (list nat)))) : Prop :=
  let '(op, (g, cls)) := it in
  simple g /\ cls_ok (length g) cls /\ length g <= N /\ num_edges g <= M /\
  R.caps_ok op (length g) (num_edges g).

(* every call of the sequence returns what a fresh call returns (with fuel enough for each graph, so that no
   run of the model stops for lack of fuel) *)
Theorem run_seq_fresh : forall fuel N M items st, storage_caps st N M -> Forall (item_ok N M) items ->
  (forall it, In it items -> search_fuel (length (fst (snd it))) <= fuel) ->
  run_seq fuel st items = map (fun it => canon_search fuel (fst (snd it)) (snd (snd it))) items.
Proof.
  intros fuel N M. induction items as [|[op [g cls]] items IH]; intros st HC HF HR; [reflexivity|].
  inversion HF as [|x l HI HF']; subst. unfold item_ok in HI. destruct HI as (Hg & Hc & HN & HM & HO).
  pose proof (canon_alloc_reset_noninterference g cls fuel st op Hg Hc (storage_caps_mono st N M _ _ HC HN HM) HO) as HE.
  destruct (canon_search_returns g cls Hg Hc fuel (HR (op, (g, cls)) (or_introl eq_refl))) as (r & Hr).
  cbn [run_seq map fst snd]. rewrite Hr in HE.
  destruct (canon_alloc_reset fuel st op g cls) as [[r' st']| |] eqn:EA; simpl in HE; try discriminate.
  inversion HE; subst r'. rewrite Hr. f_equal.
  apply IH; [eapply canon_alloc_reset_caps; eassumption|exact HF'|].
  intros it Hin. apply HR. right. exact Hin.
Qed.

(* ---------------------------------------------------------------- fresh storage, enough fuel, aliasing *)

Lemma new_storage_caps : forall n m, storage_caps (new_storage n m) n m.
Proof.
  intros n m. unfold storage_caps, new_storage, new.
  cbn [st_gens st_cb st_cbPath st_cbPerm st_cbInv st_cbOrb st_fl st_flInv st_flOrb st_flPath st_space st_dws st_nbs
       st_timesSeen st_maxCell st_numberOfMax].
  rewrite !repeat_length. repeat split; lia.
Qed.

(* with fuel enough for the graph the call on the reused storage returns, with the result of the fresh call,
   and leaves a storage of the same capacities *)
Theorem canon_alloc_reset_returns : forall (g : graph) cls fuel st op N M,
  simple g -> cls_ok (length g) cls -> storage_caps st N M -> length g <= N -> num_edges g <= M ->
  R.caps_ok op (length g) (num_edges g) -> search_fuel (length g) <= fuel ->
  exists r st', canon_alloc_reset fuel st op g cls = Ok (r, st') /\ canon_search fuel g cls = Ok r /\
    storage_caps st' N M.
Proof.
  intros g cls fuel st op N M Hg Hc HS HN HM HO Hf.
  pose proof (canon_alloc_reset_noninterference g cls fuel st op Hg Hc (storage_caps_mono st N M _ _ HS HN HM) HO) as HE.
  destruct (canon_search_returns g cls Hg Hc fuel Hf) as (r & Hr). rewrite Hr in HE.
  destruct (canon_alloc_reset fuel st op g cls) as [[r' st']| |] eqn:EA; simpl in HE; try discriminate.
  inversion HE; subst r'. exists r, st'. split; [reflexivity|]. split; [exact Hr|].
  eapply canon_alloc_reset_caps; eassumption.
Qed.

Lemma wb_firstn : forall (A : Type) (back live : list A), firstn (length live) (wb back live) = live.
Proof.
  intros A back live. unfold wb. rewrite firstn_app, Nat.sub_diag, firstn_all. cbn [firstn]. apply app_nil_r.
Qed.

(* the returned permutation and orbit array ARE the first cells of storage.currentBestPerm and
   storage.firstLeafOrbits (the function returns slices of the storage): the next call on the same storage
   overwrites them *)
Lemma canon_alloc_cells_alias : forall fuel st g cs p o gs st',
  canon_alloc_cells fuel st g cs = Ok ((p, o, gs), st') ->
  firstn (length p) (st_cbPerm st') = p /\ firstn (length o) (st_flOrb st') = o.
Proof.
  intros fuel st g cs p o gs st' H. unfold canon_alloc_cells in H.
  destruct (length g =? 0); [inversion H; subst; split; reflexivity|].
  destruct (num_edges g =? 0).
  - destruct (reslice (st_cbPerm st) (length g)) as [perm|]; [|discriminate].
    destruct (reslice (st_flOrb st) (length g)) as [ds|]; [|discriminate]. cbn [of_opt bind] in H.
    destruct (length (st_gens st) <? length (edgeless_gens (length g) (map cverts cs))); [discriminate|].
    inversion H; subst. cbn [st_cbPerm st_flOrb]. split; apply wb_firstn.
  - destruct (alloc_state st (length g) (num_edges g) (mkP cs 0%Z [] 0)) as [s0|]; [|discriminate]. cbn [of_opt bind] in H.
    destruct (expand_value_r g (length g) (st_cb st) (st_fl st) cs [] (s_fl s0) [] 0) as [|v s|v s]; [discriminate| |];
      (destruct (refine_s_r g (length g) (st_cb st) (st_fl st) [] (s_fl s0) (mkP cs 0%Z v s)) as [w| |]; try discriminate;
       cbn [bind] in H;
       destruct (main_loop_r g (length g) (num_edges g) (st_cb st) (st_fl st) (length (st_gens st)) fuel (set_ps s0 (snd w)) (fst w))
         as [f| |]; try discriminate;
       cbn [bind] in H; inversion H; subst; unfold write_back; cbn [st_cbPerm st_flOrb]; split; apply wb_firstn).
Qed.
