(* Canon/SearchLink.v — a refinement that is cut off stops at an intermediate state of the refinement of
   Canon/Model.v: the complete refinement refines that state in place, and op.value is exactly the
   entries of its singleton prefix up to the position where it lost. *)
From Coq Require Import List Arith Bool ZArith Lia Permutation Sorted.
From Mamba Require Import Canon.Perm Canon.Iso Canon.Model Canon.Refine Canon.Sorted Canon.Tree Canon.Fuel
  Disjoint.Model Canon.SearchModel Canon.SearchCells Canon.SearchTarget Canon.SearchDeage Canon.SearchRefine
  Canon.SearchValue Canon.SearchExpand Canon.SearchCert Canon.SearchOrder Canon.SearchEquiv Canon.SearchWalk.
Import ListNotations.
Open Scope nat_scope.

Section Link.
Variable g : graph.
Variables n m : nat.

Notation good := (good g n).
Notation clean := (clean g n).

Lemma split_singles : forall w (l : list acell), Forall single l -> flat_map (split_cell g w) (erase l) = erase l.
Proof.
  intros w l H. induction H as [|c l [x Hx] _ IH]; [reflexivity|]. simpl. rewrite IH.
  unfold split_cell. change (snd (snd c)) with (cverts c). rewrite Hx. reflexivity.
Qed.

Lemma round_loop_cut : forall cb fl w age pre_rev post value spl ps',
  nonempty (rev pre_rev ++ post) -> length (order_of (rev pre_rev ++ post)) = n ->
  clean (rev pre_rev ++ post) value spl ->
  round_loop g n m cb fl w age pre_rev post value spl = RrWorse ps' ->
  (exists j', j' < n /\ p_value ps' = good (p_cells ps') (S j') /\ prefix_single (p_cells ps') (S j') /\
      S j' <= length (p_cells ps') /\ cmp_list (p_value ps') (firstn (length (p_value ps')) cb) = Lt) /\
  erase (p_cells ps') = flat_map (split_cell g w) (erase (rev pre_rev)) ++ erase post.
Proof.
  intros cb fl w age. induction pre_rev as [|c pre IH]; intros post value spl ps' HN HO HC H; simpl in H; [discriminate|].
  simpl in HN, HO, HC. rewrite <- app_assoc in HN, HO, HC. simpl in HN, HO, HC.
  destruct (uniform g w (cverts c)) eqn:HU.
  - destruct (IH _ _ _ _ HN HO HC H) as (I1 & I2). split; [exact I1|].
    rewrite I2. simpl. rewrite erase_app, flat_map_app. simpl. rewrite (split_cell_uniform _ _ _ HU), <- app_assoc. reflexivity.
  - set (wa := with_ages age (cage c) (fragments g w (cverts c))) in *.
    assert (HVc : V age (rev pre ++ c :: post) (rev pre ++ wa ++ post)).
    { apply V_app; [apply V_refl|]. apply (V_app age [c] wa post post); [|apply V_refl]. apply V_one, with_ages_vrep. exact HU. }
    assert (HN' : nonempty (rev pre ++ wa ++ post)) by (eapply V_nonempty; eassumption).
    assert (HO' : length (order_of (rev pre ++ wa ++ post)) = n) by (rewrite (Permutation_length (V_order _ _ _ HVc)); exact HO).
    destruct HC as (Hv & HP & Hs).
    assert (Hc : nth_error (rev pre ++ c :: post) (length pre) = Some c).
    { rewrite <- (rev_length pre). apply nth_error_app_exact. }
    assert (Hle : spl <= length pre).
    { destruct (Nat.lt_ge_cases (length pre) spl) as [Hlt|]; [|assumption]. exfalso.
      apply (nonuniform_not_single g _ _ HU). apply single_length. apply (HP _ _ Hlt Hc). }
    assert (HG : good (rev pre ++ wa ++ post) spl = good (rev pre ++ c :: post) spl)
      by (apply good_app_prefix; rewrite rev_length; exact Hle).
    assert (HP' : prefix_single (rev pre ++ wa ++ post) spl)
      by (eapply prefix_single_app; [rewrite rev_length; exact Hle|exact HP]).
    assert (Erase : erase (rev pre ++ wa ++ post) =
                    flat_map (split_cell g w) (erase (rev pre)) ++ flat_map (split_cell g w) (erase [c]) ++ erase post ->
                    erase (rev pre ++ wa ++ post) = flat_map (split_cell g w) (erase (rev (c :: pre))) ++ erase post).
    { intros E. rewrite E. change (rev (c :: pre)) with (rev pre ++ [c]). rewrite erase_app, flat_map_app, <- app_assoc. reflexivity. }
    destruct (length pre =? spl) eqn:EJ.
    + apply Nat.eqb_eq in EJ.
      assert (Hsl : spl <= length (rev pre ++ wa ++ post)) by (rewrite app_length, rev_length; lia).
      assert (Hsn : spl <= n) by (rewrite <- HO'; pose proof (nonempty_length _ HN'); lia).
      unfold expand_value in H.
      destruct (expand_loop (n - spl) g (rev pre ++ wa ++ post) n m cb fl value spl) as [|v' s'|v' s'] eqn:EE; [discriminate| |].
      * inversion H; subst ps'. cbn [p_cells p_value].
        destruct (expand_loop_worse g n m _ cb fl HN' HO' (n - spl) spl value v' s' ltac:(lia) Hsl HP' ltac:(rewrite HG; exact Hv) EE)
          as (j' & A & B & C & D & E & _ & (_ & HLt & _)).
        split; [exists j'; repeat split; assumption|].
        apply Erase. rewrite !erase_app. f_equal.
        -- symmetry. apply split_singles. apply Forall_forall. intros d Hd. apply In_nth_error in Hd. destruct Hd as (k & Hk).
           assert (k < length (rev pre)) by (apply nth_error_Some; rewrite Hk; discriminate). rewrite rev_length in H0.
           apply (HP k d); [lia|]. rewrite nth_error_app1 by (rewrite rev_length; lia). exact Hk.
        -- f_equal. simpl. rewrite app_nil_r. unfold wa. rewrite (split_acell_erase _ _ _ _ HU). reflexivity.
      * pose proof (expand_loop_spec g n m _ cb fl HN' HO' (n - spl) spl value ltac:(lia) Hsl HP' ltac:(rewrite HG; exact Hv)) as HE.
        rewrite EE in HE. destruct HE as [HE1 _].
        destruct (IH _ _ _ _ HN' HO' HE1 H) as (I1 & I2). split; [exact I1|].
        rewrite I2. simpl. rewrite !erase_app, flat_map_app. simpl. rewrite app_nil_r.
        unfold wa. rewrite (split_acell_erase _ _ _ _ HU), <- !app_assoc. reflexivity.
    + apply Nat.eqb_neq in EJ.
      assert (HC' : clean (rev pre ++ wa ++ post) value spl).
      { split; [rewrite HG; exact Hv|]. split; [exact HP'|]. rewrite Hs. symmetry. apply fns_app_lt. rewrite rev_length. lia. }
      destruct (IH _ _ _ _ HN' HO' HC' H) as (I1 & I2). split; [exact I1|].
      rewrite I2. simpl. rewrite !erase_app, flat_map_app. simpl. rewrite app_nil_r.
      unfold wa. rewrite (split_acell_erase _ _ _ _ HU), <- !app_assoc. reflexivity.
Qed.

(* the refinement as a whole *)
Lemma refine_loop_cut : forall cb fl k ps ps', nonempty (p_cells ps) -> length (order_of (p_cells ps)) = n ->
  clean (p_cells ps) (p_value ps) (p_spl ps) ->
  refine_loop k g n m cb fl ps = Ok (true, ps') ->
  (exists j', j' < n /\ p_value ps' = good (p_cells ps') (S j') /\ prefix_single (p_cells ps') (S j') /\
      S j' <= length (p_cells ps') /\ cmp_list (p_value ps') (firstn (length (p_value ps')) cb) = Lt) /\
  (forall Q, refine_fuel k g (erase (p_cells ps)) = Some Q -> exists k', refine_fuel k' g (erase (p_cells ps')) = Some Q).
Proof.
  intros cb fl. induction k as [|k IH]; intros ps ps' HN HO HC H; simpl in H.
  - destruct (pick_a (p_cells ps)) as [[P' w0]|]; discriminate.
  - pose proof (pick_a_erase (p_cells ps)) as HPk.
    destruct (pick_a (p_cells ps)) as [[P' w0]|] eqn:EP; [|discriminate].
    pose proof (pick_a_same _ _ _ EP) as HS.
    assert (HN' : nonempty P') by (eapply same_nonempty; eassumption).
    assert (HO' : length (order_of P') = n) by (rewrite <- (same_order _ _ HS); exact HO).
    assert (HC' : clean P' (p_value ps) (p_spl ps)) by (eapply clean_same; eassumption).
    destruct (round_loop g n m cb fl w0 (p_age ps) (rev P') [] (p_value ps) (p_spl ps)) as [|ps1|ps1] eqn:ER; [discriminate| |].
    + inversion H; subst ps1.
      destruct (round_loop_cut cb fl w0 (p_age ps) (rev P') [] (p_value ps) (p_spl ps) ps'
                  ltac:(rewrite rev_involutive, app_nil_r; exact HN') ltac:(rewrite rev_involutive, app_nil_r; exact HO')
                  ltac:(rewrite rev_involutive, app_nil_r; exact HC') ER) as (I1 & I2).
      split; [exact I1|]. intros Q HQ. simpl in HQ. rewrite HPk in HQ.
      rewrite rev_involutive, app_nil_r in I2. rewrite <- I2 in HQ. exists k. exact HQ.
    + pose proof (round_loop_V g n m cb fl w0 (p_age ps) (rev P') [] (p_value ps) (p_spl ps)) as HR.
      rewrite rev_involutive, app_nil_r in HR. specialize (HR HN' HO' HC'). rewrite ER in HR. destruct HR as [HR1 _].
      destruct (round_loop_spec g n m cb fl w0 (p_age ps) (rev P') [] (p_value ps) (p_spl ps) false ps1)
        as (mid & HV & HCs & _ & HE); [rewrite ER; reflexivity|].
      rewrite app_nil_r in HCs. rewrite rev_involutive in HV, HE. subst mid.
      assert (HN1 : nonempty (p_cells ps1)) by (eapply V_nonempty; eassumption).
      assert (HO1 : length (order_of (p_cells ps1)) = n) by (rewrite (Permutation_length (V_order _ _ _ HV)); exact HO').
      destruct (IH _ _ HN1 HO1 HR1 H) as (I1 & I2). split; [exact I1|].
      intros Q HQ. simpl in HQ. rewrite HPk in HQ. rewrite <- (HE eq_refl) in HQ. apply I2. exact HQ.
Qed.

End Link.
