(* Canon/Refine.v — facts about the model of the equitable refinement (Canon/Model.v):
   1. refinement only permutes the vertices ([refine_verts]);
   2. refinement is equivariant ([refine_sim]): if f maps the vertices of (g,P) to those of
      (g',P') preserving adjacency, and P' is cell by cell (same flags) the image of P up to the
      order inside the cells, then the same holds after refinement. *)
From Coq Require Import List Arith Lia Permutation Bool.
From Mamba Require Import Canon.Perm Canon.Iso Canon.Model.
Import ListNotations.

(* ------------------------------------------------------------------ list helpers *)

Lemma filter_perm : forall (A : Type) (p : A -> bool) (l l' : list A),
  Permutation l l' -> Permutation (filter p l) (filter p l').
Proof.
  intros A p l l' H. induction H; simpl.
  - constructor.
  - destruct (p x); auto.
  - destruct (p x), (p y); auto. apply perm_swap.
  - eapply Permutation_trans; eauto.
Qed.

Lemma filter_map_comm : forall (A B : Type) (f : A -> B) (p : B -> bool) (l : list A),
  filter p (map f l) = map f (filter (fun x => p (f x)) l).
Proof.
  induction l as [|x r IH]; simpl; [reflexivity|]. destruct (p (f x)); simpl; rewrite IH; reflexivity.
Qed.

Lemma map_flat_map : forall (A B C : Type) (h : B -> C) (F : A -> list B) (l : list A),
  map h (flat_map F l) = flat_map (fun x => map h (F x)) l.
Proof. induction l as [|x r IH]; simpl; [reflexivity|]. rewrite map_app, IH. reflexivity. Qed.

Lemma flat_map_map : forall (A B C : Type) (f : A -> B) (F : B -> list C) (l : list A),
  flat_map F (map f l) = flat_map (fun x => F (f x)) l.
Proof. induction l as [|x r IH]; simpl; [reflexivity|]. rewrite IH. reflexivity. Qed.

Lemma flat_map_perm_pointwise : forall (A B : Type) (F F' : A -> list B) (l : list A),
  (forall x, In x l -> Permutation (F x) (F' x)) -> Permutation (flat_map F l) (flat_map F' l).
Proof.
  induction l as [|x r IH]; simpl; intros H; [constructor|].
  apply Permutation_app; [apply H; auto|apply IH; intros; apply H; auto].
Qed.

Lemma flat_map_nil : forall (A B : Type) (l : list A), flat_map (fun _ => @nil B) l = [].
Proof. induction l; simpl; auto. Qed.

Lemma Forall2_len : forall (A B : Type) (R : A -> B -> Prop) l l', Forall2 R l l' -> length l = length l'.
Proof. intros A B R l l' H. induction H; simpl; auto. Qed.

Lemma Forall2_flat_map : forall (A B C D : Type) (R : A -> B -> Prop) (S : C -> D -> Prop)
  (F : A -> list C) (F' : B -> list D) l l',
  Forall2 R l l' -> (forall a b, In a l -> R a b -> Forall2 S (F a) (F' b)) ->
  Forall2 S (flat_map F l) (flat_map F' l').
Proof.
  intros A B C D R S F F' l l' H. induction H; intros HF; simpl; [constructor|].
  apply Forall2_app; [apply HF; simpl; auto|]. apply IHForall2. intros a b Ha. apply HF. simpl. auto.
Qed.

Lemma Forall2_flat_map_same : forall (A C D : Type) (S : C -> D -> Prop)
  (F : A -> list C) (F' : A -> list D) l,
  (forall a, Forall2 S (F a) (F' a)) -> Forall2 S (flat_map F l) (flat_map F' l).
Proof. induction l as [|x r IH]; simpl; intros H; [constructor|]. apply Forall2_app; auto. Qed.

Lemma flat_map_ext_in' : forall (A B : Type) (F F' : A -> list B) (l : list A),
  (forall x, In x l -> F x = F' x) -> flat_map F l = flat_map F' l.
Proof.
  induction l as [|x r IH]; simpl; intros H; [reflexivity|].
  rewrite H by auto. rewrite IH; [reflexivity|]. intros; apply H; auto.
Qed.

(* bucket sort is a permutation *)
Lemma flat_map_insert : forall (F : nat -> list nat) (x k0 : nat) (ks : list nat),
  NoDup ks -> In k0 ks ->
  Permutation (flat_map (fun k => if k0 =? k then x :: F k else F k) ks) (x :: flat_map F ks).
Proof.
  induction ks as [|k ks IH]; simpl; intros Hnd Hin; [contradiction|].
  inversion Hnd; subst. destruct (k0 =? k) eqn:E.
  - apply Nat.eqb_eq in E. subst k. simpl. constructor. apply Permutation_app_head.
    assert (Hx : flat_map (fun k => if k0 =? k then x :: F k else F k) ks = flat_map F ks).
    { apply flat_map_ext_in'. intros k Hk. destruct (k0 =? k) eqn:E; [|reflexivity].
      apply Nat.eqb_eq in E. subst k. contradiction. }
    rewrite Hx. apply Permutation_refl.
  - apply Nat.eqb_neq in E. destruct Hin as [Hin|Hin]; [congruence|].
    eapply Permutation_trans; [apply Permutation_app_head; apply IH; assumption|].
    apply Permutation_sym, Permutation_middle.
Qed.

Lemma bucket_perm : forall (f : nat -> nat) (c ks : list nat),
  NoDup ks -> (forall v, In v c -> In (f v) ks) ->
  Permutation (flat_map (fun k => filter (fun v => f v =? k) c) ks) c.
Proof.
  induction c as [|x r IH]; intros ks Hnd Hin; simpl.
  - rewrite flat_map_nil. constructor.
  - eapply Permutation_trans.
    + apply (flat_map_insert (fun k => filter (fun v => f v =? k) r) x (f x) ks Hnd).
      apply Hin. simpl. auto.
    + constructor. apply IH; auto. intros v Hv. apply Hin. simpl. auto.
Qed.

(* ------------------------------------------------------------------ verts *)

Lemma verts_cons : forall c P, verts (c :: P) = snd c ++ verts P.
Proof. reflexivity. Qed.

Lemma verts_app : forall P Q, verts (P ++ Q) = verts P ++ verts Q.
Proof. intros. unfold verts. rewrite map_app, concat_app. reflexivity. Qed.

Lemma verts_flat_map : forall (A : Type) (F : A -> part) (l : list A),
  verts (flat_map F l) = flat_map (fun x => verts (F x)) l.
Proof. induction l as [|x r IH]; simpl; [reflexivity|]. rewrite verts_app, IH. reflexivity. Qed.

Lemma filter_len_le : forall (A : Type) (p : A -> bool) (l : list A), length (filter p l) <= length l.
Proof. induction l as [|x r IH]; simpl; [lia|]. destruct (p x); simpl; lia. Qed.

Lemma cnt_le : forall g w v, cnt g w v <= length w.
Proof. intros. unfold cnt. apply filter_len_le. Qed.

Lemma verts_fragment : forall g w c k,
  verts (fragment g w c k) = filter (fun v => cnt g w v =? k) c.
Proof.
  intros. unfold fragment. destruct (filter _ c) eqn:E; [reflexivity|].
  unfold verts. simpl. rewrite app_nil_r. reflexivity.
Qed.

Lemma fragments_verts : forall g w c, Permutation (verts (fragments g w c)) c.
Proof.
  intros g w c. unfold fragments. rewrite verts_flat_map.
  rewrite (flat_map_ext_in' _ _ _ (fun k => filter (fun v => cnt g w v =? k) c))
    by (intros; apply verts_fragment).
  apply bucket_perm; [apply seq_NoDup|]. intros v _. apply in_seq.
  pose proof (cnt_le g w v). lia.
Qed.

Lemma split_cell_verts : forall g w c, Permutation (verts (split_cell g w c)) (snd c).
Proof.
  intros g w c. unfold split_cell. destruct (uniform g w (snd c)).
  - unfold verts. simpl. rewrite app_nil_r. apply Permutation_refl.
  - apply fragments_verts.
Qed.

Lemma step_verts : forall g w P, Permutation (verts (flat_map (split_cell g w) P)) (verts P).
Proof.
  intros g w P. induction P as [|c r IH]; simpl; [constructor|].
  rewrite verts_app, verts_cons. apply Permutation_app; [apply split_cell_verts|exact IH].
Qed.

Lemma pick_verts : forall P P' w, pick P = Some (P', w) -> verts P' = verts P.
Proof.
  induction P as [|c r IH]; simpl; intros P' w H; [discriminate|].
  destruct (pick r) as [[r' w']|] eqn:E.
  - inversion H; subst. rewrite !verts_cons. f_equal. eapply IH. reflexivity.
  - destruct (fst c); [|discriminate]. inversion H; subst. reflexivity.
Qed.

Lemma pick_length : forall P P' w, pick P = Some (P', w) -> length P' = length P.
Proof.
  induction P as [|c r IH]; simpl; intros P' w H; [discriminate|].
  destruct (pick r) as [[r' w']|] eqn:E.
  - inversion H; subst. simpl. f_equal. eapply IH. reflexivity.
  - destruct (fst c); [|discriminate]. inversion H; subst. reflexivity.
Qed.

Lemma pick_incl : forall P P' w, pick P = Some (P', w) -> incl w (verts P).
Proof.
  induction P as [|c r IH]; simpl; intros P' w H; [discriminate|].
  destruct (pick r) as [[r' w']|] eqn:E.
  - inversion H; subst. rewrite verts_cons. apply incl_appr. eapply IH. reflexivity.
  - destruct (fst c); [|discriminate]. inversion H; subst. rewrite verts_cons. apply incl_appl, incl_refl.
Qed.

(* refinement only permutes [order] *)
Lemma refine_fuel_verts : forall k g P Q, refine_fuel k g P = Some Q -> Permutation (verts Q) (verts P).
Proof.
  induction k as [|k IH]; intros g P Q H; simpl in H.
  - destruct (pick P) as [[P' w]|]; [discriminate|]. inversion H. apply Permutation_refl.
  - destruct (pick P) as [[P' w]|] eqn:E.
    + apply IH in H. eapply Permutation_trans; [exact H|].
      rewrite <- (pick_verts _ _ _ E). apply step_verts.
    + inversion H. apply Permutation_refl.
Qed.

Lemma refine_verts : forall g P Q, refine g P = Some Q -> Permutation (verts Q) (verts P).
Proof. intros g P Q H. eapply refine_fuel_verts. exact H. Qed.

(* after refinement binsToCheck is empty *)
Lemma refine_fuel_drained : forall k g P Q, refine_fuel k g P = Some Q -> pick Q = None.
Proof.
  induction k as [|k IH]; intros g P Q H; simpl in H.
  - destruct (pick P) as [[P' w]|] eqn:E; [discriminate|]. inversion H; subst. exact E.
  - destruct (pick P) as [[P' w]|] eqn:E.
    + eapply IH. exact H.
    + inversion H; subst. exact E.
Qed.

(* ------------------------------------------------------------------ equivariance *)

Definition csim (f : nat -> nat) (c c' : cell) : Prop :=
  fst c = fst c' /\ Permutation (map f (snd c)) (snd c').
Definition sim (f : nat -> nat) (P P' : part) : Prop := Forall2 (csim f) P P'.

Definition orel (A B : Type) (R : A -> B -> Prop) (x : option A) (y : option B) : Prop :=
  match x, y with
  | None, None => True
  | Some a, Some b => R a b
  | _, _ => False
  end.
Arguments orel {A B} R x y.

Lemma sim_verts : forall f P P', sim f P P' -> Permutation (map f (verts P)) (verts P').
Proof.
  intros f P P' H. induction H as [|c c' P P' [_ Hc] _ IH]; simpl; [constructor|].
  rewrite !verts_cons, map_app. apply Permutation_app; assumption.
Qed.

Lemma sim_verts_length : forall f P P', sim f P P' -> length (verts P') = length (verts P).
Proof.
  intros f P P' H. rewrite <- (Permutation_length (sim_verts _ _ _ H)), map_length. reflexivity.
Qed.

Section Equivariance.
  Variable f : nat -> nat.
  Variables g g' : graph.
  Variable V : list nat.
  Hypothesis compat : forall u v, In u V -> In v V -> adjb g' (f u) (f v) = adjb g u v.

  Lemma cnt_sim : forall w w' v, incl w V -> In v V -> Permutation (map f w) w' ->
    cnt g' w' (f v) = cnt g w v.
  Proof.
    intros w w' v Hw Hv Hp. unfold cnt.
    rewrite <- (Permutation_length (filter_perm _ (fun u => adjb g' u (f v)) _ _ Hp)).
    rewrite filter_map_comm, map_length. f_equal.
    apply filter_ext_in. intros u Hu. apply compat; auto.
  Qed.

  Lemma filter_sim : forall (p p' : nat -> bool) c c',
    Permutation (map f c) c' -> (forall v, In v c -> p' (f v) = p v) ->
    Permutation (map f (filter p c)) (filter p' c').
  Proof.
    intros p p' c c' Hp Hpp.
    eapply Permutation_trans; [|apply filter_perm; exact Hp].
    rewrite filter_map_comm.
    rewrite (filter_ext_in (fun x => p' (f x)) p c) by exact Hpp. apply Permutation_refl.
  Qed.

  Lemma uniform_spec : forall h w c,
    uniform h w c = true <-> (forall u v, In u c -> In v c -> cnt h w u = cnt h w v).
  Proof.
    intros h w c. destruct c as [|x r]; simpl.
    - split; [intros _ u v []|reflexivity].
    - rewrite forallb_forall. split.
      + intros H u v Hu Hv.
        assert (E : forall z, x = z \/ In z r -> cnt h w z = cnt h w x).
        { intros z [Hz|Hz]; [subst; reflexivity|]. apply Nat.eqb_eq. apply H. exact Hz. }
        rewrite (E u Hu), (E v Hv). reflexivity.
      + intros H v Hv. apply Nat.eqb_eq. apply H; auto.
  Qed.

  Lemma uniform_sim : forall w w' c c', incl w V -> incl c V ->
    Permutation (map f w) w' -> Permutation (map f c) c' ->
    uniform g' w' c' = uniform g w c.
  Proof.
    intros w w' c c' Hw Hc Hpw Hpc. apply eq_iff_eq_true. rewrite !uniform_spec. split.
    - intros H u v Hu Hv.
      rewrite <- (cnt_sim w w' u Hw (Hc u Hu) Hpw), <- (cnt_sim w w' v Hw (Hc v Hv) Hpw).
      apply H; apply (Permutation_in _ Hpc); apply in_map; assumption.
    - intros H u' v' Hu' Hv'.
      apply (Permutation_in _ (Permutation_sym Hpc)) in Hu'.
      apply (Permutation_in _ (Permutation_sym Hpc)) in Hv'.
      apply in_map_iff in Hu'. destruct Hu' as [u [Eu Hu]].
      apply in_map_iff in Hv'. destruct Hv' as [v [Ev Hv]]. subst u' v'.
      rewrite (cnt_sim w w' u Hw (Hc u Hu) Hpw), (cnt_sim w w' v Hw (Hc v Hv) Hpw).
      apply H; assumption.
  Qed.

  Lemma fragment_sim : forall w w' c c' k, incl w V -> incl c V ->
    Permutation (map f w) w' -> Permutation (map f c) c' ->
    Forall2 (csim f) (fragment g w c k) (fragment g' w' c' k).
  Proof.
    intros w w' c c' k Hw Hc Hpw Hpc. unfold fragment.
    assert (HF : Permutation (map f (filter (fun v => cnt g w v =? k) c))
                             (filter (fun v => cnt g' w' v =? k) c')).
    { apply filter_sim; [exact Hpc|]. intros v Hv. rewrite (cnt_sim w w' v Hw (Hc v Hv) Hpw). reflexivity. }
    destruct (filter (fun v => cnt g w v =? k) c) as [|x r] eqn:E1;
    destruct (filter (fun v => cnt g' w' v =? k) c') as [|x' r'] eqn:E2.
    - constructor.
    - apply Permutation_length in HF. discriminate.
    - apply Permutation_length in HF. discriminate.
    - constructor; [|constructor]. split; [reflexivity|exact HF].
  Qed.

  Lemma split_cell_sim : forall w w' c c', incl w V -> incl (snd c) V ->
    Permutation (map f w) w' -> csim f c c' ->
    Forall2 (csim f) (split_cell g w c) (split_cell g' w' c').
  Proof.
    intros w w' c c' Hw Hc Hpw [Hfl Hpc]. unfold split_cell.
    rewrite (uniform_sim w w' (snd c) (snd c') Hw Hc Hpw Hpc).
    destruct (uniform g w (snd c)).
    - constructor; [|constructor]. split; assumption.
    - unfold fragments.
      rewrite <- (Permutation_length Hpw), map_length.
      apply Forall2_flat_map_same. intros k. apply fragment_sim; assumption.
  Qed.

  Lemma incl_verts_cons : forall c P, incl (verts (c :: P)) V -> incl (snd c) V /\ incl (verts P) V.
  Proof.
    intros c P H. rewrite verts_cons in H. split; intros x Hx; apply H, in_or_app; auto.
  Qed.

  Lemma step_sim : forall w w' P P', incl w V -> incl (verts P) V ->
    Permutation (map f w) w' -> sim f P P' ->
    sim f (flat_map (split_cell g w) P) (flat_map (split_cell g' w') P').
  Proof.
    intros w w' P P' Hw HP Hpw H. induction H as [|c c' P P' Hc _ IH]; simpl; [constructor|].
    apply incl_verts_cons in HP. destruct HP as [HcV HPV].
    apply Forall2_app; [apply split_cell_sim; assumption|apply IH; assumption].
  Qed.

  Lemma pick_sim : forall P P', sim f P P' ->
    orel (fun x y => sim f (fst x) (fst y) /\ Permutation (map f (snd x)) (snd y)) (pick P) (pick P').
  Proof.
    intros P P' H. induction H as [|c c' P P' [Hfl Hpc] HPP IH]; simpl; [exact I|].
    destruct (pick P) as [[r w]|]; destruct (pick P') as [[r' w']|]; simpl in IH; try contradiction.
    - simpl. destruct IH as [IH1 IH2]. split; [|exact IH2]. constructor; [split; assumption|exact IH1].
    - rewrite <- Hfl. destruct (fst c); simpl; [|exact I].
      split; [|exact Hpc]. constructor; [split; [reflexivity|exact Hpc]|exact HPP].
  Qed.

  Lemma refine_fuel_sim : forall k P P', incl (verts P) V -> sim f P P' ->
    orel (sim f) (refine_fuel k g P) (refine_fuel k g' P').
  Proof.
    induction k as [|k IH]; intros P P' HV H; simpl;
      pose proof (pick_sim P P' H) as Hp;
      destruct (pick P) as [[Q w]|] eqn:E; destruct (pick P') as [[Q' w']|] eqn:E';
      simpl in Hp; try contradiction; simpl; auto.
    destruct Hp as [HQ Hw]. simpl in HQ, Hw.
    assert (HwV : incl w V) by (intros x Hx; apply HV; eapply pick_incl; eauto).
    assert (HQV : incl (verts Q) V) by (rewrite (pick_verts _ _ _ E); exact HV).
    apply IH.
    - intros x Hx. apply HQV. apply (Permutation_in _ (step_verts g w Q)). exact Hx.
    - apply step_sim; assumption.
  Qed.

  Lemma refine_sim : forall P P', incl (verts P) V -> sim f P P' ->
    orel (sim f) (refine g P) (refine g' P').
  Proof.
    intros P P' HV H. unfold refine.
    rewrite (sim_verts_length _ _ _ H), <- (Forall2_len _ _ _ _ _ H).
    apply refine_fuel_sim; assumption.
  Qed.
End Equivariance.
