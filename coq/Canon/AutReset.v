(* C02 — storage reuse, initialisation part: array-level model of
   CanonicalOrderedPartition.Reset and NewOrderedPartition of graph/canonical.go and the frame
   statement [reset_determines_state]: after Reset(n, m, classes) the visible part (first len
   elements) of every slice of the partition, and the two counters, are a function of
   (n, classes) alone — whatever the slices held before — and equal to what NewOrderedPartition
   builds.  This is a statement about the initialisation code only; that the rest of the
   algorithm reads nothing beyond the visible parts is covered by the reuse sequences of the
   correspondence check.

   A Go slice is (backing array, len); cap = length of the backing array.  [None] = Go panic
   (slice bounds out of range, index out of range, or the explicit panics of Reset). *)
From Coq Require Import List Arith Lia Bool.
From Mamba Require Export Canon.AutResetModel.
Import ListNotations.

Section WithSort.
Variable sort : list nat -> list nat.
Hypothesis sort_length : forall l, length (sort l) = length l.

Local Notation sort_seg := (AutResetModel.sort_seg sort).
Local Notation fill_classes := (AutResetModel.fill_classes sort).
Local Notation reset := (AutResetModel.reset sort).
Local Notation new_op := (AutResetModel.new_op sort).

(* ---------------------------------------------------------------- basic facts *)
Lemma upd_length l i v : length (upd l i v) = length l.
Proof. revert i. induction l; intros [|i]; simpl; auto. Qed.

Lemma firstn_upd_ge l i v k : k <= i -> firstn k (upd l i v) = firstn k l.
Proof.
  revert i k. induction l as [|h t IH]; intros i k Hk; simpl.
  - reflexivity.
  - destruct i; [assert (k = 0) by lia; subst; reflexivity|].
    destruct k; simpl; [reflexivity|]. rewrite IH by lia. reflexivity.
Qed.

Lemma firstn_upd_snoc l i v : i < length l -> firstn (S i) (upd l i v) = firstn i l ++ [v].
Proof.
  revert i. induction l as [|h t IH]; intros i Hi; simpl in *; [lia|].
  destruct i; simpl; [reflexivity|]. rewrite IH by lia. reflexivity.
Qed.

Lemma nth_upd_same l i v : i < length l -> nth i (upd l i v) 0 = v.
Proof.
  revert i. induction l as [|h t IH]; intros i Hi; simpl in *; [lia|].
  destruct i; simpl; [reflexivity|]. apply IH. lia.
Qed.

Lemma nth_upd_other l i j v : i <> j -> nth j (upd l i v) 0 = nth j l 0.
Proof.
  revert i j. induction l as [|h t IH]; intros i j Hij; simpl; [reflexivity|].
  destruct i, j; simpl; try reflexivity; try lia. apply IH. lia.
Qed.

Lemma NoDup_app_disj (l1 l2 : list nat) x : NoDup (l1 ++ l2) -> In x l1 -> In x l2 -> False.
Proof.
  induction l1 as [|h t IH]; simpl; intros Hn H1 H2; [auto|].
  inversion Hn; subst. destruct H1 as [->|H1]; [apply H3; apply in_or_app; auto|apply IH; auto].
Qed.

Definition wf (s : slice) : Prop := len s <= length (arr s).

Lemma wr_spec s i v : wf s -> i < len s ->
  exists s', wr s i v = Some s' /\ len s' = len s /\ length (arr s') = length (arr s) /\ wf s' /\
    arr s' = upd (arr s) i v.
Proof.
  intros W Hi. unfold wr. destruct (Nat.ltb_spec i (len s)); [|lia].
  eexists. split; [reflexivity|]. simpl. rewrite upd_length. unfold wf. simpl. rewrite upd_length. auto.
Qed.

Lemma fill_spec f : forall k s i, wf s -> i + k <= len s ->
  exists s', fill s f i k = Some s' /\ len s' = len s /\ length (arr s') = length (arr s) /\ wf s' /\
    firstn (i + k) (arr s') = firstn i (arr s) ++ map f (seq i k).
Proof.
  induction k as [|k IH]; intros s i W H; simpl.
  - exists s. rewrite Nat.add_0_r, app_nil_r. auto.
  - destruct (wr_spec s i (f i) W ltac:(lia)) as (s1 & E1 & L1 & A1 & W1 & U1). rewrite E1.
    destruct (IH s1 (S i) W1 ltac:(lia)) as (s2 & E2 & L2 & A2 & W2 & F2).
    exists s2. split; [exact E2|]. split; [lia|]. split; [lia|]. split; [auto|].
    replace (i + S k) with (S i + k) by lia. rewrite F2, U1.
    rewrite firstn_upd_snoc by (unfold wf in W; lia). rewrite <- app_assoc. reflexivity.
Qed.

Lemma reslice_spec s k : k <= length (arr s) ->
  reslice s k = Some (mk (arr s) k) /\ wf (mk (arr s) k).
Proof. intros H. unfold reslice. destruct (Nat.leb_spec k (length (arr s))); [|lia]. split; auto. Qed.

(* a whole-slice fill determines the visible part *)
Lemma fill_all f s k : k <= length (arr s) ->
  exists s', (match reslice s k with None => None | Some s1 => fill s1 f 0 (len s1) end) = Some s' /\
    len s' = k /\ length (arr s') = length (arr s) /\ wf s' /\ vis s' = map f (seq 0 k).
Proof.
  intros H. destruct (reslice_spec s k H) as (E & W). rewrite E. simpl.
  destruct (fill_spec f k (mk (arr s) k) 0 W ltac:(simpl; lia)) as (s' & F & L & A & W' & P).
  exists s'. simpl in *. split; [exact F|]. split; [auto|]. split; [auto|]. split; [auto|].
  unfold vis. rewrite L. exact P.
Qed.

(* ---------------------------------------------------------------- the class loop *)
Lemma fill_class_spec : forall c i o ic idx, wf o -> wf ic ->
  idx + length c <= len o -> (forall v, In v c -> v < len ic) ->
  exists o' ic', fill_class c i o ic idx = Some (o', ic', idx + length c) /\
    len o' = len o /\ length (arr o') = length (arr o) /\ wf o' /\
    len ic' = len ic /\ length (arr ic') = length (arr ic) /\ wf ic' /\
    firstn (idx + length c) (arr o') = firstn idx (arr o) ++ c /\
    (forall v, In v c -> nth v (arr ic') 0 = i) /\
    (forall x, ~ In x c -> nth x (arr ic') 0 = nth x (arr ic) 0).
Proof.
  induction c as [|v t IH]; intros i o ic idx Wo Wic Hlen Hv; simpl.
  - exists o, ic. rewrite Nat.add_0_r, app_nil_r. repeat split; auto. intros v [].
  - simpl in Hlen.
    destruct (wr_spec o idx v Wo ltac:(lia)) as (o1 & E1 & L1 & A1 & W1 & U1). rewrite E1.
    destruct (wr_spec ic v i Wic (Hv v (or_introl eq_refl))) as (ic1 & E2 & L2 & A2 & W2 & U2). rewrite E2.
    destruct (IH i o1 ic1 (S idx) W1 W2 ltac:(lia)) as (o' & ic' & F & Lo & Ao & Wo' & Li & Ai & Wi' & P & Q & R).
    { intros x Hx. rewrite L2. apply Hv. simpl; auto. }
    exists o', ic'. replace (idx + S (length t)) with (S idx + length t) by lia.
    split; [exact F|]. split; [lia|]. split; [lia|]. split; [auto|].
    split; [lia|]. split; [lia|]. split; [auto|]. split; [|split].
    + rewrite P, U1. rewrite firstn_upd_snoc by (unfold wf in Wo; lia). rewrite <- app_assoc. reflexivity.
    + intros x [<-|Hx]; auto.
      destruct (in_dec Nat.eq_dec v t) as [Hin|Hout]; auto.
      rewrite R by auto. rewrite U2. apply nth_upd_same. unfold wf in Wic.
      specialize (Hv v (or_introl eq_refl)). lia.
    + intros x Hx. rewrite R by (intros H; apply Hx; simpl; auto). rewrite U2.
      apply nth_upd_other. intros ->. apply Hx. simpl; auto.
Qed.

Lemma sort_seg_spec s start c : wf s -> start + length c <= length (arr s) ->
  firstn (start + length c) (arr s) = firstn start (arr s) ++ c ->
  exists s', sort_seg s start (start + length c) = Some s' /\ len s' = len s /\
    length (arr s') = length (arr s) /\ wf s' /\
    firstn (start + length c) (arr s') = firstn start (arr s) ++ sort c.
Proof.
  intros W H P. unfold AutResetModel.sort_seg.
  destruct (Nat.leb_spec start (start + length c)); [|lia].
  destruct (Nat.leb_spec (start + length c) (length (arr s))); [|lia]. simpl.
  assert (skipn start (firstn (start + length c) (arr s)) = c) as Hseg.
  { rewrite P. rewrite skipn_app, firstn_length, skipn_all2 by (rewrite firstn_length; lia).
    replace (start - Nat.min start (length (arr s))) with 0 by lia. reflexivity. }
  rewrite Hseg.
  assert (length (firstn start (arr s) ++ sort c ++ skipn (start + length c) (arr s)) = length (arr s)) as HL.
  { rewrite !app_length, sort_length, firstn_length, skipn_length. lia. }
  eexists. split; [reflexivity|]. simpl. split; [auto|]. split; [exact HL|]. split.
  - unfold wf. simpl. rewrite HL. exact W.
  - rewrite app_assoc. rewrite firstn_app.
    assert (length (firstn start (arr s) ++ sort c) = start + length c) as HL2
      by (rewrite app_length, sort_length, firstn_length; lia).
    rewrite HL2, Nat.sub_diag. simpl. rewrite app_nil_r.
    apply firstn_all2. lia.
Qed.

(* classes processed so far: [done]; invariant of the outer loop *)
Definition incell_ok (done : list (list nat)) (a : list nat) : Prop :=
  forall j c v, nth_error done j = Some c -> In v c -> nth v a 0 = j.

Lemma fill_classes_spec : forall rest done o ic bd,
  wf o -> wf ic -> wf bd ->
  NoDup (concat (done ++ rest)) ->
  (forall v, In v (concat (done ++ rest)) -> v < len ic) ->
  length (concat (done ++ rest)) <= len o ->
  length (done ++ rest) <= len bd ->
  firstn (length (concat done)) (arr o) = concat (map sort done) ->
  firstn (length done) (arr bd) = map (fun k => length (concat (firstn (S k) done))) (seq 0 (length done)) ->
  incell_ok done (arr ic) ->
  exists o' ic' bd',
    fill_classes rest (length done) o ic bd (length (concat done)) = Some (o', ic', bd') /\
    len o' = len o /\ len ic' = len ic /\ len bd' = len bd /\
    wf o' /\ wf ic' /\ wf bd' /\
    firstn (length (concat (done ++ rest))) (arr o') = concat (map sort (done ++ rest)) /\
    firstn (length (done ++ rest)) (arr bd') =
      map (fun k => length (concat (firstn (S k) (done ++ rest)))) (seq 0 (length (done ++ rest))) /\
    incell_ok (done ++ rest) (arr ic').
Proof.
  induction rest as [|c rest IH]; intros done o ic bd Wo Wic Wbd Hn Hv Hlo Hlb Po Pb Pic.
  - simpl. rewrite app_nil_r in *. exists o, ic, bd. repeat split; auto.
  - simpl.
    assert (concat (done ++ c :: rest) = concat done ++ c ++ concat rest) as Hcat
      by (rewrite concat_app; reflexivity).
    rewrite Hcat in Hlo, Hv, Hn. rewrite !app_length in Hlo.
    destruct (fill_class_spec c (length done) o ic (length (concat done)) Wo Wic ltac:(lia))
      as (o1 & ic1 & F1 & Lo1 & Ao1 & Wo1 & Li1 & Ai1 & Wi1 & P1 & Q1 & R1).
    { intros v Hin. apply Hv. apply in_or_app. right. apply in_or_app. auto. }
    rewrite F1.
    assert (firstn (length (concat done)) (arr o1) = firstn (length (concat done)) (arr o)) as Po1.
    { assert (firstn (length (concat done)) (firstn (length (concat done) + length c) (arr o1))
              = firstn (length (concat done)) (arr o1)) as T
        by (rewrite firstn_firstn; f_equal; lia).
      rewrite <- T, P1. rewrite firstn_app, firstn_length.
      replace (length (concat done) - Nat.min (length (concat done)) (length (arr o))) with 0
        by (unfold wf in Wo; lia).
      simpl. rewrite app_nil_r, firstn_firstn, Nat.min_id. reflexivity. }
    destruct (sort_seg_spec o1 (length (concat done)) c Wo1) as (o2 & F2 & Lo2 & Ao2 & Wo2 & P2).
    { unfold wf in Wo1. lia. }
    { rewrite P1, Po1. reflexivity. }
    rewrite F2.
    rewrite app_length in Hlb. simpl in Hlb.
    destruct (wr_spec bd (length done) (length (concat done) + length c) Wbd ltac:(lia))
      as (bd1 & F3 & Lb1 & Ab1 & Wb1 & U3).
    rewrite F3.
    assert (length (concat (done ++ [c])) = length (concat done) + length c) as Hlc
      by (rewrite concat_app, app_length; simpl; rewrite app_nil_r; reflexivity).
    destruct (IH (done ++ [c]) o2 ic1 bd1 Wo2 Wi1 Wb1) as (o' & ic' & bd' & F & L1 & L2 & L3 & W1 & W2 & W3 & Q & Qb & Qi).
    + rewrite <- app_assoc. simpl. rewrite Hcat. exact Hn.
    + intros v Hin. rewrite Li1. apply Hv. rewrite <- app_assoc in Hin. simpl in Hin. rewrite Hcat in Hin. exact Hin.
    + rewrite <- app_assoc. simpl. rewrite Hcat, !app_length. lia.
    + rewrite <- app_assoc. simpl. rewrite app_length. simpl. lia.
    + rewrite Hlc, P2, Po1, Po. rewrite map_app, concat_app. simpl. rewrite app_nil_r. reflexivity.
    + rewrite app_length. cbn [length]. rewrite Nat.add_1_r.
      rewrite U3, firstn_upd_snoc by (unfold wf in Wbd; lia). rewrite Pb.
      rewrite seq_S, map_app. cbn [map]. f_equal.
      * apply map_ext_in. intros k Hk. apply in_seq in Hk. rewrite firstn_app.
        replace (S k - length done) with 0 by lia. cbn [firstn]. rewrite app_nil_r. reflexivity.
      * f_equal. rewrite firstn_all2 by (rewrite app_length; simpl; lia). symmetry. exact Hlc.
    + intros j c0 v Hj Hin.
      destruct (Nat.lt_ge_cases j (length done)) as [Hlt|Hge].
      * rewrite nth_error_app1 in Hj by auto.
        rewrite R1; [eapply Pic; eauto|].
        intros Hvc. apply (NoDup_app_disj _ _ v Hn).
        -- apply in_concat. exists c0. split; [eapply nth_error_In; eauto|auto].
        -- apply in_or_app. auto.
      * rewrite nth_error_app2 in Hj by auto.
        destruct (j - length done) as [|d] eqn:Ed; simpl in Hj; [|destruct d; discriminate].
        inversion Hj; subst c0. replace j with (length done) by lia. apply Q1; auto.
    + exists o', ic', bd'.
      rewrite app_length in F. simpl in F. rewrite Nat.add_1_r, Hlc in F.
      split; [exact F|]. rewrite <- app_assoc in Q, Qb, Qi. simpl in Q, Qb, Qi.
      split; [lia|]. split; [lia|]. split; [lia|]. repeat split; auto.
Qed.

(* ---------------------------------------------------------------- the whole initialisation *)
Definition classes_ok (n : nat) (classes : option (list (list nat))) : Prop :=
  match classes with
  | None => True
  | Some cl => NoDup (concat cl) /\ (forall v, In v (concat cl) <-> v < n) /\ ~ In [] cl
  end.

Definition caps_ok (op : opst) (n m : nat) : Prop :=
  n <= length (arr (order op)) /\ n <= length (arr (inCell op)) /\
  n <= length (arr (binDividers op)) /\ n <= length (arr (binAges op)) /\
  n <= length (arr (binsToCheck op)) /\ m <= length (arr (value op)).

Lemma nth_firstn_lt (l : list nat) : forall n i, i < n -> nth i (firstn n l) 0 = nth i l 0.
Proof.
  induction l as [|h t IH]; intros n i Hi; destruct n, i; simpl; auto; try lia. apply IH. lia.
Qed.

Lemma count_le_concat (cl : list (list nat)) : ~ In [] cl -> length cl <= length (concat cl).
Proof.
  induction cl as [|c t IH]; intros H; simpl; [lia|]. rewrite app_length.
  assert (c <> []) by (intros ->; apply H; simpl; auto). destruct c; [congruence|]. simpl.
  assert (length t <= length (concat t)) by (apply IH; intros Hin; apply H; simpl; auto). lia.
Qed.

Lemma valid_length n cl : classes_ok n (Some cl) -> length (concat cl) = n.
Proof.
  intros (Hn & Hall & _).
  assert (incl (concat cl) (seq 0 n)) as I1 by (intros x Hx; apply in_seq; apply Hall in Hx; lia).
  assert (incl (seq 0 n) (concat cl)) as I2 by (intros x Hx; apply Hall; apply in_seq in Hx; lia).
  pose proof (NoDup_incl_length Hn I1) as L1. pose proof (NoDup_incl_length (seq_NoDup n 0) I2) as L2.
  rewrite seq_length in *. lia.
Qed.

(* the class loop started on slices of the right lengths *)
Lemma init_classes_spec n cl o0 ic0 bd0 : classes_ok n (Some cl) ->
  wf o0 -> wf ic0 -> wf bd0 -> len o0 = n -> len ic0 = n -> len bd0 = length cl ->
  exists o' ic' bd', fill_classes cl 0 o0 ic0 bd0 0 = Some (o', ic', bd') /\
    wf o' /\ wf ic' /\ wf bd' /\ len bd' = length cl /\
    vis o' = concat (map sort cl) /\
    vis bd' = map (fun k => length (concat (firstn (S k) cl))) (seq 0 (length cl)) /\
    len ic' = n /\ incell_ok cl (arr ic').
Proof.
  intros Hok Wo Wi Wb Lo Li Lb. pose proof (valid_length n cl Hok) as Hlen.
  destruct Hok as (Hn & Hall & He).
  destruct (fill_classes_spec cl [] o0 ic0 bd0 Wo Wi Wb) as (o' & ic' & bd' & F & L1 & L2 & L3 & W1 & W2 & W3 & Q & Qb & Qi); simpl; auto.
  - intros v Hv. rewrite Li. apply Hall; auto.
  - lia.
  - lia.
  - intros j c v Hj. destruct j; discriminate.
  - simpl in *. exists o', ic', bd'. split; [exact F|]. split; [auto|]. split; [auto|]. split; [auto|].
    split; [lia|]. unfold vis. rewrite L1, Lo, <- Hlen. split; [exact Q|]. rewrite L3, Lb.
    split; [exact Qb|]. split; [lia|exact Qi].
Qed.

Lemma ages_spec bd ba btc : len bd <= length (arr ba) -> len bd <= length (arr btc) ->
  exists ba' btc', ages_and_checks bd ba btc = Some (ba', btc') /\
    vis ba' = map (fun _ => 0) (seq 0 (len bd)) /\ vis btc' = map (fun i => i) (seq 0 (len bd)).
Proof.
  intros H1 H2. unfold ages_and_checks.
  destruct (fill_all (fun _ => 0) ba (len bd) H1) as (ba' & E1 & _ & _ & _ & V1).
  destruct (fill_all (fun i => i) btc (len bd) H2) as (btc' & E2 & _ & _ & _ & V2).
  destruct (reslice ba (len bd)) as [ba1|]; [|discriminate]. rewrite E1.
  destruct (reslice btc (len bd)) as [btc1|]; [|discriminate]. rewrite E2.
  exists ba', btc'. auto.
Qed.

(* two inCell arrays that are right on every class agree on 0..n-1 *)
Lemma incell_unique n cl a b : classes_ok n (Some cl) -> n <= length a -> n <= length b ->
  incell_ok cl a -> incell_ok cl b -> firstn n a = firstn n b.
Proof.
  intros (Hn & Hall & _) La Lb Ha Hb. apply (nth_ext _ _ 0 0).
  - rewrite !firstn_length. lia.
  - intros i Hi. rewrite firstn_length in Hi. assert (i < n) as Hin by lia.
    rewrite !nth_firstn_lt by auto. apply Hall in Hin. apply in_concat in Hin.
    destruct Hin as (c & Hc & Hic). destruct (In_nth_error cl c Hc) as (j & Hj).
    rewrite (Ha j c i Hj Hic), (Hb j c i Hj Hic). reflexivity.
Qed.

(* what Reset leaves: a description depending on (n, classes) only *)
Definition state_spec (n : nat) (classes : option (list (list nat))) (st : opst) : Prop :=
  age st = 0 /\ spl st = 0 /\ vis (value st) = [] /\
  len (inCell st) = n /\ n <= length (arr (inCell st)) /\
  match classes with
  | None =>
    vis (order st) = seq 0 n /\ vis (binDividers st) = [n] /\ vis (binAges st) = [0] /\
    vis (binsToCheck st) = [0] /\ vis (inCell st) = repeat 0 n
  | Some cl =>
    vis (order st) = concat (map sort cl) /\
    vis (binDividers st) = map (fun k => length (concat (firstn (S k) cl))) (seq 0 (length cl)) /\
    vis (binAges st) = repeat 0 (length cl) /\ vis (binsToCheck st) = seq 0 (length cl) /\
    incell_ok cl (arr (inCell st))
  end.

Lemma map_const_seq k : map (fun _ : nat => 0) (seq 0 k) = repeat 0 k.
Proof.
  generalize 0 at 2. induction k; intros s; simpl; auto. rewrite IHk. reflexivity.
Qed.

Theorem reset_spec op n m classes : 0 < n -> caps_ok op n m -> classes_ok n classes ->
  exists st, reset op n m classes = Some st /\ state_spec n classes st.
Proof.
  intros Hn (C1 & C2 & C3 & C4 & C5 & C6) Hok. unfold AutResetModel.reset.
  destruct (Nat.ltb_spec (length (arr (order op))) n); [lia|].
  destruct (Nat.ltb_spec (length (arr (value op))) m); [lia|].
  destruct (reslice_spec (order op) n C1) as (E1 & W1). rewrite E1.
  destruct (reslice_spec (inCell op) n C2) as (E2 & W2). rewrite E2.
  destruct classes as [cl|].
  - pose proof (valid_length n cl Hok) as Hlen.
    assert (length cl <= n) as Hk by (rewrite <- Hlen; apply count_le_concat; apply Hok).
    destruct (reslice_spec (binDividers op) (length cl) ltac:(lia)) as (E3 & W3). rewrite E3.
    destruct (init_classes_spec n cl _ _ _ Hok W1 W2 W3 eq_refl eq_refl eq_refl)
      as (o' & ic' & bd' & F & Wo & Wi & Wb & Lb & Vo & Vb & Li & Qi).
    rewrite F.
    destruct (ages_spec bd' (binAges op) (binsToCheck op)) as (ba' & btc' & EA & Va & Vc); try lia.
    rewrite EA. destruct (reslice_spec (value op) 0 ltac:(lia)) as (E4 & _). rewrite E4.
    eexists. split; [reflexivity|]. unfold state_spec. simpl.
    split; [auto|]. split; [auto|]. split; [reflexivity|]. split; [auto|].
    split; [unfold wf in Wi; lia|]. split; [auto|]. split; [auto|].
    rewrite Va, Vc, Lb, map_const_seq, map_id. auto.
  - destruct (fill_spec (fun i => i) n (mk (arr (order op)) n) 0 W1 ltac:(simpl; lia)) as (o1 & F1 & L1 & A1 & Wo1 & P1).
    rewrite F1. destruct (Nat.ltb_spec 0 n); [|lia].
    destruct (reslice_spec (binDividers op) 1 ltac:(lia)) as (E3 & W3). rewrite E3.
    destruct (wr_spec (mk (arr (binDividers op)) 1) 0 n W3 ltac:(simpl; lia)) as (bd1 & F3 & Lb & Ab & Wb & Ub).
    rewrite F3.
    destruct (fill_spec (fun _ => 0) n (mk (arr (inCell op)) n) 0 W2 ltac:(simpl; lia)) as (ic1 & F2 & L2 & A2 & Wi1 & P2).
    simpl len at 1. rewrite F2.
    destruct (ages_spec bd1 (binAges op) (binsToCheck op)) as (ba' & btc' & EA & Va & Vc); try (simpl in Lb; lia).
    rewrite EA. destruct (reslice_spec (value op) 0 ltac:(lia)) as (E4 & _). rewrite E4.
    eexists. split; [reflexivity|]. unfold state_spec. simpl. simpl in *.
    split; [auto|]. split; [auto|]. split; [reflexivity|]. split; [auto|].
    split; [unfold wf in Wi1; lia|].
    rewrite Va, Vc. unfold vis. rewrite L1, L2, Lb. simpl.
    split; [rewrite P1, map_id; reflexivity|]. split.
    + rewrite Ub. destruct (arr (binDividers op)); simpl in *; [lia|reflexivity].
    + split; [reflexivity|]. split; [reflexivity|]. rewrite P2. apply map_const_seq.
Qed.

Theorem new_op_spec n m classes : 0 < n -> classes_ok n classes ->
  exists st, new_op n m classes = Some st /\ state_spec n classes st.
Proof.
  intros Hn Hok. unfold AutResetModel.new_op. destruct (Nat.eqb_spec n 0); [lia|].
  assert (forall k, k <= n -> reslice (mk (repeat 0 n) n) k = Some (mk (repeat 0 n) k) /\ wf (mk (repeat 0 n) k)) as RS.
  { intros k Hk. apply (reslice_spec (mk (repeat 0 n) n) k). simpl. rewrite repeat_length. auto. }
  assert (wf (mk (repeat 0 n) n)) as W0 by (unfold wf; simpl; rewrite repeat_length; auto).
  destruct classes as [cl|].
  - pose proof (valid_length n cl Hok) as Hlen.
    assert (length cl <= n) as Hk by (rewrite <- Hlen; apply count_le_concat; apply Hok).
    destruct (RS (length cl) Hk) as (E3 & W3). rewrite E3.
    destruct (init_classes_spec n cl _ _ _ Hok W0 W0 W3 eq_refl eq_refl eq_refl)
      as (o' & ic' & bd' & F & Wo & Wi & Wb & Lb & Vo & Vb & Li & Qi).
    rewrite F.
    destruct (ages_spec bd' (mk (repeat 0 n) n) (mk (repeat 0 n) n)) as (ba' & btc' & EA & Va & Vc);
      try (simpl; rewrite repeat_length; lia).
    rewrite EA. eexists. split; [reflexivity|]. unfold state_spec. simpl.
    split; [auto|]. split; [auto|]. split; [reflexivity|]. split; [auto|].
    split; [unfold wf in Wi; lia|]. split; [auto|]. split; [auto|].
    rewrite Va, Vc, Lb, map_const_seq, map_id. auto.
  - destruct (fill_spec (fun i => i) n (mk (repeat 0 n) n) 0 W0 ltac:(simpl; lia)) as (o1 & F1 & L1 & A1 & Wo1 & P1).
    rewrite F1. destruct (RS 1 ltac:(lia)) as (E3 & W3). rewrite E3.
    destruct (wr_spec (mk (repeat 0 n) 1) 0 n W3 ltac:(simpl; lia)) as (bd1 & F3 & Lb & Ab & Wb & Ub).
    rewrite F3.
    destruct (ages_spec bd1 (mk (repeat 0 n) n) (mk (repeat 0 n) n)) as (ba' & btc' & EA & Va & Vc);
      try (simpl in *; rewrite repeat_length; lia).
    rewrite EA. eexists. split; [reflexivity|]. unfold state_spec. simpl. simpl in *.
    split; [auto|]. split; [auto|]. split; [reflexivity|]. split; [auto|].
    split; [rewrite repeat_length; lia|].
    rewrite Va, Vc. unfold vis. rewrite L1, Lb. simpl.
    split; [rewrite P1, map_id; reflexivity|]. split.
    + rewrite Ub. destruct n; simpl; [lia|reflexivity].
    + split; [reflexivity|]. split; [reflexivity|]. apply firstn_all2. rewrite repeat_length. auto.
Qed.

(* two states meeting the description have the same visible state *)
Lemma state_spec_visible n classes st st' : classes_ok n classes ->
  state_spec n classes st -> state_spec n classes st' -> visible st = visible st'.
Proof.
  intros Hok (A1 & A2 & A3 & A4 & A5 & A6) (B1 & B2 & B3 & B4 & B5 & B6). unfold visible.
  rewrite A1, A2, A3, B1, B2, B3.
  destruct classes as [cl|].
  - destruct A6 as (Ao & Ab & Aa & Ac & Ai), B6 as (Bo & Bb & Ba & Bc & Bi).
    rewrite Ao, Ab, Aa, Ac, Bo, Bb, Ba, Bc. unfold vis at 1 2. rewrite A4, B4.
    rewrite (incell_unique n cl _ _ Hok A5 B5 Ai Bi). reflexivity.
  - destruct A6 as (Ao & Ab & Aa & Ac & Ai), B6 as (Bo & Bb & Ba & Bc & Bi).
    rewrite Ao, Ab, Aa, Ac, Ai, Bo, Bb, Ba, Bc, Bi. reflexivity.
Qed.

(* The frame statement: Reset on any old state with sufficient capacities leaves exactly the
   visible state that NewOrderedPartition builds; in particular it does not depend on the old
   contents. *)
Theorem reset_determines_state op n m classes :
  0 < n -> caps_ok op n m -> classes_ok n classes ->
  exists st st', reset op n m classes = Some st /\ new_op n m classes = Some st' /\
    visible st = visible st'.
Proof.
  intros Hn Hc Hok.
  destruct (reset_spec op n m classes Hn Hc Hok) as (st & E & S).
  destruct (new_op_spec n m classes Hn Hok) as (st' & E' & S').
  exists st, st'. split; [exact E|]. split; [exact E'|]. eapply state_spec_visible; eauto.
Qed.

End WithSort.

Lemma insert_sorted_length x l : length (insert_sorted x l) = S (length l).
Proof. induction l as [|y t IH]; simpl; auto. destruct (x <=? y); simpl; auto. Qed.

Lemma isort_length l : length (isort l) = length l.
Proof. induction l as [|x t IH]; simpl; auto. rewrite insert_sorted_length, IH. reflexivity. Qed.
