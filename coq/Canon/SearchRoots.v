(* Canon/SearchRoots.v — the number of roots of a union-find array: Find keeps it, a Union of two different
   sets lowers it by one, a well-formed array on at least one element has a root.  Hence the loop that feeds
   the cycles of an automorphism into firstLeafOrbits lowers it whenever it reports a merge: at most n - 1
   generators are ever recorded (cap(generators) = n - 1). *)
From Coq Require Import List Arith Bool ZArith Lia Permutation.
From Mamba Require Import Disjoint.Model Disjoint.Proofs Canon.SearchModel Canon.SearchCert.
Import ListNotations.
Open Scope nat_scope.

Definition isroot (ds : dset) (i : nat) : bool := (get ds i <? 0)%Z.
Definition nroots (ds : dset) : nat := length (filter (isroot ds) (seq 0 (length ds))).

Lemma filter_change_one : forall (f f' : nat -> bool) k i, i < k -> (forall j, j <> i -> f' j = f j) ->
  length (filter f' (seq 0 k)) + b2n (f i) = length (filter f (seq 0 k)) + b2n (f' i).
Proof.
  intros f f' k i Hi H. induction k as [|k IH]; [lia|]. rewrite !filter_seq_S.
  destruct (Nat.eq_dec i k) as [->|Hne].
  - assert (E : filter f' (seq 0 k) = filter f (seq 0 k)).
    { apply filter_ext_in. intros j Hj. apply in_seq in Hj. apply H. lia. }
    rewrite E. lia.
  - rewrite (H k ltac:(lia)). specialize (IH ltac:(lia)). lia.
Qed.

Lemma root_reaches : forall ds i, i < length ds -> (isroot ds i = true <-> reaches ds i i).
Proof.
  intros ds i Hi. unfold isroot. split.
  - intros H. apply Z.ltb_lt in H. apply r_root; assumption.
  - intros H. apply Z.ltb_lt. apply (reaches_root _ _ _ H).
Qed.

Lemma nroots_equiv : forall d1 d2, equiv d1 d2 -> nroots d1 = nroots d2.
Proof.
  intros d1 d2 [HL HR]. unfold nroots. rewrite <- HL. f_equal. apply filter_ext_in. intros i Hi. apply in_seq in Hi.
  destruct (isroot d1 i) eqn:E1; destruct (isroot d2 i) eqn:E2; try reflexivity; exfalso.
  - apply root_reaches in E1; [|lia]. apply HR in E1. apply root_reaches in E1; [|lia]. congruence.
  - apply root_reaches in E2; [|lia]. apply HR in E2. apply root_reaches in E2; [|lia]. congruence.
Qed.

Lemma nroots_upd : forall ds i v, i < length ds ->
  nroots (upd ds i v) + b2n (isroot ds i) = nroots ds + b2n (v <? 0)%Z.
Proof.
  intros ds i v Hi. unfold nroots. rewrite upd_length.
  replace (b2n (v <? 0)%Z) with (b2n (isroot (upd ds i v) i)) by (unfold isroot; rewrite get_upd_same by exact Hi; reflexivity).
  apply filter_change_one; [exact Hi|]. intros j Hj. unfold isroot. rewrite get_upd_other by congruence. reflexivity.
Qed.

Lemma nroots_pos : forall ds, WF ds -> 1 <= length ds -> 1 <= nroots ds.
Proof.
  intros ds W HL. destruct (W 0 ltac:(lia)) as [r Hr]. destruct (reaches_root _ _ _ Hr) as [Hrl Hrn].
  unfold nroots. assert (Hin : In r (filter (isroot ds) (seq 0 (length ds)))).
  { apply filter_In. split; [apply in_seq; lia|]. unfold isroot. apply Z.ltb_lt. exact Hrn. }
  destruct (filter (isroot ds) (seq 0 (length ds))); [contradiction|simpl; lia].
Qed.

Lemma find_nroots : forall ds x d r, WF ds -> x < length ds -> find ds x = Some (d, r) ->
  nroots d = nroots ds /\ WF d /\ length d = length ds /\ reaches ds x r /\ equiv ds d.
Proof.
  intros ds x d r W Hx H. destruct (find_spec ds x W Hx) as (d' & r' & F & HR & E). rewrite H in F. inversion F; subst d' r'.
  split; [symmetry; apply nroots_equiv; exact E|]. split; [eapply equiv_WF; eassumption|]. split; [symmetry; exact (proj1 E)|].
  split; assumption.
Qed.

(* Union: the number of roots does not grow, and falls when the two elements were in different sets *)
Lemma union_nroots : forall ds x y d, WF ds -> x < length ds -> y < length ds -> union ds x y = Some d ->
  nroots d <= nroots ds /\ (~ same ds x y -> nroots d + 1 = nroots ds).
Proof.
  intros ds x y d W Hx Hy H. unfold union in H.
  destruct (find ds x) as [[d1 px]|] eqn:F1; [|discriminate].
  destruct (find_nroots _ _ _ _ W Hx F1) as (N1 & W1 & L1 & R1 & E1).
  destruct (find d1 y) as [[d2 py]|] eqn:F2; [|discriminate].
  destruct (find_nroots d1 y d2 py W1 ltac:(lia) F2) as (N2 & W2 & L2 & R2 & E2).
  assert (Rx : reaches d2 x px) by (apply E2, E1; exact R1).
  assert (Ry : reaches d2 y py) by (apply E2; exact R2).
  assert (Ry0 : reaches ds y py) by (apply E1; exact R2).
  destruct (reaches_root _ _ _ Rx) as [Lpx Npx]. destruct (reaches_root _ _ _ Ry) as [Lpy Npy].
  assert (Rpx : isroot d2 px = true) by (unfold isroot; apply Z.ltb_lt; exact Npx).
  assert (Rpy : isroot d2 py = true) by (unfold isroot; apply Z.ltb_lt; exact Npy).
  destruct (Nat.eqb_spec px py) as [Heq|Hne].
  - inversion H; subst d. split; [lia|]. intros Hns. exfalso. apply Hns. exists px. split; [exact R1|rewrite Heq; exact Ry0].
  - assert (Hdec : nroots d + 1 = nroots ds).
    { destruct (get d2 px <? get d2 py)%Z.
      - inversion H; subst d. pose proof (nroots_upd d2 py (Z.of_nat px) Lpy) as K. rewrite Rpy in K.
        replace (Z.of_nat px <? 0)%Z with false in K by (symmetry; apply Z.ltb_ge; lia). simpl in K. lia.
      - destruct (get d2 py <? get d2 px)%Z.
        + inversion H; subst d. pose proof (nroots_upd d2 px (Z.of_nat py) Lpx) as K. rewrite Rpx in K.
          replace (Z.of_nat py <? 0)%Z with false in K by (symmetry; apply Z.ltb_ge; lia). simpl in K. lia.
        + inversion H; subst d. pose proof (nroots_upd d2 px (Z.of_nat py) Lpx) as K. rewrite Rpx in K.
          replace (Z.of_nat py <? 0)%Z with false in K by (symmetry; apply Z.ltb_ge; lia). simpl in K.
          pose proof (nroots_upd (upd d2 px (Z.of_nat py)) py (get d2 py - 1)%Z ltac:(rewrite upd_length; exact Lpy)) as K2.
          assert (isroot (upd d2 px (Z.of_nat py)) py = true) by (unfold isroot; rewrite get_upd_other by congruence; exact Rpy).
          rewrite H0 in K2. replace (get d2 py - 1 <? 0)%Z with true in K2 by (symmetry; apply Z.ltb_lt; lia). simpl in K2. lia. }
    split; [lia|]. intros _. exact Hdec.
Qed.

Lemma union_WF : forall ds x y d, WF ds -> x < length ds -> y < length ds -> union ds x y = Some d ->
  WF d /\ length d = length ds.
Proof.
  intros ds x y d W Hx Hy H. destruct (union_spec ds x y W Hx Hy) as (d' & U & W' & L' & _). rewrite H in U. inversion U; subst d'.
  split; assumption.
Qed.

(* the loop over the cycles of a generator *)
Lemma orb_loop_nroots : forall is gam ds b0 ds' b, WF ds -> (forall i, In i is -> i < length ds) ->
  (forall i, i < length ds -> nth i gam 0 < length ds) ->
  orb_loop is gam ds b0 = Some (ds', b) ->
  WF ds' /\ length ds' = length ds /\ nroots ds' <= nroots ds /\ (b0 = false -> b = true -> nroots ds' + 1 <= nroots ds).
Proof.
  induction is as [|i is IH]; intros gam ds b0 ds' b W His HG H; simpl in H.
  - inversion H; subst. split; [exact W|]. split; [reflexivity|]. split; [lia|]. intros -> E. discriminate.
  - assert (Hi : i < length ds) by (apply His; left; reflexivity).
    destruct (nth_error gam i) as [t|] eqn:Et; [|discriminate].
    assert (Ht : t < length ds) by (rewrite <- (nth_error_nth _ _ 0 Et); apply HG; exact Hi).
    destruct (find ds t) as [[d1 rt]|] eqn:F1; [|discriminate].
    destruct (find_nroots _ _ _ _ W Ht F1) as (N1 & W1 & L1 & R1 & E1).
    destruct (find d1 i) as [[d2 ri]|] eqn:F2; [|discriminate].
    destruct (find_nroots d1 i d2 ri W1 ltac:(lia) F2) as (N2 & W2 & L2 & R2 & E2).
    assert (His2 : forall j, In j is -> j < length d2) by (intros j Hj; rewrite L2, L1; apply His; right; exact Hj).
    assert (HG2 : forall j, j < length d2 -> nth j gam 0 < length d2) by (intros j Hj; rewrite L2, L1 in *; apply HG; exact Hj).
    destruct (rt =? ri) eqn:Er.
    + destruct (IH gam d2 b0 ds' b W2 His2 HG2 H) as (A & B & C & D).
      split; [exact A|]. split; [lia|]. split; [lia|]. intros E0 Eb. specialize (D E0 Eb). lia.
    + apply Nat.eqb_neq in Er. destruct (union d2 i t) as [d3|] eqn:EU; [|discriminate].
      destruct (union_nroots d2 i t d3 W2 ltac:(lia) ltac:(lia) EU) as [U1 U2].
      destruct (union_WF d2 i t d3 W2 ltac:(lia) ltac:(lia) EU) as [W3 L3].
      assert (Hns : ~ same d2 i t).
      { intros (r & Ha & Hb). assert (Ht2 : reaches d2 t rt) by (apply E2, E1; exact R1).
        assert (Hi2 : reaches d2 i ri) by (apply E2; exact R2).
        pose proof (reaches_fun _ _ _ _ Hb Ht2). pose proof (reaches_fun _ _ _ _ Ha Hi2). subst. apply Er. reflexivity. }
      specialize (U2 Hns).
      destruct (IH gam d3 true ds' b W3 ltac:(intros j Hj; rewrite L3; apply His2; exact Hj)
                  ltac:(intros j Hj; rewrite L3 in *; apply HG2; exact Hj) H) as (A & B & C & D).
      split; [exact A|]. split; [lia|]. split; [lia|]. intros _ _. lia.
Qed.

Lemma mate_loop_nroots : forall earlier ds r d b, WF ds -> (forall u, In u earlier -> u < length ds) ->
  mate_loop ds earlier r = Some (d, b) -> nroots d = nroots ds /\ WF d /\ length d = length ds.
Proof.
  induction earlier as [|u earlier IH]; intros ds r d b W HE H; simpl in H.
  - inversion H; subst. repeat split; [exact W].
  - destruct (find ds u) as [[d1 ru]|] eqn:F; [|discriminate].
    destruct (find_nroots _ _ _ _ W (HE u (or_introl eq_refl)) F) as (N1 & W1 & L1 & _).
    destruct (ru =? r); [inversion H; subst; repeat split; assumption|].
    destruct (IH d1 r d b W1 ltac:(intros v Hv; rewrite L1; apply HE; right; exact Hv) H) as (A & B & C).
    split; [lia|]. split; [exact B|lia].
Qed.

Lemma has_earlier_mate_nroots : forall earlier ds v d b, WF ds -> v < length ds -> (forall u, In u earlier -> u < length ds) ->
  has_earlier_mate ds earlier v = Some (d, b) -> nroots d = nroots ds.
Proof.
  intros earlier ds v d b W Hv HE H. unfold has_earlier_mate in H.
  destruct (find ds v) as [[d1 r]|] eqn:F; [|discriminate].
  destruct (find_nroots _ _ _ _ W Hv F) as (N1 & W1 & L1 & _).
  destruct (mate_loop_nroots earlier d1 r d b W1 ltac:(intros u Hu; rewrite L1; apply HE; exact Hu) H) as (A & _). lia.
Qed.

(* totality: on a well-formed array the loops never index out of range *)
Lemma orb_loop_total : forall is gam ds b0, WF ds -> (forall i, In i is -> i < length ds) ->
  length gam = length ds -> (forall i, i < length ds -> nth i gam 0 < length ds) ->
  exists r, orb_loop is gam ds b0 = Some r.
Proof.
  induction is as [|i is IH]; intros gam ds b0 W His HLg HG; simpl; [eauto|].
  assert (Hi : i < length ds) by (apply His; left; reflexivity).
  rewrite (nth_error_nth' gam 0) by lia.
  assert (Ht : nth i gam 0 < length ds) by (apply HG; exact Hi).
  destruct (find_spec ds (nth i gam 0) W Ht) as (d1 & rt & F1 & _ & E1). rewrite F1.
  pose proof (equiv_WF _ _ E1 W) as W1. pose proof (proj1 E1) as L1.
  destruct (find_spec d1 i W1 ltac:(lia)) as (d2 & ri & F2 & _ & E2). rewrite F2.
  pose proof (equiv_WF _ _ E2 W1) as W2. pose proof (proj1 E2) as L2.
  destruct (rt =? ri).
  - apply IH; [exact W2| | |]; try lia; intros j Hj; rewrite <- L2, <- L1 in *; [apply His; right; exact Hj|apply HG; exact Hj].
  - destruct (union_spec d2 i (nth i gam 0) W2 ltac:(lia) ltac:(lia)) as (d3 & U & W3 & L3 & _). rewrite U.
    apply IH; [exact W3| | |]; try lia; intros j Hj; rewrite L3, <- L2, <- L1 in *; [apply His; right; exact Hj|apply HG; exact Hj].
Qed.

Lemma mate_loop_total : forall earlier ds r, WF ds -> (forall u, In u earlier -> u < length ds) ->
  exists x, mate_loop ds earlier r = Some x.
Proof.
  induction earlier as [|u earlier IH]; intros ds r W HE; simpl; [eauto|].
  destruct (find_spec ds u W (HE u (or_introl eq_refl))) as (d1 & ru & F & _ & E). rewrite F.
  destruct (ru =? r); [eauto|]. apply IH; [eapply equiv_WF; eassumption|].
  intros v Hv. rewrite <- (proj1 E). apply HE. right. exact Hv.
Qed.

Lemma has_earlier_mate_total : forall earlier ds v, WF ds -> v < length ds -> (forall u, In u earlier -> u < length ds) ->
  exists x, has_earlier_mate ds earlier v = Some x.
Proof.
  intros earlier ds v W Hv HE. unfold has_earlier_mate.
  destruct (find_spec ds v W Hv) as (d1 & r & F & _ & E). rewrite F.
  apply mate_loop_total; [eapply equiv_WF; eassumption|]. intros u Hu. rewrite <- (proj1 E). apply HE. exact Hu.
Qed.
