(* Canon/SearchMax.v — soundness of the pruning.  The three layers of the invariant hold along the whole
   search; at the end every leaf of the unpruned tree has a certificate that is at most the one of
   the best leaf: the returned labelling is a leaf with the greatest certificate. *)
From Coq Require Import List Arith Bool ZArith Lia Permutation Sorted.
From Mamba Require Import Canon.Perm Canon.Iso Canon.Model Canon.Refine Canon.Sorted Canon.Tree Canon.Fuel
  Disjoint.Model Disjoint.Proofs Canon.SearchModel Canon.SearchHoare Canon.SearchCells Canon.SearchTarget
  Canon.SearchDeage Canon.SearchRefine Canon.SearchExec Canon.SearchValue Canon.SearchExpand Canon.SearchCert
  Canon.SearchOrder Canon.SearchEquiv Canon.SearchWalk Canon.SearchEquit Canon.SearchCut Canon.SearchSibling
  Canon.SearchLink Canon.SearchInvT Canon.SearchVCT Canon.SearchInvV Canon.SearchVCV Canon.SearchPrune
  Canon.SearchGroup Canon.SearchCutW Canon.SearchInvP Canon.SearchVCP1 Canon.SearchVCP2 Canon.SearchVCP3
  Canon.SearchVCP4 Canon.SearchInit Canon.SearchProofs.
Import ListNotations.
Open Scope nat_scope.

Section All.
Variable g : graph.
Variables n m : nat.
Variable clsf : nat -> nat.
Variable order0 : list nat.
Variable root : part.
Hypothesis Hg : simple g.
Hypothesis Hn : length g = n.
Hypothesis Hm : m = num_edges g.
Hypothesis Hm0 : 0 < m.
Hypothesis Hroot_eq : equitable g root.
Hypothesis Hroot_fl : forall c, In c root -> fst c = false.

Theorem search_P : forall fuel st w p o gs, PPtop g n m clsf order0 root st w ->
  main_loop g n m fuel st w = Ok (p, o, gs) ->
  exists st', PPdone g n m clsf order0 root st' /\ p = s_cbPerm st' /\ o = s_flOrb st' /\ gs = s_gens st'.
Proof.
  intros fuel st w p o gs HT HM.
  eapply (main_loop_outline g n m (PPtop g n m clsf order0 root) (PPstep g n m clsf order0 root)
            (PPj g n m clsf order0 root) (PPref g n m clsf order0 root) (PPdone g n m clsf order0 root)); try eassumption.
  - apply VCP_leaf; assumption.
  - apply VCP_push; assumption.
  - apply VCP_worse; assumption.
  - apply VCP_done; assumption.
  - apply VCP_jstart; assumption.
  - apply VCP_jexit; assumption.
  - apply VCP_jcont; assumption.
  - apply VCP_jstep; assumption.
  - apply VCP_refine; assumption.
Qed.

End All.

Section Final.
Variable g : graph.
Variable cls : option (list (list nat)).
Hypothesis Hg : simple g.

Let n := length g.
Let m := num_edges g.
Let cs0 := init_cells n cls.
Let clsf := in_cell cs0.
Let order0 := order_of cs0.

Hypothesis Hcls : cls_ok n cls.

Lemma init_flags : forall c, In c (erase cs0) -> fst c = true.
Proof.
  intros c Hc. unfold cs0, init_cells, erase in Hc. rewrite map_map in Hc. apply in_map_iff in Hc.
  destruct Hc as (d & <- & Hd). simpl. destruct cls as [cl|].
  - unfold init_classes in Hd. apply in_map_iff in Hd. destruct Hd as (x & <- & _). reflexivity.
  - unfold init_part in Hd. destruct n; [contradiction|]. destruct Hd as [<-|[]]. reflexivity.
Qed.

Lemma root_equitable : forall root, refine g (erase cs0) = Some root ->
  equitable g root /\ (forall c, In c root -> fst c = false).
Proof.
  intros root H. split.
  - eapply refine_fuel_equitable; [exact H|]. intros c Hc Hfl. rewrite (init_flags c Hc) in Hfl. discriminate.
  - eapply refine_fuel_flags. exact H.
Qed.

(* the invariant holds when the main loop is entered *)
Lemma canon_search_init_P : 0 < n -> 0 < m ->
  (forall fuel, canon_search fuel g cls = Panic) \/
  exists ps0 root, (forall fuel, canon_search fuel g cls = main_loop g n m fuel (init_state n m ps0) false) /\
    refine g (erase cs0) = Some root /\ PPtop g n m clsf order0 root (init_state n m ps0) false.
Proof.
  intros Hn0 Hm0. destruct (canon_search_init_root g cls Hcls Hn0 Hm0) as [HP|(ps0 & root & H1 & H2 & H3 & H4)]; [left; exact HP|].
  right. exists ps0, root. split; [exact H1|]. split; [exact H2|].
  fold n m cs0 clsf order0 in H3.
  pose proof H3 as (((anc & HTs) & Hsk & HTw) & _).
  assert (Eanc : anc = []).
  { destruct HTs as ((HL & _) & _). cbn in HL. destruct anc; [reflexivity|discriminate]. }
  subst anc. exists []. split; [split; [exact HTs|split; [exact Hsk|exact HTw]]|]. split; [exact H3|].
  split; [|split; [|split; [|split; [|split]]]].
  - split; [reflexivity|]. split; [intros k P HP; destruct k; discriminate|].
    split; [intros k P i HP; destruct k; discriminate|]. intros Hcb. cbn in Hcb. congruence.
  - intros P HP. discriminate.
  - split; cbn; apply repeat_length.
  - reflexivity.
  - intros _. cbn. rewrite H4. reflexivity.
  - discriminate.
Qed.

(* the best leaf dominates the whole tree *)
Theorem search_max : forall fuel p o gs, 0 < m -> canon_search fuel g cls = Ok (p, o, gs) ->
  exists root, refine g (erase cs0) = Some root /\ In (Some p) (leaves n g root) /\
    Permutation p (seq 0 n) /\ dom g n (certp g n p) root /\
    exists Q, rdesc g root Q /\ target Q = None /\ verts Q = p.
Proof.
  intros fuel p o gs Hm0 H.
  assert (Hn0 : 0 < n).
  { destruct (Nat.eq_dec n 0) as [E0|]; [|lia]. exfalso. unfold m, num_edges in Hm0. fold n in Hm0. rewrite E0 in Hm0. simpl in Hm0. lia. }
  destruct (search_leaf g cls Hg Hcls fuel p o gs Hm0 H) as (root & HRf & HIn).
  exists root. split; [exact HRf|]. split; [exact HIn|].
  destruct (canon_search_init_P Hn0 Hm0) as [HP|(ps0 & root' & HE & HRf' & HTop)]; [rewrite HP in H; discriminate|].
  assert (Er : Some root = Some root') by (rewrite <- HRf, <- HRf'; reflexivity). inversion Er; subst root'.
  rewrite HE in H. destruct (root_equitable root HRf) as [Heq Hfl].
  destruct (search_P g n m clsf order0 root Hg eq_refl eq_refl Hm0 Heq Hfl fuel _ _ p o gs HTop H) as (st' & (([_ HCb] & _ & Hcb) & HD & Ec & HPm) & -> & _).
  split; [exact HPm|]. split; [rewrite <- Ec; exact HD|].
  destruct (HCb Hcb) as (Q & HQ1 & HQ2 & HQ3). exists Q. split; [exact HQ1|]. split; [exact HQ2|]. symmetry. exact HQ3.
Qed.

End Final.
