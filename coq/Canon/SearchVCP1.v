(* Canon/SearchVCP1.v — verification conditions of Canon/SearchHoare.v for the third layer of the
   invariant (Canon/SearchInvP.v): the steps that move along the stack (worse, push, start and exit of
   jLoop, refinement, termination). *)
From Coq Require Import List Arith Bool ZArith Lia Permutation Sorted.
From Mamba Require Import Canon.Perm Canon.Iso Canon.Model Canon.Refine Canon.Sorted Canon.Tree Canon.Fuel
  Disjoint.Model Disjoint.Proofs Canon.SearchModel Canon.SearchHoare Canon.SearchCells Canon.SearchTarget
  Canon.SearchDeage Canon.SearchRefine Canon.SearchExec Canon.SearchValue Canon.SearchExpand Canon.SearchCert
  Canon.SearchOrder Canon.SearchEquiv Canon.SearchWalk Canon.SearchEquit Canon.SearchCut Canon.SearchSibling
  Canon.SearchLink Canon.SearchInvT Canon.SearchVCT Canon.SearchInvV Canon.SearchVCV Canon.SearchPrune
  Canon.SearchGroup Canon.SearchCutW Canon.SearchInvP.
Import ListNotations.
Open Scope nat_scope.

Lemma last_opt_exists : forall (A : Type) (l : list A), l <> [] -> exists x, last_opt l = Some x.
Proof.
  intros A l H. destruct (last_opt l) as [x|] eqn:E; [eauto|]. apply last_opt_none in E. contradiction.
Qed.

Lemma firstn_app_le' : forall (A : Type) (l r : list A) k, k <= length l -> firstn k (l ++ r) = firstn k l.
Proof. intros A l r k H. rewrite firstn_app. replace (k - length l) with 0 by lia. simpl. apply app_nil_r. Qed.

Lemma firstn_removelast : forall (A : Type) (l : list A) k, S k <= length l -> firstn k (removelast l) = firstn k l.
Proof. intros A l k H. rewrite removelast_firstn_len', firstn_firstn. f_equal. lia. Qed.

Lemma firstn_S_nth : forall (l : list nat) k, k < length l -> firstn (S k) l = firstn k l ++ [nth k l 0].
Proof.
  induction l as [|x l IH]; intros k H; [simpl in H; lia|]. destruct k; [reflexivity|].
  simpl. f_equal. apply IH. simpl in H. lia.
Qed.

Lemma nth_app_l : forall (l r : list nat) k, k < length l -> nth k (l ++ r) 0 = nth k l 0.
Proof. intros. apply app_nth1. assumption. Qed.

Section VCP1.
Variable g : graph.
Variables n m : nat.
Variable clsf : nat -> nat.
Variable order0 : list nat.
Variable root : part.
Hypothesis Hg : simple g.
Hypothesis Hn : length g = n.
Hypothesis Hm : m = num_edges g.
Hypothesis Hm0 : 0 < m.

Notation Xc := (Kc clsf order0).
Notation PPstep := (PPstep g n m clsf order0 root).
Notation PPtop := (PPtop g n m clsf order0 root).
Notation PPj := (PPj g n m clsf order0 root).
Notation PPref := (PPref g n m clsf order0 root).
Notation PPdone := (PPdone g n m clsf order0 root).
Notation PinvA := (PinvA g n clsf root).
Notation RecI := (RecI g n root).
Notation DomI := (DomI g n).
Notation WalkI := (WalkI g root).
Notation CWI := (CWI g n).

(* the child reached by one more entry of the path *)
Lemma walk_snoc : forall p j P Q, walk g root p = Some P -> child g P j = Some Q -> walk g root (p ++ [j]) = Some Q.
Proof. intros p j P Q H1 H2. rewrite walk_app, H1. simpl. rewrite H2. reflexivity. Qed.

Lemma walk_snoc_inv : forall p j P Q, walk g root p = Some P -> walk g root (p ++ [j]) = Some Q -> child g P j = Some Q.
Proof. intros p j P Q H1 H2. rewrite walk_app, H1 in H2. simpl in H2. destruct (child g P j); [exact H2|discriminate]. Qed.

(* the node of level k+1 is the child of rank path[k] of the node of level k *)
Lemma WalkI_child : forall anc path k P P', WalkI anc path -> S k < length path ->
  nth_error anc k = Some P -> nth_error anc (S k) = Some P' -> child g (erase P) (nth k path 0) = Some (erase P').
Proof.
  intros anc path k P P' HW Hk HP HP'. apply (walk_snoc_inv (firstn k path)); [apply HW; exact HP|].
  rewrite <- firstn_S_nth by lia. apply HW. exact HP'.
Qed.

(* ---------------------------------------------------------------- worse *)

Lemma VCP_worse : forall st, PPtop st true -> PPstep st.
Proof.
  intros st (anc & HT & HV & HPi & HSpl & Hpl & Hnil & _ & Hdom).
  pose proof HT as (HTs & Hsk & _). pose proof HV as (_ & _ & _ & _ & Hcbw).
  assert (Hne : s_path st <> []).
  { intros E. specialize (Hcbw (Hnil E)). discriminate. }
  pose proof HPi as (HLen & _).
  assert (HneA : anc <> []) by (intros E; rewrite E in HLen; destruct (s_path st); [congruence|discriminate]).
  destruct (last_opt_exists _ anc HneA) as [P HP].
  exists anc. split; [exact HTs|]. split; [apply (VCV_worse g n m clsf order0 root); exact HV|].
  split; [|split; [|split; [exact Hpl|intros E; contradiction]]].
  - apply (PinvA_lower g n clsf root anc st (S (ltop (s_path st))) (ltop (s_path st)) P HP ltac:(lia) HPi).
    intros i H1 H2. assert (i = ltop (s_path st)) by lia. subst i. intros Q HQ. left. apply (Hdom eq_refl P Q HP HQ).
  - intros P' HP'. rewrite Hsk. left. apply HSpl. exact HP'.
Qed.

(* ---------------------------------------------------------------- start of jLoop, termination *)

Lemma VCP_jstart : forall st top, PPstep st -> last_opt (s_path st) = Some top -> PPj st top.
Proof.
  intros st top (anc & HT & HV & HPi & HC & Hpl & _) E. exists anc.
  split; [apply (VCT_jstartA g n root Xc); assumption|].
  split; [apply (VCV_jstart g n m clsf order0 root); assumption|].
  rewrite (ltop_last _ _ E) in HPi. split; [exact HPi|split; assumption].
Qed.

Lemma VCP_done : forall st, PPstep st -> last_opt (s_path st) = None -> PPdone st.
Proof.
  intros st (anc & HT & HV & HPi & HC & Hpl & Hroot) E.
  pose proof (VCV_done g n m clsf order0 root st HV E) as HD. split; [exact HD|].
  apply last_opt_none in E. split; [apply Hroot; exact E|].
  destruct HD as (_ & _ & Hcb). destruct HPi as (_ & _ & _ & HR).
  destruct (HR Hcb) as (lenB & lenF & permF & gsC & _ & _ & R3 & R4 & _). split; assumption.
Qed.

(* ---------------------------------------------------------------- push *)

Lemma thr_push : forall path sz k, k < length path -> thr (path ++ [sz]) sz k = thr path (S (ltop path)) k.
Proof.
  intros path sz k Hk. unfold thr, ltop. rewrite app_length. simpl length.
  replace (S k =? length path + 1) with false by (symmetry; apply Nat.eqb_neq; lia).
  rewrite nth_app_l by exact Hk. destruct (S k =? length path) eqn:E; [|reflexivity].
  apply Nat.eqb_eq in E. replace (length path - 1) with k by lia. reflexivity.
Qed.

Lemma low_push : forall path sz k, k < length path -> low (path ++ [sz]) sz k <= low path (S (ltop path)) k.
Proof.
  intros path sz k Hk. unfold low, ltop. rewrite app_length. simpl length.
  replace (S k =? length path + 1) with false by (symmetry; apply Nat.eqb_neq; lia).
  rewrite nth_app_l by exact Hk. destruct (S k =? length path) eqn:E; [|lia].
  apply Nat.eqb_eq in E. replace (length path - 1) with k by lia. lia.
Qed.

(* no recorded leaf lies below the node that is pushed *)
Lemma shared_push : forall anc path cb rp rlen rperm (cells : list acell) sz k P,
  length anc = length path -> 1 <= length path ->
  RecI anc path (S (ltop path)) cb rp rlen rperm ->
  nth_error (anc ++ [cells]) k = Some P -> shared rp (path ++ [sz]) k ->
  k < length path /\ nth_error anc k = Some P /\ shared rp path k.
Proof.
  intros anc path cb rp rlen rperm cells sz k P HL H1 (_ & HLx & _) HP HS.
  destruct (Nat.lt_ge_cases k (length path)) as [Hk|Hk].
  - split; [exact Hk|]. rewrite nth_error_app1 in HP by lia. split; [exact HP|].
    unfold shared in *. rewrite firstn_app_le' in HS by lia. exact HS.
  - exfalso. assert (Ek : k = length path).
    { assert (k < length (anc ++ [cells])) by (apply nth_error_Some; rewrite HP; discriminate).
      rewrite app_length in H. simpl in H. lia. }
    subst k. unfold shared in HS. rewrite firstn_app_le', firstn_all in HS by lia.
    set (L := length path) in *.
    destruct (nth_error anc (L - 1)) as [P1|] eqn:E1; [|apply nth_error_None in E1; lia].
    assert (HS1 : shared rp path (L - 1)).
    { unfold shared. rewrite <- HS. rewrite firstn_firstn. f_equal. lia. }
    destruct (HLx (L - 1) P1 E1 HS1) as [_ Hlow].
    rewrite low_top in Hlow by (fold L; lia).
    assert (nth (L - 1) rp 0 = ltop path).
    { unfold ltop. fold L. rewrite <- HS.
      assert (forall (l : list nat) a b, a < b -> nth a (firstn b l) 0 = nth a l 0).
      { induction l as [|x l IH]; intros a b Hab; [destruct a, b; reflexivity|]. destruct b; [lia|]. destruct a; [reflexivity|].
        simpl. apply IH. lia. }
      rewrite H by lia. reflexivity. }
    lia.
Qed.

Lemma RecI_push : forall anc path cb rp rlen rperm (cells : list acell) sz,
  length anc = length path -> 1 <= length path ->
  RecI anc path (S (ltop path)) cb rp rlen rperm ->
  RecI (anc ++ [cells]) (path ++ [sz]) sz cb rp rlen rperm.
Proof.
  intros anc path cb rp rlen rperm cells sz HL H1 HR. pose proof HR as (HW & HLx & HD).
  split; [exact HW|]. split.
  - intros k P HP HS. destruct (shared_push _ _ _ _ _ _ _ _ _ _ HL H1 HR HP HS) as (Hk & HP' & HS').
    destruct (HLx k P HP' HS') as [A B]. split; [exact A|]. pose proof (low_push path sz k Hk). lia.
  - intros k P Q HP HS Ht HC. destruct (shared_push _ _ _ _ _ _ _ _ _ _ HL H1 HR HP HS) as (Hk & HP' & HS').
    rewrite (thr_push path sz k Hk) in Ht. apply (HD k P Q HP' HS' Ht HC).
Qed.

Lemma VCP_push : forall st, PPtop st false -> length (p_cells (s_ps st)) <> n -> PPstep (push_step st).
Proof.
  intros st (anc & HT & HV & HPi & HSpl & Hpl & Hnil & Hwalk & _) Hlen.
  pose proof (VCT_pushA g n root Xc anc st HT) as HT'.
  pose proof (VCV_push g n m clsf order0 root Hn Hm Hm0 st HV Hlen) as HV'.
  specialize (Hwalk eq_refl).
  pose proof HT as ((HS & HC & _) & Hsk & _). rewrite Hsk in HC. destruct HC as (HP & HN & _).
  pose proof HV as (_ & _ & _ & HCl & _). destruct (HCl eq_refl) as [(Hval & _ & Hspl) _].
  destruct HPi as (HLen & HW & HD & HR).
  unfold push_step, push_anc in *. destruct (first_big (p_cells (s_ps st)) 0) as [[e sz]|] eqn:EB.
  2:{ exfalso. apply Hlen. pose proof (first_big_none _ _ HN EB) as Hs.
      rewrite <- (singles_order_length _ Hs), (Permutation_length HP). apply seq_length. }
  destruct (first_big_spec _ _ _ _ HN EB) as (b & c & a & Ecs & HSb & Hsz & H2 & He & Hb).
  set (cells := p_cells (s_ps st)) in *. set (path := s_path st) in *.
  exists (anc ++ [cells]). split; [exact HT'|]. split; [exact HV'|].
  cbn [set_skip set_stack s_path s_choices s_skip s_ps s_cb s_cbPath s_cbPerm s_cbInv s_cbOrb s_fl s_flPath s_flInv s_gens].
  fold path. rewrite ltop_app.
  assert (Hfk : forall k, k <= length path -> firstn k (path ++ [sz]) = firstn k path) by (intros; apply firstn_app_le'; assumption).
  split; [|split; [|split; [exact Hpl|intros E; destruct path; discriminate]]].
  - (* PinvA *)
    unfold SearchInvP.PinvA, RecsI.
    cbn [set_skip set_stack s_path s_choices s_skip s_ps s_cb s_cbPath s_cbPerm s_cbInv s_cbOrb s_fl s_flPath s_flInv s_gens].
    fold path.
    split; [rewrite !app_length; simpl; lia|]. split; [|split].
    + intros k P HkP. destruct (Nat.lt_ge_cases k (length anc)) as [Hk|Hk].
      * rewrite nth_error_app1 in HkP by assumption. rewrite Hfk by lia. apply HW. exact HkP.
      * rewrite nth_error_app2 in HkP by assumption. destruct (k - length anc) eqn:Ek; simpl in HkP; [|destruct n0; discriminate].
        inversion HkP; subst P. replace k with (length path) by lia. rewrite Hfk, firstn_all by lia. exact Hwalk.
    + intros k P i HkP Ht. destruct (Nat.lt_ge_cases k (length anc)) as [Hk|Hk].
      * rewrite nth_error_app1 in HkP by assumption. rewrite thr_push in Ht by lia. apply (HD k P i HkP Ht).
      * rewrite nth_error_app2 in HkP by assumption. destruct (k - length anc) eqn:Ek; simpl in HkP; [|destruct n0; discriminate].
        inversion HkP; subst P. rewrite thr_top in Ht by (rewrite app_length; simpl; lia).
        intros Q HQ. exfalso. unfold child in HQ. rewrite Ecs, (target_erase b c a HSb ltac:(lia)) in HQ.
        destruct (nth_error (cverts c) i) eqn:Ei; [|discriminate].
        assert (i < length (cverts c)) by (apply nth_error_Some; rewrite Ei; discriminate). lia.
    + intros Hcb. assert (H1 : 1 <= length path).
      { destruct path eqn:Epath; [exfalso; apply Hcb; apply Hnil; reflexivity|simpl; lia]. }
      destruct (HR Hcb) as (lenB & lenF & permF & gsC & R1 & R2 & R3 & R4 & R5 & R6 & R7 & R8 & R9 & R10 & R11).
      exists lenB, lenF, permF, gsC.
      split; [apply RecI_push; assumption|]. split; [apply RecI_push; assumption|].
      repeat (split; [assumption|]). split; [|split; [exact R10|]].
      * intros gam k P Hgam HkP HSh. destruct (shared_push _ _ _ _ _ _ _ _ _ _ HLen H1 R2 HkP HSh) as (_ & A & B).
        apply (R9 gam k P Hgam A B).
      * intros gam k P Hgam HkP HSh. destruct (shared_push _ _ _ _ _ _ _ _ _ _ HLen H1 R1 HkP HSh) as (_ & A & B).
        apply (R11 gam k P Hgam A B).
  - (* CWI *)
    intros P HlP. rewrite last_opt_app in HlP. inversion HlP; subst P. left. fold cells. rewrite <- Hspl. exact Hval.
Qed.

(* ---------------------------------------------------------------- refinement *)

Lemma cb_length : forall st, recs g n m clsf order0 st -> s_cb st <> [] -> length (s_cb st) = num_edges g.
Proof.
  intros st HR Hcb. destruct (r_best _ _ _ _ _ _ HR Hcb) as (csb & HL & _ & _ & E & _). rewrite E.
  apply (cert_length g n csb Hg Hn HL).
Qed.

Lemma VCP_refine : forall st w ps', PPref st ->
  refine_s g n m (s_cb st) (s_fl st) (s_ps st) = Ok (w, ps') -> PPtop (set_ps st ps') w.
Proof.
  intros st w ps' (anc & HT & HV & HPi & HSpl & Hpl) HRf.
  pose proof (VCT_refineA g n m root Xc (Kc_V clsf order0) anc st w ps' HT HRf) as HT'.
  pose proof (VCV_refine g n m clsf order0 root Hn Hm Hm0 st w ps' HV HRf) as HV'.
  pose proof HT as ((HS & HC & _) & Hsk & Pn & b & c & a & x & j & HlP & HTg & Hlj & Hx & HE).
  rewrite Hsk in HC. destruct HC as (K1 & K2 & _).
  pose proof HV as (_ & _ & HRc & [HCl _]).
  assert (HO : length (order_of (p_cells (s_ps st))) = n) by (rewrite (Permutation_length K1); apply seq_length).
  pose proof HRf as HRf'. unfold refine_s in HRf'.
  destruct (refine_loop_V g n m _ _ _ _ _ _ K2 HO HCl HRf') as [Hle _].
  pose proof HPi as (HLen & HW & _).
  assert (Hne : s_path st <> []) by (intros E; rewrite E in Hlj; discriminate).
  assert (HL1 : 1 <= length (s_path st)) by (destruct (s_path st); [congruence|simpl; lia]).
  assert (HPn : nth_error anc (length (s_path st) - 1) = Some Pn) by (rewrite <- HLen, <- last_opt_nth; exact HlP).
  assert (Epath : s_path st = firstn (length (s_path st) - 1) (s_path st) ++ [j]).
  { rewrite <- (ltop_last _ _ Hlj). unfold ltop. rewrite <- firstn_S_nth by lia.
    replace (S (length (s_path st) - 1)) with (length (s_path st)) by lia. symmetry. apply firstn_all. }
  exists anc. split; [exact HT'|]. split; [exact HV'|]. split; [exact HPi|]. split; [|split; [exact Hpl|split; [|split]]].
  - intros P HP. specialize (HSpl P HP). cbn. lia.
  - intros E. contradiction.
  - intros ->. destruct (refine_s_spec _ _ _ _ _ _ _ _ HRf) as (_ & _ & Hres). destruct (Hres eq_refl) as [_ Hrf].
    cbn [set_ps s_path s_ps]. rewrite Epath. apply (walk_snoc _ _ (erase Pn)); [apply HW; exact HPn|].
    unfold child. rewrite HTg, Hx, <- HE. exact Hrf.
  - intros -> P Q HP HQ. cbn [set_ps s_path s_ps s_cb] in *. rewrite HlP in HP. inversion HP; subst P.
    rewrite (ltop_last _ _ Hlj) in HQ. unfold child in HQ. rewrite HTg, Hx, <- HE in HQ.
    destruct (refine_loop_cut g n m _ _ _ _ _ K2 HO HCl HRf') as ((j' & Hj' & Ev & Hps & Hsl & HLt) & Hfuel).
    unfold refine in HQ. change (verts (erase (p_cells (s_ps st)))) with (order_of (p_cells (s_ps st))) in HQ.
    rewrite erase_length in HQ. destruct (Hfuel Q HQ) as [k' Hk'].
    assert (Hcb : s_cb st <> []).
    { destruct HV' as (_ & _ & _ & _ & Hcbw). intros E. specialize (Hcbw E). discriminate. }
    destruct (refine_s_spec _ _ _ _ _ _ _ _ HRf) as (HVs & _ & _).
    apply (cut_dom g n Hg Hn (p_cells ps') (S j') (s_cb st) Q); try assumption; try lia.
    + apply cb_length; assumption.
    + rewrite <- Ev. exact HLt.
    + eapply refine_fuel_wrefp. exact Hk'.
    + eapply perm_trans; [eapply refine_fuel_verts; exact Hk'|]. change (verts (erase (p_cells ps'))) with (order_of (p_cells ps')).
      eapply perm_trans; [eapply V_order; exact HVs|exact K1].
    + assert (HIn : ne (erase (p_cells (s_ps st)))) by (apply nonempty_ne; exact K2).
      destruct (refine_total g _ HIn) as (Q0 & EQ & NQ & _). unfold refine in EQ.
      change (verts (erase (p_cells (s_ps st)))) with (order_of (p_cells (s_ps st))) in EQ. rewrite erase_length in EQ.
      rewrite HQ in EQ. inversion EQ; subst Q0. exact NQ.
Qed.

(* ---------------------------------------------------------------- exit of jLoop: all the children dismissed *)

Lemma nth_removelast' : forall (l : list nat) k, S k < length l -> nth k (removelast l) 0 = nth k l 0.
Proof.
  intros l k H. rewrite removelast_firstn_len'. apply nth_error_nth. rewrite nth_error_firstn by lia. apply nth_error_nth'. lia.
Qed.

Lemma low_pop : forall path k, S k < length path -> low (removelast path) (ltop (removelast path)) k = nth k path 0.
Proof.
  intros path k Hk. unfold low, ltop. rewrite removelast_length. destruct (S k =? length path - 1) eqn:E.
  - apply Nat.eqb_eq in E. replace (length path - 1 - 1) with k by lia. apply nth_removelast'. exact Hk.
  - apply nth_removelast'. exact Hk.
Qed.

Lemma thr_pop : forall path k, S k < length path ->
  thr (removelast path) (ltop (removelast path)) k = if S k =? length path - 1 then nth k path 0 else S (nth k path 0).
Proof.
  intros path k Hk. unfold thr, ltop. rewrite removelast_length. destruct (S k =? length path - 1) eqn:E.
  - apply Nat.eqb_eq in E. replace (length path - 1 - 1) with k by lia. apply nth_removelast'. exact Hk.
  - rewrite nth_removelast' by exact Hk. reflexivity.
Qed.

Lemma shared_pop : forall (anc : list (list acell)) path rp k P, length anc = length path ->
  nth_error (removelast anc) k = Some P -> shared rp (removelast path) k ->
  nth_error anc k = Some P /\ S k < length path /\ shared rp path k.
Proof.
  intros anc path rp k P HL HP HS. destruct (nth_removelast_inv _ _ _ _ HP) as [A B]. rewrite HL in B.
  split; [exact A|]. split; [exact B|]. unfold shared in *. rewrite firstn_removelast in HS by lia. exact HS.
Qed.

(* the node on top of the stack is the child of rank path[L-2] of the node below *)
Lemma top_is_child : forall anc path k P Plast, length anc = length path -> WalkI anc path ->
  nth_error anc k = Some P -> S k = length path - 1 -> last_opt anc = Some Plast ->
  child g (erase P) (nth k path 0) = Some (erase Plast).
Proof.
  intros anc path k P Plast HL HW HP Hk HPl. rewrite last_opt_nth, HL in HPl.
  apply (WalkI_child anc path k P Plast HW ltac:(lia) HP). replace (S k) with (length path - 1) by lia. exact HPl.
Qed.

Lemma RecI_pop : forall anc path cb rp rlen rperm Plast, length anc = length path -> WalkI anc path ->
  last_opt anc = Some Plast -> dom g n cb (erase Plast) ->
  RecI anc path 0 cb rp rlen rperm ->
  RecI (removelast anc) (removelast path) (ltop (removelast path)) cb rp rlen rperm.
Proof.
  intros anc path cb rp rlen rperm Plast HL HWk HPl HDl (HW & HLx & HD). split; [exact HW|]. split.
  - intros k P HP HS. destruct (shared_pop _ _ _ _ _ HL HP HS) as (A & B & C).
    destruct (HLx k P A C) as [H1 H2]. split; [exact H1|]. rewrite low_pop by exact B.
    rewrite low_low in H2 by lia. exact H2.
  - intros k P Q HP HS Ht HC. destruct (shared_pop _ _ _ _ _ HL HP HS) as (A & B & C).
    rewrite thr_pop in Ht by exact B. destruct (S k =? length path - 1) eqn:E.
    + apply Nat.eqb_eq in E. destruct (Nat.eq_dec (nth k rp 0) (nth k path 0)) as [Eq|Ne].
      * rewrite Eq in HC. rewrite (top_is_child anc path k P Plast HL HWk A E HPl) in HC. inversion HC; subst Q. exact HDl.
      * apply (HD k P Q A C); [|exact HC]. rewrite thr_low by lia. lia.
    + apply (HD k P Q A C); [|exact HC]. rewrite thr_low by lia. exact Ht.
Qed.

Lemma VCP_jexit : forall st st1, PPj st 0 -> undo st = Ok st1 -> PPstep (pop st1).
Proof.
  intros st st1 (anc & HT & HV & HPi & HC & Hpl) HU.
  pose proof (VCT_jexitA g n root Xc anc st st1 HT HU) as HT'.
  pose proof (VCV_jexit g n m clsf order0 root Hn Hm Hm0 st st1 HV HU) as HV'.
  pose proof HT as (HS & HCu & Hne & _). pose proof HV as (_ & HVst & _).
  destruct (undo_V g n m clsf order0 root Hn Hm Hm0 _ _ _ HS HCu Hne HVst HU) as (P & EP & HN & Est1 & HUi).
  destruct HPi as (HLen & HW & HD & HR).
  destruct (node_target g n root Xc _ _ HN) as (b & c & a & e & sz & EPc & HSb & Hb & Hsz & H2 & HB & He & HTg & _).
  (* everything below the node on top of the stack is dominated *)
  assert (HDl : dom g n (s_cb st) (erase P)).
  { apply dom_resolve; [rewrite HTg; discriminate|]. intros i.
    apply (HD (length (s_path st) - 1) P i); [rewrite <- HLen, <- last_opt_nth; exact EP|].
    rewrite thr_top; [lia|]. destruct (s_path st); [congruence|simpl; lia]. }
  assert (HL1 : 1 <= length (s_path st)) by (destruct (s_path st); [congruence|simpl; lia]).
  exists (removelast anc). split; [exact HT'|]. split; [exact HV'|].
  subst st1. unfold pop.
  cbn [set_skip set_ps set_stack s_path s_choices s_skip s_ps s_cb s_cbPath s_cbPerm s_cbInv s_cbOrb s_fl s_flPath s_flInv s_gens].
  split; [|split; [|split; [exact Hpl|]]].
  - unfold SearchInvP.PinvA, RecsI.
    cbn [set_skip set_ps set_stack s_path s_choices s_skip s_ps s_cb s_cbPath s_cbPerm s_cbInv s_cbOrb s_fl s_flPath s_flInv s_gens].
    split; [rewrite !removelast_length; lia|]. split; [|split].
    + intros k P' HP'. destruct (nth_removelast_inv _ _ _ _ HP') as [A B]. rewrite HLen in B.
      rewrite firstn_removelast by lia. apply HW. exact A.
    + intros k P' i HP' Ht. destruct (nth_removelast_inv _ _ _ _ HP') as [A B]. rewrite HLen in B.
      rewrite thr_pop in Ht by exact B. destruct (S k =? length (s_path st) - 1) eqn:E.
      * apply Nat.eqb_eq in E. destruct (Nat.eq_dec i (nth k (s_path st) 0)) as [->|Ne].
        -- intros Q HQ. left. rewrite (top_is_child anc (s_path st) k P' P HLen HW A E EP) in HQ. inversion HQ; subst Q. exact HDl.
        -- apply (HD k P' i A). rewrite thr_low by lia. lia.
      * apply (HD k P' i A). rewrite thr_low by lia. exact Ht.
    + intros Hcb. destruct (HR Hcb) as (lenB & lenF & permF & gsC & R1 & R2 & R3 & R4 & R5 & R6 & R7 & R8 & R9 & R10 & R11).
      exists lenB, lenF, permF, gsC.
      split; [eapply RecI_pop; eassumption|]. split; [eapply RecI_pop; eassumption|].
      repeat (split; [assumption|]). split; [|split; [exact R10|]].
      * intros gam k P' Hgam HP' HSh. destruct (shared_pop _ _ _ _ _ HLen HP' HSh) as (A & B & C). apply (R9 gam k P' Hgam A C).
      * intros gam k P' Hgam HP' HSh. destruct (shared_pop _ _ _ _ _ HLen HP' HSh) as (A & B & C). apply (R11 gam k P' Hgam A C).
  - (* CWI *)
    intros P' HP'. left. cbn [set_skip set_ps set_stack s_skip s_ps p_spl].
    destruct HUi as [Es _]. rewrite Es.
    destruct (last_removelast _ _ _ HP') as [A B].
    destruct HS as (_ & _ & _ & HCn & _). apply (chain_fns (S (length anc - 2)) P P').
    apply (HCn (length anc - 2) P' P A). replace (S (length anc - 2)) with (length anc - 1) by lia. rewrite <- last_opt_nth. exact EP.
  - intros E. assert (HL : length (s_path st) = 1).
    { pose proof (removelast_length _ (s_path st)) as HRl. rewrite E in HRl. simpl in HRl. lia. }
    assert (H0 : nth_error anc 0 = Some P) by (rewrite last_opt_nth, HLen, HL in EP; exact EP).
    pose proof (HW 0 P H0) as HW0. simpl in HW0. inversion HW0 as [Eroot]. exact HDl.
Qed.

End VCP1.
