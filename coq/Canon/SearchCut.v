(* Canon/SearchCut.v — soundness of the partial-certificate cut-off: the singleton bins in front of a
   partition stay where they are in everything that refines it in place, so the entries of that
   prefix are a prefix of the certificate of every leaf below; if they already lose against a
   certificate of full length, so does every such leaf. *)
From Coq Require Import List Arith Bool ZArith Lia Permutation Sorted.
From Mamba Require Import Canon.Perm Canon.Iso Canon.Model Canon.Refine Canon.Sorted Canon.Tree Canon.Fuel
  Disjoint.Model Canon.SearchModel Canon.SearchCells Canon.SearchTarget Canon.SearchDeage Canon.SearchRefine
  Canon.SearchValue Canon.SearchExpand Canon.SearchCert Canon.SearchOrder Canon.SearchEquiv Canon.SearchWalk.
Import ListNotations.
Open Scope nat_scope.

Lemma nth_error_map_some : forall (A B : Type) (f : A -> B) l k y, nth_error (map f l) k = Some y ->
  exists x, nth_error l k = Some x /\ f x = y.
Proof.
  induction l as [|a l IH]; intros k y H; destruct k; simpl in H; try discriminate.
  - inversion H. exists a. split; reflexivity.
  - apply IH. exact H.
Qed.

(* ---------------------------------------------------------------- the singleton prefix persists *)

Lemma wrefp_single_head : forall (c : cell) (l : part) x, Permutation (verts l) (snd c) -> snd c = [x] -> ne l ->
  exists fl, l = [(fl, [x])].
Proof.
  intros c l x HP Hc Hne. rewrite Hc in HP. destruct l as [|[fl0 v0] l].
  - change (verts []) with (@nil nat) in HP. apply Permutation_nil in HP. discriminate.
  - inversion Hne; subst. simpl in H1. rewrite verts_cons in HP. simpl in HP.
    destruct l as [|[fl1 v1] l].
    + unfold verts in HP. simpl in HP. rewrite app_nil_r in HP. apply Permutation_sym, Permutation_length_1_inv in HP. subst v0. eauto.
    + exfalso. inversion H2; subst. simpl in H3. apply Permutation_length in HP.
      rewrite app_length, verts_cons, app_length in HP. simpl in HP.
      destruct v0; [congruence|]. destruct v1; [congruence|]. simpl in HP. lia.
Qed.

Lemma wrefp_prefix : forall P Q s, wrefp P Q -> ne Q -> s <= length P ->
  (forall k c, k < s -> nth_error P k = Some c -> exists x, snd c = [x]) ->
  firstn s (map snd Q) = firstn s (map snd P).
Proof.
  intros P Q s (parts & HF & ->). revert s. induction HF as [|c l P parts Hc _ IH]; intros s Hne Hs HP.
  - simpl in Hs. assert (s = 0) by lia. subst. reflexivity.
  - destruct s as [|s]; [reflexivity|]. simpl in Hne. apply Forall_app in Hne. destruct Hne as [Hl Hrest].
    destruct (HP 0 c ltac:(lia) eq_refl) as [x Hx].
    destruct (wrefp_single_head c l x Hc Hx Hl) as [fl ->]. simpl. rewrite Hx. f_equal.
    apply IH; [exact Hrest|simpl in Hs; lia|]. intros k d Hk Hd. apply (HP (S k) d); [lia|exact Hd].
Qed.

Section Cut.
Variable g : graph.
Variable n : nat.
Hypothesis Hg : simple g.
Hypothesis Hn : length g = n.

Notation good := (good g n).

(* the entries of the singleton prefix of cs are a prefix of the certificate of a leaf that has the
   same bins in front *)
Lemma cert_prefix : forall cs s L, s <= n -> s <= length cs ->
  firstn s (map snd L) = firstn s (map cverts cs) -> Forall (fun c => exists x, snd c = [x]) L ->
  exists rest, certp g n (verts L) = good cs s ++ rest.
Proof.
  intros cs s L Hle Hs HF HL. unfold certp.
  rewrite (good_split g n (lcells (verts L)) s n Hle). eexists. f_equal.
  rewrite <- (good_strip g n cs). apply good_prefix.
  assert (E : map cverts (lcells (verts L)) = map snd L).
  { clear - HL. induction HL as [|c L [x Hx] _ IH]; [reflexivity|]. rewrite verts_cons, Hx. simpl. rewrite Hx. f_equal. exact IH. }
  assert (G : forall (A B : list acell) k, firstn k (map cverts A) = firstn k (map cverts B) ->
            Forall (fun c => cage c = 0%Z) A -> Forall (fun c => cage c = 0%Z) B ->
            Forall2 same_cell (firstn k A) (firstn k B)).
  { induction A as [|x A IHA]; intros [|y B] k H HA HB; destruct k; simpl in *; try discriminate; try constructor.
    - inversion H. inversion HA; subst. inversion HB; subst. split; [congruence|assumption].
    - inversion H. inversion HA; subst. inversion HB; subst. apply IHA; assumption. }
  apply G.
  - rewrite E, HF. unfold strip. rewrite map_map. reflexivity.
  - apply Forall_forall. intros c Hc. unfold lcells in Hc. apply in_map_iff in Hc. destruct Hc as (v & <- & _). reflexivity.
  - apply Forall_forall. intros c Hc. apply in_map_iff in Hc. destruct Hc as (d & <- & _). reflexivity.
Qed.

(* a partial certificate that has lost against cb: every leaf that refines the partition in place is dominated *)
Theorem cut_dom : forall cs s cb Q, s <= n -> s <= length cs -> prefix_single cs s ->
  length cb = num_edges g -> cmp_list (good cs s) (firstn (length (good cs s)) cb) = Lt ->
  wrefp (erase cs) Q -> Permutation (verts Q) (seq 0 n) -> ne Q -> dom g n cb Q.
Proof.
  intros cs s cb Q Hsn Hs HP Hcb HLt HW HPm HNe Q' HR HL.
  assert (Hnd : NoDup (verts Q)) by (apply (Permutation_NoDup (Permutation_sym HPm)), seq_NoDup).
  pose proof (rdesc_wrefp g Q Q' HR Hnd) as HW2. pose proof (wrefp_trans _ _ _ HW HW2) as HW3.
  pose proof (rdesc_verts g Q Q' HR Hnd) as HPv.
  assert (HPQ' : Permutation (verts Q') (seq 0 n)) by (eapply perm_trans; eassumption).
  (* the leaf: all bins singletons, none empty *)
  assert (HNe' : ne Q').
  { clear - HR HNe Hnd. induction HR as [P|P b c a v P' Q HT Hv HRf HR IH]; [exact HNe|].
    destruct (target_spec _ _ _ _ HT) as [fl [EP _]].
    assert (Hcnd : NoDup c).
    { subst P. rewrite verts_app, verts_cons in Hnd. simpl in Hnd. apply NoDup_app_r in Hnd. apply NoDup_app_l in Hnd. exact Hnd. }
    pose proof (indiv_verts b c a fl v Hcnd Hv) as HIV. rewrite <- EP in HIV.
    assert (HIn : ne (indiv b c a v)).
    { subst P. apply Forall_app in HNe. destruct HNe as [Hb Ha]. inversion Ha; subst.
      unfold indiv. apply ne_app; [exact Hb|]. constructor; [simpl; discriminate|]. constructor; [|assumption]. simpl.
      pose proof (Permutation_length HIV) as HLen. unfold indiv in HLen.
      rewrite !verts_app, !verts_cons in HLen. repeat rewrite app_length in HLen. simpl in HLen. repeat rewrite app_length in HLen.
      pose proof (target_spec _ _ _ _ HT) as [fl' [_ Hc2]].
      destruct (filter (fun u => negb (u =? v)) c); [simpl in HLen; lia|discriminate]. }
    destruct (refine_total g _ HIn) as (Q0 & EQ & NQ & _). rewrite HRf in EQ. inversion EQ; subst Q0.
    apply IH; [exact NQ|]. pose proof (refine_verts _ _ _ HRf) as HQv.
    apply (Permutation_NoDup (Permutation_sym (Permutation_trans HQv HIV))). exact Hnd. }
  assert (HSi : Forall (fun c => exists x, snd c = [x]) Q').
  { pose proof (target_none _ HL) as HT1. clear - HT1 HNe'. induction HT1 as [|c Q' Hc _ IH]; [constructor|].
    inversion HNe'; subst. constructor; [|apply IH; assumption].
    destruct (snd c) as [|x [|y t]]; [congruence|eauto|simpl in Hc; lia]. }
  assert (HF : firstn s (map snd Q') = firstn s (map cverts cs)).
  { rewrite (wrefp_prefix (erase cs) Q' s HW3 HNe'); [unfold erase; rewrite map_map; reflexivity|rewrite erase_length; exact Hs|].
    intros k c Hk Hc. unfold erase in Hc. apply nth_error_map_some in Hc. destruct Hc as (d & Ed & <-).
    destruct (HP k d Hk Ed) as [x Hx]. exists x. exact Hx. }
  destruct (cert_prefix cs s Q' Hsn Hs HF HSi) as (rest & Erest).
  unfold cle. rewrite Erest.
  assert (HLen : length (good cs s ++ rest) = length cb).
  { rewrite <- Erest, Hcb. unfold certp. apply (cert_length g n (lcells (verts Q')) Hg Hn). apply lcells_leafp. exact HPQ'. }
  rewrite (cmp_prefix_lt _ _ _ HLen HLt). discriminate.
Qed.

End Cut.
