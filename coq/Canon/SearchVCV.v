(* Canon/SearchVCV.v — the verification conditions of Canon/SearchHoare.v for the second layer of
   the invariant (Canon/SearchInvV.v) on top of the first (Canon/SearchVCT.v). *)
From Coq Require Import List Arith Bool ZArith Lia Permutation Sorted.
From Mamba Require Import Canon.Perm Canon.Iso Canon.Model Canon.Refine Canon.Sorted Canon.Tree Canon.Fuel
  Disjoint.Model Disjoint.Proofs Canon.SearchModel Canon.SearchHoare Canon.SearchCells Canon.SearchTarget
  Canon.SearchDeage Canon.SearchRefine Canon.SearchExec Canon.SearchValue Canon.SearchExpand Canon.SearchCert
  Canon.SearchInvT Canon.SearchVCT Canon.SearchInvV.
Import ListNotations.
Open Scope nat_scope.

(* ---------------------------------------------------------------- the bin that was split *)

Lemma fns_lower : forall cs b, (forall k, k <= b -> exists c, nth_error cs k = Some c /\ single c) -> b < fns cs.
Proof.
  induction cs as [|c0 cs IH]; intros b H.
  - destruct (H 0 ltac:(lia)) as (c & Hc & _). discriminate.
  - destruct (H 0 ltac:(lia)) as (c & Hc & Hs). simpl in Hc. inversion Hc; subst c0.
    simpl. apply single_length in Hs. rewrite Hs. simpl. destruct b; [lia|].
    apply -> Nat.succ_lt_mono. apply IH. intros k Hk. apply (H (S k)). lia.
Qed.

Lemma child_prefix : forall L child P k, child_of L child P -> k <= fns P ->
  exists c, nth_error child k = Some c /\ single c /\ (k < fns P -> exists p, nth_error P k = Some p /\ same_cell p c).
Proof.
  intros L child P k (_ & HF & c & Hc & _ & Hcs) Hk. destruct (Nat.eq_dec k (fns P)) as [->|Hne].
  - exists c. split; [exact Hc|]. split; [exact Hcs|]. intros; lia.
  - assert (Hk' : k < fns P) by lia.
    assert (Hlen : fns P <= length child) by (apply Nat.lt_le_incl, nth_error_Some; rewrite Hc; discriminate).
    destruct (nth_error child k) as [d|] eqn:Ed; [|apply nth_error_None in Ed; lia].
    assert (HFk : nth_error (firstn (fns P) child) k = Some d) by (rewrite nth_firstn_lt; assumption).
    destruct (F2_nth_r _ _ _ _ _ HF _ _ HFk) as (p & Hp & Hpd). rewrite nth_firstn_lt in Hp by assumption.
    exists d. split; [reflexivity|]. split.
    + destruct (fns_prefix _ _ _ Hk' Hp) as [x Hx]. exists x. destruct Hpd as [_ Hv]. rewrite <- Hv. exact Hx.
    + intros _. exists p. split; assumption.
Qed.

Lemma chain_fns : forall L child P, child_of L child P -> fns P < fns child.
Proof.
  intros L child P H. apply fns_lower. intros k Hk. destruct (child_prefix _ _ _ k H Hk) as (c & H1 & H2 & _). eauto.
Qed.

Lemma fage_child : forall L child P, child_of (S L) child P -> ages_le (zl L) P -> fage (zl (S L)) child = fns P.
Proof.
  intros L child P H HA. pose proof H as (_ & _ & c & Hc & Hca & _).
  eapply fage_char; [|exact Hc|exact Hca].
  intros k d Hk Hd. destruct (child_prefix _ _ _ k H ltac:(lia)) as (c' & H1 & _ & H3).
  rewrite Hd in H1. inversion H1; subst c'. destruct (H3 Hk) as (p & Hp & [Hpa _]).
  unfold ages_le in HA. rewrite Forall_forall in HA. specialize (HA p (nth_error_In _ _ Hp)). simpl in HA.
  rewrite <- Hpa. unfold zl in *. lia.
Qed.

(* a splitting step leaves the index of the first bin of the current age where it is *)
Lemma fage_V : forall L child child' P, child_of (S L) child P -> ages_le (zl L) P -> V (zl (S L)) child child' ->
  fage (zl (S L)) child' = fage (zl (S L)) child.
Proof.
  intros L child child' P H HA HV. rewrite (fage_child _ _ _ H HA).
  apply (fage_child L child' P); [|exact HA]. eapply child_of_V; eassumption.
Qed.


Section VCV.
Variable g : graph.
Variables n m : nat.
Variable clsf : nat -> nat.
Variable order0 : list nat.
Variable root : part.
Hypothesis Hg : simple g.
Hypothesis Hn : length g = n.
Hypothesis Hm : m = num_edges g.
Hypothesis Hm0 : 0 < m.

Notation Xc := (Kc clsf order0).
Notation node_ok := (node_ok g n root Xc).
Notation cur_ok := (cur_ok n Xc).
Notation stack_ok := (stack_ok g n root Xc).
Notation TPstep := (TPstep g n root Xc).
Notation TPtop := (TPtop g n root Xc).
Notation TPj := (TPj g n root Xc).
Notation TPref := (TPref g n root Xc).
Notation cb_ok := (cb_ok g n root).
Notation recs := (recs g n m clsf order0).
Notation vst := (vst g n).
Notation cclean := (cclean g n).
Notation uinv := (uinv g n).
Notation cinv := (cinv g n).
Notation vinv := (vinv g n).
Notation clean := (clean g n).

Definition VPstep (st : sstate) : Prop :=
  TPstep st /\ vst st /\ recs st /\
  (s_cb st = [] -> s_path st <> [] /\ s_skip st = true /\ forall top, last_opt (s_path st) = Some top -> 1 <= top).

Definition VPtop (st : sstate) (w : bool) : Prop :=
  TPtop st w /\ vst st /\ recs st /\ (w = false -> cclean st) /\ (s_cb st = [] -> w = false).

Definition VPj (st : sstate) (j : nat) : Prop :=
  TPj st j /\ vst st /\ recs st /\ (s_cb st = [] -> 1 <= j /\ s_skip st = true).

Definition VPref (st : sstate) : Prop := TPref st /\ vst st /\ recs st /\ cclean st.

Definition VPdone (st : sstate) : Prop := cb_ok st /\ recs st /\ s_cb st <> [].

(* ---------------------------------------------------------------- easy conditions *)

Lemma VCV_worse : forall st, VPtop st true -> VPstep st.
Proof.
  intros st (HT & HV & HR & _ & Hcb). split; [apply (VCT_worse g n root Xc); exact HT|]. split; [exact HV|]. split; [exact HR|].
  intros E. specialize (Hcb E). discriminate.
Qed.

Lemma VCV_done : forall st, VPstep st -> last_opt (s_path st) = None -> VPdone st.
Proof.
  intros st (HT & HV & HR & Hcb) E. split; [eapply VCT_done; eassumption|]. split; [exact HR|].
  intros Ecb. destruct (Hcb Ecb) as [Hp _]. apply last_opt_none in E. contradiction.
Qed.

Lemma VCV_jstart : forall st top, VPstep st -> last_opt (s_path st) = Some top -> VPj st top.
Proof.
  intros st top (HT & HV & HR & Hcb) E. split; [apply VCT_jstart; assumption|]. split; [exact HV|]. split; [exact HR|].
  intros Ecb. destruct (Hcb Ecb) as (_ & Hs & Ht). split; [apply Ht; exact E|exact Hs].
Qed.

Lemma VCV_push : forall st, VPtop st false -> length (p_cells (s_ps st)) <> n -> VPstep (push_step st).
Proof.
  intros st (HT & HV & HR & HC & Hcb) Hlen. destruct (HC eq_refl) as [(Hv & HP & Hs) _].
  split; [apply (VCT_push g n root Xc); exact HT|].
  destruct HT as [(anc & HS & HCu & _) [Hsk _]]. rewrite Hsk in HCu. destruct HCu as (K1 & K2 & _).
  unfold push_step. destruct (first_big (p_cells (s_ps st)) 0) as [[e sz]|] eqn:EB.
  - destruct (first_big_spec _ _ _ _ K2 EB) as (b & c & a & _ & _ & _ & Hsz & _).
    cbn [set_skip set_stack s_path s_choices s_skip s_ps s_cb s_fl]. split; [|split].
    + unfold SearchInvV.vst. cbn [set_skip set_stack s_skip s_ps s_cb s_fl].
      split; [exact Hs|exact Hv].
    + eapply recs_ext; [| | | | | | | |exact HR]; reflexivity.
    + intros _. split; [destruct (s_path st); discriminate|]. split; [reflexivity|].
      intros top Ht. rewrite last_opt_app in Ht. inversion Ht. lia.
  - exfalso. apply Hlen. pose proof (first_big_none _ _ K2 EB) as HSi.
    rewrite <- (singles_order_length _ HSi). rewrite (Permutation_length K1). apply seq_length.
Qed.

(* ---------------------------------------------------------------- undo and pop *)

Definition vlev (path : list nat) (ps : pstate) (cb fl : list nat) : Prop :=
  match path with
  | [] => vinv (p_cells ps) (p_value ps) (p_spl ps) cb fl
  | _ :: _ => cinv (fage (p_age ps) (p_cells ps)) (p_cells ps) (p_value ps) (p_spl ps) cb fl
  end.

Lemma vst_vlev : forall st, s_skip st = false -> (vst st <-> vlev (s_path st) (s_ps st) (s_cb st) (s_fl st)).
Proof. intros st H. unfold SearchInvV.vst, vlev. rewrite H. reflexivity. Qed.

Lemma vlev_ne : forall path ps cb fl, path <> [] ->
  (vlev path ps cb fl <-> cinv (fage (p_age ps) (p_cells ps)) (p_cells ps) (p_value ps) (p_spl ps) cb fl).
Proof. intros [|t0 pt] ps cb fl H; [congruence|reflexivity]. Qed.

Lemma path_cases : forall path : list nat, path = [] \/ (path <> [] /\ 1 <= length path).
Proof. intros [|t0 pt]; [left; reflexivity|right; split; [discriminate|simpl; lia]]. Qed.

Lemma zl_pred : forall L, 1 <= L -> (zl L - 1)%Z = zl (L - 1).
Proof. intros L H. unfold zl. lia. Qed.

Lemma undo_V : forall st st1 anc, stack_ok anc (s_path st) (s_choices st) ->
  cur_ok anc (length (s_path st)) (s_skip st) (s_ps st) -> s_path st <> [] -> vst st -> undo st = Ok st1 ->
  exists P, last_opt anc = Some P /\ node_ok (length (s_path st) - 1) P /\
    st1 = set_skip (set_ps st (mkP P (zl (length (s_path st)) - 1)%Z
             (snd (undo_sv (s_skip st) (fns P) (p_spl (s_ps st)) (p_value (s_ps st))))
             (fst (undo_sv (s_skip st) (fns P) (p_spl (s_ps st)) (p_value (s_ps st)))))) false /\
    uinv P (snd (undo_sv (s_skip st) (fns P) (p_spl (s_ps st)) (p_value (s_ps st))))
           (fst (undo_sv (s_skip st) (fns P) (p_spl (s_ps st)) (p_value (s_ps st)))) (s_cb st) (s_fl st).
Proof.
  intros st st1 anc HS HC Hne HV HU.
  destruct (undo_T g n root Xc _ _ _ HS HC Hne HU) as (P & EP & HN & Est1).
  exists P. split; [exact EP|]. split; [exact HN|]. split; [exact Est1|].
  assert (HL : 1 <= length (s_path st)) by (destruct (s_path st); [congruence|simpl; lia]).
  unfold SearchInvV.vst in HV. unfold undo_sv. destruct (s_skip st) eqn:Esk.
  - destruct HC as (_ & _ & _ & _ & P0 & HP0 & Hcells & _). rewrite EP in HP0. injection HP0 as HP0.
    cbn [fst snd]. rewrite HP0, <- Hcells. exact HV.
  - destruct (s_path st) as [|t0 pt] eqn:Ept; [congruence|]. rewrite <- Ept in *.
    destruct HC as (_ & _ & _ & _ & Hage & _ & HCh). rewrite EP in HCh.
    replace (length (s_path st)) with (S (length (s_path st) - 1)) in HCh, Hage by lia.
    rewrite Hage in HV. rewrite (fage_child _ _ _ HCh (no_ages _ _ _ _ _ _ HN)) in HV.
    apply (deage_V g n (fns P) (p_cells (s_ps st))); [exact HV| |reflexivity].
    destruct HCh as (_ & HF & _). exact HF.
Qed.

Lemma pop_V : forall anc path choices P v s cb fl, stack_ok anc path choices -> last_opt anc = Some P ->
  uinv P v s cb fl -> vlev (removelast path) (mkP P (zl (length path) - 1)%Z v s) cb fl.
Proof.
  intros anc path choices P v s cb fl HS EP HU. unfold vlev. cbn [p_cells p_age p_value p_spl].
  destruct (removelast path) as [|t0 pt] eqn:Erl; [apply uinv_vinv; exact HU|].
  assert (HL2 : 2 <= length path).
  { assert (length (removelast path) = length path - 1) by apply removelast_length. rewrite Erl in H. simpl in H. lia. }
  destruct HS as (HL1 & _ & HNo & HCn & _).
  assert (exists P', nth_error anc (length path - 2) = Some P') as [P' EP'].
  { destruct (nth_error anc (length path - 2)) eqn:E; [eauto|]. apply nth_error_None in E. lia. }
  rewrite last_opt_nth in EP.
  assert (HCh : child_of (S (length path - 2)) P P').
  { eapply HCn; [exact EP'|]. replace (S (length path - 2)) with (length anc - 1) by lia. exact EP. }
  rewrite zl_pred by lia. replace (length path - 1) with (S (length path - 2)) by lia.
  rewrite (fage_child _ _ _ HCh (no_ages _ _ _ _ _ _ (HNo _ _ EP'))).
  apply uinv_cinv; [exact HU|]. eapply chain_fns. exact HCh.
Qed.

Lemma VCV_jexit : forall st st1, VPj st 0 -> undo st = Ok st1 -> VPstep (pop st1).
Proof.
  intros st st1 (HT & HV & HR & Hcb) HU.
  assert (Ecb : s_cb st <> []) by (intros E; destruct (Hcb E); lia).
  split; [eapply VCT_jexit; eassumption|].
  destruct HT as (anc & HS & HC & Hne & _).
  destruct (undo_V _ _ _ HS HC Hne HV HU) as (P & EP & HN & -> & HUi).
  unfold pop. cbn [set_stack set_skip set_ps s_path s_choices s_skip s_ps s_cb s_fl]. split; [|split].
  - apply vst_vlev; [reflexivity|]. cbn [set_stack set_skip set_ps s_path s_choices s_skip s_ps s_cb s_fl].
    eapply pop_V; eassumption.
  - eapply recs_ext; [| | | | | | | |exact HR]; reflexivity.
  - intros E. cbn in E. contradiction.
Qed.

(* ---------------------------------------------------------------- one iteration of jLoop *)

Lemma in_firstn : forall (A : Type) (l : list A) k x, In x (firstn k l) -> In x l.
Proof. intros A l k x H. rewrite <- (firstn_skipn k l). apply in_or_app. left. exact H. Qed.

Lemma in_skipn : forall (A : Type) (l : list A) k x, In x (skipn k l) -> In x l.
Proof. intros A l k x H. rewrite <- (firstn_skipn k l). apply in_or_app. right. exact H. Qed.

Lemma h2_Rep : forall count lpath path ds order pos j v d b ps, h2 count lpath path ds order pos j v = Ok (d, b) ->
  Rep n ds ps -> (forall u, In u order -> u < n) -> v < n -> Rep n d ps.
Proof.
  intros count lpath path ds order pos j v d b ps H HR HO Hv.
  destruct (h2_cases _ _ _ _ _ _ _ _ _ _ H) as [[-> _]|[_ HM]]; [exact HR|].
  eapply has_earlier_mate_Rep; [exact HR|exact Hv| |exact HM].
  intros u Hu. apply HO. apply in_firstn in Hu. apply in_skipn in Hu. exact Hu.
Qed.

Lemma h2_zero : forall lpath path ds order pos j v d b, h2 0 lpath path ds order pos j v = Ok (d, b) -> b = false.
Proof. intros. unfold h2 in H. simpl in H. inversion H. reflexivity. Qed.

Lemma recs_flOrb : forall st st' , s_count st' = s_count st -> s_cb st' = s_cb st -> s_cbPerm st' = s_cbPerm st ->
  s_cbInv st' = s_cbInv st -> s_fl st' = s_fl st -> s_flInv st' = s_flInv st -> s_gens st' = s_gens st ->
  (forall psF, Rep n (s_flOrb st) psF -> Rep n (s_flOrb st') psF) -> recs st -> recs st'.
Proof.
  intros st st' E1 E2 E3 E4 E5 E6 E8 HRp [R1 R2 R3 R4 R5 R6].
  destruct R6 as (psF & HRep & HA & HB). pose proof (HRp _ HRep) as HRep'.
  constructor; rewrite ?E1, ?E2, ?E3, ?E4, ?E5, ?E6, ?E8; try assumption.
  - destruct R1 as (A & B & C & D). repeat split; try assumption. destruct HRep' as (_ & HL & _). exact HL.
  - exists psF. split; [exact HRep'|]. split; [exact HA|exact HB].
Qed.

Lemma jbody_V : forall st j st' ok, VPj st (S j) -> jbody g n m j st = Ok (st', ok) ->
  if ok then VPref st' else VPj st' j.
Proof.
  intros st j st' ok (HT & HV & HR & Hcb) HJ.
  pose proof (jbody_T g n m root Xc (Kc_V clsf order0) st j st' ok HT HJ) as HTres.
  destruct HT as (anc & HS & HC & Hne & HTop & _).
  destruct (jbody_cases _ _ _ _ _ _ _ HJ) as (st1 & pos & v & fo & b1 & HU & HLc & Hv & Hh1 & Hrest).
  destruct (undo_V _ _ _ HS HC Hne HV HU) as (P & EP & HN & Est1 & HUi).
  set (L := length (s_path st)) in *.
  assert (HL : 1 <= L) by (unfold L; destruct (s_path st); [congruence|simpl; lia]).
  unfold top_ok in HTop. rewrite EP in HTop. destruct HTop as (e & sz & HB & HLch & Hjs & _).
  assert (Ech : s_choices st1 = s_choices st) by (rewrite Est1; reflexivity).
  rewrite Ech, HLch in HLc. inversion HLc as [Epos].
  destruct (node_target g n root Xc _ _ HN) as (b0 & c0 & a0 & e' & sz' & EPd & HSb & Hb0 & Hsz & H2 & HB' & He & _ & HLoc).
  rewrite HB in HB'. injection HB' as E1 E2.
  assert (Epos' : pos = fns P + j) by lia.
  set (v1 := snd (undo_sv (s_skip st) (fns P) (p_spl (s_ps st)) (p_value (s_ps st)))) in *.
  set (s1 := fst (undo_sv (s_skip st) (fns P) (p_spl (s_ps st)) (p_value (s_ps st)))) in *.
  set (ps1 := mkP P (zl L - 1)%Z v1 s1) in *.
  assert (Eps1 : s_ps st1 = ps1) by (rewrite Est1; reflexivity).
  pose proof (no_perm _ _ _ _ _ _ HN) as HPm. pose proof (no_ne _ _ _ _ _ _ HN) as HNe.
  assert (HOrd : forall u, In u (order_of (p_cells (s_ps st1))) -> u < n).
  { rewrite Eps1. cbn [p_cells]. intros u Hu. apply (Permutation_in _ HPm) in Hu. apply in_seq in Hu. lia. }
  assert (Hvn : v < n) by (apply HOrd; eapply nth_error_In; exact Hv).
  assert (Efl : s_flOrb st1 = s_flOrb st) by (rewrite Est1; reflexivity).
  assert (Ecnt : s_count st1 = s_count st) by (rewrite Est1; reflexivity).
  assert (HRfo : forall psF, Rep n (s_flOrb st) psF -> Rep n fo psF).
  { intros psF HRp. rewrite <- Efl in HRp. eapply h2_Rep; [exact Hh1|exact HRp|exact HOrd|exact Hvn]. }
  (* with no best leaf yet nothing is skipped and nothing is cut off *)
  assert (Hb1z : s_cb st = [] -> b1 = false).
  { intros E. destruct (r_zero _ _ _ _ _ _ HR) as [[Hc0 _] _]. rewrite Ecnt, (Hc0 E) in Hh1. eapply h2_zero. exact Hh1. }
  cbv zeta in Hrest. destruct Hrest as [(-> & -> & ->)|(-> & co & b2 & Hh2 & Hrest)].
  { (* skipped by the first-leaf orbits *)
    split; [exact HTres|]. split; [|split].
    - unfold SearchInvV.vst. rewrite Est1. cbn. exact HUi.
    - eapply recs_flOrb; [| | | | | | | |exact HR]; try (rewrite Est1; reflexivity). cbn. exact HRfo.
    - intros E. cbn in E. rewrite Est1 in E. cbn in E. specialize (Hb1z E). discriminate. }
  assert (Hb2z : s_cb st = [] -> b2 = false).
  { intros E. destruct (r_zero _ _ _ _ _ _ HR) as [[Hc0 _] _]. rewrite Ecnt, (Hc0 E) in Hh2. eapply h2_zero. exact Hh2. }
  destruct Hrest as [(-> & -> & ->)|(-> & w & ps' & HSp & -> & ->)].
  { split; [exact HTres|]. split; [|split].
    - unfold SearchInvV.vst. rewrite Est1. cbn. exact HUi.
    - eapply recs_flOrb; [| | | | | | | |exact HR]; try (rewrite Est1; reflexivity). cbn. exact HRfo.
    - intros E. cbn in E. rewrite Est1 in E. cbn in E. specialize (Hb2z E). discriminate. }
  (* splitBin *)
  assert (Ecb1 : s_cb st1 = s_cb st) by (rewrite Est1; reflexivity).
  assert (Efl1 : s_fl st1 = s_fl st) by (rewrite Est1; reflexivity).
  rewrite Eps1, Epos', Ecb1, Efl1 in HSp. unfold ps1 in HSp.
  assert (Hj' : j < length (cverts c0)) by lia.
  destruct (split_bin_V g n m P _ v1 s1 _ _ b0 c0 j a0 w ps' HUi EPd Hb0 ltac:(lia) Hj' HNe
              ltac:(rewrite (Permutation_length HPm); apply seq_length) (HLoc j ltac:(lia)) HSp) as [HCi HCl].
  destruct (split_T g n m root Xc (Kc_V clsf order0) L P _ _ v1 s1 j w ps' HL HN ltac:(exists e, sz; split; [exact HB|lia]) HSp)
    as (_ & _ & _ & _ & K4 & _ & K6 & _).
  assert (Efage : fage (p_age ps') (p_cells ps') = fns P).
  { rewrite K4. replace L with (S (L - 1)) in K6 |- * by lia. apply (fage_child _ _ _ K6). apply (no_ages _ _ _ _ _ _ HN). }
  set (st5 := set_stack (set_ps (set_cbOrb (set_flOrb (set_stack st1 (s_path st1) (set_last (s_choices st1) pos)) fo) co) ps')
                   (set_last (s_path st1) j) (set_last (s_choices st1) pos)) in *.
  assert (Epath : s_path st1 = s_path st) by (rewrite Est1; reflexivity).
  assert (Hvst5 : vst st5).
  { unfold SearchInvV.vst, st5. cbn. rewrite Est1. cbn.
    destruct (set_last (s_path st) j) eqn:Esl.
    - apply (f_equal (@length nat)) in Esl. rewrite set_last_length in Esl. simpl in Esl. fold L in Esl. lia.
    - rewrite Efage. exact HCi. }
  assert (Hrecs5 : recs st5).
  { eapply recs_flOrb; [| | | | | | | |exact HR]; try (unfold st5; rewrite Est1; reflexivity). unfold st5. cbn. exact HRfo. }
  destruct w; cbn [negb] in *.
  - split; [exact HTres|]. split; [exact Hvst5|]. split; [exact Hrecs5|].
    intros E. exfalso. unfold st5 in E. cbn in E. rewrite Est1 in E. cbn in E. rewrite E in HSp.
    apply split_bin_nil in HSp. discriminate.
  - split; [exact HTres|]. split; [exact Hvst5|]. split; [exact Hrecs5|].
    destruct (HCl eq_refl) as [HCl1 HCl2]. split; [exact HCl1|]. intros _. cbn [st5 set_stack set_ps s_ps]. rewrite Efage. exact HCl2.
Qed.

Lemma VCV_jcont : forall st j st', VPj st (S j) -> jbody g n m j st = Ok (st', false) -> VPj st' j.
Proof. intros st j st' H HJ. apply (jbody_V st j st' false H HJ). Qed.

Lemma VCV_jstep : forall st j st', VPj st (S j) -> jbody g n m j st = Ok (st', true) -> VPref st'.
Proof. intros st j st' H HJ. apply (jbody_V st j st' true H HJ). Qed.

(* ---------------------------------------------------------------- the refinement after a step *)

Lemma VCV_refine : forall st w ps', VPref st ->
  refine_s g n m (s_cb st) (s_fl st) (s_ps st) = Ok (w, ps') -> VPtop (set_ps st ps') w.
Proof.
  intros st w ps' (HT & HV & HR & [HCl HClb]) HRf.
  split; [apply (VCT_refine g n m root Xc (Kc_V clsf order0)); assumption|].
  destruct (refine_s_spec _ _ _ _ _ _ _ _ HRf) as (HVs & Hage & _).
  destruct HT as [(anc & HS & HC & _) [Hsk _]]. rewrite Hsk in HC. destruct HC as (K1 & K2 & _ & _ & K4 & _ & K6).
  unfold refine_s in HRf.
  destruct (refine_loop_V g n m _ _ _ _ _ _ K2 ltac:(rewrite (Permutation_length K1); apply seq_length) HCl HRf) as [Hle Hres].
  assert (Hvl : vlev (s_path st) ps' (s_cb st) (s_fl st) /\
                (w = false -> clean (p_cells ps') (p_value ps') (p_spl ps') /\
                              (s_path st <> [] -> fage (p_age ps') (p_cells ps') < p_spl ps'))).
  { destruct (path_cases (s_path st)) as [Ept|[Hne HL]].
    - rewrite Ept. split; [destruct w; [apply dform_vinv|apply clean_vinv]; exact Hres|].
      intros ->. split; [exact Hres|congruence].
    - destruct (stack_ok_lengths g n root Xc _ _ _ HS) as [HL1 _].
      destruct (last_opt anc) as [P|] eqn:EP; [|apply last_opt_none in EP; subst anc; simpl in HL1; lia].
      assert (HN : node_ok (length (s_path st) - 1) P).
      { destruct HS as (_ & _ & HNo & _). rewrite <- HL1. apply HNo. rewrite <- last_opt_nth. exact EP. }
      replace (length (s_path st)) with (S (length (s_path st) - 1)) in K6, K4 by lia.
      assert (Ef : fage (p_age ps') (p_cells ps') = fage (p_age (s_ps st)) (p_cells (s_ps st))).
      { rewrite Hage, K4. apply (fage_V _ _ _ P K6 (no_ages _ _ _ _ _ _ HN)). rewrite <- K4. exact HVs. }
      assert (Hb : fage (p_age (s_ps st)) (p_cells (s_ps st)) < p_spl (s_ps st)) by (apply HClb; exact Hne).
      split.
      + apply vlev_ne; [exact Hne|]. rewrite Ef.
        destruct w; [apply dform_cinv; [exact Hres|lia]|apply clean_cinv; [exact Hres|lia]].
      + intros ->. split; [exact Hres|]. intros _. rewrite Ef. lia. }
  destruct Hvl as [Hvl1 Hvl2]. split; [|split; [|split]].
  - apply vst_vlev; [exact Hsk|]. exact Hvl1.
  - eapply recs_ext; [| | | | | | | |exact HR]; reflexivity.
  - intros Hw. destruct (Hvl2 Hw) as [A B]. split; [exact A|exact B].
  - intros E. cbn in E. rewrite E in HRf. eapply refine_loop_nil. exact HRf.
Qed.

(* ---------------------------------------------------------------- Heuristic 1 *)

Lemma deage_uinv : forall anc path choices ps cb fl P, stack_ok anc path choices -> cur_ok anc (length path) false ps ->
  path <> [] -> vlev path ps cb fl -> last_opt anc = Some P -> node_ok (length path - 1) P ->
  uinv P (snd (deage_sv (fns P) (p_spl ps) (p_value ps))) (fst (deage_sv (fns P) (p_spl ps) (p_value ps))) cb fl.
Proof.
  intros anc path choices ps cb fl P HS HC Hne HV EP HN.
  assert (HL : 1 <= length path) by (destruct path; [congruence|simpl; lia]).
  apply vlev_ne in HV; [|exact Hne].
  destruct HC as (_ & _ & _ & _ & Hage & _ & HCh). rewrite EP in HCh.
  replace (length path) with (S (length path - 1)) in HCh, Hage by lia.
  rewrite Hage in HV. rewrite (fage_child _ _ _ HCh (no_ages _ _ _ _ _ _ HN)) in HV.
  apply (deage_V g n (fns P) (p_cells ps)); [exact HV| |reflexivity].
  destruct HCh as (_ & HF & _). exact HF.
Qed.

Lemma deage_n_V : forall d anc path choices ps ps' cb fl, stack_ok anc path choices ->
  cur_ok anc (length path) false ps -> vlev path ps cb fl -> d <= length path -> deage_n d ps = Ok ps' ->
  vlev (firstn (length path - d) path) ps' cb fl.
Proof.
  induction d as [|d IH]; intros anc path choices ps ps' cb fl HS HC HV Hd HD; simpl in HD.
  - inversion HD; subst ps'. rewrite Nat.sub_0_r, firstn_all. exact HV.
  - bind_inv HD. rename r into ps1.
    assert (HL : 1 <= length path) by lia.
    assert (Hne : path <> []) by (intros ->; simpl in HL; lia).
    pose proof (stack_ok_lengths g n root Xc _ _ _ HS) as [HL1 HL2].
    destruct (last_opt anc) as [P|] eqn:EP; [|apply last_opt_none in EP; subst anc; simpl in HL1; lia].
    assert (HN : node_ok (length path - 1) P).
    { destruct HS as (_ & _ & HNo & _). rewrite <- HL1. apply HNo. rewrite <- last_opt_nth. exact EP. }
    rewrite (deage_T g n root Xc anc _ _ P HL HC EP HN) in E. inversion E; subst ps1. clear E.
    pose proof (deage_uinv _ _ _ _ _ _ _ HS HC Hne HV EP HN) as HU.
    pose proof (pop_V _ _ _ _ _ _ _ _ HS EP HU) as HV'.
    pose proof (stack_pop g n root Xc _ _ _ HS) as HS'.
    pose proof (cur_pop g n root Xc anc path choices P (snd (deage_sv (fns P) (p_spl ps) (p_value ps)))
                  (fst (deage_sv (fns P) (p_spl ps) (p_value ps))) HS EP) as HC'.
    assert (HLr : length (removelast path) = length path - 1) by apply removelast_length.
    rewrite <- HLr in HC'.
    pose proof (IH _ _ _ _ _ _ _ HS' HC' HV' ltac:(lia) HD) as I1.
    rewrite HLr in I1. rewrite removelast_firstn_len', firstn_firstn in I1.
    replace (Nat.min (length path - 1 - d) (length path - 1)) with (length path - S d) in I1 by lia. exact I1.
Qed.

Lemma back_jump_V : forall st bp st', TPstep st -> s_skip st = false -> vst st -> back_jump st bp = Ok st' -> vst st'.
Proof.
  intros st bp st' (anc & HS & HC & _) Hsk HV HB.
  destruct (back_jump_cases _ _ _ HB) as (keep & ps' & HK & HD & ->).
  destruct (h1_keep_bounds _ _ _ HK) as [Hk1 _]. rewrite Hsk in HC.
  apply vst_vlev in HV; [|exact Hsk].
  pose proof (deage_n_V (length (s_path st) - keep) anc _ _ _ _ _ _ HS HC HV ltac:(lia) HD) as I.
  replace (length (s_path st) - (length (s_path st) - keep)) with keep in I by lia.
  apply vst_vlev; [exact Hsk|]. exact I.
Qed.

(* ---------------------------------------------------------------- a leaf *)

Lemma leaf_facts : forall st, VPtop st false -> length (p_cells (s_ps st)) = n ->
  leafp n (p_cells (s_ps st)) /\ Xc (p_cells (s_ps st)) /\
  p_value (s_ps st) = good g n (p_cells (s_ps st)) n /\ length (p_value (s_ps st)) = m /\ length (s_cbPerm st) = n.
Proof.
  intros st (HT & _ & _ & HC & _) Hlen. destruct (HC eq_refl) as [(Hv & _ & Hs) _].
  destruct HT as [(anc & _ & HCu & _ & [HCb _]) [Hsk _]]. rewrite Hsk in HCu. destruct HCu as (K1 & K2 & _ & KX & _).
  assert (HLf : leafp n (p_cells (s_ps st))).
  { split; [|exact K1]. apply discrete_singles; [exact K2|]. rewrite (Permutation_length K1), seq_length. lia. }
  destruct HLf as [HSi HPm]. rewrite (fns_all_single _ HSi), Hlen in Hs. rewrite Hs in Hv.
  split; [split; assumption|]. split; [exact KX|]. split; [exact Hv|]. split; [|exact HCb].
  rewrite Hv, Hm. apply cert_length; [exact Hg|exact Hn|split; assumption].
Qed.

Lemma cmp_lt_nonnil : forall v c, cmp_list v c = Lt -> c <> [].
Proof. intros [|x v] c H E; subst c; discriminate. Qed.

Lemma record_gen_V : forall st gam st1, recs st -> isaut g n clsf gam -> s_cb st <> [] ->
  record_gen n st gam = Ok st1 -> recs st1.
Proof.
  intros st gam st1 HR HA Hcb HRg.
  destruct (record_gen_cases _ _ _ _ HRg) as (d & b & HO & Hcase).
  destruct HR as [R1 R2 R3 R4 R5 (psF & HRep & HPa & HPb)].
  assert (Hseq : forall i, In i (seq 0 n) -> i < n) by (intros i Hi; apply in_seq in Hi; lia).
  destruct (orb_loop_spec n (seq 0 n) gam (s_flOrb st) false d b psF HRep Hseq (isaut_gam_ok g n clsf _ HA) HO)
    as (ex & E1 & E2 & E3 & E4).
  assert (HLd : length d = n) by (destruct E1 as (_ & HL & _); exact HL).
  destruct Hcase as [(-> & _ & ->)|(-> & ->)].
  - constructor; cbn [set_gens set_flOrb s_cbInv s_flInv s_fl s_flOrb s_cb s_count s_gens s_cbPerm].
    + destruct R1 as (A & B & C & _). repeat split; assumption.
    + split; [exact (proj1 R2)|]. intros E. contradiction.
    + exact R3.
    + exact R4.
    + apply Forall_app. split; [exact R5|constructor; [exact HA|constructor]].
    + exists (psF ++ ex). split; [exact E1|]. split.
      * intros x y Hin. apply in_app_or in Hin. destruct Hin as [Hin|Hin].
        -- destruct (HPa _ _ Hin) as (gm & G1 & G2 & G3). exists gm. split; [apply in_or_app; left; exact G1|auto].
        -- destruct (E2 _ _ Hin) as [G2 G3]. exists gam. split; [apply in_or_app; right; left; reflexivity|auto].
      * intros gm x Hin Hx. apply in_app_or in Hin. destruct Hin as [Hin|[<-|[]]].
        -- apply conn_app_l. apply HPb; assumption.
        -- apply E3. apply in_seq. lia.
  - destruct (E4 eq_refl) as [-> _]. rewrite app_nil_r in E1.
    constructor; cbn [set_gens set_flOrb s_cbInv s_flInv s_fl s_flOrb s_cb s_count s_gens s_cbPerm]; try assumption.
    + destruct R1 as (A & B & C & _). repeat split; assumption.
    + exists psF. split; [exact E1|]. split; assumption.
Qed.

Lemma recs_bump : forall st, recs st -> s_cb st <> [] -> recs (bump st).
Proof.
  intros st [R1 R2 R3 R4 R5 R6] Hcb. constructor; cbn [bump s_cbInv s_flInv s_fl s_flOrb s_cb s_count s_gens s_cbPerm]; try assumption.
  split; [|exact (proj2 R2)]. split; [intros E; contradiction|discriminate].
Qed.

Lemma new_best_fields : forall st x,
  s_ps (new_best n m st x) = s_ps st /\ s_path (new_best n m st x) = s_path st /\ s_choices (new_best n m st x) = s_choices st /\
  s_skip (new_best n m st x) = s_skip st /\ s_count (new_best n m st x) = s_count st /\ s_gens (new_best n m st x) = s_gens st /\
  s_cb (new_best n m st x) = copy_into (firstn m (s_cb st ++ repeat 0 (m - length (s_cb st)))) (p_value (s_ps st)) /\
  s_cbPerm (new_best n m st x) = copy_into (s_cbPerm st) (order_of (p_cells (s_ps st))) /\
  s_cbInv (new_best n m st x) = x.
Proof. intros st x. unfold new_best. destruct (s_count st =? 1); repeat split. Qed.

Lemma new_best_first : forall st x,
  s_fl (new_best n m st x) = (if s_count st =? 1 then copy_into (s_fl st) (p_value (s_ps st)) else s_fl st) /\
  s_flInv (new_best n m st x) = (if s_count st =? 1 then copy_into (s_flInv st) x else s_flInv st) /\
  s_flOrb (new_best n m st x) = (if s_count st =? 1 then copy_into (s_flOrb st) (new n) else s_flOrb st).
Proof. intros st x. unfold new_best. destruct (s_count st =? 1); repeat split. Qed.

Lemma VCV_leaf : forall st st', VPtop st false -> length (p_cells (s_ps st)) = n ->
  leaf_step n m st = Ok st' -> VPstep st'.
Proof.
  intros st st' HVP Hlen HLf.
  destruct (leaf_facts _ HVP Hlen) as (HLp & HKc & Hval & Hvm & HLcp).
  destruct HVP as (HT & HV & HR & HC & _). destruct (HC eq_refl) as [HCl HClb].
  pose proof (VCT_leaf g n m root Xc st st' HT Hlen HLf) as HTres.
  pose proof HT as [HTs [Hsk _]].
  assert (Hvne : p_value (s_ps st) <> []) by (intros E; rewrite E in Hvm; simpl in Hvm; lia).
  (* the current state is clean, whatever the best and first certificates are *)
  assert (Hvl : forall cb fl, vlev (s_path st) (s_ps st) cb fl).
  { intros cb fl. destruct (path_cases (s_path st)) as [Ept|[Hne _]].
    - rewrite Ept. apply clean_vinv. exact HCl.
    - apply vlev_ne; [exact Hne|]. apply clean_cinv; [exact HCl|apply HClb; exact Hne]. }
  destruct (leaf_step_cases _ _ _ _ HLf) as [(HCm & cbInv & HI & ->)|[(HCm & gam & d & b & st1 & HG & HO & HRg & HBj)|
    [(HCm & HC2 & gam & st1 & HG & HRg & HBj)|(HCm & HC2 & ->)]]].
  - (* a better leaf *)
    destruct (new_best_fields (bump st) cbInv) as (F1 & F2 & F3 & F4 & F5 & F6 & F7 & F8 & F9).
    cbn [bump s_ps s_path s_choices s_skip s_count s_gens s_cb s_cbPerm] in F1, F2, F3, F4, F5, F6, F7, F8.
    destruct HR as [(A & B & C & D) R2 R3 R4 R5 R6].
    assert (Ecb : s_cb (new_best n m (bump st) cbInv) = p_value (s_ps st)).
    { rewrite F7. apply copy_into_same_length. rewrite firstn_length, app_length, repeat_length. lia. }
    assert (Ecp : s_cbPerm (new_best n m (bump st) cbInv) = order_of (p_cells (s_ps st))).
    { rewrite F8. apply copy_into_same_length. destruct (leafp_length _ _ HLp) as (_ & L2 & _). lia. }
    assert (HInv : inverse n (order_of (p_cells (s_ps st))) cbInv).
    { eapply inv_into_inverse; [exact HI|exact (proj2 HLp)|exact A]. }
    split; [exact HTres|]. split; [|split].
    + apply vst_vlev; [rewrite F4; exact Hsk|]. rewrite F2, F1. apply Hvl.
    + destruct (new_best_first (bump st) cbInv) as (N1 & N2 & N3).
      cbn [bump s_count s_fl s_flInv s_flOrb s_ps] in N1, N2, N3.
      destruct HInv as [HIl HIv].
      constructor; rewrite ?F5, ?F6, ?F9, ?Ecb, ?Ecp, ?N1, ?N2, ?N3; cbn [bump s_count s_gens].
      * destruct (S (s_count st) =? 1); rewrite ?copy_into_length; repeat split; assumption.
      * split; [split; [intros E; contradiction|discriminate]|intros E; contradiction].
      * intros _. exists (p_cells (s_ps st)). split; [exact HLp|]. split; [exact HKc|]. split; [reflexivity|].
        split; [exact Hval|]. split; assumption.
      * intros _. destruct (S (s_count st) =? 1) eqn:Ec.
        -- exists (p_cells (s_ps st)). split; [exact HLp|]. split; [exact HKc|]. split.
           ++ rewrite copy_into_same_length by lia. exact Hval.
           ++ rewrite copy_into_same_length by lia. split; assumption.
        -- apply Nat.eqb_neq in Ec. apply R4. intros E. apply (proj1 R2) in E. lia.
      * exact R5.
      * destruct (S (s_count st) =? 1) eqn:Ec; [|exact R6].
        apply Nat.eqb_eq in Ec. assert (Ecb0 : s_cb st = []) by (apply (proj1 R2); lia).
        exists []. rewrite copy_into_same_length by (unfold new; rewrite repeat_length; lia).
        split; [apply new_Rep|]. rewrite (proj2 R2 Ecb0). split; [intros x y []|intros gm x []].
    + intros E. rewrite Ecb in E. contradiction.
  - (* same certificate as the best leaf *)
    assert (Ecb : s_cb st <> []).
    { intros E. rewrite E in HCm. apply cmp_nil_r in HCm. contradiction. }
    apply cmp_list_eq in HCm.
    destruct (r_best _ _ _ _ _ _ HR Ecb) as (csb & HLb & HKb & Ecp & Ecbv & HIb).
    assert (HA : isaut g n clsf gam).
    { eapply (gam_aut g n clsf order0 (p_cells (s_ps st)) csb); try eassumption. rewrite <- Hval, <- Ecbv. exact HCm. }
    assert (HR0 : recs (set_cbOrb (bump st) d)).
    { eapply recs_ext; [| | | | | | | |apply (recs_bump st HR Ecb)]; reflexivity. }
    pose proof (record_gen_V _ _ _ HR0 HA Ecb HRg) as HR1.
    destruct (record_gen_fields n _ _ _ HRg) as (E1 & E2 & E3 & E4 & E5 & E6 & _).
    assert (HT1 : TPstep st1).
    { eapply (TPstep_ext g n root Xc); [exact E1|exact E2|exact E3|exact E4|exact E5|exact E6|].
      eapply (TPstep_ext g n root Xc); [| | | | | |exact HTs]; reflexivity. }
    assert (HV1 : vst st1).
    { apply vst_vlev; [rewrite E4; exact Hsk|]. rewrite E2, E1. apply Hvl. }
    split; [exact HTres|]. split; [eapply back_jump_V; [exact HT1|rewrite E4; exact Hsk|exact HV1|exact HBj]|].
    destruct (back_jump_cases _ _ _ HBj) as (keep & ps' & _ & _ & ->).
    split; [eapply recs_ext; [| | | | | | | |exact HR1]; reflexivity|].
    intros E. cbn in E. rewrite E5 in E. cbn in E. contradiction.
  - (* same certificate as the first leaf, below the best *)
    assert (Ecb : s_cb st <> []) by (eapply cmp_lt_nonnil; exact HCm).
    apply cmp_list_eq in HC2.
    destruct (r_first _ _ _ _ _ _ HR Ecb) as (csf & HLb & HKb & Eflv & HIb).
    assert (HA : isaut g n clsf gam).
    { eapply (gam_aut g n clsf order0 (p_cells (s_ps st)) csf); try eassumption. rewrite <- Hval, <- Eflv. exact HC2. }
    pose proof (record_gen_V _ _ _ (recs_bump st HR Ecb) HA Ecb HRg) as HR1.
    destruct (record_gen_fields n _ _ _ HRg) as (E1 & E2 & E3 & E4 & E5 & E6 & _).
    assert (HT1 : TPstep st1).
    { eapply (TPstep_ext g n root Xc); [exact E1|exact E2|exact E3|exact E4|exact E5|exact E6|].
      eapply (TPstep_ext g n root Xc); [| | | | | |exact HTs]; reflexivity. }
    assert (HV1 : vst st1).
    { apply vst_vlev; [rewrite E4; exact Hsk|]. rewrite E2, E1. apply Hvl. }
    split; [exact HTres|]. split; [eapply back_jump_V; [exact HT1|rewrite E4; exact Hsk|exact HV1|exact HBj]|].
    destruct (back_jump_cases _ _ _ HBj) as (keep & ps' & _ & _ & ->).
    split; [eapply recs_ext; [| | | | | | | |exact HR1]; reflexivity|].
    intros E. cbn in E. rewrite E5 in E. cbn in E. contradiction.
  - assert (Ecb : s_cb st <> []) by (eapply cmp_lt_nonnil; exact HCm).
    split; [exact HTres|]. split; [|split; [apply recs_bump; assumption|intros E; cbn in E; contradiction]].
    apply vst_vlev; [exact Hsk|]. apply Hvl.
Qed.

(* ---------------------------------------------------------------- both layers hold throughout *)

Theorem search_V : forall fuel st w p o gs, VPtop st w ->
  main_loop g n m fuel st w = Ok (p, o, gs) ->
  exists st', VPdone st' /\ p = s_cbPerm st' /\ o = s_flOrb st' /\ gs = s_gens st'.
Proof.
  intros fuel st w p o gs HT HM.
  eapply (main_loop_outline g n m VPtop VPstep VPj VPref VPdone); try eassumption.
  - exact VCV_leaf.
  - exact VCV_push.
  - exact VCV_worse.
  - exact VCV_done.
  - exact VCV_jstart.
  - exact VCV_jexit.
  - exact VCV_jcont.
  - exact VCV_jstep.
  - exact VCV_refine.
Qed.

End VCV.
