(* C02 — executable definitions only (no proofs): everything that coq/Extract/C02.v extracts,
   except the model of Reset (Canon/AutResetModel.v).  Proofs: Canon/AutBase.v, Aut.v, Group.v,
   Orbit.v, GroupOrder.v, AutCheck.v, GroupEdgeless.v.  Comments on the individual definitions
   say which Go code or which oracle they stand for. *)
From Coq Require Import List ZArith Arith Bool.
From Mamba Require Import Disjoint.Model.
Import ListNotations.
Open Scope nat_scope.

(* ---------------------------------------------------------------- permutations as slices (AutBase.v) *)

Definition perm := list nat.

(* image of i; indices outside the slice are left alone (never used on them by the theorems) *)
Definition app (p : perm) (i : nat) : nat := nth i p i.

Fixpoint memb (x : nat) (l : list nat) : bool :=
  match l with [] => false | y :: t => (x =? y) || memb x t end.

Fixpoint nodupb (l : list nat) : bool :=
  match l with [] => true | x :: t => negb (memb x t) && nodupb t end.

Definition is_permb (n : nat) (p : perm) : bool :=
  (length p =? n) && nodupb p && forallb (fun x => x <? n) p.

Definition idp (n : nat) : perm := seq 0 n.

(* (compose p q) i = p (q i): first q, then p *)
Definition compose (p q : perm) : perm := map (app p) q.

Fixpoint index (y : nat) (l : list nat) : nat :=
  match l with [] => 0 | x :: t => if x =? y then 0 else S (index y t) end.

Definition inv (p : perm) : perm := map (fun y => index y p) (seq 0 (length p)).


(* ---------------------------------------------------------------- automorphism checker (Aut.v) *)
Definition is_automorphism (n : nat) (adj : nat -> nat -> bool) (cls : nat -> nat) (g : perm) : bool :=
  is_permb n g &&
  forallb (fun i => forallb (fun j => Bool.eqb (adj (app g i) (app g j)) (adj i j)) (seq 0 n)) (seq 0 n) &&
  forallb (fun i => cls (app g i) =? cls i) (seq 0 n).

(* ---------------------------------------------------------------- all permutations (Group.v) *)

(* ---------------------------------------------------------------- all permutations *)
Fixpoint inserts (x : nat) (l : list nat) : list (list nat) :=
  match l with
  | [] => [[x]]
  | y :: t => (x :: y :: t) :: map (cons y) (inserts x t)
  end.

Fixpoint perms (l : list nat) : list (list nat) :=
  match l with
  | [] => [[]]
  | x :: t => flat_map (inserts x) (perms t)
  end.

Definition all_perms (n : nat) : list perm := perms (seq 0 n).


(* ---------------------------------------------------------------- orbits via the C18 union-find (Orbit.v) *)

Definition orbit_ops (n : nat) (gens : list perm) : list op :=
  flat_map (fun g => map (fun i => OUnion i (app g i)) (seq 0 n)) gens.

(* the union-find state after all the unions *)
Definition orbits_ds (n : nat) (gens : list perm) : option dset := run n (orbit_ops n gens).

(* the orbit labels: entry i is the least vertex in the orbit of i *)
Definition orbits_of (n : nat) (gens : list perm) : option (list nat) :=
  match orbits_ds n gens with
  | None => None
  | Some ds => match smallest_rep ds with Some (_, sr) => Some sr | None => None end
  end.

(* reading a union-find array handed back by the implementation: it must be a forest *)
Definition wfb (ds : dset) : bool :=
  forallb (fun i => match walk (S (length ds)) ds i with Some _ => true | None => false end)
          (seq 0 (length ds)).

Definition labels_of_ds (ds : dset) : option (list nat) :=
  if wfb ds then match smallest_rep ds with Some (_, sr) => Some sr | None => None end
  else None.


(* ---------------------------------------------------------------- group enumeration, brute-force Aut (GroupOrder.v) *)

Definition pdec : forall a b : perm, {a = b} + {a <> b} := list_eq_dec Nat.eq_dec.

Definition inb (p : perm) (S : list perm) : bool := if in_dec pdec p S then true else false.

(* add the candidates not yet in acc to acc and to the new frontier *)
Fixpoint add_new (cands acc new : list perm) : list perm * list perm :=
  match cands with
  | [] => (acc, new)
  | c :: t => if inb c acc then add_new t acc new else add_new t (c :: acc) (c :: new)
  end.

Definition products (gens frontier : list perm) : list perm :=
  flat_map (fun s => map (fun g => compose g s) gens) frontier.

Fixpoint closure (fuel cap : nat) (gens acc frontier : list perm) : option (list perm) :=
  match fuel with
  | 0 => None
  | S f =>
    match frontier with
    | [] => Some acc
    | _ :: _ =>
      let r := add_new (products gens frontier) acc [] in
      if cap <? length (fst r) then None else closure f cap gens (fst r) (snd r)
    end
  end.

(* the elements of the generated group; None: out of fuel or more than cap elements *)
Definition group_elems (fuel cap n : nat) (gens : list perm) : option (list perm) :=
  closure fuel cap gens [idp n] [idp n].

Definition group_order (fuel cap n : nat) (gens : list perm) : option nat :=
  match group_elems fuel cap n gens with Some L => Some (length L) | None => None end.

(* every class-preserving automorphism, by filtering all n! permutations *)
Definition aut_bruteforce (n : nat) (adj : nat -> nat -> bool) (cls : nat -> nat) : list perm :=
  nodup pdec (filter (is_automorphism n adj cls) (all_perms n)).

(* The certificate checked per returned result: every generator is an automorphism and the
   generated group has as many elements as Aut(g)  ==>  the generators generate exactly Aut(g). *)
Definition gens_generate_aut_b (fuel cap n : nat) adj cls (gens : list perm) : bool :=
  forallb (is_automorphism n adj cls) gens &&
  match group_order fuel cap n gens with
  | Some k => k =? length (aut_bruteforce n adj cls)
  | None => false
  end.


(* ---------------------------------------------------------------- the per-result certificate (AutCheck.v) *)

(* concrete inputs of the driver: adjacency matrix and class index of every vertex *)
Definition adj_of (m : list (list bool)) (i j : nat) : bool := nth j (nth i m []) false.

Definition cls_of (l : list nat) (v : nat) : nat := nth v l 0.

(* the returned array has length n, is a forest, and its classes are the orbits of the group
   generated by gens (both sides as vectors "least member of my class") *)
Definition orbits_match (n : nat) (gens : list perm) (ds : dset) : bool :=
  (length ds =? n) &&
  match labels_of_ds ds, orbits_of n gens with
  | Some a, Some b => if pdec a b then true else false
  | _, _ => false
  end.

(* full certificate (n small enough for brute-force Aut) *)
Definition check_full (fuel cap n : nat) adj cls (gens : list perm) (ds : dset) : bool :=
  gens_generate_aut_b fuel cap n adj cls gens && orbits_match n gens ds.

(* without brute force: generators are automorphisms, array = orbits of the generators *)
Definition check_partial (n : nat) adj cls (gens : list perm) (ds : dset) : bool :=
  forallb (is_automorphism n adj cls) gens && orbits_match n gens ds.


(* ---------------------------------------------------------------- the m == 0 branch (GroupEdgeless.v) *)

(* ---------------------------------------------------------------- model of the branch *)
(* tmp[j] = j for all j; then tmp[bin[j]] = bin[(j+1) % len(bin)] for all j *)
Definition cycle_gen (n : nat) (bin : list nat) : perm :=
  fold_left (fun t j => upd t (nth j bin 0) (nth (S j mod length bin) bin 0))
            (seq 0 (length bin)) (idp n).

(* tmp[j] = j for all j; tmp[bin[0]] = bin[1]; tmp[bin[1]] = bin[0] *)
Definition transp (n a b : nat) : perm := upd (upd (idp n) a b) b a.

Definition bin_gens (n : nat) (bin : list nat) : list perm :=
  match bin with
  | [] | [_] => []
  | [a; b] => [cycle_gen n bin]
  | a :: b :: _ => [cycle_gen n bin; transp n a b]
  end.

Definition edgeless_gens (n : nat) (cells : list (list nat)) : list perm :=
  flat_map (bin_gens n) cells.

(* ds[bin[0]] = -1 (singleton) or -2; ds[v] = bin[0] for the other members *)
Definition bin_ds (ds : dset) (bin : list nat) : dset :=
  match bin with
  | [] => ds
  | [a] => upd ds a (-1)%Z
  | a :: rest => fold_left (fun d v => upd d v (Z.of_nat a)) rest (upd ds a (-2)%Z)
  end.

Definition edgeless_ds (old : dset) (cells : list (list nat)) : dset :=
  fold_left bin_ds cells old.
