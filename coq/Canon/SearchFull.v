(* Canon/SearchFull.v — C01 in full for the model of the pruned search: with the fuel search_fuel n the model
   returns a permutation for every simple graph, the canonical graph does not depend on the labelling, hence two
   simple graphs have the same canonical graph if and only if they are isomorphic. *)
From Coq Require Import List Arith Bool ZArith Lia Permutation.
From Mamba Require Import Canon.Perm Canon.Iso Canon.Model Canon.SearchModel Canon.SearchInit Canon.SearchProofs
  Canon.SearchInvar Canon.SearchTotal.
Import ListNotations.
Open Scope nat_scope.

(* the labelling computed by the model of CanonicalIsomorph(g) *)
Definition search_labelling (g : graph) : list nat :=
  match canon_search (search_fuel (length g)) g None with
  | Ok (p, _, _) => p
  | _ => []
  end.

Lemma search_labelling_spec : forall g, simple g ->
  exists o gs, canon_search (search_fuel (length g)) g None = Ok (search_labelling g, o, gs).
Proof.
  intros g Hg. destruct (canon_search_returns g None Hg I (search_fuel (length g)) (le_n _)) as [[[p o] gs] E].
  exists o, gs. unfold search_labelling. rewrite E. reflexivity.
Qed.

Theorem search_labelling_perm : forall g, simple g -> is_perm (length g) (search_labelling g) = true.
Proof.
  intros g Hg. destruct (search_labelling_spec g Hg) as (o & gs & E).
  apply is_perm_Permutation. exact (search_perm g None Hg I _ _ _ _ E).
Qed.

Theorem search_labelling_invariant : forall g p, simple g -> is_perm (length g) p = true ->
  relabel (relabel g p) (search_labelling (relabel g p)) = relabel g (search_labelling g).
Proof.
  intros g p Hg Hp. pose proof (relabel_simple g p Hg Hp) as Hg'.
  destruct (search_labelling_spec g Hg) as (o & gs & E). destruct (search_labelling_spec _ Hg') as (o' & gs' & E').
  apply (search_canon_graph_invariant g p (search_fuel (length (relabel g p))) (search_fuel (length g)) _ _ Hg Hp);
    unfold search_canon_graph; [rewrite E'|rewrite E]; reflexivity.
Qed.

Theorem search_iso_iff : forall g h, simple g -> simple h ->
  (relabel g (search_labelling g) = relabel h (search_labelling h) <-> iso g h).
Proof.
  apply (iso_iff_canon_gen simple search_labelling).
  - intros g Hg. exact (proj1 Hg).
  - exact search_labelling_perm.
  - exact search_labelling_invariant.
Qed.
