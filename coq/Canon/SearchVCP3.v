(* Canon/SearchVCP3.v — Heuristic 1.  A leaf with the certificate of a recorded leaf gives an automorphism
   that maps every common ancestor onto itself; the search may jump back to the deepest common
   ancestor, because the child it leaves is the image of the child that contains the recorded leaf,
   which has been dismissed.  Component lemmas for the stack cut back to its first keep nodes. *)
From Coq Require Import List Arith Bool ZArith Lia Permutation Sorted.
From Mamba Require Import Canon.Perm Canon.Iso Canon.Model Canon.Refine Canon.Sorted Canon.Tree Canon.Fuel
  Disjoint.Model Disjoint.Proofs Canon.SearchModel Canon.SearchHoare Canon.SearchCells Canon.SearchTarget
  Canon.SearchDeage Canon.SearchRefine Canon.SearchExec Canon.SearchValue Canon.SearchExpand Canon.SearchCert
  Canon.SearchOrder Canon.SearchEquiv Canon.SearchWalk Canon.SearchEquit Canon.SearchCut Canon.SearchSibling
  Canon.SearchLink Canon.SearchInvT Canon.SearchVCT Canon.SearchInvV Canon.SearchVCV Canon.SearchPrune
  Canon.SearchGroup Canon.SearchCutW Canon.SearchInvP Canon.SearchVCP1.
Import ListNotations.
Open Scope nat_scope.

(* ---------------------------------------------------------------- lists *)

Lemma firstn_ext_nth : forall (A : Type) (l l' : list A) d, (forall i, i < d -> nth_error l i = nth_error l' i) ->
  firstn d l = firstn d l'.
Proof.
  intros A l l' d. revert l l'. induction d as [|d IH]; intros l l' H; [reflexivity|].
  pose proof (H 0 ltac:(lia)) as H0. destruct l as [|x l], l' as [|y l']; simpl in H0; try discriminate; [reflexivity|].
  inversion H0; subst y. simpl. f_equal. apply IH. intros i Hi. apply (H (S i)). lia.
Qed.

Lemma firstn_firstn_le : forall (A : Type) (l : list A) a b, a <= b -> firstn a (firstn b l) = firstn a l.
Proof. intros A l a b H. rewrite firstn_firstn. f_equal. lia. Qed.

Lemma nth_firstn' : forall (l : list nat) a b, a < b -> nth a (firstn b l) 0 = nth a l 0.
Proof.
  induction l as [|x l IH]; intros a b Hab; [destruct a, b; reflexivity|]. destruct b; [lia|]. destruct a; [reflexivity|].
  simpl. apply IH. lia.
Qed.

Lemma nth_error_firstn_some : forall (A : Type) (l : list A) keep k x, nth_error (firstn keep l) k = Some x ->
  k < keep /\ nth_error l k = Some x.
Proof.
  intros A l keep k x H. assert (k < length (firstn keep l)) by (apply nth_error_Some; rewrite H; discriminate).
  rewrite firstn_length in H0. split; [lia|]. rewrite nth_error_firstn in H by lia. exact H.
Qed.

Lemma skipn_nth_cons : forall (l : list nat) d, d < length l -> skipn d l = nth d l 0 :: skipn (S d) l.
Proof.
  induction l as [|x l IH]; intros d H; [simpl in H; lia|]. destruct d; [reflexivity|]. simpl. apply IH. simpl in H. lia.
Qed.

(* ---------------------------------------------------------------- h1_keep *)

Lemma first_diff_spec : forall k i path bp r, first_diff k i path bp = Some r ->
  match r with
  | Some x => i <= x < i + k /\ (forall i', i <= i' < x -> nth_error path i' = nth_error bp i') /\
              exists a b, nth_error path x = Some a /\ nth_error bp x = Some b /\ a <> b
  | None => forall i', i <= i' < i + k -> nth_error path i' = nth_error bp i'
  end.
Proof.
  induction k as [|k IH]; intros i path bp r H; simpl in H.
  - inversion H; subst r. intros i' Hi'. lia.
  - destruct (nth_error path i) as [a|] eqn:Ea; [|discriminate]. destruct (nth_error bp i) as [b|] eqn:Eb; [|discriminate].
    destruct (a =? b) eqn:Eab.
    + apply Nat.eqb_eq in Eab. subst b. specialize (IH (S i) path bp r H). destruct r as [x|].
      * destruct IH as (I1 & I2 & I3). split; [lia|]. split; [|exact I3].
        intros i' Hi'. destruct (Nat.eq_dec i' i) as [->|Hne]; [congruence|apply I2; lia].
      * intros i' Hi'. destruct (Nat.eq_dec i' i) as [->|Hne]; [congruence|apply IH; lia].
    + apply Nat.eqb_neq in Eab. inversion H; subst r. split; [lia|]. split; [intros i' Hi'; lia|]. eauto.
Qed.

Lemma h1_keep_spec : forall path rp keep, h1_keep path rp = Some keep -> 1 <= length path ->
  1 <= keep <= length path /\ firstn (keep - 1) rp = firstn (keep - 1) path /\
  (keep < length path -> nth (keep - 1) rp 0 <> nth (keep - 1) path 0 /\ keep - 1 < length rp).
Proof.
  intros path rp keep H HL. unfold h1_keep in H.
  destruct (first_diff (length path - 1) 0 path rp) as [[x|]|] eqn:E; try discriminate; inversion H; subst keep;
    pose proof (first_diff_spec _ _ _ _ _ E) as HS; cbv beta iota in HS.
  - destruct HS as (H1 & H2 & a & b & Ha & Hb & Hab). split; [lia|]. replace (S x - 1) with x by lia.
    split; [symmetry; apply firstn_ext_nth; intros i Hi; apply H2; lia|].
    intros _. rewrite (nth_error_nth _ _ 0 Ha), (nth_error_nth _ _ 0 Hb). split; [congruence|].
    apply nth_error_Some. rewrite Hb. discriminate.
  - split; [lia|]. split; [symmetry; apply firstn_ext_nth; intros i Hi; apply HS; lia|]. intros; lia.
Qed.

Section VCP3.
Variable g : graph.
Variables n m : nat.
Variable clsf : nat -> nat.
Variable order0 : list nat.
Variable root : part.
Hypothesis Hg : simple g.
Hypothesis Hn : length g = n.

Notation Xc := (Kc clsf order0).
Notation RecI := (RecI g n root).
Notation DomI := (DomI g n).
Notation WalkI := (WalkI g root).
Notation FixI := (FixI).

(* ---------------------------------------------------------------- the automorphism between two leaves *)

Lemma gam_takes : forall p q qinv gam, inverse n q qinv -> Permutation q (seq 0 n) -> length p = n ->
  gamma_of p qinv (seq 0 n) = Some gam -> map (gfun gam) q = p.
Proof.
  intros p q qinv gam [HI1 HI2] HPq Hp HG.
  destruct (gamma_of_spec _ _ _ _ HG) as [G1 G2]. rewrite seq_length in G1.
  pose proof (Permutation_length HPq) as Hq. rewrite seq_length in Hq.
  apply (nth_ext _ _ 0 0); [rewrite map_length; lia|]. intros a Ha. rewrite map_length in Ha.
  assert (Hqa : nth a q 0 < n).
  { assert (In (nth a q 0) (seq 0 n)) by (apply (Permutation_in _ HPq); apply nth_In; lia). apply in_seq in H. lia. }
  rewrite (nth_indep _ 0 (gfun gam 0)) by (rewrite map_length; lia). rewrite map_nth. unfold gfun.
  destruct (G2 (nth a q 0) (nth a q 0)) as (k & K1 & K2).
  - rewrite nth_error_nth' with (d := 0) by (rewrite seq_length; lia). rewrite seq_nth by lia. reflexivity.
  - rewrite (HI2 a ltac:(lia)) in K1. inversion K1; subst k. symmetry. apply nth_error_nth. exact K2.
Qed.

(* ---------------------------------------------------------------- walks *)

Lemma walk_split : forall p k P Q, walk g root (firstn k p) = Some P -> walk g root p = Some Q ->
  walk g P (skipn k p) = Some Q.
Proof. intros p k P Q H1 H2. rewrite <- (firstn_skipn k p), walk_app, H1 in H2. exact H2. Qed.

Lemma walk_cons_inv : forall P j r Q, walk g P (j :: r) = Some Q -> exists Q1, child g P j = Some Q1 /\ walk g Q1 r = Some Q.
Proof. intros P j r Q H. simpl in H. destruct (child g P j) as [Q1|]; [eauto|discriminate]. Qed.

(* ---------------------------------------------------------------- the stack cut back to keep nodes *)

Lemma thr_cut : forall path keep k, k < keep -> keep <= length path ->
  thr (firstn keep path) (ltop (firstn keep path)) k = if S k =? keep then nth k path 0 else S (nth k path 0).
Proof.
  intros path keep k Hk Hkeep. unfold thr, ltop. rewrite firstn_length. replace (Nat.min keep (length path)) with keep by lia.
  destruct (S k =? keep) eqn:E.
  - apply Nat.eqb_eq in E. replace (keep - 1) with k by lia. apply nth_firstn'. lia.
  - rewrite nth_firstn' by lia. reflexivity.
Qed.

Lemma low_cut : forall path keep k, k < keep -> keep <= length path ->
  low (firstn keep path) (ltop (firstn keep path)) k = nth k path 0.
Proof.
  intros path keep k Hk Hkeep. unfold low, ltop. rewrite firstn_length. replace (Nat.min keep (length path)) with keep by lia.
  destruct (S k =? keep) eqn:E.
  - apply Nat.eqb_eq in E. replace (keep - 1) with k by lia. apply nth_firstn'. lia.
  - apply nth_firstn'. lia.
Qed.

Lemma thr_full : forall path k, k < length path -> thr path (S (ltop path)) k = S (nth k path 0).
Proof.
  intros path k Hk. unfold thr, ltop. destruct (S k =? length path) eqn:E; [|reflexivity].
  apply Nat.eqb_eq in E. replace (length path - 1) with k by lia. reflexivity.
Qed.

Lemma low_full : forall path k, k < length path -> nth k path 0 <= low path (S (ltop path)) k.
Proof.
  intros path k Hk. unfold low, ltop. destruct (S k =? length path) eqn:E; [|lia].
  apply Nat.eqb_eq in E. replace (length path - 1) with k by lia. lia.
Qed.

Lemma shared_cut : forall rp path keep k, k < keep -> (shared rp (firstn keep path) k <-> shared rp path k).
Proof. intros rp path keep k Hk. unfold shared. rewrite firstn_firstn_le by lia. reflexivity. Qed.

Lemma WalkI_cut : forall anc path keep, WalkI anc path -> WalkI (firstn keep anc) (firstn keep path).
Proof.
  intros anc path keep H k P HP. destruct (nth_error_firstn_some _ _ _ _ _ HP) as [Hk HP'].
  rewrite firstn_firstn_le by lia. apply H. exact HP'.
Qed.

Lemma DomI_cut : forall anc path keep cb, length anc = length path -> 1 <= keep <= length path ->
  DomI anc path (S (ltop path)) cb ->
  (forall P, nth_error anc (keep - 1) = Some P -> Dom1 g n cb (erase P) (nth (keep - 1) path 0)) ->
  DomI (firstn keep anc) (firstn keep path) (ltop (firstn keep path)) cb.
Proof.
  intros anc path keep cb HL Hkeep HD Hnew k P i HP Ht. destruct (nth_error_firstn_some _ _ _ _ _ HP) as [Hk HP'].
  rewrite thr_cut in Ht by lia. destruct (S k =? keep) eqn:E.
  - apply Nat.eqb_eq in E. destruct (Nat.eq_dec i (nth k path 0)) as [->|Hne].
    + replace k with (keep - 1) by lia. apply Hnew. replace (keep - 1) with k by lia. exact HP'.
    + apply (HD k P i HP'). rewrite thr_full by lia. lia.
  - apply (HD k P i HP'). rewrite thr_full by lia. exact Ht.
Qed.

Lemma RecI_cut : forall anc path keep cb rp rlen rperm, length anc = length path -> 1 <= keep <= length path ->
  RecI anc path (S (ltop path)) cb rp rlen rperm ->
  (forall P Q, nth_error anc (keep - 1) = Some P -> child g (erase P) (nth (keep - 1) path 0) = Some Q -> dom g n cb Q) ->
  RecI (firstn keep anc) (firstn keep path) (ltop (firstn keep path)) cb rp rlen rperm.
Proof.
  intros anc path keep cb rp rlen rperm HL Hkeep (HW & HLx & HD) Hnew. split; [exact HW|]. split.
  - intros k P HP HS. destruct (nth_error_firstn_some _ _ _ _ _ HP) as [Hk HP']. apply shared_cut in HS; [|exact Hk].
    destruct (HLx k P HP' HS) as [H1 H2]. split; [exact H1|]. rewrite low_cut by lia. pose proof (low_full path k ltac:(lia)). lia.
  - intros k P Q HP HS Ht HC. destruct (nth_error_firstn_some _ _ _ _ _ HP) as [Hk HP']. apply shared_cut in HS; [|exact Hk].
    rewrite thr_cut in Ht by lia. destruct (S k =? keep) eqn:E.
    + apply Nat.eqb_eq in E. destruct (Nat.eq_dec (nth k rp 0) (nth k path 0)) as [Eq|Hne].
      * apply (Hnew P Q); [replace (keep - 1) with k by lia; exact HP'|]. replace (keep - 1) with k by lia. rewrite <- Eq. exact HC.
      * apply (HD k P Q HP' HS); [|exact HC]. rewrite thr_full by lia. lia.
    + apply (HD k P Q HP' HS); [|exact HC]. rewrite thr_full by lia. exact Ht.
Qed.

Lemma FixI_cut : forall anc path keep rp gs gs', FixI anc path rp gs ->
  (forall gam, In gam gs' -> In gam gs \/
     forall k P, k < keep -> nth_error anc k = Some P -> sim (gfun gam) (erase P) (erase P)) ->
  FixI (firstn keep anc) (firstn keep path) rp gs'.
Proof.
  intros anc path keep rp gs gs' H Hgs gam k P Hgam HP HS. destruct (nth_error_firstn_some _ _ _ _ _ HP) as [Hk HP'].
  apply shared_cut in HS; [|exact Hk]. destruct (Hgs gam Hgam) as [Hin|Hall]; [apply (H gam k P Hin HP' HS)|apply (Hall k P Hk HP')].
Qed.

(* ---------------------------------------------------------------- the singleton prefix after deage_n *)

Lemma deage_n_spl : forall d anc path choices ps ps', stack_ok g n root Xc anc path choices ->
  cur_ok n Xc anc (length path) false ps -> (forall P, last_opt anc = Some P -> fns P < p_spl ps) ->
  d <= length path -> deage_n d ps = Ok ps' ->
  forall P', last_opt (firstn (length path - d) anc) = Some P' -> fns P' < p_spl ps'.
Proof.
  induction d as [|d IH]; intros anc path choices ps ps' HS HC HSp Hd HD P' HP'; simpl in HD.
  - inversion HD; subst ps'. pose proof (stack_ok_lengths g n root Xc _ _ _ HS) as [HL1 _].
    rewrite Nat.sub_0_r, <- HL1, firstn_all in HP'. apply HSp. exact HP'.
  - bind_inv HD. rename r into ps1.
    assert (HL : 1 <= length path) by lia.
    pose proof (stack_ok_lengths g n root Xc _ _ _ HS) as [HL1 HL2].
    destruct (last_opt anc) as [P|] eqn:EP; [|apply last_opt_none in EP; subst anc; simpl in HL1; lia].
    assert (HN : node_ok g n root Xc (length path - 1) P).
    { destruct HS as (_ & _ & HNo & _). rewrite <- HL1. apply HNo. rewrite <- last_opt_nth. exact EP. }
    rewrite (deage_T g n root Xc anc _ _ P HL HC EP HN) in E. inversion E; subst ps1. clear E.
    pose proof (stack_pop g n root Xc _ _ _ HS) as HS'.
    pose proof (cur_pop g n root Xc anc path choices P (snd (deage_sv (fns P) (p_spl ps) (p_value ps)))
                  (fst (deage_sv (fns P) (p_spl ps) (p_value ps))) HS EP) as HC'.
    assert (HLr : length (removelast path) = length path - 1) by apply removelast_length.
    rewrite <- HLr in HC'.
    assert (Hspl1 : fst (deage_sv (fns P) (p_spl ps) (p_value ps)) = fns P).
    { unfold deage_sv. specialize (HSp P eq_refl). apply Nat.ltb_lt in HSp. rewrite HSp. reflexivity. }
    apply (IH (removelast anc) (removelast path) (removelast choices) _ ps' HS' HC'); [| |exact HD|].
    + intros P2 HP2. cbn [p_spl]. rewrite Hspl1. destruct (last_removelast _ _ _ HP2) as [A B].
      destruct HS as (_ & _ & _ & HCn & _). apply (chain_fns (S (length anc - 2)) P P2).
      apply (HCn (length anc - 2) P2 P A). replace (S (length anc - 2)) with (length anc - 1) by lia. rewrite <- last_opt_nth. exact EP.
    + rewrite HLr. lia.
    + rewrite HLr. rewrite removelast_firstn_len', firstn_firstn.
      replace (Nat.min (length path - 1 - d) (length anc - 1)) with (length path - S d) by lia. exact HP'.
Qed.

End VCP3.
