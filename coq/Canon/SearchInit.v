(* Canon/SearchInit.v — the partition built by NewOrderedPartition (init_cells) and the state in
   which CanonicalIsomorphAllocated enters its main loop satisfy the invariant. *)
From Coq Require Import List Arith Bool ZArith Lia Permutation Sorted.
From Mamba Require Import Canon.Perm Canon.Iso Canon.Model Canon.Refine Canon.Sorted Canon.Tree Canon.Fuel
  Disjoint.Model Disjoint.Proofs Canon.SearchModel Canon.SearchHoare Canon.SearchCells Canon.SearchTarget
  Canon.SearchDeage Canon.SearchRefine Canon.SearchExec Canon.SearchValue Canon.SearchExpand Canon.SearchCert
  Canon.SearchInvT Canon.SearchVCT Canon.SearchInvV Canon.SearchVCV.
Import ListNotations.
Open Scope nat_scope.

(* vertex classes: nil, or an ordered partition of 0..n-1 into non-empty classes *)
Definition cls_ok (n : nat) (cls : option (list (list nat))) : Prop :=
  match cls with
  | None => True
  | Some c => Permutation (concat c) (seq 0 n) /\ Forall (fun x => x <> []) c
  end.

Lemma sorted_le_lt : forall l, StronglySorted le l -> NoDup l -> StronglySorted lt l.
Proof.
  intros l H. induction H as [|x l Hl IH Hx]; intros Hnd; [constructor|]. inversion Hnd; subst.
  constructor; [apply IH; assumption|]. rewrite Forall_forall in *. intros y Hy.
  specialize (Hx y Hy). assert (x <> y) by (intros ->; contradiction). lia.
Qed.

Lemma concat_isort_perm : forall c : list (list nat), Permutation (concat (map isort c)) (concat c).
Proof.
  induction c as [|x c IH]; simpl; [constructor|]. apply Permutation_app; [apply isort_perm|exact IH].
Qed.

Lemma order_of_init_some : forall c, order_of (map (fun x => (0%Z, (true, isort x))) c) = concat (map isort c).
Proof. induction c as [|x c IH]; [reflexivity|]. simpl. rewrite order_of_cons, IH. reflexivity. Qed.

Lemma NoDup_concat_each : forall (c : list (list nat)) x, NoDup (concat c) -> In x c -> NoDup x.
Proof.
  induction c as [|y c IH]; intros x H Hx; [contradiction|]. simpl in H. destruct Hx as [->|Hx].
  - eapply NoDup_app_l. exact H.
  - apply IH; [eapply NoDup_app_r; exact H|exact Hx].
Qed.

Lemma init_cells_ok : forall n cls, 0 < n -> cls_ok n cls ->
  Permutation (order_of (init_cells n cls)) (seq 0 n) /\ nonempty (init_cells n cls) /\ casc (init_cells n cls) /\
  ages_le 0%Z (init_cells n cls).
Proof.
  intros n cls Hn H. unfold init_cells. destruct cls as [c|].
  - destruct H as [HP HN]. unfold init_classes. rewrite map_map.
    assert (Hnd : NoDup (concat c)) by (apply (Permutation_NoDup (Permutation_sym HP)), seq_NoDup).
    split; [rewrite order_of_init_some; eapply perm_trans; [apply concat_isort_perm|exact HP]|].
    split; [|split].
    + apply Forall_forall. intros d Hd. apply in_map_iff in Hd. destruct Hd as (x & <- & Hx).
      unfold cverts. simpl. rewrite Forall_forall in HN. specialize (HN x Hx).
      intros E. apply HN. pose proof (Permutation_length (isort_perm x)) as HL. rewrite E in HL. destruct x; [reflexivity|discriminate].
    + apply Forall_forall. intros d Hd. apply in_map_iff in Hd. destruct Hd as (x & <- & Hx).
      unfold cverts. simpl. apply sorted_le_lt; [apply isort_sorted|].
      apply (Permutation_NoDup (Permutation_sym (isort_perm x))). eapply NoDup_concat_each; eassumption.
    + apply Forall_forall. intros d Hd. apply in_map_iff in Hd. destruct Hd as (x & <- & Hx). simpl. lia.
  - destruct n; [lia|]. simpl.
    split; [rewrite order_of_single; apply Permutation_refl|]. split; [constructor; [discriminate|constructor]|].
    split; [constructor; [apply (asc_seq (S n) 0)|constructor]|constructor; [simpl; lia|constructor]].
Qed.

(* the class of a vertex = the index of its initial bin *)
Lemma in_cell_index : forall cs b c a u, cs = b ++ c :: a -> NoDup (order_of cs) -> In u (cverts c) ->
  in_cell cs u = length b.
Proof.
  intros cs b. revert cs. induction b as [|c0 b IH]; intros cs c a u E Hnd Hu; subst cs; simpl.
  - apply (proj2 (memb_In u (cverts c))) in Hu. rewrite Hu. reflexivity.
  - simpl in Hnd. rewrite order_of_cons in Hnd.
    destruct (Canon.Perm.memb u (cverts c0)) eqn:Em.
    + exfalso. apply memb_In in Em. eapply (NoDup_app_disj _ (cverts c0) (order_of (b ++ c :: a)) u Hnd Em).
      rewrite order_of_app, order_of_cons. apply in_or_app. right. apply in_or_app. left. exact Hu.
    + f_equal. eapply IH; [reflexivity|eapply NoDup_app_r; exact Hnd|exact Hu].
Qed.

Lemma Kc_init : forall cs, NoDup (order_of cs) -> Kc (in_cell cs) (order_of cs) cs.
Proof.
  intros cs Hnd. split; [|reflexivity]. apply Forall_forall. intros c Hc u v Hu Hv.
  apply in_split in Hc. destruct Hc as (b & a & E).
  rewrite (in_cell_index cs b c a u E Hnd Hu), (in_cell_index cs b c a v E Hnd Hv). reflexivity.
Qed.
