(* Canon/SearchSibling.v — in an equitable partition, individualising one or another vertex of the same
   bin gives the same entries of the singleton prefix: the children of a node cannot be told apart by
   the partial certificate available right after splitBin.  (This is what makes the cut-off sound for
   the siblings that follow a child cut off inside splitBin.) *)
From Coq Require Import List Arith Bool ZArith Lia Permutation Sorted.
From Mamba Require Import Canon.Perm Canon.Iso Canon.Model Canon.Refine Canon.Sorted Canon.Tree Canon.Fuel
  Disjoint.Model Canon.SearchModel Canon.SearchCells Canon.SearchTarget Canon.SearchDeage Canon.SearchRefine
  Canon.SearchValue Canon.SearchExpand Canon.SearchCert Canon.SearchOrder Canon.SearchEquiv Canon.SearchEquit.
Import ListNotations.
Open Scope nat_scope.

Section Sibling.
Variable g : graph.
Variable n : nat.

Notation good := (good g n).
Notation ent := (ent g n).

(* ---------------------------------------------------------------- relabelling the prefix *)

Lemma good_local_map : forall (sg : nat -> nat) cs cs' s,
  (forall v, v < n -> in_cell cs' (sg v) = in_cell cs v) ->
  Permutation (map sg (seq 0 n)) (seq 0 n) ->
  (forall k, k < s -> exists c c' u, nth_error cs k = Some c /\ cverts c = [u] /\ nth_error cs' k = Some c' /\ cverts c' = [sg u] /\
     forall v, v < n -> in_cell cs v < k -> adjb g (sg u) (sg v) = adjb g u v) ->
  good cs' s = good cs s.
Proof.
  intros sg cs cs' s Hic HP Hpre. unfold SearchValue.good. apply flat_map_ext_in'. intros k Hk. apply in_seq in Hk.
  destruct (Hpre k ltac:(lia)) as (c & c' & u & Ec & Hu & Ec' & Hu' & Hadj).
  unfold SearchValue.ent. rewrite Ec, Ec', Hu, Hu'. unfold entries. apply isort_perm_eq.
  eapply perm_trans.
  { apply Permutation_map. apply filter_perm. apply Permutation_sym. exact HP. }
  rewrite filter_map_comm, map_map.
  rewrite (filter_ext_in (fun x => adjb g (sg u) (sg x) && (in_cell cs' (sg x) <? k))
                         (fun v => adjb g u v && (in_cell cs v <? k))).
  - apply Permutation_refl'. apply map_ext_in. intros v Hv. apply filter_In in Hv. destruct Hv as [Hv _].
    apply in_seq in Hv. rewrite Hic by lia. reflexivity.
  - intros v Hv. apply in_seq in Hv. rewrite Hic by lia.
    destruct (in_cell cs v <? k) eqn:E; [|rewrite !andb_false_r; reflexivity].
    apply Nat.ltb_lt in E. rewrite Hadj by (try lia; exact E). reflexivity.
Qed.

(* ---------------------------------------------------------------- in_cell of a partition with a bin split in two *)

Definition inb (v : nat) (l : list acell) : bool := existsb (fun c => Canon.Perm.memb v (cverts c)) l.

Lemma in_cell_app : forall l r v, in_cell (l ++ r) v = if inb v l then in_cell l v else length l + in_cell r v.
Proof.
  induction l as [|c l IH]; intros r v; [reflexivity|]. simpl.
  destruct (Canon.Perm.memb v (cverts c)); [reflexivity|]. simpl. rewrite IH. destruct (inb v l); reflexivity.
Qed.

Lemma inb_In : forall v l, inb v l = true <-> In v (order_of l).
Proof.
  intros v l. induction l as [|c l IH]; [simpl; split; [discriminate|contradiction]|].
  simpl. rewrite order_of_cons, orb_true_iff, IH, in_app_iff, memb_In. reflexivity.
Qed.

Definition swap (x y v : nat) : nat := if v =? x then y else if v =? y then x else v.

Lemma swap_perm : forall x y, x < n -> y < n -> Permutation (map (swap x y) (seq 0 n)) (seq 0 n).
Proof.
  intros x y Hx Hy. apply NoDup_Permutation_bis.
  - apply NoDup_map_inj_in; [|apply seq_NoDup]. intros a b _ _ E. unfold swap in E.
    destruct (a =? x) eqn:E1; destruct (b =? x) eqn:E2; destruct (a =? y) eqn:E3; destruct (b =? y) eqn:E4;
      repeat match goal with H : (_ =? _) = true |- _ => apply Nat.eqb_eq in H | H : (_ =? _) = false |- _ => apply Nat.eqb_neq in H end; subst; congruence.
  - rewrite map_length. lia.
  - intros v Hv. apply in_map_iff in Hv. destruct Hv as (u & <- & Hu). apply in_seq in Hu. apply in_seq. unfold swap.
    destruct (u =? x); [lia|]. destruct (u =? y); lia.
Qed.

(* ---------------------------------------------------------------- two children of a node *)

Section Two.
Variables b a : list acell.
Variable c : acell.
Variables x y : nat.
Variables cx1 cx2 cy1 cy2 : acell.
Hypothesis Hsym : forall u v, adjb g u v = adjb g v u.
Hypothesis Hirr : forall u, adjb g u u = false.
Hypothesis HP : Permutation (order_of (b ++ c :: a)) (seq 0 n).
Hypothesis Hb : Forall single b.
Hypothesis HE : equitable g (erase (b ++ c :: a)).
Hypothesis Hx : In x (cverts c).
Hypothesis Hy : In y (cverts c).
Hypothesis Hxy : x <> y.
Hypothesis Hx1 : cverts cx1 = [x].
Hypothesis Hx2 : cverts cx2 = filter (fun u => negb (u =? x)) (cverts c).
Hypothesis Hy1 : cverts cy1 = [y].
Hypothesis Hy2 : cverts cy2 = filter (fun u => negb (u =? y)) (cverts c).

Let csx := b ++ cx1 :: cx2 :: a.
Let csy := b ++ cy1 :: cy2 :: a.
Let sg := swap x y.

Lemma Hnd : NoDup (order_of (b ++ c :: a)).
Proof. apply (Permutation_NoDup (Permutation_sym HP)), seq_NoDup. Qed.

Lemma not_in_b : forall v, In v (cverts c) -> inb v b = false.
Proof.
  intros v Hv. destruct (inb v b) eqn:E; [|reflexivity]. apply inb_In in E. exfalso.
  pose proof Hnd as H. rewrite order_of_app, order_of_cons in H.
  eapply (NoDup_app_disj _ _ _ v H E). apply in_or_app. left. exact Hv.
Qed.

Lemma not_in_a : forall v, In v (cverts c) -> inb v a = false.
Proof.
  intros v Hv. destruct (inb v a) eqn:E; [|reflexivity]. apply inb_In in E. exfalso.
  pose proof Hnd as H. rewrite order_of_app, order_of_cons in H. apply NoDup_app_r in H.
  eapply (NoDup_app_disj _ _ _ v H Hv E).
Qed.

Lemma memb_filter_ne : forall v z l, Canon.Perm.memb v (filter (fun u => negb (u =? z)) l) = Canon.Perm.memb v l && negb (v =? z).
Proof.
  intros v z l. apply eq_iff_eq_true. rewrite andb_true_iff, !memb_In, filter_In, negb_true_iff. tauto.
Qed.

Lemma sg_x : sg x = y. Proof. unfold sg, swap. rewrite Nat.eqb_refl. reflexivity. Qed.
Lemma sg_y : sg y = x.
Proof. unfold sg, swap. destruct (y =? x) eqn:E; [apply Nat.eqb_eq in E; congruence|]. rewrite Nat.eqb_refl. reflexivity. Qed.
Lemma sg_other : forall v, v <> x -> v <> y -> sg v = v.
Proof. intros v H1 H2. unfold sg, swap. apply Nat.eqb_neq in H1. apply Nat.eqb_neq in H2. rewrite H1, H2. reflexivity. Qed.

Lemma in_cell_swap : forall v, in_cell csy (sg v) = in_cell csx v.
Proof.
  intros v. unfold csx, csy. rewrite !in_cell_app.
  destruct (Nat.eq_dec v x) as [->|Hvx]; [|destruct (Nat.eq_dec v y) as [->|Hvy]].
  - rewrite sg_x, (not_in_b x Hx), (not_in_b y Hy). simpl. rewrite Hx1, Hy1. simpl. rewrite !Nat.eqb_refl. reflexivity.
  - rewrite sg_y, (not_in_b x Hx), (not_in_b y Hy). simpl. rewrite Hx1, Hy1, Hx2, Hy2. simpl.
    rewrite !memb_filter_ne. rewrite (proj2 (memb_In y (cverts c)) Hy), (proj2 (memb_In x (cverts c)) Hx).
    assert (E1 : y =? x = false) by (apply Nat.eqb_neq; congruence). assert (E2 : x =? y = false) by (apply Nat.eqb_neq; congruence).
    rewrite E1, E2. reflexivity.
  - rewrite (sg_other v Hvx Hvy). destruct (inb v b); [reflexivity|]. f_equal. simpl. rewrite Hx1, Hy1, Hx2, Hy2. simpl.
    rewrite !memb_filter_ne.
    assert (E1 : v =? x = false) by (apply Nat.eqb_neq; congruence). assert (E2 : v =? y = false) by (apply Nat.eqb_neq; congruence).
    rewrite E1, E2. simpl. rewrite !andb_true_r. reflexivity.
Qed.

(* a vertex other than x, y in a singleton bin of csx sits in a singleton bin of the node *)
Lemma single_of_node : forall k d v, nth_error csx k = Some d -> cverts d = [v] -> v <> x -> v <> y ->
  exists fl, In (fl, [v]) (erase (b ++ c :: a)).
Proof.
  intros k d v Hd Hv Hvx Hvy. unfold csx in Hd. apply nth_error_In in Hd. apply in_app_or in Hd.
  assert (G : forall l, In d l -> (forall e, In e l -> In e (b ++ c :: a)) -> exists fl, In (fl, [v]) (erase (b ++ c :: a))).
  { intros l Hl Hsub. exists (cflag d). unfold erase. apply in_map_iff. exists d. split; [|apply Hsub; exact Hl].
    destruct d as [ag [fl vs]]. unfold cverts in Hv. simpl in *. subst vs. reflexivity. }
  destruct Hd as [Hd|[<-|[<-|Hd]]].
  - apply (G b Hd). intros e He. apply in_or_app. left. exact He.
  - rewrite Hx1 in Hv. congruence.
  - exfalso. rewrite Hx2 in Hv.
    assert (In y (filter (fun u => negb (u =? x)) (cverts c))).
    { apply filter_In. split; [exact Hy|]. apply negb_true_iff, Nat.eqb_neq. congruence. }
    rewrite Hv in H. destruct H as [H|[]]. congruence.
  - apply (G a Hd). intros e He. apply in_or_app. right. right. exact He.
Qed.

Lemma adj_swap : forall s u v, prefix_single csx s ->
  (exists k d, k < s /\ nth_error csx k = Some d /\ cverts d = [u]) ->
  (exists k d, k < s /\ nth_error csx k = Some d /\ cverts d = [v]) ->
  adjb g (sg u) (sg v) = adjb g u v.
Proof.
  intros s u v Hps (ku & du & Hku & Edu & Hu) (kv & dv & Hkv & Edv & Hv).
  assert (Hcin : In (snd c) (erase (b ++ c :: a))) by (unfold erase; apply in_map; apply in_or_app; right; left; reflexivity).
  assert (Key : forall w k d, nth_error csx k = Some d -> cverts d = [w] -> w <> x -> w <> y -> adjb g w x = adjb g w y).
  { intros w k d Hd Hw H1 H2. destruct (single_of_node k d w Hd Hw H1 H2) as [fl Hfl].
    apply (equitable_single g (erase (b ++ c :: a)) w (snd c) x y HE); [destruct fl; [right|left]; exact Hfl|exact Hcin|exact Hx|exact Hy]. }
  destruct (Nat.eq_dec u x) as [->|Hux]; [|destruct (Nat.eq_dec u y) as [->|Huy]];
    (destruct (Nat.eq_dec v x) as [->|Hvx]; [|destruct (Nat.eq_dec v y) as [->|Hvy]]);
    rewrite ?sg_x, ?sg_y, ?(sg_other u), ?(sg_other v) by assumption; try reflexivity.
  - rewrite !Hirr. reflexivity.
  - apply Hsym.
  - rewrite (Hsym y v), (Hsym x v). symmetry. apply (Key v kv dv Edv Hv Hvx Hvy).
  - apply Hsym.
  - rewrite !Hirr. reflexivity.
  - rewrite (Hsym x v), (Hsym y v). apply (Key v kv dv Edv Hv Hvx Hvy).
  - symmetry. apply (Key u ku du Edu Hu Hux Huy).
  - apply (Key u ku du Edu Hu Hux Huy).
Qed.

Lemma x_lt : x < n /\ y < n.
Proof.
  assert (G : forall v, In v (cverts c) -> v < n).
  { intros v Hv. assert (In v (seq 0 n)); [|apply in_seq in H; lia]. apply (Permutation_in _ HP).
    rewrite order_of_app, order_of_cons. apply in_or_app. right. apply in_or_app. left. exact Hv. }
  split; apply G; assumption.
Qed.

Lemma Hcnd : NoDup (cverts c).
Proof. pose proof Hnd as H. rewrite order_of_app, order_of_cons in H. apply NoDup_app_r in H. apply NoDup_app_l in H. exact H. Qed.

Lemma csx_perm : Permutation (order_of csx) (seq 0 n).
Proof.
  eapply perm_trans; [|exact HP]. unfold csx. rewrite !order_of_app, !order_of_cons, Hx1, Hx2.
  apply Permutation_app_head. simpl. rewrite app_comm_cons. apply Permutation_app_tail.
  apply perm_filter_ne; [apply Hcnd|exact Hx].
Qed.

Lemma length_b_cells : forall k d, k < length b -> nth_error b k = Some d -> forall v, In v (cverts d) -> v <> x /\ v <> y.
Proof.
  intros k d Hk Hd v Hv. assert (Hin : inb v b = true).
  { apply inb_In. rewrite order_of_flat. apply in_flat_map. exists d. split; [eapply nth_error_In; exact Hd|exact Hv]. }
  split; intros ->; [rewrite (not_in_b x Hx) in Hin|rewrite (not_in_b y Hy) in Hin]; discriminate.
Qed.

Lemma a_cells : forall d, In d a -> forall v, In v (cverts d) -> v <> x /\ v <> y.
Proof.
  intros d Hd v Hv. assert (Hin : inb v a = true).
  { apply inb_In. rewrite order_of_flat. apply in_flat_map. exists d. split; assumption. }
  split; intros ->; [rewrite (not_in_a x Hx) in Hin|rewrite (not_in_a y Hy) in Hin]; discriminate.
Qed.

Lemma filter_ne_single : forall u, filter (fun w => negb (w =? x)) (cverts c) = [u] ->
  u = y /\ filter (fun w => negb (w =? y)) (cverts c) = [x].
Proof.
  intros u Hu.
  assert (Hy' : In y (filter (fun w => negb (w =? x)) (cverts c))).
  { apply filter_In. split; [exact Hy|]. apply negb_true_iff, Nat.eqb_neq. congruence. }
  rewrite Hu in Hy'. destruct Hy' as [->|[]]. split; [reflexivity|].
  pose proof (perm_filter_ne (cverts c) x Hcnd Hx) as P1. rewrite Hu in P1.
  pose proof (perm_filter_ne (cverts c) y Hcnd Hy) as P2.
  pose proof (Permutation_length P1) as L1. pose proof (Permutation_length P2) as L2. simpl in L1, L2.
  destruct (filter (fun w => negb (w =? y)) (cverts c)) as [|z [|z' t]] eqn:EF; simpl in L2; try lia.
  assert (In x (filter (fun w => negb (w =? y)) (cverts c))).
  { apply filter_In. split; [exact Hx|]. apply negb_true_iff, Nat.eqb_neq. congruence. }
  rewrite EF in H. destruct H as [->|[]]. reflexivity.
Qed.

(* the entries of the singleton prefix are the same for the two children *)
Theorem sibling_good : forall s, prefix_single csx s -> s <= length csx ->
  good csy s = good csx s /\ prefix_single csy s.
Proof.
  intros s Hps Hs. destruct x_lt as [Hxn Hyn].
  assert (Cells : forall k, k < s -> exists d d' u, nth_error csx k = Some d /\ cverts d = [u] /\
                    nth_error csy k = Some d' /\ cverts d' = [sg u]).
  { intros k Hk. destruct (nth_error csx k) as [d|] eqn:Ed; [|apply nth_error_None in Ed; lia].
    destruct (Hps k d Hk Ed) as [u Hu]. exists d. unfold csx, csy in *.
    destruct (Nat.lt_ge_cases k (length b)) as [Hkb|Hkb].
    - rewrite nth_error_app1 in Ed by assumption. exists d, u. rewrite nth_error_app1 by assumption.
      destruct (length_b_cells k d Hkb Ed u ltac:(rewrite Hu; left; reflexivity)) as [H1 H2].
      rewrite (sg_other u H1 H2). auto.
    - rewrite nth_error_app2 in Ed by assumption. rewrite nth_error_app2 by assumption.
      destruct (k - length b) as [|[|k']] eqn:Ek; simpl in Ed |- *.
      + inversion Ed; subst d. rewrite Hx1 in Hu. inversion Hu; subst u. exists cy1, x. rewrite sg_x. auto.
      + inversion Ed; subst d. rewrite Hx2 in Hu. destruct (filter_ne_single u Hu) as [-> HF].
        exists cy2, y. rewrite sg_y, Hy2. split; [reflexivity|]. split; [rewrite Hx2; exact Hu|]. split; [reflexivity|exact HF].
      + exists d, u. destruct (a_cells d (nth_error_In _ _ Ed) u ltac:(rewrite Hu; left; reflexivity)) as [H1 H2].
        rewrite (sg_other u H1 H2). auto. }
  split.
  - apply (good_local_map sg csx csy s).
    + intros v _. apply in_cell_swap.
    + apply swap_perm; assumption.
    + intros k Hk. destruct (Cells k Hk) as (d & d' & u & E1 & E2 & E3 & E4). exists d, d', u.
      split; [exact E1|]. split; [exact E2|]. split; [exact E3|]. split; [exact E4|].
      intros v Hv Hic. apply (adj_swap s u v Hps); [exists k, d; auto|].
      assert (Hin : In v (order_of csx)) by (apply (Permutation_in _ (Permutation_sym csx_perm)); apply in_seq; lia).
      destruct (in_cell_spec csx v Hin) as (dv & Edv & Hvd).
      destruct (Hps (in_cell csx v) dv ltac:(lia) Edv) as [w Hw]. rewrite Hw in Hvd. destruct Hvd as [->|[]].
      exists (in_cell csx v), dv. split; [lia|]. split; assumption.
  - intros k d' Hk Hd'. destruct (Cells k Hk) as (d & d2 & u & E1 & E2 & E3 & E4). rewrite E3 in Hd'. inversion Hd'; subst d2.
    exists (sg u). exact E4.
Qed.

End Two.

End Sibling.
