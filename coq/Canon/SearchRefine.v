(* Canon/SearchRefine.v — the refinement with certificate of Canon/SearchModel.v (pick_a,
   round_loop, refine_loop) and splitBin as splitting steps [V]; a refinement that is not cut off
   is, on the bins without ages, the refinement [refine_fuel] of Canon/Model.v. *)
From Coq Require Import List Arith Bool ZArith Lia Permutation Sorted.
From Mamba Require Import Canon.Perm Canon.Iso Canon.Model Canon.Refine Canon.Sorted Canon.Fuel
  Disjoint.Model Canon.SearchModel Canon.SearchCells Canon.SearchDeage.
Import ListNotations.
Open Scope nat_scope.

(* ---------------------------------------------------------------- with_ages *)

Lemma with_ages_cons2 : forall a o f f' r, with_ages a o (f :: f' :: r) = (a, f) :: with_ages a o (f' :: r).
Proof. reflexivity. Qed.

Lemma erase_with_ages : forall a o frs, erase (with_ages a o frs) = frs.
Proof.
  intros a o frs. induction frs as [|f r IH]; [reflexivity|].
  destruct r as [|f' r]; [reflexivity|]. rewrite with_ages_cons2. simpl. simpl in IH. rewrite IH. reflexivity.
Qed.

Lemma with_ages_split : forall a o frs f, with_ages a o (frs ++ [f]) = map (fun x => (a, x)) frs ++ [(o, f)].
Proof.
  intros a o frs f. induction frs as [|x r IH]; [reflexivity|].
  simpl app. destruct (r ++ [f]) as [|y t] eqn:E; [destruct r; discriminate|].
  rewrite with_ages_cons2. simpl. rewrite <- IH. reflexivity.
Qed.

Lemma order_of_map_age : forall a (frs : list cell), order_of (map (fun x => (a, x)) frs) = verts frs.
Proof. intros. unfold order_of, erase. rewrite map_map. simpl. rewrite map_id. reflexivity. Qed.

Lemma with_ages_vrep : forall g w a c, uniform g w (cverts c) = false ->
  vrep a c (with_ages a (cage c) (fragments g w (cverts c))).
Proof.
  intros g w a c HU. pose proof (fragments_two g w (cverts c) HU) as H2.
  pose proof (fragments_verts g w (cverts c)) as HV.
  pose proof (fragments_flagged g w (cverts c)) as HF.
  destruct (exists_last (l := fragments g w (cverts c))) as (F & [fl f] & E).
  { intros E. rewrite E in H2. simpl in H2. lia. }
  rewrite E in *. rewrite with_ages_split. split; [|split].
  - exists (map (fun x => (a, x)) F), fl, f. repeat split.
    + apply Forall_forall. intros d Hd. apply in_map_iff in Hd. destruct Hd as (x & <- & _). reflexivity.
    + rewrite order_of_map_age. rewrite verts_app in HV. unfold verts at 2 in HV. simpl in HV.
      rewrite app_nil_r in HV. exact HV.
    + intros HN. destruct F; [|discriminate]. rewrite app_length in H2. simpl in H2. lia.
  - intros _. apply Forall_app. split.
    + apply Forall_forall. intros d Hd. apply in_map_iff in Hd. destruct Hd as (x & <- & Hx).
      rewrite Forall_forall in HF. destruct (HF x) as [_ Hn]; [apply in_or_app; left; exact Hx|]. exact Hn.
    + constructor; [|constructor]. rewrite Forall_forall in HF.
      destruct (HF (fl, f)) as [_ Hn]; [apply in_or_app; right; left; reflexivity|]. exact Hn.
  - intros HA. pose proof (split_cell_asc g w (snd c)) as HS. unfold split_cell in HS.
    change (snd (snd c)) with (cverts c) in HS. rewrite HU in HS. specialize (HS HA). rewrite E in HS.
    unfold cells_asc in HS. apply Forall_app in HS. destruct HS as [HS1 HS2]. apply Forall_app. split.
    + apply Forall_forall. intros d Hd. apply in_map_iff in Hd. destruct Hd as (x & <- & Hx).
      rewrite Forall_forall in HS1. apply (HS1 x Hx).
    + inversion HS2; subst. constructor; [assumption|constructor].
Qed.

(* ---------------------------------------------------------------- pick_a *)

Lemma pick_a_erase : forall P,
  match pick_a P with
  | Some (P', w) => pick (erase P) = Some (erase P', w)
  | None => pick (erase P) = None
  end.
Proof.
  induction P as [|[a [f v]] P IH]; simpl; [reflexivity|].
  destruct (pick_a P) as [[P' w]|]; simpl in *.
  - rewrite IH. reflexivity.
  - rewrite IH. unfold cflag. simpl. destruct f; reflexivity.
Qed.

Lemma pick_a_V : forall a P P' w, pick_a P = Some (P', w) -> V a P P'.
Proof.
  intros a. induction P as [|c P IH]; intros P' w H; simpl in H; [discriminate|].
  destruct (pick_a P) as [[P1 w1]|] eqn:E.
  - inversion H; subst. apply (V_app a [c] [c] P P1); [apply V_refl|]. eapply IH. reflexivity.
  - destruct (cflag c); [|discriminate]. inversion H; subst.
    apply (V_app a [c] [(cage c, (false, cverts c))] P P); [|apply V_refl].
    apply V_one. apply vrep_flag.
Qed.

Lemma pick_a_none : forall P, pick_a P = None -> unflagged P.
Proof.
  induction P as [|c P IH]; intros H; simpl in H; [constructor|].
  destruct (pick_a P) as [[P1 w1]|]; [discriminate|].
  destruct (cflag c) eqn:E; [discriminate|]. constructor; [exact E|apply IH; reflexivity].
Qed.

(* ---------------------------------------------------------------- one round *)

Lemma split_acell_erase : forall g w a c, uniform g w (cverts c) = false ->
  erase (with_ages a (cage c) (fragments g w (cverts c))) = split_cell g w (snd c).
Proof.
  intros g w a c HU. rewrite erase_with_ages. unfold split_cell. change (snd (snd c)) with (cverts c).
  rewrite HU. reflexivity.
Qed.

Lemma split_cell_uniform : forall g w (c : acell), uniform g w (cverts c) = true -> split_cell g w (snd c) = [snd c].
Proof. intros g w c HU. unfold split_cell. change (snd (snd c)) with (cverts c). rewrite HU. reflexivity. Qed.

Definition rr_cells (r : rr) : option (bool * pstate) :=
  match r with RrPanic => None | RrWorse ps => Some (true, ps) | RrOk ps => Some (false, ps) end.

Lemma round_loop_spec : forall g n m cb fl w age pre_rev post value spl wr ps',
  rr_cells (round_loop g n m cb fl w age pre_rev post value spl) = Some (wr, ps') ->
  exists mid, V age (rev pre_rev) mid /\ p_cells ps' = mid ++ post /\ p_age ps' = age /\
    (wr = false -> erase mid = flat_map (split_cell g w) (erase (rev pre_rev))).
Proof.
  intros g n m cb fl w age. induction pre_rev as [|c pre IH]; intros post value spl wr ps' H; simpl in H.
  - inversion H; subst. exists []. repeat split; apply V_refl.
  - destruct (uniform g w (cverts c)) eqn:HU.
    + destruct (IH _ _ _ _ _ H) as (mid & HV & HC & HA & HE).
      exists (mid ++ [c]). repeat split.
      * simpl. apply V_app; [exact HV|apply V_refl].
      * rewrite HC, <- app_assoc. reflexivity.
      * exact HA.
      * intros Hw. simpl. rewrite !erase_app, flat_map_app, (HE Hw). simpl.
        rewrite (split_cell_uniform _ _ _ HU). reflexivity.
    + set (wa := with_ages age (cage c) (fragments g w (cverts c))) in *.
      assert (HVc : V age [c] wa) by (apply V_one, with_ages_vrep; exact HU).
      assert (Key : forall value' spl',
        rr_cells (round_loop g n m cb fl w age pre (wa ++ post) value' spl') = Some (wr, ps') ->
        exists mid, V age (rev (c :: pre)) mid /\ p_cells ps' = mid ++ post /\ p_age ps' = age /\
          (wr = false -> erase mid = flat_map (split_cell g w) (erase (rev (c :: pre))))).
      { intros value' spl' H'. destruct (IH _ _ _ _ _ H') as (mid & HV & HC & HA & HE).
        exists (mid ++ wa). repeat split.
        - simpl. apply V_app; assumption.
        - rewrite HC, <- app_assoc. reflexivity.
        - exact HA.
        - intros Hw. simpl. rewrite !erase_app, flat_map_app, (HE Hw). simpl. rewrite app_nil_r.
          unfold wa. rewrite (split_acell_erase _ _ _ _ HU). reflexivity. }
      destruct (length pre =? spl).
      * destruct (expand_value g (rev pre ++ wa ++ post) n m cb fl value spl) as [|v|v s] eqn:EV.
        -- discriminate.
        -- simpl in H. inversion H; subst. exists (rev pre ++ wa). repeat split.
           ++ simpl. apply V_app; [apply V_refl|exact HVc].
           ++ simpl. rewrite <- app_assoc. reflexivity.
           ++ discriminate.
        -- apply (Key _ _ H).
      * apply (Key _ _ H).
Qed.

(* ---------------------------------------------------------------- the whole refinement *)

Lemma refine_loop_spec : forall k g n m cb fl ps w ps', refine_loop k g n m cb fl ps = Ok (w, ps') ->
  V (p_age ps) (p_cells ps) (p_cells ps') /\ p_age ps' = p_age ps /\
  (w = false -> unflagged (p_cells ps') /\ refine_fuel k g (erase (p_cells ps)) = Some (erase (p_cells ps'))).
Proof.
  induction k as [|k IH]; intros g n m cb fl ps w ps' H; simpl in H.
  - pose proof (pick_a_erase (p_cells ps)) as HPk.
    destruct (pick_a (p_cells ps)) as [[P' w0]|] eqn:EP; [discriminate|]. inversion H; subst.
    split; [apply V_refl|]. split; [reflexivity|]. intros _. split; [apply pick_a_none; exact EP|].
    simpl. rewrite HPk. reflexivity.
  - pose proof (pick_a_erase (p_cells ps)) as HPk.
    destruct (pick_a (p_cells ps)) as [[P' w0]|] eqn:EP.
    + destruct (round_loop g n m cb fl w0 (p_age ps) (rev P') [] (p_value ps) (p_spl ps)) as [|ps1|ps1] eqn:ER;
        [discriminate| |].
      * inversion H; subst.
        destruct (round_loop_spec g n m cb fl w0 (p_age ps) (rev P') [] (p_value ps) (p_spl ps) true ps')
          as (mid & HV & HC & HA & _); [rewrite ER; reflexivity|].
        rewrite app_nil_r in HC. rewrite rev_involutive in HV. subst mid.
        split; [|split; [exact HA|discriminate]].
        eapply V_trans; [eapply pick_a_V; exact EP|exact HV].
      * destruct (round_loop_spec g n m cb fl w0 (p_age ps) (rev P') [] (p_value ps) (p_spl ps) false ps1)
          as (mid & HV & HC & HA & HE); [rewrite ER; reflexivity|].
        rewrite app_nil_r in HC. rewrite rev_involutive in HV, HE. subst mid.
        destruct (IH _ _ _ _ _ _ _ _ H) as (HV2 & HA2 & HW). rewrite HA in *.
        split; [|split].
        -- eapply V_trans; [eapply pick_a_V; exact EP|]. eapply V_trans; eassumption.
        -- exact HA2.
        -- intros Hw. destruct (HW Hw) as [HW1 HW2]. split; [exact HW1|].
           simpl. rewrite HPk. rewrite <- (HE eq_refl). exact HW2.
    + inversion H; subst. split; [apply V_refl|]. split; [reflexivity|]. intros _.
      split; [apply pick_a_none; exact EP|]. simpl. rewrite HPk. reflexivity.
Qed.

Lemma refine_s_spec : forall g n m cb fl ps w ps', refine_s g n m cb fl ps = Ok (w, ps') ->
  V (p_age ps) (p_cells ps) (p_cells ps') /\ p_age ps' = p_age ps /\
  (w = false -> unflagged (p_cells ps') /\ refine g (erase (p_cells ps)) = Some (erase (p_cells ps'))).
Proof.
  intros g n m cb fl ps w ps' H. unfold refine_s in H.
  destruct (refine_loop_spec _ _ _ _ _ _ _ _ _ H) as (HV & HA & HW). split; [exact HV|]. split; [exact HA|].
  intros Hw. destruct (HW Hw) as [HW1 HW2]. split; [exact HW1|].
  unfold refine. unfold order_of in HW2. rewrite erase_length. exact HW2.
Qed.

(* ---------------------------------------------------------------- splitBin *)

Lemma nth_error_split_perm : forall (c : list nat) k x, nth_error c k = Some x ->
  Permutation (x :: firstn k c ++ skipn (S k) c) c.
Proof.
  induction c as [|y c IH]; intros k x H; [destruct k; discriminate|].
  destruct k as [|k]; simpl in *.
  - inversion H; subst. apply Permutation_refl.
  - apply perm_trans with (y :: x :: firstn k c ++ skipn (S k) c); [constructor|].
    constructor. apply IH. exact H.
Qed.

Lemma skipn_nth : forall (l : list nat) k x, nth_error l k = Some x -> skipn k l = x :: skipn (S k) l.
Proof.
  induction l as [|y l IH]; intros k x EX; [destruct k; discriminate|].
  destruct k; simpl in *; [inversion EX; reflexivity|apply IH; exact EX].
Qed.

Lemma split_vrep : forall a' c k x rest, nth_error (cverts c) k = Some x -> 2 <= length (cverts c) ->
  rest = firstn k (cverts c) ++ skipn (S k) (cverts c) ->
  vrep a' c [(a', (true, [x])); (cage c, (true, rest))].
Proof.
  intros a' c k x rest EX H2 ER.
  pose proof (nth_error_split_perm _ _ _ EX) as HP. rewrite <- ER in HP. split; [|split].
  - exists [(a', (true, [x]))], true, rest. repeat split.
    + constructor; [reflexivity|constructor].
    + rewrite order_of_single. exact HP.
    + discriminate.
  - intros _. constructor; [discriminate|]. constructor; [|constructor].
    change (rest <> []). intros HN. rewrite HN in HP. apply Permutation_length in HP. simpl in HP. lia.
  - intros HA. constructor; [repeat constructor|]. constructor; [|constructor].
    change (asc rest). rewrite ER.
    rewrite <- (firstn_skipn k (cverts c)) in HA. rewrite (skipn_nth _ _ _ EX) in HA.
    eapply asc_app_mid. exact HA.
Qed.

Lemma split_bin_spec : forall g n m cb fl ps i w ps' b c k a,
  split_bin g n m cb fl ps i = Ok (w, ps') -> locate (p_cells ps) i = Some (b, c, k, a) ->
  2 <= length (cverts c) ->
  exists x, nth_error (cverts c) k = Some x /\
    p_cells ps' = b ++ ((p_age ps + 1)%Z, (true, [x])) ::
                       (cage c, (true, firstn k (cverts c) ++ skipn (S k) (cverts c))) :: a /\
    p_age ps' = (p_age ps + 1)%Z /\
    V (p_age ps + 1)%Z (p_cells ps) (p_cells ps').
Proof.
  intros g n m cb fl ps i w ps' b c k a H HL H2. unfold split_bin in H. rewrite HL in H.
  destruct (nth_error (cverts c) k) as [x|] eqn:EX; [|discriminate]. exists x. split; [reflexivity|].
  set (cs' := b ++ ((p_age ps + 1)%Z, (true, [x])) ::
                   (cage c, (true, firstn k (cverts c) ++ skipn (S k) (cverts c))) :: a) in *.
  assert (HC : p_cells ps' = cs' /\ p_age ps' = (p_age ps + 1)%Z).
  { destruct (length b =? p_spl ps).
    - destruct (expand_value g cs' n m cb fl (p_value ps) (p_spl ps)); try discriminate; inversion H; subst; split; reflexivity.
    - inversion H; subst. split; reflexivity. }
  destruct HC as [HC1 HC2]. split; [exact HC1|]. split; [exact HC2|]. rewrite HC1.
  destruct (locate_spec _ _ _ _ _ _ HL) as (E & Hk & Hi). rewrite E. unfold cs'.
  apply V_app; [apply V_refl|].
  apply (V_app _ [c] [_; _] a a); [|apply V_refl]. apply V_one.
  eapply split_vrep; [exact EX|exact H2|reflexivity].
Qed.
