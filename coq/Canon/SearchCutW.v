(* Canon/SearchCutW.v — cut-offs inside splitBin.  When the partial certificate loses while the vertex x is
   individualised, the entries of the singleton prefix that lost are a witness: by equitability the
   same entries arise for every other vertex of the bin (Canon/SearchSibling.v), so all the children of
   the node are dominated by the best certificate, whatever the code does with them afterwards. *)
From Coq Require Import List Arith Bool ZArith Lia Permutation Sorted.
From Mamba Require Import Canon.Perm Canon.Iso Canon.Model Canon.Refine Canon.Sorted Canon.Tree Canon.Fuel
  Disjoint.Model Canon.SearchModel Canon.SearchCells Canon.SearchTarget Canon.SearchDeage Canon.SearchRefine
  Canon.SearchValue Canon.SearchExpand Canon.SearchCert Canon.SearchOrder Canon.SearchEquiv Canon.SearchWalk
  Canon.SearchEquit Canon.SearchCut Canon.SearchSibling.
Import ListNotations.
Open Scope nat_scope.

Section CutW.
Variable g : graph.
Variables n m : nat.
Hypothesis Hg : simple g.
Hypothesis Hn : length g = n.

Notation good := (good g n).

(* the node b ++ c :: a with x individualised, ages and flags forgotten *)
Definition spl_cells (b : list acell) (c : acell) (a : list acell) (x : nat) : list acell :=
  b ++ (0%Z, (true, [x])) :: (0%Z, (true, filter (fun u => negb (u =? x)) (cverts c))) :: a.

Definition Wit (P : list acell) (cb : list nat) : Prop :=
  exists b c a x s, P = b ++ c :: a /\ Forall single b /\ 2 <= length (cverts c) /\ In x (cverts c) /\ s <= n /\
    s <= length (spl_cells b c a x) /\ prefix_single (spl_cells b c a x) s /\
    cmp_list (good (spl_cells b c a x) s) (firstn (length (good (spl_cells b c a x) s)) cb) = Lt.

Lemma prefix_single_verts : forall cs cs' s, map cverts cs = map cverts cs' -> prefix_single cs s -> prefix_single cs' s.
Proof.
  intros cs cs' s E H k c' Hk Hc'.
  assert (E' : nth_error (map cverts cs') k = Some (cverts c')) by (rewrite nth_error_map, Hc'; reflexivity).
  rewrite <- E, nth_error_map in E'. destruct (nth_error cs k) as [c|] eqn:Ec; [|discriminate].
  simpl in E'. inversion E' as [E2]. destruct (H k c Hk Ec) as [x Hx]. exists x. rewrite <- E2. exact Hx.
Qed.

Lemma erase_spl_cells : forall b c a x, erase (spl_cells b c a x) = indiv (erase b) (cverts c) (erase a) x.
Proof. intros. unfold spl_cells, indiv. rewrite erase_app. reflexivity. Qed.

Lemma verts_erase : forall cs, verts (erase cs) = order_of cs.
Proof. reflexivity. Qed.

(* a witness dominates every child *)
Theorem wit_dom : forall P cb, Wit P cb -> Permutation (order_of P) (seq 0 n) -> nonempty P ->
  equitable g (erase P) -> length cb = num_edges g ->
  forall j Q, child g (erase P) j = Some Q -> dom g n cb Q.
Proof.
  intros P cb (b & c & a & x & s & EP & Hb & H2 & Hx & Hsn & Hsl & Hps & HLt) HPm HNe HEq Hcb j Q HC.
  pose proof Hg as (Hwf & Hirr & Hsym).
  unfold child in HC. rewrite EP, (target_erase b c a Hb H2) in HC.
  destruct (nth_error (cverts c) j) as [y|] eqn:Ey; [|discriminate].
  assert (Hy : In y (cverts c)) by (eapply nth_error_In; exact Ey).
  assert (HW : s <= length (spl_cells b c a y) /\ prefix_single (spl_cells b c a y) s /\
               cmp_list (good (spl_cells b c a y) s) (firstn (length (good (spl_cells b c a y) s)) cb) = Lt).
  { destruct (Nat.eq_dec x y) as [<-|Hxy]; [repeat split; assumption|]. unfold spl_cells in *.
    destruct (sibling_good g n b a c x y (0%Z, (true, [x])) (0%Z, (true, filter (fun u => negb (u =? x)) (cverts c)))
                (0%Z, (true, [y])) (0%Z, (true, filter (fun u => negb (u =? y)) (cverts c)))
                Hsym Hirr ltac:(rewrite <- EP; exact HPm) ltac:(rewrite <- EP; exact HEq) Hx Hy Hxy
                eq_refl eq_refl eq_refl eq_refl s Hps Hsl) as [EG HPy].
    split; [rewrite app_length in *; simpl in *; lia|]. split; [exact HPy|]. etransitivity; [|exact HLt]. f_equal; [exact EG|f_equal; f_equal; exact EG]. }
  destruct HW as (Hsl' & Hps' & HLt').
  assert (Hnd : NoDup (order_of P)) by (apply (Permutation_NoDup (Permutation_sym HPm)), seq_NoDup).
  assert (Hcnd : NoDup (cverts c)).
  { rewrite EP, order_of_app, order_of_cons in Hnd. apply NoDup_app_r in Hnd. apply NoDup_app_l in Hnd. exact Hnd. }
  pose proof (indiv_verts (erase b) (cverts c) (erase a) false y Hcnd Hy) as HIV.
  assert (HPv : Permutation (verts (indiv (erase b) (cverts c) (erase a) y)) (seq 0 n)).
  { eapply perm_trans; [exact HIV|]. eapply perm_trans; [|exact HPm]. rewrite EP, <- verts_erase, erase_app.
    rewrite !verts_app. change (erase (c :: a)) with (snd c :: erase a). rewrite !verts_cons. apply Permutation_refl. }
  assert (HIn : ne (indiv (erase b) (cverts c) (erase a) y)).
  { rewrite EP in HNe. apply nonempty_ne in HNe. rewrite erase_app in HNe. apply Forall_app in HNe. destruct HNe as [Nb Na].
    simpl in Na. inversion Na; subst. unfold indiv. apply ne_app; [exact Nb|]. constructor; [simpl; discriminate|].
    constructor; [|assumption]. simpl.
    pose proof (Permutation_length (perm_filter_ne (cverts c) y Hcnd Hy)) as HL. simpl in HL.
    destruct (filter (fun u => negb (u =? y)) (cverts c)); [simpl in HL; lia|discriminate]. }
  destruct (refine_total g _ HIn) as (Q0 & EQ & NQ & _). rewrite HC in EQ. inversion EQ; subst Q0.
  apply (cut_dom g n Hg Hn (spl_cells b c a y) s cb Q Hsn Hsl' Hps' Hcb HLt').
  - rewrite erase_spl_cells. eapply refine_fuel_wrefp. exact HC.
  - eapply perm_trans; [eapply refine_verts; exact HC|exact HPv].
  - exact NQ.
Qed.

(* a cut-off inside splitBin from a clean state yields a witness *)
Lemma split_bin_cut : forall P age v cb fl b c j a ps',
  v = good P (fns P) -> P = b ++ c :: a -> length b = fns P -> Forall single b -> 2 <= length (cverts c) ->
  j < length (cverts c) -> nonempty P -> Permutation (order_of P) (seq 0 n) ->
  locate P (fns P + j) = Some (b, c, j, a) ->
  split_bin g n m cb fl (mkP P age v (fns P)) (fns P + j) = Ok (true, ps') -> Wit P cb.
Proof.
  intros P age v cb fl b c j a ps' Hv EP Hb HbS H2 Hj HN HPm HLoc HSp.
  assert (HO : length (order_of P) = n) by (rewrite (Permutation_length HPm); apply seq_length).
  destruct (split_bin_spec _ _ _ _ _ _ _ _ _ _ _ _ _ HSp HLoc H2) as (x & Hx & Hcs & _ & HV).
  cbn [p_cells p_age] in *.
  assert (HN' : nonempty (p_cells ps')) by (eapply V_nonempty; eassumption).
  assert (HO' : length (order_of (p_cells ps')) = n) by (rewrite (Permutation_length (V_order _ _ _ HV)); exact HO).
  unfold split_bin in HSp. cbn [p_cells p_age p_value p_spl] in HSp. rewrite HLoc, Hx in HSp.
  rewrite Hb, Nat.eqb_refl in HSp.
  set (s := fns P) in *.
  set (cs' := b ++ ((age + 1)%Z, (true, [x])) :: (cage c, (true, firstn j (cverts c) ++ skipn (S j) (cverts c))) :: a) in *.
  assert (HPS : prefix_single cs' s).
  { unfold cs'. apply (prefix_single_app b (c :: a) _ s); [lia|]. rewrite <- EP. apply fns_prefix_single. }
  assert (HG : good cs' s = good P s) by (unfold cs'; rewrite EP; apply good_app_prefix; lia).
  assert (Hcell : nth_error cs' s = Some ((age + 1)%Z, (true, [x]))) by (unfold cs'; rewrite <- Hb; apply nth_error_app_exact).
  assert (Hsn : s < n).
  { rewrite <- HO, EP, order_of_app, app_length, order_of_cons, app_length. rewrite (singles_order_length _ HbS). lia. }
  assert (Hsl : s <= length cs') by (apply Nat.lt_le_incl, nth_error_Some; rewrite Hcell; discriminate).
  unfold expand_value in HSp.
  destruct (expand_loop (n - s) g cs' n m cb fl v s) as [|v' s'|v' s'] eqn:EE; [discriminate| |discriminate].
  destruct (expand_loop_worse g n m cs' cb fl ltac:(rewrite <- Hcs; exact HN') ltac:(rewrite <- Hcs; exact HO')
              (n - s) s v v' s' ltac:(lia) Hsl HPS ltac:(rewrite HG; exact Hv) EE) as (j' & A & B & C & D & E & _ & (_ & HLt & _)).
  assert (Hnd : NoDup (order_of P)) by (apply (Permutation_NoDup (Permutation_sym HPm)), seq_NoDup).
  assert (Hcnd : NoDup (cverts c)).
  { rewrite EP, order_of_app, order_of_cons in Hnd. apply NoDup_app_r in Hnd. apply NoDup_app_l in Hnd. exact Hnd. }
  assert (EM : map cverts cs' = map cverts (spl_cells b c a x)).
  { unfold cs', spl_cells. rewrite !map_app. f_equal. cbn [map]. f_equal. f_equal. exact (remove_at_filter _ _ _ Hcnd Hx). }
  exists b, c, a, x, (S j'). split; [exact EP|]. split; [exact HbS|]. split; [exact H2|].
  split; [eapply nth_error_In; exact Hx|]. split; [lia|].
  split; [rewrite <- (map_length cverts), <- EM, map_length; exact E|].
  split; [eapply prefix_single_verts; [exact EM|exact D]|].
  rewrite <- (good_same_verts g n _ _ (S j') EM), <- C. exact HLt.
Qed.

(* deage from a state whose singleton prefix is longer than that of the node restores a clean value *)
Lemma deage_sv_clean : forall b child P value spl cb fl, cinv g n b child value spl cb fl ->
  Forall2 same_cell (firstn b P) (firstn b child) -> b < spl ->
  deage_sv b spl value = (b, good P b).
Proof.
  intros b child P value spl cb fl (Hv & HP & Hb & HD) HF Hlt.
  pose proof (good_prefix g n b P child HF) as HG.
  unfold deage_sv. apply Nat.ltb_lt in Hlt. rewrite Hlt. apply Nat.ltb_lt in Hlt. f_equal.
  rewrite Hv, (good_split g n child b spl) by lia. rewrite <- HG.
  apply strip_ge_app.
  - apply Forall_forall. intros x Hx. eapply good_lt. exact Hx.
  - apply Forall_forall. intros x Hx. eapply ents_ge. exact Hx.
Qed.

End CutW.
