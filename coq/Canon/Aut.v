(* C02 — the automorphism group of a graph with vertex classes: definition, a boolean decision
   procedure (the oracle used by the correspondence driver on the generators returned by
   graph.CanonicalIsomorphFull), its soundness and completeness, and the group laws.

   A graph is any [adj : nat -> nat -> bool] on the vertices 0..n-1 (nothing is assumed of it:
   symmetry and irreflexivity are not needed), the vertex classes any [cls : nat -> nat]
   (class index of a vertex; the constant function when vertexClasses is nil). *)
From Coq Require Import List Arith Lia Bool.
From Mamba Require Import Canon.AutBase.
Import ListNotations.

Section Aut.
Variable n : nat.
Variable adj : nat -> nat -> bool.
Variable cls : nat -> nat.

(* The definition: g is a permutation of 0..n-1 preserving adjacency and classes. *)
Definition Aut (g : perm) : Prop :=
  is_perm n g /\
  (forall i j, i < n -> j < n -> adj (app g i) (app g j) = adj i j) /\
  (forall i, i < n -> cls (app g i) = cls i).

Lemma forallb_seq (f : nat -> bool) : forallb f (seq 0 n) = true <-> forall i, i < n -> f i = true.
Proof.
  rewrite forallb_forall. split; intros H i Hi; apply H; [apply in_seq; lia|apply in_seq in Hi; lia].
Qed.

Theorem is_automorphism_spec g : is_automorphism n adj cls g = true <-> Aut g.
Proof.
  unfold is_automorphism, Aut. rewrite !andb_true_iff, is_permb_spec, !forallb_seq.
  split.
  - intros [[Hp Ha] Hc]. split; [auto|]. split.
    + intros i j Hi Hj. specialize (Ha i Hi). rewrite forallb_seq in Ha.
      apply eqb_prop, Ha; auto.
    + intros i Hi. apply Nat.eqb_eq; auto.
  - intros (Hp & Ha & Hc). split; [split; [exact Hp|]|].
    + intros i Hi. apply forallb_seq. intros j Hj. rewrite Ha by auto. apply eqb_reflx.
    + intros i Hi. apply Nat.eqb_eq; auto.
Qed.

Corollary is_automorphism_false g : is_automorphism n adj cls g = false <-> ~ Aut g.
Proof.
  rewrite <- is_automorphism_spec. destruct (is_automorphism n adj cls g); split; intros H; try congruence.
Qed.

(* ---------------------------------------------------------------- the group *)
Theorem Aut_id : Aut (idp n).
Proof.
  split; [apply idp_perm|]. split; intros; rewrite !app_idp; reflexivity.
Qed.

Theorem Aut_compose g h : Aut g -> Aut h -> Aut (compose g h).
Proof.
  intros (Hg & Ag & Cg) (Hh & Ah & Ch). split; [apply compose_perm; auto|].
  pose proof (proj1 Hh) as Hl. split.
  - intros i j Hi Hj. rewrite !app_compose by lia.
    rewrite Ag by (apply (app_lt n h); auto). apply Ah; auto.
  - intros i Hi. rewrite app_compose by lia. rewrite Cg by (apply (app_lt n h); auto). apply Ch; auto.
Qed.

Theorem Aut_inv g : Aut g -> Aut (inv g).
Proof.
  intros (Hg & Ag & Cg). split; [apply inv_perm; auto|]. split.
  - intros i j Hi Hj.
    rewrite <- (Ag (app (inv g) i) (app (inv g) j)) by (apply (inv_lt n g); auto).
    rewrite !(app_inv_r n) by auto. reflexivity.
  - intros i Hi. rewrite <- (Cg (app (inv g) i)) by (apply (inv_lt n g); auto).
    rewrite (app_inv_r n) by auto. reflexivity.
Qed.

(* The group axioms hold as equalities of slices (from AutBase, restated on Aut). *)
Theorem Aut_group_laws g h k : Aut g -> Aut h -> Aut k ->
  compose g (compose h k) = compose (compose g h) k /\
  compose (idp n) g = g /\ compose g (idp n) = g /\
  compose (inv g) g = idp n /\ compose g (inv g) = idp n.
Proof.
  intros (Hg & _) (Hh & _) (Hk & _). repeat split.
  - apply (compose_assoc n); auto.
  - apply compose_id_l; auto.
  - apply compose_id_r; auto.
  - apply compose_inv_l; auto.
  - apply compose_inv_r; auto.
Qed.

End Aut.
