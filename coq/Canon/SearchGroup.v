(* Canon/SearchGroup.v — automorphisms compose: two vertices joined in a union-find array fed with the
   cycles of automorphisms that map every bin of a node onto itself are exchanged by one such
   automorphism; the children of a node are resolved once all of them have been dismissed; the
   vertex individualised at a node sits at a fixed position of every leaf below the child. *)
From Coq Require Import List Arith Bool ZArith Lia Permutation Sorted.
From Mamba Require Import Canon.Perm Canon.Iso Canon.Model Canon.Refine Canon.Sorted Canon.Tree Canon.Fuel
  Disjoint.Model Disjoint.Proofs Canon.SearchModel Canon.SearchCells Canon.SearchTarget Canon.SearchDeage
  Canon.SearchRefine Canon.SearchValue Canon.SearchExpand Canon.SearchCert Canon.SearchOrder Canon.SearchEquiv
  Canon.SearchWalk Canon.SearchInvV Canon.SearchPrune.
Import ListNotations.
Open Scope nat_scope.

Section Group.
Variable g : graph.
Variable n : nat.

Lemma autf_id : autf g g n (fun u => u).
Proof. split; [reflexivity|]. rewrite map_id. apply Permutation_refl. Qed.

Lemma sim_id : forall P, sim (fun u => u) P P.
Proof. induction P as [|c P IH]; constructor; [split; [reflexivity|rewrite map_id; apply Permutation_refl]|exact IH]. Qed.

Lemma autf_comp : forall f h, autf g g n f -> autf g g n h -> autf g g n (fun u => h (f u)).
Proof.
  intros f h Hf Hh. split.
  - intros u v Hu Hv. rewrite (proj1 Hh) by (apply (autf_lt g g n f); assumption). apply (proj1 Hf); assumption.
  - rewrite <- (map_map f h). eapply perm_trans; [apply Permutation_map; exact (proj2 Hf)|exact (proj2 Hh)].
Qed.

Lemma sim_comp : forall f h P Q R, sim f P Q -> sim h Q R -> sim (fun u => h (f u)) P R.
Proof.
  intros f h P Q R H. revert R. induction H as [|c c' P Q [Hfl Hc] _ IH]; intros R HR; inversion HR as [|c1 c'' Q1 R1 [Hfl2 Hc2] HR']; subst; constructor.
  - split; [congruence|]. rewrite <- (map_map f h). eapply perm_trans; [apply Permutation_map; exact Hc|exact Hc2].
  - apply IH. exact HR'.
Qed.

(* two vertices joined by the pairs of generators fixing P are exchanged by an automorphism fixing P *)
Lemma conn_aut : forall clsf (gs : list (list nat)) ps P,
  incl (verts P) (seq 0 n) ->
  (forall x y, In (x, y) ps -> exists gam, In gam gs /\ x < n /\ y = nth x gam 0) ->
  (forall gam, In gam gs -> isaut g n clsf gam /\ sim (gfun gam) P P) ->
  forall x y, conn n ps x y -> exists f, autf g g n f /\ sim f P P /\ f x = y /\ x < n /\ y < n.
Proof.
  intros clsf gs ps P HP Hps Hgs x y H. induction H as [x Hx|x y Hin|x y _ IH|x y z _ IH1 _ IH2].
  - exists (fun u => u). split; [apply autf_id|]. split; [apply sim_id|]. repeat split; assumption.
  - destruct (Hps _ _ Hin) as (gam & Hg & Hx & ->). destruct (Hgs _ Hg) as [Ha Hs].
    pose proof (isaut_autf g n clsf gam Ha) as Hf.
    exists (gfun gam). split; [exact Hf|]. split; [exact Hs|]. split; [reflexivity|]. split; [exact Hx|].
    apply (autf_lt g g n (gfun gam) x Hf Hx).
  - destruct IH as (f & Hf & Hs & E & Hx & Hy). exists (finv n f). split; [apply autf_inv; exact Hf|].
    split; [apply (sim_inv g); assumption|]. split; [|split; assumption].
    rewrite <- E. apply (finv_spec g n f Hf x Hx).
  - destruct IH1 as (f & Hf & Hs & E & Hx & Hy). destruct IH2 as (h & Hh & Hsh & E2 & _ & Hz).
    exists (fun u => h (f u)). split; [apply autf_comp; assumption|]. split; [eapply sim_comp; eassumption|].
    split; [rewrite E; exact E2|split; assumption].
Qed.

(* ---------------------------------------------------------------- dismissed children *)

(* the child of rank i of P is dominated by cb, or owes it to a child of smaller rank *)
Definition Dom1 (cb : list nat) (P : part) (i : nat) : Prop :=
  forall Q, child g P i = Some Q ->
    dom g n cb Q \/
    exists i' Q', i' < i /\ child g P i' = Some Q' /\ forall cb', dom g n cb' Q' -> dom g n cb' Q.

Lemma Dom1_mono : forall cb cb' P i, Dom1 cb P i -> cle cb cb' -> Dom1 cb' P i.
Proof.
  intros cb cb' P i H Hle Q HQ. destruct (H Q HQ) as [HD|HD]; [left; eapply dom_mono; eassumption|right; exact HD].
Qed.

Lemma dom_children : forall cb P, (forall i, Dom1 cb P i) -> forall i Q, child g P i = Some Q -> dom g n cb Q.
Proof.
  intros cb P H i. induction i as [i IH] using lt_wf_ind. intros Q HQ.
  destruct (H i Q HQ) as [HD|(i' & Q' & Hlt & HQ' & Htr)]; [exact HD|].
  apply Htr. apply (IH i' Hlt Q' HQ').
Qed.

Lemma dom_resolve : forall cb P, target P <> None -> (forall i, Dom1 cb P i) -> dom g n cb P.
Proof.
  intros cb P HT H Q' HR HL. inversion HR as [P0|P0 b c a v P' Q0 HTP Hv HRf HR']; subst.
  - contradiction.
  - destruct (In_nth_error _ _ Hv) as [j Hj].
    assert (HC : child g P j = Some P') by (unfold child; rewrite HTP, Hj; exact HRf).
    apply (dom_children cb P H j P' HC Q' HR' HL).
Qed.

Lemma dom_leaf : forall cb Q, target Q = None -> cle (certp g n (verts Q)) cb -> dom g n cb Q.
Proof.
  intros cb Q HT Hle Q' HR _. inversion HR as [P0|P0 b c a v P' Q0 HTP]; subst; [exact Hle|]. rewrite HT in HTP. discriminate.
Qed.

(* ---------------------------------------------------------------- the position of the individualised vertex *)

Lemma perm_single_eq : forall (s : list nat) y, Permutation s [y] -> s = [y].
Proof. intros s y H. apply Permutation_sym in H. apply Permutation_length_1_inv in H. exact H. Qed.

Lemma segs_singles : forall (b : part) (sb : list (list nat)), Forall2 (fun c s => Permutation s (snd c)) b sb ->
  (forall d, In d b -> exists y, snd d = [y]) -> length (concat sb) = length b.
Proof.
  intros b sb H. induction H as [|c s b sb Hs _ IH]; intros Hb; [reflexivity|].
  destruct (Hb c (or_introl eq_refl)) as [y Ey]. rewrite Ey in Hs. apply perm_single_eq in Hs. subst s. simpl.
  f_equal. apply IH. intros d Hd. apply Hb. right. exact Hd.
Qed.

Lemma child_leaf_pos : forall P b c a j x Q Lf, target P = Some (b, c, a) -> nth_error c j = Some x ->
  child g P j = Some Q -> (forall d, In d b -> exists y, snd d = [y]) -> NoDup (verts P) ->
  rdesc g Q Lf -> nth_error (verts Lf) (length b) = Some x.
Proof.
  intros P b c a j x Q Lf HT Hx HC Hb Hnd HR.
  unfold child in HC. rewrite HT, Hx in HC.
  destruct (target_spec _ _ _ _ HT) as [fl [EP _]].
  assert (Hcnd : NoDup c).
  { subst P. rewrite verts_app, verts_cons in Hnd. simpl in Hnd. apply NoDup_app_r in Hnd. apply NoDup_app_l in Hnd. exact Hnd. }
  assert (Hv : In x c) by (eapply nth_error_In; exact Hx).
  pose proof (indiv_verts b c a fl x Hcnd Hv) as HIV. rewrite <- EP in HIV.
  pose proof (refine_verts _ _ _ HC) as HQv.
  assert (HQnd : NoDup (verts Q)) by (apply (Permutation_NoDup (Permutation_sym (Permutation_trans HQv HIV))); exact Hnd).
  assert (HW : wrefp (indiv b c a x) Lf).
  { eapply wrefp_trans; [eapply refine_fuel_wrefp; exact HC|]. apply (rdesc_wrefp g); assumption. }
  destruct (wrefp_segments _ _ HW) as (segs & Ev & HF). unfold indiv in HF.
  apply Forall2_app_inv_l in HF. destruct HF as (sb & rest & HFb & HFr & ->).
  inversion HFr as [|c1 sx l1 rest' Hsx _]; subst. simpl in Hsx. apply perm_single_eq in Hsx. subst sx.
  rewrite Ev, concat_app. simpl. rewrite <- (segs_singles b sb HFb Hb). apply nth_error_app_exact.
Qed.

End Group.
