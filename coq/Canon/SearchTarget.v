(* Canon/SearchTarget.v — the bin the search splits (first_big) against [target] of Canon/Model.v,
   and descendants in the unpruned tree of Canon/Model.v. *)
From Coq Require Import List Arith Bool ZArith Lia Permutation Sorted.
From Mamba Require Import Canon.Perm Canon.Iso Canon.Model Canon.Refine Canon.Sorted Canon.Tree Canon.Fuel
  Disjoint.Model Canon.SearchModel Canon.SearchCells.
Import ListNotations.
Open Scope nat_scope.

Definition single (c : acell) : Prop := exists x, cverts c = [x].

(* index of the first bin that is not a singleton *)
Fixpoint fns (cs : list acell) : nat :=
  match cs with
  | [] => 0
  | c :: r => if length (cverts c) =? 1 then S (fns r) else 0
  end.

Lemma single_length : forall c, single c <-> length (cverts c) = 1.
Proof.
  intros c. split; [intros [x ->]; reflexivity|]. intros H. destruct (cverts c) as [|x [|y t]] eqn:E; try discriminate.
  exists x. exact E.
Qed.

Lemma singles_order_length : forall b, Forall single b -> length (order_of b) = length b.
Proof.
  induction b as [|c b IH]; intros H; [reflexivity|]. inversion H; subst.
  rewrite order_of_cons, app_length, IH by assumption. apply single_length in H2. simpl. lia.
Qed.

Lemma first_big_spec : forall cs s e sz, nonempty cs -> first_big cs s = Some (e, sz) ->
  exists b c a, cs = b ++ c :: a /\ Forall single b /\ sz = length (cverts c) /\ 2 <= sz /\
    e = s + length b + sz /\ length b = fns cs.
Proof.
  induction cs as [|c0 cs IH]; intros s e sz HN H; simpl in H; [discriminate|]. inversion HN; subst.
  destruct (1 <? length (cverts c0)) eqn:E.
  - apply Nat.ltb_lt in E. inversion H; subst. exists [], c0, cs. simpl.
    destruct (length (cverts c0) =? 1) eqn:E1; [apply Nat.eqb_eq in E1; lia|].
    repeat split; try lia. constructor.
  - apply Nat.ltb_ge in E. assert (E1 : length (cverts c0) = 1).
    { destruct (cverts c0); [congruence|]. simpl in *. lia. }
    destruct (IH _ _ _ H3 H) as (b & c & a & -> & HS & Hsz & H2' & He & Hb).
    exists (c0 :: b), c, a. simpl. rewrite E1. simpl. repeat split; try assumption; try lia.
    constructor; [apply single_length; exact E1|exact HS].
Qed.

Lemma first_big_none : forall cs s, nonempty cs -> first_big cs s = None -> Forall single cs.
Proof.
  induction cs as [|c0 cs IH]; intros s HN H; simpl in H; [constructor|]. inversion HN; subst.
  destruct (1 <? length (cverts c0)) eqn:E; [discriminate|]. apply Nat.ltb_ge in E.
  constructor; [|eapply IH; eassumption]. apply single_length. destruct (cverts c0); [congruence|]. simpl in *. lia.
Qed.

Lemma fns_app_singles : forall b r, Forall single b -> fns (b ++ r) = length b + fns r.
Proof.
  induction b as [|c b IH]; intros r H; [reflexivity|]. inversion H; subst. simpl.
  apply single_length in H2. rewrite H2. simpl. rewrite IH by assumption. reflexivity.
Qed.

Lemma fns_prefix : forall cs k c, k < fns cs -> nth_error cs k = Some c -> single c.
Proof.
  induction cs as [|c0 cs IH]; intros k c Hk H; simpl in Hk; [lia|].
  destruct (length (cverts c0) =? 1) eqn:E; [|lia]. apply Nat.eqb_eq in E.
  destruct k; simpl in H.
  - inversion H; subst. apply single_length. exact E.
  - apply (IH k); [lia|exact H].
Qed.

Lemma fns_le : forall cs, fns cs <= length cs.
Proof. induction cs as [|c cs IH]; simpl; [lia|]. destruct (length (cverts c) =? 1); lia. Qed.

Lemma fns_all_single : forall cs, Forall single cs -> fns cs = length cs.
Proof.
  induction cs as [|c cs IH]; intros H; [reflexivity|]. inversion H; subst. simpl.
  apply single_length in H2. rewrite H2. simpl. rewrite IH by assumption. reflexivity.
Qed.

Lemma target_erase : forall b c a, Forall single b -> 2 <= length (cverts c) ->
  target (erase (b ++ c :: a)) = Some (erase b, cverts c, erase a).
Proof.
  induction b as [|[a0 [f0 v0]] b IH]; intros [ac [fc vc]] a HS H2.
  - unfold cverts in *. simpl in *. destruct vc as [|x [|y t]]; simpl in H2; try lia. reflexivity.
  - inversion HS; subst. destruct H1 as [x Hx]. unfold cverts in Hx. simpl in Hx. subst v0.
    specialize (IH (ac, (fc, vc)) a H3 H2). unfold erase in *. simpl.
    match goal with |- match ?T with _ => _ end = _ =>
      replace T with (Some (map snd b, cverts (ac, (fc, vc)), map snd a)) by (symmetry; exact IH) end.
    reflexivity.
Qed.

Lemma target_singles : forall cs, Forall single cs -> target (erase cs) = None.
Proof.
  induction cs as [|[a0 [f0 v0]] cs IH]; intros H; [reflexivity|]. inversion H; subst. simpl.
  destruct H2 as [x Hx]. unfold cverts in Hx. simpl in Hx. subst v0. specialize (IH H3).
  unfold erase in *. simpl.
  match goal with |- match ?T with _ => _ end = _ => replace T with (@None (part * list nat * part)) by (symmetry; exact IH) end.
  reflexivity.
Qed.

Lemma nonempty_length : forall l : list acell, nonempty l -> length l <= length (order_of l).
Proof.
  induction l as [|d l IHl]; intros Hl; [simpl; lia|]. apply Forall_cons_iff in Hl. destruct Hl as [Hd Hl].
  rewrite order_of_cons, app_length. specialize (IHl Hl). destruct (cverts d); [congruence|]. simpl. lia.
Qed.

Lemma discrete_singles : forall cs, nonempty cs -> length (order_of cs) = length cs -> Forall single cs.
Proof.
  induction cs as [|c cs IH]; intros HN HO; [constructor|]. apply Forall_cons_iff in HN. destruct HN as [Hc HN].
  rewrite order_of_cons, app_length in HO. simpl in HO.
  pose proof (nonempty_length cs HN) as HG.
  assert (E : length (cverts c) = 1) by (destruct (cverts c); [congruence|simpl in *; lia]).
  constructor; [apply single_length; exact E|]. apply IH; [exact HN|lia].
Qed.

(* ---------------------------------------------------------------- descendants in the unpruned tree *)

Inductive rdesc (g : graph) : part -> part -> Prop :=
| rd_refl : forall P, rdesc g P P
| rd_step : forall P b c a v P' Q, target P = Some (b, c, a) -> In v c ->
    refine g (indiv b c a v) = Some P' -> rdesc g P' Q -> rdesc g P Q.

Lemma rdesc_snoc : forall g P Q b c a v Q', rdesc g P Q -> target Q = Some (b, c, a) -> In v c ->
  refine g (indiv b c a v) = Some Q' -> rdesc g P Q'.
Proof.
  intros g P Q b c a v Q' H. induction H as [P|P b0 c0 a0 v0 P' Q HT Hv HR _ IH]; intros HT' Hv' HR'.
  - eapply rd_step; [exact HT'|exact Hv'|exact HR'|apply rd_refl].
  - eapply rd_step; [exact HT|exact Hv|exact HR|]. apply IH; assumption.
Qed.

(* a discrete descendant is one of the leaves enumerated by [leaves] *)
Lemma rdesc_leaf : forall g P Q, rdesc g P Q -> target Q = None ->
  forall d, ne P -> NoDup (verts P) -> length (verts P) <= length P + d -> In (Some (verts Q)) (leaves d g P).
Proof.
  intros g P Q H. induction H as [P|P b c a v P' Q HT Hv HR _ IH]; intros HQ d Hne Hnd HL.
  - destruct d; simpl; rewrite HQ; left; reflexivity.
  - destruct (target_spec _ _ _ _ HT) as [fl [EP Hc]].
    assert (Hcnd : NoDup c).
    { subst P. rewrite verts_app, verts_cons in Hnd. simpl in Hnd.
      apply NoDup_app_r in Hnd. apply NoDup_app_l in Hnd. exact Hnd. }
    pose proof (indiv_verts b c a fl v Hcnd Hv) as HIV. rewrite <- EP in HIV.
    pose proof (refine_verts _ _ _ HR) as HQv.
    assert (HIn : ne (indiv b c a v)).
    { subst P. apply Forall_app in Hne. destruct Hne as [Hb Ha]. inversion Ha; subst.
      unfold indiv. apply ne_app; [exact Hb|]. constructor; [simpl; discriminate|].
      constructor; [|assumption]. simpl.
      pose proof (Permutation_length HIV) as HLen. unfold indiv in HLen.
      rewrite !verts_app, !verts_cons in HLen. repeat rewrite app_length in HLen. simpl in HLen.
      repeat rewrite app_length in HLen.
      destruct (filter (fun u => negb (u =? v)) c); [simpl in HLen; lia|discriminate]. }
    destruct (refine_total g _ HIn) as [Q0 [EQ [NQ LQ]]]. rewrite HR in EQ. inversion EQ; subst Q0.
    assert (HLI : length (indiv b c a v) = S (length P)).
    { subst P. unfold indiv. rewrite !app_length. simpl. lia. }
    destruct d as [|d].
    + exfalso. subst P. apply Forall_app in Hne. destruct Hne as [Hb Ha]. inversion Ha; subst.
      pose proof (ne_len _ Hb). pose proof (ne_len _ H2).
      rewrite verts_app, verts_cons in HL. repeat rewrite app_length in HL. simpl in HL. lia.
    + simpl. rewrite HT. apply in_flat_map. exists v. split; [exact Hv|]. rewrite HR.
      apply IH; [exact HQ|exact NQ| |].
      * apply (Permutation_NoDup (Permutation_sym (Permutation_trans HQv HIV))). exact Hnd.
      * rewrite (Permutation_length (Permutation_trans HQv HIV)). lia.
Qed.
