(* Canon/SearchEquiv.v — automorphisms act on the unpruned tree: if an automorphism maps every bin of
   a node onto itself, it maps the subtree below the child "x individualised" onto the subtree below
   the child "a(x) individualised", leaf by leaf, and corresponding leaves have the same
   certificate.  (On top of the equivariance lemmas of Canon/Refine.v and Canon/Tree.v.) *)
From Coq Require Import List Arith Bool ZArith Lia Permutation Sorted.
From Mamba Require Import Canon.Perm Canon.Iso Canon.Model Canon.Refine Canon.Sorted Canon.Tree Canon.Fuel
  Disjoint.Model Canon.SearchModel Canon.SearchCells Canon.SearchTarget Canon.SearchDeage
  Canon.SearchValue Canon.SearchExpand Canon.SearchCert Canon.SearchOrder.
Import ListNotations.
Open Scope nat_scope.

Lemma isort_perm_eq : forall l l', Permutation l l' -> isort l = isort l'.
Proof.
  intros l l' H. apply sorted_perm_eq; [apply isort_sorted|apply isort_sorted|].
  eapply perm_trans; [apply isort_perm|]. eapply perm_trans; [exact H|]. apply Permutation_sym, isort_perm.
Qed.

Section Equiv.
Variables g g' : graph.      (* f maps the vertices of g to those of g'; g' = g for an automorphism *)
Variable n : nat.

(* an isomorphism from g to g' (an automorphism when g' = g), as a function on 0..n-1 *)
Definition autf (a : nat -> nat) : Prop :=
  (forall u v, u < n -> v < n -> adjb g' (a u) (a v) = adjb g u v) /\
  Permutation (map a (seq 0 n)) (seq 0 n).

Lemma autf_lt : forall a u, autf a -> u < n -> a u < n.
Proof.
  intros a u [_ HP] Hu. assert (In (a u) (seq 0 n)); [|apply in_seq in H; lia].
  apply (Permutation_in _ HP). apply in_map. apply in_seq. lia.
Qed.

Lemma autf_inj : forall a u v, autf a -> u < n -> v < n -> a u = a v -> u = v.
Proof.
  intros a u v [_ HP] Hu Hv E.
  assert (Hnd : NoDup (map a (seq 0 n))) by (apply (Permutation_NoDup (Permutation_sym HP)), seq_NoDup).
  assert (HI : forall l : list nat, NoDup (map a l) -> forall x y, In x l -> In y l -> a x = a y -> x = y).
  { induction l as [|z l IH]; intros Hn x y Hx Hy Exy; [contradiction|]. simpl in Hn. inversion Hn; subst.
    destruct Hx as [->|Hx]; destruct Hy as [->|Hy]; auto.
    - exfalso. apply H1. rewrite Exy. apply in_map. exact Hy.
    - exfalso. apply H1. rewrite <- Exy. apply in_map. exact Hx. }
  apply (HI _ Hnd); [apply in_seq; lia|apply in_seq; lia|exact E].
Qed.

(* ---------------------------------------------------------------- certificates *)

Lemma in_cell_lcells_map : forall a p v, (forall x y, In x (v :: p) -> In y (v :: p) -> a x = a y -> x = y) ->
  in_cell (lcells (map a p)) (a v) = in_cell (lcells p) v.
Proof.
  intros a p v. induction p as [|w p IH]; intros Hinj; [reflexivity|]. simpl.
  unfold cverts. simpl. rewrite !orb_false_r.
  destruct (v =? w) eqn:E.
  - apply Nat.eqb_eq in E. subst. rewrite Nat.eqb_refl. reflexivity.
  - assert (a v =? a w = false).
    { apply Nat.eqb_neq. intros Ea. apply Nat.eqb_neq in E. apply E. apply Hinj; [left; reflexivity|right; left; reflexivity|exact Ea]. }
    rewrite H. f_equal. apply IH. intros x y Hx Hy. apply Hinj; simpl in *; tauto.
Qed.

Lemma certp_map : forall a p, autf a -> Permutation p (seq 0 n) -> certp g' n (map a p) = certp g n p.
Proof.
  intros a p Ha HP. unfold certp, SearchValue.good. apply flat_map_ext_in'. intros j Hj. apply in_seq in Hj.
  pose proof (Permutation_length HP) as HL. rewrite seq_length in HL.
  unfold SearchValue.ent, lcells. rewrite !nth_error_map.
  destruct (nth_error p j) as [u|] eqn:Eu; [|reflexivity]. simpl. unfold cverts. simpl. fold (lcells (map a p)) (lcells p).
  assert (Hlt : forall v, In v p -> v < n) by (intros v Hv; apply (Permutation_in _ HP) in Hv; apply in_seq in Hv; lia).
  assert (Hic : forall v, v < n -> in_cell (lcells (map a p)) (a v) = in_cell (lcells p) v).
  { intros v Hv. apply in_cell_lcells_map. intros x y Hx Hy. apply (autf_inj a x y Ha).
    - destruct Hx as [<-|Hx]; [exact Hv|apply Hlt; exact Hx].
    - destruct Hy as [<-|Hy]; [exact Hv|apply Hlt; exact Hy]. }
  assert (Hu : u < n) by (apply Hlt; eapply nth_error_In; exact Eu).
  unfold entries. apply isort_perm_eq.
  destruct Ha as [Hadj HPa].
  (* reindex the vertices v' of the left-hand side as a v *)
  eapply perm_trans.
  { apply Permutation_map. apply filter_perm. apply Permutation_sym. exact HPa. }
  rewrite filter_map_comm, map_map.
  rewrite (filter_ext_in (fun x => adjb g' (a u) (a x) && (in_cell (lcells (map a p)) (a x) <? j))
                         (fun v => adjb g u v && (in_cell (lcells p) v <? j))).
  - apply Permutation_refl'. apply map_ext_in. intros v Hv. apply filter_In in Hv. destruct Hv as [Hv _].
    apply in_seq in Hv. rewrite Hic by lia. reflexivity.
  - intros v Hv. apply in_seq in Hv. rewrite Hadj, Hic by lia. reflexivity.
Qed.

(* ---------------------------------------------------------------- the tree *)


(* a leaf-by-leaf correspondence below two nodes related by an automorphism *)
Lemma rdesc_sim : forall f, autf f -> forall Q1 Q1', rdesc g Q1 Q1' -> forall Q2, sim f Q1 Q2 ->
  NoDup (verts Q1) -> incl (verts Q1) (seq 0 n) -> target Q1' = None ->
  exists Q2', rdesc g' Q2 Q2' /\ target Q2' = None /\ verts Q2' = map f (verts Q1').
Proof.
  intros f Hf Q1 Q1' HR. induction HR as [P|P b c a v P' Q HT Hv HRf HR IH]; intros Q2 HS Hnd Hinc HL.
  - exists Q2. split; [apply rd_refl|].
    assert (compat : forall u v, In u (seq 0 n) -> In v (seq 0 n) -> adjb g' (f u) (f v) = adjb g u v).
    { intros u v Hu Hv. apply in_seq in Hu. apply in_seq in Hv. apply (proj1 Hf); lia. }
    pose proof (target_sim f P Q2 HS) as HTs. rewrite HL in HTs.
    destruct (target Q2) as [[[b2 c2] a2]|] eqn:ET2; simpl in HTs; [contradiction|].
    split; [reflexivity|]. apply (discrete_sim f P Q2 HS). apply target_none. exact HL.
  - assert (compat : forall u v, In u (seq 0 n) -> In v (seq 0 n) -> adjb g' (f u) (f v) = adjb g u v).
    { intros u w Hu Hw. apply in_seq in Hu. apply in_seq in Hw. apply (proj1 Hf); lia. }
    assert (inj : forall u w, In u (seq 0 n) -> In w (seq 0 n) -> f u = f w -> u = w).
    { intros u w Hu Hw. apply in_seq in Hu. apply in_seq in Hw. apply (autf_inj f u w Hf); lia. }
    pose proof (target_sim f P Q2 HS) as HTs. rewrite HT in HTs.
    destruct (target Q2) as [[[b2 c2] a2]|] eqn:ET2; simpl in HTs; [|contradiction].
    destruct HTs as (Hb & Hc & Ha).
    destruct (target_spec _ _ _ _ HT) as [fl [EP _]].
    assert (HcV : incl c (seq 0 n)).
    { intros x Hx. apply Hinc. subst P. rewrite verts_app, verts_cons. simpl. apply in_or_app. right. apply in_or_app. left. exact Hx. }
    assert (Hcnd : NoDup c).
    { subst P. rewrite verts_app, verts_cons in Hnd. simpl in Hnd. apply NoDup_app_r in Hnd. apply NoDup_app_l in Hnd. exact Hnd. }
    pose proof (indiv_sim f (seq 0 n) inj b b2 c c2 a a2 v Hb Hc Ha HcV Hv) as HI.
    pose proof (indiv_verts b c a fl v Hcnd Hv) as HIV. rewrite <- EP in HIV.
    assert (HIincl : incl (verts (indiv b c a v)) (seq 0 n)).
    { intros x Hx. apply Hinc. apply (Permutation_in _ HIV). exact Hx. }
    pose proof (refine_sim f g g' (seq 0 n) compat _ _ HIincl HI) as HRs. rewrite HRf in HRs.
    destruct (refine g' (indiv b2 c2 a2 (f v))) as [P2'|] eqn:ER2; simpl in HRs; [|contradiction].
    pose proof (refine_verts _ _ _ HRf) as HQv.
    destruct (IH P2' HRs) as (Q2' & I1 & I2 & I3).
    + apply (Permutation_NoDup (Permutation_sym (Permutation_trans HQv HIV))). exact Hnd.
    + intros x Hx. apply HIincl. apply (Permutation_in _ HQv). exact Hx.
    + exact HL.
    + exists Q2'. split; [|split; assumption]. eapply rd_step; [exact ET2| |exact ER2|exact I1].
      apply (Permutation_in _ Hc). apply in_map. exact Hv.
Qed.

Lemma rdesc_verts : forall Q Q', rdesc g Q Q' -> NoDup (verts Q) -> Permutation (verts Q') (verts Q).
Proof.
  intros Q Q' H. induction H as [P|P b c a v P' Q HT Hv HRf HR IH]; intros Hnd; [apply Permutation_refl|].
  destruct (target_spec _ _ _ _ HT) as [fl [EP _]].
  assert (Hcnd : NoDup c).
  { subst P. rewrite verts_app, verts_cons in Hnd. simpl in Hnd. apply NoDup_app_r in Hnd. apply NoDup_app_l in Hnd. exact Hnd. }
  pose proof (indiv_verts b c a fl v Hcnd Hv) as HIV. rewrite <- EP in HIV.
  pose proof (refine_verts _ _ _ HRf) as HQv.
  eapply perm_trans; [apply IH|eapply perm_trans; eassumption].
  apply (Permutation_NoDup (Permutation_sym (Permutation_trans HQv HIV))). exact Hnd.
Qed.

End Equiv.

(* ---------------------------------------------------------------- domination *)

Section Dom.
Variable g : graph.
Variable n : nat.

(* cb dominates the node Q: no leaf below Q has a greater certificate *)
Definition dom (cb : list nat) (Q : part) : Prop :=
  forall Q', rdesc g Q Q' -> target Q' = None -> cle (certp g n (verts Q')) cb.

Lemma dom_mono : forall cb cb' Q, dom cb Q -> cle cb cb' -> dom cb' Q.
Proof. intros cb cb' Q H Hc Q' HR HT. eapply cle_trans; [apply H; assumption|exact Hc]. Qed.

Lemma dom_step : forall cb Q b c a v Q1, dom cb Q -> target Q = Some (b, c, a) -> In v c ->
  refine g (indiv b c a v) = Some Q1 -> dom cb Q1.
Proof. intros cb Q b c a v Q1 H HT Hv HR Q' HD HL. apply H; [|exact HL]. eapply rd_step; eassumption. Qed.

(* domination is transported along an automorphism relating two nodes *)
Theorem sim_dom : forall f Q1 Q2 cb, autf g g n f -> sim f Q1 Q2 -> Permutation (verts Q1) (seq 0 n) ->
  dom cb Q2 -> dom cb Q1.
Proof.
  intros f Q1 Q2 cb Hf HS HP HD Q1' HR HL.
  assert (Hnd : NoDup (verts Q1)) by (apply (Permutation_NoDup (Permutation_sym HP)), seq_NoDup).
  assert (Hinc : incl (verts Q1) (seq 0 n)) by (intros x Hx; apply (Permutation_in _ HP); exact Hx).
  destruct (rdesc_sim g g n f Hf Q1 Q1' HR Q2 HS Hnd Hinc HL) as (Q2' & R2 & L2 & E2).
  specialize (HD Q2' R2 L2). rewrite E2 in HD. rewrite (certp_map g g n) in HD; [exact HD|exact Hf|].
  eapply perm_trans; [apply (rdesc_verts g); eassumption|exact HP].
Qed.

End Dom.
