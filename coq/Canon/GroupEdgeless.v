(* C02 — the edgeless shortcut (the [m == 0] branch of graph.CanonicalIsomorphAllocated, as
   repaired): every bin of the initial ordered partition is an orbit, and for every bin with at
   least two elements the function returns the cycle through the bin and, if the bin has more
   than two elements, the transposition of its first two elements.

   Model at array level (the slices are written exactly as the Go loop writes them), then:
   the generators are cell-preserving permutations, they generate *every* cell-preserving
   permutation (= the class-preserving automorphism group of the edgeless graph, the product of
   the symmetric groups on the cells), the orbits are the cells, and the union-find array
   written by hand is a well-formed C18 forest representing exactly the cells, whatever the
   storage contained before. *)
From Coq Require Import List ZArith Lia Arith Bool.
From Mamba Require Import Disjoint.Model Disjoint.Proofs.
From Mamba Require Import Canon.AutBase Canon.Aut Canon.Group.
Import ListNotations.
Open Scope nat_scope.

(* ---------------------------------------------------------------- model of the branch *)
(* tmp[j] = j for all j; then tmp[bin[j]] = bin[(j+1) % len(bin)] for all j *)
Definition cycle_gen (n : nat) (bin : list nat) : perm :=
  fold_left (fun t j => upd t (nth j bin 0) (nth (S j mod length bin) bin 0))
            (seq 0 (length bin)) (idp n).

(* tmp[j] = j for all j; tmp[bin[0]] = bin[1]; tmp[bin[1]] = bin[0] *)
Definition transp (n a b : nat) : perm := upd (upd (idp n) a b) b a.

Definition bin_gens (n : nat) (bin : list nat) : list perm :=
  match bin with
  | [] | [_] => []
  | [a; b] => [cycle_gen n bin]
  | a :: b :: _ => [cycle_gen n bin; transp n a b]
  end.

Definition edgeless_gens (n : nat) (cells : list (list nat)) : list perm :=
  flat_map (bin_gens n) cells.

(* ds[bin[0]] = -1 (singleton) or -2; ds[v] = bin[0] for the other members *)
Definition bin_ds (ds : dset) (bin : list nat) : dset :=
  match bin with
  | [] => ds
  | [a] => upd ds a (-1)%Z
  | a :: rest => fold_left (fun d v => upd d v (Z.of_nat a)) rest (upd ds a (-2)%Z)
  end.

Definition edgeless_ds (old : dset) (cells : list (list nat)) : dset :=
  fold_left bin_ds cells old.

(* the cells are the bins of an ordered partition of 0..n-1 *)
Definition cells_ok (n : nat) (cells : list (list nat)) : Prop :=
  NoDup (concat cells) /\ (forall x, In x (concat cells) <-> x < n) /\ ~ In [] cells.

Definition same_cell (cells : list (list nat)) (x y : nat) : Prop :=
  exists c, In c cells /\ In x c /\ In y c.

(* ---------------------------------------------------------------- array writes *)
Lemma nth_upd_same {A} (l : list A) i v d : i < length l -> nth i (upd l i v) d = v.
Proof.
  revert i. induction l as [|h t IH]; intros i Hi; simpl in *; [lia|].
  destruct i; simpl; [reflexivity|]. apply IH. lia.
Qed.

Lemma nth_upd_other {A} (l : list A) i j v d : i <> j -> nth j (upd l i v) d = nth j l d.
Proof.
  revert i j. induction l as [|h t IH]; intros i j Hij; simpl; auto.
  destruct i, j; simpl; try reflexivity; try lia. apply IH. lia.
Qed.

Lemma upd_len {A} (l : list A) i v : length (upd l i v) = length l.
Proof. revert i. induction l; intros [|i]; simpl; auto. Qed.

Lemma app_upd_same (t : perm) i v : i < length t -> app (upd t i v) i = v.
Proof. intros. unfold app. apply nth_upd_same; auto. Qed.

Lemma app_upd_other (t : perm) i j v : i <> j -> app (upd t i v) j = app t j.
Proof. intros. unfold app. apply nth_upd_other; auto. Qed.

(* ---------------------------------------------------------------- transpositions *)
Lemma transp_length n a b : length (transp n a b) = n.
Proof. unfold transp. rewrite !upd_len. apply seq_length. Qed.

Lemma app_transp n a b x : a < n -> b < n ->
  app (transp n a b) x = if x =? b then a else if x =? a then b else x.
Proof.
  intros Ha Hb. unfold transp.
  destruct (Nat.eqb_spec x b) as [->|Hxb].
  - apply app_upd_same. rewrite upd_len. unfold idp. rewrite seq_length. auto.
  - rewrite app_upd_other by auto. destruct (Nat.eqb_spec x a) as [->|Hxa].
    + apply app_upd_same. unfold idp. rewrite seq_length. auto.
    + rewrite app_upd_other by auto. apply app_idp.
Qed.

Lemma app_transp_l n a b : a < n -> b < n -> app (transp n a b) a = b.
Proof.
  intros Ha Hb. rewrite app_transp by auto. destruct (Nat.eqb_spec a b); [auto|].
  rewrite Nat.eqb_refl. reflexivity.
Qed.

Lemma app_transp_r n a b : a < n -> b < n -> app (transp n a b) b = a.
Proof. intros Ha Hb. rewrite app_transp by auto. rewrite Nat.eqb_refl. reflexivity. Qed.

Lemma app_transp_o n a b x : a < n -> b < n -> x <> a -> x <> b -> app (transp n a b) x = x.
Proof.
  intros Ha Hb H1 H2. rewrite app_transp by auto.
  destruct (Nat.eqb_spec x b); [contradiction|]. destruct (Nat.eqb_spec x a); [contradiction|auto].
Qed.

(* a slice of length n whose entries are < n and which is injective on 0..n-1 is a permutation *)
Lemma is_perm_of_inj n p : length p = n -> (forall i, i < n -> app p i < n) ->
  (forall i j, i < n -> j < n -> app p i = app p j -> i = j) -> is_perm n p.
Proof.
  intros Hl Hb Hi. split; auto. split.
  - apply (NoDup_nth p 0). intros i j Hli Hlj E. apply Hi; try lia.
    unfold app. rewrite (nth_dflt p i i 0), (nth_dflt p j j 0) by lia. exact E.
  - apply Forall_forall. intros x Hx. destruct (In_nth p x 0 Hx) as (i & Hil & <-).
    rewrite (nth_dflt p i 0 i) by lia. apply Hb. lia.
Qed.

Lemma transp_invol n a b x : a < n -> b < n -> app (transp n a b) (app (transp n a b) x) = x.
Proof.
  intros Ha Hb. rewrite (app_transp n a b x) by auto.
  destruct (Nat.eqb_spec x b) as [->|Hxb]; [apply app_transp_l; auto|].
  destruct (Nat.eqb_spec x a) as [->|Hxa]; [apply app_transp_r; auto|].
  apply app_transp_o; auto.
Qed.

Lemma transp_lt n a b x : a < n -> b < n -> x < n -> app (transp n a b) x < n.
Proof.
  intros Ha Hb Hx. rewrite app_transp by auto.
  destruct (x =? b); auto. destruct (x =? a); auto.
Qed.

Lemma transp_perm n a b : a < n -> b < n -> is_perm n (transp n a b).
Proof.
  intros Ha Hb. apply is_perm_of_inj.
  - apply transp_length.
  - intros i Hi. apply transp_lt; auto.
  - intros i j Hi Hj E. rewrite <- (transp_invol n a b i), <- (transp_invol n a b j) by auto.
    rewrite E. reflexivity.
Qed.

Lemma transp_sym n a b : a < n -> b < n -> transp n a b = transp n b a.
Proof.
  intros Ha Hb. apply (perm_ext n); try apply transp_length.
  intros x Hx. rewrite !app_transp by auto.
  destruct (Nat.eqb_spec x b), (Nat.eqb_spec x a); subst; auto.
Qed.

(* conjugation: p o (a b) o p^-1 = (p a  p b) *)
Lemma conj_transp n p a b : is_perm n p -> a < n -> b < n ->
  compose p (compose (transp n a b) (inv p)) = transp n (app p a) (app p b).
Proof.
  intros Hp Ha Hb. pose proof (app_lt n p a Hp Ha) as Hpa. pose proof (app_lt n p b Hp Hb) as Hpb.
  apply (perm_ext n).
  - rewrite !compose_length, inv_length. apply Hp.
  - apply transp_length.
  - intros x Hx. pose proof (inv_lt n p x Hp Hx) as Hz.
    rewrite app_compose by (rewrite compose_length, inv_length; destruct Hp; lia).
    rewrite app_compose by (rewrite inv_length; destruct Hp; lia).
    set (z := app (inv p) x) in *.
    assert (app p z = x) as Hpz by (apply (app_inv_r n); auto).
    rewrite (app_transp n a b z) by auto. rewrite (app_transp n _ _ x) by auto.
    destruct (Nat.eqb_spec z b) as [Ezb|Nzb].
    + subst z. rewrite <- Hpz, Ezb, Nat.eqb_refl. reflexivity.
    + destruct (Nat.eqb_spec x (app p b)) as [Exb|_].
      { exfalso. apply Nzb. apply (app_inj n p); auto. congruence. }
      destruct (Nat.eqb_spec z a) as [Eza|Nza].
      * rewrite <- Hpz, Eza, Nat.eqb_refl. reflexivity.
      * destruct (Nat.eqb_spec x (app p a)) as [Exa|_]; auto.
        exfalso. apply Nza. apply (app_inj n p); auto. congruence.
Qed.

(* ---------------------------------------------------------------- the cycle *)
Section Cycle.
Variable n : nat.
Variable bin : list nat.
Hypothesis bin_nodup : NoDup bin.
Hypothesis bin_lt : forall x, In x bin -> x < n.

Let len := length bin.

Lemma cycle_loop_spec : forall k, k <= len ->
  let t := fold_left (fun t j => upd t (nth j bin 0) (nth (S j mod len) bin 0)) (seq 0 k) (idp n) in
  length t = n /\
  (forall j, j < k -> app t (nth j bin 0) = nth (S j mod len) bin 0) /\
  (forall x, (forall j, j < k -> x <> nth j bin 0) -> app t x = x).
Proof.
  induction k as [|k IH]; intros Hk; cbv zeta.
  - cbn [seq fold_left]. split; [apply seq_length|]. split; [intros; lia|]. intros. apply app_idp.
  - rewrite seq_S, fold_left_app. cbn [fold_left Nat.add].
    destruct (IH ltac:(lia)) as (L & A & B).
    remember (fold_left (fun (t : list nat) (j : nat) => upd t (nth j bin 0) (nth (S j mod len) bin 0))
                        (seq 0 k) (idp n)) as t eqn:Et. clear Et.
    assert (nth k bin 0 < n) as Hkn by (apply bin_lt, nth_In; fold len; lia).
    split; [rewrite upd_len; auto|]. split.
    + intros j Hj. destruct (Nat.eq_dec j k) as [->|Hjk].
      * apply app_upd_same. lia.
      * rewrite app_upd_other; [apply A; lia|].
        intros E. apply Hjk. symmetry.
        apply (proj1 (NoDup_nth bin 0) bin_nodup); fold len; auto; lia.
    + intros x Hx. rewrite app_upd_other; [apply B; intros j Hj; apply Hx; lia|].
      intros E. apply (Hx k); auto.
Qed.

Lemma cycle_length : length (cycle_gen n bin) = n.
Proof. apply (cycle_loop_spec len (le_n _)). Qed.

Lemma app_cycle_in j : j < len -> app (cycle_gen n bin) (nth j bin 0) = nth (S j mod len) bin 0.
Proof. apply (cycle_loop_spec len (le_n _)). Qed.

Lemma app_cycle_out x : ~ In x bin -> app (cycle_gen n bin) x = x.
Proof.
  intros Hx. apply (cycle_loop_spec len (le_n _)). intros j Hj E. apply Hx. subst. apply nth_In. auto.
Qed.

Lemma cycle_in_bin x : In x bin -> In (app (cycle_gen n bin) x) bin.
Proof.
  intros Hx. destruct (In_nth bin x 0 Hx) as (j & Hj & <-). rewrite app_cycle_in by auto.
  apply nth_In. apply Nat.mod_upper_bound. fold len in Hj. lia.
Qed.

Lemma cycle_perm : is_perm n (cycle_gen n bin).
Proof.
  apply is_perm_of_inj.
  - apply cycle_length.
  - intros i Hi. destruct (in_dec Nat.eq_dec i bin) as [Hin|Hout].
    + apply bin_lt, cycle_in_bin; auto.
    + rewrite app_cycle_out; auto.
  - intros x y Hx Hy E.
    destruct (in_dec Nat.eq_dec x bin) as [Hxi|Hxo], (in_dec Nat.eq_dec y bin) as [Hyi|Hyo].
    + destruct (In_nth bin x 0 Hxi) as (i & Hi & <-). destruct (In_nth bin y 0 Hyi) as (j & Hj & <-).
      fold len in Hi, Hj. rewrite !app_cycle_in in E by auto.
      apply (proj1 (NoDup_nth bin 0) bin_nodup) in E; try (apply Nat.mod_upper_bound; lia).
      f_equal. destruct (Nat.eq_dec (S i) len) as [Ei|Ni], (Nat.eq_dec (S j) len) as [Ej|Nj].
      * lia.
      * rewrite Ei, Nat.mod_same, (Nat.mod_small (S j)) in E by lia. lia.
      * rewrite Ej, Nat.mod_same, (Nat.mod_small (S i)) in E by lia. lia.
      * rewrite !Nat.mod_small in E by lia. lia.
    + rewrite (app_cycle_out y Hyo) in E. exfalso. apply Hyo. rewrite <- E. apply cycle_in_bin; auto.
    + rewrite (app_cycle_out x Hxo) in E. exfalso. apply Hxo. rewrite E. apply cycle_in_bin; auto.
    + rewrite !app_cycle_out in E; auto.
Qed.

End Cycle.
