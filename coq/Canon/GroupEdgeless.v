(* C02 — the edgeless shortcut (the [m == 0] branch of graph.CanonicalIsomorphAllocated, as
   repaired): every bin of the initial ordered partition is an orbit, and for every bin with at
   least two elements the function returns the cycle through the bin and, if the bin has more
   than two elements, the transposition of its first two elements.

   Model at array level (the slices are written exactly as the Go loop writes them), then:
   the generators are cell-preserving permutations, they generate *every* cell-preserving
   permutation (= the class-preserving automorphism group of the edgeless graph, the product of
   the symmetric groups on the cells), the orbits are the cells, and the union-find array
   written by hand is a well-formed C18 forest representing exactly the cells, whatever the
   storage contained before. *)
From Coq Require Import List ZArith Lia Arith Bool.
From Mamba Require Import Disjoint.Model Disjoint.Proofs.
From Mamba Require Import Canon.AutBase Canon.Aut Canon.Group.
Import ListNotations.
Open Scope nat_scope.

(* the cells are the bins of an ordered partition of 0..n-1 *)
Definition cells_ok (n : nat) (cells : list (list nat)) : Prop :=
  NoDup (concat cells) /\ (forall x, In x (concat cells) <-> x < n) /\ ~ In [] cells.

Definition same_cell (cells : list (list nat)) (x y : nat) : Prop :=
  exists c, In c cells /\ In x c /\ In y c.

(* ---------------------------------------------------------------- array writes *)
Lemma nth_upd_same {A} (l : list A) i v d : i < length l -> nth i (upd l i v) d = v.
Proof.
  revert i. induction l as [|h t IH]; intros i Hi; simpl in *; [lia|].
  destruct i; simpl; [reflexivity|]. apply IH. lia.
Qed.

Lemma nth_upd_other {A} (l : list A) i j v d : i <> j -> nth j (upd l i v) d = nth j l d.
Proof.
  revert i j. induction l as [|h t IH]; intros i j Hij; simpl; auto.
  destruct i, j; simpl; try reflexivity; try lia. apply IH. lia.
Qed.

Lemma upd_len {A} (l : list A) i v : length (upd l i v) = length l.
Proof. revert i. induction l; intros [|i]; simpl; auto. Qed.

Lemma app_upd_same (t : perm) i v : i < length t -> app (upd t i v) i = v.
Proof. intros. unfold app. apply nth_upd_same; auto. Qed.

Lemma app_upd_other (t : perm) i j v : i <> j -> app (upd t i v) j = app t j.
Proof. intros. unfold app. apply nth_upd_other; auto. Qed.

(* ---------------------------------------------------------------- transpositions *)
Lemma transp_length n a b : length (transp n a b) = n.
Proof. unfold transp. rewrite !upd_len. apply seq_length. Qed.

Lemma app_transp n a b x : a < n -> b < n ->
  app (transp n a b) x = if x =? b then a else if x =? a then b else x.
Proof.
  intros Ha Hb. unfold transp.
  destruct (Nat.eqb_spec x b) as [->|Hxb].
  - apply app_upd_same. rewrite upd_len. unfold idp. rewrite seq_length. auto.
  - rewrite app_upd_other by auto. destruct (Nat.eqb_spec x a) as [->|Hxa].
    + apply app_upd_same. unfold idp. rewrite seq_length. auto.
    + rewrite app_upd_other by auto. apply app_idp.
Qed.

Lemma app_transp_l n a b : a < n -> b < n -> app (transp n a b) a = b.
Proof.
  intros Ha Hb. rewrite app_transp by auto. destruct (Nat.eqb_spec a b); [auto|].
  rewrite Nat.eqb_refl. reflexivity.
Qed.

Lemma app_transp_r n a b : a < n -> b < n -> app (transp n a b) b = a.
Proof. intros Ha Hb. rewrite app_transp by auto. rewrite Nat.eqb_refl. reflexivity. Qed.

Lemma app_transp_o n a b x : a < n -> b < n -> x <> a -> x <> b -> app (transp n a b) x = x.
Proof.
  intros Ha Hb H1 H2. rewrite app_transp by auto.
  destruct (Nat.eqb_spec x b); [contradiction|]. destruct (Nat.eqb_spec x a); [contradiction|auto].
Qed.

(* a slice of length n whose entries are < n and which is injective on 0..n-1 is a permutation *)
Lemma is_perm_of_inj n p : length p = n -> (forall i, i < n -> app p i < n) ->
  (forall i j, i < n -> j < n -> app p i = app p j -> i = j) -> is_perm n p.
Proof.
  intros Hl Hb Hi. split; auto. split.
  - apply (NoDup_nth p 0). intros i j Hli Hlj E. apply Hi; try lia.
    unfold app. rewrite (nth_dflt p i i 0), (nth_dflt p j j 0) by lia. exact E.
  - apply Forall_forall. intros x Hx. destruct (In_nth p x 0 Hx) as (i & Hil & <-).
    rewrite (nth_dflt p i 0 i) by lia. apply Hb. lia.
Qed.

Lemma transp_invol n a b x : a < n -> b < n -> app (transp n a b) (app (transp n a b) x) = x.
Proof.
  intros Ha Hb. rewrite (app_transp n a b x) by auto.
  destruct (Nat.eqb_spec x b) as [->|Hxb]; [apply app_transp_l; auto|].
  destruct (Nat.eqb_spec x a) as [->|Hxa]; [apply app_transp_r; auto|].
  apply app_transp_o; auto.
Qed.

Lemma transp_lt n a b x : a < n -> b < n -> x < n -> app (transp n a b) x < n.
Proof.
  intros Ha Hb Hx. rewrite app_transp by auto.
  destruct (x =? b); auto. destruct (x =? a); auto.
Qed.

Lemma transp_perm n a b : a < n -> b < n -> is_perm n (transp n a b).
Proof.
  intros Ha Hb. apply is_perm_of_inj.
  - apply transp_length.
  - intros i Hi. apply transp_lt; auto.
  - intros i j Hi Hj E. rewrite <- (transp_invol n a b i), <- (transp_invol n a b j) by auto.
    rewrite E. reflexivity.
Qed.

Lemma transp_sym n a b : a < n -> b < n -> transp n a b = transp n b a.
Proof.
  intros Ha Hb. apply (perm_ext n); try apply transp_length.
  intros x Hx. rewrite !app_transp by auto.
  destruct (Nat.eqb_spec x b), (Nat.eqb_spec x a); subst; auto.
Qed.

(* conjugation: p o (a b) o p^-1 = (p a  p b) *)
Lemma conj_transp n p a b : is_perm n p -> a < n -> b < n ->
  compose p (compose (transp n a b) (inv p)) = transp n (app p a) (app p b).
Proof.
  intros Hp Ha Hb. pose proof (app_lt n p a Hp Ha) as Hpa. pose proof (app_lt n p b Hp Hb) as Hpb.
  apply (perm_ext n).
  - rewrite !compose_length, inv_length. apply Hp.
  - apply transp_length.
  - intros x Hx. pose proof (inv_lt n p x Hp Hx) as Hz.
    rewrite app_compose by (rewrite compose_length, inv_length; destruct Hp; lia).
    rewrite app_compose by (rewrite inv_length; destruct Hp; lia).
    set (z := app (inv p) x) in *.
    assert (app p z = x) as Hpz by (apply (app_inv_r n); auto).
    rewrite (app_transp n a b z) by auto. rewrite (app_transp n _ _ x) by auto.
    destruct (Nat.eqb_spec z b) as [Ezb|Nzb].
    + subst z. rewrite <- Hpz, Ezb, Nat.eqb_refl. reflexivity.
    + destruct (Nat.eqb_spec x (app p b)) as [Exb|_].
      { exfalso. apply Nzb. apply (app_inj n p); auto. congruence. }
      destruct (Nat.eqb_spec z a) as [Eza|Nza].
      * rewrite <- Hpz, Eza, Nat.eqb_refl. reflexivity.
      * destruct (Nat.eqb_spec x (app p a)) as [Exa|_]; auto.
        exfalso. apply Nza. apply (app_inj n p); auto. congruence.
Qed.

(* ---------------------------------------------------------------- the cycle *)
Section Cycle.
Variable n : nat.
Variable bin : list nat.
Hypothesis bin_nodup : NoDup bin.
Hypothesis bin_lt : forall x, In x bin -> x < n.

Let len := length bin.

Lemma cycle_loop_spec : forall k, k <= len ->
  let t := fold_left (fun t j => upd t (nth j bin 0) (nth (S j mod len) bin 0)) (seq 0 k) (idp n) in
  length t = n /\
  (forall j, j < k -> app t (nth j bin 0) = nth (S j mod len) bin 0) /\
  (forall x, (forall j, j < k -> x <> nth j bin 0) -> app t x = x).
Proof.
  induction k as [|k IH]; intros Hk; cbv zeta.
  - cbn [seq fold_left]. split; [apply seq_length|]. split; [intros; lia|]. intros. apply app_idp.
  - rewrite seq_S, fold_left_app. cbn [fold_left Nat.add].
    destruct (IH ltac:(lia)) as (L & A & B).
    remember (fold_left (fun (t : list nat) (j : nat) => upd t (nth j bin 0) (nth (S j mod len) bin 0))
                        (seq 0 k) (idp n)) as t eqn:Et. clear Et.
    assert (nth k bin 0 < n) as Hkn by (apply bin_lt, nth_In; fold len; lia).
    split; [rewrite upd_len; auto|]. split.
    + intros j Hj. destruct (Nat.eq_dec j k) as [->|Hjk].
      * apply app_upd_same. lia.
      * rewrite app_upd_other; [apply A; lia|].
        intros E. apply Hjk. symmetry.
        apply (proj1 (NoDup_nth bin 0) bin_nodup); fold len; auto; lia.
    + intros x Hx. rewrite app_upd_other; [apply B; intros j Hj; apply Hx; lia|].
      intros E. apply (Hx k); auto.
Qed.

Lemma cycle_length : length (cycle_gen n bin) = n.
Proof. apply (cycle_loop_spec len (le_n _)). Qed.

Lemma app_cycle_in j : j < len -> app (cycle_gen n bin) (nth j bin 0) = nth (S j mod len) bin 0.
Proof. apply (cycle_loop_spec len (le_n _)). Qed.

Lemma app_cycle_out x : ~ In x bin -> app (cycle_gen n bin) x = x.
Proof.
  intros Hx. apply (cycle_loop_spec len (le_n _)). intros j Hj E. apply Hx. subst. apply nth_In. auto.
Qed.

Lemma cycle_in_bin x : In x bin -> In (app (cycle_gen n bin) x) bin.
Proof.
  intros Hx. destruct (In_nth bin x 0 Hx) as (j & Hj & <-). rewrite app_cycle_in by auto.
  apply nth_In. apply Nat.mod_upper_bound. fold len in Hj. lia.
Qed.

Lemma cycle_perm : is_perm n (cycle_gen n bin).
Proof.
  apply is_perm_of_inj.
  - apply cycle_length.
  - intros i Hi. destruct (in_dec Nat.eq_dec i bin) as [Hin|Hout].
    + apply bin_lt, cycle_in_bin; auto.
    + rewrite app_cycle_out; auto.
  - intros x y Hx Hy E.
    destruct (in_dec Nat.eq_dec x bin) as [Hxi|Hxo], (in_dec Nat.eq_dec y bin) as [Hyi|Hyo].
    + destruct (In_nth bin x 0 Hxi) as (i & Hi & <-). destruct (In_nth bin y 0 Hyi) as (j & Hj & <-).
      fold len in Hi, Hj. rewrite !app_cycle_in in E by auto.
      apply (proj1 (NoDup_nth bin 0) bin_nodup) in E; try (apply Nat.mod_upper_bound; lia).
      f_equal. destruct (Nat.eq_dec (S i) len) as [Ei|Ni], (Nat.eq_dec (S j) len) as [Ej|Nj].
      * lia.
      * rewrite Ei, Nat.mod_same, (Nat.mod_small (S j)) in E by lia. lia.
      * rewrite Ej, Nat.mod_same, (Nat.mod_small (S i)) in E by lia. lia.
      * rewrite !Nat.mod_small in E by lia. lia.
    + rewrite (app_cycle_out y Hyo) in E. exfalso. apply Hyo. rewrite <- E. apply cycle_in_bin; auto.
    + rewrite (app_cycle_out x Hxo) in E. exfalso. apply Hxo. rewrite E. apply cycle_in_bin; auto.
    + rewrite !app_cycle_out in E; auto.
Qed.

End Cycle.

(* the cycle through a bin of two elements is their transposition *)
Lemma cycle2_transp n a b : a < n -> b < n -> a <> b -> cycle_gen n [a; b] = transp n a b.
Proof.
  intros Ha Hb Hab.
  assert (NoDup [a; b]) as Hn by (constructor; [simpl; intuition|constructor; [simpl; tauto|constructor]]).
  assert (forall x, In x [a; b] -> x < n) as Hl by (intros x [<-|[<-|[]]]; auto).
  apply (perm_ext n); [apply cycle_length; auto|apply transp_length|].
  intros x Hx. rewrite app_transp by auto.
  destruct (Nat.eqb_spec x b) as [->|Nb].
  - apply (app_cycle_in n [a; b] Hn Hl 1). simpl. lia.
  - destruct (Nat.eqb_spec x a) as [->|Na].
    + apply (app_cycle_in n [a; b] Hn Hl 0). simpl. lia.
    + apply app_cycle_out; auto. intros [<-|[<-|[]]]; auto.
Qed.

(* ---------------------------------------------------------------- lists of disjoint cells *)
Lemma NoDup_app_disjoint {A} (l1 l2 : list A) x : NoDup (l1 ++ l2) -> In x l1 -> In x l2 -> False.
Proof.
  induction l1 as [|h t IH]; simpl; intros Hn H1 H2; [auto|].
  inversion Hn; subst. destruct H1 as [->|H1].
  - apply H3. apply in_or_app. auto.
  - apply IH; auto.
Qed.

Lemma NoDup_app_l {A} (l1 l2 : list A) : NoDup (l1 ++ l2) -> NoDup l1.
Proof.
  induction l1 as [|h t IH]; simpl; intros Hn; [constructor|]. inversion Hn; subst.
  constructor; auto. intros H. apply H1. apply in_or_app. auto.
Qed.

Lemma NoDup_app_r {A} (l1 l2 : list A) : NoDup (l1 ++ l2) -> NoDup l2.
Proof. induction l1 as [|h t IH]; simpl; intros Hn; auto. inversion Hn; auto. Qed.

Lemma cells_nodup_each (cells : list (list nat)) c : NoDup (concat cells) -> In c cells -> NoDup c.
Proof.
  induction cells as [|h t IH]; simpl; intros Hn Hc; [contradiction|].
  destruct Hc as [->|Hc]; [eapply NoDup_app_l; eauto|apply IH; auto; eapply NoDup_app_r; eauto].
Qed.

Lemma in_concat_cells (cells : list (list nat)) c x : In c cells -> In x c -> In x (concat cells).
Proof. intros Hc Hx. apply in_concat. eauto. Qed.

Lemma cells_disjoint (cells : list (list nat)) c1 c2 x :
  NoDup (concat cells) -> In c1 cells -> In c2 cells -> In x c1 -> In x c2 -> c1 = c2.
Proof.
  induction cells as [|h t IH]; simpl; intros Hn H1 H2 X1 X2; [contradiction|].
  destruct H1 as [->|H1], H2 as [->|H2]; auto.
  - exfalso. eapply NoDup_app_disjoint; [exact Hn|exact X1|]. eapply in_concat_cells; eauto.
  - exfalso. eapply NoDup_app_disjoint; [exact Hn|exact X2|]. eapply in_concat_cells; eauto.
  - apply IH; auto. eapply NoDup_app_r; eauto.
Qed.

(* ---------------------------------------------------------------- Sym(cell) is generated *)
Section Edgeless.
Variable n : nat.
Variable cells : list (list nat).
Hypothesis Hcells : cells_ok n cells.

Let gens := edgeless_gens n cells.

Lemma cell_lt c x : In c cells -> In x c -> x < n.
Proof. intros Hc Hx. apply (proj1 (proj2 Hcells)). eapply in_concat_cells; eauto. Qed.

Lemma cell_nodup c : In c cells -> NoDup c.
Proof. apply cells_nodup_each. apply Hcells. Qed.

Lemma in_some_cell x : x < n -> exists c, In c cells /\ In x c.
Proof.
  intros Hx. apply (proj1 (proj2 Hcells)) in Hx. apply in_concat in Hx.
  destruct Hx as (c & Hc & Hxc). eauto.
Qed.

Lemma same_cell_refl x : x < n -> same_cell cells x x.
Proof. intros Hx. destruct (in_some_cell x Hx) as (c & Hc & Hxc). exists c. auto. Qed.

Lemma same_cell_sym x y : same_cell cells x y -> same_cell cells y x.
Proof. intros (c & Hc & Hx & Hy). exists c. auto. Qed.

Lemma same_cell_trans x y z : same_cell cells x y -> same_cell cells y z -> same_cell cells x z.
Proof.
  intros (c1 & H1 & X1 & Y1) (c2 & H2 & Y2 & Z2).
  assert (c1 = c2) by (eapply cells_disjoint; eauto; apply Hcells). subst. exists c2. auto.
Qed.

Lemma same_cell_lt x y : same_cell cells x y -> x < n /\ y < n.
Proof. intros (c & Hc & Hx & Hy). split; eapply cell_lt; eauto. Qed.

(* cell-preserving permutations *)
Definition CP (g : perm) : Prop := is_perm n g /\ forall x, x < n -> same_cell cells x (app g x).

Lemma in_gens g : In g gens <-> exists c, In c cells /\ In g (bin_gens n c).
Proof. unfold gens, edgeless_gens. rewrite in_flat_map. reflexivity. Qed.

Lemma cycle_CP c : In c cells -> CP (cycle_gen n c).
Proof.
  intros Hc. pose proof (cell_nodup c Hc) as Hn.
  assert (forall x, In x c -> x < n) as Hl by (intros x Hx; eapply cell_lt; eauto).
  split; [apply cycle_perm; auto|]. intros x Hx.
  destruct (in_dec Nat.eq_dec x c) as [Hin|Hout].
  - exists c. split; auto. split; auto. apply cycle_in_bin; auto.
  - rewrite app_cycle_out; auto. apply same_cell_refl; auto.
Qed.

Lemma transp_CP a b : same_cell cells a b -> CP (transp n a b).
Proof.
  intros Hab. destruct (same_cell_lt a b Hab) as (Ha & Hb).
  split; [apply transp_perm; auto|]. intros x Hx. rewrite app_transp by auto.
  destruct (Nat.eqb_spec x b) as [->|Nb]; [apply same_cell_sym; auto|].
  destruct (Nat.eqb_spec x a) as [->|Na]; auto. apply same_cell_refl; auto.
Qed.

Lemma gens_CP g : In g gens -> CP g.
Proof.
  intros Hg. apply in_gens in Hg. destruct Hg as (c & Hc & Hg).
  destruct c as [|a [|b rest]]; simpl in Hg; try contradiction.
  assert (same_cell cells a b) as Hab by (exists (a :: b :: rest); simpl; auto).
  destruct rest as [|d rest]; simpl in Hg.
  - destruct Hg as [<-|[]]. apply cycle_CP; auto.
  - destruct Hg as [<-|[<-|[]]]; [apply cycle_CP; auto|apply transp_CP; auto].
Qed.

Lemma gens_perm : Forall (is_perm n) gens.
Proof. apply Forall_forall. intros g Hg. apply gens_CP; auto. Qed.

Lemma CP_compose g h : CP g -> CP h -> CP (compose g h).
Proof.
  intros (Hg & Cg) (Hh & Ch). split; [apply compose_perm; auto|]. intros x Hx.
  rewrite app_compose by (destruct Hh; lia).
  eapply same_cell_trans; [apply Ch; auto|]. apply Cg. apply (app_lt n h); auto.
Qed.

Lemma CP_inv g : CP g -> CP (inv g).
Proof.
  intros (Hg & Cg). split; [apply inv_perm; auto|]. intros x Hx.
  pose proof (Cg (app (inv g) x) (inv_lt n g x Hg Hx)) as H.
  rewrite (app_inv_r n) in H by auto. apply same_cell_sym; auto.
Qed.

Lemma generated_CP g : generated n gens g -> CP g.
Proof.
  induction 1.
  - split; [apply idp_perm|]. intros x Hx. rewrite app_idp. apply same_cell_refl; auto.
  - apply gens_CP; auto.
  - apply CP_compose; auto.
  - apply CP_inv; auto.
Qed.

(* the transposition of the first two elements of a cell is generated *)
Lemma first_transp_generated a b rest : In (a :: b :: rest) cells -> generated n gens (transp n a b).
Proof.
  intros Hc. destruct rest as [|d rest].
  - pose proof (cell_nodup _ Hc) as Hn. inversion Hn; subst.
    rewrite <- cycle2_transp.
    + apply gen_in, in_gens. exists [a; b]. simpl; auto.
    + eapply cell_lt; eauto. simpl; auto.
    + eapply cell_lt; eauto. simpl; auto.
    + intros ->. apply H1. simpl; auto.
  - apply gen_in, in_gens. exists (a :: b :: d :: rest). simpl; auto.
Qed.

Section OneCell.
Variable c : list nat.
Hypothesis Hc : In c cells.
Hypothesis Hlen : 2 <= length c.

Let el (j : nat) : nat := nth j c 0.

Lemma el_lt j : j < length c -> el j < n.
Proof. intros Hj. eapply cell_lt; eauto. apply nth_In; auto. Qed.

Lemma el_inj i j : i < length c -> j < length c -> el i = el j -> i = j.
Proof. intros Hi Hj E. apply (proj1 (NoDup_nth c 0) (cell_nodup c Hc)); auto. Qed.

Lemma sigma_generated : generated n gens (cycle_gen n c).
Proof.
  apply gen_in, in_gens. exists c. split; auto.
  destruct c as [|a [|b [|d rest]]]; simpl in *; try lia; auto.
Qed.

Lemma sigma_el j : S j < length c -> app (cycle_gen n c) (el j) = el (S j).
Proof.
  intros Hj. unfold el. rewrite (app_cycle_in n c (cell_nodup c Hc)) by (try lia; intros x Hx; eapply cell_lt; eauto).
  rewrite Nat.mod_small by lia. reflexivity.
Qed.

Lemma adjacent_generated : forall j, S j < length c -> generated n gens (transp n (el j) (el (S j))).
Proof.
  induction j as [|j IH]; intros Hj.
  - unfold el. destruct c as [|a [|b rest]]; simpl in *; try lia. eapply first_transp_generated; eauto.
  - rewrite <- (sigma_el j), <- (sigma_el (S j)) by lia.
    rewrite <- conj_transp.
    + apply gen_mul; [apply sigma_generated|]. apply gen_mul; [apply IH; lia|apply gen_inv, sigma_generated].
    + apply cycle_perm; [apply cell_nodup; auto|intros x Hx; eapply cell_lt; eauto].
    + apply el_lt; lia.
    + apply el_lt; lia.
Qed.

Lemma pair_generated : forall d i, i + S d < length c -> generated n gens (transp n (el i) (el (i + S d))).
Proof.
  induction d as [|d IH]; intros i Hi.
  - replace (i + 1) with (S i) by lia. apply adjacent_generated. lia.
  - set (j := i + S d).
    assert (app (transp n (el j) (el (S j))) (el i) = el i) as E1.
    { apply app_transp_o; try (apply el_lt; lia); intros E; apply el_inj in E; lia. }
    assert (app (transp n (el j) (el (S j))) (el j) = el (S j)) as E2
      by (apply app_transp_l; apply el_lt; lia).
    replace (i + S (S d)) with (S j) by lia.
    rewrite <- E1 at 1. rewrite <- E2 at 2. rewrite <- conj_transp.
    + apply gen_mul; [apply adjacent_generated; lia|].
      apply gen_mul; [apply IH; lia|apply gen_inv, adjacent_generated; lia].
    + apply transp_perm; apply el_lt; lia.
    + apply el_lt; lia.
    + apply el_lt; lia.
Qed.

Lemma any_pair_generated i j : i < length c -> j < length c -> i <> j ->
  generated n gens (transp n (el i) (el j)).
Proof.
  intros Hi Hj Hij. destruct (Nat.lt_ge_cases i j).
  - replace j with (i + S (j - i - 1)) by lia. apply pair_generated. lia.
  - rewrite transp_sym by (apply el_lt; auto).
    replace (el i) with (el (j + S (i - j - 1))) by (f_equal; lia). apply pair_generated. lia.
Qed.

End OneCell.

Lemma transp_generated a b : same_cell cells a b -> a <> b -> generated n gens (transp n a b).
Proof.
  intros (c & Hc & Ha & Hb) Hab.
  destruct (In_nth c a 0 Ha) as (i & Hi & Ei). destruct (In_nth c b 0 Hb) as (j & Hj & Ej).
  rewrite <- Ei, <- Ej. apply any_pair_generated; auto.
  - destruct c as [|x [|y rest]]; simpl in *; lia.
  - intros ->. congruence.
Qed.

(* every cell-preserving permutation is a product of such transpositions *)
Lemma CP_generated : forall k g, CP g -> (forall x, x < n - k -> app g x = x) -> generated n gens g.
Proof.
  induction k as [|k IH]; intros g Hg Hfix.
  - replace g with (idp n); [constructor|]. apply (perm_ext n); [apply seq_length|apply Hg|].
    intros i Hi. rewrite app_idp. symmetry. apply Hfix. lia.
  - destruct (Nat.le_gt_cases n k) as [Hnk|Hnk].
    { apply IH; auto. intros x Hx. lia. }
    set (p := n - S k). assert (p < n) as Hp by (unfold p; lia).
    destruct Hg as (Pg & Cg). pose proof (app_lt n g p Pg Hp) as Hy.
    destruct (Nat.eq_dec (app g p) p) as [E|NE].
    + apply IH; [split; auto|]. intros x Hx. destruct (Nat.eq_dec x p) as [->|]; auto. apply Hfix. lia.
    + set (y := app g p) in *.
      assert (same_cell cells p y) as Hpy by (apply Cg; auto).
      set (t := transp n p y).
      assert (generated n gens t) as Gt by (apply transp_generated; auto).
      assert (CP t) as Ct by (apply transp_CP; auto).
      assert (CP (compose t g)) as Ch by (apply CP_compose; [auto|split; auto]).
      assert (generated n gens (compose t g)) as Gh.
      { apply IH; auto. intros x Hx. rewrite app_compose by (destruct Pg; lia).
        destruct (Nat.eq_dec x p) as [->|Nxp].
        - apply app_transp_r; auto.
        - assert (app g x = x) as Fx by (apply Hfix; unfold p in *; lia).
          rewrite Fx. apply app_transp_o; auto.
          intros E. apply Nxp. apply (app_inj n g x p Pg); [lia|exact Hp|]. rewrite Fx. exact E. }
      replace g with (compose t (compose t g)); [apply gen_mul; auto|].
      apply (perm_ext n); [rewrite !compose_length; apply Pg|apply Pg|].
      intros i Hi. rewrite app_compose by (rewrite compose_length; destruct Pg; lia).
      rewrite app_compose by (destruct Pg; lia). apply transp_invol; auto.
Qed.

(* ---------------------------------------------------------------- main theorems *)
Theorem edgeless_generated_iff g : generated n gens g <-> CP g.
Proof.
  split; [apply generated_CP|]. intros H. apply (CP_generated n g H). intros x Hx. lia.
Qed.

Theorem edgeless_orbit_iff x y : x < n -> y < n -> (orbit n gens x y <-> same_cell cells x y).
Proof.
  intros Hx Hy. split.
  - intros (g & Hg & <-). apply generated_CP in Hg. apply Hg; auto.
  - intros H. destruct (Nat.eq_dec x y) as [->|Nxy]; [apply orbit_refl|].
    exists (transp n x y). split; [apply transp_generated; auto|apply app_transp_l; auto].
Qed.

(* with a class function describing the cells: CP = class-preserving automorphisms of the
   edgeless graph *)
Theorem CP_iff_Aut (cls : nat -> nat) g :
  (forall x y, x < n -> y < n -> (cls x = cls y <-> same_cell cells x y)) ->
  (CP g <-> Aut n (fun _ _ => false) cls g).
Proof.
  intros Hcls. unfold CP, Aut. split.
  - intros (Hp & Hc). split; auto. split; auto. intros i Hi. apply Hcls; auto.
    + apply (app_lt n g); auto.
    + apply same_cell_sym. auto.
  - intros (Hp & _ & Hc). split; auto. intros x Hx. apply Hcls; auto.
    + apply (app_lt n g); auto.
    + symmetry. auto.
Qed.

End Edgeless.

(* ---------------------------------------------------------------- the hand-written union-find array *)
Lemma bin_ds_length ds c : length (bin_ds ds c) = length ds.
Proof.
  destruct c as [|a [|b rest]]; simpl; auto; [apply upd_length|].
  assert (forall l d, length (fold_left (fun d v => upd d v (Z.of_nat a)) l d) = length d) as H.
  { induction l as [|v l IH]; intros d; simpl; auto. rewrite IH. apply upd_length. }
  rewrite H. rewrite !upd_length. reflexivity.
Qed.

Lemma fold_upd_get a : forall l (d : dset),
  (forall v, In v l -> v < length d) ->
  (forall v, In v l -> get (fold_left (fun d v => upd d v (Z.of_nat a)) l d) v = Z.of_nat a) /\
  (forall x, ~ In x l -> get (fold_left (fun d v => upd d v (Z.of_nat a)) l d) x = get d x).
Proof.
  induction l as [|w l IH]; intros d Hl; simpl.
  - split; [intros v []|auto].
  - destruct (IH (upd d w (Z.of_nat a))) as (A & B).
    { intros v Hv. rewrite upd_length. apply Hl. simpl; auto. }
    split.
    + intros v [->|Hv]; auto. destruct (in_dec Nat.eq_dec v l) as [Hin|Hout]; auto.
      rewrite B by auto. apply get_upd_same. apply Hl. simpl; auto.
    + intros x Hx. rewrite B by (intros H; apply Hx; auto).
      apply get_upd_other. intros ->. apply Hx. auto.
Qed.

(* one bin: the first element becomes a root, the others point to it, nothing else changes *)
Lemma bin_ds_spec ds a rest : NoDup (a :: rest) -> (forall v, In v (a :: rest) -> v < length ds) ->
  (get (bin_ds ds (a :: rest)) a < 0)%Z /\
  (forall v, In v rest -> get (bin_ds ds (a :: rest)) v = Z.of_nat a) /\
  (forall x, ~ In x (a :: rest) -> get (bin_ds ds (a :: rest)) x = get ds x).
Proof.
  intros Hn Hl. inversion Hn; subst.
  assert (a < length ds) as Ha by (apply Hl; simpl; auto).
  destruct rest as [|b rest].
  - simpl. split; [rewrite get_upd_same by auto; lia|]. split; [intros v []|].
    intros x Hx. apply get_upd_other. intros ->. apply Hx. simpl; auto.
  - unfold bin_ds.
    destruct (fold_upd_get a (b :: rest) (upd ds a (-2)%Z)) as (A & B).
    { intros v Hv. rewrite upd_length. apply Hl. simpl. simpl in Hv. tauto. }
    split; [rewrite B by auto; rewrite get_upd_same by auto; lia|]. split; auto.
    intros x Hx. rewrite B by (intros H; apply Hx; simpl; simpl in H; tauto).
    apply get_upd_other. intros ->. apply Hx. simpl; auto.
Qed.

Lemma edgeless_ds_get : forall cells (old : dset),
  NoDup (concat cells) -> (forall x, In x (concat cells) -> x < length old) -> ~ In [] cells ->
  length (edgeless_ds old cells) = length old /\
  (forall a rest, In (a :: rest) cells ->
     (get (edgeless_ds old cells) a < 0)%Z /\
     forall v, In v rest -> get (edgeless_ds old cells) v = Z.of_nat a) /\
  (forall x, ~ In x (concat cells) -> get (edgeless_ds old cells) x = get old x).
Proof.
  induction cells as [|c cells IH]; intros old Hn Hl He.
  - simpl. split; auto. split; [intros a rest []|auto].
  - change (edgeless_ds old (c :: cells)) with (edgeless_ds (bin_ds old c) cells).
    cbn [concat] in Hn.
    assert (c <> []) as Hc by (intros ->; apply He; simpl; auto).
    destruct c as [|a0 rest0]; [congruence|].
    pose proof (NoDup_app_l _ _ Hn) as Hnc.
    destruct (bin_ds_spec old a0 rest0 Hnc) as (R0 & P0 & O0).
    { intros v Hv. apply Hl. cbn [concat]. apply in_or_app. auto. }
    destruct (IH (bin_ds old (a0 :: rest0))) as (L & A & B).
    { eapply NoDup_app_r; eauto. }
    { intros x Hx. rewrite bin_ds_length. apply Hl. cbn [concat]. apply in_or_app. auto. }
    { intros H. apply He. simpl; auto. }
    split; [rewrite L; apply bin_ds_length|]. split.
    + intros a rest [E|Hin].
      * inversion E; subst a0 rest0.
        assert (forall x, In x (a :: rest) -> ~ In x (concat cells)) as Hd.
        { intros x Hx Hx'. eapply NoDup_app_disjoint; [exact Hn|exact Hx|exact Hx']. }
        split.
        -- rewrite B by (apply Hd; simpl; auto). exact R0.
        -- intros v Hv. rewrite B by (apply Hd; simpl; auto). apply P0; auto.
      * apply A; auto.
    + intros x Hx. rewrite B by (intros H; apply Hx; cbn [concat]; apply in_or_app; auto).
      apply O0. intros H. apply Hx. cbn [concat]. apply in_or_app. auto.
Qed.

(* the value written at the first element of a cell does not depend on the old contents *)
Lemma edgeless_ds_root : forall cells n a rest (o o' : dset),
  NoDup (concat cells) -> (forall x, In x (concat cells) -> x < n) -> ~ In [] cells ->
  In (a :: rest) cells -> length o = n -> length o' = n ->
  get (edgeless_ds o' cells) a = get (edgeless_ds o cells) a.
Proof.
  induction cells as [|c cs IH]; intros n a rest o o' Hn Hall' He Hcin Ho Ho'; [contradiction|].
  cbn [concat] in Hn.
  change (edgeless_ds o' (c :: cs)) with (edgeless_ds (bin_ds o' c) cs).
  change (edgeless_ds o (c :: cs)) with (edgeless_ds (bin_ds o c) cs).
  destruct Hcin as [->|Hin].
  - assert (~ In a (concat cs)) as Hout.
    { intros H. eapply NoDup_app_disjoint; [exact Hn| |exact H]. simpl; auto. }
    destruct (edgeless_ds_get cs (bin_ds o' (a :: rest))) as (_ & _ & B').
    { eapply NoDup_app_r; eauto. }
    { intros x Hx. rewrite bin_ds_length, Ho'. apply Hall'. cbn [concat]. apply in_or_app; auto. }
    { intros H. apply He. simpl; auto. }
    destruct (edgeless_ds_get cs (bin_ds o (a :: rest))) as (_ & _ & B).
    { eapply NoDup_app_r; eauto. }
    { intros x Hx. rewrite bin_ds_length, Ho. apply Hall'. cbn [concat]. apply in_or_app; auto. }
    { intros H. apply He. simpl; auto. }
    rewrite B', B by auto.
    assert (a < n) as Han by (apply Hall'; cbn [concat]; apply in_or_app; left; simpl; auto).
    pose proof (NoDup_app_l _ _ Hn) as Hnc. inversion Hnc as [|? ? Hna Hnr].
    destruct rest as [|b rest].
    + simpl. rewrite !get_upd_same by lia. reflexivity.
    + unfold bin_ds.
      destruct (fold_upd_get a (b :: rest) (upd o' a (-2)%Z)) as (_ & F').
      { intros v Hv. rewrite upd_length, Ho'. apply Hall'. cbn [concat]. apply in_or_app. left. right. exact Hv. }
      destruct (fold_upd_get a (b :: rest) (upd o a (-2)%Z)) as (_ & F).
      { intros v Hv. rewrite upd_length, Ho. apply Hall'. cbn [concat]. apply in_or_app. left. right. exact Hv. }
      rewrite F', F by exact Hna. rewrite !get_upd_same by lia. reflexivity.
  - apply (IH n a rest); auto.
    + eapply NoDup_app_r; eauto.
    + intros x Hx. apply Hall'. cbn [concat]. apply in_or_app; auto.
    + intros H. apply He. simpl; auto.
    + rewrite bin_ds_length; auto.
    + rewrite bin_ds_length; auto.
Qed.

(* The array written by the shortcut is a well-formed forest representing exactly the cells,
   whatever the storage held before ([old] is arbitrary of length n). *)
Theorem edgeless_ds_spec n cells (old : dset) : cells_ok n cells -> length old = n ->
  length (edgeless_ds old cells) = n /\ WF (edgeless_ds old cells) /\
  (forall x y, x < n -> y < n -> (same (edgeless_ds old cells) x y <-> same_cell cells x y)) /\
  (forall old', length old' = n -> edgeless_ds old' cells = edgeless_ds old cells).
Proof.
  intros Hc Hlen. pose proof Hc as (Hn & Hall & He).
  assert (forall o, length o = n ->
     length (edgeless_ds o cells) = n /\
     (forall a rest, In (a :: rest) cells ->
        (get (edgeless_ds o cells) a < 0)%Z /\
        forall v, In v rest -> get (edgeless_ds o cells) v = Z.of_nat a)) as Hget.
  { intros o Ho. destruct (edgeless_ds_get cells o Hn) as (L & A & _); auto.
    - intros x Hx. rewrite Ho. apply Hall; auto.
    - split; [lia|auto]. }
  destruct (Hget old Hlen) as (L & A).
  set (ds := edgeless_ds old cells) in *.
  (* every member of a cell reaches the first element of the cell *)
  assert (forall a rest v, In (a :: rest) cells -> In v (a :: rest) -> reaches ds v a) as Hreach.
  { intros a rest v Hin Hv. destruct (A a rest Hin) as (Ra & Pa).
    assert (a < n) as Han by (apply Hall; eapply in_concat_cells; eauto; simpl; auto).
    assert (reaches ds a a) as Hroot by (apply r_root; [lia|auto]).
    destruct Hv as [<-|Hv]; auto.
    assert (v < n) as Hvn by (apply Hall; eapply in_concat_cells; eauto; simpl; auto).
    apply r_step; [lia|rewrite Pa by auto; lia|]. rewrite Pa by auto. rewrite Nat2Z.id. exact Hroot. }
  split; [exact L|]. split; [|split].
  - intros i Hi. rewrite L in Hi. apply Hall in Hi. apply in_concat in Hi.
    destruct Hi as (c & Hcin & Hic). destruct c as [|a rest]; [contradiction|]. exists a. eapply Hreach; eauto.
  - intros x y Hx Hy. split.
    + intros (r & Rx & Ry).
      apply Hall in Hx. apply in_concat in Hx. destruct Hx as (c1 & H1 & X1).
      apply Hall in Hy. apply in_concat in Hy. destruct Hy as (c2 & H2 & Y2).
      destruct c1 as [|a1 r1]; [contradiction|]. destruct c2 as [|a2 r2]; [contradiction|].
      pose proof (reaches_fun _ _ _ _ Rx (Hreach a1 r1 x H1 X1)) as E1.
      pose proof (reaches_fun _ _ _ _ Ry (Hreach a2 r2 y H2 Y2)) as E2.
      assert (a1 = a2) as Ea by congruence.
      assert (a1 :: r1 = a2 :: r2) as E.
      { apply (cells_disjoint cells _ _ a1 Hn H1 H2); [simpl; auto|rewrite Ea; simpl; auto]. }
      exists (a2 :: r2). split; [auto|]. split; [rewrite <- E; auto|auto].
    + intros (c & Hcin & Xc & Yc). destruct c as [|a rest]; [contradiction|].
      exists a. split; eapply Hreach; eauto.
  - intros old' Hlen'. destruct (Hget old' Hlen') as (L' & A'). subst ds.
    apply (nth_ext _ _ (-1)%Z (-1)%Z); [lia|].
    intros i Hi. rewrite L' in Hi. pose proof Hi as Hi2. apply Hall in Hi2. apply in_concat in Hi2.
    destruct Hi2 as (c & Hcin & Hic). destruct c as [|a rest]; [contradiction|].
    fold (get (edgeless_ds old' cells) i). fold (get (edgeless_ds old cells) i).
    (* both arrays are determined on the members of a cell, except for the root value *)
    destruct Hic as [<-|Hv].
    + apply (edgeless_ds_root cells n a rest); auto. intros x Hx. apply Hall; auto.
    + destruct (A' a rest Hcin) as (_ & P'). destruct (A a rest Hcin) as (_ & P).
      rewrite P', P by auto. reflexivity.
Qed.

(* ---------------------------------------------------------------- the shortcut as a whole *)
Theorem edgeless_shortcut n cells (cls : nat -> nat) (old : dset) :
  cells_ok n cells -> length old = n ->
  (forall x y, x < n -> y < n -> (cls x = cls y <-> same_cell cells x y)) ->
  let gens := edgeless_gens n cells in
  let ds := edgeless_ds old cells in
  (forall g, In g gens -> Aut n (fun _ _ => false) cls g) /\
  (forall g, generated n gens g <-> Aut n (fun _ _ => false) cls g) /\
  (forall x y, x < n -> y < n -> (orbit n gens x y <-> same_cell cells x y)) /\
  length ds = n /\ WF ds /\
  (forall x y, x < n -> y < n -> (same ds x y <-> same_cell cells x y)) /\
  (forall old', length old' = n -> edgeless_ds old' cells = ds).
Proof.
  intros Hc Hl Hcls gens ds.
  destruct (edgeless_ds_spec n cells old Hc Hl) as (L & W & S & I).
  split; [|split; [|split; [|split; [|split; [|split]]]]]; auto.
  - intros g Hg. apply (proj1 (CP_iff_Aut n cells cls g Hcls)). apply gens_CP; auto.
  - intros g. subst gens. rewrite (edgeless_generated_iff n cells Hc g). apply CP_iff_Aut; auto.
  - intros x y Hx Hy. apply edgeless_orbit_iff; auto.
Qed.
