(* Canon/SearchWalk.v — the node of the unpruned tree reached by a path of ranks; every descendant of a
   node refines it in place; an automorphism taking a leaf to a leaf position by position maps every
   bin of each common ancestor onto itself, hence relates the children "x individualised" and
   "a(x) individualised" of such an ancestor. *)
From Coq Require Import List Arith Bool ZArith Lia Permutation Sorted.
From Mamba Require Import Canon.Perm Canon.Iso Canon.Model Canon.Refine Canon.Sorted Canon.Tree Canon.Fuel
  Disjoint.Model Canon.SearchModel Canon.SearchCells Canon.SearchTarget Canon.SearchDeage
  Canon.SearchValue Canon.SearchExpand Canon.SearchCert Canon.SearchOrder Canon.SearchEquiv.
Import ListNotations.
Open Scope nat_scope.

Section Walk.
Variable g : graph.
Variable n : nat.

(* the child of P obtained by individualising the element of rank j of its target bin *)
Definition child (P : part) (j : nat) : option part :=
  match target P with
  | None => None
  | Some (b, c, a) => match nth_error c j with
                      | None => None
                      | Some x => refine g (indiv b c a x)
                      end
  end.

Fixpoint walk (P : part) (p : list nat) : option part :=
  match p with
  | [] => Some P
  | j :: r => match child P j with Some Q => walk Q r | None => None end
  end.

Lemma walk_app : forall p1 p2 P, walk P (p1 ++ p2) = match walk P p1 with Some Q => walk Q p2 | None => None end.
Proof.
  induction p1 as [|j p1 IH]; intros p2 P; [reflexivity|]. simpl. destruct (child P j); [apply IH|reflexivity].
Qed.

Lemma child_rdesc : forall P j Q, child P j = Some Q -> rdesc g P Q.
Proof.
  intros P j Q H. unfold child in H. destruct (target P) as [[[b c] a]|] eqn:ET; [|discriminate].
  destruct (nth_error c j) as [x|] eqn:Ex; [|discriminate].
  eapply rd_step; [exact ET|eapply nth_error_In; exact Ex|exact H|apply rd_refl].
Qed.

Lemma rdesc_trans : forall P Q R, rdesc g P Q -> rdesc g Q R -> rdesc g P R.
Proof.
  intros P Q R H. induction H as [P|P b c a v P' Q HT Hv HRf HR IH]; intros H2; [exact H2|].
  eapply rd_step; [exact HT|exact Hv|exact HRf|apply IH; exact H2].
Qed.

Lemma walk_rdesc : forall p P Q, walk P p = Some Q -> rdesc g P Q.
Proof.
  induction p as [|j p IH]; intros P Q H; simpl in H; [inversion H; apply rd_refl|].
  destruct (child P j) as [Q1|] eqn:EC; [|discriminate].
  eapply rdesc_trans; [eapply child_rdesc; exact EC|apply IH; exact H].
Qed.

(* ---------------------------------------------------------------- refinement in place *)

(* Q is P with every bin replaced by a sequence of bins holding the same vertices *)
Definition wrefp (P Q : part) : Prop :=
  exists parts : list part, Forall2 (fun c l => Permutation (verts l) (snd c)) P parts /\ Q = concat parts.

Lemma wrefp_refl : forall P, wrefp P P.
Proof.
  intros P. exists (map (fun c => [c]) P). split; [|symmetry; apply concat_singletons].
  induction P as [|c P IH]; simpl; constructor; [|exact IH]. unfold verts. simpl. rewrite app_nil_r. apply Permutation_refl.
Qed.

Lemma verts_concat : forall parts : list part, verts (concat parts) = flat_map verts parts.
Proof. induction parts as [|l parts IH]; [reflexivity|]. simpl. rewrite verts_app, IH. reflexivity. Qed.

Lemma wrefp_trans : forall P Q R, wrefp P Q -> wrefp Q R -> wrefp P R.
Proof.
  intros P Q R (parts & HF & ->) (parts2 & HF2 & ->). revert parts2 HF2.
  induction HF as [|c l P parts Hc _ IH]; intros parts2 HF2; simpl in *.
  - inversion HF2; subst. exists []. split; [constructor|reflexivity].
  - apply Forall2_app_inv_l in HF2. destruct HF2 as (q1 & q2 & H1 & H2 & ->).
    destruct (IH _ H2) as (parts3 & H3 & E3). exists (concat q1 :: parts3). split.
    + constructor; [|exact H3]. rewrite verts_concat. eapply perm_trans; [|exact Hc].
      clear - H1. induction H1 as [|d ld l q1 Hd _ IH1]; simpl; [constructor|].
      rewrite verts_cons. apply Permutation_app; [exact Hd|exact IH1].
    + simpl. rewrite concat_app, E3. reflexivity.
Qed.

Lemma wrefp_flat_map : forall (F : cell -> part) P, (forall c, Permutation (verts (F c)) (snd c)) -> wrefp P (flat_map F P).
Proof.
  intros F P H. exists (map F P). split; [|apply flat_map_concat_map].
  induction P as [|c P IH]; simpl; constructor; [apply H|exact IH].
Qed.

Lemma pick_wrefp : forall P P' w, pick P = Some (P', w) -> wrefp P P'.
Proof.
  induction P as [|c P IH]; intros P' w H; simpl in H; [discriminate|].
  destruct (pick P) as [[P1 w1]|] eqn:E.
  - inversion H; subst. destruct (IH _ _ eq_refl) as (parts & HF & ->).
    exists ([c] :: parts). split; [constructor; [unfold verts; simpl; rewrite app_nil_r; apply Permutation_refl|exact HF]|reflexivity].
  - destruct (fst c); [|discriminate]. inversion H; subst. destruct (wrefp_refl P) as (parts & HF & EP).
    exists ([(false, snd c)] :: parts). split; [constructor; [unfold verts; simpl; rewrite app_nil_r; apply Permutation_refl|exact HF]|].
    simpl. rewrite <- EP. reflexivity.
Qed.

Lemma refine_fuel_wrefp : forall k P Q, refine_fuel k g P = Some Q -> wrefp P Q.
Proof.
  induction k as [|k IH]; intros P Q H; simpl in H.
  - destruct (pick P) as [[P' w]|]; [discriminate|]. inversion H. apply wrefp_refl.
  - destruct (pick P) as [[P' w]|] eqn:E; [|inversion H; apply wrefp_refl].
    eapply wrefp_trans; [eapply pick_wrefp; exact E|].
    eapply wrefp_trans; [apply (wrefp_flat_map (split_cell g w)); intros c; apply split_cell_verts|apply IH; exact H].
Qed.

Lemma indiv_wrefp : forall b c a fl v, NoDup c -> In v c -> wrefp (b ++ (fl, c) :: a) (indiv b c a v).
Proof.
  intros b c a fl v Hnd Hv. destruct (wrefp_refl b) as (pb & Hb & Eb). destruct (wrefp_refl a) as (pa & Ha & Ea).
  exists (pb ++ [(true, [v]); (true, filter (fun u => negb (u =? v)) c)] :: pa). split.
  - apply Forall2_app; [exact Hb|]. constructor; [|exact Ha]. simpl.
    pose proof (indiv_verts [] c [] fl v Hnd Hv) as HP. unfold indiv, verts in HP. simpl in HP.
    rewrite !app_nil_r in HP. unfold verts. simpl. rewrite app_nil_r. exact HP.
  - unfold indiv. rewrite concat_app. simpl. rewrite <- Eb, <- Ea. reflexivity.
Qed.

Lemma rdesc_wrefp : forall P Q, rdesc g P Q -> NoDup (verts P) -> wrefp P Q.
Proof.
  intros P Q H. induction H as [P|P b c a v P' Q HT Hv HRf HR IH]; intros Hnd; [apply wrefp_refl|].
  destruct (target_spec _ _ _ _ HT) as [fl [EP _]].
  assert (Hcnd : NoDup c).
  { subst P. rewrite verts_app, verts_cons in Hnd. simpl in Hnd. apply NoDup_app_r in Hnd. apply NoDup_app_l in Hnd. exact Hnd. }
  pose proof (indiv_verts b c a fl v Hcnd Hv) as HIV. rewrite <- EP in HIV.
  pose proof (refine_verts _ _ _ HRf) as HQv.
  apply (wrefp_trans _ (indiv b c a v)); [rewrite EP at 1; apply (indiv_wrefp b c a fl v Hcnd Hv)|].
  apply (wrefp_trans _ P'); [eapply refine_fuel_wrefp; exact HRf|]. apply IH.
  apply (Permutation_NoDup (Permutation_sym (Permutation_trans HQv HIV))). exact Hnd.
Qed.

(* ---------------------------------------------------------------- a map between two leaves fixes their common ancestors *)

(* f takes the labelling q to the labelling p position by position *)
Definition takes (f : nat -> nat) (q p : list nat) : Prop := map f q = p.

Lemma wrefp_segments : forall P Q, wrefp P Q ->
  exists segs : list (list nat), verts Q = concat segs /\ Forall2 (fun c s => Permutation s (snd c)) P segs.
Proof.
  intros P Q (parts & HF & ->). exists (map verts parts). split; [rewrite verts_concat; apply flat_map_concat_map|].
  induction HF as [|c l P parts Hc _ IH]; simpl; constructor; assumption.
Qed.

Lemma concat_map_split : forall (f : nat -> nat) (s1 s2 : list (list nat)),
  map (@length nat) s1 = map (@length nat) s2 -> map f (concat s1) = concat s2 -> Forall2 (fun a b => map f a = b) s1 s2.
Proof.
  induction s1 as [|a s1 IH]; intros [|b s2] HL HE; simpl in *; try discriminate; [constructor|].
  inversion HL as [[HL1 HL2]]. rewrite map_app in HE.
  apply app_eq_len in HE; [|rewrite map_length; exact HL1]. destruct HE as [E1 E2].
  constructor; [exact E1|apply IH; assumption].
Qed.

Theorem takes_fixes : forall f P Lq Lp, wrefp P Lq -> wrefp P Lp -> takes f (verts Lq) (verts Lp) -> sim f P P.
Proof.
  intros f P Lq Lp Hq Hp HT.
  destruct (wrefp_segments _ _ Hq) as (sq & Eq & Fq). destruct (wrefp_segments _ _ Hp) as (sp & Ep & Fp).
  unfold takes in HT. rewrite Eq, Ep in HT.
  assert (HL : map (@length nat) sq = map (@length nat) sp).
  { clear - Fq Fp. revert sp Fp. induction Fq as [|c s P sq Hs _ IH]; intros sp Fp; inversion Fp; subst; [reflexivity|].
    simpl. f_equal; [|apply IH; assumption]. rewrite (Permutation_length Hs). symmetry. apply Permutation_length. assumption. }
  pose proof (concat_map_split f sq sp HL HT) as HS.
  clear - Fq Fp HS. revert sp Fp HS. induction Fq as [|c s P sq Hs _ IH]; intros sp Fp HS; inversion Fp; subst; [constructor|].
  inversion HS; subst. constructor; [|eapply IH; eassumption].
  split; [reflexivity|]. eapply perm_trans; [apply Permutation_map; apply Permutation_sym; exact Hs|].
  assumption.
Qed.

(* ---------------------------------------------------------------- children related by an automorphism *)

Lemma child_sim : forall f P j j' x Q, autf g g n f -> sim f P P -> Permutation (verts P) (seq 0 n) ->
  forall b c a, target P = Some (b, c, a) -> nth_error c j = Some x -> nth_error c j' = Some (f x) ->
  child P j = Some Q -> exists Q', child P j' = Some Q' /\ sim f Q Q'.
Proof.
  intros f P j j' x Q Hf HS HP b c a HT Hx Hfx HC.
  unfold child in *. rewrite HT in *. rewrite Hx in HC. rewrite Hfx.
  assert (compat : forall u v, In u (seq 0 n) -> In v (seq 0 n) -> adjb g (f u) (f v) = adjb g u v).
  { intros u v Hu Hv. apply in_seq in Hu. apply in_seq in Hv. apply (proj1 Hf); lia. }
  assert (inj : forall u w, In u (seq 0 n) -> In w (seq 0 n) -> f u = f w -> u = w).
  { intros u w Hu Hw. apply in_seq in Hu. apply in_seq in Hw. apply (autf_inj g g n f u w Hf); lia. }
  pose proof (target_sim f P P HS) as HTs. rewrite HT in HTs. simpl in HTs. destruct HTs as (Hb & Hc & Ha).
  destruct (target_spec _ _ _ _ HT) as [fl [EP _]].
  assert (Hnd : NoDup (verts P)) by (apply (Permutation_NoDup (Permutation_sym HP)), seq_NoDup).
  assert (HcV : incl c (seq 0 n)).
  { intros y Hy. apply (Permutation_in _ HP). subst P. rewrite verts_app, verts_cons. simpl. apply in_or_app. right. apply in_or_app. left. exact Hy. }
  assert (Hcnd : NoDup c).
  { subst P. rewrite verts_app, verts_cons in Hnd. simpl in Hnd. apply NoDup_app_r in Hnd. apply NoDup_app_l in Hnd. exact Hnd. }
  assert (Hv : In x c) by (eapply nth_error_In; exact Hx).
  pose proof (indiv_sim f (seq 0 n) inj b b c c a a x Hb Hc Ha HcV Hv) as HI.
  pose proof (indiv_verts b c a fl x Hcnd Hv) as HIV. rewrite <- EP in HIV.
  assert (HIincl : incl (verts (indiv b c a x)) (seq 0 n)).
  { intros y Hy. apply (Permutation_in _ HP). apply (Permutation_in _ HIV). exact Hy. }
  pose proof (refine_sim f g g (seq 0 n) compat _ _ HIincl HI) as HRs. rewrite HC in HRs.
  destruct (refine g (indiv b c a (f x))) as [Q'|]; simpl in HRs; [|contradiction]. exists Q'. split; [reflexivity|exact HRs].
Qed.

End Walk.
