(* Canon/SearchInvP.v — third layer of the invariant of the search: nothing that has been dismissed
   (explored, cut off, skipped or jumped over) has a leaf with a certificate greater than the best
   one.  For every node on the stack, the children with a rank at or above a threshold have been
   dismissed; a dismissed child is dominated by the best certificate, or owes its domination to a
   child of smaller rank (still to come) whose subtree has the same certificates.  The recorded
   leaves (first and best) are leaves of the tree, lie in dismissed or live children of the nodes
   they share with the stack, and the automorphisms found so far map every bin of those shared
   nodes onto itself. *)
From Coq Require Import List Arith Bool ZArith Lia Permutation Sorted.
From Mamba Require Import Canon.Perm Canon.Iso Canon.Model Canon.Refine Canon.Sorted Canon.Tree Canon.Fuel
  Disjoint.Model Disjoint.Proofs Canon.SearchModel Canon.SearchHoare Canon.SearchCells Canon.SearchTarget
  Canon.SearchDeage Canon.SearchRefine Canon.SearchExec Canon.SearchValue Canon.SearchExpand Canon.SearchCert
  Canon.SearchOrder Canon.SearchEquiv Canon.SearchWalk Canon.SearchEquit Canon.SearchCut Canon.SearchSibling
  Canon.SearchLink Canon.SearchInvT Canon.SearchVCT Canon.SearchInvV Canon.SearchVCV Canon.SearchPrune
  Canon.SearchGroup Canon.SearchCutW.
Import ListNotations.
Open Scope nat_scope.

(* the last entry of the path *)
Definition ltop (path : list nat) : nat := nth (length path - 1) path 0.

Lemma ltop_last : forall path t, last_opt path = Some t -> ltop path = t.
Proof. intros path t H. rewrite last_opt_nth in H. unfold ltop. apply nth_error_nth. exact H. Qed.

Lemma ltop_app : forall path t, ltop (path ++ [t]) = t.
Proof. intros. apply ltop_last. apply last_opt_app. Qed.

Section InvP.
Variable g : graph.
Variables n m : nat.
Variable clsf : nat -> nat.
Variable order0 : list nat.
Variable root : part.

(* the recorded path rp agrees with the current path on the first k entries: the node at depth k of the
   stack is an ancestor of the recorded leaf *)
Definition shared (rp path : list nat) (k : nat) : Prop := firstn k rp = firstn k path.

(* ranks at or above thr have been dismissed at level k; low is the least rank a recorded leaf below the
   node of level k can have *)
Definition thr (path : list nat) (jtop k : nat) : nat := if S k =? length path then jtop else S (nth k path 0).
Definition low (path : list nat) (jtop k : nat) : nat := if S k =? length path then jtop else nth k path 0.

Definition DomI (anc : list (list acell)) (path : list nat) (jtop : nat) (cb : list nat) : Prop :=
  forall k P i, nth_error anc k = Some P -> thr path jtop k <= i -> Dom1 g n cb (erase P) i.

Definition WalkI (anc : list (list acell)) (path : list nat) : Prop :=
  forall k P, nth_error anc k = Some P -> walk g root (firstn k path) = Some (erase P).

(* a recorded leaf: path entries rp (only the first rlen are its own), labelling rperm *)
Definition RecI (anc : list (list acell)) (path : list nat) (jtop : nat) (cb : list nat)
           (rp : list nat) (rlen : nat) (rperm : list nat) : Prop :=
  (exists leaf, walk g root (firstn rlen rp) = Some leaf /\ target leaf = None /\ verts leaf = rperm) /\
  (forall k P, nth_error anc k = Some P -> shared rp path k -> k < rlen /\ low path jtop k <= nth k rp 0) /\
  (forall k P Q, nth_error anc k = Some P -> shared rp path k -> thr path jtop k <= nth k rp 0 ->
     child g (erase P) (nth k rp 0) = Some Q -> dom g n cb Q).

(* the automorphisms gs map every bin of the stack nodes shared with the recorded path onto itself *)
Definition FixI (anc : list (list acell)) (path rp : list nat) (gs : list (list nat)) : Prop :=
  forall gam k P, In gam gs -> nth_error anc k = Some P -> shared rp path k ->
    sim (gfun gam) (erase P) (erase P).

(* the automorphisms behind currentBestOrbits (all found since the best leaf was recorded) *)
Definition OrbC (cbOrb : dset) (gsC : list (list nat)) : Prop :=
  Forall (isaut g n clsf) gsC /\
  exists psC, Rep n cbOrb psC /\
    (forall x y, In (x, y) psC -> exists gam, In gam gsC /\ x < n /\ y = nth x gam 0) /\
    (forall gam x, In gam gsC -> x < n -> conn n psC x (nth x gam 0)).

(* everything about the two recorded leaves; vacuous before the first leaf *)
Definition RecsI (anc : list (list acell)) (st : sstate) (jtop : nat) : Prop :=
  s_cb st <> [] ->
  exists lenB lenF permF gsC,
    RecI anc (s_path st) jtop (s_cb st) (s_cbPath st) lenB (s_cbPerm st) /\
    RecI anc (s_path st) jtop (s_cb st) (s_flPath st) lenF permF /\
    s_cb st = certp g n (s_cbPerm st) /\ Permutation (s_cbPerm st) (seq 0 n) /\
    s_fl st = certp g n permF /\ Permutation permF (seq 0 n) /\
    inverse n (s_cbPerm st) (s_cbInv st) /\ inverse n permF (s_flInv st) /\
    FixI anc (s_path st) (s_flPath st) (s_gens st) /\
    OrbC (s_cbOrb st) gsC /\ FixI anc (s_path st) (s_cbPath st) gsC.

Definition PinvA (anc : list (list acell)) (st : sstate) (jtop : nat) : Prop :=
  length anc = length (s_path st) /\
  WalkI anc (s_path st) /\ DomI anc (s_path st) jtop (s_cb st) /\ RecsI anc st jtop.

(* after a cut-off inside splitBin: the value restored by undo is exact, or there is a witness *)
Definition CWI (anc : list (list acell)) (st : sstate) : Prop :=
  forall P, last_opt anc = Some P ->
    (if s_skip st then p_value (s_ps st) = good g n P (fns P) else fns P < p_spl (s_ps st)) \/
    Wit g n P (s_cb st).

Definition SplLt (anc : list (list acell)) (st : sstate) : Prop :=
  forall P, last_opt anc = Some P -> fns P < p_spl (s_ps st).

Definition plens (st : sstate) : Prop := length (s_cbPath st) = n /\ length (s_flPath st) = n.

Notation Xc := (Kc clsf order0).

Definition PPstep (st : sstate) : Prop :=
  exists anc, TPstepA g n root Xc anc st /\ VPstep g n m clsf order0 root st /\
    PinvA anc st (ltop (s_path st)) /\ CWI anc st /\ plens st /\
    (s_path st = [] -> dom g n (s_cb st) root).

Definition PPj (st : sstate) (jj : nat) : Prop :=
  exists anc, TPjA g n root Xc anc st jj /\ VPj g n m clsf order0 root st jj /\
    PinvA anc st jj /\ CWI anc st /\ plens st.

Definition PPref (st : sstate) : Prop :=
  exists anc, TPrefA g n root Xc anc st /\ VPref g n m clsf order0 root st /\
    PinvA anc st (S (ltop (s_path st))) /\ SplLt anc st /\ plens st.

Definition PPtop (st : sstate) (w : bool) : Prop :=
  exists anc, TPtopA g n root Xc anc st w /\ VPtop g n m clsf order0 root st w /\
    PinvA anc st (S (ltop (s_path st))) /\ SplLt anc st /\ plens st /\
    (s_path st = [] -> s_cb st = []) /\
    (w = false -> walk g root (s_path st) = Some (erase (p_cells (s_ps st)))) /\
    (w = true -> forall P Q, last_opt anc = Some P -> child g (erase P) (ltop (s_path st)) = Some Q ->
                   dom g n (s_cb st) Q).

Definition PPdone (st : sstate) : Prop :=
  VPdone g n m clsf order0 root st /\ dom g n (s_cb st) root /\
  s_cb st = certp g n (s_cbPerm st) /\ Permutation (s_cbPerm st) (seq 0 n).

(* ---------------------------------------------------------------- thresholds *)

Lemma thr_top : forall path jtop k, S k = length path -> thr path jtop k = jtop.
Proof. intros path jtop k H. unfold thr. rewrite H, Nat.eqb_refl. reflexivity. Qed.

Lemma thr_low : forall path jtop k, S k <> length path -> thr path jtop k = S (nth k path 0).
Proof. intros path jtop k H. unfold thr. apply Nat.eqb_neq in H. rewrite H. reflexivity. Qed.

Lemma low_top : forall path jtop k, S k = length path -> low path jtop k = jtop.
Proof. intros path jtop k H. unfold low. rewrite H, Nat.eqb_refl. reflexivity. Qed.

Lemma low_low : forall path jtop k, S k <> length path -> low path jtop k = nth k path 0.
Proof. intros path jtop k H. unfold low. apply Nat.eqb_neq in H. rewrite H. reflexivity. Qed.

Lemma low_thr : forall path jtop k, low path jtop k <= thr path jtop k.
Proof. intros. unfold low, thr. destruct (S k =? length path); lia. Qed.

(* ---------------------------------------------------------------- lowering the threshold of the top node *)

Lemma RecI_lower : forall anc path jtop jtop' cb rp rlen rperm, jtop' <= jtop ->
  RecI anc path jtop cb rp rlen rperm -> RecI anc path jtop' cb rp rlen rperm.
Proof.
  intros anc path jtop jtop' cb rp rlen rperm Hle (HW & HL & HD). split; [exact HW|]. split.
  - intros k P HP HS. destruct (HL k P HP HS) as [H1 H2]. split; [exact H1|].
    unfold low in *. destruct (S k =? length path); lia.
  - intros k P Q HP HS Ht HC. apply (HD k P Q HP HS); [|exact HC].
    destruct (HL k P HP HS) as [_ H2]. unfold low in H2. unfold thr in *. destruct (S k =? length path); lia.
Qed.

Lemma RecI_cb : forall anc path jtop cb cb' rp rlen rperm, cle cb cb' ->
  RecI anc path jtop cb rp rlen rperm -> RecI anc path jtop cb' rp rlen rperm.
Proof.
  intros anc path jtop cb cb' rp rlen rperm Hle (HW & HL & HD). split; [exact HW|]. split; [exact HL|].
  intros k P Q HP HS Ht HC. eapply dom_mono; [eapply HD; eassumption|exact Hle].
Qed.

Lemma DomI_lower : forall anc path jtop j cb P, length anc = length path -> last_opt anc = Some P ->
  DomI anc path jtop cb -> (forall i, j <= i -> i < jtop -> Dom1 g n cb (erase P) i) -> DomI anc path j cb.
Proof.
  intros anc path jtop j cb P HL HP HD H k P' i HP' Ht.
  destruct (Nat.eq_dec (S k) (length path)) as [E|E].
  - rewrite (thr_top _ _ _ E) in Ht. rewrite last_opt_nth, HL in HP.
    replace (length path - 1) with k in HP by lia. rewrite HP in HP'. inversion HP'; subst P'.
    destruct (Nat.lt_ge_cases i jtop) as [Hlt|Hge]; [apply H; assumption|].
    apply (HD k P i HP). rewrite (thr_top _ _ _ E). exact Hge.
  - apply (HD k P' i HP'). rewrite (thr_low path jtop k E). rewrite (thr_low path j k E) in Ht. exact Ht.
Qed.

Lemma DomI_cb : forall anc path jtop cb cb', cle cb cb' -> DomI anc path jtop cb -> DomI anc path jtop cb'.
Proof. intros anc path jtop cb cb' Hle H k P i HP Ht. eapply Dom1_mono; [eapply H; eassumption|exact Hle]. Qed.

Lemma RecsI_lower : forall anc st jtop jtop', jtop' <= jtop -> RecsI anc st jtop -> RecsI anc st jtop'.
Proof.
  intros anc st jtop jtop' Hle H Hcb. destruct (H Hcb) as (lenB & lenF & permF & gsC & R1 & R2 & Rest).
  exists lenB, lenF, permF, gsC. split; [eapply RecI_lower; eassumption|]. split; [eapply RecI_lower; eassumption|exact Rest].
Qed.

Lemma PinvA_lower : forall anc st jtop j P, last_opt anc = Some P -> j <= jtop ->
  PinvA anc st jtop -> (forall i, j <= i -> i < jtop -> Dom1 g n (s_cb st) (erase P) i) -> PinvA anc st j.
Proof.
  intros anc st jtop j P HP Hle (HL & HW & HD & HR) H. split; [exact HL|]. split; [exact HW|].
  split; [eapply DomI_lower; eassumption|eapply RecsI_lower; eassumption].
Qed.

(* ---------------------------------------------------------------- changes of the state that do not matter *)

Lemma shared_ext : forall rp path path' k, removelast path' = removelast path -> length path' = length path ->
  S k <= length path -> (shared rp path' k <-> shared rp path k).
Proof.
  intros rp path path' k HR HL Hk. unfold shared.
  assert (E : forall p : list nat, S k <= length p -> firstn k p = firstn k (removelast p)).
  { intros p Hp. rewrite removelast_firstn_len', firstn_firstn. f_equal. lia. }
  rewrite (E path) by lia. rewrite (E path') by lia. rewrite HR. reflexivity.
Qed.

Lemma nth_ext_removelast : forall (path path' : list nat) k, removelast path' = removelast path -> length path' = length path ->
  S k <> length path -> nth k path' 0 = nth k path 0.
Proof.
  intros path path' k HR HL Hk. destruct (Nat.lt_ge_cases (S k) (length path)) as [Hlt|Hge].
  - assert (E : forall p : list nat, S k < length p -> nth k p 0 = nth k (removelast p) 0).
    { intros p Hp. rewrite removelast_firstn_len'. symmetry. apply nth_error_nth.
      rewrite nth_error_firstn by lia. apply nth_error_nth'. lia. }
    rewrite (E path) by lia. rewrite (E path') by lia. rewrite HR. reflexivity.
  - rewrite !nth_overflow by lia. reflexivity.
Qed.

Lemma thr_ext : forall path path' jtop k, removelast path' = removelast path -> length path' = length path ->
  thr path' jtop k = thr path jtop k.
Proof.
  intros path path' jtop k HR HL. unfold thr. rewrite HL. destruct (S k =? length path) eqn:E; [reflexivity|].
  apply Nat.eqb_neq in E. rewrite (nth_ext_removelast path path' k HR HL E). reflexivity.
Qed.

Lemma low_ext : forall path path' jtop k, removelast path' = removelast path -> length path' = length path ->
  low path' jtop k = low path jtop k.
Proof.
  intros path path' jtop k HR HL. unfold low. rewrite HL. destruct (S k =? length path) eqn:E; [reflexivity|].
  apply Nat.eqb_neq in E. rewrite (nth_ext_removelast path path' k HR HL E). reflexivity.
Qed.

Lemma anc_lt : forall (anc : list (list acell)) k P, nth_error anc k = Some P -> k < length anc.
Proof. intros anc k P H. apply nth_error_Some. rewrite H. discriminate. Qed.

Lemma RecI_ext : forall anc path path' jtop cb rp rlen rperm, removelast path' = removelast path ->
  length path' = length path -> length anc = length path ->
  RecI anc path jtop cb rp rlen rperm -> RecI anc path' jtop cb rp rlen rperm.
Proof.
  intros anc path path' jtop cb rp rlen rperm HR HL HA (HW & HLx & HD). split; [exact HW|]. split.
  - intros k P HP HS. pose proof (anc_lt _ _ _ HP) as Hk. apply (shared_ext rp path path' k HR HL ltac:(lia)) in HS.
    rewrite (low_ext path path' jtop k HR HL). apply (HLx k P HP HS).
  - intros k P Q HP HS Ht HC. pose proof (anc_lt _ _ _ HP) as Hk. apply (shared_ext rp path path' k HR HL ltac:(lia)) in HS.
    rewrite (thr_ext path path' jtop k HR HL) in Ht. apply (HD k P Q HP HS Ht HC).
Qed.

Lemma FixI_ext : forall anc path path' rp gs, removelast path' = removelast path ->
  length path' = length path -> length anc = length path -> FixI anc path rp gs -> FixI anc path' rp gs.
Proof.
  intros anc path path' rp gs HR HL HA H gam k P Hg HP HS. pose proof (anc_lt _ _ _ HP) as Hk.
  apply (shared_ext rp path path' k HR HL ltac:(lia)) in HS. apply (H gam k P Hg HP HS).
Qed.

Lemma WalkI_ext : forall anc path path', removelast path' = removelast path ->
  length path' = length path -> length anc = length path -> WalkI anc path -> WalkI anc path'.
Proof.
  intros anc path path' HR HL HA H k P HP. pose proof (anc_lt _ _ _ HP) as Hk.
  assert (E : forall p : list nat, S k <= length p -> firstn k p = firstn k (removelast p)).
  { intros p Hp. rewrite removelast_firstn_len', firstn_firstn. f_equal. lia. }
  rewrite (E path') by lia. rewrite HR, <- (E path) by lia. apply (H k P HP).
Qed.

Lemma DomI_ext : forall anc path path' jtop cb, removelast path' = removelast path ->
  length path' = length path -> DomI anc path jtop cb -> DomI anc path' jtop cb.
Proof.
  intros anc path path' jtop cb HR HL H k P i HP Ht. rewrite (thr_ext path path' jtop k HR HL) in Ht. apply (H k P i HP Ht).
Qed.

Lemma PinvA_ext : forall anc st st' jtop, removelast (s_path st') = removelast (s_path st) ->
  length (s_path st') = length (s_path st) ->
  s_cb st' = s_cb st -> s_cbPath st' = s_cbPath st -> s_cbPerm st' = s_cbPerm st -> s_cbInv st' = s_cbInv st ->
  s_fl st' = s_fl st -> s_flPath st' = s_flPath st -> s_flInv st' = s_flInv st -> s_gens st' = s_gens st ->
  (forall gsC, OrbC (s_cbOrb st) gsC -> OrbC (s_cbOrb st') gsC) ->
  PinvA anc st jtop -> PinvA anc st' jtop.
Proof.
  intros anc st st' jtop HR HL E1 E2 E3 E4 E5 E6 E7 E8 HO (HA & HW & HD & HRc).
  split; [rewrite HL; exact HA|]. split; [eapply WalkI_ext; eassumption|].
  split; [rewrite E1; eapply DomI_ext; eassumption|].
  intros Hcb. rewrite E1 in Hcb. destruct (HRc Hcb) as (lenB & lenF & permF & gsC & R1 & R2 & R3 & R4 & R5 & R6 & R7 & R8 & R9 & R10 & R11).
  exists lenB, lenF, permF, gsC. rewrite E1, E2, E3, E4, E5, E6, E7, E8.
  split; [eapply RecI_ext; eassumption|]. split; [eapply RecI_ext; eassumption|].
  repeat (split; [assumption|]). split; [eapply FixI_ext; eassumption|]. split; [apply HO; exact R10|eapply FixI_ext; eassumption].
Qed.

End InvP.
