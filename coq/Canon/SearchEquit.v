(* Canon/SearchEquit.v — the refinement of Canon/Model.v returns an equitable partition: no bin splits
   any bin; hence every node of the unpruned tree is equitable, and all the vertices of a bin have
   the same neighbours among the vertices of the singleton bins. *)
From Coq Require Import List Arith Bool ZArith Lia Permutation Sorted.
From Mamba Require Import Canon.Perm Canon.Iso Canon.Model Canon.Refine Canon.Sorted Canon.Tree Canon.Fuel
  Canon.SearchCells Canon.SearchTarget.
Import ListNotations.
Open Scope nat_scope.

Section Equit.
Variable g : graph.

(* W splits no bin of P *)
Definition nosplit (P : part) (W : list nat) : Prop := forall c, In c P -> uniform g W (snd c) = true.

(* the invariant of the refinement loop: the bins that are not in binsToCheck split nothing *)
Definition equit_inv (P : part) : Prop := forall c, In c P -> fst c = false -> nosplit P (snd c).

Definition equitable (P : part) : Prop := forall c, In c P -> nosplit P (snd c).

Lemma uniform_subset : forall W c c', uniform g W c = true -> incl c' c -> uniform g W c' = true.
Proof.
  intros W c c' H Hi. apply uniform_spec. intros u v Hu Hv. apply (proj1 (uniform_spec g W c) H); apply Hi; assumption.
Qed.

Lemma fragment_incl : forall w c k d, In d (fragment g w c k) -> incl (snd d) c /\ fst d = true /\
  forall u, In u (snd d) -> cnt g w u = k.
Proof.
  intros w c k d H. unfold fragment in H. destruct (filter (fun v => cnt g w v =? k) c) as [|x r] eqn:E; [contradiction|].
  destruct H as [<-|[]]. simpl.
  assert (HF : forall u, In u (x :: r) -> In u c /\ cnt g w u = k).
  { intros u Hu. rewrite <- E in Hu. apply filter_In in Hu. destruct Hu as [H1 H2]. apply Nat.eqb_eq in H2. split; assumption. }
  split; [intros u Hu; apply (HF u Hu)|]. split; [reflexivity|]. intros u Hu. apply (HF u Hu).
Qed.

Lemma split_cell_in : forall w c d, In d (split_cell g w c) ->
  (d = c /\ uniform g w (snd c) = true) \/
  (fst d = true /\ incl (snd d) (snd c) /\ exists k, forall u, In u (snd d) -> cnt g w u = k).
Proof.
  intros w c d H. unfold split_cell in H. destruct (uniform g w (snd c)) eqn:EU.
  - left. destruct H as [<-|[]]. split; reflexivity.
  - right. unfold fragments in H. apply in_flat_map in H. destruct H as (k & _ & Hd).
    destruct (fragment_incl w (snd c) k d Hd) as (H1 & H2 & H3). split; [exact H2|]. split; [exact H1|]. exists k. exact H3.
Qed.

Lemma pick_in : forall P P' w, pick P = Some (P', w) ->
  forall d, In d P' -> (In d P) \/ (d = (false, w) /\ In (true, w) P).
Proof.
  induction P as [|c P IH]; intros P' w H d Hd; simpl in H; [discriminate|].
  destruct (pick P) as [[P1 w1]|] eqn:E.
  - inversion H; subst. destruct Hd as [<-|Hd]; [left; left; reflexivity|].
    destruct (IH _ _ eq_refl d Hd) as [H1|[H1 H2]]; [left; right; exact H1|right; split; [exact H1|right; exact H2]].
  - destruct c as [fl v]. simpl in H. destruct fl; [|discriminate]. inversion H; subst.
    destruct Hd as [<-|Hd]; [right; split; [reflexivity|left; reflexivity]|left; right; exact Hd].
Qed.

Lemma pick_verts_in : forall P P' w, pick P = Some (P', w) -> forall c, In c P -> exists c', In c' P' /\ snd c' = snd c.
Proof.
  induction P as [|c0 P IH]; intros P' w H c Hc; simpl in H; [discriminate|].
  destruct (pick P) as [[P1 w1]|] eqn:E.
  - inversion H; subst. destruct Hc as [<-|Hc]; [exists c0; split; [left; reflexivity|reflexivity]|].
    destruct (IH _ _ eq_refl c Hc) as (c' & H1 & H2). exists c'. split; [right; exact H1|exact H2].
  - destruct c0 as [fl v]. simpl in H. destruct fl; [|discriminate]. inversion H; subst.
    destruct Hc as [<-|Hc]; [eexists; split; [left; reflexivity|reflexivity]|exists c; split; [right; exact Hc|reflexivity]].
Qed.

Lemma pick_in_back : forall P P' w, pick P = Some (P', w) -> forall d, In d P' -> exists c, In c P /\ snd c = snd d.
Proof.
  intros P P' w H d Hd. destruct (pick_in _ _ _ H d Hd) as [H1|[-> H2]]; [exists d; split; [exact H1|reflexivity]|].
  exists (true, w). split; [exact H2|reflexivity].
Qed.

(* one round keeps the invariant *)
Lemma round_equit : forall P P' w, equit_inv P -> pick P = Some (P', w) ->
  equit_inv (flat_map (split_cell g w) P').
Proof.
  intros P P' w HI HP d Hd Hfl c'' Hc''.
  apply in_flat_map in Hd. destruct Hd as (c & Hc & Hdc).
  apply in_flat_map in Hc''. destruct Hc'' as (c2 & Hc2 & Hc2'').
  (* the bin c'' lies inside a bin of P' *)
  assert (Hsub : incl (snd c'') (snd c2) /\ ((c'' = c2 /\ uniform g w (snd c2) = true) \/ exists k, forall u, In u (snd c'') -> cnt g w u = k)).
  { destruct (split_cell_in w c2 c'' Hc2'') as [[-> HU]|(_ & Hinc & Hk)]; [split; [apply incl_refl|left; split; [reflexivity|exact HU]]|split; [exact Hinc|right; exact Hk]]. }
  destruct Hsub as [Hsub Hkind].
  destruct (split_cell_in w c d Hdc) as [[-> HU]|(Ht & _)]; [|congruence].
  (* d = c is an unflagged bin of P': an unflagged bin of P, or the splitter *)
  destruct (pick_in _ _ _ HP c Hc) as [HcP|[-> _]].
  - destruct (pick_in_back _ _ _ HP c2 Hc2) as (c2P & Hc2P & E2).
    apply (uniform_subset (snd c) (snd c2P)); [apply (HI c HcP Hfl c2P Hc2P)|rewrite E2; exact Hsub].
  - simpl. destruct Hkind as [[-> HU2]|[k Hk]]; [exact HU2|].
    apply uniform_spec. intros u v Hu Hv. rewrite (Hk u Hu), (Hk v Hv). reflexivity.
Qed.

Lemma pick_none_flags : forall P, pick P = None -> forall c, In c P -> fst c = false.
Proof.
  induction P as [|c0 P IH]; intros H c Hc; [contradiction|]. simpl in H.
  destruct (pick P) as [[P1 w1]|] eqn:E; [discriminate|]. destruct (fst c0) eqn:E0; [discriminate|].
  destruct Hc as [<-|Hc]; [exact E0|apply IH; [reflexivity|exact Hc]].
Qed.

Theorem refine_fuel_equitable : forall k P Q, refine_fuel k g P = Some Q -> equit_inv P -> equitable Q.
Proof.
  induction k as [|k IH]; intros P Q H HI; simpl in H.
  - destruct (pick P) as [[P' w]|] eqn:E; [discriminate|]. inversion H; subst Q.
    intros c Hc. apply HI; [exact Hc|]. eapply pick_none_flags; eassumption.
  - destruct (pick P) as [[P' w]|] eqn:E.
    + eapply IH; [exact H|]. eapply round_equit; eassumption.
    + inversion H; subst Q. intros c Hc. apply HI; [exact Hc|]. eapply pick_none_flags; eassumption.
Qed.

(* individualising a vertex of an equitable partition: the old bins still split nothing *)
Lemma indiv_equit_inv : forall b c a fl v, equitable (b ++ (fl, c) :: a) ->
  (forall d, In d b -> fst d = false) -> (forall d, In d a -> fst d = false) ->
  equit_inv (indiv b c a v).
Proof.
  intros b c a fl v HE Hb Ha d Hd Hfl c2 Hc2. unfold indiv in Hd, Hc2.
  assert (HdP : In d (b ++ (fl, c) :: a)).
  { apply in_app_or in Hd. destruct Hd as [Hd|[<-|[<-|Hd]]]; try (simpl in Hfl; discriminate).
    - apply in_or_app. left. exact Hd.
    - apply in_or_app. right. right. exact Hd. }
  apply in_app_or in Hc2. destruct Hc2 as [Hc2|[<-|[<-|Hc2]]].
  - apply (HE d HdP). apply in_or_app. left. exact Hc2.
  - reflexivity.
  - simpl. apply (uniform_subset (snd d) c); [apply (HE d HdP (fl, c)); apply in_or_app; right; left; reflexivity|].
    intros u Hu. apply filter_In in Hu. tauto.
  - apply (HE d HdP). apply in_or_app. right. right. exact Hc2.
Qed.

Lemma refine_fuel_flags : forall k P Q, refine_fuel k g P = Some Q -> forall c, In c Q -> fst c = false.
Proof.
  intros k P Q H. pose proof (refine_fuel_drained _ _ _ _ H) as HD. intros c Hc. eapply pick_none_flags; eassumption.
Qed.

(* every node below an equitable, drained node is equitable and drained *)
Theorem rdesc_equitable : forall P Q, rdesc g P Q -> equitable P -> (forall c, In c P -> fst c = false) ->
  equitable Q /\ (forall c, In c Q -> fst c = false).
Proof.
  intros P Q H. induction H as [P|P b c a v P' Q HT Hv HRf HR IH]; intros HE HF; [split; assumption|].
  destruct (target_spec _ _ _ _ HT) as [fl [EP _]]. apply IH.
  - eapply refine_fuel_equitable; [exact HRf|]. rewrite EP in HE. apply (indiv_equit_inv b c a fl v HE).
    + intros d Hd. apply HF. rewrite EP. apply in_or_app. left. exact Hd.
    + intros d Hd. apply HF. rewrite EP. apply in_or_app. right. right. exact Hd.
  - eapply refine_fuel_flags. exact HRf.
Qed.

(* what equitability gives for singleton bins: the vertex of a singleton bin sees all of a bin or none of it *)
Lemma equitable_single : forall P s c x y, equitable P -> In (false, [s]) P \/ In (true, [s]) P -> In c P ->
  In x (snd c) -> In y (snd c) -> adjb g s x = adjb g s y.
Proof.
  intros P s c x y HE Hs Hc Hx Hy.
  assert (HU : uniform g [s] (snd c) = true).
  { destruct Hs as [Hs|Hs]; apply (HE _ Hs c Hc). }
  pose proof (proj1 (uniform_spec g [s] (snd c)) HU x y Hx Hy) as E. unfold cnt in E. simpl in E.
  destruct (adjb g s x); destruct (adjb g s y); simpl in E; try reflexivity; discriminate.
Qed.

End Equit.
