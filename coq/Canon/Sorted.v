(* Canon/Sorted.v — the model keeps every cell ascending, as the Go code does ("The order will
   always be sorted within each bin"): so the position of a vertex inside its cell is its rank,
   the stable sort of a cell by count is [filter] by count, and the shift of splitBin is
   [filter (<> v)]. *)
From Coq Require Import List Arith Lia Sorted Bool.
From Mamba Require Import Canon.Perm Canon.Iso Canon.Model.
Import ListNotations.

Definition asc (c : list nat) : Prop := StronglySorted lt c.
Definition cells_asc (P : part) : Prop := Forall (fun c => asc (snd c)) P.

Lemma Forall_filter : forall (A : Type) (Q : A -> Prop) (p : A -> bool) l, Forall Q l -> Forall Q (filter p l).
Proof.
  intros A Q p l H. induction H; simpl; [constructor|]. destruct (p x); [constructor|]; assumption.
Qed.

Lemma asc_filter : forall (p : nat -> bool) c, asc c -> asc (filter p c).
Proof.
  intros p c H. induction H as [|x r Hr IH Hx]; simpl; [constructor|].
  destruct (p x); [|exact IH]. constructor; [exact IH|apply Forall_filter; exact Hx].
Qed.

Lemma asc_seq : forall n a, asc (seq a n).
Proof.
  induction n as [|n IH]; intros a; simpl; [constructor|]. constructor; [apply IH|].
  apply Forall_forall. intros x Hx. apply in_seq in Hx. lia.
Qed.

Lemma fragment_asc : forall g w c k, asc c -> cells_asc (fragment g w c k).
Proof.
  intros g w c k H. unfold fragment.
  pose proof (asc_filter (fun v => cnt g w v =? k) c H) as HF.
  destruct (filter _ c); constructor; [exact HF|constructor].
Qed.

Lemma split_cell_asc : forall g w c, asc (snd c) -> cells_asc (split_cell g w c).
Proof.
  intros g w c H. unfold split_cell. destruct (uniform g w (snd c)).
  - constructor; [exact H|constructor].
  - unfold fragments. induction (seq 0 (S (length w))) as [|k ks IH]; simpl; [constructor|].
    apply Forall_app. split; [apply fragment_asc; exact H|exact IH].
Qed.

Lemma step_asc : forall g w P, cells_asc P -> cells_asc (flat_map (split_cell g w) P).
Proof.
  intros g w P H. induction H as [|c P Hc _ IH]; simpl; [constructor|].
  apply Forall_app. split; [apply split_cell_asc; exact Hc|exact IH].
Qed.

Lemma pick_asc : forall P P' w, pick P = Some (P', w) -> cells_asc P -> cells_asc P'.
Proof.
  induction P as [|c r IH]; simpl; intros P' w H HA; [discriminate|]. inversion HA; subst.
  destruct (pick r) as [[r' w']|] eqn:E.
  - inversion H; subst. constructor; [assumption|]. eapply IH; [reflexivity|assumption].
  - destruct (fst c); [|discriminate]. inversion H; subst. constructor; assumption.
Qed.

Theorem refine_fuel_asc : forall k g P Q, refine_fuel k g P = Some Q -> cells_asc P -> cells_asc Q.
Proof.
  induction k as [|k IH]; intros g P Q H HA; simpl in H.
  - destruct (pick P) as [[P' w]|]; [discriminate|]. inversion H; subst. exact HA.
  - destruct (pick P) as [[P' w]|] eqn:E.
    + eapply IH; [exact H|]. apply step_asc. eapply pick_asc; eassumption.
    + inversion H; subst. exact HA.
Qed.

Theorem refine_asc : forall g P Q, refine g P = Some Q -> cells_asc P -> cells_asc Q.
Proof. intros g P Q H. eapply refine_fuel_asc. exact H. Qed.

Lemma init_part_asc : forall n, cells_asc (init_part n).
Proof. intros [|n]; [constructor|]. constructor; [apply asc_seq|constructor]. Qed.

Lemma target_asc : forall P b c a, target P = Some (b, c, a) -> cells_asc P ->
  cells_asc b /\ asc c /\ cells_asc a.
Proof.
  induction P as [|[fl0 c0] r IH]; simpl; intros b c a H HA; [discriminate|]. inversion HA; subst.
  destruct c0 as [|x [|y t]].
  - destruct (target r) as [[[b1 t1] a1]|] eqn:E; [|discriminate]. inversion H; subst.
    destruct (IH _ _ _ eq_refl H3) as [I1 [I2 I3]]. repeat split; auto. constructor; assumption.
  - destruct (target r) as [[[b1 t1] a1]|] eqn:E; [|discriminate]. inversion H; subst.
    destruct (IH _ _ _ eq_refl H3) as [I1 [I2 I3]]. repeat split; auto. constructor; assumption.
  - inversion H; subst. repeat split; auto. constructor.
Qed.

Theorem indiv_at_asc : forall P k Q, indiv_at P k = Some Q -> cells_asc P -> cells_asc Q.
Proof.
  intros P k Q H HA. unfold indiv_at in H.
  destruct (target P) as [[[b c] a]|] eqn:E; [|discriminate].
  destruct (nth_error c k) as [v|]; [|discriminate]. inversion H; subst.
  destruct (target_asc _ _ _ _ E HA) as [Hb [Hc Ha]]. unfold indiv.
  apply Forall_app. split; [exact Hb|]. constructor; [repeat constructor|].
  constructor; [apply asc_filter; exact Hc|exact Ha].
Qed.
