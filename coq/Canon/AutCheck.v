(* C02 — the checker run by the correspondence driver on one result (generators, orbit array)
   returned by graph.CanonicalIsomorphFull / CanonicalIsomorphAllocated for a graph with vertex
   classes, and what its verdict means. *)
From Coq Require Import List ZArith Lia Arith Bool.
From Mamba Require Import Disjoint.Model Disjoint.Proofs.
From Mamba Require Import Canon.AutBase Canon.Aut Canon.Group Canon.Orbit Canon.GroupOrder.
Import ListNotations.
Open Scope nat_scope.

Lemma orbits_match_spec n gens ds : Forall (is_perm n) gens ->
  (orbits_match n gens ds = true <->
   length ds = n /\ WF ds /\ forall x y, x < n -> y < n -> (same ds x y <-> orbit n gens x y)).
Proof.
  intros Hg. unfold orbits_match. rewrite andb_true_iff, Nat.eqb_eq. split.
  - intros (L & H). destruct (labels_of_ds ds) as [a|] eqn:Ea; [|discriminate].
    destruct (orbits_of n gens) as [b|] eqn:Eb; [|discriminate].
    destruct (pdec a b) as [<-|]; [|discriminate].
    split; auto. split; [apply (proj2 (labels_of_ds_spec ds) a Ea)|].
    apply (labels_eq_iff_orbits n gens ds a Hg L Ea). exact Eb.
  - intros (L & W & H). split; auto.
    destruct (proj1 (labels_of_ds_spec ds) W) as (a & Ea). rewrite Ea.
    rewrite (proj2 (labels_eq_iff_orbits n gens ds a Hg L Ea) H).
    destruct (pdec a a); congruence.
Qed.

Theorem check_partial_spec n adj cls gens ds :
  check_partial n adj cls gens ds = true <->
  (forall s, In s gens -> Aut n adj cls s) /\
  length ds = n /\ WF ds /\ forall x y, x < n -> y < n -> (same ds x y <-> orbit n gens x y).
Proof.
  unfold check_partial. rewrite andb_true_iff, forallb_forall. split.
  - intros (Ha & Ho).
    assert (forall s, In s gens -> Aut n adj cls s) as Haut by (intros s Hs; apply is_automorphism_spec; auto).
    split; auto. apply orbits_match_spec; auto.
    apply Forall_forall. intros s Hs. apply (Haut s Hs).
  - intros (Haut & H). split.
    + intros s Hs. apply is_automorphism_spec; auto.
    + apply orbits_match_spec; auto. apply Forall_forall. intros s Hs. apply (Haut s Hs).
Qed.

(* The verdict "true" of the full check is the first sentence of C02 for this input: every
   returned generator is a class-preserving automorphism, the generators generate the whole
   class-preserving automorphism group, and the returned partition is exactly its orbit partition. *)
Theorem check_full_sound fuel cap n adj cls gens ds :
  check_full fuel cap n adj cls gens ds = true ->
  (forall s, In s gens -> Aut n adj cls s) /\
  (forall g, generated n gens g <-> Aut n adj cls g) /\
  length ds = n /\ WF ds /\
  forall x y, x < n -> y < n ->
    (same ds x y <-> exists g, Aut n adj cls g /\ app g x = y).
Proof.
  unfold check_full. rewrite andb_true_iff. intros (Hc & Ho).
  pose proof (gens_generate_aut_sound _ _ _ _ _ _ Hc) as Hgen.
  unfold gens_generate_aut_b in Hc. apply andb_true_iff in Hc. destruct Hc as (Ha & _).
  rewrite forallb_forall in Ha.
  assert (forall s, In s gens -> Aut n adj cls s) as Haut by (intros s Hs; apply is_automorphism_spec; auto).
  assert (Forall (is_perm n) gens) as Hp by (apply Forall_forall; intros s Hs; apply (Haut s Hs)).
  apply orbits_match_spec in Ho; auto. destruct Ho as (L & W & H).
  split; auto. split; auto. split; auto. split; auto.
  intros x y Hx Hy. rewrite (H x y Hx Hy). unfold orbit. split.
  - intros (g & Hg & E). exists g. split; auto. apply Hgen; auto.
  - intros (g & Hg & E). exists g. split; auto. apply Hgen; auto.
Qed.

(* and the check never rejects a correct result (given fuel and cap large enough for Aut(g)) *)
Theorem check_full_complete fuel cap n adj cls gens ds :
  (forall s, In s gens -> Aut n adj cls s) ->
  (forall g, Aut n adj cls g -> generated n gens g) ->
  length ds = n -> WF ds ->
  (forall x y, x < n -> y < n -> (same ds x y <-> exists g, Aut n adj cls g /\ app g x = y)) ->
  1 <= cap -> cap + 1 <= fuel -> length (aut_bruteforce n adj cls) <= cap ->
  check_full fuel cap n adj cls gens ds = true.
Proof.
  intros Haut Hall L W H Hc Hf Hcap. unfold check_full. apply andb_true_iff. split.
  - apply gens_generate_aut_complete; auto.
  - assert (Forall (is_perm n) gens) as Hp by (apply Forall_forall; intros s Hs; apply (Haut s Hs)).
    apply orbits_match_spec; auto. split; auto. split; auto.
    intros x y Hx Hy. rewrite (H x y Hx Hy). unfold orbit. split.
    + intros (g & Hg & E). exists g. split; auto.
    + intros (g & Hg & E). exists g. split; auto. apply (generated_Aut n gens adj cls g Haut Hg).
Qed.
