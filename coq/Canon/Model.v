(* Canon/Model.v — definitions only.

   (a) [refine]: model of equitableRefinementProcedure (graph/canonical.go) on ordered partitions,
       run without a current best leaf (currentBest empty: the early exit "worse" never fires)
       and with the zero CanonicalOptions.
       State of the Go code        model
       order, binDividers          the list of cells, each the list of its vertices in the order
                                   they have in [order] (the Go code keeps every bin ascending)
       binsToCheck (sorted set)    the flag of the cell: true = its index is in binsToCheck
       inCell                      derived
       binAges, age, value         not modelled (used only by the depth-first search)
       One round of the Go loop: take the LAST index i of binsToCheck (remove it), count for every
       vertex v the number of w in bin i with v in neighbours[w]; every bin whose members do not
       all have the same count is replaced by its fragments, in ascending order of count, each
       fragment in the old order (stable sort), and ALL fragments are put into binsToCheck; other
       bins keep their membership in binsToCheck.  Until binsToCheck is empty.
   (b) the unpruned search tree as a SPECIFICATION of the canonical form: at a partition that is
       not discrete, individualise each vertex v of the first cell with more than one element
       (splitBin: v becomes a singleton cell in front of the rest of its cell, both put into
       binsToCheck) and refine; the leaves are the discrete partitions; the certificate of a leaf
       p is the list of sorted edge indices j(j-1)/2+k (k<j) of the relabelled graph, the greatest
       in lexicographic order wins = the least upper-triangle bit string, column by column
       ([key]).  [canon_ref g] is a leaf with the least key.
   The pruned depth-first search of CanonicalIsomorphAllocated (Heuristics 1 and 2, the
   partial-certificate cut-off, deage, storage reuse) is NOT modelled. *)
From Coq Require Import List Arith Bool.
From Mamba Require Import Canon.Perm Canon.Iso.
Import ListNotations.

Definition cell := (bool * list nat)%type.
Definition part := list cell.

Definition verts (P : part) : list nat := concat (map snd P).

(* number of w in the splitter with v in neighbours[w] *)
Definition cnt (g : graph) (w : list nat) (v : nat) : nat :=
  length (filter (fun u => adjb g u v) w).

Definition uniform (g : graph) (w c : list nat) : bool :=
  match c with
  | [] => true
  | x :: r => forallb (fun v => cnt g w v =? cnt g w x) r
  end.

Definition fragment (g : graph) (w c : list nat) (k : nat) : list cell :=
  match filter (fun v => cnt g w v =? k) c with
  | [] => []
  | f => [(true, f)]
  end.

Definition fragments (g : graph) (w c : list nat) : list cell :=
  flat_map (fragment g w c) (seq 0 (S (length w))).

Definition split_cell (g : graph) (w : list nat) (c : cell) : list cell :=
  if uniform g w (snd c) then [c] else fragments g w (snd c).

(* remove the last index from binsToCheck and return the vertices of that bin *)
Fixpoint pick (P : part) : option (part * list nat) :=
  match P with
  | [] => None
  | c :: r =>
      match pick r with
      | Some (r', w) => Some (c :: r', w)
      | None => if fst c then Some ((false, snd c) :: r, snd c) else None
      end
  end.

Fixpoint refine_fuel (k : nat) (g : graph) (P : part) : option part :=
  match pick P with
  | None => Some P
  | Some (P', w) =>
      match k with
      | 0 => None                      (* out of fuel: excluded by refine_fuel_enough *)
      | S k' => refine_fuel k' g (flat_map (split_cell g w) P')
      end
  end.

Definition refine (g : graph) (P : part) : option part :=
  refine_fuel (2 * length (verts P) + length P) g P.

(* NewOrderedPartition: one bin 0..n-1 (no bin at all for n = 0), or the vertex classes, each
   sorted; every initial bin is in binsToCheck *)
Fixpoint insert (x : nat) (l : list nat) : list nat :=
  match l with
  | [] => [x]
  | y :: r => if x <=? y then x :: l else y :: insert x r
  end.
Definition isort (l : list nat) : list nat := fold_right insert [] l.

Definition init_part (n : nat) : part :=
  match n with 0 => [] | _ => [(true, seq 0 n)] end.
Definition init_classes (cls : list (list nat)) : part :=
  map (fun c => (true, isort c)) cls.

(* the first cell with more than one element: (cells before, its vertices, cells after) *)
Fixpoint target (P : part) : option (part * list nat * part) :=
  match P with
  | [] => None
  | c :: r =>
      match snd c with
      | _ :: _ :: _ => Some ([], snd c, r)
      | _ => match target r with
             | Some (b, t, a) => Some (c :: b, t, a)
             | None => None
             end
      end
  end.

(* splitBin on the position of v in the target cell *)
Definition indiv (b : part) (c : list nat) (a : part) (v : nat) : part :=
  b ++ (true, [v]) :: (true, filter (fun u => negb (u =? v)) c) :: a.

(* individualise the element at index k of the target cell (hook VerifRefine) *)
Definition indiv_at (P : part) (k : nat) : option part :=
  match target P with
  | None => None
  | Some (b, c, a) =>
      match nth_error c k with
      | None => None
      | Some v => Some (indiv b c a v)
      end
  end.

(* all leaves of the unpruned tree below a refined partition; [None] = out of fuel *)
Fixpoint leaves (d : nat) (g : graph) (P : part) : list (option (list nat)) :=
  match target P with
  | None => [Some (verts P)]
  | Some (b, c, a) =>
      match d with
      | 0 => [None]
      | S d' =>
          flat_map (fun v => match refine g (indiv b c a v) with
                             | None => [None]
                             | Some Q => leaves d' g Q
                             end) c
      end
  end.

(* certificate *)
Fixpoint upper (g : graph) (acc p : list nat) : list bool :=
  match p with
  | [] => []
  | x :: r => map (fun u => adjb g u x) acc ++ upper g (acc ++ [x]) r
  end.

(* the upper triangle decides; the whole matrix follows so that equal keys mean equal relabelled
   graphs for every square matrix (on simple graphs it adds nothing) *)
Definition key (g : graph) (p : list nat) : list bool :=
  upper g [] p ++ concat (relabel g p).

Fixpoint lexleb (a b : list bool) : bool :=
  match a, b with
  | [], _ => true
  | _ :: _, [] => false
  | x :: a', y :: b' =>
      if Bool.eqb x y then lexleb a' b' else negb x
  end.

Fixpoint best (g : graph) (cur : list nat) (l : list (list nat)) : list nat :=
  match l with
  | [] => cur
  | p :: r => best g (if lexleb (key g cur) (key g p) then cur else p) r
  end.

Fixpoint all_some (A : Type) (l : list (option A)) : option (list A) :=
  match l with
  | [] => Some []
  | None :: _ => None
  | Some x :: r => match all_some A r with Some r' => Some (x :: r') | None => None end
  end.
Arguments all_some {A} l.

Definition all_leaves (g : graph) : option (list (list nat)) :=
  match refine g (init_part (length g)) with
  | None => None
  | Some P => all_some (leaves (length g) g P)
  end.

Definition canon_ref (g : graph) : option (list nat) :=
  match all_leaves g with
  | Some (p :: r) => Some (best g p r)
  | _ => None
  end.

Definition canon_graph (g : graph) : option graph :=
  match canon_ref g with Some p => Some (relabel g p) | None => None end.

(* observation of the refinement alone (hook VerifRefine): refine the initial partition, then
   individualise and refine for each pick; the partitions after each refinement *)
Fixpoint refine_run (g : graph) (P : part) (picks : list nat) : list (option part) :=
  match refine g P with
  | None => [None]
  | Some Q =>
      Some Q ::
      match picks with
      | [] => []
      | k :: ks => match indiv_at Q k with
                   | None => []
                   | Some Q' => refine_run g Q' ks
                   end
      end
  end.
