(* Canon/SearchVCT.v — the verification conditions of Canon/SearchHoare.v for the first layer of the
   invariant (Canon/SearchInvT.v). *)
From Coq Require Import List Arith Bool ZArith Lia Permutation Sorted.
From Mamba Require Import Canon.Perm Canon.Iso Canon.Model Canon.Refine Canon.Sorted Canon.Tree Canon.Fuel
  Disjoint.Model Canon.SearchModel Canon.SearchHoare Canon.SearchCells Canon.SearchTarget
  Canon.SearchDeage Canon.SearchRefine Canon.SearchExec Canon.SearchValue Canon.SearchInvT.
Import ListNotations.
Open Scope nat_scope.

Lemma pstate_eta : forall ps, ps = mkP (p_cells ps) (p_age ps) (p_value ps) (p_spl ps).
Proof. intros []. reflexivity. Qed.

Lemma set_ps_eta : forall st, set_ps st (s_ps st) = st.
Proof. intros []. reflexivity. Qed.

Lemma same_cell_refl : forall l, Forall2 same_cell l l.
Proof. induction l; constructor; [split; reflexivity|assumption]. Qed.

Lemma same_cell_trans : forall l1 l2 l3, Forall2 same_cell l1 l2 -> Forall2 same_cell l2 l3 -> Forall2 same_cell l1 l3.
Proof.
  intros l1 l2 l3 H. revert l3. induction H as [|x y l1 l2 [H1 H2] _ IH]; intros l3 H3; inversion H3; subst; constructor.
  - destruct H4 as [H4 H5]. split; congruence.
  - apply IH. assumption.
Qed.

Lemma Forall2_nth_error_r : forall (A B : Type) (Rel : A -> B -> Prop) l1 l2, Forall2 Rel l1 l2 ->
  forall k y, nth_error l2 k = Some y -> exists x, nth_error l1 k = Some x /\ Rel x y.
Proof.
  intros A B Rel l1 l2 H. induction H as [|x y l1 l2 Hxy _ IH]; intros k y0 Hk; [destruct k; discriminate|].
  destruct k; simpl in *; [inversion Hk; subst; eauto|apply IH; assumption].
Qed.

Lemma Forall2_nth_error_l : forall (A B : Type) (Rel : A -> B -> Prop) l1 l2, Forall2 Rel l1 l2 ->
  forall k x, nth_error l1 k = Some x -> exists y, nth_error l2 k = Some y /\ Rel x y.
Proof.
  intros A B Rel l1 l2 H. induction H as [|x y l1 l2 Hxy _ IH]; intros k x0 Hk; [destruct k; discriminate|].
  destruct k; simpl in *; [inversion Hk; subst; eauto|apply IH; assumption].
Qed.

Section VCT.
Variable g : graph.
Variables n m : nat.
Variable root : part.
Variable Xc : list acell -> Prop.
Hypothesis Xc_V : forall a cs cs', V a cs cs' -> Xc cs -> Xc cs'.

Notation node_ok := (node_ok g n root Xc).
Notation cur_ok := (cur_ok n Xc).
Notation stack_ok := (stack_ok g n root Xc).
Notation TPstep := (TPstep g n root Xc).
Notation TPtop := (TPtop g n root Xc).
Notation TPj := (TPj g n root Xc).
Notation TPref := (TPref g n root Xc).
Notation TPstepA := (TPstepA g n root Xc).
Notation TPtopA := (TPtopA g n root Xc).
Notation TPjA := (TPjA g n root Xc).
Notation TPrefA := (TPrefA g n root Xc).
Notation cb_ok := (cb_ok g n root).

(* ---------------------------------------------------------------- the target of a node *)

Lemma node_target : forall k P, node_ok k P ->
  exists b c a e sz, P = b ++ c :: a /\ Forall single b /\ length b = fns P /\ sz = length (cverts c) /\
    2 <= sz /\ first_big P 0 = Some (e, sz) /\ e - sz = fns P /\
    target (erase P) = Some (erase b, cverts c, erase a) /\
    (forall j, j < sz -> locate P (fns P + j) = Some (b, c, j, a)).
Proof.
  intros k P H. destruct (no_big _ _ _ _ _ _ H) as (e & sz & HB).
  destruct (first_big_spec _ _ _ _ (no_ne _ _ _ _ _ _ H) HB) as (b & c & a & -> & HS & Hsz & H2 & He & Hb).
  exists b, c, a, e, sz. repeat split; try assumption; try lia.
  - apply target_erase; [assumption|lia].
  - intros j Hj. rewrite <- Hb, <- (singles_order_length b HS). apply locate_found. lia.
Qed.

Lemma ages_neq : forall k P, ages_le (zl k) P -> Forall (fun p => cage p <> zl (S k)) P.
Proof.
  intros k P H. eapply Forall_impl; [|exact H]. intros c Hc. simpl in Hc. unfold zl in *. lia.
Qed.

(* deage of the child in progress gives the node on top of the stack back *)
Lemma deage_T : forall anc L ps P, 1 <= L -> cur_ok anc L false ps -> last_opt anc = Some P -> node_ok (L - 1) P ->
  deage ps = Ok (mkP P (zl L - 1)%Z (snd (deage_sv (fns P) (p_spl ps) (p_value ps)))
                   (fst (deage_sv (fns P) (p_spl ps) (p_value ps)))).
Proof.
  intros anc L ps P HL (HP & HN & HA & HX & Hage & Hages & HC) HPl HNo. rewrite HPl in HC.
  destruct HC as (HR & HF & c & Hc & Hca & _).
  destruct (node_target _ _ HNo) as (b & c0 & a & e & sz & EP & HS & Hb & _).
  assert (Hlt : fns P < length P) by (rewrite EP at 2; rewrite app_length; simpl; lia).
  rewrite <- Hage. apply (deage_child (p_age ps) (p_cells ps) P c ps); try assumption; try reflexivity.
  - rewrite Hage. exact HR.
  - apply (no_asc _ _ _ _ _ _ HNo).
  - apply (no_unfl _ _ _ _ _ _ HNo).
  - apply (no_ne _ _ _ _ _ _ HNo).
  - rewrite Hage. exact Hca.
Qed.

Lemma child_of_V : forall L cs cs' P, child_of L cs P -> V (zl L) cs cs' -> child_of L cs' P.
Proof.
  intros L cs cs' P (HR & HF & c & Hc & Hca & Hcs) HV. split; [eapply V_R; eassumption|].
  assert (Hlen : S (fns P) <= length cs).
  { apply nth_error_Some. rewrite Hc. discriminate. }
  destruct (V_prefix _ _ _ (S (fns P)) HV) as [H1 _].
  - intros k d Hk Hd. destruct (Nat.eq_dec k (fns P)) as [->|Hne]; [rewrite Hc in Hd; inversion Hd; subst; exact Hcs|].
    assert (Hk' : k < fns P) by lia.
    assert (HFk : nth_error (firstn (fns P) cs) k = Some d) by (rewrite nth_error_firstn; assumption).
    destruct (Forall2_nth_error_r _ _ _ _ _ HF _ _ HFk) as (p & Hp & [_ Hpd]).
    rewrite nth_error_firstn in Hp by assumption. destruct (fns_prefix _ _ _ Hk' Hp) as [x Hx].
    exists x. rewrite <- Hpd. exact Hx.
  - exact Hlen.
  - split.
    + eapply same_cell_trans; [exact HF|]. eapply (Forall2_firstn_le _ _ _ (fns P) (S (fns P))); [lia|exact H1].
    + assert (HN : nth_error (firstn (S (fns P)) cs) (fns P) = Some c) by (rewrite nth_error_firstn; [exact Hc|lia]).
      destruct (Forall2_nth_error_l _ _ _ _ _ H1 _ _ HN) as (c' & Hc' & [Ha Hv]).
      rewrite nth_error_firstn in Hc' by lia. exists c'. split; [exact Hc'|]. split; [rewrite <- Ha; exact Hca|].
      destruct Hcs as [x Hx]. exists x. rewrite <- Hv. exact Hx.
Qed.

(* ---------------------------------------------------------------- the easy conditions *)

Lemma VCT_worse : forall st, TPtop st true -> TPstep st.
Proof. intros st [H _]. exact H. Qed.

Lemma VCT_jstartA : forall anc st top, TPstepA anc st -> last_opt (s_path st) = Some top -> TPjA anc st top.
Proof.
  intros anc st top (HS & HC & HT & HCb) E.
  split; [exact HS|]. split; [exact HC|]. split; [|split; [|exact HCb]].
  - intros HN. rewrite HN in E. discriminate.
  - apply HT. exact E.
Qed.

Lemma VCT_jstart : forall st top, TPstep st -> last_opt (s_path st) = Some top -> TPj st top.
Proof. intros st top (anc & H) E. exists anc. apply VCT_jstartA; assumption. Qed.

Lemma stack_ok_lengths : forall anc path choices, stack_ok anc path choices ->
  length anc = length path /\ length choices = length path.
Proof. intros anc path choices (H1 & H2 & _). split; assumption. Qed.

Definition push_anc (anc : list (list acell)) (st : sstate) : list (list acell) :=
  match first_big (p_cells (s_ps st)) 0 with
  | Some _ => anc ++ [p_cells (s_ps st)]
  | None => anc
  end.

Lemma VCT_pushA : forall anc st, TPtopA anc st false -> TPstepA (push_anc anc st) (push_step st).
Proof.
  intros anc st [(HS & HC & HT & HCb) [Hsk HW]]. destruct (HW eq_refl) as [HU HD]. clear HW.
  unfold push_step, push_anc. destruct (first_big (p_cells (s_ps st)) 0) as [[e sz]|] eqn:EB.
  2:{ split; [exact HS|]. split; [exact HC|]. split; [exact HT|exact HCb]. }
  rewrite Hsk in HC. destruct HC as (HP & HN & HA & HX & Hage & Hages & HCh).
  destruct HS as (HL1 & HL2 & HNo & HCn & HCo).
  set (L := length (s_path st)) in *. set (cells := p_cells (s_ps st)) in *.
  assert (Hnode : node_ok L cells).
  { constructor; try assumption. eauto. }
  destruct (first_big_spec _ _ _ _ HN EB) as (b & c & a & Ecs & HSb & Hsz & H2 & He & Hb).
  unfold SearchInvT.TPstepA. cbn [set_skip set_stack s_path s_choices s_skip s_ps]. split; [|split; [|split]].
  - (* stack_ok *)
    split; [rewrite !app_length; simpl; lia|]. split; [rewrite !app_length; simpl; lia|]. split; [|split].
    + intros k P HkP. destruct (Nat.lt_ge_cases k (length anc)) as [Hk|Hk].
      * rewrite nth_error_app1 in HkP by assumption. apply HNo. exact HkP.
      * rewrite nth_error_app2 in HkP by assumption. destruct (k - length anc) eqn:Ek; simpl in HkP.
        -- inversion HkP; subst P. replace k with L by lia. exact Hnode.
        -- destruct n0; discriminate.
    + intros k P P' HkP HkP'. destruct (Nat.lt_ge_cases (S k) (length anc)) as [Hk|Hk].
      * rewrite nth_error_app1 in HkP by lia. rewrite nth_error_app1 in HkP' by lia. eapply HCn; eassumption.
      * assert (S k = length anc).
        { assert (S k < length (anc ++ [cells])) by (apply nth_error_Some; rewrite HkP'; discriminate).
          rewrite app_length in H. simpl in H. lia. }
        rewrite nth_error_app1 in HkP by lia. rewrite nth_error_app2 in HkP' by lia.
        replace (S k - length anc) with 0 in HkP' by lia. simpl in HkP'. inversion HkP'; subst P'.
        assert (HlP : last_opt anc = Some P) by (rewrite last_opt_nth; replace (length anc - 1) with k by lia; exact HkP).
        rewrite HlP in HCh. replace (S k) with L by lia. exact HCh.
    + intros k P Hk HkP. rewrite app_length in Hk. simpl in Hk.
      rewrite nth_error_app1 in HkP by lia.
      destruct (Nat.lt_ge_cases (S k) L) as [Hk'|Hk'].
      * destruct (HCo k P Hk' HkP) as (e0 & sz0 & pj & H1 & H3 & H4 & H5).
        exists e0, sz0, pj. repeat split; try assumption.
        -- rewrite nth_error_app1; [assumption|apply nth_error_Some; rewrite H3; discriminate].
        -- rewrite nth_error_app1; [assumption|apply nth_error_Some; rewrite H4; discriminate].
      * assert (Ek : k = L - 1) by lia.
        assert (HlP : last_opt anc = Some P) by (rewrite last_opt_nth; replace (length anc - 1) with k by lia; exact HkP).
        assert (exists top, last_opt (s_path st) = Some top) as [top Etop].
        { rewrite last_opt_nth. destruct (nth_error (s_path st) (length (s_path st) - 1)) eqn:E; [eauto|].
          apply nth_error_None in E. fold L in E. lia. }
        specialize (HT top Etop). unfold top_ok in HT. rewrite HlP, Hsk in HT.
        destruct HT as (e0 & sz0 & H1 & H3 & H4 & H5). exists e0, sz0, top. repeat split; try assumption.
        -- rewrite nth_error_app1 by (fold L; lia). rewrite last_opt_nth in Etop. fold L in Etop. rewrite Ek. exact Etop.
        -- rewrite nth_error_app1 by lia. rewrite last_opt_nth in H3. rewrite HL2 in H3. fold L in H3. rewrite Ek. exact H3.
        -- apply H5. reflexivity.
  - (* cur_ok *)
    split; [exact HP|]. split; [exact HN|]. split; [exact HA|]. split; [exact HX|]. exists cells. split; [apply last_opt_app|].
    split; [reflexivity|]. rewrite app_length. simpl. rewrite Hage. unfold zl. lia.
  - (* top_ok *)
    intros top Etop. rewrite last_opt_app in Etop. inversion Etop; subst top.
    unfold top_ok. rewrite last_opt_app. exists e, sz. split; [exact EB|]. split; [|split; [lia|discriminate]].
    rewrite last_opt_app. f_equal. lia.
  - exact HCb.
Qed.

Lemma VCT_push : forall st, TPtop st false -> TPstep (push_step st).
Proof.
  intros st [(anc & H) [Hsk HW]]. exists (push_anc anc st). apply VCT_pushA. split; [exact H|]. split; assumption.
Qed.

(* ---------------------------------------------------------------- popping the stack *)

Lemma nth_removelast : forall (A : Type) (l : list A) k, S k < length l -> nth_error (removelast l) k = nth_error l k.
Proof. intros A l k H. rewrite removelast_firstn_len'. apply nth_error_firstn. lia. Qed.

Lemma nth_removelast_inv : forall (A : Type) (l : list A) k x, nth_error (removelast l) k = Some x ->
  nth_error l k = Some x /\ S k < length l.
Proof.
  intros A l k x H. assert (Hk : k < length (removelast l)) by (apply nth_error_Some; rewrite H; discriminate).
  rewrite removelast_length in Hk. rewrite nth_removelast in H by lia. split; [exact H|lia].
Qed.

Lemma stack_pop : forall anc path choices, stack_ok anc path choices ->
  stack_ok (removelast anc) (removelast path) (removelast choices).
Proof.
  intros anc path choices (HL1 & HL2 & HNo & HCn & HCo).
  split; [rewrite !removelast_length; lia|]. split; [rewrite !removelast_length; lia|]. split; [|split].
  - intros k P H. apply nth_removelast_inv in H. apply HNo. tauto.
  - intros k P P' H H'. apply nth_removelast_inv in H. apply nth_removelast_inv in H'.
    eapply HCn; [apply H|apply H'].
  - intros k P Hk H. rewrite removelast_length in Hk. apply nth_removelast_inv in H. destruct H as [H _].
    destruct (HCo k P ltac:(lia) H) as (e & sz & pj & H1 & H2 & H3 & H4).
    exists e, sz, pj. repeat split; try assumption; rewrite nth_removelast; try assumption; lia.
Qed.

Lemma last_removelast : forall (A : Type) (l : list A) x, last_opt (removelast l) = Some x ->
  nth_error l (length l - 2) = Some x /\ 2 <= length l.
Proof.
  intros A l x H. rewrite last_opt_nth, removelast_length in H. apply nth_removelast_inv in H.
  destruct H as [H1 H2]. replace (length l - 2) with (length l - 1 - 1) by lia. split; [exact H1|lia].
Qed.

Lemma cur_pop : forall anc path choices P v s, stack_ok anc path choices -> last_opt anc = Some P ->
  cur_ok (removelast anc) (length path - 1) false (mkP P (zl (length path) - 1)%Z v s).
Proof.
  intros anc path choices P v s (HL1 & HL2 & HNo & HCn & HCo) HP.
  pose proof (last_opt_some_length _ _ _ HP) as HLa.
  rewrite last_opt_nth in HP. pose proof (HNo _ _ HP) as HN.
  split; [apply (no_perm _ _ _ _ _ _ HN)|]. split; [apply (no_ne _ _ _ _ _ _ HN)|]. split; [apply (no_asc _ _ _ _ _ _ HN)|].
  split; [apply (no_X _ _ _ _ _ _ HN)|].
  cbn [p_age p_cells]. split; [unfold zl; lia|]. split; [rewrite <- HL1; apply (no_ages _ _ _ _ _ _ HN)|].
  destruct (last_opt (removelast anc)) as [P'|] eqn:E; [|exact I].
  apply last_removelast in E. destruct E as [E HL].
  replace (length path - 1) with (S (length anc - 2)) by lia. eapply HCn; [exact E|].
  replace (S (length anc - 2)) with (length anc - 1) by lia. exact HP.
Qed.

Lemma top_pop : forall anc path choices top, stack_ok anc path choices ->
  last_opt (removelast path) = Some top -> top_ok (removelast anc) (removelast choices) top false.
Proof.
  intros anc path choices top (HL1 & HL2 & HNo & HCn & HCo) Htop. unfold top_ok.
  apply last_removelast in Htop. destruct Htop as [Htop HL].
  destruct (last_opt (removelast anc)) as [P'|] eqn:E; [|exact I].
  apply last_removelast in E. destruct E as [E _].
  destruct (HCo (length path - 2) P' ltac:(lia)) as (e & sz & pj & H1 & H2 & H3 & H4); [rewrite <- HL1; exact E|].
  rewrite Htop in H2. inversion H2; subst pj. exists e, sz. split; [exact H1|]. split; [|split; [lia|intros _; exact H4]].
  rewrite last_opt_nth, removelast_length, nth_removelast by lia.
  replace (length choices - 1 - 1) with (length path - 2) by lia. exact H3.
Qed.

(* what undo leaves: the node on top of the stack *)
Definition undo_sv (skip : bool) (b spl : nat) (v : list nat) : nat * list nat :=
  if skip then (spl, v) else deage_sv b spl v.

Lemma undo_T : forall st st1 anc, stack_ok anc (s_path st) (s_choices st) ->
  cur_ok anc (length (s_path st)) (s_skip st) (s_ps st) -> s_path st <> [] -> undo st = Ok st1 ->
  exists P, last_opt anc = Some P /\ node_ok (length (s_path st) - 1) P /\
    st1 = set_skip (set_ps st (mkP P (zl (length (s_path st)) - 1)%Z
             (snd (undo_sv (s_skip st) (fns P) (p_spl (s_ps st)) (p_value (s_ps st))))
             (fst (undo_sv (s_skip st) (fns P) (p_spl (s_ps st)) (p_value (s_ps st)))))) false.
Proof.
  intros st st1 anc HS HC Hne HU. destruct HS as (HL1 & HL2 & HNo & HCn & HCo).
  assert (HL : 1 <= length (s_path st)) by (destruct (s_path st); [congruence|simpl; lia]).
  destruct (last_opt anc) as [P|] eqn:EP; [|apply last_opt_none in EP; subst anc; simpl in HL1; lia].
  assert (HN : node_ok (length (s_path st) - 1) P).
  { rewrite <- HL1. apply HNo. rewrite <- last_opt_nth. exact EP. }
  exists P. split; [reflexivity|]. split; [exact HN|].
  destruct (undo_cases _ _ HU) as [[Hsk ->]|[Hsk (ps' & HD & ->)]].
  - rewrite Hsk in *. destruct HC as (_ & _ & _ & _ & P0 & HP0 & Hcells & Hage). rewrite EP in HP0. injection HP0 as HP0.
    rewrite <- HP0 in Hcells. unfold undo_sv. cbn [fst snd]. rewrite <- Hcells, <- Hage, <- pstate_eta, set_ps_eta. reflexivity.
  - rewrite Hsk in *. rewrite (deage_T anc _ _ P HL HC EP HN) in HD. inversion HD; subst ps'.
    unfold undo_sv. destruct st; simpl in *; subst; reflexivity.
Qed.

Lemma TPstepA_ext : forall anc st st', s_ps st' = s_ps st -> s_path st' = s_path st -> s_choices st' = s_choices st ->
  s_skip st' = s_skip st -> s_cb st' = s_cb st -> s_cbPerm st' = s_cbPerm st -> TPstepA anc st -> TPstepA anc st'.
Proof.
  intros anc st st' E1 E2 E3 E4 E5 E6 (HS & HC & HT & HCb). unfold SearchInvT.TPstepA, cb_ok in *.
  rewrite E1, E2, E3, E4, E5, E6. auto.
Qed.

Lemma TPstep_ext : forall st st', s_ps st' = s_ps st -> s_path st' = s_path st -> s_choices st' = s_choices st ->
  s_skip st' = s_skip st -> s_cb st' = s_cb st -> s_cbPerm st' = s_cbPerm st -> TPstep st -> TPstep st'.
Proof. intros st st' E1 E2 E3 E4 E5 E6 (anc & H). exists anc. eapply TPstepA_ext; eassumption. Qed.

Lemma VCT_jexitA : forall anc st st1, TPjA anc st 0 -> undo st = Ok st1 -> TPstepA (removelast anc) (pop st1).
Proof.
  intros anc st st1 (HS & HC & Hne & HT & HCb) HU.
  destruct (undo_T _ _ _ HS HC Hne HU) as (P & EP & HN & ->).
  unfold SearchInvT.TPstepA, pop. cbn [set_stack set_skip set_ps s_path s_choices s_skip s_ps].
  split; [apply stack_pop; exact HS|]. split; [|split].
  - rewrite removelast_length. eapply cur_pop; eassumption.
  - intros top Htop. eapply top_pop; eassumption.
  - exact HCb.
Qed.

Lemma VCT_jexit : forall st st1, TPj st 0 -> undo st = Ok st1 -> TPstep (pop st1).
Proof. intros st st1 (anc & H) HU. exists (removelast anc). eapply VCT_jexitA; eassumption. Qed.

(* ---------------------------------------------------------------- one iteration of jLoop *)

Lemma stack_set_last : forall anc path choices j pos, stack_ok anc path choices ->
  stack_ok anc (set_last path j) (set_last choices pos).
Proof.
  intros anc path choices j pos (HL1 & HL2 & HNo & HCn & HCo).
  split; [rewrite set_last_length; exact HL1|]. split; [rewrite !set_last_length; exact HL2|].
  split; [exact HNo|]. split; [exact HCn|].
  intros k P Hk H. rewrite set_last_length in Hk.
  destruct (HCo k P Hk H) as (e & sz & pj & H1 & H2 & H3 & H4).
  exists e, sz, pj. repeat split; try assumption; rewrite set_last_nth; try assumption; lia.
Qed.


(* the state after splitBin at position fns P + j of the node P *)
Lemma split_T : forall L P cb fl v s j w ps', 1 <= L -> node_ok (L - 1) P ->
  (exists e sz, first_big P 0 = Some (e, sz) /\ j < sz) ->
  split_bin g n m cb fl (mkP P (zl L - 1)%Z v s) (fns P + j) = Ok (w, ps') ->
  Permutation (order_of (p_cells ps')) (seq 0 n) /\ nonempty (p_cells ps') /\ casc (p_cells ps') /\
  Xc (p_cells ps') /\ p_age ps' = zl L /\ ages_le (zl L) (p_cells ps') /\ child_of L (p_cells ps') P /\
  exists b c a x, target (erase P) = Some (b, c, a) /\ nth_error c j = Some x /\ erase (p_cells ps') = indiv b c a x.
Proof.
  intros L P cb fl v s j w ps' HL HN (e & sz & HB & Hj) HSp.
  destruct (node_target _ _ HN) as (b & c & a & e' & sz' & EP & HS & Hb & Hsz & H2 & HB' & He & HT & HLoc).
  rewrite HB in HB'. injection HB' as E1 E2.
  assert (Hj' : j < sz') by lia.
  destruct (split_bin_spec _ _ _ _ _ _ _ _ _ _ _ _ _ HSp (HLoc j Hj') ltac:(lia)) as (x & Hx & Hcs & Hage & HV).
  cbn [p_cells p_age] in *.
  assert (Ez : (zl L - 1 + 1)%Z = zl L) by lia. rewrite Ez in *.
  pose proof (no_perm _ _ _ _ _ _ HN) as HPm. pose proof (no_ne _ _ _ _ _ _ HN) as HNe.
  pose proof (no_asc _ _ _ _ _ _ HN) as HAs. pose proof (no_ages _ _ _ _ _ _ HN) as HAg.
  split; [eapply perm_trans; [eapply V_order; exact HV|exact HPm]|].
  split; [eapply V_nonempty; eassumption|]. split; [eapply V_casc; eassumption|].
  split; [eapply Xc_V; [exact HV|apply (no_X _ _ _ _ _ _ HN)]|]. split; [exact Hage|].
  split.
  { eapply V_ages; [exact HV|lia|]. eapply Forall_impl; [|exact HAg]. intros d Hd. simpl in Hd. unfold zl in *. lia. }
  split.
  { split; [|split].
    - eapply V_R; [|exact HV]. apply R_refl. replace L with (S (L - 1)) by lia. apply ages_neq. exact HAg.
    - rewrite Hcs, <- Hb. rewrite EP. rewrite !firstn_app_exact. apply same_cell_refl.
    - rewrite Hcs, <- Hb. eexists. split; [apply nth_error_app_exact|]. split; [reflexivity|exists x; reflexivity]. }
  exists (erase b), (cverts c), (erase a), x. split; [exact HT|]. split; [exact Hx|].
  rewrite Hcs. unfold indiv. rewrite erase_app. simpl. f_equal. f_equal. f_equal. f_equal.
  apply remove_at_filter; [|exact Hx]. apply asc_NoDup.
  rewrite EP in HAs. apply Forall_app in HAs. destruct HAs as [_ HAs]. inversion HAs; subst. assumption.
Qed.

Lemma jbody_TA : forall anc st j st' ok, TPjA anc st (S j) -> jbody g n m j st = Ok (st', ok) ->
  if ok then TPrefA anc st' else TPjA anc st' j.
Proof.
  intros anc st j st' ok (HS & HC & Hne & HT & HCb) HJ.
  destruct (jbody_cases _ _ _ _ _ _ _ HJ) as (st1 & pos & v & fo & b1 & HU & HLc & Hv & Hh1 & Hrest).
  destruct (undo_T _ _ _ HS HC Hne HU) as (P & EP & HN & Est1).
  set (L := length (s_path st)) in *.
  assert (HL : 1 <= L) by (unfold L; destruct (s_path st); [congruence|simpl; lia]).
  unfold top_ok in HT. rewrite EP in HT. destruct HT as (e & sz & HB & HLch & Hjs & _).
  assert (Epath : s_path st1 = s_path st) by (rewrite Est1; reflexivity).
  assert (Ech : s_choices st1 = s_choices st) by (rewrite Est1; reflexivity).
  rewrite Ech, HLch in HLc. inversion HLc as [Epos].
  destruct (node_target _ _ HN) as (b0 & c0 & a0 & e' & sz' & _ & _ & _ & _ & _ & HB' & He & _).
  rewrite HB in HB'. inversion HB'; subst e' sz'. clear HB'.
  assert (Epos' : pos = fns P + j) by lia.
  assert (Hchne : s_choices st <> []) by (intros E; rewrite E in HLch; discriminate).
  set (ps1 := mkP P (zl L - 1)%Z
          (snd (undo_sv (s_skip st) (fns P) (p_spl (s_ps st)) (p_value (s_ps st))))
          (fst (undo_sv (s_skip st) (fns P) (p_spl (s_ps st)) (p_value (s_ps st))))) in *.
  assert (Eps1 : s_ps st1 = ps1) by (rewrite Est1; reflexivity).
  assert (HSkip : forall stx, s_ps stx = ps1 -> s_path stx = s_path st -> s_choices stx = set_last (s_choices st) pos ->
            s_skip stx = true -> s_cb stx = s_cb st -> s_cbPerm stx = s_cbPerm st -> TPjA anc stx j).
  { intros stx E1 E2 E3 E4 E5 E6. unfold SearchInvT.TPjA, cb_ok. rewrite E1, E2, E3, E4, E5, E6.
    split.
    - destruct HS as (G1 & G2 & G3 & G4 & G5).
      split; [exact G1|]. split; [rewrite set_last_length; exact G2|]. split; [exact G3|]. split; [exact G4|].
      intros k P0 Hk HP0. destruct (G5 k P0 Hk HP0) as (e0 & sz0 & pj & K1 & K2 & K3 & K4).
      exists e0, sz0, pj. repeat split; try assumption. rewrite set_last_nth; [assumption|lia].
    - split; [|split; [exact Hne|split; [|exact HCb]]].
      + split; [apply (no_perm _ _ _ _ _ _ HN)|]. split; [apply (no_ne _ _ _ _ _ _ HN)|]. split; [apply (no_asc _ _ _ _ _ _ HN)|].
        split; [apply (no_X _ _ _ _ _ _ HN)|].
        exists P. split; [exact EP|]. split; reflexivity.
      + unfold top_ok. rewrite EP. exists e, sz. split; [exact HB|]. split; [|split; [lia|discriminate]].
        rewrite set_last_last by exact Hchne. f_equal. lia. }
  cbv zeta in Hrest. destruct Hrest as [(-> & -> & ->)|(-> & co & b2 & Hh2 & Hrest)].
  { apply HSkip; try reflexivity; rewrite Est1; reflexivity. }
  destruct Hrest as [(-> & -> & ->)|(-> & w & ps' & HSp & -> & ->)].
  { apply HSkip; try reflexivity; rewrite Est1; reflexivity. }
  (* splitBin *)
  rewrite Eps1, Epos' in HSp. unfold ps1 in HSp.
  destruct (split_T L P _ _ _ _ j w ps' HL HN ltac:(exists e, sz; split; [exact HB|lia]) HSp)
    as (K1 & K2 & K3 & KX & K4 & K5 & K6 & bb & cc & aa & x & K7 & K8 & K9).
  set (st5 := set_stack (set_ps (set_cbOrb (set_flOrb (set_stack st1 (s_path st1) (set_last (s_choices st1) pos)) fo) co) ps')
                   (set_last (s_path st1) j) (set_last (s_choices st1) pos)).
  assert (F1 : s_path st5 = set_last (s_path st) j) by (unfold st5; cbn; rewrite Epath; reflexivity).
  assert (F2 : s_choices st5 = set_last (s_choices st) pos) by (unfold st5; cbn; rewrite Ech; reflexivity).
  assert (F3 : s_skip st5 = false) by (unfold st5; rewrite Est1; reflexivity).
  assert (F4 : s_ps st5 = ps') by reflexivity.
  assert (F5 : cb_ok st5) by (unfold cb_ok, st5 in *; rewrite Est1; cbn; exact HCb).
  assert (G1 : stack_ok anc (s_path st5) (s_choices st5)) by (rewrite F1, F2; apply stack_set_last; exact HS).
  assert (G2 : cur_ok anc (length (s_path st5)) (s_skip st5) (s_ps st5)).
  { rewrite F1, F3, F4, set_last_length. fold L.
    split; [exact K1|]. split; [exact K2|]. split; [exact K3|]. split; [exact KX|]. split; [exact K4|]. split; [exact K5|].
    rewrite EP. exact K6. }
  assert (G3 : top_ok anc (s_choices st5) j (s_skip st5)).
  { rewrite F2, F3. unfold top_ok. rewrite EP. exists e, sz. split; [exact HB|]. split; [|split; [lia|intros _; lia]].
    rewrite set_last_last by exact Hchne. f_equal. lia. }
  assert (G4 : s_path st5 <> []).
  { rewrite F1. intros E. apply (f_equal (@length nat)) in E. rewrite set_last_length in E. simpl in E. fold L in E. lia. }
  destruct w; cbn [negb].
  - split; [exact G1|]. split; [exact G2|]. split; [exact G4|]. split; [exact G3|exact F5].
  - split; [|split; [exact F3|]].
    + split; [exact G1|]. split; [exact G2|]. split; [|exact F5].
      intros top Htop. rewrite F1, set_last_last in Htop by exact Hne. inversion Htop; subst top. exact G3.
    + exists P, bb, cc, aa, x, j. split; [exact EP|]. split; [exact K7|].
      split; [rewrite F1; apply set_last_last; exact Hne|]. split; [exact K8|exact K9].
Qed.

Lemma jbody_T : forall st j st' ok, TPj st (S j) -> jbody g n m j st = Ok (st', ok) ->
  if ok then TPref st' else TPj st' j.
Proof.
  intros st j st' ok (anc & H) HJ. pose proof (jbody_TA anc st j st' ok H HJ) as HR. destruct ok.
  - eapply TPrefA_ref. exact HR.
  - exists anc. exact HR.
Qed.

Lemma VCT_jcont : forall st j st', TPj st (S j) -> jbody g n m j st = Ok (st', false) -> TPj st' j.
Proof. intros st j st' H HJ. apply (jbody_T st j st' false H HJ). Qed.

Lemma VCT_jstep : forall st j st', TPj st (S j) -> jbody g n m j st = Ok (st', true) -> TPref st'.
Proof. intros st j st' H HJ. apply (jbody_T st j st' true H HJ). Qed.

(* ---------------------------------------------------------------- the refinement after a step *)

Lemma VCT_refineA : forall anc st w ps', TPrefA anc st ->
  refine_s g n m (s_cb st) (s_fl st) (s_ps st) = Ok (w, ps') -> TPtopA anc (set_ps st ps') w.
Proof.
  intros anc st w ps' [(HS & HC & HT & HCb) [Hsk (Pn & b & c & a & x & j & HP & HTg & Hj & Hx & HE)]] HR.
  destruct (refine_s_spec _ _ _ _ _ _ _ _ HR) as (HV & Hage & HW).
  rewrite Hsk in HC. destruct HC as (K1 & K2 & K3 & KX & K4 & K5 & K6).
  split; [|split; [exact Hsk|]].
  - unfold SearchInvT.TPstepA. cbn [set_ps s_path s_choices s_skip s_ps]. split; [exact HS|]. split; [|split; [exact HT|exact HCb]].
    rewrite Hsk. split; [eapply perm_trans; [eapply V_order; exact HV|exact K1]|].
    split; [eapply V_nonempty; eassumption|]. split; [eapply V_casc; eassumption|].
    split; [eapply Xc_V; eassumption|].
    split; [rewrite Hage; exact K4|]. split; [eapply V_ages; [exact HV|rewrite K4; lia|exact K5]|].
    destruct (last_opt anc) as [P|]; [|exact I]. eapply child_of_V; [exact K6|]. rewrite <- K4. exact HV.
  - intros Hw. destruct (HW Hw) as [HU HRf]. cbn [set_ps s_ps]. split; [exact HU|].
    rewrite HE in HRf. destruct HS as (_ & _ & HNo & _). rewrite last_opt_nth in HP.
    eapply rdesc_snoc; [apply (no_desc _ _ _ _ _ _ (HNo _ _ HP))|exact HTg|eapply nth_error_In; exact Hx|exact HRf].
Qed.

Lemma VCT_refine : forall st w ps', TPref st ->
  refine_s g n m (s_cb st) (s_fl st) (s_ps st) = Ok (w, ps') -> TPtop (set_ps st ps') w.
Proof.
  intros st w ps' [(anc & HS & HC & HT & HCb) [Hsk (P0 & b & c & a & x & HD & HTg & Hx & HE)]] HR.
  destruct (refine_s_spec _ _ _ _ _ _ _ _ HR) as (HV & Hage & HW).
  rewrite Hsk in HC. destruct HC as (K1 & K2 & K3 & KX & K4 & K5 & K6).
  split; [|split; [exact Hsk|]].
  - exists anc. unfold SearchInvT.TPstepA. cbn [set_ps s_path s_choices s_skip s_ps]. split; [exact HS|]. split; [|split; [exact HT|exact HCb]].
    rewrite Hsk. split; [eapply perm_trans; [eapply V_order; exact HV|exact K1]|].
    split; [eapply V_nonempty; eassumption|]. split; [eapply V_casc; eassumption|].
    split; [eapply Xc_V; eassumption|].
    split; [rewrite Hage; exact K4|]. split; [eapply V_ages; [exact HV|rewrite K4; lia|exact K5]|].
    destruct (last_opt anc) as [P|]; [|exact I]. eapply child_of_V; [exact K6|]. rewrite <- K4. exact HV.
  - intros Hw. destruct (HW Hw) as [HU HRf]. cbn [set_ps s_ps]. split; [exact HU|].
    rewrite HE in HRf. eapply rdesc_snoc; eassumption.
Qed.

(* ---------------------------------------------------------------- Heuristic 1: several deage *)

Lemma iter_removelast : forall (A : Type) d (l : list A), d <= length l ->
  Nat.iter d (@removelast A) l = firstn (length l - d) l.
Proof.
  intros A d. induction d as [|d IH]; intros l H; simpl.
  - rewrite Nat.sub_0_r, firstn_all. reflexivity.
  - rewrite IH by lia. rewrite removelast_firstn_len', firstn_length.
    replace (Nat.min (length l - d) (length l)) with (length l - d) by lia.
    rewrite firstn_firstn. f_equal. lia.
Qed.

Lemma deage_n_T : forall d anc path choices ps ps', stack_ok anc path choices ->
  cur_ok anc (length path) false ps -> d <= length path -> deage_n d ps = Ok ps' ->
  stack_ok (firstn (length path - d) anc) (firstn (length path - d) path) (firstn (length path - d) choices) /\
  cur_ok (firstn (length path - d) anc) (length path - d) false ps' /\
  (1 <= d -> forall top, last_opt (firstn (length path - d) path) = Some top ->
     top_ok (firstn (length path - d) anc) (firstn (length path - d) choices) top false).
Proof.
  induction d as [|d IH]; intros anc path choices ps ps' HS HC Hd HD; simpl in HD.
  - inversion HD; subst ps'. rewrite Nat.sub_0_r. pose proof (stack_ok_lengths _ _ _ HS) as [HL1 HL2].
    replace (firstn (length path) anc) with anc by (rewrite <- HL1; symmetry; apply firstn_all).
    replace (firstn (length path) choices) with choices by (rewrite <- HL2; symmetry; apply firstn_all).
    rewrite firstn_all. split; [exact HS|]. split; [exact HC|]. intros H. lia.
  - bind_inv HD. rename r into ps1.
    assert (HL : 1 <= length path) by lia.
    pose proof (stack_ok_lengths _ _ _ HS) as [HL1 HL2].
    destruct (last_opt anc) as [P|] eqn:EP; [|apply last_opt_none in EP; subst anc; simpl in HL1; lia].
    assert (HN : node_ok (length path - 1) P).
    { destruct HS as (_ & _ & HNo & _). rewrite <- HL1. apply HNo. rewrite <- last_opt_nth. exact EP. }
    rewrite (deage_T anc _ _ P HL HC EP HN) in E. inversion E; subst ps1.
    pose proof (stack_pop _ _ _ HS) as HS'.
    pose proof (cur_pop anc path choices P (snd (deage_sv (fns P) (p_spl ps) (p_value ps)))
                  (fst (deage_sv (fns P) (p_spl ps) (p_value ps))) HS EP) as HC'.
    clear E.
    assert (HLr : length (removelast path) = length path - 1) by apply removelast_length.
    rewrite <- HLr in HC'.
    destruct (IH _ _ _ _ _ HS' HC' ltac:(lia) HD) as (I1 & I2 & I3).
    rewrite HLr in *.
    assert (Efn : forall (A : Type) (l : list A), length l = length path ->
              firstn (length path - 1 - d) (removelast l) = firstn (length path - S d) l).
    { intros A l Hl. rewrite removelast_firstn_len', firstn_firstn, Hl. f_equal. lia. }
    rewrite (Efn _ anc HL1), (Efn _ path eq_refl), (Efn _ choices HL2) in *.
    replace (length path - 1 - d) with (length path - S d) in * by lia.
    split; [exact I1|]. split; [exact I2|]. intros _ top Htop.
    destruct d as [|d].
    + (* the last deage: top from the lower level *)
      replace (length path - 1) with (length path - 1) in * by lia.
      rewrite <- !removelast_firstn_len' in *.
      assert (E1 : firstn (length path - 1) anc = removelast anc) by (rewrite removelast_firstn_len', HL1; reflexivity).
      assert (E3 : firstn (length path - 1) choices = removelast choices) by (rewrite removelast_firstn_len', HL2; reflexivity).
      rewrite E1, E3. eapply top_pop; eassumption.
    + apply I3; [lia|exact Htop].
Qed.

Lemma back_jump_TA : forall anc st bp st', TPstepA anc st -> s_skip st = false -> back_jump st bp = Ok st' ->
  TPstepA (firstn (length (s_path st')) anc) st' /\ length (s_path st') <= length (s_path st) /\
  s_path st' = firstn (length (s_path st')) (s_path st).
Proof.
  intros anc st bp st' (HS & HC & HT & HCb) Hsk HB.
  destruct (back_jump_cases _ _ _ HB) as (keep & ps' & HK & HD & ->).
  destruct (h1_keep_bounds _ _ _ HK) as [Hk1 Hk2]. rewrite Hsk in HC.
  destruct (deage_n_T (length (s_path st) - keep) anc _ _ _ _ HS HC ltac:(lia) HD) as (I1 & I2 & I3).
  replace (length (s_path st) - (length (s_path st) - keep)) with keep in * by lia.
  cbn [set_stack set_ps s_path]. rewrite firstn_length. replace (Nat.min keep (length (s_path st))) with keep by lia.
  split; [|split; [lia|reflexivity]].
  unfold SearchInvT.TPstepA. cbn [set_stack set_ps s_path s_choices s_skip s_ps]. rewrite Hsk.
  split; [exact I1|]. split; [|split; [|exact HCb]].
  - rewrite firstn_length. replace (Nat.min keep (length (s_path st))) with keep by lia. exact I2.
  - intros top Htop. destruct (Nat.eq_dec keep (length (s_path st))) as [E|E].
    + subst keep. pose proof (stack_ok_lengths _ _ _ HS) as [HL1 HL2].
      rewrite firstn_all in Htop.
      replace (firstn (length (s_path st)) anc) with anc by (rewrite <- HL1; symmetry; apply firstn_all).
      replace (firstn (length (s_path st)) (s_choices st)) with (s_choices st) by (rewrite <- HL2; symmetry; apply firstn_all).
      rewrite <- Hsk. apply HT. exact Htop.
    + apply I3; [lia|exact Htop].
Qed.

Lemma back_jump_T : forall st bp st', TPstep st -> s_skip st = false -> back_jump st bp = Ok st' -> TPstep st'.
Proof. intros st bp st' (anc & H) Hsk HB. eexists. apply (back_jump_TA anc st bp st' H Hsk HB). Qed.

(* ---------------------------------------------------------------- a leaf *)

Lemma copy_into_length : forall (A : Type) (dst src : list A), length (copy_into dst src) = length dst.
Proof.
  intros A dst src. unfold copy_into. rewrite app_length, firstn_length, skipn_length. lia.
Qed.

Lemma copy_into_same_length : forall (A : Type) (dst src : list A), length dst = length src -> copy_into dst src = src.
Proof.
  intros A dst src H. unfold copy_into. rewrite H, firstn_all, skipn_all2 by lia. apply app_nil_r.
Qed.

Lemma record_gen_fields : forall st gam st', record_gen n st gam = Ok st' ->
  s_ps st' = s_ps st /\ s_path st' = s_path st /\ s_choices st' = s_choices st /\ s_skip st' = s_skip st /\
  s_cb st' = s_cb st /\ s_cbPerm st' = s_cbPerm st /\ s_cbPath st' = s_cbPath st /\ s_flPath st' = s_flPath st.
Proof.
  intros st gam st' H. destruct (record_gen_cases _ _ _ _ H) as (d & b & _ & [(_ & _ & ->)|(_ & ->)]); repeat split.
Qed.

Lemma firstn_same_length : forall (A B : Type) (l : list A) (l' : list B), length l = length l' -> firstn (length l') l = l.
Proof. intros A B l l' H. rewrite <- H. apply firstn_all. Qed.

Lemma VCT_leafA : forall anc st st', TPtopA anc st false -> length (p_cells (s_ps st)) = n ->
  leaf_step n m st = Ok st' ->
  TPstepA (firstn (length (s_path st')) anc) st' /\ length (s_path st') <= length (s_path st) /\
  s_path st' = firstn (length (s_path st')) (s_path st).
Proof.
  intros anc st st' [HStep [Hsk HW]] Hlen HLf. destruct (HW eq_refl) as [HU HD]. clear HW.
  assert (HLa : length anc = length (s_path st)) by (destruct HStep as ((H & _) & _); exact H).
  assert (Same : forall stx, s_ps stx = s_ps st -> s_path stx = s_path st -> s_choices stx = s_choices st ->
             s_skip stx = s_skip st -> cb_ok stx ->
             TPstepA (firstn (length (s_path stx)) anc) stx /\ length (s_path stx) <= length (s_path st) /\
             s_path stx = firstn (length (s_path stx)) (s_path st)).
  { intros stx E1 E2 E3 E4 HCbx. rewrite E2. rewrite (firstn_same_length _ _ anc (s_path st) HLa), firstn_all.
    split; [|split; [lia|reflexivity]]. destruct HStep as (HS & HCu & HT & _).
    unfold SearchInvT.TPstepA. rewrite E1, E2, E3, E4. auto. }
  destruct (leaf_step_cases _ _ _ _ HLf) as [(HC & cbInv & HI & ->)|[(HC & gam & d & b & st1 & HG & HO & HRg & HBj)|
    [(HC & HC2 & gam & st1 & HG & HRg & HBj)|(HC & HC2 & ->)]]].
  - (* new best leaf *)
    assert (F : forall x, s_path (new_best n m (bump st) x) = s_path st /\ s_choices (new_best n m (bump st) x) = s_choices st /\
               s_skip (new_best n m (bump st) x) = s_skip st /\ s_ps (new_best n m (bump st) x) = s_ps st /\
               s_cbPerm (new_best n m (bump st) x) = copy_into (s_cbPerm st) (order_of (p_cells (s_ps st)))).
    { intros x. unfold new_best. destruct (s_count (bump st) =? 1); repeat split. }
    destruct (F cbInv) as (F1 & F2 & F3 & F4 & F5). apply Same; try assumption.
    destruct HStep as (HS & HCu & HT & HCb).
    destruct HCb as [HCb1 _]. rewrite Hsk in HCu. destruct HCu as (K1 & K2 & _).
    assert (HLo : length (order_of (p_cells (s_ps st))) = n) by (rewrite (Permutation_length K1); apply seq_length).
    unfold cb_ok. rewrite F5. split; [rewrite copy_into_length; exact HCb1|]. intros _.
    exists (erase (p_cells (s_ps st))). split; [exact HD|]. split.
    + apply target_singles. apply discrete_singles; [exact K2|lia].
    + change (verts (erase (p_cells (s_ps st)))) with (order_of (p_cells (s_ps st))).
      apply copy_into_same_length. rewrite HLo. exact HCb1.
  - destruct (record_gen_fields _ _ _ HRg) as (E1 & E2 & E3 & E4 & E5 & E6 & _).
    assert (HS1 : TPstepA anc st1).
    { eapply TPstepA_ext; [exact E1|exact E2|exact E3|exact E4|exact E5|exact E6|].
      eapply TPstepA_ext; [| | | | | |exact HStep]; reflexivity. }
    destruct (back_jump_TA anc st1 _ st' HS1 ltac:(rewrite E4; exact Hsk) HBj) as (B1 & B2 & B3).
    rewrite E2 in B2, B3. cbn in B2, B3. auto.
  - destruct (record_gen_fields _ _ _ HRg) as (E1 & E2 & E3 & E4 & E5 & E6 & _).
    assert (HS1 : TPstepA anc st1).
    { eapply TPstepA_ext; [exact E1|exact E2|exact E3|exact E4|exact E5|exact E6|].
      eapply TPstepA_ext; [| | | | | |exact HStep]; reflexivity. }
    destruct (back_jump_TA anc st1 _ st' HS1 ltac:(rewrite E4; exact Hsk) HBj) as (B1 & B2 & B3).
    rewrite E2 in B2, B3. cbn in B2, B3. auto.
  - apply Same; try reflexivity. destruct HStep as (_ & _ & _ & HCb). exact HCb.
Qed.

Lemma VCT_leaf : forall st st', TPtop st false -> length (p_cells (s_ps st)) = n ->
  leaf_step n m st = Ok st' -> TPstep st'.
Proof.
  intros st st' [(anc & H) [Hsk HW]] Hlen HLf. eexists.
  apply (VCT_leafA anc st st' (conj H (conj Hsk HW)) Hlen HLf).
Qed.

Lemma VCT_done : forall st, TPstep st -> last_opt (s_path st) = None -> cb_ok st.
Proof. intros st (anc & _ & _ & _ & H) _. exact H. Qed.

(* ---------------------------------------------------------------- the first layer holds throughout *)

Theorem search_T : forall fuel st w p o gs, TPtop st w ->
  main_loop g n m fuel st w = Ok (p, o, gs) ->
  exists st', cb_ok st' /\ p = s_cbPerm st' /\ o = s_flOrb st' /\ gs = s_gens st'.
Proof.
  intros fuel st w p o gs HT HM.
  eapply (main_loop_outline g n m TPtop TPstep TPj TPref cb_ok); try eassumption.
  - exact VCT_leaf.
  - intros st0 H0 _. apply VCT_push. exact H0.
  - exact VCT_worse.
  - exact VCT_done.
  - exact VCT_jstart.
  - exact VCT_jexit.
  - exact VCT_jcont.
  - exact VCT_jstep.
  - exact VCT_refine.
Qed.

End VCT.
