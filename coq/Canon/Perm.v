(* Canon/Perm.v — permutations of 0..n-1 as lists of nat (owner: C01; imported read-only by C02).

   A permutation p of 0..n-1 is the list [p_0; ...; p_(n-1)]; [is_perm n p] decides it.
   [papp p i] = p_i (identity outside the list), [pcomp p q] = i |-> p_(q_i),
   [pinv p] = the inverse, [pid n] = the identity.  Definitions are small, total, computable. *)
From Coq Require Import List Arith Lia Permutation Bool.
Import ListNotations.

Fixpoint memb (x : nat) (l : list nat) : bool :=
  match l with [] => false | y :: r => (x =? y) || memb x r end.

Fixpoint nodupb (l : list nat) : bool :=
  match l with [] => true | x :: r => negb (memb x r) && nodupb r end.

Definition is_perm (n : nat) (p : list nat) : bool :=
  (length p =? n) && forallb (fun x => x <? n) p && nodupb p.

Definition papp (p : list nat) (i : nat) : nat := nth i p i.

Definition pcomp (p q : list nat) : list nat := map (papp p) q.

Fixpoint index_of (v : nat) (l : list nat) : nat :=
  match l with [] => 0 | x :: r => if x =? v then 0 else S (index_of v r) end.

Definition pinv (p : list nat) : list nat := map (fun v => index_of v p) (seq 0 (length p)).

Definition pid (n : nat) : list nat := seq 0 n.

(* ------------------------------------------------------------------ boolean reflections *)

Lemma memb_In : forall x l, memb x l = true <-> In x l.
Proof.
  induction l as [|y r IH]; simpl; [split; [discriminate|tauto]|].
  rewrite orb_true_iff, IH, Nat.eqb_eq. split; intros [H|H]; auto.
Qed.

Lemma nodupb_NoDup : forall l, nodupb l = true <-> NoDup l.
Proof.
  induction l as [|x r IH]; simpl; [split; [constructor|reflexivity]|].
  rewrite andb_true_iff, negb_true_iff, IH. split.
  - intros [H1 H2]. constructor; auto. rewrite <- memb_In. congruence.
  - intros H. inversion H; subst. split; auto.
    destruct (memb x r) eqn:E; auto. apply memb_In in E. contradiction.
Qed.

Lemma is_perm_spec : forall n p,
  is_perm n p = true <-> length p = n /\ (forall x, In x p -> x < n) /\ NoDup p.
Proof.
  intros n p. unfold is_perm.
  rewrite !andb_true_iff, Nat.eqb_eq, forallb_forall, nodupb_NoDup.
  split; intros [[H1 H2] H3] || intros [H1 [H2 H3]]; repeat split; auto.
  - intros x Hx. apply Nat.ltb_lt. auto.
  - intros x Hx. apply Nat.ltb_lt. auto.
Qed.

Lemma is_perm_Permutation : forall n p, is_perm n p = true <-> Permutation p (seq 0 n).
Proof.
  intros n p. rewrite is_perm_spec. split.
  - intros [H1 [H2 H3]]. apply NoDup_Permutation_bis; auto.
    + rewrite seq_length. lia.
    + intros x Hx. apply in_seq. specialize (H2 x Hx). lia.
  - intros H. split; [|split].
    + rewrite (Permutation_length H). apply seq_length.
    + intros x Hx. apply (Permutation_in _ H) in Hx. apply in_seq in Hx. lia.
    + apply (Permutation_NoDup (Permutation_sym H)). apply seq_NoDup.
Qed.

Lemma is_perm_length : forall n p, is_perm n p = true -> length p = n.
Proof. intros n p H. apply is_perm_spec in H. tauto. Qed.

Lemma is_perm_lt : forall n p x, is_perm n p = true -> In x p -> x < n.
Proof. intros n p x H. apply is_perm_spec in H. destruct H as [_ [H _]]. auto. Qed.

Lemma is_perm_NoDup : forall n p, is_perm n p = true -> NoDup p.
Proof. intros n p H. apply is_perm_spec in H. tauto. Qed.

Lemma is_perm_In : forall n p x, is_perm n p = true -> x < n -> In x p.
Proof.
  intros n p x H Hx. apply is_perm_Permutation in H.
  apply (Permutation_in _ (Permutation_sym H)). apply in_seq. lia.
Qed.

Lemma pid_perm : forall n, is_perm n (pid n) = true.
Proof. intros n. apply is_perm_Permutation. apply Permutation_refl. Qed.

(* ------------------------------------------------------------------ nth / seq helpers *)

Lemma map_nth_seq : forall (A : Type) (l : list A) (d : A),
  map (fun i => nth i l d) (seq 0 (length l)) = l.
Proof.
  intros A l d. apply (nth_ext _ _ d d).
  - rewrite map_length, seq_length. reflexivity.
  - intros k Hk. rewrite map_length, seq_length in Hk.
    rewrite (nth_indep _ d (nth 0 l d)) by (rewrite map_length, seq_length; exact Hk).
    rewrite (map_nth (fun i => nth i l d) (seq 0 (length l)) 0 k).
    rewrite seq_nth by exact Hk. reflexivity.
Qed.

Lemma nth_map_lt : forall (A B : Type) (f : A -> B) (l : list A) (i : nat) (d : B) (d' : A),
  i < length l -> nth i (map f l) d = f (nth i l d').
Proof.
  intros A B f l i d d' H.
  rewrite (nth_indep _ d (f d')) by (rewrite map_length; exact H).
  apply map_nth.
Qed.

Lemma papp_nth : forall p i d, i < length p -> papp p i = nth i p d.
Proof. intros p i d H. unfold papp. apply nth_indep. exact H. Qed.

Lemma map_papp_seq : forall p, map (papp p) (seq 0 (length p)) = p.
Proof.
  intros p. rewrite <- (map_nth_seq _ p 0) at 3.
  apply map_ext_in. intros i Hi. apply in_seq in Hi. apply papp_nth. lia.
Qed.

Lemma papp_pid : forall n i, papp (pid n) i = i.
Proof.
  intros n i. unfold papp, pid. destruct (Nat.lt_ge_cases i n).
  - rewrite seq_nth; auto.
  - apply nth_overflow. rewrite seq_length. lia.
Qed.

Lemma papp_In : forall p i, i < length p -> In (papp p i) p.
Proof. intros p i H. unfold papp. apply nth_In. exact H. Qed.

Lemma papp_lt : forall n p i, is_perm n p = true -> i < n -> papp p i < n.
Proof.
  intros n p i H Hi. apply (is_perm_lt n p); auto. apply papp_In.
  rewrite (is_perm_length _ _ H). exact Hi.
Qed.

(* ------------------------------------------------------------------ index_of *)

Lemma nth_index_of : forall v l d, In v l -> nth (index_of v l) l d = v.
Proof.
  induction l as [|x r IH]; simpl; intros d H; [contradiction|].
  destruct (x =? v) eqn:E.
  - apply Nat.eqb_eq in E. exact E.
  - apply Nat.eqb_neq in E. destruct H as [H|H]; [contradiction|]. apply IH. exact H.
Qed.

Lemma index_of_lt : forall v l, In v l -> index_of v l < length l.
Proof.
  induction l as [|x r IH]; simpl; intros H; [contradiction|].
  destruct (x =? v) eqn:E; [lia|].
  apply Nat.eqb_neq in E. destruct H as [H|H]; [contradiction|]. specialize (IH H). lia.
Qed.

Lemma index_of_nth : forall l i d, NoDup l -> i < length l -> index_of (nth i l d) l = i.
Proof.
  induction l as [|x r IH]; simpl; intros i d Hnd Hi; [lia|].
  inversion Hnd; subst. destruct i as [|i].
  - rewrite Nat.eqb_refl. reflexivity.
  - destruct (x =? nth i r d) eqn:E.
    + apply Nat.eqb_eq in E. exfalso. apply H1. rewrite E. apply nth_In. lia.
    + f_equal. apply IH; auto. lia.
Qed.

Lemma papp_pinv_papp : forall n p i, is_perm n p = true -> i < n ->
  papp (pinv p) (papp p i) = i.
Proof.
  intros n p i H Hi. pose proof (is_perm_length _ _ H) as HL.
  pose proof (papp_lt _ _ _ H Hi) as Hlt.
  unfold papp at 1. unfold pinv.
  rewrite (nth_map_lt _ _ _ _ _ _ 0) by (rewrite seq_length, HL; exact Hlt).
  rewrite seq_nth by (rewrite HL; exact Hlt). simpl.
  unfold papp. apply index_of_nth.
  - apply (is_perm_NoDup _ _ H).
  - rewrite HL. exact Hi.
Qed.

Lemma papp_papp_pinv : forall n p i, is_perm n p = true -> i < n ->
  papp p (papp (pinv p) i) = i.
Proof.
  intros n p i H Hi. pose proof (is_perm_length _ _ H) as HL.
  unfold papp at 2. unfold pinv.
  rewrite (nth_map_lt _ _ _ _ _ _ 0) by (rewrite seq_length, HL; exact Hi).
  rewrite seq_nth by (rewrite HL; exact Hi). simpl.
  unfold papp. rewrite (nth_indep _ _ 0).
  - apply nth_index_of. apply (is_perm_In _ _ _ H Hi).
  - apply index_of_lt. apply (is_perm_In _ _ _ H Hi).
Qed.

(* ------------------------------------------------------------------ group structure *)

Lemma pcomp_length : forall p q, length (pcomp p q) = length q.
Proof. intros. apply map_length. Qed.

Lemma pcomp_perm : forall n p q, is_perm n p = true -> is_perm n q = true ->
  is_perm n (pcomp p q) = true.
Proof.
  intros n p q Hp Hq. apply is_perm_Permutation.
  apply is_perm_Permutation in Hq.
  eapply Permutation_trans; [apply Permutation_map; exact Hq|].
  rewrite <- (is_perm_length _ _ Hp), map_papp_seq, (is_perm_length _ _ Hp).
  apply is_perm_Permutation. exact Hp.
Qed.

Lemma pcomp_pinv_r : forall n p, is_perm n p = true -> pcomp p (pinv p) = pid n.
Proof.
  intros n p H. pose proof (is_perm_length _ _ H) as HL.
  unfold pcomp, pinv, pid. rewrite map_map, HL.
  rewrite <- (map_id (seq 0 n)) at 2. apply map_ext_in.
  intros v Hv. apply in_seq in Hv. unfold papp. rewrite (nth_indep _ _ 0).
  - apply nth_index_of. apply (is_perm_In _ _ _ H). lia.
  - apply index_of_lt. apply (is_perm_In _ _ _ H). lia.
Qed.

Lemma NoDup_map_inj_in : forall (A B : Type) (f : A -> B) (l : list A),
  (forall a b, In a l -> In b l -> f a = f b -> a = b) -> NoDup l -> NoDup (map f l).
Proof.
  induction l as [|x r IH]; simpl; intros Hinj Hnd; [constructor|].
  inversion Hnd; subst. constructor.
  - intros Hin. apply in_map_iff in Hin. destruct Hin as [y [Hy Hin]].
    assert (y = x) by (apply Hinj; auto). subst y. contradiction.
  - apply IH; auto.
Qed.

Lemma pinv_length : forall p, length (pinv p) = length p.
Proof. intros. unfold pinv. rewrite map_length, seq_length. reflexivity. Qed.

Lemma pinv_perm : forall n p, is_perm n p = true -> is_perm n (pinv p) = true.
Proof.
  intros n p H. pose proof (is_perm_length _ _ H) as HL.
  apply is_perm_spec. split; [|split].
  - rewrite pinv_length. exact HL.
  - intros x Hx. unfold pinv in Hx. apply in_map_iff in Hx. destruct Hx as [v [Hv Hin]].
    apply in_seq in Hin. subst x. rewrite <- HL. apply index_of_lt.
    apply (is_perm_In _ _ _ H). lia.
  - unfold pinv. apply NoDup_map_inj_in; [|apply seq_NoDup].
    intros a b Ha Hb Hab. apply in_seq in Ha. apply in_seq in Hb.
    assert (Ia : In a p) by (apply (is_perm_In _ _ _ H); lia).
    assert (Ib : In b p) by (apply (is_perm_In _ _ _ H); lia).
    rewrite <- (nth_index_of a p 0 Ia), <- (nth_index_of b p 0 Ib), Hab. reflexivity.
Qed.

Lemma pcomp_pid_r : forall p, pcomp p (pid (length p)) = p.
Proof. intros p. unfold pcomp, pid. apply map_papp_seq. Qed.

Lemma pcomp_pid_l : forall n q, pcomp (pid n) q = q.
Proof.
  intros n q. unfold pcomp. rewrite <- (map_id q) at 2. apply map_ext. intros. apply papp_pid.
Qed.

Lemma pcomp_assoc : forall p q r, (forall x, In x r -> x < length q) ->
  pcomp (pcomp p q) r = pcomp p (pcomp q r).
Proof.
  intros p q r H. unfold pcomp. rewrite map_map. apply map_ext_in. intros x Hx.
  unfold papp at 1. rewrite (nth_map_lt _ _ _ _ _ _ x) by (apply H; exact Hx). reflexivity.
Qed.

(* non-vacuity *)
Example perm_example :
  is_perm 8 [7;3;1;2;4;5;0;6] = true /\ pinv [7;3;1;2;4;5;0;6] = [6;2;3;1;4;5;7;0] /\
  pcomp [7;3;1;2;4;5;0;6] (pinv [7;3;1;2;4;5;0;6]) = pid 8 /\ is_perm 3 [0;2;2] = false.
Proof. vm_compute. repeat split. Qed.
