(* C01 on reused storage: composition of the C01 theorems for the fresh search (SearchFull.v) with the
   stale-storage noninterference of SearchReuse.v / SearchReuseReset.v.  Lemmas only; the property theorems
   are restated in Props/C01_reuse.v. *)
From Coq Require Import List Arith ZArith Lia Permutation.
From Mamba Require Import Canon.Perm Canon.Iso Canon.Model Canon.SearchModel Canon.SearchInit Canon.SearchProofs
  Canon.SearchInvar Canon.SearchTotal Canon.SearchFull Canon.SearchReuseModel Canon.SearchReuse Canon.SearchReuseReset.
From Mamba Require Canon.AutResetModel Canon.AutReset.
Import ListNotations.
Open Scope nat_scope.

Definition lab_of_res (r : res result) : list nat :=
  match r with Ok (p, _, _) => p | _ => [] end.

Definition lab_of (r : res (result * storage)) : list nat := lab_of_res (res_map fst r).

(* the labelling returned by CanonicalIsomorphAllocated on storage contents [st] (partition freshly built) *)
Definition alloc_labelling (st : storage) (g : graph) : list nat :=
  lab_of (canon_alloc (search_fuel (length g)) st g None).

(* ... and after op.Reset on an arbitrary old partition state [op] *)
Definition alloc_reset_labelling (st : storage) (op : AutResetModel.opst) (g : graph) : list nat :=
  lab_of (canon_alloc_reset (search_fuel (length g)) st op g None).

Lemma search_labelling_lab : forall g, search_labelling g = lab_of_res (canon_search (search_fuel (length g)) g None).
Proof. intros g. unfold search_labelling, lab_of_res. reflexivity. Qed.

Theorem alloc_labelling_fresh : forall (g : graph) (st : storage), simple g ->
  storage_caps st (length g) (num_edges g) -> alloc_labelling st g = search_labelling g.
Proof.
  intros g st Hg HS. unfold alloc_labelling, lab_of.
  rewrite (reuse_noninterference g None Hg I (search_fuel (length g)) st HS). symmetry. apply search_labelling_lab.
Qed.

Theorem alloc_reset_labelling_fresh : forall (g : graph) (st : storage) (op : AutResetModel.opst), simple g ->
  storage_caps st (length g) (num_edges g) -> AutReset.caps_ok op (length g) (num_edges g) ->
  alloc_reset_labelling st op g = search_labelling g.
Proof.
  intros g st op Hg HS HO. unfold alloc_reset_labelling, lab_of.
  rewrite (canon_alloc_reset_noninterference g None (search_fuel (length g)) st op Hg I HS HO).
  symmetry. apply search_labelling_lab.
Qed.

Theorem alloc_reset_labelling_perm : forall (g : graph) (st : storage) (op : AutResetModel.opst), simple g ->
  storage_caps st (length g) (num_edges g) -> AutReset.caps_ok op (length g) (num_edges g) ->
  is_perm (length g) (alloc_reset_labelling st op g) = true.
Proof.
  intros g st op Hg HS HO. rewrite (alloc_reset_labelling_fresh g st op Hg HS HO). apply search_labelling_perm. exact Hg.
Qed.

Theorem alloc_reset_labelling_invariant :
  forall (g : graph) (p : list nat) (st st' : storage) (op op' : AutResetModel.opst),
    simple g -> is_perm (length g) p = true ->
    storage_caps st (length g) (num_edges g) -> AutReset.caps_ok op (length g) (num_edges g) ->
    storage_caps st' (length (relabel g p)) (num_edges (relabel g p)) ->
    AutReset.caps_ok op' (length (relabel g p)) (num_edges (relabel g p)) ->
    relabel (relabel g p) (alloc_reset_labelling st' op' (relabel g p)) = relabel g (alloc_reset_labelling st op g).
Proof.
  intros g p st st' op op' Hg Hp HS HO HS' HO'.
  rewrite (alloc_reset_labelling_fresh g st op Hg HS HO).
  rewrite (alloc_reset_labelling_fresh (relabel g p) st' op' (relabel_simple g p Hg Hp) HS' HO').
  apply search_labelling_invariant; assumption.
Qed.

Theorem alloc_reset_iso_iff :
  forall (g h : graph) (st st' : storage) (op op' : AutResetModel.opst),
    simple g -> simple h ->
    storage_caps st (length g) (num_edges g) -> AutReset.caps_ok op (length g) (num_edges g) ->
    storage_caps st' (length h) (num_edges h) -> AutReset.caps_ok op' (length h) (num_edges h) ->
    (relabel g (alloc_reset_labelling st op g) = relabel h (alloc_reset_labelling st' op' h) <-> iso g h).
Proof.
  intros g h st st' op op' Hg Hh HS HO HS' HO'.
  rewrite (alloc_reset_labelling_fresh g st op Hg HS HO), (alloc_reset_labelling_fresh h st' op' Hh HS' HO').
  apply search_iso_iff; assumption.
Qed.

(* ---- any fuel that suffices gives the same canonical graph: the labelling at fuel F as a complete invariant
   on the graphs for which F suffices ---- *)
Section AtFuel.
  Variable F : nat.
  Definition lab_at (g : graph) : list nat := lab_of_res (canon_search F g None).
  Definition dom_at (g : graph) : Prop := simple g /\ search_fuel (length g) <= F.

  Lemma lab_at_spec : forall g, dom_at g -> exists o gs, canon_search F g None = Ok (lab_at g, o, gs).
  Proof.
    intros g [Hg Hf]. destruct (canon_search_returns g None Hg I F Hf) as [[[p o] gs] E].
    exists o, gs. unfold lab_at, lab_of_res. rewrite E. reflexivity.
  Qed.

  Lemma lab_at_perm : forall g, dom_at g -> is_perm (length g) (lab_at g) = true.
  Proof.
    intros g Hd. destruct (lab_at_spec g Hd) as (o & gs & E). destruct Hd as [Hg _].
    apply is_perm_Permutation. exact (search_perm g None Hg I _ _ _ _ E).
  Qed.

  Lemma dom_at_relabel : forall g p, dom_at g -> is_perm (length g) p = true -> dom_at (relabel g p).
  Proof.
    intros g p [Hg Hf] Hp. split; [apply relabel_simple; assumption|].
    rewrite relabel_length, (is_perm_length _ _ Hp). exact Hf.
  Qed.

  Lemma lab_at_invariant : forall g p, dom_at g -> is_perm (length g) p = true ->
    relabel (relabel g p) (lab_at (relabel g p)) = relabel g (lab_at g).
  Proof.
    intros g p Hd Hp. pose proof (dom_at_relabel g p Hd Hp) as Hd'.
    destruct (lab_at_spec g Hd) as (o & gs & E). destruct (lab_at_spec _ Hd') as (o' & gs' & E').
    destruct Hd as [Hg _].
    apply (search_canon_graph_invariant g p F F _ _ Hg Hp);
      unfold search_canon_graph; [rewrite E'|rewrite E]; reflexivity.
  Qed.

  Theorem lab_at_iso_iff : forall g h, dom_at g -> dom_at h ->
    (relabel g (lab_at g) = relabel h (lab_at h) <-> iso g h).
  Proof.
    apply (iso_iff_canon_gen dom_at lab_at).
    - intros g [Hg _]. exact (proj1 Hg).
    - exact lab_at_perm.
    - exact lab_at_invariant.
  Qed.
End AtFuel.

(* ---- a whole history through one storage: the k-th answer ---- *)
Definition seq_lab (rs : list (res result)) (k : nat) : list nat :=
  match nth_error rs k with Some r => lab_of_res r | None => [] end.

Theorem run_seq_iso_iff :
  forall fuel N M (items : list (AutResetModel.opst * (graph * option (list (list nat))))) (st : storage)
         i j opi gi opj gj,
    storage_caps st N M -> Forall (item_ok N M) items ->
    (forall it, In it items -> search_fuel (length (fst (snd it))) <= fuel) ->
    nth_error items i = Some (opi, (gi, None)) -> nth_error items j = Some (opj, (gj, None)) ->
    (relabel gi (seq_lab (run_seq fuel st items) i) = relabel gj (seq_lab (run_seq fuel st items) j) <-> iso gi gj).
Proof.
  intros fuel N M items st i j opi gi opj gj HS HI HF Ei Ej.
  rewrite (run_seq_fresh fuel N M items st HS HI HF).
  unfold seq_lab.
  rewrite (map_nth_error _ _ _ Ei), (map_nth_error _ _ _ Ej). cbn [fst snd].
  assert (Di : dom_at fuel gi).
  { split.
    - apply nth_error_In in Ei. rewrite Forall_forall in HI. specialize (HI _ Ei). unfold item_ok in HI. tauto.
    - apply nth_error_In in Ei. exact (HF _ Ei). }
  assert (Dj : dom_at fuel gj).
  { split.
    - apply nth_error_In in Ej. rewrite Forall_forall in HI. specialize (HI _ Ej). unfold item_ok in HI. tauto.
    - apply nth_error_In in Ej. exact (HF _ Ej). }
  exact (lab_at_iso_iff fuel gi gj Di Dj).
Qed.
