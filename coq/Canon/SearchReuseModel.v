(* Canon/SearchReuseModel.v — definitions only.

   Model of CanonicalIsomorphAllocated (graph/canonical.go) called with a caller-owned, REUSED
   CanonicalStorage: every field of the storage is a backing array whose CONTENTS are whatever
   earlier calls (for graphs of other sizes) left there; only the capacities are known.  The model
   of Canon/SearchModel.v ([canon_search]) is the same function run on NewStorage(n, m), whose
   arrays are zero-filled and have exactly the capacities n, m, n-1.

   Go state                                    model
   storage.X (a slice header that the function never reassigns; the function only re-slices it
   into a local variable)                      [storage]: one list per field = the backing array,
                                               its length = cap(storage.X)
   x := storage.x[:n]                          [reslice]: [firstn n] of the backing array, [None] (Go:
                                               slice bounds out of range) when n > cap
   currentBest := storage.currentBest[:0]      [s_cb] = [] ; the backing array stays a parameter [cbB]
   currentBest = currentBest[:m]               [slice_to cbB (s_cb st) m]: exposes the cells of the
                                               backing array between len and m — stale data —
                                               Panic only when m > cap
   currentBest[:len(op.value)], firstLeaf[:len(op.value)]
                                               [slice_to]: may reach beyond len (= m) up to the
                                               capacity, reading stale cells, where the fresh model
                                               (cap = m) panics
   generators = generators[:len+1]             allowed up to cap(storage.generators) = [length gslots]
   tmp := generators[len-1]; tmp[:n] or make   every one of the n cells of tmp is then written: the
                                               VALUE of the recorded generator is [gam] in both cases
   copy(dst, src)                              [copy_into] (stale tail of dst kept)
   op after op.Reset(n, m, classes)            [init_cells n cls]: Canon/AutReset.v proves that Reset
                                               leaves the visible state of NewOrderedPartition whatever
                                               the arrays held; [cells_of_op] reads the bins off the
                                               arrays of Canon/AutResetModel.v
   path, choices ([:0], then append), the scratch arrays space, dws, nbs, timesSeen, maxCell,
   numberOfMax ([:n])                          capacities only (they are re-sliced, so a too small
                                               one panics); their contents are not in the search
                                               model (each is written before it is read inside one
                                               refinement round: zeroOut / dws[k] = ... / nbs[i] = ...)

   The functions below are those of Canon/SearchModel.v with the capacities and backing arrays
   as extra parameters; where nothing depends on them (undo, push_step, h2, deage, back_jump, ...)
   the original definitions are used.  The run also returns the final search state, from which
   [write_back] computes the contents of the storage after the call (the next call starts from
   them: [run_seq]). *)
From Coq Require Import List Arith Bool ZArith.
From Mamba Require Import Canon.Perm Canon.Iso Canon.Model Disjoint.Model Canon.AutModel Canon.SearchModel
  Canon.AutResetModel.
Import ListNotations.
Open Scope nat_scope.

(* ---------------------------------------------------------------- the storage *)

Record storage := mkSt {
  st_path : list nat;            (* cap >= n advised; used from [:0] by append *)
  st_choices : list nat;
  st_gens : list (list nat);     (* len = cap; each entry = backing array of the inner slice ([] = nil) *)
  st_cb : list nat;              (* currentBest: cap >= m *)
  st_cbPath : list nat;
  st_cbPerm : list nat;
  st_cbInv : list nat;
  st_cbOrb : dset;
  st_fl : list nat;              (* firstLeaf: cap >= m *)
  st_flInv : list nat;
  st_flOrb : dset;
  st_flPath : list nat;
  st_space : list nat;
  st_dws : list (nat * nat);
  st_nbs : list nat;
  st_timesSeen : list nat;
  st_maxCell : list nat;
  st_numberOfMax : list nat }.

(* NewStorage(n, m) *)
Definition new_storage (n m : nat) : storage :=
  mkSt (repeat 0 n) (repeat 0 n) (repeat [] (n - 1))
       (repeat 0 m) (repeat 0 n) (repeat 0 n) (repeat 0 n) (new n)
       (repeat 0 m) (repeat 0 n) (new n) (repeat 0 n)
       (repeat 0 n) (repeat (0, 0) n) (repeat 0 n) (repeat 0 n) (repeat 0 n) (repeat 0 n).

(* the capacities CanonicalIsomorphAllocated needs for a graph with n vertices and m edges: what
   NewStorage(n, m) allocates, or more (path and choices grow by append) *)
Definition storage_caps (st : storage) (n m : nat) : Prop :=
  n - 1 <= length (st_gens st) /\ m <= length (st_cb st) /\ n <= length (st_cbPath st) /\
  n <= length (st_cbPerm st) /\ n <= length (st_cbInv st) /\ n <= length (st_cbOrb st) /\
  m <= length (st_fl st) /\ n <= length (st_flInv st) /\ n <= length (st_flOrb st) /\
  n <= length (st_flPath st) /\ n <= length (st_space st) /\ n <= length (st_dws st) /\
  n <= length (st_nbs st) /\ n <= length (st_timesSeen st) /\ n <= length (st_maxCell st) /\
  n <= length (st_numberOfMax st).

(* x[:k] of a slice whose backing array is [l] *)
Definition reslice {A : Type} (l : list A) (k : nat) : option (list A) :=
  if k <=? length l then Some (firstn k l) else None.

(* x[:k] where x currently has the contents [cur] (its first len cells) and the backing array held
   [back] when the function was entered: the cells from len on are still those of [back] *)
Definition slice_to (back cur : list nat) (k : nat) : option (list nat) :=
  if k <=? length back then Some (firstn k (cur ++ skipn (length cur) back)) else None.

(* ---------------------------------------------------------------- expandValue, splitBin, refinement *)

Section Reuse.
Variable g : graph.
Variables n m : nat.
Variables cbB flB : list nat.          (* backing arrays of currentBest and firstLeaf at entry *)
Variable gcap : nat.                   (* cap(storage.generators) *)

Fixpoint expand_loop_r (k : nat) (cs : list acell) (cb fl value : list nat) (j : nat) : ev :=
  match k with
  | 0 => EvOk value n
  | S k' =>
      match nth_error cs j with
      | None => EvPanic
      | Some c =>
          if length (cverts c) =? 1 then
            match nth_error (order_of cs) j with
            | None => EvPanic
            | Some u =>
                let value' := value ++ entries g cs n j u in
                match cb with
                | [] => expand_loop_r k' cs cb fl value' (S j)
                | _ :: _ =>
                    match slice_to cbB cb (length value') with
                    | None => EvPanic                     (* currentBest[:len(op.value)] beyond cap *)
                    | Some cbs =>
                        match cmp_list value' cbs with
                        | Lt =>
                            match slice_to flB fl (length value') with
                            | None => EvPanic             (* firstLeaf[:len(op.value)] beyond cap *)
                            | Some fls =>
                                match cmp_list value' fls with
                                | Eq => expand_loop_r k' cs cb fl value' (S j)
                                | _ => EvWorse value' (S j)
                                end
                            end
                        | _ => expand_loop_r k' cs cb fl value' (S j)
                        end
                    end
                end
            end
          else EvOk value j
      end
  end.

Definition expand_value_r (cs : list acell) (cb fl value : list nat) (spl : nat) : ev :=
  expand_loop_r (n - spl) cs cb fl value spl.

Definition split_bin_r (cb fl : list nat) (ps : pstate) (i : nat) : res (bool * pstate) :=
  let age' := (p_age ps + 1)%Z in
  match locate (p_cells ps) i with
  | None => Panic
  | Some (b, c, k, a) =>
      match nth_error (cverts c) k with
      | None => Panic
      | Some x =>
          let rest := firstn k (cverts c) ++ skipn (S k) (cverts c) in
          let cs' := b ++ (age', (true, [x])) :: (cage c, (true, rest)) :: a in
          if length b =? p_spl ps then
            match expand_value_r cs' cb fl (p_value ps) (p_spl ps) with
            | EvPanic => Panic
            | EvWorse v s => Ok (true, mkP cs' age' v s)
            | EvOk v s => Ok (false, mkP cs' age' v s)
            end
          else Ok (false, mkP cs' age' (p_value ps) (p_spl ps))
      end
  end.

Fixpoint round_loop_r (cb fl : list nat) (w : list nat) (age : Z)
         (pre_rev post : list acell) (value : list nat) (spl : nat) : rr :=
  match pre_rev with
  | [] => RrOk (mkP post age value spl)
  | c :: pre' =>
      if uniform g w (cverts c) then round_loop_r cb fl w age pre' (c :: post) value spl
      else
        let post' := with_ages age (cage c) (fragments g w (cverts c)) ++ post in
        if length pre' =? spl then
          match expand_value_r (rev pre' ++ post') cb fl value spl with
          | EvPanic => RrPanic
          | EvWorse v s => RrWorse (mkP (rev pre' ++ post') age v s)
          | EvOk v s => round_loop_r cb fl w age pre' post' v s
          end
        else round_loop_r cb fl w age pre' post' value spl
  end.

Fixpoint refine_loop_r (k : nat) (cb fl : list nat) (ps : pstate) : res (bool * pstate) :=
  match pick_a (p_cells ps) with
  | None => Ok (false, ps)
  | Some (P', w) =>
      match k with
      | 0 => Fuel
      | S k' =>
          match round_loop_r cb fl w (p_age ps) (rev P') [] (p_value ps) (p_spl ps) with
          | RrPanic => Panic
          | RrWorse ps' => Ok (true, ps')
          | RrOk ps' => refine_loop_r k' cb fl ps'
          end
      end
  end.

Definition refine_s_r (cb fl : list nat) (ps : pstate) : res (bool * pstate) :=
  refine_loop_r (2 * length (order_of (p_cells ps)) + length (p_cells ps)) cb fl ps.

(* ---------------------------------------------------------------- the leaf *)

(* generators = generators[:len(generators)+1] is within the capacity of storage.generators *)
Definition record_gen_r (st : sstate) (gam : list nat) : res sstate :=
  do r <- of_opt (orb_loop (seq 0 n) gam (s_flOrb st) false);
  let st1 := set_flOrb st (fst r) in
  if snd r then
    if gcap <? length (s_gens st) + 1 then Panic
    else Ok (set_gens st1 (s_gens st ++ [gam]))
  else Ok st1.

(* currentBest = currentBest[:m]; copy(currentBest, op.value); ... *)
Definition new_best_r (st : sstate) (cbInv : list nat) : res sstate :=
  let ps := s_ps st in
  let order := order_of (p_cells ps) in
  do cbm <- of_opt (slice_to cbB (s_cb st) m);
  let cb := copy_into cbm (p_value ps) in
  let cbPath := copy_into (s_cbPath st) (s_path st) in
  let cbPerm := copy_into (s_cbPerm st) order in
  let cbOrb := new n in
  if s_count st =? 1 then
    Ok (mkS ps (s_path st) (s_choices st) (s_count st) cb cbPath cbPerm cbInv cbOrb
            (copy_into (s_fl st) (p_value ps)) (copy_into (s_flPath st) (s_path st))
            (copy_into (s_flInv st) cbInv) (copy_into (s_flOrb st) cbOrb)
            (s_gens st) (s_skip st))
  else
    Ok (mkS ps (s_path st) (s_choices st) (s_count st) cb cbPath cbPerm cbInv cbOrb
            (s_fl st) (s_flPath st) (s_flInv st) (s_flOrb st) (s_gens st) (s_skip st)).

Definition leaf_step_r (st : sstate) : res sstate :=
  let st0 := bump st in
  let ps := s_ps st0 in
  let order := order_of (p_cells ps) in
  match cmp_list (p_value ps) (s_cb st0) with
  | Gt =>
      do cbInv <- of_opt (inv_into (s_cbInv st0) order 0);
      new_best_r st0 cbInv
  | Eq =>
      do gam <- of_opt (gamma_of order (s_cbInv st0) (seq 0 n));
      do r <- of_opt (orb_loop (seq 0 n) gam (s_cbOrb st0) false);
      do st1 <- record_gen_r (set_cbOrb st0 (fst r)) gam;
      back_jump st1 (s_cbPath st1)
  | Lt =>
      match cmp_list (p_value ps) (s_fl st0) with
      | Eq =>
          do gam <- of_opt (gamma_of order (s_flInv st0) (seq 0 n));
          do st1 <- record_gen_r st0 gam;
          back_jump st1 (s_flPath st1)
      | _ => Ok st0
      end
  end.

(* ---------------------------------------------------------------- stepping *)

Definition jbody_r (j : nat) (st : sstate) : res (sstate * bool) :=
  do st1 <- undo st;
  match last_opt (s_choices st1) with
  | None => Panic
  | Some 0 => Panic
  | Some (S pos) =>
      let st2 := set_stack st1 (s_path st1) (set_last (s_choices st1) pos) in
      let order := order_of (p_cells (s_ps st2)) in
      do v <- of_opt (nth_error order pos);
      do r1 <- h2 (s_count st2) (s_flPath st2) (s_path st2) (s_flOrb st2) order pos j v;
      let st3 := set_flOrb st2 (fst r1) in
      if snd r1 then Ok (set_skip st3 true, false)
      else
        do r2 <- h2 (s_count st3) (s_cbPath st3) (s_path st3) (s_cbOrb st3) order pos j v;
        let st4 := set_cbOrb st3 (fst r2) in
        if snd r2 then Ok (set_skip st4 true, false)
        else
          do r3 <- split_bin_r (s_cb st4) (s_fl st4) (s_ps st4) pos;
          let st5 := set_stack (set_ps st4 (snd r3)) (set_last (s_path st4) j) (s_choices st4) in
          Ok (st5, negb (fst r3))
  end.

Fixpoint jloop_r (jj : nat) (st : sstate) : res (sstate * bool) :=
  match jj with
  | 0 => Ok (st, false)
  | S j =>
      do r <- jbody_r j st;
      if snd r then Ok r else jloop_r j (fst r)
  end.

(* stepLoop: [inl st] = stepped to a new node, [inr st] = the path is empty: the function returns
   currentBestPerm, firstLeafOrbits, generators of the state [st] *)
Fixpoint steploop_r (k : nat) (st : sstate) : res (sstate + sstate) :=
  match last_opt (s_path st) with
  | None => Ok (inr st)
  | Some top =>
      match k with
      | 0 => Fuel
      | S k' =>
          do r <- jloop_r top st;
          if snd r then Ok (inl (fst r))
          else
            do st1 <- undo (fst r);
            steploop_r k' (set_stack st1 (removelast (s_path st1)) (removelast (s_choices st1)))
      end
  end.

(* the outer loop; the result is the search state in which the function returns *)
Fixpoint main_loop_r (fuel : nat) (st : sstate) (worse : bool) : res sstate :=
  match fuel with
  | 0 => Fuel
  | S f =>
      do st1 <- (if worse then Ok st
                 else if length (p_cells (s_ps st)) =? n then leaf_step_r st
                 else Ok (push_step st));
      do r <- steploop_r (S (length (s_path st1))) st1;
      match r with
      | inr stf => Ok stf
      | inl st2 =>
          do w <- refine_s_r (s_cb st2) (s_fl st2) (s_ps st2);
          main_loop_r f (set_ps st2 (snd w)) (fst w)
      end
  end.

End Reuse.

(* ---------------------------------------------------------------- entry *)

(* the prologue: every slice the search uses is cut out of the storage *)
Definition alloc_state (st : storage) (n m : nat) (ps : pstate) : option sstate :=
  match reslice (st_cbPath st) n, reslice (st_cbPerm st) n, reslice (st_cbInv st) n, reslice (st_cbOrb st) n with
  | Some cbPath, Some cbPerm, Some cbInv, Some cbOrb =>
      match reslice (st_fl st) m, reslice (st_flInv st) n, reslice (st_flOrb st) n, reslice (st_flPath st) n with
      | Some fl, Some flInv, Some flOrb, Some flPath =>
          match reslice (st_space st) n, reslice (st_dws st) n, reslice (st_nbs st) n with
          | Some _, Some _, Some _ =>
              match reslice (st_timesSeen st) n, reslice (st_maxCell st) n, reslice (st_numberOfMax st) n with
              | Some _, Some _, Some _ =>
                  Some (mkS ps [] [] 0 [] cbPath cbPerm cbInv cbOrb fl flPath flInv flOrb [] false)
              | _, _, _ => None
              end
          | _, _, _ => None
          end
      | _, _, _, _ => None
      end
  | _, _, _, _ => None
  end.

(* the cells of a backing array beyond the part [live] the call has used are untouched *)
Definition wb {A : Type} (back live : list A) : list A := live ++ skipn (length live) back.

(* the generators are written into the inner slices of storage.generators: slot k receives the k-th
   generator (in place when the old inner slice has capacity n, in a new array otherwise) *)
Fixpoint wb_gens (n : nat) (slots gens : list (list nat)) : list (list nat) :=
  match gens, slots with
  | [], _ => slots
  | _, [] => []
  | gam :: gr, s :: sr => (if n <=? length s then wb s gam else gam) :: wb_gens n sr gr
  end.

(* contents of the storage when the search returns in state [f] (path, choices and the scratch
   arrays: capacities only, see the header) *)
Definition write_back (st : storage) (n : nat) (f : sstate) : storage :=
  mkSt (st_path st) (st_choices st) (wb_gens n (st_gens st) (s_gens f))
       (wb (st_cb st) (s_cb f)) (wb (st_cbPath st) (s_cbPath f)) (wb (st_cbPerm st) (s_cbPerm f))
       (wb (st_cbInv st) (s_cbInv f)) (wb (st_cbOrb st) (s_cbOrb f))
       (wb (st_fl st) (s_fl f)) (wb (st_flInv st) (s_flInv f)) (wb (st_flOrb st) (s_flOrb f))
       (wb (st_flPath st) (s_flPath f))
       (st_space st) (st_dws st) (st_nbs st) (st_timesSeen st) (st_maxCell st) (st_numberOfMax st).

Definition result := (list nat * dset * list (list nat))%type.

(* CanonicalIsomorphAllocated(n, m, neighbours(g), op, storage, &CanonicalOptions{}) where op is in
   the state [cs] (= the bins after op.Reset): (result, storage afterwards) *)
Definition canon_alloc_cells (fuel : nat) (st : storage) (g : graph) (cs : list acell)
  : res (result * storage) :=
  let n := length g in
  let m := num_edges g in
  if n =? 0 then Ok (([], [], []), st)
  else
    if m =? 0 then
      (* perm := storage.currentBestPerm[:n]; ds := storage.firstLeafOrbits[:n]; generators[:0] grows *)
      do perm <- of_opt (reslice (st_cbPerm st) n);
      do ds <- of_opt (reslice (st_flOrb st) n);
      let gens := edgeless_gens n (map cverts cs) in
      if length (st_gens st) <? length gens then Panic
      else
        let perm' := copy_into perm (order_of cs) in
        let ds' := edgeless_ds ds (map cverts cs) in
        Ok ((perm', ds', gens),
            mkSt (st_path st) (st_choices st) (wb_gens n (st_gens st) gens)
                 (st_cb st) (st_cbPath st) (wb (st_cbPerm st) perm') (st_cbInv st) (st_cbOrb st)
                 (st_fl st) (st_flInv st) (wb (st_flOrb st) ds') (st_flPath st)
                 (st_space st) (st_dws st) (st_nbs st) (st_timesSeen st) (st_maxCell st) (st_numberOfMax st))
    else
      do s0 <- of_opt (alloc_state st n m (mkP cs 0%Z [] 0));
      let cbB := st_cb st in
      let flB := st_fl st in
      let gcap := length (st_gens st) in
      match expand_value_r g n cbB flB cs [] (s_fl s0) [] 0 with
      | EvPanic => Panic
      | EvWorse v s | EvOk v s =>
          do w <- refine_s_r g n cbB flB [] (s_fl s0) (mkP cs 0%Z v s);
          do f <- main_loop_r g n m cbB flB gcap fuel (set_ps s0 (snd w)) (fst w);
          Ok ((s_cbPerm f, s_flOrb f, s_gens f), write_back st n f)
      end.

Definition res_map {A B : Type} (f : A -> B) (x : res A) : res B :=
  match x with Ok a => Ok (f a) | Panic => Panic | Fuel => Fuel end.

(* op.Reset has been called with the classes: the bins of NewOrderedPartition *)
Definition canon_alloc (fuel : nat) (st : storage) (g : graph) (cls : option (list (list nat)))
  : res (result * storage) :=
  canon_alloc_cells fuel st g (init_cells (length g) cls).

(* ---------------------------------------------------------------- with the partition arrays of Reset *)

(* the bins read off the arrays of a CanonicalOrderedPartition: order cut at the dividers, the age
   of each divider, membership of the bin index in binsToCheck *)
Fixpoint cut_bins (order : list nat) (start : nat) (divs : list nat) : list (list nat) :=
  match divs with
  | [] => []
  | d :: r => firstn (d - start) order :: cut_bins (skipn (d - start) order) d r
  end.

Fixpoint zip_cells (i : nat) (bins : list (list nat)) (ages checks : list nat) : list acell :=
  match bins with
  | [] => []
  | b :: br =>
      (Z.of_nat (nth i ages 0), (existsb (Nat.eqb i) checks, b)) :: zip_cells (S i) br ages checks
  end.

Definition cells_of_op (op : opst) : list acell :=
  zip_cells 0 (cut_bins (vis (order op)) 0 (vis (binDividers op))) (vis (binAges op)) (vis (binsToCheck op)).

(* op.Reset(n, m, classes) on the old partition state [op] (any contents), then the call; for
   n = 0 the function returns before it touches op or the storage (op may be nil) *)
Definition canon_alloc_reset (fuel : nat) (st : storage) (op : opst) (g : graph)
           (cls : option (list (list nat))) : res (result * storage) :=
  let n := length g in
  if n =? 0 then Ok (([], [], []), st)
  else
    match reset Canon.Model.isort op n (num_edges g) cls with
    | None => Panic
    | Some op' => canon_alloc_cells fuel st g (cells_of_op op')
    end.

(* one storage through a sequence of graphs; the partition before each Reset is given ([ops]: the
   search model does not keep the partition arrays) *)
Fixpoint run_seq (fuel : nat) (st : storage) (items : list (opst * (graph * option (list (list nat)))))
  : list (res result) :=
  match items with
  | [] => []
  | (op, (g, cls)) :: rest =>
      match canon_alloc_reset fuel st op g cls with
      | Ok (r, st') => Ok r :: run_seq fuel st' rest
      | Panic => [Panic]
      | Fuel => [Fuel]
      end
  end.
