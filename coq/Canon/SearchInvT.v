(* Canon/SearchInvT.v — first layer of the invariant of the search: the ordered partition is always
   a partition of 0..n-1 into non-empty ascending bins; the stack (path, choices) describes a
   chain of nodes of the unpruned tree of Canon/Model.v, each a child of the one below; the
   current partition is what the node on top of the stack has become by splitBin/refinement at
   the current age, so that deage gives that node back exactly. *)
From Coq Require Import List Arith Bool ZArith Lia Permutation Sorted.
From Mamba Require Import Canon.Perm Canon.Iso Canon.Model Canon.Refine Canon.Sorted Canon.Tree Canon.Fuel
  Disjoint.Model Canon.SearchModel Canon.SearchHoare Canon.SearchCells Canon.SearchTarget
  Canon.SearchDeage Canon.SearchRefine Canon.SearchExec.
Import ListNotations.
Open Scope nat_scope.

Definition zl (k : nat) : Z := Z.of_nat k.

(* ---------------------------------------------------------------- lists *)

Lemma last_opt_app : forall (A : Type) (l : list A) (x : A), last_opt (l ++ [x]) = Some x.
Proof.
  induction l as [|y l IH]; intros x; [reflexivity|]. simpl app.
  destruct (l ++ [x]) eqn:E; [destruct l; discriminate|]. rewrite <- E. simpl. rewrite E. rewrite <- E. apply IH.
Qed.

Lemma last_opt_nth : forall (A : Type) (l : list A), last_opt l = nth_error l (length l - 1).
Proof.
  induction l as [|y l IH]; [reflexivity|]. destruct l as [|z l]; [reflexivity|].
  change (last_opt (y :: z :: l)) with (last_opt (z :: l)). rewrite IH. simpl. rewrite Nat.sub_0_r. reflexivity.
Qed.

Lemma last_opt_none : forall (A : Type) (l : list A), last_opt l = None <-> l = [].
Proof.
  intros A l. split; [|intros ->; reflexivity]. induction l as [|y l IH]; [reflexivity|].
  destruct l as [|z l]; [discriminate|]. intros H. change (last_opt (z :: l) = None) in H. apply IH in H. discriminate.
Qed.

Lemma last_opt_some_length : forall (A : Type) (l : list A) x, last_opt l = Some x -> 1 <= length l.
Proof. intros A [|y l] x H; [discriminate|simpl; lia]. Qed.

Lemma removelast_length : forall (A : Type) (l : list A), length (removelast l) = length l - 1.
Proof. intros A l. rewrite removelast_firstn_len, firstn_length. lia. Qed.

Lemma removelast_firstn_len' : forall (A : Type) (l : list A), removelast l = firstn (length l - 1) l.
Proof. intros A l. rewrite removelast_firstn_len. f_equal. lia. Qed.

Lemma nth_error_firstn : forall (A : Type) (l : list A) k i, i < k -> nth_error (firstn k l) i = nth_error l i.
Proof.
  induction l as [|y l IH]; intros k i H; [destruct k; reflexivity|].
  destruct k; [lia|]. destruct i; [reflexivity|]. simpl. apply IH. lia.
Qed.

Lemma nth_error_firstn_none : forall (A : Type) (l : list A) k i, k <= i -> nth_error (firstn k l) i = None.
Proof. intros. apply nth_error_None. rewrite firstn_length. lia. Qed.

Lemma set_last_length : forall (A : Type) (l : list A) v, length (set_last l v) = length l.
Proof.
  intros A [|y l] v; [reflexivity|]. unfold set_last. rewrite app_length, removelast_length. simpl. lia.
Qed.

Lemma set_last_nth : forall (A : Type) (l : list A) v i, S i < length l -> nth_error (set_last l v) i = nth_error l i.
Proof.
  intros A l v i H. destruct l as [|y l]; [simpl in H; lia|]. unfold set_last.
  rewrite nth_error_app1 by (rewrite removelast_length; lia).
  rewrite removelast_firstn_len'. apply nth_error_firstn. lia.
Qed.

Lemma set_last_last : forall (A : Type) (l : list A) v, l <> [] -> last_opt (set_last l v) = Some v.
Proof. intros A [|y l] v H; [congruence|]. unfold set_last. apply last_opt_app. Qed.

Lemma last_opt_firstn : forall (A : Type) (l : list A) k, 1 <= k -> k <= length l ->
  last_opt (firstn k l) = nth_error l (k - 1).
Proof.
  intros A l k H1 H2. rewrite last_opt_nth, firstn_length. replace (Nat.min k (length l)) with k by lia.
  apply nth_error_firstn. lia.
Qed.

(* ---------------------------------------------------------------- the invariant *)

Section InvT.
Variable g : graph.
Variables n m : nat.
Variable root : part.
Variable Xc : list acell -> Prop.      (* any property of the bins kept by splitting steps *)

Record node_ok (k : nat) (P : list acell) : Prop := mk_node {
  no_perm : Permutation (order_of P) (seq 0 n);
  no_ne : nonempty P;
  no_asc : casc P;
  no_unfl : unflagged P;
  no_ages : ages_le (zl k) P;
  no_desc : rdesc g root (erase P);
  no_big : exists e sz, first_big P 0 = Some (e, sz);
  no_X : Xc P }.

Definition child_of (a : nat) (child parent : list acell) : Prop :=
  R (zl a) child parent /\
  Forall2 same_cell (firstn (fns parent) parent) (firstn (fns parent) child) /\
  exists c, nth_error child (fns parent) = Some c /\ cage c = zl a /\ single c.

Definition cur_ok (anc : list (list acell)) (L : nat) (skip : bool) (ps : pstate) : Prop :=
  Permutation (order_of (p_cells ps)) (seq 0 n) /\ nonempty (p_cells ps) /\ casc (p_cells ps) /\
  Xc (p_cells ps) /\
  if skip then exists P, last_opt anc = Some P /\ p_cells ps = P /\ p_age ps = (zl L - 1)%Z
  else p_age ps = zl L /\ ages_le (zl L) (p_cells ps) /\
       match last_opt anc with None => True | Some P => child_of L (p_cells ps) P end.

Definition stack_ok (anc : list (list acell)) (path choices : list nat) : Prop :=
  length anc = length path /\ length choices = length path /\
  (forall k P, nth_error anc k = Some P -> node_ok k P) /\
  (forall k P P', nth_error anc k = Some P -> nth_error anc (S k) = Some P' -> child_of (S k) P' P) /\
  (forall k P, S k < length path -> nth_error anc k = Some P ->
     exists e sz pj, first_big P 0 = Some (e, sz) /\ nth_error path k = Some pj /\
       nth_error choices k = Some (e - sz + pj) /\ pj < sz).

Definition top_ok (anc : list (list acell)) (choices : list nat) (j : nat) (skip : bool) : Prop :=
  match last_opt anc with
  | None => True
  | Some P => exists e sz, first_big P 0 = Some (e, sz) /\ last_opt choices = Some (e - sz + j) /\
                j <= sz /\ (skip = false -> j < sz)
  end.

(* the best leaf, once there is one, is a leaf of the unpruned tree *)
Definition cb_ok (st : sstate) : Prop :=
  length (s_cbPerm st) = n /\
  (s_cb st <> [] -> exists Q, rdesc g root Q /\ target Q = None /\ s_cbPerm st = verts Q).

(* the predicates of the proof outline, with the stack of nodes explicit ... *)
Definition TPstepA (anc : list (list acell)) (st : sstate) : Prop :=
  stack_ok anc (s_path st) (s_choices st) /\
    cur_ok anc (length (s_path st)) (s_skip st) (s_ps st) /\
    (forall top, last_opt (s_path st) = Some top -> top_ok anc (s_choices st) top (s_skip st)) /\
    cb_ok st.

Definition TPtopA (anc : list (list acell)) (st : sstate) (w : bool) : Prop :=
  TPstepA anc st /\ s_skip st = false /\
  (w = false -> unflagged (p_cells (s_ps st)) /\ rdesc g root (erase (p_cells (s_ps st)))).

Definition TPjA (anc : list (list acell)) (st : sstate) (j : nat) : Prop :=
  stack_ok anc (s_path st) (s_choices st) /\
    cur_ok anc (length (s_path st)) (s_skip st) (s_ps st) /\
    s_path st <> [] /\ top_ok anc (s_choices st) j (s_skip st) /\ cb_ok st.

(* after a successful step: the current partition is the node on top of the stack with the element
   of rank j (= last entry of path) of its first bin with more than one element individualised *)
Definition TPrefA (anc : list (list acell)) (st : sstate) : Prop :=
  TPstepA anc st /\ s_skip st = false /\
  exists Pn b c a x j, last_opt anc = Some Pn /\ target (erase Pn) = Some (b, c, a) /\
    last_opt (s_path st) = Some j /\ nth_error c j = Some x /\
    erase (p_cells (s_ps st)) = indiv b c a x.

(* ... and hidden *)
Definition TPstep (st : sstate) : Prop := exists anc, TPstepA anc st.

Definition TPtop (st : sstate) (w : bool) : Prop :=
  TPstep st /\ s_skip st = false /\
  (w = false -> unflagged (p_cells (s_ps st)) /\ rdesc g root (erase (p_cells (s_ps st)))).

Definition TPj (st : sstate) (j : nat) : Prop := exists anc, TPjA anc st j.

Definition TPref (st : sstate) : Prop :=
  TPstep st /\ s_skip st = false /\
  exists P b c a x, rdesc g root P /\ target P = Some (b, c, a) /\ In x c /\
    erase (p_cells (s_ps st)) = indiv b c a x.

Lemma TPtopA_top : forall anc st w, TPtopA anc st w -> TPtop st w.
Proof. intros anc st w (H1 & H2 & H3). split; [exists anc; exact H1|]. split; assumption. Qed.

Lemma TPrefA_ref : forall anc st, TPrefA anc st -> TPref st.
Proof.
  intros anc st (H1 & H2 & Pn & b & c & a & x & j & HP & HT & _ & Hx & HE). split; [exists anc; exact H1|].
  split; [exact H2|]. exists (erase Pn), b, c, a, x. split; [|split; [exact HT|split; [eapply nth_error_In; exact Hx|exact HE]]].
  destruct H1 as ((HL1 & _ & HNo & _) & _). rewrite last_opt_nth in HP. apply (no_desc _ _ (HNo _ _ HP)).
Qed.

End InvT.
