(* Canon/SearchNoPanic1.v — no index or slice panic in expandValue, the refinement and splitBin.  Since commit
   a4bdb37 op.value is always exactly the entries of the first singletonPrefixLength positions; these are edges
   inside that prefix, at most g.M() of them, so the re-slice currentBest[:len(op.value)] stays within its
   capacity. *)
From Coq Require Import List Arith Bool ZArith Lia Permutation Sorted.
From Mamba Require Import Canon.Perm Canon.Iso Canon.Model Canon.Refine Canon.Sorted Canon.Tree Canon.Fuel
  Disjoint.Model Canon.SearchModel Canon.SearchCells Canon.SearchTarget Canon.SearchDeage Canon.SearchRefine
  Canon.SearchValue Canon.SearchExpand Canon.SearchCert Canon.SearchOrder Canon.SearchEquiv Canon.SearchWalk
  Canon.SearchCut.
Import ListNotations.
Open Scope nat_scope.

Section NoPanic1.
Variable g : graph.
Variables n m : nat.
Hypothesis Hg : simple g.
Hypothesis Hn : length g = n.
Hypothesis Hm : m = num_edges g.

Notation good := (good g n).
Notation clean := (clean g n).

(* ---------------------------------------------------------------- the length of op.value *)

Lemma prefix_cells : forall s (cs : list acell), prefix_single cs s -> s <= length cs ->
  firstn s (map (fun v => [v]) (order_of cs)) = firstn s (map cverts cs).
Proof.
  induction s as [|s IH]; intros cs HP Hs; [reflexivity|].
  destruct cs as [|c cs]; [simpl in Hs; lia|].
  destruct (HP 0 c ltac:(lia) eq_refl) as [x Hx]. rewrite order_of_cons, Hx. simpl. rewrite Hx. f_equal.
  apply IH; [|simpl in Hs; lia]. intros k d Hk Hd. apply (HP (S k) d); [lia|exact Hd].
Qed.

Theorem good_length_le : forall cs s, prefix_single cs s -> s <= length cs -> s <= n ->
  Permutation (order_of cs) (seq 0 n) -> length (good cs s) <= m.
Proof.
  intros cs s HP Hs Hsn HPm.
  set (L := erase (lcells (order_of cs))).
  assert (EL : map snd L = map (fun v => [v]) (order_of cs)).
  { unfold L, erase, lcells. rewrite !map_map. reflexivity. }
  assert (HV : verts L = order_of cs) by (apply (lcells_order (order_of cs))).
  destruct (cert_prefix g n Hn cs s L Hsn Hs) as [rest E].
  - rewrite EL. apply prefix_cells; assumption.
  - apply Forall_forall. intros c Hc. unfold L, erase, lcells in Hc. rewrite map_map in Hc. apply in_map_iff in Hc.
    destruct Hc as (v & <- & _). exists v. reflexivity.
  - rewrite HV in E. pose proof (cert_length g n (lcells (order_of cs)) Hg Hn (lcells_leafp n _ HPm)) as HL.
    unfold certp in E. rewrite E, app_length in HL. lia.
Qed.

(* ---------------------------------------------------------------- expandValue *)

Lemma expand_loop_np : forall cs cb fl, nonempty cs -> Permutation (order_of cs) (seq 0 n) ->
  forall k j value, j + k = n -> j <= length cs -> prefix_single cs j -> value = good cs j ->
  expand_loop k g cs n m cb fl value j <> EvPanic.
Proof.
  intros cs cb fl HN HPm.
  assert (HO : length (order_of cs) = n) by (rewrite (Permutation_length HPm); apply seq_length).
  induction k as [|k IH]; intros j value Hjk Hj HP Hv; simpl; [discriminate|].
  destruct (nth_error cs j) as [c|] eqn:Ec.
  2:{ exfalso. apply nth_error_None in Ec. assert (j = length cs) by lia. subst j.
      pose proof (prefix_all _ HP) as HS. rewrite (singles_order_length _ HS) in HO. lia. }
  destruct (length (cverts c) =? 1) eqn:E1; [|discriminate].
  apply Nat.eqb_eq in E1. destruct (proj2 (single_length c) E1) as [u Hu].
  rewrite (order_nth_single j cs c u [] HP Ec Hu).
  assert (Eent : entries g cs n j u = ent g n cs j) by (unfold SearchValue.ent; rewrite Ec, Hu; reflexivity).
  rewrite Eent.
  assert (Hv' : value ++ ent g n cs j = good cs (S j)) by (rewrite good_S, Hv; reflexivity).
  assert (HP' : prefix_single cs (S j)).
  { intros k0 d Hk Hd. destruct (Nat.eq_dec k0 j) as [->|]; [rewrite Ec in Hd; inversion Hd; subst; exists u; exact Hu|].
    apply (HP k0 d); [lia|exact Hd]. }
  assert (Hj' : S j <= length cs) by (apply nth_error_Some; rewrite Ec; discriminate).
  pose proof (IH (S j) (value ++ ent g n cs j) ltac:(lia) Hj' HP' Hv') as Rec.
  destruct cb as [|cb0 cbt]; [exact Rec|].
  assert (HLen : length (value ++ ent g n cs j) <= m) by (rewrite Hv'; apply good_length_le; try assumption; lia).
  replace (m <? length (value ++ ent g n cs j)) with false by (symmetry; apply Nat.ltb_ge; exact HLen).
  destruct (cmp_list (value ++ ent g n cs j) (firstn (length (value ++ ent g n cs j)) (cb0 :: cbt))); try exact Rec.
  destruct (cmp_list (value ++ ent g n cs j) (firstn (length (value ++ ent g n cs j)) fl)); try exact Rec; discriminate.
Qed.

(* ---------------------------------------------------------------- one round, the whole refinement *)

Lemma round_loop_np : forall cb fl w age pre_rev post value spl,
  nonempty (rev pre_rev ++ post) -> Permutation (order_of (rev pre_rev ++ post)) (seq 0 n) ->
  clean (rev pre_rev ++ post) value spl ->
  round_loop g n m cb fl w age pre_rev post value spl <> RrPanic.
Proof.
  intros cb fl w age. induction pre_rev as [|c pre IH]; intros post value spl HN HPm HC; simpl; [discriminate|].
  simpl in HN, HPm, HC. rewrite <- app_assoc in HN, HPm, HC. simpl in HN, HPm, HC.
  destruct (uniform g w (cverts c)) eqn:HU; [apply IH; assumption|].
  set (wa := with_ages age (cage c) (fragments g w (cverts c))) in *.
  assert (HVc : V age (rev pre ++ c :: post) (rev pre ++ wa ++ post)).
  { apply V_app; [apply V_refl|]. apply (V_app age [c] wa post post); [|apply V_refl]. apply V_one, with_ages_vrep. exact HU. }
  assert (HN' : nonempty (rev pre ++ wa ++ post)) by (eapply V_nonempty; eassumption).
  assert (HPm' : Permutation (order_of (rev pre ++ wa ++ post)) (seq 0 n)) by (eapply perm_trans; [eapply V_order; exact HVc|exact HPm]).
  assert (HO' : length (order_of (rev pre ++ wa ++ post)) = n) by (rewrite (Permutation_length HPm'); apply seq_length).
  destruct HC as (Hv & HP & Hs).
  assert (Hc : nth_error (rev pre ++ c :: post) (length pre) = Some c).
  { rewrite <- (rev_length pre). apply nth_error_app_exact. }
  assert (Hle : spl <= length pre).
  { destruct (Nat.lt_ge_cases (length pre) spl) as [Hlt|]; [|assumption]. exfalso.
    apply (nonuniform_not_single g _ _ HU). apply single_length. apply (HP _ _ Hlt Hc). }
  assert (HG : good (rev pre ++ wa ++ post) spl = good (rev pre ++ c :: post) spl)
    by (apply good_app_prefix; rewrite rev_length; exact Hle).
  assert (HP' : prefix_single (rev pre ++ wa ++ post) spl)
    by (eapply prefix_single_app; [rewrite rev_length; exact Hle|exact HP]).
  destruct (length pre =? spl) eqn:EJ.
  - apply Nat.eqb_eq in EJ.
    assert (Hsl : spl <= length (rev pre ++ wa ++ post)) by (rewrite app_length, rev_length; lia).
    assert (Hsn : spl <= n) by (rewrite <- HO'; pose proof (nonempty_length _ HN'); lia).
    pose proof (expand_loop_spec g n m (rev pre ++ wa ++ post) cb fl HN' HO' (n - spl) spl value ltac:(lia) Hsl HP'
                  ltac:(rewrite HG; exact Hv)) as HE.
    pose proof (expand_loop_np (rev pre ++ wa ++ post) cb fl HN' HPm' (n - spl) spl value ltac:(lia) Hsl HP'
                  ltac:(rewrite HG; exact Hv)) as HNP.
    unfold expand_value.
    destruct (expand_loop (n - spl) g (rev pre ++ wa ++ post) n m cb fl value spl) as [|v' s'|v' s'] eqn:EE; [congruence|discriminate|].
    destruct HE as [HE1 _]. apply IH; assumption.
  - apply Nat.eqb_neq in EJ. apply IH; try assumption.
    split; [rewrite HG; exact Hv|]. split; [exact HP'|]. rewrite Hs. symmetry. apply fns_app_lt. rewrite rev_length. lia.
Qed.

Lemma refine_loop_np : forall cb fl k ps, nonempty (p_cells ps) -> Permutation (order_of (p_cells ps)) (seq 0 n) ->
  clean (p_cells ps) (p_value ps) (p_spl ps) -> refine_loop k g n m cb fl ps <> Panic.
Proof.
  intros cb fl. induction k as [|k IH]; intros ps HN HPm HC; simpl.
  - destruct (pick_a (p_cells ps)) as [[P' w0]|]; discriminate.
  - destruct (pick_a (p_cells ps)) as [[P' w0]|] eqn:EP; [|discriminate].
    pose proof (pick_a_same _ _ _ EP) as HS.
    assert (HO : length (order_of (p_cells ps)) = n) by (rewrite (Permutation_length HPm); apply seq_length).
    assert (HN' : nonempty P') by (eapply same_nonempty; eassumption).
    assert (HPm' : Permutation (order_of P') (seq 0 n)) by (rewrite <- (same_order _ _ HS); exact HPm).
    assert (HC' : clean P' (p_value ps) (p_spl ps)) by (eapply clean_same; eassumption).
    pose proof (round_loop_np cb fl w0 (p_age ps) (rev P') [] (p_value ps) (p_spl ps)) as HNP.
    pose proof (round_loop_V g n m cb fl w0 (p_age ps) (rev P') [] (p_value ps) (p_spl ps)) as HR.
    rewrite rev_involutive, app_nil_r in HNP, HR.
    specialize (HNP HN' HPm' HC'). specialize (HR HN' ltac:(rewrite <- (same_order _ _ HS); exact HO) HC').
    destruct (round_loop g n m cb fl w0 (p_age ps) (rev P') [] (p_value ps) (p_spl ps)) as [|ps1|ps1] eqn:ER; [congruence|discriminate|].
    destruct HR as [HR1 _].
    destruct (round_loop_spec g n m cb fl w0 (p_age ps) (rev P') [] (p_value ps) (p_spl ps) false ps1)
      as (mid & HV & HCs & _); [rewrite ER; reflexivity|].
    rewrite app_nil_r in HCs. rewrite rev_involutive in HV. subst mid.
    apply IH; [eapply V_nonempty; eassumption| |exact HR1].
    eapply perm_trans; [eapply V_order; exact HV|exact HPm'].
Qed.

Lemma refine_s_np : forall cb fl ps, nonempty (p_cells ps) -> Permutation (order_of (p_cells ps)) (seq 0 n) ->
  clean (p_cells ps) (p_value ps) (p_spl ps) -> refine_s g n m cb fl ps <> Panic.
Proof. intros. unfold refine_s. apply refine_loop_np; assumption. Qed.

(* ---------------------------------------------------------------- splitBin *)

Lemma split_bin_np : forall P age v s cb fl b c j a,
  uinv g n P v s cb fl -> P = b ++ c :: a -> length b = fns P -> Forall single b -> 2 <= length (cverts c) ->
  j < length (cverts c) -> nonempty P -> Permutation (order_of P) (seq 0 n) ->
  locate P (fns P + j) = Some (b, c, j, a) ->
  split_bin g n m cb fl (mkP P age v s) (fns P + j) <> Panic.
Proof.
  intros P age v s cb fl b c j a (Hs & Hv) EP Hb HSb H2 Hj HN HPm HLoc.
  unfold split_bin. cbn [p_cells p_age p_value p_spl]. rewrite HLoc.
  destruct (nth_error (cverts c) j) as [x|] eqn:Hx; [|apply nth_error_None in Hx; lia].
  rewrite Hb, <- Hs, Nat.eqb_refl.
  set (cs' := b ++ ((age + 1)%Z, (true, [x])) :: (cage c, (true, firstn j (cverts c) ++ skipn (S j) (cverts c))) :: a).
  assert (HVr : V (age + 1)%Z P cs').
  { rewrite EP. unfold cs'. apply V_app; [apply V_refl|]. apply (V_app _ [c] [_; _] a a); [|apply V_refl].
    apply V_one. eapply split_vrep; [exact Hx|exact H2|reflexivity]. }
  assert (HN' : nonempty cs') by (eapply V_nonempty; eassumption).
  assert (HPm' : Permutation (order_of cs') (seq 0 n)) by (eapply perm_trans; [eapply V_order; exact HVr|exact HPm]).
  assert (Hsb : s = length b) by lia.
  assert (HPS : prefix_single cs' s).
  { unfold cs'. apply (prefix_single_app b (c :: a) _ s); [lia|]. rewrite <- EP, Hs. apply fns_prefix_single. }
  assert (HG : good cs' s = good P s) by (unfold cs'; rewrite EP; apply good_app_prefix; lia).
  assert (Hsl : s <= length cs') by (unfold cs'; rewrite app_length; lia).
  assert (Hsn : s < n).
  { rewrite <- (seq_length n 0), <- (Permutation_length HPm), EP, order_of_app, app_length, order_of_cons, app_length.
    rewrite (singles_order_length _ HSb). lia. }
  pose proof (expand_loop_np cs' cb fl HN' HPm' (n - s) s v ltac:(lia) Hsl HPS ltac:(rewrite HG; exact Hv)) as HNP.
  unfold expand_value. destruct (expand_loop (n - s) g cs' n m cb fl v s); [congruence|discriminate|discriminate].
Qed.

End NoPanic1.
