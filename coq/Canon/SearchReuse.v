(* Canon/SearchReuse.v — noninterference for a reused CanonicalStorage: the run of
   CanonicalIsomorphAllocated on storage arrays with ARBITRARY contents and sufficient capacities
   ([canon_alloc] of Canon/SearchReuseModel.v) returns exactly what the run on a fresh storage
   ([canon_search] of Canon/SearchModel.v) returns: permutation, orbit array and generator values.

   The two runs are followed in lockstep through jLoop, stepLoop and the main loop; the fresh run
   carries the invariant of Canon/SearchInvP.v (its verification conditions are reused as they are),
   the pair carries [Sim] (Canon/SearchReuseSim.v). *)
From Coq Require Import List Arith Bool ZArith Lia Permutation Sorted.
From Mamba Require Canon.AutBase Canon.Aut Canon.Group Canon.Orbit Canon.GroupEdgeless Canon.SearchAut.
From Mamba Require Import Canon.Perm Canon.Iso Canon.Model Canon.Refine Canon.Sorted Canon.Tree Canon.Fuel
  Disjoint.Model Disjoint.Proofs Canon.AutModel Canon.SearchModel Canon.SearchHoare Canon.SearchCells Canon.SearchTarget
  Canon.SearchDeage Canon.SearchRefine Canon.SearchExec Canon.SearchValue Canon.SearchExpand Canon.SearchCert
  Canon.SearchOrder Canon.SearchEquiv Canon.SearchWalk Canon.SearchEquit Canon.SearchCut Canon.SearchSibling
  Canon.SearchLink Canon.SearchInvT Canon.SearchVCT Canon.SearchInvV Canon.SearchVCV Canon.SearchPrune
  Canon.SearchGroup Canon.SearchCutW Canon.SearchInvP Canon.SearchVCP1 Canon.SearchVCP2 Canon.SearchVCP3
  Canon.SearchVCP4 Canon.SearchInit Canon.SearchTerm Canon.SearchProofs Canon.SearchMax Canon.SearchTotal
  Canon.SearchReuseModel Canon.SearchReuseCap Canon.SearchReusePath Canon.SearchReuseSim.
Import ListNotations.
Open Scope nat_scope.

(* ---------------------------------------------------------------- the loops in lockstep *)

Section Loops.
Variable g : graph.
Variables n m : nat.
Variable clsf : nat -> nat.
Variable order0 : list nat.
Variable root : part.
Variables cbB flB : list nat.
Variable gcap : nat.
Hypothesis Hg : simple g.
Hypothesis Hn : length g = n.
Hypothesis Hm : m = num_edges g.
Hypothesis Hm0 : 0 < m.
Hypothesis Hroot_eq : equitable g root.
Hypothesis Hroot_fl : forall c, In c root -> fst c = false.
Hypothesis HcbB : m <= length cbB.
Hypothesis HflB : m <= length flB.
Hypothesis Hgcap : n - 1 <= gcap.

Notation Xc := (Kc clsf order0).
Notation PPstep := (PPstep g n m clsf order0 root).
Notation PPtop := (PPtop g n m clsf order0 root).
Notation PPj := (PPj g n m clsf order0 root).
Notation PPref := (PPref g n m clsf order0 root).
Notation PPdone := (PPdone g n m clsf order0 root).
Notation Sim := (Sim g n m root).
Notation Fr := (Fr g n m clsf order0 root).

Lemma PPref_Fr : forall st, PPref st -> Fr st.
Proof.
  intros st (anc & HT & HV & HPi & _ & Hpl).
  destruct HT as ((HS & _ & _ & [HCb _]) & _). destruct HV as (_ & _ & HR & _). destruct HPi as (HL & HW & _).
  split; [exact HR|]. split; [exact Hpl|]. split; [exact HCb|]. exists anc. split; [|exact HS].
  split; [exact HL|]. split; [exact HW|]. destruct HS as (_ & _ & HNo & _). exact HNo.
Qed.

Lemma jloop_sim : forall jj st sr, PPj st jj -> Sim st sr ->
  rel_res (fun (a b : sstate * bool) => snd b = snd a /\ Sim (fst a) (fst b) /\ (if snd a then PPref (fst a) else PPj (fst a) 0))
    (jloop g n m jj st) (jloop_r g n cbB flB jj sr).
Proof.
  induction jj as [|j IH]; intros st sr HP HS; simpl.
  - eexists. split; [reflexivity|]. cbn [fst snd]. auto.
  - eapply rel_bind; [apply (jbody_sim g n m clsf order0 root cbB flB gcap Hg Hn Hm Hm0 HcbB HflB Hgcap j st sr HP HS)|].
    intros [st1 b] [sr1 b'] EJ [Eb HS1]. cbn [fst snd] in *. subst b'. destruct b.
    + simpl. eexists. split; [reflexivity|]. cbn [fst snd]. split; [reflexivity|]. split; [exact HS1|].
      eapply VCP_jstep; eassumption.
    + apply IH; [eapply VCP_jcont; eassumption|exact HS1].
Qed.

(* results of stepLoop in the two runs *)
Definition step_rel (a : stepres) (b : sstate + sstate) : Prop :=
  match a, b with
  | Stepped st', inl sr' => Sim st' sr' /\ PPref st'
  | Done p o gs, inr srf => p = s_cbPerm srf /\ o = s_flOrb srf /\ gs = s_gens srf
  | _, _ => False
  end.

Lemma steploop_sim : forall k st sr, PPstep st -> Sim st sr ->
  rel_res step_rel (steploop g n m k st) (steploop_r g n cbB flB k sr).
Proof.
  induction k as [|k IH]; intros st sr HP HS; simpl; rewrite (sim_path _ _ _ _ _ _ HS);
    destruct (last_opt (s_path st)) as [top|] eqn:ET.
  - reflexivity.
  - simpl. eexists. split; [reflexivity|]. simpl.
    destruct (VCP_done g n m clsf order0 root st HP ET) as ((_ & _ & Hcb) & _).
    destruct (sim_post _ _ _ _ _ _ HS Hcb) as (E1 & _ & _ & _ & _ & E6 & _).
    rewrite E1, E6, (sim_gens _ _ _ _ _ _ HS). auto.
  - eapply rel_bind; [apply jloop_sim; [apply VCP_jstart; assumption|exact HS]|].
    intros [st1 b] [sr1 b'] EJ (Eb & HS1 & HPb). cbn [fst snd] in *. subst b'. destruct b.
    + simpl. eexists. split; [reflexivity|]. simpl. split; assumption.
    + eapply rel_bind; [apply undo_sim; exact HS1|].
      intros st2 sr2 EU HS2. apply (IH (pop st2) (pop sr2)).
      * eapply VCP_jexit; eassumption.
      * apply pop_sim. exact HS2.
  - simpl. eexists. split; [reflexivity|]. simpl.
    destruct (VCP_done g n m clsf order0 root st HP ET) as ((_ & _ & Hcb) & _).
    destruct (sim_post _ _ _ _ _ _ HS Hcb) as (E1 & _ & _ & _ & _ & E6 & _).
    rewrite E1, E6, (sim_gens _ _ _ _ _ _ HS). auto.
Qed.

Theorem main_loop_sim : forall fuel st sr w, PPtop st w -> Sim st sr ->
  rel_res (fun (r : list nat * dset * list (list nat)) (srf : sstate) => r = (s_cbPerm srf, s_flOrb srf, s_gens srf))
    (main_loop g n m fuel st w) (main_loop_r g n m cbB flB gcap fuel sr w).
Proof.
  induction fuel as [|f IH]; intros st sr w HP HS; [reflexivity|].
  cbn -[steploop steploop_r refine_s refine_s_r leaf_step leaf_step_r push_step].
  eapply rel_bind with (R := fun st1 sr1 => PPstep st1 /\ Sim st1 sr1).
  - destruct w.
    + simpl. eexists. split; [reflexivity|]. split; [apply VCP_worse; assumption|exact HS].
    + rewrite (sim_ps _ _ _ _ _ _ HS). destruct (length (p_cells (s_ps st)) =? n) eqn:EL.
      * apply Nat.eqb_eq in EL. eapply rel_res_impl; [|apply (leaf_step_sim g n m clsf order0 root cbB flB gcap Hg Hn Hm Hm0 HcbB HflB Hgcap st sr HP EL HS)].
        intros a b Ea HSab. split; [eapply VCP_leaf; eassumption|exact HSab].
      * apply Nat.eqb_neq in EL. simpl. eexists. split; [reflexivity|].
        split; [apply VCP_push; assumption|apply push_sim; exact HS].
  - intros st1 sr1 _ [HP1 HS1]. rewrite (sim_path _ _ _ _ _ _ HS1).
    eapply rel_bind; [apply steploop_sim; assumption|].
    intros [st2|p o gs] [sr2|srf] ES Hrel; simpl in Hrel; try contradiction.
    + destruct Hrel as [HS2 HP2].
      eapply rel_bind with (R := eq).
      * rewrite (sim_cb _ _ _ _ _ _ HS2), (sim_ps _ _ _ _ _ _ HS2).
        destruct (refine_s g n m (s_cb st2) (s_fl st2) (s_ps st2)) as [r| |] eqn:ER; [|exact I|].
        -- rewrite (refine_s_sim g n m cbB flB HcbB HflB (s_cb st2) (s_fl st2) (s_fl sr2));
             [rewrite ER; simpl; eauto| |rewrite ER; discriminate].
           apply (sim_cbfl g n m clsf order0 root Hg Hn Hm); [apply PPref_Fr; exact HP2|exact HS2].
        -- rewrite (refine_s_sim g n m cbB flB HcbB HflB (s_cb st2) (s_fl st2) (s_fl sr2));
             [rewrite ER; reflexivity| |rewrite ER; discriminate].
           apply (sim_cbfl g n m clsf order0 root Hg Hn Hm); [apply PPref_Fr; exact HP2|exact HS2].
      * intros [w1 ps1] r' ER <-. cbn [fst snd]. apply IH.
        -- eapply VCP_refine; eassumption.
        -- apply Sim_set_ps. exact HS2.
    + destruct Hrel as (-> & -> & ->). simpl. eexists. split; reflexivity.
Qed.

End Loops.

(* ---------------------------------------------------------------- the whole call *)

Lemma bin_gens_length : forall n bin, bin <> [] -> length (bin_gens n bin) + 1 <= length bin.
Proof. intros n [|a [|b [|c r]]] H; simpl; try lia. congruence. Qed.

Lemma edgeless_gens_length : forall n cells, ~ In [] cells ->
  length (edgeless_gens n cells) + length cells <= length (concat cells).
Proof.
  intros n. induction cells as [|c cells IH]; intros H; simpl; [lia|].
  unfold edgeless_gens in *. simpl. rewrite !app_length.
  assert (Hc : c <> []) by (intros ->; apply H; left; reflexivity).
  pose proof (bin_gens_length n c Hc). specialize (IH ltac:(intros Hin; apply H; right; exact Hin)). lia.
Qed.

Lemma wb_length : forall (A : Type) (back live : list A), length back <= length (wb back live).
Proof. intros A back live. unfold wb. rewrite app_length, skipn_length. lia. Qed.

Lemma wb_gens_length : forall n slots gens, length (wb_gens n slots gens) = length slots.
Proof.
  intros n. induction slots as [|s slots IH]; intros [|gam gens]; simpl; try reflexivity. rewrite IH. reflexivity.
Qed.

Section Final.
Variable g : graph.
Variable cls : option (list (list nat)).
Hypothesis Hg : simple g.

Let n := length g.
Let m := num_edges g.
Let cs0 := init_cells n cls.
Let clsf := in_cell cs0.
Let order0 := order_of cs0.

Hypothesis Hcls : cls_ok n cls.

(* canon_search_init_root / canon_search_init_P of Canon/SearchProofs.v, Canon/SearchMax.v with the state
   named: what precedes the main loop establishes the invariant *)
Lemma search_init_explicit : 0 < n -> 0 < m -> forall v s w ps0,
  expand_loop (n - 0) g cs0 n m [] (repeat 0 m) [] 0 = EvOk v s ->
  refine_s g n m [] (repeat 0 m) (mkP cs0 0%Z v s) = Ok (w, ps0) ->
  w = false /\ exists root, refine g (erase cs0) = Some root /\
    PPtop g n m clsf order0 root (init_state n m ps0) false.
Proof.
  intros Hn0 Hm0 v s w ps0 EE E.
  destruct (init_cells_ok n cls Hn0 Hcls) as (HP0 & HN0 & HA0 & HG0). fold cs0 in HP0, HN0, HA0, HG0.
  assert (HO0 : length (order_of cs0) = n) by (rewrite (Permutation_length HP0); apply seq_length).
  assert (Hnd0 : NoDup (order_of cs0)) by (apply (Permutation_NoDup (Permutation_sym HP0)), seq_NoDup).
  pose proof (expand_loop_spec g n m cs0 [] (repeat 0 m) HN0 HO0 (n - 0) 0 [] ltac:(lia) ltac:(lia)
                ltac:(intros k c Hk; lia) eq_refl) as HE.
  rewrite EE in HE. destruct HE as [HC0 _].
  assert (Hw : w = false) by (unfold refine_s in E; eapply refine_loop_nil; exact E). subst w.
  split; [reflexivity|].
  destruct (refine_s_spec _ _ _ _ _ _ _ _ E) as (HV & Hage & HW). destruct (HW eq_refl) as [HU HRf]. cbn [p_cells p_age] in *.
  pose proof E as E'. unfold refine_s in E'. cbn [p_cells] in E'.
  destruct (refine_loop_V g n m [] (repeat 0 m) _ (mkP cs0 0%Z v s) false ps0 HN0 HO0 HC0 E') as [_ HCl].
  set (root := erase (p_cells ps0)) in *.
  exists root. split; [exact HRf|].
  assert (H3 : VPtop g n m clsf order0 root (init_state n m ps0) false).
  { unfold init_state. split; [|split; [|split; [|split]]].
    - split; [|split; [reflexivity|intros _; split; [exact HU|apply rd_refl]]].
      exists []. cbn [s_path s_choices s_skip s_ps]. split; [|split; [|split]].
      + split; [reflexivity|]. split; [reflexivity|]. split; [intros k P HkP; destruct k; discriminate|].
        split; [intros k P P' HkP; destruct k; discriminate|intros k P Hk; simpl in Hk; lia].
      + split; [eapply perm_trans; [eapply V_order; exact HV|exact HP0]|]. split; [eapply V_nonempty; eassumption|].
        split; [eapply V_casc; eassumption|]. split; [eapply (Kc_V clsf order0); [exact HV|apply Kc_init; exact Hnd0]|].
        split; [exact Hage|]. split; [eapply V_ages; [exact HV|unfold zl; simpl; lia|exact HG0]|exact I].
      + intros top Ht. discriminate.
      + split; [cbn; apply repeat_length|]. intros Hc. cbn in Hc. congruence.
    - unfold SearchInvV.vst. cbn [s_skip s_path s_ps s_cb s_fl]. apply clean_vinv. exact HCl.
    - constructor; cbn [s_cbInv s_flInv s_fl s_flOrb s_cb s_count s_gens s_cbPerm].
      + rewrite !repeat_length. unfold new. rewrite repeat_length. repeat split.
      + split; [split; reflexivity|reflexivity].
      + intros Hc. congruence.
      + intros Hc. congruence.
      + constructor.
      + exists []. split; [apply new_Rep|]. split; [intros x y []|intros gm x []].
    - intros _. split; [exact HCl|]. intros Hc. cbn in Hc. congruence.
    - reflexivity. }
  pose proof H3 as (((anc & HTs) & Hsk & HTw) & _).
  assert (Eanc : anc = []).
  { destruct HTs as ((HL & _) & _). cbn in HL. destruct anc; [reflexivity|discriminate]. }
  subst anc. exists []. split; [split; [exact HTs|split; [exact Hsk|exact HTw]]|]. split; [exact H3|].
  split; [|split; [|split; [|split; [|split]]]].
  - split; [reflexivity|]. split; [intros k P HP; destruct k; discriminate|].
    split; [intros k P i HP; destruct k; discriminate|]. intros Hcb. cbn in Hcb. congruence.
  - intros P HP. discriminate.
  - split; cbn; apply repeat_length.
  - reflexivity.
  - intros _. cbn. reflexivity.
  - discriminate.
Qed.

(* the main theorem on the bins of NewOrderedPartition/Reset: for ANY contents of the storage *)
Theorem canon_alloc_sim : forall fuel st, storage_caps st n m ->
  rel_res (fun r (r' : result * storage) => fst r' = r) (canon_search fuel g cls) (canon_alloc fuel st g cls).
Proof.
  intros fuel st (C0 & C1 & C2 & C3 & C4 & C5 & C6 & C7 & C8 & C9 & C10 & C11 & C12 & C13 & C14 & C15).
  unfold canon_search, canon_alloc, canon_alloc_cells. fold n m cs0.
  destruct (n =? 0) eqn:En; [simpl; eauto|]. apply Nat.eqb_neq in En. assert (Hn0 : 0 < n) by lia.
  destruct (m =? 0) eqn:Em.
  - (* no edges *)
    destruct (reslice_some _ (st_cbPerm st) n C3) as [-> L1]. destruct (reslice_some _ (st_flOrb st) n C8) as [-> L2].
    cbn [of_opt bind].
    destruct (SearchAut.cells0_ok g cls Hcls Hn0) as [Hok _]. fold n cs0 in Hok.
    destruct (init_cells_ok n cls Hn0 Hcls) as (HP0 & _). fold cs0 in HP0.
    assert (Ec : concat (map cverts cs0) = order_of cs0) by (rewrite order_of_flat, flat_map_concat_map; reflexivity).
    assert (HO0 : length (order_of cs0) = n) by (rewrite (Permutation_length HP0); apply seq_length).
    pose proof (edgeless_gens_length n (map cverts cs0) ltac:(apply Hok)) as HG. rewrite Ec, HO0 in HG.
    assert (Hc1 : 1 <= length (map cverts cs0)).
    { destruct (map cverts cs0) eqn:E0; [simpl in Ec; rewrite <- Ec in HO0; simpl in HO0; lia|simpl; lia]. }
    assert (EG : length (st_gens st) <? length (edgeless_gens n (map cverts cs0)) = false) by (apply Nat.ltb_ge; lia).
    rewrite EG. simpl. eexists. split; [reflexivity|]. cbn [fst].
    rewrite copy_into_same_length by lia.
    destruct (GroupEdgeless.edgeless_ds_spec n (map cverts cs0) (new n) Hok ltac:(unfold new; apply repeat_length)) as (_ & _ & _ & HI).
    rewrite (HI (firstn n (st_flOrb st)) L2). reflexivity.
  - (* the search *)
    apply Nat.eqb_neq in Em. assert (Hm0 : 0 < m) by lia.
    unfold alloc_state.
    destruct (reslice_some _ (st_cbPath st) n C2) as [-> L2]. destruct (reslice_some _ (st_cbPerm st) n C3) as [-> L3].
    destruct (reslice_some _ (st_cbInv st) n C4) as [-> L4]. destruct (reslice_some _ (st_cbOrb st) n C5) as [-> L5].
    destruct (reslice_some _ (st_fl st) m C6) as [-> L6]. destruct (reslice_some _ (st_flInv st) n C7) as [-> L7].
    destruct (reslice_some _ (st_flOrb st) n C8) as [-> L8]. destruct (reslice_some _ (st_flPath st) n C9) as [-> L9].
    destruct (reslice_some _ (st_space st) n C10) as [-> _]. destruct (reslice_some _ (st_dws st) n C11) as [-> _].
    destruct (reslice_some _ (st_nbs st) n C12) as [-> _]. destruct (reslice_some _ (st_timesSeen st) n C13) as [-> _].
    destruct (reslice_some _ (st_maxCell st) n C14) as [-> _]. destruct (reslice_some _ (st_numberOfMax st) n C15) as [-> _].
    cbn [of_opt bind s_fl set_ps s_path s_choices s_count s_cb s_cbPath s_cbPerm s_cbInv s_cbOrb s_flPath s_flInv s_flOrb s_gens s_skip].
    unfold expand_value.
    destruct (expand_loop (n - 0) g cs0 n m [] (repeat 0 m) [] 0) as [|v s|v s] eqn:EE; [exact I| |].
    { exfalso. eapply expand_loop_nil. exact EE. }
    rewrite (expand_value_sim g n m (st_cb st) (st_fl st) C1 C6 cs0 [] (repeat 0 m) (firstn m (st_fl st)) [] 0);
      [|left; reflexivity|unfold expand_value; rewrite EE; discriminate].
    unfold expand_value. rewrite EE.
    destruct (refine_s g n m [] (repeat 0 m) (mkP cs0 0%Z v s)) as [[w ps0]| |] eqn:E.
    + rewrite (refine_s_sim g n m (st_cb st) (st_fl st) C1 C6 [] (repeat 0 m) (firstn m (st_fl st)));
        [|left; reflexivity|rewrite E; discriminate].
      rewrite E. cbn [bind fst snd]. unfold set_ps.
      cbn [s_path s_choices s_count s_cb s_cbPath s_cbPerm s_cbInv s_cbOrb s_fl s_flPath s_flInv s_flOrb s_gens s_skip].
      destruct (search_init_explicit Hn0 Hm0 v s w ps0 EE E) as (-> & root & HRf & HTop).
      destruct (root_equitable g cls Hcls root HRf) as [Heq Hfl].
      set (sr := mkS ps0 [] [] 0 [] (firstn n (st_cbPath st)) (firstn n (st_cbPerm st)) (firstn n (st_cbInv st))
                     (firstn n (st_cbOrb st)) (firstn m (st_fl st)) (firstn n (st_flPath st)) (firstn n (st_flInv st))
                     (firstn n (st_flOrb st)) [] false).
      assert (HS : Sim g n m root (init_state n m ps0) sr).
      { unfold init_state, sr. constructor;
          cbn [s_ps s_path s_choices s_count s_cb s_gens s_skip s_cbPerm s_cbInv s_cbOrb s_fl s_flInv s_flOrb s_cbPath s_flPath];
          try reflexivity; [|intros H; congruence].
        intros _. unfold lens. cbn [s_cbPerm s_cbInv s_fl s_flInv s_flOrb s_cbPath s_flPath]. repeat split; assumption. }
      pose proof (main_loop_sim g n m clsf order0 root (st_cb st) (st_fl st) (length (st_gens st)) Hg eq_refl eq_refl Hm0 Heq Hfl
                    C1 C6 C0 fuel (init_state n m ps0) sr false HTop HS) as HM.
      fold sr.
      destruct (main_loop g n m fuel (init_state n m ps0) false) as [r| |]; simpl in HM |- *; [|exact I|].
      * destruct HM as (srf & -> & ->). simpl. eexists. split; reflexivity.
      * rewrite HM. reflexivity.
    + exact I.
    + exfalso. destruct (init_cells_ok n cls Hn0 Hcls) as (_ & HN0 & _). fold cs0 in HN0.
      eapply (nofuel_refine_s g n m [] (repeat 0 m) (mkP cs0 0%Z v s)); [exact HN0|exact E].
Qed.

(* permutation, orbit array and generators of the call on the reused storage = those of the fresh call *)
Theorem reuse_noninterference : forall fuel st, storage_caps st n m ->
  res_map fst (canon_alloc fuel st g cls) = canon_search fuel g cls.
Proof.
  intros fuel st HC. pose proof (canon_alloc_sim fuel st HC) as H.
  pose proof (canon_search_total g cls Hg Hcls fuel) as HT.
  destruct (canon_search fuel g cls) as [r| |]; simpl in H; [|congruence|].
  - destruct H as (r' & -> & <-). reflexivity.
  - rewrite H. reflexivity.
Qed.

End Final.
