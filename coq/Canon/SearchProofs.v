(* Canon/SearchProofs.v — what every result of the model of CanonicalIsomorphAllocated satisfies
   (any fuel, any simple graph, any vertex classes): the returned permutation is a permutation
   and a leaf of the unpruned tree of Canon/Model.v, the generators are class-preserving
   automorphisms, the returned union-find array represents exactly the orbits of the group they
   generate. *)
From Coq Require Import List Arith Bool ZArith Lia Permutation Sorted.
From Mamba Require Canon.AutBase Canon.Aut Canon.Group Canon.Orbit Canon.GroupEdgeless.
From Mamba Require Import Canon.Perm Canon.Iso Canon.Model Canon.Refine Canon.Sorted Canon.Tree Canon.Fuel
  Disjoint.Model Disjoint.Proofs Canon.SearchModel Canon.SearchHoare Canon.SearchCells Canon.SearchTarget
  Canon.SearchDeage Canon.SearchRefine Canon.SearchExec Canon.SearchValue Canon.SearchExpand Canon.SearchCert
  Canon.SearchInvT Canon.SearchVCT Canon.SearchInvV Canon.SearchVCV Canon.SearchInit.
Import ListNotations.
Open Scope nat_scope.

Section Final.
Variable g : graph.
Variable cls : option (list (list nat)).
Hypothesis Hg : simple g.

Let n := length g.
Let m := num_edges g.
Let cs0 := init_cells n cls.
Let clsf := in_cell cs0.
Let order0 := order_of cs0.

Hypothesis Hcls : cls_ok n cls.

(* the branch that runs the search: n > 0 and m > 0 *)
Lemma search_dfs : forall fuel p o gs, 0 < n -> 0 < m -> canon_search fuel g cls = Ok (p, o, gs) ->
  exists root st', refine g (erase cs0) = Some root /\ VPdone g n m clsf order0 root st' /\
    p = s_cbPerm st' /\ o = s_flOrb st' /\ gs = s_gens st'.
Proof.
  intros fuel p o gs Hn0 Hm0 H. unfold canon_search in H. fold n m cs0 in H.
  assert (En : n =? 0 = false) by (apply Nat.eqb_neq; lia). assert (Em : m =? 0 = false) by (apply Nat.eqb_neq; lia).
  rewrite En, Em in H.
  destruct (init_cells_ok n cls Hn0 Hcls) as (HP0 & HN0 & HA0 & HG0). fold cs0 in HP0, HN0, HA0, HG0.
  assert (HO0 : length (order_of cs0) = n) by (rewrite (Permutation_length HP0); apply seq_length).
  assert (Hnd0 : NoDup (order_of cs0)) by (apply (Permutation_NoDup (Permutation_sym HP0)), seq_NoDup).
  pose proof (expand_loop_spec g n m cs0 [] (repeat 0 m) HN0 HO0 (n - 0) 0 [] ltac:(lia) ltac:(lia)
                ltac:(intros k c Hk; lia) eq_refl) as HE.
  unfold expand_value in H.
  destruct (expand_loop (n - 0) g cs0 n m [] (repeat 0 m) [] 0) as [|v|v s] eqn:EE; [discriminate| |].
  { exfalso. eapply expand_loop_nil. exact EE. }
  destruct HE as [HC0 _].
  bind_inv H. destruct r as [w ps0]. cbn [fst snd] in H.
  assert (Hw : w = false) by (unfold refine_s in E; eapply refine_loop_nil; exact E). subst w.
  destruct (refine_s_spec _ _ _ _ _ _ _ _ E) as (HV & Hage & HW). destruct (HW eq_refl) as [HU HRf]. cbn [p_cells p_age] in *.
  unfold refine_s in E. cbn [p_cells] in E.
  destruct (refine_loop_V g n m [] (repeat 0 m) _ (mkP cs0 0%Z v s) false ps0 HN0 HO0 HC0 E) as [_ HCl].
  set (root := erase (p_cells ps0)) in *.
  exists root.
  assert (HTop : VPtop g n m clsf order0 root (init_state n m ps0) false).
  { unfold init_state. split; [|split; [|split; [|split]]].
    - (* first layer *)
      split; [|split; [reflexivity|intros _; split; [exact HU|apply rd_refl]]].
      exists []. cbn [s_path s_choices s_skip s_ps]. split; [|split; [|split]].
      + split; [reflexivity|]. split; [reflexivity|]. split; [intros k P HkP; destruct k; discriminate|].
        split; [intros k P P' HkP; destruct k; discriminate|intros k P Hk; simpl in Hk; lia].
      + split; [eapply perm_trans; [eapply V_order; exact HV|exact HP0]|]. split; [eapply V_nonempty; eassumption|].
        split; [eapply V_casc; eassumption|]. split; [eapply (Kc_V clsf order0); [exact HV|apply Kc_init; exact Hnd0]|].
        split; [exact Hage|]. split; [eapply V_ages; [exact HV|unfold zl; simpl; lia|exact HG0]|exact I].
      + intros top Ht. discriminate.
      + split; [cbn; apply repeat_length|]. intros Hc. cbn in Hc. congruence.
    - unfold SearchInvV.vst. cbn [s_skip s_path s_ps s_cb s_fl]. apply clean_vinv. exact HCl.
    - constructor; cbn [s_cbInv s_flInv s_fl s_flOrb s_cb s_count s_gens s_cbPerm].
      + rewrite !repeat_length. unfold new. rewrite repeat_length. repeat split.
      + split; [split; reflexivity|reflexivity].
      + intros Hc. congruence.
      + intros Hc. congruence.
      + constructor.
      + exists []. split; [apply new_Rep|]. split; [intros x y []|intros gm x []].
    - intros _. split; [exact HCl|]. intros Hc. cbn in Hc. congruence.
    - reflexivity. }
  destruct (search_V g n m clsf order0 root Hg eq_refl eq_refl Hm0 fuel _ _ p o gs HTop H) as (st' & HD & E1 & E2 & E3).
  exists st'. split; [exact HRf|]. split; [exact HD|]. auto.
Qed.

(* ---------------------------------------------------------------- (a) the permutation *)

Theorem search_perm : forall fuel p o gs, canon_search fuel g cls = Ok (p, o, gs) -> Permutation p (seq 0 n).
Proof.
  intros fuel p o gs H. destruct (Nat.eq_dec n 0) as [E0|E0].
  - unfold canon_search in H. fold n in H. rewrite E0 in H. simpl in H. inversion H. rewrite E0. constructor.
  - destruct (Nat.eq_dec m 0) as [Em|Em].
    + unfold canon_search in H. fold n m cs0 in H.
      assert (En : n =? 0 = false) by (apply Nat.eqb_neq; lia). rewrite En, Em in H. simpl in H. inversion H.
      apply (init_cells_ok n cls ltac:(lia) Hcls).
    + destruct (search_dfs fuel p o gs ltac:(lia) ltac:(lia) H) as (root & st' & _ & (_ & HR & Hcb) & -> & _).
      destruct (r_best _ _ _ _ _ _ HR Hcb) as (csb & [_ HP] & _ & -> & _). exact HP.
Qed.

(* ---------------------------------------------------------------- (d) a leaf of the unpruned tree *)

Theorem search_leaf : forall fuel p o gs, 0 < m -> canon_search fuel g cls = Ok (p, o, gs) ->
  exists root, refine g (erase cs0) = Some root /\ In (Some p) (leaves n g root).
Proof.
  intros fuel p o gs Hm0 H.
  assert (Hn0 : 0 < n).
  { destruct (Nat.eq_dec n 0) as [E0|]; [|lia]. exfalso. unfold m, num_edges in Hm0. fold n in Hm0. rewrite E0 in Hm0. simpl in Hm0. lia. }
  destruct (search_dfs fuel p o gs Hn0 Hm0 H) as (root & st' & HRf & ([_ HCb] & _ & Hcb) & -> & _).
  exists root. split; [exact HRf|]. destruct (HCb Hcb) as (Q & HD & HT & ->).
  destruct (init_cells_ok n cls Hn0 Hcls) as (HP0 & HN0 & _). fold cs0 in HP0, HN0.
  assert (Hne : ne (erase cs0)) by (apply nonempty_ne; exact HN0).
  destruct (refine_total g _ Hne) as (Q0 & EQ & NQ & LQ). rewrite HRf in EQ. inversion EQ; subst Q0.
  pose proof (refine_verts _ _ _ HRf) as HVs.
  assert (HPr : Permutation (verts root) (seq 0 n)) by (eapply perm_trans; [exact HVs|exact HP0]).
  apply rdesc_leaf; [exact HD|exact HT|exact NQ| |].
  - apply (Permutation_NoDup (Permutation_sym HPr)), seq_NoDup.
  - rewrite (Permutation_length HPr), seq_length. lia.
Qed.

End Final.
