(* Canon/SearchProofs.v — what every result of the model of CanonicalIsomorphAllocated satisfies
   (any fuel, any simple graph, any vertex classes): the returned permutation is a permutation
   and a leaf of the unpruned tree of Canon/Model.v, the generators are class-preserving
   automorphisms, the returned union-find array represents exactly the orbits of the group they
   generate. *)
From Coq Require Import List Arith Bool ZArith Lia Permutation Sorted.
From Mamba Require Canon.AutBase Canon.Aut Canon.Group Canon.Orbit Canon.GroupEdgeless.
From Mamba Require Import Canon.Perm Canon.Iso Canon.Model Canon.Refine Canon.Sorted Canon.Tree Canon.Fuel
  Disjoint.Model Disjoint.Proofs Canon.SearchModel Canon.SearchHoare Canon.SearchCells Canon.SearchTarget
  Canon.SearchDeage Canon.SearchRefine Canon.SearchExec Canon.SearchValue Canon.SearchExpand Canon.SearchCert
  Canon.SearchInvT Canon.SearchVCT Canon.SearchInvV Canon.SearchVCV Canon.SearchInit Canon.SearchTerm.
Import ListNotations.
Open Scope nat_scope.

Section Final.
Variable g : graph.
Variable cls : option (list (list nat)).
Hypothesis Hg : simple g.

Let n := length g.
Let m := num_edges g.
Let cs0 := init_cells n cls.
Let clsf := in_cell cs0.
Let order0 := order_of cs0.

Hypothesis Hcls : cls_ok n cls.

(* the branch that runs the search: n > 0 and m > 0.  What precedes the main loop either panics
   (whatever the fuel) or establishes the invariant. *)
Lemma canon_search_init_root : 0 < n -> 0 < m ->
  (forall fuel, canon_search fuel g cls = Panic) \/
  exists ps0 root, (forall fuel, canon_search fuel g cls = main_loop g n m fuel (init_state n m ps0) false) /\
    refine g (erase cs0) = Some root /\ VPtop g n m clsf order0 root (init_state n m ps0) false /\
    root = erase (p_cells ps0).
Proof.
  intros Hn0 Hm0.
  assert (En : n =? 0 = false) by (apply Nat.eqb_neq; lia). assert (Em : m =? 0 = false) by (apply Nat.eqb_neq; lia).
  destruct (init_cells_ok n cls Hn0 Hcls) as (HP0 & HN0 & HA0 & HG0). fold cs0 in HP0, HN0, HA0, HG0.
  assert (HO0 : length (order_of cs0) = n) by (rewrite (Permutation_length HP0); apply seq_length).
  assert (Hnd0 : NoDup (order_of cs0)) by (apply (Permutation_NoDup (Permutation_sym HP0)), seq_NoDup).
  pose proof (expand_loop_spec g n m cs0 [] (repeat 0 m) HN0 HO0 (n - 0) 0 [] ltac:(lia) ltac:(lia)
                ltac:(intros k c Hk; lia) eq_refl) as HE.
  destruct (expand_loop (n - 0) g cs0 n m [] (repeat 0 m) [] 0) as [|v|v s] eqn:EE.
  { left. intros fuel. unfold canon_search. fold n m cs0. rewrite En, Em. unfold expand_value. rewrite EE. reflexivity. }
  { exfalso. eapply expand_loop_nil. exact EE. }
  destruct HE as [HC0 _].
  destruct (refine_s g n m [] (repeat 0 m) (mkP cs0 0%Z v s)) as [[w ps0]| |] eqn:E.
  2:{ left. intros fuel. unfold canon_search. fold n m cs0. rewrite En, Em. unfold expand_value. rewrite EE, E. reflexivity. }
  2:{ exfalso. eapply (SearchTerm.nofuel_refine_s g n m [] (repeat 0 m) (mkP cs0 0%Z v s)); [exact HN0|exact E]. }
  right.
  assert (Hw : w = false) by (unfold refine_s in E; eapply refine_loop_nil; exact E). subst w.
  destruct (refine_s_spec _ _ _ _ _ _ _ _ E) as (HV & Hage & HW). destruct (HW eq_refl) as [HU HRf]. cbn [p_cells p_age] in *.
  pose proof E as E'. unfold refine_s in E'. cbn [p_cells] in E'.
  destruct (refine_loop_V g n m [] (repeat 0 m) _ (mkP cs0 0%Z v s) false ps0 HN0 HO0 HC0 E') as [_ HCl].
  set (root := erase (p_cells ps0)) in *.
  exists ps0, root. split; [|split; [exact HRf|split; [|reflexivity]]].
  { intros fuel. unfold canon_search. fold n m cs0. rewrite En, Em. unfold expand_value. rewrite EE, E. reflexivity. }
  unfold init_state. split; [|split; [|split; [|split]]].
  - (* first layer *)
    split; [|split; [reflexivity|intros _; split; [exact HU|apply rd_refl]]].
    exists []. cbn [s_path s_choices s_skip s_ps]. split; [|split; [|split]].
    + split; [reflexivity|]. split; [reflexivity|]. split; [intros k P HkP; destruct k; discriminate|].
      split; [intros k P P' HkP; destruct k; discriminate|intros k P Hk; simpl in Hk; lia].
    + split; [eapply perm_trans; [eapply V_order; exact HV|exact HP0]|]. split; [eapply V_nonempty; eassumption|].
      split; [eapply V_casc; eassumption|]. split; [eapply (Kc_V clsf order0); [exact HV|apply Kc_init; exact Hnd0]|].
      split; [exact Hage|]. split; [eapply V_ages; [exact HV|unfold zl; simpl; lia|exact HG0]|exact I].
    + intros top Ht. discriminate.
    + split; [cbn; apply repeat_length|]. intros Hc. cbn in Hc. congruence.
  - unfold SearchInvV.vst. cbn [s_skip s_path s_ps s_cb s_fl]. apply clean_vinv. exact HCl.
  - constructor; cbn [s_cbInv s_flInv s_fl s_flOrb s_cb s_count s_gens s_cbPerm].
    + rewrite !repeat_length. unfold new. rewrite repeat_length. repeat split.
    + split; [split; reflexivity|reflexivity].
    + intros Hc. congruence.
    + intros Hc. congruence.
    + constructor.
    + exists []. split; [apply new_Rep|]. split; [intros x y []|intros gm x []].
  - intros _. split; [exact HCl|]. intros Hc. cbn in Hc. congruence.
  - reflexivity.
Qed.

Lemma canon_search_init : 0 < n -> 0 < m ->
  (forall fuel, canon_search fuel g cls = Panic) \/
  exists ps0 root, (forall fuel, canon_search fuel g cls = main_loop g n m fuel (init_state n m ps0) false) /\
    refine g (erase cs0) = Some root /\ VPtop g n m clsf order0 root (init_state n m ps0) false.
Proof.
  intros Hn0 Hm0. destruct (canon_search_init_root Hn0 Hm0) as [HP|(ps0 & root & H1 & H2 & H3 & _)]; [left; exact HP|].
  right. exists ps0, root. auto.
Qed.

Lemma search_dfs : forall fuel p o gs, 0 < n -> 0 < m -> canon_search fuel g cls = Ok (p, o, gs) ->
  exists root st', refine g (erase cs0) = Some root /\ VPdone g n m clsf order0 root st' /\
    p = s_cbPerm st' /\ o = s_flOrb st' /\ gs = s_gens st'.
Proof.
  intros fuel p o gs Hn0 Hm0 H. destruct (canon_search_init Hn0 Hm0) as [HP|(ps0 & root & HE & HRf & HTop)].
  - rewrite HP in H. discriminate.
  - rewrite HE in H. exists root.
    destruct (search_V g n m clsf order0 root Hg eq_refl eq_refl Hm0 fuel _ _ p o gs HTop H) as (st' & HD & E1 & E2 & E3).
    exists st'. split; [exact HRf|]. split; [exact HD|]. auto.
Qed.

(* ---------------------------------------------------------------- (a) the permutation *)

Theorem search_perm : forall fuel p o gs, canon_search fuel g cls = Ok (p, o, gs) -> Permutation p (seq 0 n).
Proof.
  intros fuel p o gs H. destruct (Nat.eq_dec n 0) as [E0|E0].
  - unfold canon_search in H. fold n in H. rewrite E0 in H. simpl in H. inversion H. rewrite E0. constructor.
  - destruct (Nat.eq_dec m 0) as [Em|Em].
    + unfold canon_search in H. fold n m cs0 in H.
      assert (En : n =? 0 = false) by (apply Nat.eqb_neq; lia). rewrite En, Em in H. simpl in H. inversion H.
      apply (init_cells_ok n cls ltac:(lia) Hcls).
    + destruct (search_dfs fuel p o gs ltac:(lia) ltac:(lia) H) as (root & st' & _ & (_ & HR & Hcb) & -> & _).
      destruct (r_best _ _ _ _ _ _ HR Hcb) as (csb & [_ HP] & _ & -> & _). exact HP.
Qed.

(* ---------------------------------------------------------------- (d) a leaf of the unpruned tree *)

Theorem search_leaf : forall fuel p o gs, 0 < m -> canon_search fuel g cls = Ok (p, o, gs) ->
  exists root, refine g (erase cs0) = Some root /\ In (Some p) (leaves n g root).
Proof.
  intros fuel p o gs Hm0 H.
  assert (Hn0 : 0 < n).
  { destruct (Nat.eq_dec n 0) as [E0|]; [|lia]. exfalso. unfold m, num_edges in Hm0. fold n in Hm0. rewrite E0 in Hm0. simpl in Hm0. lia. }
  destruct (search_dfs fuel p o gs Hn0 Hm0 H) as (root & st' & HRf & ([_ HCb] & _ & Hcb) & -> & _).
  exists root. split; [exact HRf|]. destruct (HCb Hcb) as (Q & HD & HT & ->).
  destruct (init_cells_ok n cls Hn0 Hcls) as (HP0 & HN0 & _). fold cs0 in HP0, HN0.
  assert (Hne : ne (erase cs0)) by (apply nonempty_ne; exact HN0).
  destruct (refine_total g _ Hne) as (Q0 & EQ & NQ & LQ). rewrite HRf in EQ. inversion EQ; subst Q0.
  pose proof (refine_verts _ _ _ HRf) as HVs.
  assert (HPr : Permutation (verts root) (seq 0 n)) by (eapply perm_trans; [exact HVs|exact HP0]).
  apply rdesc_leaf; [exact HD|exact HT|exact NQ| |].
  - apply (Permutation_NoDup (Permutation_sym HPr)), seq_NoDup.
  - rewrite (Permutation_length HPr), seq_length. lia.
Qed.

(* ---------------------------------------------------------------- the fuel suffices *)

Definition search_fuel (k : nat) : nat := S (Nn (S k) k).

Theorem search_terminates : forall fuel, search_fuel n <= fuel ->
  canon_search fuel g cls <> Fuel /\ canon_search fuel g cls = canon_search (search_fuel n) g cls.
Proof.
  intros fuel Hf. destruct (Nat.eq_dec n 0) as [E0|E0].
  - unfold canon_search. fold n. rewrite E0. simpl. split; [discriminate|reflexivity].
  - destruct (Nat.eq_dec m 0) as [Em|Em].
    + unfold canon_search. fold n m. assert (En : n =? 0 = false) by (apply Nat.eqb_neq; lia). rewrite En, Em. simpl.
      split; [discriminate|reflexivity].
    + destruct (canon_search_init ltac:(lia) ltac:(lia)) as [HP|(ps0 & root & HE & _ & HTop)].
      * rewrite !HP. split; [discriminate|reflexivity].
      * rewrite !HE. destruct HTop as (HT & _).
        assert (HNF : nofuel (main_loop g n m (search_fuel n) (init_state n m ps0) false)).
        { apply (main_nofuel g n m root (Kc clsf order0) (Kc_V clsf order0)); [exact HT|].
          assert (E : mu (S n) n (s_path (init_state n m ps0)) = Nn (S n) n) by apply mu_nil. rewrite E. unfold search_fuel. lia. }
        rewrite (main_loop_mono_le g n m _ _ _ _ Hf HNF). split; [exact HNF|reflexivity].
Qed.

End Final.
