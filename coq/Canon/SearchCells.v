(* Canon/SearchCells.v — lists of aged bins: order, location of a position, sortedness, and the
   relation [R a child parent] "child is what the partition parent has become by splitting at
   age a", which deage undoes. *)
From Coq Require Import List Arith Bool ZArith Lia Permutation Sorted.
From Mamba Require Import Canon.Perm Canon.Iso Canon.Model Canon.Refine Canon.Sorted Canon.Fuel
  Disjoint.Model Canon.SearchModel.
Import ListNotations.
Open Scope nat_scope.

(* ---------------------------------------------------------------- basic facts *)

Lemma order_of_nil : order_of [] = [].
Proof. reflexivity. Qed.

Lemma order_of_cons : forall c cs, order_of (c :: cs) = cverts c ++ order_of cs.
Proof. intros [a [f v]] cs. reflexivity. Qed.

Lemma order_of_app : forall a b, order_of (a ++ b) = order_of a ++ order_of b.
Proof. intros. unfold order_of, erase. rewrite map_app. apply verts_app. Qed.

Lemma order_of_concat : forall gs, order_of (concat gs) = flat_map order_of gs.
Proof. induction gs as [|x gs IH]; simpl; [reflexivity|]. rewrite order_of_app, IH. reflexivity. Qed.

Lemma order_of_flat : forall cs, order_of cs = flat_map cverts cs.
Proof. induction cs as [|c cs IH]; [reflexivity|]. rewrite order_of_cons, IH. reflexivity. Qed.

Lemma erase_app : forall a b, erase (a ++ b) = erase a ++ erase b.
Proof. intros. unfold erase. apply map_app. Qed.

Lemma erase_length : forall cs, length (erase cs) = length cs.
Proof. intros. unfold erase. apply map_length. Qed.

Definition nonempty (cs : list acell) : Prop := Forall (fun c => cverts c <> []) cs.
Definition casc (cs : list acell) : Prop := Forall (fun c => asc (cverts c)) cs.
Definition unflagged (cs : list acell) : Prop := Forall (fun c => cflag c = false) cs.
Definition ages_le (a : Z) (cs : list acell) : Prop := Forall (fun c => (cage c <= a)%Z) cs.

Lemma nonempty_ne : forall cs, nonempty cs <-> ne (erase cs).
Proof.
  intros cs. unfold nonempty, ne, erase. induction cs as [|[a [f v]] cs IH]; simpl.
  - split; constructor.
  - split; intros H; inversion H; subst; constructor; try assumption; apply IH; assumption.
Qed.

(* ---------------------------------------------------------------- locate *)

Lemma locate_spec : forall cs i b c k a, locate cs i = Some (b, c, k, a) ->
  cs = b ++ c :: a /\ k < length (cverts c) /\ i = length (order_of b) + k.
Proof.
  induction cs as [|c0 cs IH]; intros i b c k a H; simpl in H; [discriminate|].
  destruct (i <? length (cverts c0)) eqn:E.
  - inversion H; subst. apply Nat.ltb_lt in E. repeat split; try reflexivity; assumption.
  - apply Nat.ltb_ge in E.
    destruct (locate cs (i - length (cverts c0))) as [[[[b1 c1] k1] a1]|] eqn:EL; [|discriminate].
    inversion H; subst. destruct (IH _ _ _ _ _ EL) as [E1 [E2 E3]]. subst cs.
    repeat split; [assumption|]. rewrite order_of_cons, app_length. lia.
Qed.

Lemma locate_found : forall b c a k, k < length (cverts c) ->
  locate (b ++ c :: a) (length (order_of b) + k) = Some (b, c, k, a).
Proof.
  induction b as [|c0 b IH]; intros c a k Hk; simpl.
  - apply Nat.ltb_lt in Hk. rewrite Hk. reflexivity.
  - rewrite order_of_cons, app_length.
    destruct (length (cverts c0) + length (order_of b) + k <? length (cverts c0)) eqn:E.
    + apply Nat.ltb_lt in E. lia.
    + replace (length (cverts c0) + length (order_of b) + k - length (cverts c0))
        with (length (order_of b) + k) by lia.
      rewrite (IH c a k Hk). reflexivity.
Qed.

(* ---------------------------------------------------------------- insertion sort *)

Lemma insert_perm : forall x l, Permutation (insert x l) (x :: l).
Proof.
  induction l as [|y r IH]; simpl; [apply Permutation_refl|].
  destruct (x <=? y); [apply Permutation_refl|].
  apply perm_trans with (y :: x :: r); [constructor; exact IH|constructor].
Qed.

Lemma isort_perm : forall l, Permutation (isort l) l.
Proof.
  induction l as [|x r IH]; simpl; [constructor|].
  apply perm_trans with (x :: isort r); [apply insert_perm|constructor; exact IH].
Qed.

Lemma insert_sorted : forall x l, StronglySorted le l -> StronglySorted le (insert x l).
Proof.
  induction l as [|y r IH]; intros H; simpl.
  - constructor; constructor.
  - inversion H; subst. destruct (x <=? y) eqn:E.
    + apply Nat.leb_le in E. constructor; [exact H|]. constructor; [exact E|].
      eapply Forall_impl; [|exact H3]. intros; lia.
    + apply Nat.leb_gt in E. constructor; [apply IH; assumption|].
      apply (Permutation_Forall (Permutation_sym (insert_perm x r))).
      constructor; [lia|assumption].
Qed.

Lemma isort_sorted : forall l, StronglySorted le (isort l).
Proof. induction l as [|x r IH]; simpl; [constructor|]. apply insert_sorted. exact IH. Qed.

Lemma sorted_perm_eq : forall a b, StronglySorted le a -> StronglySorted le b -> Permutation a b -> a = b.
Proof.
  induction a as [|x a IH]; intros b Ha Hb HP.
  - apply Permutation_nil in HP. subst. reflexivity.
  - destruct b as [|y b]; [apply Permutation_sym, Permutation_nil in HP; discriminate|].
    inversion Ha; subst. inversion Hb; subst.
    assert (x = y).
    { assert (In x (y :: b)) by (apply (Permutation_in _ HP); left; reflexivity).
      assert (In y (x :: a)) by (apply (Permutation_in _ (Permutation_sym HP)); left; reflexivity).
      destruct H as [H|H]; [auto|]. destruct H0 as [H0|H0]; [auto|].
      rewrite Forall_forall in H2, H4. specialize (H2 _ H0). specialize (H4 _ H). lia. }
    subst y. f_equal. apply IH; try assumption. eapply Permutation_cons_inv. exact HP.
Qed.

Lemma asc_le : forall l, asc l -> StronglySorted le l.
Proof.
  intros l H. induction H as [|x r Hr IH Hx]; constructor; [exact IH|].
  eapply Forall_impl; [|exact Hx]. intros; lia.
Qed.

Lemma isort_of_perm : forall l s, Permutation l s -> asc s -> isort l = s.
Proof.
  intros l s HP Hs. apply sorted_perm_eq; [apply isort_sorted|apply asc_le; exact Hs|].
  apply perm_trans with l; [apply isort_perm|exact HP].
Qed.

Lemma asc_NoDup : forall l, asc l -> NoDup l.
Proof.
  intros l H. induction H as [|x r Hr IH Hx]; constructor; [|exact IH].
  intros Hin. rewrite Forall_forall in Hx. specialize (Hx _ Hin). lia.
Qed.

Lemma asc_app_l : forall a b, asc (a ++ b) -> asc a.
Proof.
  induction a as [|x a IH]; intros b H; [constructor|]. simpl in H. inversion H; subst.
  constructor; [eapply IH; eassumption|]. apply Forall_app in H3. tauto.
Qed.

Lemma asc_app_r : forall a b, asc (a ++ b) -> asc b.
Proof. induction a as [|x a IH]; intros b H; [exact H|]. simpl in H. inversion H; subst. auto. Qed.

Lemma asc_app_mid : forall a x b, asc (a ++ x :: b) -> asc (a ++ b).
Proof.
  induction a as [|y a IH]; intros x b H; simpl in *.
  - inversion H; subst. assumption.
  - inversion H; subst. constructor; [eapply IH; eassumption|].
    apply Forall_app in H3. destruct H3 as [H3 H4]. inversion H4; subst. apply Forall_app. tauto.
Qed.

Lemma filter_all : forall (A : Type) (p : A -> bool) l, (forall x, In x l -> p x = true) -> filter p l = l.
Proof.
  induction l as [|y l IH]; intros H; simpl; [reflexivity|].
  rewrite (H y) by (left; reflexivity). f_equal. apply IH. intros; apply H; right; assumption.
Qed.

(* removing the element at index k of a duplicate-free list = filtering it out (splitBin vs indiv) *)
Lemma remove_at_filter : forall c k x, NoDup c -> nth_error c k = Some x ->
  firstn k c ++ skipn (S k) c = filter (fun u => negb (u =? x)) c.
Proof.
  induction c as [|y c IH]; intros k x Hnd H; [destruct k; discriminate|].
  apply NoDup_cons_iff in Hnd. destruct Hnd as [Hy Hnd]. destruct k as [|k]; simpl in H.
  - inversion H; subst. simpl. rewrite Nat.eqb_refl. simpl.
    symmetry. apply filter_all.
    intros u Hu. apply negb_true_iff, Nat.eqb_neq. intros ->. contradiction.
  - simpl. assert (Hne : y <> x) by (intros ->; apply Hy; eapply nth_error_In; eassumption).
    apply Nat.eqb_neq in Hne. rewrite Hne. simpl. f_equal. apply IH; assumption.
Qed.

(* ---------------------------------------------------------------- lists *)

Lemma nth_firstn_lt : forall (A : Type) (l : list A) k i, i < k -> nth_error (firstn k l) i = nth_error l i.
Proof.
  induction l as [|y l IH]; intros k i H; [destruct k; reflexivity|].
  destruct k; [lia|]. destruct i; [reflexivity|]. simpl. apply IH. lia.
Qed.

Lemma F2_nth_r : forall (A B : Type) (Rel : A -> B -> Prop) l1 l2, Forall2 Rel l1 l2 ->
  forall k y, nth_error l2 k = Some y -> exists x, nth_error l1 k = Some x /\ Rel x y.
Proof.
  intros A B Rel l1 l2 H. induction H as [|x y l1 l2 Hxy _ IH]; intros k y0 Hk; [destruct k; discriminate|].
  destruct k; simpl in *; [inversion Hk; subst; eauto|apply IH; assumption].
Qed.

Lemma F2_nth_l : forall (A B : Type) (Rel : A -> B -> Prop) l1 l2, Forall2 Rel l1 l2 ->
  forall k x, nth_error l1 k = Some x -> exists y, nth_error l2 k = Some y /\ Rel x y.
Proof.
  intros A B Rel l1 l2 H. induction H as [|x y l1 l2 Hxy _ IH]; intros k x0 Hk; [destruct k; discriminate|].
  destruct k; simpl in *; [inversion Hk; subst; eauto|apply IH; assumption].
Qed.

Lemma firstn_app_exact : forall (A : Type) (l r : list A), firstn (length l) (l ++ r) = l.
Proof. intros. rewrite firstn_app, Nat.sub_diag, firstn_all. simpl. apply app_nil_r. Qed.

Lemma nth_error_app_exact : forall (A : Type) (l r : list A) x, nth_error (l ++ x :: r) (length l) = Some x.
Proof. intros. rewrite nth_error_app2 by lia. rewrite Nat.sub_diag. reflexivity. Qed.

Lemma NoDup_app_disj : forall (A : Type) (l1 l2 : list A) x, NoDup (l1 ++ l2) -> In x l1 -> In x l2 -> False.
Proof.
  induction l1 as [|y l1 IH]; intros l2 x H H1 H2; [contradiction|]. simpl in H. inversion H; subst.
  destruct H1 as [->|H1]; [apply H4; apply in_or_app; right; exact H2|eapply IH; eassumption].
Qed.


Lemma in_cell_spec : forall cs x, In x (order_of cs) -> exists c, nth_error cs (in_cell cs x) = Some c /\ In x (cverts c).
Proof.
  induction cs as [|c cs IH]; intros x H; [contradiction|]. rewrite order_of_cons in H. simpl.
  destruct (Canon.Perm.memb x (cverts c)) eqn:E.
  - exists c. split; [reflexivity|apply memb_In; exact E].
  - apply in_app_or in H. destruct H as [H|H]; [apply memb_In in H; congruence|]. apply IH. exact H.
Qed.

Lemma perm_filter_ne : forall (l : list nat) x, NoDup l -> In x l -> Permutation (x :: filter (fun u => negb (u =? x)) l) l.
Proof.
  induction l as [|y l IH]; intros x Hnd Hx; [contradiction|]. apply NoDup_cons_iff in Hnd. destruct Hnd as [Hy Hnd].
  simpl. destruct (y =? x) eqn:E; simpl.
  - apply Nat.eqb_eq in E. subst y. constructor. rewrite filter_all; [apply Permutation_refl|].
    intros u Hu. apply negb_true_iff, Nat.eqb_neq. intros ->. contradiction.
  - apply Nat.eqb_neq in E. destruct Hx as [Hx|Hx]; [congruence|].
    eapply perm_trans; [apply perm_swap|]. constructor. apply IH; assumption.
Qed.
