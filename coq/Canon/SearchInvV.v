(* Canon/SearchInvV.v — second layer of the invariant of the search: op.value and the records of
   the best and first leaf (certificates, inverse permutations), the generators found so far are
   class-preserving automorphisms, and firstLeafOrbits represents the closure of their cycles. *)
From Coq Require Import List Arith Bool ZArith Lia Permutation Sorted.
From Mamba Require Import Canon.Perm Canon.Iso Canon.Model Canon.Refine Canon.Sorted Canon.Tree Canon.Fuel
  Disjoint.Model Disjoint.Proofs Canon.SearchModel Canon.SearchHoare Canon.SearchCells Canon.SearchTarget
  Canon.SearchDeage Canon.SearchRefine Canon.SearchExec Canon.SearchValue Canon.SearchExpand Canon.SearchCert
  Canon.SearchInvT Canon.SearchVCT.
Import ListNotations.
Open Scope nat_scope.

(* ---------------------------------------------------------------- the index of the bin that was split *)

Fixpoint fage (a : Z) (cs : list acell) : nat :=
  match cs with
  | [] => 0
  | c :: r => if Z.eqb (cage c) a then 0 else S (fage a r)
  end.

Lemma fage_char : forall a cs b c, (forall k d, k < b -> nth_error cs k = Some d -> cage d <> a) ->
  nth_error cs b = Some c -> cage c = a -> fage a cs = b.
Proof.
  intros a. induction cs as [|c0 cs IH]; intros b c HB Hc Ha; [destruct b; discriminate|].
  destruct b as [|b]; simpl in *.
  - inversion Hc; subst c0. rewrite Ha, Z.eqb_refl. reflexivity.
  - assert (H0 : cage c0 <> a) by (apply (HB 0 c0); [lia|reflexivity]).
    apply Z.eqb_neq in H0. rewrite H0. f_equal. eapply IH; [|exact Hc|exact Ha].
    intros k d Hk Hd. apply (HB (S k) d); [lia|exact Hd].
Qed.

(* ---------------------------------------------------------------- classes *)

Section Classes.
Variable clsf : nat -> nat.
Variable order0 : list nat.

Definition Kc (cs : list acell) : Prop :=
  Forall (fun c => forall u v, In u (cverts c) -> In v (cverts c) -> clsf u = clsf v) cs /\
  map clsf (order_of cs) = map clsf order0.

Lemma map_const_eq : forall (l1 l2 : list nat) k, (forall x, In x l1 -> clsf x = k) -> (forall x, In x l2 -> clsf x = k) ->
  length l1 = length l2 -> map clsf l1 = map clsf l2.
Proof.
  induction l1 as [|x l1 IH]; intros [|y l2] k H1 H2 HL; simpl in *; try discriminate; [reflexivity|].
  rewrite (H1 x), (H2 y) by auto. f_equal. apply (IH l2 k); auto.
Qed.

Lemma Kc_V : forall a cs cs', V a cs cs' -> Kc cs -> Kc cs'.
Proof.
  intros a cs cs' (parts & HF & ->) [H1 H2].
  assert (G : Forall (fun c => forall u v, In u (cverts c) -> In v (cverts c) -> clsf u = clsf v) (concat parts) /\
              map clsf (order_of (concat parts)) = map clsf (order_of cs)).
  { clear H2. induction HF as [|c l cs parts Hc _ IH]; [split; [constructor|reflexivity]|].
    apply Forall_cons_iff in H1. destruct H1 as [H3 H4]. destruct (IH H4) as [I1 I2]. pose proof (vrep_order _ _ _ Hc) as HP.
    simpl. split.
    - apply Forall_app. split; [|exact I1]. apply Forall_forall. intros d Hd u v Hu Hv. apply H3.
      + apply (Permutation_in _ HP). rewrite order_of_flat. apply in_flat_map. eauto.
      + apply (Permutation_in _ HP). rewrite order_of_flat. apply in_flat_map. eauto.
    - rewrite order_of_app, order_of_cons, !map_app, I2. f_equal.
      destruct (cverts c) as [|x0 t] eqn:Ec.
      + apply Permutation_sym, Permutation_nil in HP. rewrite HP. reflexivity.
      + apply (map_const_eq _ _ (clsf x0)).
        * intros x Hx. apply H3; [apply (Permutation_in _ HP); exact Hx|left; reflexivity].
        * intros x Hx. apply H3; [exact Hx|left; reflexivity].
        * apply Permutation_length. exact HP. }
  destruct G as [G1 G2]. split; [exact G1|]. rewrite G2. exact H2.
Qed.

End Classes.

(* ---------------------------------------------------------------- inverse permutations *)

Section Records.
Variable g : graph.
Variables n m : nat.
Variable clsf : nat -> nat.
Variable order0 : list nat.

Definition inverse (p q : list nat) : Prop :=
  length q = n /\ forall i, i < n -> nth_error q (nth i p 0) = Some i.

Lemma upd_chk_spec : forall l i v l', upd_chk l i v = Some l' ->
  i < length l /\ length l' = length l /\ nth_error l' i = Some v /\ forall j, j <> i -> nth_error l' j = nth_error l j.
Proof.
  intros l i v l' H. unfold upd_chk in H. destruct (i <? length l) eqn:E; [|discriminate]. apply Nat.ltb_lt in E.
  inversion H; subst. split; [exact E|]. split; [apply upd_length|].
  clear H. revert i E. induction l as [|x l IH]; intros i E; [simpl in E; lia|].
  destruct i; simpl.
  - split; [reflexivity|]. intros j Hj. destruct j; [congruence|reflexivity].
  - simpl in E. destruct (IH i ltac:(lia)) as [I1 I2]. split; [exact I1|]. intros j Hj. destruct j; [reflexivity|]. simpl. apply I2. lia.
Qed.

Lemma inv_into_spec : forall order i arr q, inv_into arr order i = Some q -> NoDup order ->
  length q = length arr /\ (forall k, k < length order -> nth_error q (nth k order 0) = Some (i + k)) /\
  (forall v, ~ In v order -> nth_error q v = nth_error arr v).
Proof.
  induction order as [|x order IH]; intros i arr q H Hnd; simpl in H.
  - inversion H; subst. split; [reflexivity|]. split; [intros k Hk; simpl in Hk; lia|reflexivity].
  - destruct (upd_chk arr x i) as [arr'|] eqn:EU; [|discriminate]. inversion Hnd; subst.
    destruct (upd_chk_spec _ _ _ _ EU) as (U1 & U2 & U3 & U4).
    destruct (IH _ _ _ H H3) as (I1 & I2 & I3). split; [lia|]. split.
    + intros k Hk. destruct k as [|k]; simpl.
      * rewrite I3 by assumption. rewrite U3. f_equal. lia.
      * simpl in Hk. rewrite I2 by lia. f_equal. lia.
    + intros v Hv. rewrite I3 by (intros Hin; apply Hv; right; exact Hin). apply U4. intros ->. apply Hv. left. reflexivity.
Qed.

Lemma inv_into_inverse : forall order arr q, inv_into arr order 0 = Some q -> Permutation order (seq 0 n) ->
  length arr = n -> inverse order q.
Proof.
  intros order arr q H HP HL. pose proof (Permutation_length HP) as HLo. rewrite seq_length in HLo.
  assert (Hnd : NoDup order) by (apply (Permutation_NoDup (Permutation_sym HP)), seq_NoDup).
  destruct (inv_into_spec _ _ _ _ H Hnd) as (I1 & I2 & _). split; [lia|]. intros i Hi. apply (I2 i). lia.
Qed.

Lemma gamma_of_spec : forall order inv is gam, gamma_of order inv is = Some gam ->
  length gam = length is /\
  forall j i, nth_error is j = Some i -> exists k, nth_error inv i = Some k /\ nth_error order k = Some (nth j gam 0).
Proof.
  intros order inv. induction is as [|i0 is IH]; intros gam H; simpl in H.
  - inversion H; subst. split; [reflexivity|]. intros j i Hj. destruct j; discriminate.
  - destruct (nth_error inv i0) as [k|] eqn:E1; [|discriminate].
    destruct (nth_error order k) as [v|] eqn:E2; [|discriminate].
    destruct (gamma_of order inv is) as [t|] eqn:E3; [|discriminate]. inversion H; subst.
    destruct (IH _ eq_refl) as [I1 I2]. split; [simpl; lia|]. intros j i Hj. destruct j; simpl in *.
    + inversion Hj; subst. eauto.
    + apply I2. exact Hj.
Qed.

(* ---------------------------------------------------------------- automorphisms *)

Definition isaut (gam : list nat) : Prop :=
  Permutation gam (seq 0 n) /\
  (forall u v, u < n -> v < n -> adjb g (nth u gam 0) (nth v gam 0) = adjb g u v) /\
  (forall u, u < n -> clsf (nth u gam 0) = clsf u).

(* the composition "current leaf after the inverse of a recorded leaf with the same certificate" *)
Lemma gam_aut : forall cs csq qinv gam, simple g -> length g = n ->
  leafp n cs -> leafp n csq -> Kc clsf order0 cs -> Kc clsf order0 csq ->
  good g n cs n = good g n csq n -> inverse (order_of csq) qinv ->
  gamma_of (order_of cs) qinv (seq 0 n) = Some gam -> isaut gam.
Proof.
  intros cs csq qinv gam Hg Hn HL HLq [_ HK] [_ HKq] HE [HI1 HI2] HG.
  destruct (leafp_length _ _ HL) as (L1 & L2 & Hnd). destruct (leafp_length _ _ HLq) as (Q1 & Q2 & Hndq).
  pose proof HL as [_ HP]. pose proof HLq as [_ HPq].
  set (p := order_of cs) in *. set (q := order_of csq) in *.
  destruct (gamma_of_spec _ _ _ _ HG) as [G1 G2]. rewrite seq_length in G1.
  (* gam (q_a) = p_a *)
  assert (Hgq : forall a, a < n -> nth (nth a q 0) gam 0 = nth a p 0).
  { intros a Ha.
    assert (Hqa : nth a q 0 < n).
    { assert (In (nth a q 0) (seq 0 n)) by (apply (Permutation_in _ HPq); apply nth_In; lia). apply in_seq in H. lia. }
    destruct (G2 (nth a q 0) (nth a q 0)) as (k & K1 & K2).
    - rewrite nth_error_nth' with (d := 0) by (rewrite seq_length; lia). rewrite seq_nth by lia. reflexivity.
    - rewrite (HI2 a Ha) in K1. inversion K1; subst k. symmetry. apply nth_error_nth. exact K2. }
  (* every vertex is some q_a *)
  assert (Hsur : forall u, u < n -> exists a, a < n /\ nth a q 0 = u).
  { intros u Hu. assert (In u q) by (apply (Permutation_in _ (Permutation_sym HPq)); apply in_seq; lia).
    apply In_nth with (d := 0) in H. destruct H as (a & Ha & E). exists a. split; [lia|exact E]. }
  pose proof (cert_eq_relabel g n cs csq Hg Hn HL HLq HE) as HR. fold p q in HR.
  split; [|split].
  - (* permutation *)
    apply NoDup_Permutation_bis; [| |].
    + (* NoDup gam *) apply NoDup_nth with (d := 0). intros i j Hi Hj E. rewrite G1 in Hi, Hj.
      destruct (Hsur i Hi) as (a & Ha & <-). destruct (Hsur j Hj) as (b & Hb & <-).
      rewrite !Hgq in E by assumption. f_equal.
      apply (proj1 (NoDup_nth p 0) Hnd); [lia|lia|exact E].
    + rewrite seq_length. lia.
    + intros x Hx. apply In_nth with (d := 0) in Hx. destruct Hx as (i & Hi & <-). rewrite G1 in Hi.
      destruct (Hsur i Hi) as (a & Ha & <-). rewrite Hgq by assumption.
      apply (Permutation_in _ HP). apply nth_In. lia.
  - intros u v Hu Hv. destruct (Hsur u Hu) as (a & Ha & <-). destruct (Hsur v Hv) as (b & Hb & <-).
    rewrite !Hgq by assumption.
    assert (E1 : adjb (relabel g p) a b = adjb g (nth a p 0) (nth b p 0))
      by (rewrite adjb_relabel by lia; rewrite !(papp_nth _ _ 0) by lia; reflexivity).
    assert (E2 : adjb (relabel g q) a b = adjb g (nth a q 0) (nth b q 0))
      by (rewrite adjb_relabel by lia; rewrite !(papp_nth _ _ 0) by lia; reflexivity).
    rewrite <- E1, <- E2, HR. reflexivity.
  - intros u Hu. destruct (Hsur u Hu) as (a & Ha & <-). rewrite Hgq by assumption.
    assert (forall (l : list nat) i, i < length l -> clsf (nth i l 0) = nth i (map clsf l) (clsf 0)).
    { intros l i Hi. rewrite map_nth. reflexivity. }
    rewrite (H p) by lia. rewrite (H q) by lia. fold p in HK. fold q in HKq. rewrite HK, HKq. reflexivity.
Qed.

(* ---------------------------------------------------------------- orbits *)

Definition gam_ok (gam : list nat) : Prop := length gam = n /\ forall i, i < n -> nth i gam 0 < n.

Lemma isaut_gam_ok : forall gam, isaut gam -> gam_ok gam.
Proof.
  intros gam [HP _]. pose proof (Permutation_length HP) as HL. rewrite seq_length in HL. split; [exact HL|].
  intros i Hi. assert (In (nth i gam 0) (seq 0 n)) by (apply (Permutation_in _ HP); apply nth_In; lia).
  apply in_seq in H. lia.
Qed.

Lemma conn_app_l : forall k ps ex x y, conn k ps x y -> conn k (ps ++ ex) x y.
Proof. intros k ps ex x y H. eapply conn_mono; [|exact H]. apply incl_appl, incl_refl. Qed.

Lemma find_Rep : forall ds ps x d r, Rep n ds ps -> x < n -> find ds x = Some (d, r) -> Rep n d ps.
Proof.
  intros ds ps x d r HR Hx HF. destruct (step_Rep n ds ps (OFind x) HR Hx) as (d' & Hs & HR').
  simpl in Hs. rewrite HF in Hs. inversion Hs; subst. simpl in HR'. rewrite app_nil_r in HR'. exact HR'.
Qed.

Lemma orb_loop_spec : forall is gam ds b0 ds' b ps, Rep n ds ps -> (forall i, In i is -> i < n) -> gam_ok gam ->
  orb_loop is gam ds b0 = Some (ds', b) ->
  exists ex, Rep n ds' (ps ++ ex) /\ (forall x y, In (x, y) ex -> x < n /\ y = nth x gam 0) /\
    (forall i, In i is -> conn n (ps ++ ex) i (nth i gam 0)) /\ (b = false -> ex = [] /\ b0 = false).
Proof.
  induction is as [|i is IH]; intros gam ds b0 ds' b ps HR His [HG1 HG2] H; simpl in H.
  - injection H as <- <-. exists []. rewrite app_nil_r. split; [exact HR|]. split; [intros x y []|]. split; [intros i []|].
    intros Hb. split; [reflexivity|exact Hb].
  - assert (Hi : i < n) by (apply His; left; reflexivity).
    destruct (nth_error gam i) as [t|] eqn:Et; [|discriminate].
    assert (Etn : t = nth i gam 0) by (symmetry; apply nth_error_nth; exact Et).
    assert (Ht : t < n) by (rewrite Etn; apply HG2; exact Hi).
    destruct (find_eq_iff_conn n ds ps t i HR Ht Hi) as (d1 & d2 & rt & ri & F1 & F2 & Hiff & HR2).
    rewrite F1, F2 in H. destruct (rt =? ri) eqn:Er.
    + apply Nat.eqb_eq in Er. destruct (IH gam d2 b0 ds' b ps HR2 ltac:(intros; apply His; right; assumption) (conj HG1 HG2) H)
        as (ex & E1 & E2 & E3 & E4).
      exists ex. split; [exact E1|]. split; [exact E2|]. split; [|exact E4].
      intros j [<-|Hj]; [|apply E3; exact Hj]. apply conn_app_l. apply c_sym. rewrite <- Etn. apply Hiff. exact Er.
    + destruct (union d2 i t) as [d3|] eqn:EU; [|discriminate].
      destruct (step_Rep n d2 ps (OUnion i t) HR2 (conj Hi Ht)) as (d3' & Hs & HR3). simpl in Hs. rewrite EU in Hs.
      inversion Hs; subst d3'. simpl in HR3.
      destruct (IH gam d3 true ds' b (ps ++ [(i, t)]) HR3 ltac:(intros; apply His; right; assumption) (conj HG1 HG2) H)
        as (ex & E1 & E2 & E3 & E4).
      exists ((i, t) :: ex). rewrite <- app_assoc in E1, E3. simpl in E1, E3. split; [exact E1|]. split; [|split].
      * intros x y [E|Hin]; [inversion E; subst; split; [exact Hi|reflexivity]|apply E2; exact Hin].
      * intros j [<-|Hj]; [|apply E3; exact Hj]. apply c_pair. apply in_or_app. right. left. rewrite Etn. reflexivity.
      * intros Hb. destruct (E4 Hb) as [_ E5]. discriminate.
Qed.

Lemma mate_loop_Rep : forall earlier ds r d b ps, Rep n ds ps -> (forall u, In u earlier -> u < n) ->
  mate_loop ds earlier r = Some (d, b) -> Rep n d ps.
Proof.
  induction earlier as [|u earlier IH]; intros ds r d b ps HR HE H; simpl in H.
  - inversion H; subst. exact HR.
  - destruct (find ds u) as [[d1 ru]|] eqn:EF; [|discriminate].
    pose proof (find_Rep _ _ _ _ _ HR (HE u (or_introl eq_refl)) EF) as HR1.
    destruct (ru =? r); [inversion H; subst; exact HR1|].
    eapply IH; [exact HR1| |exact H]. intros; apply HE; right; assumption.
Qed.

Lemma has_earlier_mate_Rep : forall earlier ds v d b ps, Rep n ds ps -> v < n -> (forall u, In u earlier -> u < n) ->
  has_earlier_mate ds earlier v = Some (d, b) -> Rep n d ps.
Proof.
  intros earlier ds v d b ps HR Hv HE H. unfold has_earlier_mate in H.
  destruct (find ds v) as [[d1 r]|] eqn:EF; [|discriminate].
  eapply mate_loop_Rep; [eapply find_Rep; eassumption|exact HE|exact H].
Qed.

(* ---------------------------------------------------------------- the records *)

Record recs (st : sstate) : Prop := mk_recs {
  r_lens : length (s_cbInv st) = n /\ length (s_flInv st) = n /\ length (s_fl st) = m /\ length (s_flOrb st) = n;
  r_zero : (s_cb st = [] <-> s_count st = 0) /\ (s_cb st = [] -> s_gens st = []);
  r_best : s_cb st <> [] -> exists csb, leafp n csb /\ Kc clsf order0 csb /\ s_cbPerm st = order_of csb /\
             s_cb st = good g n csb n /\ inverse (order_of csb) (s_cbInv st);
  r_first : s_cb st <> [] -> exists csf, leafp n csf /\ Kc clsf order0 csf /\
             s_fl st = good g n csf n /\ inverse (order_of csf) (s_flInv st);
  r_gens : Forall isaut (s_gens st);
  r_orb : exists psF, Rep n (s_flOrb st) psF /\
            (forall x y, In (x, y) psF -> exists gam, In gam (s_gens st) /\ x < n /\ y = nth x gam 0) /\
            (forall gam x, In gam (s_gens st) -> x < n -> conn n psF x (nth x gam 0)) }.

Lemma recs_ext : forall st st', s_count st' = s_count st -> s_cb st' = s_cb st -> s_cbPerm st' = s_cbPerm st ->
  s_cbInv st' = s_cbInv st -> s_fl st' = s_fl st -> s_flInv st' = s_flInv st -> s_flOrb st' = s_flOrb st ->
  s_gens st' = s_gens st -> recs st -> recs st'.
Proof.
  intros st st' E1 E2 E3 E4 E5 E6 E7 E8 [R1 R2 R3 R4 R5 R6]. constructor; rewrite ?E1, ?E2, ?E3, ?E4, ?E5, ?E6, ?E7, ?E8; assumption.
Qed.

(* ---------------------------------------------------------------- op.value along the search *)

Definition vst (st : sstate) : Prop :=
  let ps := s_ps st in
  if s_skip st then uinv g n (p_cells ps) (p_value ps) (p_spl ps) (s_cb st) (s_fl st)
  else match s_path st with
       | [] => vinv g n (p_cells ps) (p_value ps) (p_spl ps) (s_cb st) (s_fl st)
       | _ :: _ => cinv g n (fage (p_age ps) (p_cells ps)) (p_cells ps) (p_value ps) (p_spl ps) (s_cb st) (s_fl st)
       end.

(* not cut off: the value is exactly the entries of the singleton prefix *)
Definition cclean (st : sstate) : Prop :=
  let ps := s_ps st in
  clean g n (p_cells ps) (p_value ps) (p_spl ps) /\
  (s_path st <> [] -> fage (p_age ps) (p_cells ps) < p_spl ps).

End Records.
