(* Canon/SearchReuseCap.v — first half of the noninterference proof for a reused CanonicalStorage
   (Canon/SearchReuseModel.v): capacities.  Wherever the fresh model (cap(currentBest) =
   cap(firstLeaf) = m) does not panic, re-slicing currentBest/firstLeaf to len(op.value) stays below
   their LIVE length m, so the stale cells between m and the real capacity are never exposed; and
   while currentBest is still empty firstLeaf is not looked at at all.  Hence expandValue, splitBin
   and the refinement of the reuse model compute what the fresh ones compute. *)
From Coq Require Import List Arith Bool ZArith Lia.
From Mamba Require Import Canon.Perm Canon.Iso Canon.Model Disjoint.Model Canon.SearchModel Canon.SearchHoare
  Canon.SearchReuseModel.
Import ListNotations.
Open Scope nat_scope.

(* ---------------------------------------------------------------- results of two runs *)

(* the second run does what the first does, unless the first panics *)
Definition rel_res {A B : Type} (R : A -> B -> Prop) (x : res A) (y : res B) : Prop :=
  match x with
  | Ok a => exists b, y = Ok b /\ R a b
  | Fuel => y = Fuel
  | Panic => True
  end.

Lemma rel_bind : forall (A B A' B' : Type) (R : A -> A' -> Prop) (S : B -> B' -> Prop)
  (x : res A) (y : res A') (f : A -> res B) (f' : A' -> res B'),
  rel_res R x y -> (forall a a', x = Ok a -> R a a' -> rel_res S (f a) (f' a')) ->
  rel_res S (bind x f) (bind y f').
Proof.
  intros A B A' B' R S x y f f' H HF. destruct x as [a| |]; simpl in *.
  - destruct H as (b & -> & HR). simpl. apply HF; [reflexivity|exact HR].
  - exact I.
  - subst y. reflexivity.
Qed.

Lemma rel_eq_same : forall (A : Type) (x : res A), rel_res eq x x.
Proof. intros A [a| |]; simpl; eauto. Qed.

Lemma rel_eq_of : forall (A : Type) (x y : res A), x <> Panic -> x = y -> rel_res eq x y.
Proof. intros A x y _ <-. apply rel_eq_same. Qed.

Lemma rel_eq_elim : forall (A : Type) (x y : res A), rel_res eq x y -> x <> Panic -> y = x.
Proof.
  intros A [a| |] y H HP; simpl in H; [|congruence|exact H]. destruct H as (b & -> & ->). reflexivity.
Qed.

Lemma rel_res_impl : forall (A B : Type) (R S : A -> B -> Prop) x y,
  (forall a b, x = Ok a -> R a b -> S a b) -> rel_res R x y -> rel_res S x y.
Proof.
  intros A B R S [a| |] y H HR; simpl in *; auto. destruct HR as (b & -> & HR). exists b. split; [reflexivity|auto].
Qed.

(* ---------------------------------------------------------------- slices *)

Lemma slice_to_live : forall back cur k, k <= length cur -> length cur <= length back ->
  slice_to back cur k = Some (firstn k cur).
Proof.
  intros back cur k Hk Hb. unfold slice_to. assert (E : k <=? length back = true) by (apply Nat.leb_le; lia).
  rewrite E. f_equal. rewrite firstn_app. replace (k - length cur) with 0 by lia. simpl. apply app_nil_r.
Qed.

Lemma slice_to_nil : forall back k, k <= length back -> slice_to back [] k = Some (firstn k back).
Proof.
  intros back k Hk. unfold slice_to. assert (E : k <=? length back = true) by (apply Nat.leb_le; lia).
  rewrite E. reflexivity.
Qed.

Lemma reslice_some : forall (A : Type) (l : list A) k, k <= length l ->
  reslice l k = Some (firstn k l) /\ length (firstn k l) = k.
Proof.
  intros A l k H. unfold reslice. assert (E : k <=? length l = true) by (apply Nat.leb_le; lia).
  rewrite E. split; [reflexivity|]. rewrite firstn_length. lia.
Qed.

(* ---------------------------------------------------------------- expandValue and what calls it *)

Section Cap.
Variable g : graph.
Variables n m : nat.
Variables cbB flB : list nat.
Hypothesis HcbB : m <= length cbB.
Hypothesis HflB : m <= length flB.

(* currentBest is empty (then firstLeaf may hold anything), or both records are live on m cells
   and firstLeaf is the same in the two runs *)
Definition cbfl_ok (cb fl fl' : list nat) : Prop :=
  cb = [] \/ (fl' = fl /\ length cb = m /\ length fl = m).

Lemma expand_loop_sim : forall k cs cb fl fl' value j, cbfl_ok cb fl fl' ->
  expand_loop k g cs n m cb fl value j <> EvPanic ->
  expand_loop_r g n cbB flB k cs cb fl' value j = expand_loop k g cs n m cb fl value j.
Proof.
  induction k as [|k IH]; intros cs cb fl fl' value j Hok HNP; [reflexivity|].
  simpl in *. destruct (nth_error cs j) as [c|]; [|reflexivity].
  destruct (length (cverts c) =? 1); [|reflexivity].
  destruct (nth_error (order_of cs) j) as [u|]; [|reflexivity].
  destruct cb as [|x cb'].
  - apply IH; [left; reflexivity|exact HNP].
  - destruct Hok as [Hnil|(-> & Lcb & Lfl)]; [discriminate|].
    set (value' := value ++ entries g cs n j u) in *.
    destruct (m <? length value') eqn:EL; [congruence|]. apply Nat.ltb_ge in EL.
    rewrite (slice_to_live cbB (x :: cb') (length value')) by lia.
    destruct (cmp_list value' (firstn (length value') (x :: cb'))) eqn:EC.
    + apply IH; [right; auto|exact HNP].
    + rewrite (slice_to_live flB fl (length value')) by lia.
      destruct (cmp_list value' (firstn (length value') fl)) eqn:EF; try reflexivity.
      apply IH; [right; auto|exact HNP].
    + apply IH; [right; auto|exact HNP].
Qed.

Lemma expand_value_sim : forall cs cb fl fl' value spl, cbfl_ok cb fl fl' ->
  expand_value g cs n m cb fl value spl <> EvPanic ->
  expand_value_r g n cbB flB cs cb fl' value spl = expand_value g cs n m cb fl value spl.
Proof. intros. unfold expand_value_r, expand_value in *. apply expand_loop_sim; assumption. Qed.

Lemma split_bin_sim : forall cb fl fl' ps i, cbfl_ok cb fl fl' ->
  split_bin g n m cb fl ps i <> Panic ->
  split_bin_r g n cbB flB cb fl' ps i = split_bin g n m cb fl ps i.
Proof.
  intros cb fl fl' ps i Hok HNP. unfold split_bin_r, split_bin in *.
  destruct (locate (p_cells ps) i) as [[[[b c] k] a]|]; [|reflexivity].
  destruct (nth_error (cverts c) k) as [x|]; [|reflexivity].
  destruct (length b =? p_spl ps); [|reflexivity].
  rewrite (expand_value_sim _ cb fl fl'); [reflexivity|exact Hok|].
  intros E. rewrite E in HNP. congruence.
Qed.

Lemma round_loop_sim : forall cb fl fl' w age pre_rev post value spl, cbfl_ok cb fl fl' ->
  round_loop g n m cb fl w age pre_rev post value spl <> RrPanic ->
  round_loop_r g n cbB flB cb fl' w age pre_rev post value spl = round_loop g n m cb fl w age pre_rev post value spl.
Proof.
  intros cb fl fl' w age pre_rev. induction pre_rev as [|c pre' IH]; intros post value spl Hok HNP; [reflexivity|].
  simpl in *. destruct (uniform g w (cverts c)); [apply IH; assumption|].
  destruct (length pre' =? spl); [|apply IH; assumption].
  rewrite (expand_value_sim _ cb fl fl'); [|exact Hok|].
  - destruct (expand_value g (rev pre' ++ with_ages age (cage c) (fragments g w (cverts c)) ++ post) n m cb fl value spl);
      try reflexivity. apply IH; assumption.
  - intros E. rewrite E in HNP. congruence.
Qed.

Lemma refine_loop_sim : forall k cb fl fl' ps, cbfl_ok cb fl fl' ->
  refine_loop k g n m cb fl ps <> Panic ->
  refine_loop_r g n cbB flB k cb fl' ps = refine_loop k g n m cb fl ps.
Proof.
  induction k as [|k IH]; intros cb fl fl' ps Hok HNP; simpl in *.
  - destruct (pick_a (p_cells ps)) as [[P' w]|]; reflexivity.
  - destruct (pick_a (p_cells ps)) as [[P' w]|]; [|reflexivity].
    rewrite (round_loop_sim cb fl fl'); [|exact Hok|].
    + destruct (round_loop g n m cb fl w (p_age ps) (rev P') [] (p_value ps) (p_spl ps)); try reflexivity.
      apply IH; assumption.
    + intros E. rewrite E in HNP. congruence.
Qed.

Lemma refine_s_sim : forall cb fl fl' ps, cbfl_ok cb fl fl' ->
  refine_s g n m cb fl ps <> Panic ->
  refine_s_r g n cbB flB cb fl' ps = refine_s g n m cb fl ps.
Proof. intros. unfold refine_s_r, refine_s in *. apply refine_loop_sim; assumption. Qed.

End Cap.
